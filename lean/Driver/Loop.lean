import Driver.Util
/-! Line loop of the model driver (`lake env lean --run Driver/Run/Cnn.lean`). Reads one JSON request per line and
answers one JSON line each, in order. Unknown operations answer `bad-op`; the driver never defaults. -/
open Lean
namespace Drv

def answer (dispatch : String → Json → Option (R Json)) (line : String) : Json :=
  match Json.parse line with
  | .error e => errJ s!"bad-json: {e}"
  | .ok j =>
    match getStr j "op" with
    | .error _ => errJ "bad-op"
    | .ok op =>
      match dispatch op j with
      | none => errJ "bad-op"
      | some (.error e) => errJ s!"bad-request: {e}"
      | some (.ok r) => r

partial def loop (dispatch : String → Json → Option (R Json)) (h out : IO.FS.Stream) : IO Unit := do
  let line ← h.getLine
  if line.isEmpty then return ()
  if line.trimAscii.isEmpty then loop dispatch h out else
  out.putStrLn (answer dispatch line).compress
  loop dispatch h out

def mainLoop (dispatch : String → Json → Option (R Json)) : IO Unit := do
  let out ← IO.getStdout
  loop dispatch (← IO.getStdin) out
  out.flush

end Drv
