import Lean.Data.Json
import LentilVerif.Model.Field
/-! Line-protocol helpers for the model driver. One JSON object per line in, one per line out. -/
open Lean Lentil

namespace Drv

/-- Gaussian integers: exact arithmetic for data that is integer-valued on the Python side -/
structure GI where
  re : Int
  im : Int
deriving Repr, DecidableEq, Inhabited
instance : Add GI := ⟨fun a b => ⟨a.re + b.re, a.im + b.im⟩⟩
instance : Mul GI := ⟨fun a b => ⟨a.re * b.re - a.im * b.im, a.re * b.im + a.im * b.re⟩⟩
instance : Zero GI := ⟨⟨0, 0⟩⟩
instance : Neg GI := ⟨fun a => ⟨-a.re, -a.im⟩⟩
instance : Sub GI := ⟨fun a b => ⟨a.re - b.re, a.im - b.im⟩⟩
def GI.normSq (a : GI) : GI := ⟨a.re * a.re + a.im * a.im, 0⟩

/-- complex doubles -/
structure CF where
  re : Float
  im : Float
deriving Inhabited
instance : Add CF := ⟨fun a b => ⟨a.re + b.re, a.im + b.im⟩⟩
instance : Sub CF := ⟨fun a b => ⟨a.re - b.re, a.im - b.im⟩⟩
instance : Mul CF := ⟨fun a b => ⟨a.re * b.re - a.im * b.im, a.re * b.im + a.im * b.re⟩⟩
instance : Zero CF := ⟨⟨0, 0⟩⟩
instance : Neg CF := ⟨fun a => ⟨-a.re, -a.im⟩⟩

abbrev R := Except String

def getInt (j : Json) (k : String) : R Int := do (← j.getObjVal? k).getInt?
def getNat (j : Json) (k : String) : R Nat := do (← j.getObjVal? k).getNat?
def getStr (j : Json) (k : String) : R String := do (← j.getObjVal? k).getStr?
def getBool (j : Json) (k : String) : R Bool := do (← j.getObjVal? k).getBool?
def getArr (j : Json) (k : String) : R (Array Json) := do (← j.getObjVal? k).getArr?
def getInts (j : Json) (k : String) : R (Array Int) := do (← getArr j k).mapM (·.getInt?)
def optVal (j : Json) (k : String) : Option Json := (j.getObjVal? k).toOption

/-- floats cross the pipe as IEEE-754 bit patterns (unsigned 64-bit integers) -/
def floatOfJson (j : Json) : R Float := do
  let n ← j.getNat?
  pure (Float.ofBits (UInt64.ofNat n))
def floatToJson (x : Float) : Json := Json.num (JsonNumber.fromNat x.toBits.toNat)
def getFloat (j : Json) (k : String) : R Float := do floatOfJson (← j.getObjVal? k)
def getFloats (j : Json) (k : String) : R (Array Float) := do (← getArr j k).mapM floatOfJson

def ints (a : Array Int) : Json := Json.arr (a.map fun i => Json.num (JsonNumber.fromInt i))
def intJ (i : Int) : Json := Json.num (JsonNumber.fromInt i)

/-- array accessor from row-major data -/
def mkGet {K} [Inhabited K] (s1 : Int) (d : Array K) : Int → Int → K :=
  fun i j => d[(i * s1 + j).toNat]!

def idxList (s0 s1 : Int) : List (Int × Int) :=
  (List.range s0.toNat).flatMap fun (i : Nat) => (List.range s1.toNat).map fun (j : Nat) => (Int.ofNat i, Int.ofNat j)

/-- {"shape":[s0,s1],"off":[o0,o1],"re":[..],"im":[..]} → Gaussian-integer field -/
def fldOfJson (j : Json) : R (Fld GI) := do
  let sh ← getInts j "shape"
  let off ← getInts j "off"
  let re ← getInts j "re"
  let im ← getInts j "im"
  let d : Array GI := (Array.range re.size).map fun k => ⟨re[k]!, im[k]!⟩
  pure { arr := { s0 := sh[0]!, s1 := sh[1]!, get := mkGet sh[1]! d }, o0 := off[0]!, o1 := off[1]! }

def arrOfJson (j : Json) : R (Arr GI) := do
  let sh ← getInts j "shape"
  let re ← getInts j "re"
  let im ← getInts j "im"
  let d : Array GI := (Array.range re.size).map fun k => ⟨re[k]!, im[k]!⟩
  pure { s0 := sh[0]!, s1 := sh[1]!, get := mkGet sh[1]! d }

def arrToJson (a : Arr GI) : Json :=
  let cells := (idxList a.s0 a.s1).map fun (i, j) => a.get i j
  Json.mkObj [("shape", ints #[a.s0, a.s1]),
              ("re", ints (cells.map (·.re)).toArray), ("im", ints (cells.map (·.im)).toArray)]

def fldToJson (f : Fld GI) : Json :=
  (arrToJson f.arr).mergeObj (Json.mkObj [("off", ints #[f.o0, f.o1])])

def extToJson (e : Extent) : Json := ints #[e.rmin, e.rmax, e.cmin, e.cmax]
def extOfJson (j : Json) (k : String) : R Extent := do
  let a ← getInts j k
  pure ⟨a[0]!, a[1]!, a[2]!, a[3]!⟩

def okJ (fields : List (String × Json)) : Json := Json.mkObj (("ok", Json.bool true) :: fields)
def errJ (e : String) : Json := Json.mkObj [("ok", Json.bool false), ("err", Json.str e)]

end Drv

/-! JSON rendering of the result types the translator emits (used by the generated `Driver/GenEval/*.lean`) -/
namespace Drv
class ToJ (α : Type) where
  toJ : α → Lean.Json
instance : ToJ Int := ⟨intJ⟩
instance : ToJ Bool := ⟨Lean.Json.bool⟩
instance : ToJ Unit := ⟨fun _ => Lean.Json.arr #[]⟩
instance {α β} [ToJ α] [ToJ β] : ToJ (α × β) := ⟨fun p => Lean.Json.arr #[ToJ.toJ p.1, ToJ.toJ p.2]⟩
instance {α} [ToJ α] : ToJ (Option α) := ⟨fun o => match o with | none => Lean.Json.arr #[] | some v => ToJ.toJ v⟩
instance {α} [ToJ α] : ToJ (Except String α) :=
  ⟨fun o => match o with | .error e => Lean.Json.mkObj [("exc", Lean.Json.str e)] | .ok v => ToJ.toJ v⟩
end Drv
