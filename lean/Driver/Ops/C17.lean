import Driver.Util
import LentilVerif.Model.Rescale
/-! Driver ops for C17: sampling bookkeeping of rescale/resample at exact rationals (core `Rat`). -/
open Lean Drv
namespace Ops.C17
open Lentil.Resc

def ratOf (j : Json) (k : String) : R Rat := do
  let a ← getInts j k
  pure (mkRat a[0]! a[1]!.toNat)
def ratJ (q : Rat) : Json := ints #[q.num, (q.den : Int)]

def handle (op : String) (j : Json) : Option (R Json) :=
  match op with
  | "rs.coords" => some do
      -- the whole interpolation grid of util.rescale, exact
      let sh ← getInts j "shape"
      let s ← ratOf j "scale"
      -- `prod`: the float64 products fl(n·s) as the code forms them (exact rationals of those doubles); the sample count is the
      -- ceiling of THAT number — it can differ by one from ⌈n·s⌉ when n·s is within an ulp of an integer (float seam, see ASSUMPTIONS)
      let (S0, S1) ← match optVal j "prod" with
        | some (Json.arr a) => do
            let p0 ← a[0]!.getArr?; let p1 ← a[1]!.getArr?
            pure (Rat.ceil (mkRat (← p0[0]!.getInt?) (← p0[1]!.getNat?)), Rat.ceil (mkRat (← p1[0]!.getInt?) (← p1[1]!.getNat?)))
        | _ => pure (gridShape Rat.ceil (fun k => (k : Rat)) sh[0]! sh[1]! s)
      -- the coordinates come from the regenerated grid (Gen.rescaleCoordY / rescaleCoordX through gridRow / gridCol)
      let ys := (List.range S0.toNat).map fun (t : Nat) => ratJ (gridRow (fun k => (k : Rat)) 2 S0 S1 sh[0]! sh[1]! s t)
      let xs := (List.range S1.toNat).map fun (t : Nat) => ratJ (gridCol (fun k => (k : Rat)) 2 S0 S1 sh[0]! sh[1]! s t)
      pure (okJ [("shape", ints #[S0, S1]), ("y", Json.arr ys.toArray), ("x", Json.arr xs.toArray),
                 ("exact_shape", ints #[outShape Rat.ceil (fun k => (k : Rat)) sh[0]! s, outShape Rat.ceil (fun k => (k : Rat)) sh[1]! s])])
  | "rs.coords_arg" => some do
      -- util.rescale with an explicit `shape=` argument: `arg` = [m] (scalar) or [m0, m1] (pair); the output shape comes from the
      -- regenerated branches (gridShapeArg), the coordinates from the regenerated grid at that shape. `prod`: the float64 products
      -- fl(m·s) the code forms (float seam as in rs.coords)
      let sh ← getInts j "shape"
      let s ← ratOf j "scale"
      let a ← getInts j "arg"
      let arg : ShapeArg := if a.size = 1 then .scalar a[0]! else .pair a[0]! a[1]!
      let exact := gridShapeArg Rat.ceil (fun k => (k : Rat)) sh[0]! sh[1]! arg s
      let (S0, S1) ← match optVal j "prod" with
        | some (Json.arr p) => do
            let p0 ← p[0]!.getArr?; let p1 ← p[1]!.getArr?
            pure (Rat.ceil (mkRat (← p0[0]!.getInt?) (← p0[1]!.getNat?)), Rat.ceil (mkRat (← p1[0]!.getInt?) (← p1[1]!.getNat?)))
        | _ => pure exact
      let ys := (List.range S0.toNat).map fun (t : Nat) => ratJ (gridRow (fun k => (k : Rat)) 2 S0 S1 sh[0]! sh[1]! s t)
      let xs := (List.range S1.toNat).map fun (t : Nat) => ratJ (gridCol (fun k => (k : Rat)) 2 S0 S1 sh[0]! sh[1]! s t)
      pure (okJ [("shape", ints #[S0, S1]), ("y", Json.arr ys.toArray), ("x", Json.arr xs.toArray), ("exact_shape", ints #[exact.1, exact.2])])
  | "rs.plane" => some do
      -- Plane.rescale's own bookkeeping: per-axis pixel scale (or none), amplitude factor, which arrays are interpolated
      let s ← ratOf j "scale"
      let px : Option (Rat × Rat) ← match optVal j "px2" with
        | some (Json.arr a) => do
            let p0 ← a[0]!.getArr?; let p1 ← a[1]!.getArr?
            pure (some (mkRat (← p0[0]!.getInt?) (← p0[1]!.getNat?), mkRat (← p1[0]!.getInt?) (← p1[1]!.getNat?)))
        | _ => pure none
      let an ← getNat j "amp_ndim"; let on ← getNat j "opd_ndim"
      let pxo := match planePixelscale px s with
        | none => Json.null
        | some q => Json.arr #[ratJ q.1, ratJ q.2]
      pure (okJ [("px", pxo), ("amp_factor", ratJ (amplitudeFactor an s)),
                 ("amp_interp", Json.bool (interpolated an)), ("opd_interp", Json.bool (interpolated on))])
  | "rs.resample_guard" => some do
      let new ← ratOf j "new"
      let px : Option (Rat × Rat) ← match optVal j "px2" with
        | some (Json.arr a) => do
            let p0 ← a[0]!.getArr?; let p1 ← a[1]!.getArr?
            pure (some (mkRat (← p0[0]!.getInt?) (← p0[1]!.getNat?), mkRat (← p1[0]!.getInt?) (← p1[1]!.getNat?)))
        | _ => pure none
      match resample px new with
      | .valueError => pure (errJ "ValueError")
      | .notImplemented => pure (errJ "NotImplementedError")
      | .scale sc => pure (okJ [("scale", ratJ sc)])
  | _ => none

end Ops.C17
