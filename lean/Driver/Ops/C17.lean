import Driver.Util
import LentilVerif.Model.Rescale
/-! Driver ops for C17: sampling bookkeeping of rescale/resample at exact rationals (core `Rat`). -/
open Lean Drv
namespace Ops.C17
open Lentil.Resc

def ratOf (j : Json) (k : String) : R Rat := do
  let a ← getInts j k
  pure (mkRat a[0]! a[1]!.toNat)
def ratJ (q : Rat) : Json := ints #[q.num, (q.den : Int)]

def handle (op : String) (j : Json) : Option (R Json) :=
  match op with
  | "rs.meta" => some do
      let sh ← getInts j "shape"
      let s ← ratOf j "scale"
      let px ← ratOf j "px"
      let S0 := outShape Rat.ceil (fun k => (k : Rat)) sh[0]! s
      let S1 := outShape Rat.ceil (fun k => (k : Rat)) sh[1]! s
      let c := fun (S n : Int) (t : Int) => coord (fun k => (k : Rat)) 2 S n s t
      pure (okJ [("shape", ints #[S0, S1]), ("pixelscale", ratJ (pixelscale px s)),
                 ("y0", ratJ (c S0 sh[0]! 0)), ("x0", ratJ (c S1 sh[1]! 0)),
                 ("ylast", ratJ (c S0 sh[0]! (S0 - 1))), ("xlast", ratJ (c S1 sh[1]! (S1 - 1)))])
  | "rs.resample" => some do
      let px ← ratOf j "px"; let new ← ratOf j "new"
      pure (okJ [("scale", ratJ (resampleScale px new)), ("pixelscale", ratJ (pixelscale px (resampleScale px new)))])
  | _ => none

end Ops.C17
