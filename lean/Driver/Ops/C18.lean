import Driver.Util
import LentilVerif.Model.Stochastic
import LentilVerif.Gen.ShotDark
/-! Driver ops for C18: the wrappers of the stochastic models run at `Float` on the draws the harness obtained from an
identically seeded NumPy generator. -/
open Lean Drv
namespace Ops.C18
open Lentil.Stoch

local instance : Zero Float := ⟨0.0⟩
local instance : One Float := ⟨1.0⟩

def truncF (x : Float) : Int := x.toInt64.toInt
def floorF (x : Float) : Int := x.floor.toInt64.toInt
def floats (a : Array Float) : Json := Json.arr (a.map floatToJson)

def handle (op : String) (j : Json) : Option (R Json) :=
  match op with
  | "st.shot_poisson" => some do
      let img ← getFloats j "img"; let draws ← getInts j "draws"; let lamMax ← getFloat j "lam_max"
      -- the regenerated guard chain of the source (Gen.shotGuardPoisson on np.min / np.max) must refuse exactly when the model does
      let src := Gen.shotGuardPoisson (fun m s e => (OfScientific.ofScientific m s e : Float)) (img.foldl (fun a b => if b < a then b else a) img[0]!) (img.foldl (fun a b => if a < b then b else a) img[0]!)
      match shotPoisson lamMax (fun _ i _ => draws[i]!) 0 img.size (fun i => img[i]!) with
      | none => pure (errJ (if src then "ValueError" else "source-guard-accepts-but-model-refuses"))
      | some v => if src then pure (errJ "source-guard-refuses-but-model-accepts") else pure (okJ [("out", ints ((Array.range img.size).map v))])
  | "st.shot_gaussian" => some do
      let img ← getFloats j "img"; let z ← getFloats j "z"; let lamMax ← getFloat j "lam_max"
      let src := Gen.shotGuardGaussian (fun m s e => (OfScientific.ofScientific m s e : Float)) (img.foldl (fun a b => if b < a then b else a) img[0]!) (img.foldl (fun a b => if a < b then b else a) img[0]!)
      match shotGaussian lamMax Float.sqrt truncF (fun _ i => z[i]!) 0 img.size (fun i => img[i]!) with
      | none => pure (errJ (if src then "ValueError" else "source-guard-accepts-but-model-refuses"))
      | some v => if src then pure (errJ "source-guard-refuses-but-model-accepts") else pure (okJ [("out", ints ((Array.range img.size).map v))])
  | "st.read_noise" => some do
      let img ← getFloats j "img"; let z ← getFloats j "z"; let e ← getFloat j "electrons"
      pure (okJ [("out", floats ((Array.range img.size).map (readNoise (fun _ i => z[i]!) e 0 (fun i => img[i]!))))])
  | "st.dark" => some do
      let rate ← getFloat j "rate"; let f ← getFloat j "fpn_factor"; let fpn ← getFloats j "fpn"; let n ← getNat j "n"
      pure (okJ [("out", ints ((Array.range n).map (darkCurrent floorF (fun _ i => fpn[i]!) rate f 0)))])
  | "st.rule07" => some do
      let t ← getFloat j "temperature"; let cw ← getFloat j "cutoff"; let px ← getFloat j "pixelscale"
      let f ← getFloat j "fpn_factor"; let fpn ← getFloats j "fpn"; let n ← getNat j "n"
      let rate := rule07Rate Float.exp Float.pow (fun m s e => OfScientific.ofScientific m s e) t cw px
      pure (okJ [("rate", floatToJson rate),
                 ("out", ints ((Array.range n).map (rule07Dark floorF (fun _ i => fpn[i]!) rate f 0))),
                 ("vals", floats ((Array.range n).map fun i => if 0.0 < f then rate * 1.0 * fpn[i]! else rate))])
  | "st.cosmic" => some do
      -- deposits in the order they are added: (pixel, amount); the model accumulates them into a zeros frame of n pixels
      let px ← getInts j "pixel"; let amt ← getFloats j "amount"; let n ← getNat j "n"
      let deps : List (Nat × Float × Float) := (List.range px.size).map fun k => (px[k]!.toNat, amt[k]!, 1.0)
      pure (okJ [("out", floats ((Array.range n).map (cosmicFrame deps)))])
  | "st.power" => some do
      let x ← getFloats j "x"; let mask ← getFloats j "mask"; let rms ← getFloat j "rms"
      let n := x.size
      pure (okJ [("out", floats ((Array.range n).map
        (powerSpectrum (fun y => y != 0.0) Float.sqrt (· / ·) (fun k => k.toFloat) rms (fun i => mask[i]!) (fun _ i => x[i]!) 0 n)))])
  | _ => none

end Ops.C18
