import Driver.Util
import LentilVerif.Model.Detector
/-! Driver ops for C16: the detector model run at exact rationals (core `Rat`). -/
open Lean Lentil Drv
namespace Ops.C16
open Lentil.Det

/-- {"num":[…], "den":D} → rationals `num[k]/D` -/
def ratsOfJson (j : Json) : R (Array Rat) := do
  let num ← getInts j "num"
  let den ← getNat j "den"
  pure (num.map fun n => mkRat n den)

def ratsToJson (xs : List Rat) : Json :=
  Json.mkObj [("num", ints (xs.map (·.num)).toArray), ("den", ints (xs.map fun x => (x.den : Int)).toArray)]

def getRats (j : Json) (k : String) : R (Array Rat) := do ratsOfJson (← j.getObjVal? k)

def cube (R C : Int) (d : Array Rat) : Nat → Int → Int → Rat :=
  fun l i j => d[((l : Int) * R * C + i * C + j).toNat]!

def qeOfJson (j : Json) : R (QE Rat) := do
  let kind ← getStr j "kind"
  let v ← ratsOfJson j
  match kind with
  | "scalar" => pure (.scalar v[0]!)
  | "vector" => pure (.vector v.size fun l => v[l]!)
  | "spectrum" => pure (.spectrum fun l => v[l]!)
  | "spectrumobj" => do
      -- a Spectrum object: grid (wavelengths in unit `su`, values) and the call's wavelengths in unit `wu`; `v` = grid values
      let gx ← ratsOfJson (← j.getObjVal? "grid")
      let wv ← ratsOfJson (← j.getObjVal? "wave")
      let su ← getStr j "su"; let wu ← getStr j "wu"
      match Gen.WUnit.ofName? su, Gen.WUnit.ofName? wu with
      | some a, some b => pure (.spectrumObj ((List.range gx.size).map fun k => (gx[k]!, v[k]!)) a (fun l => wv[l]!) b)
      | _, _ => throw "bad unit"
  | _ => throw "bad qe kind"

def colourOf (c : Char) : Colour := if c = 'R' then .R else if c = 'G' then .G else .B

def imgToJson (R C : Int) (f : Int → Int → Rat) : Json := ratsToJson ((idx R C).map fun p => f p.1 p.2)

def handle (op : String) (j : Json) : Option (R Json) :=
  match op with
  | "det.collect" => some do
      let nw ← getNat j "nw"; let sh ← getInts j "shape"
      let img ← getRats j "img"
      let qe ← qeOfJson (← j.getObjVal? "qe")
      let ns := match optVal j "ns" with | some (Json.num n) => n.mantissa.toNat | _ => nw
      match qe.asArray nw with
      | none => pure (errJ "AssertionError")
      | some q =>
        match collectChargeChecked ns nw (cube sh[0]! sh[1]! img) q with
        | none => pure (errJ "ValueError")
        | some f => pure (okJ [("out", imgToJson sh[0]! sh[1]! f)])
  | "det.bayer" => some do
      let nw ← getNat j "nw"; let sh ← getInts j "shape"
      let img ← getRats j "img"
      let os ← getInt j "os"
      -- the raw pattern string goes through the model's `formatBayer` (upper-casing, letter check, squareness, row-major layout)
      match formatBayer (← getStr j "pattern") with
      | none => pure (errJ "ValueError")
      | some (dn, pattern) =>
      let d : Int := dn
      let qr ← qeOfJson (← j.getObjVal? "qe_r"); let qg ← qeOfJson (← j.getObjVal? "qe_g"); let qb ← qeOfJson (← j.getObjVal? "qe_b")
      match qr.asArray nw, qg.asArray nw, qb.asArray nw with
      | some r, some g, some b =>
        let qe : Colour → Nat → Rat := fun c => match c with | .R => r | .G => g | .B => b
        let R := sh[0]!; let C := sh[1]!
        let im := cube R C img
        match bayerShape R C d os with
        | none => pure (errJ "ValueError")
        | some (br, bc) =>
        if br != R || bc != C then pure (okJ [("broadcast_shape", ints #[br, bc])]) else
        match bayerFlat nw R C im qe d pattern os,
              bayerChannel nw R C im r d pattern os .R, bayerChannel nw R C im g d pattern os .G, bayerChannel nw R C im b d pattern os .B with
        | some f, some cr, some cg, some cb =>
          pure (okJ [("flat", imgToJson R C f), ("r", imgToJson R C cr), ("g", imgToJson R C cg), ("b", imgToJson R C cb)])
        | _, _, _, _ => pure (errJ "ValueError")
      | _, _, _ => pure (errJ "AssertionError")
  | "det.gain_rank" => some do
      -- does the regenerated gain dispatch of adc (Gen.adcOrderSource, `gain.ndim in [...]` chain ending in `raise ValueError`) know this rank?
      let n ← getNat j "ndim"
      pure (okJ [("accepted", Json.bool (Gen.adcOrderSource.lookup n).isSome)])
  | "det.adc" => some do
      let sh ← getInts j "shape"
      let R := sh[0]!; let C := sh[1]!
      let img ← getRats j "img"
      let get : Int → Int → Rat := fun a b => img[(a * C + b).toNat]!
      let gj ← j.getObjVal? "gain"
      let gk ← getStr gj "kind"
      let gv ← ratsOfJson gj
      let gain : Gain Rat ← match gk with
        | "scalar" => pure (Gain.scalar gv[0]!)
        | "poly" => pure (Gain.poly gv.toList)
        | "pixel" => pure (Gain.perPixel fun a b => gv[(a * C + b).toNat]!)
        | "pixelpoly" => do
            let n ← getNat gj "n"
            pure (Gain.perPixelPoly n (cube R C gv))
        | _ => throw "bad gain kind"
      let cap : Option Rat ← match optVal j "cap" with
        | none => pure none
        | some Json.null => pure none
        | some cj => do
            let c ← ratsOfJson cj
            -- `if saturation_capacity:` — a zero capacity is "no limit"
            pure (if c[0]! = 0 then none else some c[0]!)
      let warn ← getBool j "warn"
      -- run through the regenerated step order (Gen.adcSteps); an ill-typed order answers -1 everywhere
      let dn := (idx R C).map fun p => match adcFromSteps Rat.floor cap (gain.at p.1 p.2) (get p.1 p.2) with
        | some (.inr v) => v
        | _ => -1
      pure (okJ [("dn", ints dn.toArray), ("warns", Json.bool (adcWarns warn cap ⟨R, C, get⟩))])
  | _ => none

end Ops.C16
