import Driver.Util
import LentilVerif.Model.PlaneType
open Lean Lentil Drv Gen Lentil.PT
namespace Ops.C08

def resJ : Res → Json
  | .ok w => Json.str w.name
  | .refused e => Json.str e.name

def copOfJson (j : Json) : R COp := do
  let s ← j.getStr?
  if s == "prop" then pure .prop else
  match PlaneClass.ofName? s with
  | some c => pure (.mul c)
  | none => throw s!"unknown plane class {s}"

def opOfJson (j : Json) : R Op := do
  let s ← j.getStr?
  if s == "prop" then pure .prop else
  match PType.ofName? s with
  | some p => pure (.mul p)
  | none => throw s!"unknown ptype {s}"

def startOf (j : Json) : R WType := do
  let s ← getStr j "start"
  match WType.ofName? s with
  | some w => pure w
  | none => throw s!"unknown wavefront type {s}"

def handle (op : String) (j : Json) : Option (R Json) :=
  match op with
  | "c08.class_run" => some do
      let w ← startOf j
      let ops ← (← getArr j "ops").mapM copOfJson
      pure (okJ [("trace", Json.arr ((classRun w ops.toList).map resJ).toArray)])
  | "c08.type_run" => some do
      let w ← startOf j
      let ops ← (← getArr j "ops").mapM opOfJson
      pure (okJ [("trace", Json.arr ((codeRun w ops.toList).map resJ).toArray)])
  | "c08.fft_step" => some do
      let w ← startOf j
      let t ← getBool j "tilt"
      pure (okJ [("trace", Json.arr #[resJ (codePropagateFft t w)])])
  | "c08.class_ptype" => some do
      let s ← getStr j "cls"
      match PlaneClass.ofName? s with
      | some c => pure (okJ [("ptype", Json.str (classPtype c).name)])
      | none => pure (errJ "unknown-class")
  | _ => none

end Ops.C08
