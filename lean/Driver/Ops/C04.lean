import Driver.Ops.C02
import LentilVerif.Model.Tilt
/-! Model driver ops for C04: `c04.shift` (Field.shift over a list of tilt elements), `c04.fit` (arithmetic of
fit_tilt for given least-squares coefficients), at `R = Float`. -/
open Lean Lentil Drv Ops.C02
namespace Ops.C04

def tiltOfJson (j : Json) : R (TiltEl Float) := do
  let k ← getStr j "k"
  if k == "a" then
    pure (.angular (← getFloat j "x") (← getFloat j "y"))
  else if k == "d" then
    let t ← getFloats j "trace"; let d ← getFloats j "disp"
    pure (.dispersive1 t[0]! t[1]! d[0]! d[1]!)
  else if k == "dh" then
    -- any-order element: the abscissa is supplied (the harness' own root of the residuals), the tail is the generated one
    let t ← getFloats j "trace"
    pure (.dispersiveN t.toList (← getFloat j "x"))
  else throw s!"tilt kind {k}"

def pairJ (p : Float × Float) : Json := Json.arr #[floatToJson p.1, floatToJson p.2]

def realGet (s1 : Int) (d : Array Float) : Int → Int → Float := mkGet s1 d

def handle (op : String) (j : Json) : Option (R Json) :=
  match op with
  | "c04.shift" => some do
      let ts ← (← getArr j "tilts").mapM tiltOfJson
      let z ← getFloat j "z"; let wl ← getFloat j "wl"
      let du ← getFloats j "du"; let os ← getInt j "os"
      pure (okJ [("ij", pairJ (fieldShift ts.toList z wl du[0]! du[1]! os true)),
                 ("xy", pairJ (fieldShift ts.toList z wl du[0]! du[1]! os false)),
                 ("metres", pairJ (foldShift ts.toList z wl))])
  | "c04.fit" => some do
      let sh ← getInts j "shape"
      let px ← getFloats j "px"
      let opd ← getFloats j "opd"
      let segs ← (← getArr j "segs").mapM fun s => do
        let m ← getFloats s "mask"; let t ← getFloats s "t"
        pure (realGet sh[1]! m, (fun (k : Int) => t[k.toNat]!))
      let og := realGet sh[1]! opd
      let indexed : List (Int × (Int → Int → Float) × (Int → Float)) :=
        (List.range segs.size).map fun (k : Nat) => ((k : Int), segs[k]!.1, segs[k]!.2)
      let res : Int → Int → Float :=
        match indexed with
        | [s] => fitTiltOpd sh[0]! sh[1]! px[0]! px[1]! s.2.1 og s.2.2
        | l => fitTiltOpdSeg sh[0]! sh[1]! px[0]! px[1]! l og
      let recs := segs.toList.map fun s => if segs.size == 1 then fitRecordXY s.2 else fitSegRecordXY s.2
      let cells := (idxList sh[0]! sh[1]!).map fun (i, k) => floatToJson (res i k)
      pure (okJ [("opd", Json.arr cells.toArray), ("recorded", Json.arr (recs.map pairJ).toArray)])
  | "c04.fit_call_skips" => some do
      -- does the call `fit_tilt()` take its early return (generated test)? observed through the model `fitTiltCall`
      let se ← getBool j "shape_empty"; let sn ← getBool j "shape_none"
      let n ← getInt j "opd_size"
      let r := fitTiltCall (R := Float) se sn n 1 1 0 0 (fun _ _ => 0) (fun _ _ => 0) (fun _ => 0)
      pure (okJ [("skips", Json.bool r.2.isNone)])
  | _ => none

end Ops.C04
