import Driver.Ops.C05
import LentilVerif.Model.Blur
/-! Model driver ops for C19: `c19.blur` runs the very definitions `Lentil.pixel / jitter / smear` the theorems of
Props/C19.lean are about, instantiated at complex doubles. -/
open Lean Lentil Drv
namespace Ops.C19
open Ops.C01 Ops.C05

def fpi : Float := 3.141592653589793
instance : BlurLike Float :=
  ⟨fun x => if x == 0 then 1 else Float.sin (fpi * x) / (fpi * x), Float.exp, Float.sin, Float.cos, fpi, fun x => x == 0⟩
instance : AbsLike CF Float := ⟨fun z => Float.sqrt (z.re * z.re + z.im * z.im)⟩

def realArrOfJson (j : Json) : R (Arr Float) := do
  let sh ← getInts j "shape"
  let v ← getFloats j "v"
  pure { s0 := sh[0]!, s1 := sh[1]!, get := mkGet sh[1]! v }

def handle (op : String) (j : Json) : Option (R Json) :=
  match op with
  | "c19.blur" => some do
      let img ← realArrOfJson j
      let kind ← getStr j "kind"
      let ps ← getFloat j "pixelscale"; let os ← getFloat j "oversample"
      -- a call that omits pixelscale / oversample: the model fills in the defaults regenerated from the signatures
      let dflt := match optVal j "defaults" with | some (Json.bool true) => true | _ => false
      if dflt then
        match kind with
        | "pixel" => pure (okJ [("out", realArrToJson (Lentil.pixelDefault CF img))])
        | "jitter" =>
            let s ← getFloat j "extent"
            pure (okJ [("out", realArrToJson (Lentil.jitterDefault CF img s))])
        | "smear" =>
            let s ← getFloat j "extent"; let a ← getFloat j "angle"
            pure (okJ [("out", realArrToJson (Lentil.smearDefault CF img s a))])
        | _ => throw "bad kind for a default-arguments call"
      else
      match kind with
      | "pixel" => pure (okJ [("out", realArrToJson (Lentil.pixel CF img os))])
      | "jitter" =>
          let s ← getFloat j "extent"
          pure (okJ [("out", realArrToJson (Lentil.jitter CF img s ps os))])
      | "smear" =>
          let s ← getFloat j "extent"; let a ← getFloat j "angle"
          pure (okJ [("out", realArrToJson (Lentil.smear CF img s a ps os))])
      | "smear_none" =>
          -- angle=None: the harness passes the uniform [0, 1) variate the seeded global generator yields
          let s ← getFloat j "extent"; let u ← getFloat j "u"
          pure (okJ [("out", realArrToJson (Lentil.smearNone CF img s ps os u))])
      | _ => throw "bad kind"
  | _ => none

end Ops.C19
