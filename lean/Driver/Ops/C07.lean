import Driver.Util
import LentilVerif.Model.PlaneMeta
/-! Driver operations for C07 (and re-used by C03): run a chain of planes on a fresh wavefront with the model, in one of
two number systems — `gi` (Gaussian integers; OPD in quarter waves, `exp(2 pi i k/4) = i^k`, exact) and `cf` (complex
doubles; floats cross the pipe as IEEE bit patterns) — and report the observables: metadata, field list, `field`,
`intensity`, `insert(out, weight)`. -/
open Lean Lentil Drv
namespace Ops.C07

/-- number system of a run -/
structure Num (K Rr : Type) where
  real : Json → R K            -- a real scalar (amplitude, weight) as a value
  opd : Json → R Rr
  cell : Json → Json → R K     -- (re, im)
  reJ : K → Json
  imJ : K → Json
  one : K
  nsq : K → K
  ph : Float → Rr → K          -- wavelength, opd ↦ exp(2 pi i opd / wavelength)

def iPow (k : Int) : GI :=
  match k % 4 with
  | 0 => ⟨1, 0⟩
  | 1 => ⟨0, 1⟩
  | 2 => ⟨-1, 0⟩
  | _ => ⟨0, -1⟩

def numGI : Num GI Int where
  real j := do pure ⟨← j.getInt?, 0⟩
  opd j := j.getInt?
  cell a b := do pure ⟨← a.getInt?, ← b.getInt?⟩
  reJ z := intJ z.re
  imJ z := intJ z.im
  one := ⟨1, 0⟩
  nsq := GI.normSq
  ph _ k := iPow k

def twoPi : Float := 6.283185307179586

@[instance_reducible] def realLikeFloat : RealLike Float where
  ofInt := Float.ofInt
  twoPi := twoPi
  sqrt := Float.sqrt
  abs := Float.abs

@[instance_reducible] def cxLikeCF : CxLike CF Float where
  expI t := ⟨Float.cos t, Float.sin t⟩
  ofReal x := ⟨x, 0.0⟩
  conj z := ⟨z.re, -z.im⟩
  divInt z n := ⟨z.re / Float.ofInt n, z.im / Float.ofInt n⟩

attribute [local instance] realLikeFloat cxLikeCF

/-- focal lengths cross the pipe as floats; `None` is sent as NaN: falsy like `0` -/
instance : FocalLike Float := ⟨fun x => !(x == 0.0) && !x.isNaN, 1.0 / 0.0⟩

def numCF : Num CF Float where
  real j := do pure ⟨← floatOfJson j, 0.0⟩
  opd j := floatOfJson j
  cell a b := do pure ⟨← floatOfJson a, ← floatOfJson b⟩
  reJ z := floatToJson z.re
  imJ z := floatToJson z.im
  one := ⟨1.0, 0.0⟩
  nsq z := ⟨z.re * z.re + z.im * z.im, 0.0⟩
  ph wl o := planePh wl o        -- the model's definition at Float: exp(i * (2 pi * opd / wavelength))

variable {K Rr : Type}

def pairOpt (j : Json) (k : String) : R (Option (Int × Int)) :=
  match optVal j k with
  | none => pure none
  | some v => if v.isNull then pure none else do
      let a ← v.getArr?
      pure (some (← a[0]!.getInt?, ← a[1]!.getInt?))

def pairJ (p : Option (Int × Int)) : Json :=
  match p with
  | none => Json.null
  | some (a, b) => ints #[a, b]

/-- `{"scalar": v}` or `{"shape":[s0,s1], "v":[...]}` -/
def attrOfJson {α} [Inhabited α] (pv : Json → R α) (j : Json) : R (Attr α) :=
  match optVal j "scalar" with
  | some v => do pure (.scalar (← pv v))
  | none => do
      let sh ← getInts j "shape"
      let d ← (← getArr j "v").mapM pv
      pure (.array { s0 := sh[0]!, s1 := sh[1]!, get := mkGet sh[1]! d })

/-- `{"scalar": 0|1}` or `{"shape":[s0,s1], "layers":[[0/1,...],...]}`; error string = exception class of the
constructor -/
def maskOfJson (j : Json) : R MaskM :=
  match optVal j "scalar" with
  | some v => do pure (.scalar ((← v.getInt?) != 0))
  | none => do
      let sh ← getInts j "shape"
      let ls ← (← getArr j "layers").mapM fun l => do (← l.getArr?).mapM (·.getInt?)
      let ms : List (Int → Int → Bool) := ls.toList.map fun d => fun i j => (mkGet sh[1]! d i j) != 0
      match mkMask sh[0]! sh[1]! ms with
      | none => throw "IndexError"
      | some m => pure m

def arrOf (N : Num K Rr) [Inhabited K] (j : Json) : R (Arr K) := do
  let sh ← getInts j "shape"
  let re ← getArr j "re"
  let im ← getArr j "im"
  let d ← (Array.range re.size).mapM fun k => N.cell re[k]! im[k]!
  pure { s0 := sh[0]!, s1 := sh[1]!, get := mkGet sh[1]! d }

def fldOf (N : Num K Rr) [Inhabited K] (j : Json) : R (Fld K) := do
  let a ← arrOf N j
  let off ← getInts j "off"
  pure { arr := a, o0 := off[0]!, o1 := off[1]! }

def arrJ (N : Num K Rr) (a : Arr K) : Json :=
  let cells := (idxList a.s0 a.s1).map fun (i, j) => a.get i j
  Json.mkObj [("shape", ints #[a.s0, a.s1]),
              ("re", Json.arr (cells.map N.reJ).toArray), ("im", Json.arr (cells.map N.imJ).toArray)]

def fldJ (N : Num K Rr) (f : Fld K) : Json :=
  (arrJ N f.arr).mergeObj (Json.mkObj [("off", ints #[f.o0, f.o1])])

structure PlaneReq (K Rr : Type) where
  p : PlaneM K Rr
  px : Option (Int × Int)
  pupil : Bool
  image : Bool
  fl : Float

def planeOf (N : Num K Rr) [Inhabited K] [Inhabited Rr] (j : Json) : R (PlaneReq K Rr) := do
  let amp ← attrOfJson N.real (← j.getObjVal? "amp")
  let opd ← attrOfJson N.opd (← j.getObjVal? "opd")
  let mask ← maskOfJson (← j.getObjVal? "mask")
  let px ← pairOpt j "px"
  let kind ← getStr j "kind"
  let fl ← match optVal j "fl" with | some v => floatOfJson v | none => pure 0.0
  pure { p := { amp := amp, opd := opd, mask := mask }, px := px, pupil := kind == "pupil", image := kind == "image", fl := fl }

/-- the initial wavefront and the chain of planes of a request; `Except.error` carries the exception class -/
def runChain (N : Num K Rr) [Inhabited K] [Inhabited Rr] [Zero K] [Mul K] (j : Json) : R (Except String (Wf K Float)) := do
  let wl ← getFloat j "wavelength"
  let fl ← getFloat j "focal"
  let px ← pairOpt j "px"
  let mut w : Wf K Float := Wf.init N.one wl fl px
  match optVal j "data" with
  | some d => do
      let fs ← (← d.getArr?).mapM (fldOf N)
      let sh ← pairOpt j "shape"
      w := { w with data := fs.toList, shape := sh }
  | none => pure ()
  let pjs ← getArr j "planes"
  let mut res : Except String (Wf K Float) := .ok w
  for pj in pjs do
    match res with
    | .error _ => pure ()
    | .ok cur =>
      -- a constructor failure (empty mask) is reported as the exception class
      match planeOf N pj with
      | .error e => if e == "IndexError" then res := .error e else throw e
      | .ok pr =>
        res := if pr.pupil then pupilMultiplyW N.ph pr.p pr.px pr.fl cur
               else if pr.image then imageMultiplyW N.ph pr.p pr.px cur
               else planeMultiplyW N.ph pr.p pr.px cur
  pure res

def wfJ (N : Num K Rr) [Add K] [Mul K] [Zero K] [Inhabited K] (j : Json) (w : Wf K Float) : R Json := do
  let base := [("wavelength", floatToJson w.wavelength), ("focal", floatToJson w.focal), ("px", pairJ w.pixelscale),
               ("shape", pairJ w.shape), ("data", Json.arr (w.data.map (fldJ N)).toArray)]
  let views : List (String × Json) := match w.shape with
    | none => []
    | some (s0, s1) =>
      [("field", arrJ N (wfField N.one s0 s1 w.data)),
       ("intensity", match wfIntensity N.one N.nsq s0 s1 w.data with | some a => arrJ N a | none => Json.str "ValueError")]
  let ins ← match optVal j "insert" with
    | none => pure []
    | some ij => do
        let out ← arrOf N (← ij.getObjVal? "out")
        let wt ← N.real (← ij.getObjVal? "weight")
        pure [("insert", match wfInsert N.one N.nsq w.data out wt with | some a => arrJ N a | none => Json.str "ValueError")]
  pure (okJ (base ++ views ++ ins))

def run (N : Num K Rr) [Inhabited K] [Inhabited Rr] [Add K] [Mul K] [Zero K] (j : Json) : R Json := do
  match ← runChain N j with
  | .error e => pure (errJ e)
  | .ok w => wfJ N j w

instance : Inhabited GI := ⟨⟨0, 0⟩⟩

def handle (op : String) (j : Json) : Option (R Json) :=
  match op with
  | "c07.run" => some do
      let mode ← getStr j "mode"
      if mode == "gi" then run numGI j else if mode == "cf" then run numCF j else throw "bad mode"
  | "c07.pixelscale" => some do
      let a ← pairOpt j "a"; let b ← pairOpt j "b"
      match mulPixelscale a b with
      | .ok r => pure (okJ [("px", pairJ r)])
      | .error e => pure (errJ e)
  | _ => none

end Ops.C07
