import Driver.Util
import Driver.Ops.C14
import Driver.Ops.C15
import LentilVerif.Model.SpecArith
open Lean Lentil Drv Lentil.Spec Lentil.Units Gen Ops.C14 Ops.C15
namespace Ops.C13

def ratPowNat (a : Rat) (b : Rat) : Rat := if b.den = 1 && b.num ≥ 0 then a ^ b.num.toNat else 0

def opOfName (s : String) : R (Rat → Rat → Rat) :=
  match s with
  | "add" => pure (· + ·)
  | "subtract" => pure (· - ·)
  | "multiply" => pure (· * ·)
  | "divide" => pure (· / ·)
  | "power" => pure ratPowNat
  | _ => throw s!"unknown operator {s}"

def samplingOf' (j : Json) : R Sampling := do
  match optVal j "sampling" with
  | some (Json.str "min") => pure .min
  | some (Json.str "left") => pure .left
  | some (Json.str "right") => pure .right
  | some v => do let q ← ratOfJson v; pure (.step q)
  | none => pure .min

def uspecOf (j : Json) : R USpec := do
  let wave ← getRats j "wave"; let value ← getRats j "value"
  let wu ← wunit (← getStr j "wu")
  let vu ← match optVal j "vu" with
    | some (Json.str s) => (do let f ← funit s; pure (some f))
    | _ => pure none
  pure ⟨wave, value, wu, vu⟩

def handle (op : String) (j : Json) : Option (R Json) :=
  match op with
  | "c13.ufunc" => some do
      let f ← opOfName (← getStr j "fn")
      let s1 ← uspecOf (← j.getObjVal? "s1"); let s2 ← uspecOf (← j.getObjVal? "s2")
      let m ← samplingOf' j
      let fill ← getRat j "fill"
      match ufuncU f s1 s2 m fill with
      | .ok r => pure (uspecJ r)
      | .error e => pure (errJ e.name)
  | "c13.scalar" => some do
      let f ← opOfName (← getStr j "fn")
      let s ← specOf (← j.getObjVal? "s1")
      let r := ufuncScalar f s (← getRat j "c")
      pure (okJ [("wave", ratsJ r.wave), ("value", ratsJ r.value)])
  | "c13.vector" => some do
      let f ← opOfName (← getStr j "fn")
      let s ← specOf (← j.getObjVal? "s1")
      match ufuncVector f s (← getRats j "v") with
      | .ok r => pure (okJ [("wave", ratsJ r.wave), ("value", ratsJ r.value)])
      | .error e => pure (errJ e.name)
  | _ => none

end Ops.C13
