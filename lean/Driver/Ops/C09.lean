import Driver.Ops.C02
import LentilVerif.Model.PropagateFft
/-! Model driver ops for C09: `c09.propagate_fft` runs `Lentil.propagateFft` at `K = Drv.CF`, `R = Float`. -/
open Lean Lentil Drv Ops.C02
namespace Ops.C09

/-- `np.round` (half to even) followed by `astype(int)` -/
def roundEvenF (x : Float) : Int :=
  let f := x.floor
  let d := x - f
  let fi : Int := f.toInt64.toInt
  if d < 0.5 then fi else if d > 0.5 then fi + 1 else if fi % 2 == 0 then fi else fi + 1

instance : FftLike Float := ⟨roundEvenF, fun a b => if b < a then b else a, fun a b => decide (b < a)⟩

def scratchOfJson (j : Json) : R (Option (Arr CF)) :=
  match optVal j "scratch" with
  | none => pure none
  | some Json.null => pure none
  | some s => do let a ← cfArrOfJson s; pure (some a)

def shapeOfJson (j : Json) (k : String) : R (Option (Int × Int)) :=
  match optVal j k with
  | none => pure none
  | some Json.null => pure none
  | some _ => do let a ← getInts j k; pure (some (a[0]!, a[1]!))

def handle (op : String) (j : Json) : Option (R Json) :=
  match op with
  | "c09.propagate_fft" => some do
      let fs ← (← getArr j "fields").mapM cfFldOfJson
      let ntilt ← getInts j "ntilt"
      let hasTilt := Gen.hasTilt ntilt.toList
      let w ← getInts j "wshape"
      let dx ← getFloats j "dx"; let du ← getFloats j "du"
      let wl ← getFloat j "wl"; let z ← getFloat j "z"
      let os ← getInt j "os"
      let shape ← shapeOfJson j "shape"
      let scratch ← scratchOfJson j
      -- optional "wtype": the wavefront's plane type; then the call `propagateFftCall` (entry guards, then the body) is run
      let wt ← match optVal j "wtype" with
        | none => pure (none : Option Gen.WType)
        | some Json.null => pure none
        | some (Json.str s) => match Gen.WType.ofName? s with
          | some t => pure (some t)
          | none => throw s!"unknown wavefront type {s}"
        | some _ => throw "wtype: string expected"
      let (ptOut, body) ← match wt with
        | none => pure ((none : Option Gen.WType), propagateFft one fs.toList hasTilt w[0]! w[1]! dx[0]! dx[1]! du[0]! du[1]! wl z os shape scratch)
        | some t => match propagateFftCall t one fs.toList hasTilt w[0]! w[1]! dx[0]! dx[1]! du[0]! du[1]! wl z os shape scratch with
          | .refusedBy e => return (errJ e.name)
          | .done t' o => pure (some t', o)
      let ptJ : Json := match ptOut with | some t => Json.str t.name | none => Json.null
      match body with
      | .notImplemented => pure (errJ "NotImplementedError")
      | .valueError => pure (errJ "ValueError")
      | .ok lam S0 S1 so _ =>
        -- same definitions as in `propagateFft`, with the grid and the transform forced once (performance only)
        let grid := freeze (fftGrid one fs.toList w[0]! w[1]! S0 S1 scratch)
        let fld : Fld CF := { arr := freeze (fft2c (R := Float) grid), o0 := 0, o1 := 0 }
        let canvas := wavefrontField one [fld] so.1 so.2
        pure (okJ [("wavelength", floatToJson lam), ("fft_shape", ints #[S0, S1]), ("shape_out", ints #[so.1, so.2]),
                   ("canvas", cfArrToJson canvas), ("ptype", ptJ),
                   ("pixelscale", Json.arr #[floatToJson (fftMeta lam dx[0]! dx[1]! du[0]! du[1]! z wl os).2.1.1,
                                             floatToJson (fftMeta lam dx[0]! dx[1]! du[0]! du[1]! z wl os).2.1.2]),
                   ("focal_length", floatToJson (fftMeta lam dx[0]! dx[1]! du[0]! du[1]! z wl os).2.2)])
  | "c09.scratch_shape" => some do
      let dx ← getFloats j "dx"; let du ← getFloats j "du"
      let mw ← getFloat j "max_wl"; let z ← getFloat j "z"
      let os ← getInt j "os"
      let s := scratchShape mw dx[0]! dx[1]! du[0]! du[1]! z os
      pure (okJ [("shape", ints #[s.1, s.2])])
  | "c09.fft2c" => some do
      let x ← cfArrOfJson j
      pure (okJ [("F", cfArrToJson (fft2c (R := Float) x))])
  | _ => none

end Ops.C09
