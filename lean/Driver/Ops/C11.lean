import Driver.Util
import LentilVerif.Model.Zernike
open Lean Lentil Drv
namespace Ops.C11

instance instIntCastFloatC11 : IntCast Float := ⟨Float.ofInt⟩
instance instNatCastFloatC11 : NatCast Float := ⟨Float.ofNat⟩

def floatsJ (l : List Float) : Json := Json.arr (l.map floatToJson).toArray

def sqrtN (k : Nat) : Float := Float.sqrt (Float.ofNat k)

def boolMask (j : Json) : R (Arr Bool) := do
  let sh ← getInts j "shape"
  let d ← getInts j "mask"
  pure { s0 := sh[0]!, s1 := sh[1]!, get := fun i jj => d[(i * sh[1]! + jj).toNat]! != 0 }

def handle (op : String) (j : Json) : Option (R Json) :=
  match op with
  | "zsrc" => some do
    let rn ← getBool j "rho_none"; let tn ← getBool j "theta_none"
    pure (okJ [("src", Json.str (match Gen.zernCoordSrc rn tn with
      | .default => "default" | .caller => "caller" | .refuse => "refuse"))])
  | "noll" => some do
      let a ← getNat j "j0"; let b ← getNat j "j1"
      let js := (List.range (b - a + 1)).map (· + a)
      pure (okJ [("n", ints (js.map fun x => (nollN x : Int)).toArray), ("m", ints (js.map nollM).toArray),
                 ("code_m", ints (js.map fun x => (codeIndex x).1).toArray),
                 ("code_n", ints (js.map fun x => ((codeIndex x).2 : Int)).toArray),
                 ("inv", ints (js.map fun x => (nollInv (nollN x) (nollM x) : Int)).toArray)])
  | "noll_list" => some do
      let js ← getArr j "js"
      let js ← js.mapM (·.getNat?)
      pure (okJ [("n", ints (js.map fun x => (nollN x : Int))), ("m", ints (js.map nollM))])
  | "radial_coeffs" => some do
      let n ← getNat j "n"; let m ← getNat j "m"
      pure (okJ [("coeffs", ints ((List.range ((n - m) / 2 + 1)).map (radialCoeff n m)).toArray)])
  | "radial_eval" => some do
      let n ← getNat j "n"; let m ← getNat j "m"; let rho ← getFloats j "rho"
      pure (okJ [("values", floatsJ (rho.toList.map fun x => radialEval n m x))])
  | "zernike" => some do
      let jj ← getNat j "j"; let nrm ← getBool j "normalize"
      let rho ← getFloats j "rho"; let th ← getFloats j "theta"; let mk ← getInts j "mask"
      pure (okJ [("values", floatsJ ((List.range rho.size).map fun k =>
        zernAt sqrtN Float.cos Float.sin jj nrm rho[k]! th[k]! (mk[k]! != 0)))])
  | "coords" => some do
      let mask ← boolMask j
      let cs ← getFloats j "cs"
      let s : Float × Float ← match optVal j "shift" with
        | some (Json.arr a) => do pure ((← floatOfJson a[0]!), (← floatOfJson a[1]!))
        | _ => pure (zShift mask)
      let cells := idxList mask.s0 mask.s1
      -- zRho sqrt mask s i j = zRad sqrt mask s i j / zRmax sqrt mask s (by definition); the maximum is evaluated once
      let rmax := zRmax Float.sqrt mask s
      pure (okJ [("rho", floatsJ (cells.map fun (i, jj) => zRad Float.sqrt mask s i jj / rmax)),
                 ("theta", floatsJ (cells.map fun (i, jj) => zTheta Float.atan2 cs[0]! cs[1]! mask s i jj)),
                 ("shift", floatsJ [s.1, s.2])])
  | _ => none

end Ops.C11
