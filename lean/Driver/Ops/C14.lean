import Driver.Util
import LentilVerif.Model.Units
open Lean Lentil Drv Gen Lentil.Units Lentil.Spec
namespace Ops.C14

/-- rationals cross the pipe as `[numerator, denominator]` (exact) -/
def ratOfJson (j : Json) : R Rat := do
  let a ← j.getArr?
  if a.size != 2 then throw "rational: [num, den] expected"
  let n ← a[0]!.getInt?
  let d ← a[1]!.getInt?
  if d ≤ 0 then throw "rational: positive denominator expected"
  pure (mkRat n d.toNat)
def ratToJson (q : Rat) : Json := Json.arr #[intJ q.num, intJ (Int.ofNat q.den)]
def getRat (j : Json) (k : String) : R Rat := do ratOfJson (← j.getObjVal? k)
def getRats (j : Json) (k : String) : R (List Rat) := do
  let a ← getArr j k
  let l ← a.mapM ratOfJson
  pure l.toList
def ratsJ (l : List Rat) : Json := Json.arr (l.map ratToJson).toArray

def wunit (s : String) : R WUnit := match WUnit.ofName? s with | some u => pure u | none => throw s!"wave unit {s}"
def funit (s : String) : R FUnit := match FUnit.ofName? s with | some u => pure u | none => throw s!"flux unit {s}"

instance : NatCast Float := ⟨Float.ofNat⟩

def uspecJ (s : USpec) : Json :=
  okJ [("wave", ratsJ s.wave), ("value", ratsJ s.value), ("wu", Json.str s.wu.name),
       ("vu", match s.vu with | some f => Json.str f.name | none => Json.null)]

def handle (op : String) (j : Json) : Option (R Json) :=
  match op with
  | "c14.wave_factor" => some do
      let a ← wunit (← getStr j "a"); let b ← wunit (← getStr j "b")
      pure (okJ [("q", ratToJson (waveTo a b))])
  | "c14.flux" => some do
      let a ← funit (← getStr j "a"); let b ← funit (← getStr j "b")
      let f ← getRat j "flux"; let w ← getRat j "wave"; let H ← getRat j "H"; let C ← getRat j "C"
      pure (okJ [("q", ratToJson (fluxTo a b f w H C))])
  | "c14.consts" => some do
      pure (okJ [("H", ratToJson constH), ("C", ratToJson constC), ("K", ratToJson constK)])
  | "c14.to" => some do
      let wave ← getRats j "wave"; let value ← getRats j "value"
      let wu ← wunit (← getStr j "wu")
      let vu ← match optVal j "vu" with
        | some (Json.str s) => (do let f ← funit s; pure (some f))
        | _ => pure none
      let H ← getRat j "H"; let C ← getRat j "C"
      let units ← (← getArr j "units").mapM (·.getStr?)
      let (s, e) := applyTo H C ⟨wave, value, wu, vu⟩ units.toList
      let base := uspecJ s
      pure (base.mergeObj (Json.mkObj [("exc", match e with | some x => Json.str x | none => Json.null),
                                       ("trapz", ratToJson (trapz s.wave s.value))]))
  | "c14.trapz" => some do
      let wave ← getRats j "wave"; let value ← getRats j "value"
      pure (okJ [("q", ratToJson (trapz wave value))])
  | "c14.vega" => some do
      let wu ← wunit (← getStr j "wu"); let vu ← funit (← getStr j "vu")
      let H ← getRat j "H"; let C ← getRat j "C"
      match Band.ofName? (← getStr j "band") with
      | none => pure (errJ "ValueError")
      | some b =>
        let r : Rat × Rat := vegaflux H C b wu vu
        pure (okJ [("flux", ratToJson r.1), ("wave", ratToJson r.2)])
  | "c14.planck" => some do
      let wu ← wunit (← getStr j "wu"); let vu ← funit (← getStr j "vu")
      let w ← getFloat j "wave"; let T ← getFloat j "temp"; let pi ← getFloat j "pi"
      let H ← getFloat j "H"; let C ← getFloat j "C"; let kB ← getFloat j "K"
      let fn ← getStr j "fn"
      let v := if fn == "exitance" then planckExitance Float.exp pi H C kB w T wu vu else planckRadiance Float.exp pi H C kB w T wu vu
      pure (okJ [("v", floatToJson v)])
  | _ => none

end Ops.C14
