import Driver.Ops.C01
import LentilVerif.Model.Energy
/-! Model driver ops for C05: `normalize_power` (`propagate_dft` cases run C02's op `c02.propagate_dft`, `propagate_fft` cases C09's op `c09.propagate_fft`: the models over the generated window / grid kernels). -/
open Lean Lentil Drv
namespace Ops.C05
open Ops.C01

instance : NormSqLike CF Float := ⟨fun z => z.re * z.re + z.im * z.im⟩

def cfFldOfJson (j : Json) : R (Fld CF) := do
  let a ← cfArrOfJson j
  let off ← getInts j "off"
  pure { arr := a, o0 := off[0]!, o1 := off[1]! }

def realArrToJson (a : Arr Float) : Json :=
  let cells := (idxList a.s0 a.s1).map fun (i, j) => a.get i j
  Json.mkObj [("shape", ints #[a.s0, a.s1]), ("v", Json.arr (cells.map floatToJson).toArray)]

def handle (op : String) (j : Json) : Option (R Json) :=
  match op with
  | "c05.normalize" => some do
      let a ← cfArrOfJson j
      let p ← getFloat j "power"
      pure (okJ [("a", cfArrToJson (normalizePower a p))])
  | _ => none

end Ops.C05
