import Driver.Ops.C01
import Driver.Ops.C02
import LentilVerif.Model.Plane
import LentilVerif.Model.Energy
/-! Model driver ops for C05: `c05.insert_weighted` (`Wavefront.insert(out, weight)` of the C02 model's output fields through the C07 model `wfInsert`), `normalize_power` (`propagate_dft` cases run C02's op `c02.propagate_dft`, `propagate_fft` cases C09's op `c09.propagate_fft`: the models over the generated window / grid kernels). -/
open Lean Lentil Drv
namespace Ops.C05
open Ops.C01

instance : NormSqLike CF Float := ⟨fun z => z.re * z.re + z.im * z.im⟩

def cfFldOfJson (j : Json) : R (Fld CF) := do
  let a ← cfArrOfJson j
  let off ← getInts j "off"
  pure { arr := a, o0 := off[0]!, o1 := off[1]! }

def realArrToJson (a : Arr Float) : Json :=
  let cells := (idxList a.s0 a.s1).map fun (i, j) => a.get i j
  Json.mkObj [("shape", ints #[a.s0, a.s1]), ("v", Json.arr (cells.map floatToJson).toArray)]

def handle (op : String) (j : Json) : Option (R Json) :=
  match op with
  | "c05.normalize" => some do
      let a ← cfArrOfJson j
      let p ← getFloat j "power"
      -- a call that omits `power`: the model takes the default regenerated from the signature
      match optVal j "default" with
      | some (Json.bool true) => pure (okJ [("a", cfArrToJson (normalizePowerDefault (R := Float) a))])
      | _ => pure (okJ [("a", cfArrToJson (normalizePower a p))])
  | "c05.insert_weighted" => some do
      -- `Wavefront.insert(acc, weight)` of a propagated wavefront: the C02 model's output fields accumulated into a constant
      -- array by the C07 loop model `viewRun Gen.insertWiring` with default weight 1 (loop wiring regenerated, accumulation statement of `field.insert` regenerated)
      let fs ← (← getArr j "fields").mapM Ops.C02.tfieldOfJson
      let dx ← getFloats j "dx"; let du ← getFloats j "du"
      let wl ← getFloat j "wl"; let z ← getFloat j "z"
      let os ← getInt j "os"
      let al := dftAlpha dx[0]! dx[1]! du[0]! du[1]! wl z os
      let sh ← getInts j "shape"; let ps ← getInts j "prop_shape"
      let mask ← Ops.C02.maskOfJson j
      let out := (propagateDft fs.toList al.1 al.2 sh[0]! sh[1]! ps[0]! ps[1]! os mask).map Ops.C02.freezeF
      let base ← getFloat j "base"; let w ← getFloat j "weight"
      let acc : Arr CF := { s0 := sh[0]! * os, s1 := sh[1]! * os, get := fun _ _ => ⟨base, 0⟩ }
      match viewRun Gen.insertWiring (⟨1, 0⟩ : CF) (fun z : CF => (⟨z.re * z.re + z.im * z.im, 0⟩ : CF)) out acc ⟨w, 0⟩ with
      | some a => pure (okJ [("acc", cfArrToJson (freeze a))])
      | none => pure (errJ "ValueError")
  | _ => none

end Ops.C05
