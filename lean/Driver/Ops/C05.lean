import Driver.Ops.C01
import LentilVerif.Model.Energy
/-! Model driver ops for C05: intensity on a `propagate_dft` window, the FFT path, `normalize_power`. -/
open Lean Lentil Drv
namespace Ops.C05
open Ops.C01

instance : NormSqLike CF Float := ⟨fun z => z.re * z.re + z.im * z.im⟩

def cfFldOfJson (j : Json) : R (Fld CF) := do
  let a ← cfArrOfJson j
  let off ← getInts j "off"
  pure { arr := a, o0 := off[0]!, o1 := off[1]! }

/-- field with an optional `"tilt": [sr, sc]` (output samples; default no tilt) -/
def cfTiltedOfJson (j : Json) : R (Fld CF × Float × Float) := do
  let f ← cfFldOfJson j
  match optVal j "tilt" with
  | none => pure (f, 0.0, 0.0)
  | some t => do
      let a ← t.getArr?
      let v ← a.mapM floatOfJson
      pure (f, v[0]!, v[1]!)

def realArrToJson (a : Arr Float) : Json :=
  let cells := (idxList a.s0 a.s1).map fun (i, j) => a.get i j
  Json.mkObj [("shape", ints #[a.s0, a.s1]), ("v", Json.arr (cells.map floatToJson).toArray)]

def handle (op : String) (j : Json) : Option (R Json) :=
  match op with
  | "c05.window" => some do
      let ts ← (← getArr j "fields").mapM cfTiltedOfJson
      let al ← getFloats j "alpha"; let w ← getInts j "window"     -- [M, N, U0, V0]
      let F : Arr CF :=
        if ts.all (fun t => t.2.1 == 0.0 && t.2.2 == 0.0) then
          propagateWindow (ts.toList.map (·.1)) al[0]! al[1]! w[0]! w[1]! w[2]! w[3]!
        else propagateWindowTilted ts.toList al[0]! al[1]! w[0]! w[1]! w[2]! w[3]!
      pure (okJ [("I", realArrToJson (intensity (R := Float) F))])
  | "c05.fft" => some do
      let fs ← (← getArr j "fields").mapM cfFldOfJson
      let s ← getInts j "fft_shape"
      let X : Arr CF := fftPath (R := Float) (freeze (embedAll fs.toList s[0]! s[1]!))
      pure (okJ [("I", realArrToJson (intensity (R := Float) X))])
  | "c05.normalize" => some do
      let a ← cfArrOfJson j
      let p ← getFloat j "power"
      pure (okJ [("a", cfArrToJson (normalizePower a p))])
  | _ => none

end Ops.C05
