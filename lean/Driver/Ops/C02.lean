import Driver.Util
import LentilVerif.Model.Propagate
/-! Model driver ops for C02 (and the Float instantiation of the propagation model reused by C04/C09):
`c02.propagate_dft` runs `Lentil.propagateDft` + `Lentil.wavefrontField` at `K = Drv.CF`, `R = Float`. -/
open Lean Lentil Drv
namespace Ops.C02

instance : RealLike Float := ⟨Float.ofInt, 2.0 * 3.141592653589793, Float.sqrt, Float.abs⟩
instance : CxLike CF Float :=
  ⟨fun t => ⟨Float.cos t, Float.sin t⟩, fun r => ⟨r, 0⟩, fun z => ⟨z.re, -z.im⟩,
   fun z n => ⟨z.re / Float.ofInt n, z.im / Float.ofInt n⟩⟩

def cfData (j : Json) : R (Array CF) := do
  let re ← getFloats j "re"
  let im ← getFloats j "im"
  pure ((Array.range re.size).map fun k => ⟨re[k]!, im[k]!⟩)

/-- {"shape":[s0,s1],"re":[bits..],"im":[bits..]} → complex-double array -/
def cfArrOfJson (j : Json) : R (Arr CF) := do
  let sh ← getInts j "shape"
  let d ← cfData j
  pure { s0 := sh[0]!, s1 := sh[1]!, get := mkGet sh[1]! d }

def cfFldOfJson (j : Json) : R (Fld CF) := do
  let a ← cfArrOfJson j
  let off ← getInts j "off"
  pure { arr := a, o0 := off[0]!, o1 := off[1]! }

def cfArrToJson (a : Arr CF) : Json :=
  let cells := (idxList a.s0 a.s1).map fun (i, j) => a.get i j
  Json.mkObj [("shape", ints #[a.s0, a.s1]),
              ("re", Json.arr (cells.map (fun z => floatToJson z.re)).toArray),
              ("im", Json.arr (cells.map (fun z => floatToJson z.im)).toArray)]

def cfFldToJson (f : Fld CF) : Json :=
  (cfArrToJson f.arr).mergeObj (Json.mkObj [("off", ints #[f.o0, f.o1])])

/-- force the lazily defined result once (the model's `get` recomputes the sums on every access) -/
def freeze (a : Arr CF) : Arr CF :=
  let cells : Array CF := ((idxList a.s0 a.s1).map fun (i, j) => a.get i j).toArray
  { a with get := mkGet a.s1 cells }

def freezeF (f : Fld CF) : Fld CF := { f with arr := freeze f.arr }

/-- `np.fix` at Float: toward zero -/
instance : TruncLike Float := ⟨fun s => if s ≥ 0 then s.floor.toInt64.toInt else s.ceil.toInt64.toInt⟩

/-- {"shape","off","re","im","shift":[bits,bits]} → field with its shift split by the model's `np.fix` (`tfieldOfShift`);
{"fix":[i,i],"sub":[bits,bits]} (an explicit split) is accepted too -/
def tfieldOfJson (j : Json) : R (TField CF Float) := do
  let f ← cfFldOfJson j
  match optVal j "shift" with
  | some _ =>
    let s ← getFloats j "shift"
    pure (tfieldOfShift f s[0]! s[1]!)
  | none =>
    let fx ← getInts j "fix"
    let sb ← getFloats j "sub"
    pure { fld := f, fix0 := fx[0]!, fix1 := fx[1]!, sub0 := sb[0]!, sub1 := sb[1]! }

/-- {"mask_values": {"shape":[..],"v":[bits..]}} → the mask array thresholded at 0 (`x > threshold`) -/
def maskArrOfJson (j : Json) : R (Option (Arr Bool)) :=
  match optVal j "mask_values" with
  | none => pure none
  | some Json.null => pure none
  | some m => do
    let sh ← getInts m "shape"
    let v ← getFloats m "v"
    let a : Arr Float := { s0 := sh[0]!, s1 := sh[1]!, get := mkGet sh[1]! v }
    pure (some (gtMask a (Float.ofInt Gen.dftMaskThreshold)))

/-- a `shape=` / `prop_shape=` argument: null | int | [a, b] -/
def shapeArgOfJson (j : Json) (k : String) : R Gen.ShapeArg :=
  match optVal j k with
  | none => pure .none
  | some Json.null => pure .none
  | some (Json.arr a) => do
    let v ← a.mapM (·.getInt?)
    if v.size == 2 then pure (.pair v[0]! v[1]!) else throw s!"{k}: expected a pair"
  | some v => do let n ← v.getInt?; pure (.scalar n)

def maskOfJson (j : Json) : R (Option Extent) :=
  match optVal j "mask" with
  | none => pure none
  | some Json.null => pure none
  | some _ => do let e ← extOfJson j "mask"; pure (some e)

def one : CF := ⟨1, 0⟩

def handle (op : String) (j : Json) : Option (R Json) :=
  match op with
  | "c02.propagate_dft" => some do
      let fs ← (← getArr j "fields").mapM tfieldOfJson
      let dx ← getFloats j "dx"; let du ← getFloats j "du"
      let wl ← getFloat j "wl"; let z ← getFloat j "z"
      let os ← getInt j "os"
      let al := dftAlpha dx[0]! dx[1]! du[0]! du[1]! wl z os
      let mt := dftMeta dx[0]! dx[1]! du[0]! du[1]! wl z os
      match optVal j "wshape" with
      | none =>
        -- resolved form (used by other properties' harnesses): explicit shape / prop_shape pairs and the mask box
        let sh ← getInts j "shape"; let ps ← getInts j "prop_shape"
        let mask ← maskOfJson j
        let out := (propagateDft fs.toList al.1 al.2 sh[0]! sh[1]! ps[0]! ps[1]! os mask).map freezeF
        let canvas := wavefrontField one out (sh[0]! * os) (sh[1]! * os)
        pure (okJ [("fields", Json.arr (out.map cfFldToJson).toArray), ("canvas", cfArrToJson canvas),
                   ("alpha", Json.arr #[floatToJson al.1, floatToJson al.2]),
                   ("splits", Json.arr (fs.map fun t => Json.arr #[intJ t.fix0, intJ t.fix1, floatToJson t.sub0, floatToJson t.sub1])),
                   ("mask_box", match mask with | some b => extToJson b | none => Json.null),
                   ("wavelength", floatToJson mt.1), ("focal_length", floatToJson mt.2.2),
                   ("pixelscale", Json.arr #[floatToJson mt.2.1.1, floatToJson mt.2.1.2])])
      | some _ =>
      let ws ← getInts j "wshape"
      let shape ← shapeArgOfJson j "shape"; let propShape ← shapeArgOfJson j "prop_shape"
      let maskArr ← maskArrOfJson j
      -- the whole call as written: defaults, broadcasting, mask guard, boundary, out_extent (all from generated code)
      -- optional "wtype": the wavefront's plane type; then the typed call `propagateDftTyped` (plane-type check, then the rest) is run
      let wt ← match optVal j "wtype" with
        | none => pure (none : Option Gen.WType)
        | some Json.null => pure none
        | some (Json.str s) => match Gen.WType.ofName? s with
          | some t => pure (some t)
          | none => throw s!"unknown wavefront type {s}"
        | some _ => throw "wtype: string expected"
      let (ptOut, body) ← match wt with
        | none => pure ((none : Option Gen.WType), propagateDftCall fs.toList al.1 al.2 ws[0]! ws[1]! shape propShape os maskArr)
        | some t => match propagateDftTyped t fs.toList al.1 al.2 ws[0]! ws[1]! shape propShape os maskArr with
          | .refusedBy e => return (errJ e.name)
          | .done t' o => pure (some t', o)
      let ptJ : Json := match ptOut with | some t => Json.str t.name | none => Json.null
      match body with
      | .valueError => pure (errJ "ValueError")
      | .indexError => pure (errJ "IndexError")
      | .ok outFields S0 S1 =>
        let out := outFields.map freezeF
        let canvas := wavefrontField one out S0 S1
        let maskBox := match maskArr with
          | some m => (boundary m).map fun b => maskOutExtent m.s0 m.s1 S0 S1 b
          | none => none
        pure (okJ [("fields", Json.arr (out.map cfFldToJson).toArray), ("canvas", cfArrToJson canvas),
                   ("alpha", Json.arr #[floatToJson al.1, floatToJson al.2]),
                   ("splits", Json.arr (fs.map fun t => Json.arr #[intJ t.fix0, intJ t.fix1, floatToJson t.sub0, floatToJson t.sub1])),
                   ("out_shape", ints #[S0, S1]), ("ptype", ptJ),
                   ("mask_box", match maskArr with
                      | some m => (match boundary m with | some b => extToJson b | none => Json.null)
                      | none => Json.null),
                   ("mask_extent", match maskBox with | some b => extToJson b | none => Json.null),
                   ("wavelength", floatToJson mt.1), ("focal_length", floatToJson mt.2.2),
                   ("pixelscale", Json.arr #[floatToJson mt.2.1.1, floatToJson mt.2.1.2])])
  | "c02.fix" => some do
      let v ← getFloats j "v"
      pure (okJ [("fix", ints (v.map fun x => (TruncLike.trunc x : Int)))])
  | "c02.window" => some do
      let oe ← extOfJson j "out_extent"
      let ps ← getInts j "prop_shape"; let fx ← getInts j "fix"
      match dftWindow oe ps[0]! ps[1]! fx[0]! fx[1]! with
      | none => pure (okJ [("window", Json.null)])
      | some (a, b, c) => pure (okJ [("window", ints #[a.1, a.2, b.1, b.2, c.1, c.2])])
  | "c02.out_extent" => some do
      let sh ← getInts j "shape"
      let mask ← maskOfJson j
      pure (okJ [("extent", extToJson (outExtent sh[0]! sh[1]! mask))])
  | _ => none

end Ops.C02
