import Driver.Util
import LentilVerif.Model.FieldZ
open Lean Lentil Drv
namespace Ops.C06

/-- a field with the explicit flag "data is 0-d" (key `zd`, required) -/
def zfldOfJson (j : Json) : R (ZFld GI) := do
  let f ← fldOfJson j
  let zd ← getBool j "zd"
  pure { fld := f, zd := zd }
def zfldToJson (z : ZFld GI) : Json := (fldToJson z.fld).mergeObj (Json.mkObj [("zd", Json.bool z.zd)])

def handle (op : String) (j : Json) : Option (R Json) :=
  match op with
  | "extent.array_extent" => some do
      let s ← getInts j "shape"; let o ← getInts j "shift"
      pure (okJ [("extent", extToJson (arrayExtent s[0]! s[1]! o[0]! o[1]!))])
  | "extent.pair" => some do
      let a ← extOfJson j "a"; let b ← extOfJson j "b"
      let sl := intersectionSlices a b
      let sh := intersectionShift a b
      let ce := arrayCenter a
      pure (okJ [("intersect", Json.bool (intersect a b)),
                 ("extent", extToJson (intersectionExtent a b)),
                 ("shape", match intersectionShape a b with | none => Json.arr #[] | some p => ints #[p.1, p.2]),
                 ("slices", ints #[sl.1.1.1, sl.1.1.2, sl.1.2.1, sl.1.2.2, sl.2.1.1, sl.2.1.2, sl.2.2.1, sl.2.2.2]),
                 ("shift", ints #[sh.1, sh.2]),
                 ("center_a", ints #[ce.1, ce.2])])
  | "field.mul" => some do
      let a ← fldOfJson (← j.getObjVal? "a"); let b ← fldOfJson (← j.getObjVal? "b")
      match a.mul b with
      | none => pure (okJ [("fields", Json.arr #[])])
      | some p => pure (okJ [("fields", Json.arr #[fldToJson p])])
  | "field.merge" => some do
      let fs ← (← getArr j "fields").mapM fldOfJson
      match mergeL fs.toList with
      | none => pure (errJ "ValueError")
      | some p => pure (okJ [("fields", Json.arr #[fldToJson p])])
  | "field.boundary" => some do
      let fs ← (← getArr j "fields").mapM fldOfJson
      pure (okJ [("extent", extToJson (boundaryL (fs.toList.map Fld.extent)))])
  | "field.reduce" => some do
      let fs ← (← getArr j "fields").mapM fldOfJson
      let out := reduce fs.toList
      if out.any Option.isNone then pure (errJ "ValueError")
      else pure (okJ [("fields", Json.arr (out.filterMap id |>.map fldToJson).toArray)])
  | "field.mergez" => some do
      let zs ← (← getArr j "fields").mapM zfldOfJson
      match mergeZ zs.toList with
      | none => pure (errJ "ValueError")
      | some p => pure (okJ [("fields", Json.arr #[zfldToJson p])])
  | "field.reducez" => some do
      let zs ← (← getArr j "fields").mapM zfldOfJson
      let out := reduceZ zs.toList
      if out.any Option.isNone then pure (errJ "ValueError")
      else pure (okJ [("fields", Json.arr (out.filterMap id |>.map zfldToJson).toArray)])
  | "field.merge_public" => some do
      let a ← zfldOfJson (← j.getObjVal? "a"); let b ← zfldOfJson (← j.getObjVal? "b")
      let enforce ← getBool j "enforce"
      match mergePublic a b enforce with
      | none => pure (errJ "ValueError")
      | some p => pure (okJ [("fields", Json.arr #[zfldToJson p])])
  | "field.overlap" => some do
      let fs ← (← getArr j "fields").mapM fldOfJson
      pure (okJ [("overlap", Json.bool (overlapL fs.toList))])
  | "field.mulz" => some do
      let a ← zfldOfJson (← j.getObjVal? "a"); let b ← zfldOfJson (← j.getObjVal? "b")
      match a.mul b with
      | none => pure (okJ [("fields", Json.arr #[])])
      | some p => pure (okJ [("fields", Json.arr #[zfldToJson p])])
  | "field.chain" => some do
      -- p = a * b (an empty product is dropped, as Plane.multiply does), then one more operation on p
      let a ← zfldOfJson (← j.getObjVal? "a"); let b ← zfldOfJson (← j.getObjVal? "b")
      let cs ← (← getArr j "cs").mapM zfldOfJson
      let next ← (← j.getObjVal? "then").getStr?
      let p := a.mul b
      match next with
      | "mul" =>
        let c0 ← match cs[0]? with | some c => pure c | none => throw "field.chain: mul needs one more field"
        match p.bind (fun p => p.mul c0) with
        | none => pure (okJ [("fields", Json.arr #[]), ("dropped", Json.bool p.isNone)])
        | some q => pure (okJ [("fields", Json.arr #[zfldToJson q]), ("dropped", Json.bool false)])
      | "merge" =>
        match p with
        | none => pure (okJ [("fields", Json.arr #[]), ("dropped", Json.bool true)])
        | some p =>
          match mergeZ (p :: cs.toList) with
          | none => pure (errJ "ValueError")
          | some q => pure (okJ [("fields", Json.arr #[zfldToJson q]), ("dropped", Json.bool false)])
      | "reduce" =>
        let out := reduceZ (p.toList ++ cs.toList)
        if out.any Option.isNone then pure (errJ "ValueError")
        else pure (okJ [("fields", Json.arr (out.filterMap id |>.map zfldToJson).toArray), ("dropped", Json.bool p.isNone)])
      | "insert" =>
        let out ← arrOfJson (← j.getObjVal? "out")
        let w ← getInt j "weight"
        let inten ← getBool j "intensity"
        match p with
        | none => pure (okJ [("out", arrToJson out), ("dropped", Json.bool true)])
        | some p =>
          if p.zd then pure (errJ "ValueError")
          else
            let res := insertArrMode inten (fun z => GI.normSq z) p.fld out ⟨w, 0⟩
            pure (okJ [("out", arrToJson res), ("dropped", Json.bool false)])
      | _ => throw "field.chain: unknown step"
  | "field.insert" => some do
      let f ← fldOfJson (← j.getObjVal? "field"); let out ← arrOfJson (← j.getObjVal? "out")
      let w ← getInt j "weight"
      let inten ← getBool j "intensity"
      let res := insertArrMode inten (fun z => GI.normSq z) f out ⟨w, 0⟩
      pure (okJ [("out", arrToJson res)])
  | _ => none

end Ops.C06
