import Driver.Util
import Driver.Ops.C14
import LentilVerif.Model.Spectrum
open Lean Lentil Drv Lentil.Spec Ops.C14
namespace Ops.C15

def specOf (j : Json) : R Spectrum := do
  pure ⟨← getRats j "wave", ← getRats j "value"⟩

def optRat (j : Json) (k : String) : R (Option Rat) :=
  match optVal j k with
  | some Json.null => pure none
  | some v => do let q ← ratOfJson v; pure (some q)
  | none => pure none

def opOf (j : Json) : R Op := do
  let k ← getStr j "k"
  match k with
  | "crop" => pure (.crop (← getRat j "lo") (← getRat j "hi"))
  | "trim" => pure (.trim (← getRat j "tol"))
  | "append" => pure (.append (← specOf (← j.getObjVal? "other")))
  | "pad" => pure (.pad (← getRat j "e0") (← getRat j "e1") (← optRat j "sampling") (← getBool j "edge") (← getRat j "vL") (← getRat j "vR"))
  | "resample" => pure (.resample (← getRats j "xs") (← getRat j "fillL") (← getRat j "fillR"))
  | _ => throw s!"unknown spectrum op {k}"

def outcomeJ (o : Outcome) : Json :=
  okJ [("wave", ratsJ o.1.wave), ("value", ratsJ o.1.value),
       ("exc", match o.2 with | some e => Json.str e.name | none => Json.null), ("wf", Json.bool (wfB o.1))]

def exceptJ (r : Except Err (List Rat)) : Json :=
  match r with
  | .ok l => okJ [("v", ratsJ l)]
  | .error e => errJ e.name

def handle (op : String) (j : Json) : Option (R Json) :=
  match op with
  | "c15.step" => some do
      let s ← specOf j
      let o ← opOf (← j.getObjVal? "opd")
      pure (outcomeJ (step s o))
  | "c15.integrate" => some do
      let s ← specOf j
      pure (okJ [("q", ratToJson (integrate s (← getRat j "a") (← getRat j "b")))])
  | "c15.sample" => some do
      let s ← specOf j
      pure (exceptJ (sample s (← getRat j "fillL") (← getRat j "fillR") (← getRats j "xs")))
  | "c15.bin" => some do
      let s ← specOf j
      let c ← getRats j "centres"
      let pp ← getStr j "pp"
      let norm : Option (Option Rat) ← match pp with
        | "none" => pure none
        | "given" => (do let q ← getRat j "norm"; pure (some (some q)))
        | _ => pure (some none)
      let intC := match optVal j "intC" with | some (Json.bool b) => b | _ => false
      let s0 ← getBool j "simps"; let sy ← getBool j "symmetric"
      let fl ← getRat j "fillL"; let fr ← getRat j "fillR"
      match binRaw s s0 sy fl fr c intC with
      | .error e => pure (errJ e.name)
      | .ok raw =>
        match bin s s0 sy fl fr norm c intC with
        | .error e => pure (errJ e.name)
        | .ok l => pure (okJ [("v", ratsJ l), ("rawsum", ratToJson (sumL raw))])
  | _ => none

end Ops.C15
