import Driver.Util
import LentilVerif.Model.Fourier
import LentilVerif.Model.FourierOut
/-! Model driver ops for C01 (and the Float instantiation of the Fourier model reused by C05/C19):
`c01.dft2`, `c01.idft2` run `Lentil.dft2`/`Lentil.idft2` at `K = Drv.CF`, `R = Float`; `c01.out` / `c01.iout` run the buffer models
`Lentil.dft2Out` / `Lentil.idft2Out` (outcome tag and, when written, the buffer's contents); `c01.roundtrip` runs `idft2 ∘ dft2` with optional forward
shift / offset and inverse shift. -/
open Lean Lentil Drv
namespace Ops.C01

instance : RealLike Float := ⟨Float.ofInt, 6.283185307179586, Float.sqrt, Float.abs⟩
instance : CxLike CF Float :=
  ⟨fun t => ⟨Float.cos t, Float.sin t⟩, fun r => ⟨r, 0⟩, fun z => ⟨z.re, -z.im⟩,
   fun z n => ⟨z.re / Float.ofInt n, z.im / Float.ofInt n⟩⟩

/-- {"shape":[s0,s1],"re":[bits..],"im":[bits..]} → complex-double array -/
def cfArrOfJson (j : Json) : R (Arr CF) := do
  let sh ← getInts j "shape"
  let re ← getFloats j "re"
  let im ← getFloats j "im"
  let d : Array CF := (Array.range re.size).map fun k => ⟨re[k]!, im[k]!⟩
  pure { s0 := sh[0]!, s1 := sh[1]!, get := mkGet sh[1]! d }

def cfArrToJson (a : Arr CF) : Json :=
  let cells := (idxList a.s0 a.s1).map fun (i, j) => a.get i j
  Json.mkObj [("shape", ints #[a.s0, a.s1]),
              ("re", Json.arr (cells.map (fun z => floatToJson z.re)).toArray),
              ("im", Json.arr (cells.map (fun z => floatToJson z.im)).toArray)]

/-- force the lazily defined result once (the model's `get` recomputes the sums on every access) -/
def freeze (a : Arr CF) : Arr CF :=
  let cells : Array CF := ((idxList a.s0 a.s1).map fun (i, j) => a.get i j).toArray
  { a with get := mkGet a.s1 cells }

def handle (op : String) (j : Json) : Option (R Json) :=
  match op with
  | "c01.dft2" => some do
      let f ← cfArrOfJson j
      let al ← getFloats j "alpha"; let sh ← getInts j "oshape"
      let sf ← getFloats j "shift"; let off ← getInts j "offset"
      -- "unitary": null — the call omits the flag: the default regenerated from dft2's signature
      let un ← match optVal j "unitary" with | some (Json.bool b) => pure b | _ => pure Gen.fwDft2DefaultUnitary
      pure (okJ [("F", cfArrToJson (dft2 f al[0]! al[1]! sh[0]! sh[1]! sf[0]! sf[1]! off[0]! off[1]! un))])
  | "c01.idft2" => some do
      let f ← cfArrOfJson j
      let al ← getFloats j "alpha"; let sh ← getInts j "oshape"
      let sf ← getFloats j "shift"
      let un ← match optVal j "unitary" with | some (Json.bool b) => pure b | _ => pure Gen.fwIdft2DefaultUnitary
      pure (okJ [("F", cfArrToJson (idft2 f al[0]! al[1]! sh[0]! sh[1]! sf[0]! sf[1]! un))])
  | "c01.roundtrip" => some do
      -- idft2 (dft2 f) with the same sampling, shape and flag on both sides
      let f ← cfArrOfJson j
      let al ← getFloats j "alpha"
      let un ← getBool j "unitary"
      -- optional "period": [K, L] — forward onto K × L samples (oversampled period), inverse back onto the input shape
      let per ← match optVal j "period" with
        | none => pure #[f.s0, f.s1]
        | some p => do (← p.getArr?).mapM (·.getInt?)
      -- optional forward "shift" (floats) / "offset" (ints) and inverse "ishift" (floats): the rolled, phased round trip
      let sf ← match optVal j "shift" with
        | none => pure #[(0 : Float), 0]
        | some _ => getFloats j "shift"
      let off ← match optVal j "offset" with
        | none => pure #[(0 : Int), 0]
        | some _ => getInts j "offset"
      let isf ← match optVal j "ishift" with
        | none => pure #[(0 : Float), 0]
        | some _ => getFloats j "ishift"
      let F := freeze (dft2 f al[0]! al[1]! per[0]! per[1]! sf[0]! sf[1]! off[0]! off[1]! un)
      pure (okJ [("F", cfArrToJson F), ("g", cfArrToJson (idft2 F al[0]! al[1]! f.s0 f.s1 isf[0]! isf[1]! un))])
  | "c01.out" => some do
      -- the `out=` path in the buffer model: "buf" = {"dtype", "shape", "strides" (in elements), "writeable"}
      let f ← cfArrOfJson j
      let al ← getFloats j "alpha"; let sh ← getInts j "oshape"
      let sf ← getFloats j "shift"; let off ← getInts j "offset"
      let un ← getBool j "unitary"
      let bj ← j.getObjVal? "buf"
      let dt ← match (← getStr bj "dtype") with
        | "complex128" => pure BufDtype.complex128 | "complex64" => pure BufDtype.complex64
        | "clongdouble" => pure BufDtype.clongdouble | "float64" => pure BufDtype.float64
        | "int64" => pure BufDtype.int64 | "object" => pure BufDtype.object
        | d => throw s!"c01.out: unknown buffer dtype {d}"
      let bshape ← getInts bj "shape"; let bstr ← getInts bj "strides"
      -- the buffer's previous contents: a constant the result must not depend on
      let junk : Arr CF := { s0 := bshape.getD 0 0, s1 := bshape.getD 1 0, get := fun _ _ => ⟨7.5, -2.5⟩ }
      let b : OutBuf CF := ⟨dt, bshape.toList, bstr.toList, ← getBool bj "writeable", junk⟩
      match dft2Out f al[0]! al[1]! sh[0]! sh[1]! sf[0]! sf[1]! off[0]! off[1]! un (some b) with
      | .ok r (some a) isBuf => pure (okJ [("outcome", Json.str "ok"), ("is_buffer", Json.bool isBuf), ("F", cfArrToJson r), ("B", cfArrToJson a)])
      | o => pure (okJ [("outcome", Json.str o.tag)])
  | "c01.iout" => some do
      -- `idft2(F, …, out=buf)` in the buffer model (`Lentil.idft2Out`): outcome tag and, when written, result and buffer contents
      let f ← cfArrOfJson j
      let al ← getFloats j "alpha"; let sh ← getInts j "oshape"
      let sf ← getFloats j "shift"
      let un ← getBool j "unitary"
      let bj ← j.getObjVal? "buf"
      let dt ← match (← getStr bj "dtype") with
        | "complex128" => pure BufDtype.complex128 | "complex64" => pure BufDtype.complex64
        | "clongdouble" => pure BufDtype.clongdouble | "float64" => pure BufDtype.float64
        | "int64" => pure BufDtype.int64 | "object" => pure BufDtype.object
        | d => throw s!"c01.iout: unknown buffer dtype {d}"
      let bshape ← getInts bj "shape"; let bstr ← getInts bj "strides"
      let junk : Arr CF := { s0 := bshape.getD 0 0, s1 := bshape.getD 1 0, get := fun _ _ => ⟨7.5, -2.5⟩ }
      let b : OutBuf CF := ⟨dt, bshape.toList, bstr.toList, ← getBool bj "writeable", junk⟩
      match idft2Out f al[0]! al[1]! sh[0]! sh[1]! sf[0]! sf[1]! un (some b) with
      | .ok r (some a) isBuf => pure (okJ [("outcome", Json.str "ok"), ("is_buffer", Json.bool isBuf), ("F", cfArrToJson (freeze r)), ("B", cfArrToJson (freeze a))])
      | o => pure (okJ [("outcome", Json.str o.tag)])
  | _ => none

end Ops.C01
