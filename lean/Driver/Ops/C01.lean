import Driver.Util
import LentilVerif.Model.Fourier
/-! Model driver ops for C01 (and the Float instantiation of the Fourier model reused by C05/C19):
`c01.dft2`, `c01.idft2` run `Lentil.dft2`/`Lentil.idft2` at `K = Drv.CF`, `R = Float`. -/
open Lean Lentil Drv
namespace Ops.C01

instance : RealLike Float := ⟨Float.ofInt, 6.283185307179586, Float.sqrt, Float.abs⟩
instance : CxLike CF Float :=
  ⟨fun t => ⟨Float.cos t, Float.sin t⟩, fun r => ⟨r, 0⟩, fun z => ⟨z.re, -z.im⟩,
   fun z n => ⟨z.re / Float.ofInt n, z.im / Float.ofInt n⟩⟩

/-- {"shape":[s0,s1],"re":[bits..],"im":[bits..]} → complex-double array -/
def cfArrOfJson (j : Json) : R (Arr CF) := do
  let sh ← getInts j "shape"
  let re ← getFloats j "re"
  let im ← getFloats j "im"
  let d : Array CF := (Array.range re.size).map fun k => ⟨re[k]!, im[k]!⟩
  pure { s0 := sh[0]!, s1 := sh[1]!, get := mkGet sh[1]! d }

def cfArrToJson (a : Arr CF) : Json :=
  let cells := (idxList a.s0 a.s1).map fun (i, j) => a.get i j
  Json.mkObj [("shape", ints #[a.s0, a.s1]),
              ("re", Json.arr (cells.map (fun z => floatToJson z.re)).toArray),
              ("im", Json.arr (cells.map (fun z => floatToJson z.im)).toArray)]

/-- force the lazily defined result once (the model's `get` recomputes the sums on every access) -/
def freeze (a : Arr CF) : Arr CF :=
  let cells : Array CF := ((idxList a.s0 a.s1).map fun (i, j) => a.get i j).toArray
  { a with get := mkGet a.s1 cells }

def handle (op : String) (j : Json) : Option (R Json) :=
  match op with
  | "c01.dft2" => some do
      let f ← cfArrOfJson j
      let al ← getFloats j "alpha"; let sh ← getInts j "oshape"
      let sf ← getFloats j "shift"; let off ← getInts j "offset"
      let un ← getBool j "unitary"
      pure (okJ [("F", cfArrToJson (dft2 f al[0]! al[1]! sh[0]! sh[1]! sf[0]! sf[1]! off[0]! off[1]! un))])
  | "c01.idft2" => some do
      let f ← cfArrOfJson j
      let al ← getFloats j "alpha"; let sh ← getInts j "oshape"
      let sf ← getFloats j "shift"
      let un ← getBool j "unitary"
      pure (okJ [("F", cfArrToJson (idft2 f al[0]! al[1]! sh[0]! sh[1]! sf[0]! sf[1]! un))])
  | "c01.roundtrip" => some do
      -- idft2 (dft2 f) with the same sampling, shape and flag on both sides
      let f ← cfArrOfJson j
      let al ← getFloats j "alpha"
      let un ← getBool j "unitary"
      -- optional "period": [K, L] — forward onto K × L samples (oversampled period), inverse back onto the input shape
      let per ← match optVal j "period" with
        | none => pure #[f.s0, f.s1]
        | some p => do (← p.getArr?).mapM (·.getInt?)
      let F := freeze (dft2 f al[0]! al[1]! per[0]! per[1]! 0 0 0 0 un)
      pure (okJ [("F", cfArrToJson F), ("g", cfArrToJson (idft2 F al[0]! al[1]! f.s0 f.s1 0 0 un))])
  | _ => none

end Ops.C01
