import Driver.Util
import LentilVerif.Model.Heap
/-! Driver ops for C10: run a history through the heap model over the *generated* effect table and report, per step,
which cells the model allows to change, whether the global generator may change and whether the cache may be written. -/
open Lean Drv
namespace Ops.C10
open Lentil.Heap

def opOfJson (j : Json) : R Op := do
  let fn ← getStr j "fn"
  let bs ← getArr j "bind"
  let bind ← bs.toList.mapM fun b => do
    let a ← b.getArr?
    let slot ← a[0]!.getStr?
    let cell ← a[1]!.getNat?
    pure (slot, cell)
  let res : Option Nat := match optVal j "res" with
    | some (Json.num n) => some n.mantissa.toNat
    | _ => none
  let inplace := match optVal j "inplace" with | some (Json.bool b) => b | _ => true
  pure { fn := fn, bind := bind, res := res, inplace := inplace, newVal := fun _ => 1, newRng := 1, newCoords := freshCoords, evict := fun _ => false, key := none }

def handle (op : String) (j : Json) : Option (R Json) :=
  match op with
  | "heap.run" => some do
      let ops ← (← getArr j "ops").toList.mapM opOfJson
      let s0 : State := { val := fun _ => 0, refs := fun _ => [], rng := 0, cache := fun _ => none }
      let (_, outs) := ops.foldl (fun (acc : State × List Json) o =>
        let (s, out) := acc
        let w := writeCells Gen.effTable s o
        let known := match row? Gen.effTable o.fn with | some r => r.pub | none => false
        let slots := writeSlots Gen.effTable o
        let doc := slots.all fun sl => documentedInPlace.contains (o.fn, sl)
        let ans := Json.mkObj [("may", Json.arr (w.map fun c => Json.num (JsonNumber.fromNat c)).toArray),
                               ("rng", Json.bool (usesGlobalRng Gen.effTable o.fn)),
                               ("cache", Json.bool (writesCache Gen.effTable o.fn)),
                               ("known", Json.bool known), ("documented", Json.bool doc),
                               ("slots", Json.arr (slots.map Json.str).toArray)]
        (step Gen.effTable s o, out ++ [ans])) (s0, [])
      pure (okJ [("steps", Json.arr outs.toArray)])
  | "heap.rows" => some do
      -- per function: what the generated table allows (write slots, global generator, cache)
      let fns ← (← getArr j "fns").toList.mapM (·.getStr?)
      let outs := fns.map fun fn =>
        match row? Gen.effTable fn with
        | none => Json.mkObj [("known", Json.bool false)]
        | some r => Json.mkObj [("known", Json.bool true), ("pub", Json.bool r.pub),
                                ("slots", Json.arr (r.writes.map fun w => Json.str w.1).toArray),
                                ("rng", Json.bool r.globalRng), ("cache", Json.bool (!r.cacheWrites.isEmpty))]
      pure (okJ [("rows", Json.arr outs.toArray)])
  | "heap.table" => some do
      pure (okJ [("rows", Json.num (JsonNumber.fromNat Gen.effTable.length)),
                 ("caches", Json.arr (Gen.effCaches.map Json.str).toArray)])
  | _ => none

end Ops.C10
