import Driver.Ops.C07
import LentilVerif.Model.PropSeg
/-! Driver operations for C03: run a chain of planes (as `c07.run`, complex doubles) and propagate the result with the
model of `propagate_dft` (tilt-free fields, no output mask); report the propagated `field` and `intensity`. -/
open Lean Lentil Drv
namespace Ops.C03

@[instance_reducible] def realLikeFloat : RealLike Float where
  ofInt := Float.ofInt
  twoPi := Ops.C07.twoPi
  sqrt := Float.sqrt
  abs := Float.abs

@[instance_reducible] def cxLikeCF : CxLike CF Float where
  expI t := ⟨Float.cos t, Float.sin t⟩
  ofReal x := ⟨x, 0.0⟩
  conj z := ⟨z.re, -z.im⟩
  divInt z n := ⟨z.re / Float.ofInt n, z.im / Float.ofInt n⟩

attribute [local instance] realLikeFloat cxLikeCF

def floats2 (j : Json) (k : String) : R (Float × Float) := do
  let a ← getFloats j k
  pure (a[0]!, a[1]!)
def ints2 (j : Json) (k : String) : R (Int × Int) := do
  let a ← getInts j k
  pure (a[0]!, a[1]!)

def handle (op : String) (j : Json) : Option (R Json) :=
  match op with
  | "c03.run" => some do
      let N := Ops.C07.numCF
      match ← Ops.C07.runChain N j with
      | .error e => pure (errJ e)
      | .ok w =>
        let pj ← j.getObjVal? "prop"
        let dx ← floats2 pj "dx"; let du ← floats2 pj "du"
        let os ← getInt pj "os"
        let shape ← ints2 pj "shape"; let pshape ← ints2 pj "prop_shape"
        let osf := Float.ofInt os
        -- `_dft_alpha(dx, du, wavelength, z, oversample)`
        let αr := (dx.1 * du.1) / (w.wavelength * w.focal * osf)
        let αc := (dx.2 * du.2) / (w.wavelength * w.focal * osf)
        let shapeOut := (shape.1 * os, shape.2 * os)
        let propOut := (pshape.1 * os, pshape.2 * os)
        let out : List (Fld CF) := propagateDftNoTilt w.data αr αc shapeOut propOut
        let fld := wfField N.one shapeOut.1 shapeOut.2 out
        let inten := wfIntensity N.one N.nsq shapeOut.1 shapeOut.2 out
        let pre ← Ops.C07.wfJ N (Json.mkObj []) w
        pure (okJ [("pre", pre), ("nfields", intJ out.length),
                   ("field", Ops.C07.arrJ N fld),
                   ("intensity", match inten with | some a => Ops.C07.arrJ N a | none => Json.str "ValueError")])
  | _ => none

end Ops.C03
