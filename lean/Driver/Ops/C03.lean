import Driver.Ops.C07
import LentilVerif.Model.PropSeg
import LentilVerif.Model.PlaneTilt
import LentilVerif.Model.ChainExt
/-! Driver operations for C03: run a chain of planes (as `c07.run`, complex doubles) and propagate the result with the
model of `propagate_dft` (tilt-free fields, no output mask); report the propagated `field` and `intensity`. -/
open Lean Lentil Drv
namespace Ops.C03

attribute [local instance] Ops.C07.realLikeFloat Ops.C07.cxLikeCF

def floats2 (j : Json) (k : String) : R (Float × Float) := do
  let a ← getFloats j k
  pure (a[0]!, a[1]!)
def ints2 (j : Json) (k : String) : R (Int × Int) := do
  let a ← getInts j k
  pure (a[0]!, a[1]!)

/-- `[x, y]` (bit patterns) → `lentil.Tilt(x=x, y=y)` -/
def tiltOf (j : Json) : R (TiltEl Float) := do
  let a ← j.getArr?
  pure (.angular (← floatOfJson a[0]!) (← floatOfJson a[1]!))

def tiltJ (e : TiltEl Float) : Json :=
  match e with
  | .angular x y => Json.arr #[floatToJson x, floatToJson y]
  | .dispersive1 a b c d => Json.arr #[floatToJson a, floatToJson b, floatToJson c, floatToJson d]
  | .dispersiveN trace x => Json.arr ((trace.map floatToJson).toArray.push (floatToJson x))

/-- `np.fix`: truncation toward zero, with the remainder -/
def fixSplit (x : Float) : Int × Float :=
  let t := if x ≥ 0.0 then Float.floor x else Float.ceil x
  (t.toInt64.toInt, x - t)

/-- materialise a lazily defined array (so that later stages do not recompute the transform for every access) -/
def freezeF (f : Fld CF) : Fld CF :=
  let d : Array CF := ((idxList f.arr.s0 f.arr.s1).map fun (i, k) => f.arr.get i k).toArray
  { f with arr := { f.arr with get := mkGet f.arr.s1 d } }

/-- `mask` of `propagate_dft` as the box `lentil.boundary(mask)` = [rmin, rmax, cmin, cmax], or null -/
def maskBox (j : Json) : R (Option Extent) :=
  match optVal j "mask" with
  | none => pure none
  | some v => if v.isNull then pure none else do pure (some (← extOfJson j "mask"))

def viewsJ (N : Ops.C07.Num CF Float) (shape : Option (Int × Int)) (data : List (Fld CF)) : Json :=
  match shape with
  | none => Json.mkObj [("shape", Json.null), ("nfields", intJ data.length)]
  | some (S0, S1) =>
    Json.mkObj [("shape", ints #[S0, S1]), ("nfields", intJ data.length),
      ("field", Ops.C07.arrJ N (wfField N.one S0 S1 data)),
      ("intensity", match wfIntensity N.one N.nsq S0 S1 data with | some a => Ops.C07.arrJ N a | none => Json.str "ValueError")]

/-- a chain of Pupil/Plane/Image, Tilt and `propagate_dft` elements on a fresh wavefront (optionally `Wavefront(tilt=…)`), tilt
lists carried per field; `propagate_dft` is builderB's `propagateDft` (per-field shifts from the tilt lists, generated window
block, optional output mask). Reports the views after every element (`steps`), the final per-field list, and — for the older
request form with a trailing `prop` — the propagated views. -/
def runTiltChain (j : Json) : R Json := do
  let N := Ops.C07.numCF
  let wl ← getFloat j "wavelength"
  let t0 : List (TiltEl Float) ← match optVal j "wtilt" with
    | none => pure []
    | some v => if v.isNull then pure [] else do pure [← tiltOf v]
  let mut data : List (TFld CF Float) := [({ arr := { s0 := 1, s1 := 1, get := fun _ _ => N.one }, o0 := 0, o1 := 0 }, t0)]
  let mut focal : Float := 0.0
  let mut shape : Option (Int × Int) := none
  let mut steps : Array Json := #[]
  for ej in ← getArr j "elements" do
    let kind ← getStr ej "kind"
    if kind == "tilt" then
      let e : TiltEl Float := .angular (← getFloat ej "x") (← getFloat ej "y")
      data := tiltMultiplyT (N.ph wl) N.one 0.0 e data
    else if kind == "propagate" then
      let dx ← floats2 ej "dx"; let du ← floats2 ej "du"
      let os ← getInt ej "os"
      let sh ← ints2 ej "shape"; let psh ← ints2 ej "prop_shape"
      let mask ← maskBox ej
      let al := dftAlpha dx.1 dx.2 du.1 du.2 wl focal os
      let tfs : List (TField CF Float) := data.map fun ft =>
        let s := fieldShift ft.2 focal wl du.1 du.2 os true
        let a := fixSplit s.1; let b := fixSplit s.2
        { fld := ft.1, fix0 := a.1, fix1 := b.1, sub0 := a.2, sub1 := b.2 }
      let out := (propagateDft tfs al.1 al.2 sh.1 sh.2 psh.1 psh.2 os mask).map freezeF
      data := out.map fun g => (g, [])
      shape := some (sh.1 * os, sh.2 * os)
    else
      let pr ← Ops.C07.planeOf N ej
      let st : List (List (TiltEl Float)) ← match optVal ej "seg_tilts" with
        | none => pure []
        | some v => do (← v.getArr?).toList.mapM fun l => do (← l.getArr?).toList.mapM tiltOf
      data := planeMultiplyT (N.ph wl) pr.p st data
      if pr.pupil then focal := pr.fl
      shape := match pr.p.shape with | none => shape | some s => some s
    if (optVal j "steps").isSome then steps := steps.push (viewsJ N shape (data.map Prod.fst))
  let fieldsJ := Json.arr (data.map fun ft =>
    (Ops.C07.fldJ N ft.1).mergeObj (Json.mkObj [("tilts", Json.arr (ft.2.map tiltJ).toArray)])).toArray
  let ins ← match optVal j "insert", shape with
    | some ij, _ => do
        let out ← Ops.C07.arrOf N (← ij.getObjVal? "out")
        let wt ← N.real (← ij.getObjVal? "weight")
        pure [("insert", match wfInsert N.one N.nsq (data.map Prod.fst) out wt with | some a => Ops.C07.arrJ N a | none => Json.str "ValueError")]
    | none, _ => pure []
  match optVal j "prop" with
  | none => pure (okJ ([("fields", fieldsJ), ("steps", Json.arr steps), ("focal", floatToJson focal)] ++ ins))
  | some pj => do
    let dx ← floats2 pj "dx"; let du ← floats2 pj "du"
    let os ← getInt pj "os"
    let shp ← ints2 pj "shape"; let pshape ← ints2 pj "prop_shape"
    let mask ← maskBox pj
    let al := dftAlpha dx.1 dx.2 du.1 du.2 wl focal os
    let tfs : List (TField CF Float) := data.map fun ft =>
      let sh := fieldShift ft.2 focal wl du.1 du.2 os true
      let a := fixSplit sh.1; let b := fixSplit sh.2
      { fld := ft.1, fix0 := a.1, fix1 := b.1, sub0 := a.2, sub1 := b.2 }
    let out := propagateDft tfs al.1 al.2 shp.1 shp.2 pshape.1 pshape.2 os mask
    let S0 := shp.1 * os; let S1 := shp.2 * os
    pure (okJ [("fields", fieldsJ), ("nout", intJ out.length),
               ("extents", Json.arr (out.map fun g => extToJson g.extent).toArray),
               ("field", Ops.C07.arrJ N (wfField N.one S0 S1 out)),
               ("intensity", match wfIntensity N.one N.nsq S0 S1 out with | some a => Ops.C07.arrJ N a | none => Json.str "ValueError")])

def handle (op : String) (j : Json) : Option (R Json) :=
  match op with
  | "c03.chain" => some (runTiltChain j)
  | "c03.extok" => some do
      -- the input-level hypothesis `ExtOK` of the end-to-end theorems (`extOKb_iff`), evaluated on the planes' bounding boxes
      let N := Ops.C07.numCF
      let ps ← (← getArr j "planes").mapM (Ops.C07.planeOf N)
      let boxes := ps.toList.map fun pr => pr.p.boxes
      pure (okJ [("extok", Json.bool (freshExtOKb boxes))])
  | "c03.run" => some do
      let N := Ops.C07.numCF
      match ← Ops.C07.runChain N j with
      | .error e => pure (errJ e)
      | .ok w =>
        let pj ← j.getObjVal? "prop"
        let dx ← floats2 pj "dx"; let du ← floats2 pj "du"
        let os ← getInt pj "os"
        let shape ← ints2 pj "shape"; let pshape ← ints2 pj "prop_shape"
        let osf := Float.ofInt os
        -- `_dft_alpha(dx, du, wavelength, z, oversample)`
        -- the generated `_dft_alpha` call of propagate_dft
        let al := dftAlpha dx.1 dx.2 du.1 du.2 w.wavelength w.focal os
        let αr := al.1
        let αc := al.2
        let shapeOut := (shape.1 * os, shape.2 * os)
        let propOut := (pshape.1 * os, pshape.2 * os)
        let out : List (Fld CF) := propagateDftNoTilt w.data αr αc shapeOut propOut
        let fld := wfField N.one shapeOut.1 shapeOut.2 out
        let inten := wfIntensity N.one N.nsq shapeOut.1 shapeOut.2 out
        let pre ← Ops.C07.wfJ N (Json.mkObj []) w
        pure (okJ [("pre", pre), ("nfields", intJ out.length),
                   ("field", Ops.C07.arrJ N fld),
                   ("intensity", match inten with | some a => Ops.C07.arrJ N a | none => Json.str "ValueError")])
  | _ => none

end Ops.C03
