import Driver.Util
import LentilVerif.Model.Geometry
open Lean Lentil Drv
namespace Ops.C20

instance : IntCast Float := ⟨Float.ofInt⟩
instance instNatCastFloatC20 : NatCast Float := ⟨Float.ofNat⟩

def intArr (j : Json) : R (Arr Int) := do
  let sh ← getInts j "shape"
  let d ← getInts j "data"
  pure { s0 := sh[0]!, s1 := sh[1]!, get := mkGet sh[1]! d }

def intCube (j : Json) : R (Cube Int) := do
  let sh ← getInts j "shape"
  let d ← getInts j "data"
  pure { d := sh[0]!, s0 := sh[1]!, s1 := sh[2]!, get := fun k i jj => d[((k * sh[1]! + i) * sh[2]! + jj).toNat]! }

def arrJ (a : Arr Int) : List (String × Json) :=
  [("shape", ints #[a.s0, a.s1]), ("data", ints ((idxList a.s0 a.s1).map fun (i, j) => a.get i j).toArray)]

def cubeJ (a : Cube Int) : List (String × Json) :=
  [("shape", ints #[a.d, a.s0, a.s1]),
   ("data", ints ((List.range a.d.toNat).flatMap fun (k : Nat) => (idxList a.s0 a.s1).map fun (i, j) => a.get k i j).toArray)]

def cellJ (h : HexCell) : Json := ints #[h.1, h.2.1, h.2.2]

def floatsJ (l : List Float) : Json := Json.arr (l.map floatToJson).toArray

def half : Float := 0.5
def sqrtN (k : Nat) : Float := Float.sqrt (Float.ofNat k)

def handle (op : String) (j : Json) : Option (R Json) :=
  match op with
  | "pad2" => some do
      let a ← intArr j; let t ← getInts j "to"
      pure (okJ (arrJ (pad2 a t[0]! t[1]!)))
  | "pad3" => some do
      let a ← intCube j; let t ← getInts j "to"
      pure (okJ (cubeJ (pad3 a t[0]! t[1]!)))
  | "window" => some do
      let a ← intArr j
      let sh ← match optVal j "to" with
        | some (.arr v) => do let t ← v.mapM (·.getInt?); pure (some (t[0]!, t[1]!))
        | _ => pure none
      let sl ← match optVal j "slice" with
        | some (.arr v) => do let t ← v.mapM (·.getInt?); pure (some (t[0]!, t[1]!, t[2]!, t[3]!))
        | _ => pure none
      match window a sh sl with
      | .error e => pure (errJ e)
      | .ok r => pure (okJ (arrJ r))
  | "window3" => some do
      let a ← intCube j
      match optVal j "slice" with
      | some (.arr v) => do
        let t ← v.mapM (·.getInt?)
        let sh ← match optVal j "to" with
          | some (.arr w) => do let u ← w.mapM (·.getInt?); pure (some (u[0]!, u[1]!))
          | _ => pure none
        match window3 a sh (some (t[0]!, t[1]!, t[2]!, t[3]!)) with
        | .error e => pure (errJ e)
        | .ok r => pure (okJ (cubeJ r))
      | _ => do
        let t ← getInts j "to"
        match window3Shape a t[0]! t[1]! with
        | .error e => pure (errJ e)
        | .ok r => pure (okJ (cubeJ r))
  | "subarray" => some do
      let a ← intArr j; let s ← getInts j "sub"; let o ← getInts j "shift"
      match subarray a s[0]! s[1]! o[0]! o[1]! with
      | .error e => pure (errJ e)
      | .ok r => pure (okJ (arrJ r))
  | "boundary" => some do
      let a ← intArr j; let thr ← getInt j "thr"; let p ← getInts j "pad"
      let x := gtMask a thr
      match boundary x, boundarySlice x p[0]! p[1]! with
      | some b, some sl =>
        let off := Gen.sliceOffset sl.1.1 sl.1.2 sl.2.1 sl.2.2 a.s0 a.s1
        pure (okJ [("bbox", extToJson b), ("slice", ints #[sl.1.1, sl.1.2, sl.2.1, sl.2.2]), ("offset", ints #[off.1, off.2])])
      | _, _ => pure (errJ "IndexError")
  | "rebin" => some do
      let a ← intArr j; let f ← getNat j "f"
      match rebin a f with
      | none => pure (errJ "ValueError")
      | some r => pure (okJ (arrJ r))
  | "rebin3" => some do
      let a ← intCube j; let f ← getNat j "f"
      match rebin3 a f with
      | none => pure (errJ "ValueError")
      | some r => pure (okJ (cubeJ r))
  | "centroid" => some do
      let a ← intArr j
      let c := centroidNum a
      -- the regenerated `util.centroid` (Gen.centroid through Model `centroidRC`) run at Float on the same data
      let af : Arr Float := { s0 := a.s0, s1 := a.s1, get := fun i jj => Float.ofInt (a.get i jj) }
      let rc := centroidRC af
      pure (okJ [("num", ints #[c.1, c.2.1, c.2.2]), ("rc", floatsJ [rc.1, rc.2])])
  | "hex_ring" => some do
      let k ← getNat j "k"
      pure (okJ [("cells", Json.arr ((hexRing k).map cellJ).toArray)])
  | "segments" => some do
      let k ← getNat j "rings"
      let drop ← getArr j "drop"
      let drop ← drop.mapM (·.getNat?)
      let cells := segCells k
      let kept := keptCells k drop.toList            -- the translated numbering loop: (segment number, cell) pairs
      pure (okJ [("total", intJ cells.length), ("kept", ints (kept.map fun p => Int.ofNat p.1).toArray),
                 ("cells", Json.arr (kept.map fun p => cellJ p.2).toArray)])
  | "mesh" => some do
      -- integer mesh coordinates (integer shifts): exact
      let sh ← getInts j "shape"; let s ← getInts j "shift"
      pure (okJ [("rows", ints ((List.range sh[0]!.toNat).map fun (i : Nat) => meshCoord sh[0]! i s[0]!).toArray),
                 ("cols", ints ((List.range sh[1]!.toNat).map fun (i : Nat) => meshCoord sh[1]! i s[1]!).toArray)])
  | "circle" => some do
      let sh ← getInts j "shape"; let r ← getFloat j "radius"; let s ← getFloats j "shift"; let aa ← getBool j "aa"
      pure (okJ [("data", floatsJ ((idxList sh[0]! sh[1]!).map fun (i, jj) =>
        circleAt Float.sqrt half sh[0]! sh[1]! r s[0]! s[1]! aa i jj))])
  | "rectangle" => some do
      let sh ← getInts j "shape"; let w ← getFloat j "width"; let h ← getFloat j "height"
      let s ← getFloats j "shift"; let ang ← getFloat j "angle_rad"; let aa ← getBool j "aa"
      pure (okJ [("data", floatsJ ((idxList sh[0]! sh[1]!).map fun (i, jj) =>
        rectangleAt half sh[0]! sh[1]! w h s[0]! s[1]! (Float.cos ang) (Float.sin ang) aa i jj))])
  | "spider" => some do
      let sh ← getInts j "shape"; let w ← getFloat j "width"
      let s ← getFloats j "shift"; let ang ← getFloat j "angle_rad"; let aa ← getBool j "aa"
      pure (okJ [("data", floatsJ ((idxList sh[0]! sh[1]!).map fun (i, jj) =>
        spiderAt half (Float.sqrt 2) sh[0]! sh[1]! w s[0]! s[1]! (Float.cos ang) (Float.sin ang) aa i jj))])
  | "hexagon" => some do
      let sh ← getInts j "shape"; let inner ← getFloat j "inner"; let s ← getFloats j "shift"
      let th ← getFloats j "theta"; let aa ← getBool j "aa"
      pure (okJ [("data", floatsJ ((idxList sh[0]! sh[1]!).map fun (i, jj) =>
        hexagonAt half inner (fun n => Float.sin th[n]!) (fun n => Float.cos th[n]!) sh[0]! sh[1]! s[0]! s[1]! aa i jj))])
  | "hex_to_rc" => some do
      let cells ← getArr j "cells"
      let radius ← getFloat j "radius"; let rot ← getBool j "rotate"
      let out ← cells.mapM fun c => do
        let v ← c.getArr?
        let q ← v[0]!.getInt?; let r ← v[1]!.getInt?; let t ← v[2]!.getInt?
        let rc := Gen.hexToRC sqrtN ((q, r, t) : HexCell) radius rot
        pure (Json.arr #[floatToJson rc.1, floatToJson rc.2])
      pure (okJ [("rc", Json.arr out)])
  | "hex_segments" => some do
      -- the whole of `hex_segments(..., antialias=False)`: array size, kept cells, one hexagon per cell, summed
      let rings ← getNat j "rings"; let radius ← getFloat j "radius"; let gap ← getFloat j "gap"
      let rot ← getBool j "rotate"; let pad ← getNat j "pad"
      let drop ← (← getArr j "drop").mapM (·.getNat?)
      let th ← getFloats j "theta"
      -- inner radius, array size, grid pitch and cell centres: the REGENERATED expressions of hex_segments / hex_to_rc
      let inner := Gen.hexInner sqrtN radius
      let size : Int := hexSegmentsSize (fun x => Int.ofNat (Float.ceil x).toUInt64.toNat) sqrtN rings pad radius gap
      let kept := keptCells rings drop.toList         -- the translated numbering loop: (segment number, cell) pairs
      let shifts := kept.map fun p => if p.1 = 0 then ((0 : Float), (0 : Float)) else Gen.hexToRC sqrtN p.2 (Gen.hexPitch radius gap) rot
      let px := (idxList size size).map fun (i, jj) =>
        (shifts.filter fun sh => hexagonAt half inner (fun n => Float.sin th[n]!) (fun n => Float.cos th[n]!) size size sh.1 sh.2 false i jj == 1).length
      -- antialiased drawing (library default): the flattened sum of the segment masks
      let aa := match optVal j "aa" with | some (Json.bool true) => true | _ => false
      if aa then
        let fl := (idxList size size).map fun (i, jj) =>
          shifts.foldl (fun acc sh => acc + hexagonAt half inner (fun n => Float.sin th[n]!) (fun n => Float.cos th[n]!) size size sh.1 sh.2 true i jj) 0
        pure (okJ [("size", intJ size), ("count", intJ kept.length), ("flat", floatsJ fl)])
      else
      pure (okJ [("size", intJ size), ("count", intJ kept.length), ("sum", ints (px.map Int.ofNat).toArray)])
  | _ => none

end Ops.C20
