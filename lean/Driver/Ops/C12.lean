import Driver.Util
import Driver.Ops.C11
import LentilVerif.Model.ZernikeFit
import LentilVerif.Gen.ZernikeCalls
open Lean Lentil Drv
namespace Ops.C12
open Ops.C11

def floatsJ (l : List Float) : Json := Json.arr (l.map floatToJson).toArray

/-- common inputs of a request: samples in C order -/
structure Inp where
  p : Nat
  rho : Nat → Float
  theta : Nat → Float
  mask : Nat → Bool

def inp (j : Json) : R Inp := do
  let rho ← getFloats j "rho"; let th ← getFloats j "theta"; let mk ← getInts j "mask"
  if rho.size != th.size || rho.size != mk.size then throw "rho/theta/mask sizes differ"
  pure { p := rho.size, rho := fun s => rho[s]!, theta := fun s => th[s]!, mask := fun s => mk[s]! != 0 }

/-- tables (evaluation strategy only: a table agrees with the function it tabulates on the range it is read on). They are plain
arrays bound in the handlers so that they are computed once. -/
def table2 (n m : Nat) (f : Nat → Nat → Float) : Array Float :=
  ((List.range n).flatMap fun r => (List.range m).map fun c => f r c).toArray
def table1 (n : Nat) (f : Nat → Float) : Array Float := ((List.range n).map f).toArray

/-- `zBasisX sqrtN cos sin modes nrm rho theta mask` as a `p × k` table, each mode evaluated through `zernFast` (= `zernAt`, `zernFast_eq`) -/
def basisTable (x : Inp) (modes : Array Nat) (nrm : Bool) : Array Float :=
  let fs := modes.map fun jj => zernFast sqrtN Float.cos Float.sin jj nrm
  table2 x.p modes.size fun s a => fs[a]! (x.rho s) (x.theta s) (x.mask s)

/-- `basisOfArgs sqrtN cos sin b` as a `p × k` table -/
def basisTableA (p k : Nat) (b : Gen.BasisArgs (Nat → Bool) (Nat → Nat) (Nat → Float)) : Array Float :=
  let fs := (Array.range k).map fun a => zernFast sqrtN Float.cos Float.sin (b.modes a) b.normalize
  table2 p k fun s a => fs[a]! (b.rho s) (b.theta s) (b.mask s)

/-- `fitX p k B opd = cramerX k (gramX p B) (rhsX p B opd)` with the Gram matrix and right-hand side tabulated once -/
def fitTable (p k : Nat) (B : Nat → Nat → Float) (opd : Nat → Float) : Array Float :=
  let G := table2 k k (gramX p B)
  let b := table1 k (rhsX p B opd)
  table1 k (cramerX k (fun r c => G[r * k + c]!) (fun r => b[r]!))

def handle (op : String) (j : Json) : Option (R Json) :=
  match op with
  | "zbasis" => some do
      let x ← inp j; let modes ← (← getArr j "modes").mapM (·.getNat?); let nrm ← getBool j "normalize"
      let Bt := basisTable x modes nrm
      let B := fun (s a : Nat) => Bt[s * modes.size + a]!
      pure (okJ [("basis", Json.arr ((List.range modes.size).map fun a => floatsJ ((List.range x.p).map fun s => B s a)).toArray)])
  | "zfit" => some do
      -- zernike_fit(opd, mask, modes, normalize, rho, theta)
      let x ← inp j; let modes ← (← getArr j "modes").mapM (·.getNat?); let nrm ← getBool j "normalize"
      let opd ← getFloats j "opd"
      let k := modes.size
      let a : Gen.FitArgs (Nat → Float) (Nat → Bool) (Nat → Nat) (Nat → Float) :=
        { opd := fun s => opd[s]!, mask := x.mask, modes := fun i => modes[i]!, normalize := nrm, rho := x.rho, theta := x.theta }
      let Bt := basisTableA x.p k (Gen.fitBasisArgs a)       -- fitA: basis requested with the regenerated argument projection
      let f := fitTable x.p k (fun s c => Bt[s * k + c]!) (fun s => Gen.fitSelect (a.mask s) (a.opd s))      -- fitA: the regenerated OPD selection
      pure (okJ [("fit", floatsJ f.toList)])
  | "zremove" => some do
      -- zernike_remove(opd, mask, modes, rho, theta) = removeA …: the fit and the basis get the arguments the REGENERATED wiring gives them
      let x ← inp j; let modes ← (← getArr j "modes").mapM (·.getNat?)
      let opd ← getFloats j "opd"
      let k := modes.size
      let a : Gen.RemoveArgs (Nat → Float) (Nat → Bool) (Nat → Nat) (Nat → Float) :=
        { opd := fun s => opd[s]!, mask := x.mask, modes := fun i => modes[i]!, rho := x.rho, theta := x.theta }
      let fa := Gen.removeFitArgs a
      let Bf := basisTableA x.p k (Gen.fitBasisArgs fa)
      let f := fitTable x.p k (fun s c => Bf[s * k + c]!) (fun s => Gen.fitSelect (fa.mask s) (fa.opd s))
      let Bb := basisTableA x.p k (Gen.removeBasisArgs a)
      let r := fun s => a.opd s - composeX k (fun s c => Bb[s * k + c]!) (fun c => f[c]!) s
      pure (okJ [("residual", floatsJ ((List.range x.p).map r))])
  | "zcompose" => some do
      -- zernike_compose(mask, coeffs, normalize, rho, theta): coefficient i <-> Noll Gen.composeNoll i
      let x ← inp j; let nrm ← getBool j "normalize"; let c ← getFloats j "coeffs"
      -- composeFullX sqrtN cos sin (fun i => (Gen.composeNoll i).toNat) c.size c nrm rho theta mask, modes evaluated through zernFast
      let fs := (Array.range c.size).map fun (i : Nat) => zernFast sqrtN Float.cos Float.sin (Gen.composeNoll (i : Nat)).toNat nrm
      let o := fun s => sumRange c.size fun i => c[i]! * fs[i]! (x.rho s) (x.theta s) (x.mask s)
      pure (okJ [("opd", floatsJ ((List.range x.p).map o))])
  | _ => none

end Ops.C12
