import LentilVerif.Model.Field
