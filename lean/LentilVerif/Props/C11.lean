import LentilVerif.Lemmas.Zernike
import LentilVerif.Lemmas.ZernikeTables
import LentilVerif.Lemmas.ZernikeAlg
import LentilVerif.Lemmas.ZernikeRow
import LentilVerif.Lemmas.ZernikeAngular
import LentilVerif.Lemmas.ZernikeOrtho
import LentilVerif.Lemmas.ZernikeDisk
import LentilVerif.Lemmas.ZernikeBound
import LentilVerif.Lemmas.ZernikeBoundTable
/-! # C11 — Zernike modes are the Noll-ordered orthonormal polynomials

Property theorems only. Model: `Model/Zernike.lean` (hand-written, tied to `lentil/zernike.py` by the correspondence harness
tools/harness/c11.py for every j ≤ 861, every valid (n, m) with n ≤ 40, mode values on dyadic nodes and random masks).

`|Z_j| ≤ 1` without normalisation is proved for n ≤ 20 (`raw_mode_abs_le_one`; n ≤ 40 in the thorough module) by an exact Chebyshev
certificate, not for all n. Orthonormality is proved for n ≤ 20 here
(`zernike_orthonormal`, and as an area mean over the disk `zernike_orthonormal_area`) and for n ≤ 40 in the thorough-tier module
`Props/C11Thorough.lean`. -/
namespace Lentil.C11
open Lentil Finset

/-! ## Noll index ↔ (n, m) -/

/-- every Noll index j ≥ 1 names a valid mode: |m| ≤ n, n − |m| even, the sign of m follows the parity of j (even j: m ≥ 0,
the cosine mode; odd j: m ≤ 0, the sine mode), and j sits at position p of row n: `j = n(n+1)/2 + p + 1` -/
theorem noll_valid (j : Nat) (hj : 1 ≤ j) :
    (nollM j).natAbs ≤ nollN j ∧ (nollN j - (nollM j).natAbs) % 2 = 0 ∧
    (j % 2 = 0 → 0 ≤ nollM j) ∧ (j % 2 = 1 → nollM j ≤ 0) ∧
    (nollRow j).2 ≤ nollN j ∧ j = tri (nollN j) + (nollRow j).2 + 1 := by
  obtain ⟨hp, e⟩ := nollRow_spec j hj
  obtain ⟨v1, v2⟩ := absM_valid _ _ hp
  unfold nollM nollN
  refine ⟨?_, ?_, ?_, ?_, hp, e⟩
  · split <;> omega
  · split <;> omega
  · intro h; rw [if_pos h]; omega
  · intro h; rw [if_neg (by omega)]; omega

/-- **Noll's ordering is a bijection** between the indices j ≥ 1 and the valid pairs (n, m) (|m| ≤ n, n − |m| even):
`nollInv` is a two-sided inverse -/
theorem noll_bijective :
    (∀ j, 1 ≤ j → nollInv (nollN j) (nollM j) = j) ∧
    (∀ (n : Nat) (m : Int), m.natAbs ≤ n → (n - m.natAbs) % 2 = 0 →
      1 ≤ nollInv n m ∧ nollN (nollInv n m) = n ∧ nollM (nollInv n m) = m) := by
  constructor
  · intro j hj
    obtain ⟨hp, e⟩ := nollRow_spec j hj
    unfold nollInv nollM nollN
    generalize (nollRow j).1 = n at *
    generalize (nollRow j).2 = p at *
    by_cases hj2 : j % 2 = 0
    · simp only [hj2, if_true, Int.natAbs_natCast]
      unfold absM
      repeat' split
      all_goals omega
    · simp only [hj2, if_false, Int.natAbs_neg, Int.natAbs_natCast]
      unfold absM
      repeat' split
      all_goals omega
  · intro n m h1 h2
    have key : ∀ v p, p ≤ n → v = tri n + p + 1 → absM n p = m.natAbs →
        ((tri n + p + 1) % 2 = 0 → 0 ≤ m) → ((tri n + p + 1) % 2 = 1 → m ≤ 0) →
        1 ≤ v ∧ nollN v = n ∧ nollM v = m := by
      intro v p hp e ha s1 s2
      rw [e]
      refine ⟨by omega, ?_, ?_⟩
      · unfold nollN; rw [nollRow_of n p hp]
      · unfold nollM; rw [nollRow_of n p hp]; simp only
        split
        · rename_i h; have := s1 h; omega
        · rename_i h; have := s2 (by omega); omega
    unfold nollInv
    by_cases a0 : m.natAbs = 0
    · rw [if_pos a0]
      exact key _ 0 (by omega) rfl (by unfold absM; split <;> omega) (by omega) (by omega)
    · rw [if_neg a0]
      have hA : ∀ p, (p = m.natAbs - 1 ∨ p = m.natAbs) → absM n p = m.natAbs := by
        intro p hp; unfold absM; split <;> omega
      split
      · split
        · exact key _ (m.natAbs - 1) (by omega) (by omega) (hA _ (Or.inl rfl)) (by omega) (by omega)
        · exact key _ m.natAbs (by omega) (by omega) (hA _ (Or.inr rfl)) (by omega) (by omega)
      · split
        · exact key _ (m.natAbs - 1) (by omega) (by omega) (hA _ (Or.inl rfl)) (by omega) (by omega)
        · exact key _ m.natAbs (by omega) (by omega) (hA _ (Or.inr rfl)) (by omega) (by omega)

example : nollN 11 = 4 ∧ nollM 11 = 0 ∧ nollN 8 = 3 ∧ nollM 8 = 1 ∧ nollM 7 = -1 ∧ nollInv 3 (-1) = 7 := by decide

/-- the code of `zernike_index` as written (row list `[0]` / `[1, 1]` extended by appending `last + 2` twice ⌊n/2⌋ times, indexed
by the negative `r = j − (n+1)(n+2)/2 − 1`, sign from the parity of j) returns the closed-form `(m, n)` for **every** j ≥ 1 (given
the row n, which the code finds by a float `sqrt`/`ceil`; the real function is compared for every j ≤ 861 by the correspondence) -/
theorem code_index_matches (j : Nat) (h1 : 1 ≤ j) : codeIndex j = (nollM j, nollN j) := codeIndex_eq j h1

/-- **tie to the source of `zernike_index` and `zernike_coordinates`**: the pieces `codeIndex` and `zShift` are built from are re-translated
on every run — `k = (n+1)(n+2)/2`, `r = j − k − 1`, the sign rule, the row seeds `[1, 1]` / `[0]`, ⌊n/2⌋ passes appending `last + 2` twice,
the centre index `shape // 2` and the default shift `centroid − centre` -/
theorem index_and_origin_tie (j n a : Nat) (c : ℚ) (N : Int) :
    (Gen.rowStep a = [a + 2, a + 2] ∧ Gen.rowSeed n = (if n % 2 = 1 then [1, 1] else [0]) ∧ Gen.rowLoops n = n / 2 ∧
      Gen.idxR j n = (j : Int) - ((n + 1) * (n + 2) / 2 : Nat) - 1 ∧ Gen.idxSign j = (if j % 2 = 1 then -1 else 1)) ∧
    Gen.zCenter N = N / 2 ∧ Gen.zShiftAxis c N = c - ((N / 2 : Int) : ℚ) :=
  ⟨gen_index_forms j n a, rfl, rfl⟩

/-- the row search of `zernike_index`, `n = int(np.ceil(<Gen.rowSearchArg>) − 1)` with the REGENERATED argument `(−1 + √(1 + 8j))/2`, evaluated
in exact real arithmetic, is the Noll row -/
theorem row_search_real (j : ℕ) (hj : 1 ≤ j) :
    ⌈Gen.rowSearchArg Real.sqrt (j : ℝ)⌉ - 1 = (nollN j : ℤ) := by
  have hform : Gen.rowSearchArg Real.sqrt (j : ℝ) = (-1 + Real.sqrt (1 + 8 * (j : ℝ))) / 2 := by
    unfold Gen.rowSearchArg; push_cast; ring_nf
  rw [hform]
  obtain ⟨hp, e⟩ := nollRow_spec j hj
  unfold nollN
  generalize (nollRow j).1 = n at *
  generalize (nollRow j).2 = p at *
  have h2 := two_tri n
  have hjR : (8 : ℝ) * j = 4 * (n : ℝ) * (n + 1) + 8 * p + 8 := by
    have : 8 * j = 4 * (n * (n + 1)) + 8 * p + 8 := by rw [← h2]; omega
    have := congrArg (fun x : ℕ => (x : ℝ)) this
    push_cast at this; linarith
  have hpR : (p : ℝ) ≤ n := by exact_mod_cast hp
  have hp0 : (0 : ℝ) ≤ p := Nat.cast_nonneg p
  have hn0 : (0 : ℝ) ≤ n := Nat.cast_nonneg n
  have hc : ⌈(-1 + Real.sqrt (1 + 8 * (j : ℝ))) / 2⌉ = (n : ℤ) + 1 := by
    rw [Int.ceil_eq_iff]
    push_cast
    constructor
    · have : (2 * (n : ℝ) + 1) < Real.sqrt (1 + 8 * (j : ℝ)) := by
        rw [Real.lt_sqrt (by positivity)]; nlinarith
      linarith
    · have : Real.sqrt (1 + 8 * (j : ℝ)) ≤ 2 * (n : ℝ) + 3 := by
        rw [Real.sqrt_le_iff]; constructor
        · positivity
        · nlinarith
      linarith
  rw [hc]; ring

/-! ## radial polynomials -/

/-- **tie to the source of `R`** (all `Gen.*` below are re-translated from `lentil/zernike.py` on every run): the parity guard, the
number of terms and the exponents are the ones the model's `radialEval` uses, and the coefficient the code forms as a floating-point
quotient is an exact integer — `Gen.radialDen` divides `Gen.radialNum` — for every valid (n, m) with n ≤ 40, so `radialCoeff` (their Int
quotient) is its true value. A change to the formula in the source changes these definitions and breaks this theorem, the tables
(`radial_at_one`, `radial_gram`) and everything built on them. -/
theorem radial_formula_tie (n m k : Nat) :
    (Gen.radialOdd n m = true ↔ (n - m) % 2 = 1) ∧ Gen.radialCount n m = (n - m) / 2 + 1 ∧ Gen.radialExp n m k = n - 2 * k ∧
    radialCoeff n m k = Gen.radialNum n m k / (Gen.radialDen n m k : Int) ∧
    (n ≤ 40 → m ≤ n → (n - m) % 2 = 0 → k ≤ (n - m) / 2 →
      (Gen.radialDen n m k : Int) ∣ Gen.radialNum n m k ∧ Gen.radialDen n m k ≠ 0) := by
  refine ⟨by simp [Gen.radialOdd], rfl, rfl, rfl, ?_⟩
  intro hn hm hp hk
  have T := allCoeffExact_40
  unfold allCoeffExact at T
  rw [List.all_eq_true] at T
  have T1 := T n (List.mem_range.2 (by omega))
  rw [List.all_eq_true] at T1
  have T2 := T1 m (List.mem_range.2 (by omega))
  simp only [Bool.or_eq_true, bne_iff_ne] at T2
  rcases T2 with h | h
  · exact absurd hp h
  · rw [List.all_eq_true] at h
    have T3 := h k (List.mem_range.2 (by omega))
    simp only [Bool.and_eq_true, beq_iff_eq, bne_iff_ne] at T3
    exact ⟨Int.dvd_of_emod_eq_zero T3.1, T3.2⟩

/-- **tie to the source of `zernike`**: the model's mode is the re-translated decision tree and leaf products (`Gen.zernCore`) applied to
the Noll orders and the radial polynomial; in particular the piston mode is the mask itself, and the normalised m = 0, m > 0, m < 0
leaves are `√(n+1)·R·mask`, `√2·√(n+1)·R·cos(mθ)·mask`, `√2·√(n+1)·R·sin(mθ)·mask` -/
theorem mode_formula_tie {K : Type} [Field K] (sqrtN : Nat → K) (cos sin : K → K) (j : Nat) (normalize : Bool) (rho theta : K) (mask : Bool) :
    zernAt sqrtN cos sin j normalize rho theta mask
      = Gen.zernCore sqrtN cos sin (nollN j) (nollM j) normalize (radialEval (nollN j) (nollM j).natAbs rho) theta mask ∧
    (∀ (n : Nat) (Rv : K), Gen.zernCore sqrtN cos sin n 0 true Rv theta true = if n = 0 then 1 else sqrtN (n + 1) * Rv) ∧
    (∀ (n : Nat) (m : Int) (Rv : K), 0 < m → Gen.zernCore sqrtN cos sin n m true Rv theta true = sqrtN 2 * sqrtN (n + 1) * Rv * cos ((m : K) * theta)) ∧
    (∀ (n : Nat) (m : Int) (Rv : K), m < 0 → Gen.zernCore sqrtN cos sin n m true Rv theta true = sqrtN 2 * sqrtN (n + 1) * Rv * sin ((m : K) * theta)) ∧
    (∀ (n : Nat) (m : Int) (Rv : K), m ≠ 0 → Gen.zernCore sqrtN cos sin n m false Rv theta true
        = Rv * (if 0 < m then cos ((m : K) * theta) else sin ((m : K) * theta))) := by
  refine ⟨rfl, ?_, ?_, ?_, ?_⟩
  · intro n Rv; unfold Gen.zernCore; simp
  · intro n m Rv hm; unfold Gen.zernCore; simp [hm, hm.ne']
  · intro n m Rv hm; unfold Gen.zernCore; simp [hm.ne, not_lt.2 hm.le]
  · intro n m Rv hm; unfold Gen.zernCore; simp [hm]



/-- **the radial polynomial is the textbook one**: `R_n^m(ρ) = Σ_k c_k ρ^{n−2k}` (k = 0 … (n−m)/2) with the coefficient the code forms,
`c_k = (−1)^k (n−k)! / (k! ((n+m)/2−k)! ((n−m)/2−k)!)` (`radial_formula_tie`), equal to the binomial form
`(−1)^k C(n−k, k) C(n−2k, (n−m)/2−k)` of the literature for every valid (n, m) with n ≤ 40; sanity: `R_n^n(ρ) = ρ^n` and `R_2^0(ρ) = 2ρ² − 1` -/
theorem radial_is_textbook (n m : Nat) (hn : n ≤ 40) (hm : m ≤ n) (h : (n - m) % 2 = 0) (x : ℝ) :
    radialEval n m x = ∑ k ∈ Finset.range ((n - m) / 2 + 1),
      (((-1 : Int) ^ k * ((chooseN (n - k) k * chooseN (n - 2 * k) ((n - m) / 2 - k) : Nat) : Int) : Int) : ℝ) * x ^ (n - 2 * k) ∧
    radialEval n n x = x ^ n ∧ radialEval 2 0 x = 2 * x ^ 2 - 1 := by
  have T := allBinomial_40
  unfold allBinomial at T
  rw [List.all_eq_true] at T
  refine ⟨?_, ?_, ?_⟩
  · rw [radialEval_real n m h]
    apply Finset.sum_congr rfl
    intro k hk
    have T1 := T n (List.mem_range.2 (by omega))
    rw [List.all_eq_true] at T1
    have T2 := T1 m (List.mem_range.2 (by omega))
    simp only [Bool.or_eq_true, bne_iff_ne] at T2
    rcases T2 with h2 | h2
    · exact absurd h h2
    · rw [List.all_eq_true] at h2
      have T3 := h2 k (List.mem_range.2 (Finset.mem_range.1 hk))
      rw [beq_iff_eq.1 T3]
  · have T1 := T n (List.mem_range.2 (by omega))
    rw [List.all_eq_true] at T1
    have T2 := T1 n (List.mem_range.2 (by omega))
    simp only [Bool.or_eq_true, bne_iff_ne] at T2
    rcases T2 with h2 | h2
    · exact absurd (by omega) h2
    · rw [List.all_eq_true] at h2
      have T3 := h2 0 (List.mem_range.2 (by omega))
      rw [radialEval_real n n (by omega)]
      simp only [Nat.sub_self, Nat.zero_div, zero_add, Finset.sum_range_one, beq_iff_eq.1 T3]
      simp [chooseN]
  · rw [radialEval_real 2 0 (by decide)]
    have c0 : radialCoeff 2 0 0 = 2 := by decide
    have c1 : radialCoeff 2 0 1 = -1 := by decide
    simp [Finset.sum_range_succ, c0, c1]; ring

/-- **R_n^m(1) = 1** for every valid (n, m) with n ≤ 40 (all 861 modes the float evaluation can represent), in any
commutative ring -/
theorem radial_at_one {K : Type} [CommRing K] (n m : Nat) (hn : n ≤ 40) (hm : m ≤ n) (h : (n - m) % 2 = 0) :
    radialEval n m (1 : K) = 1 := by
  have T := allAtOne_40
  unfold allAtOne at T
  rw [List.all_eq_true] at T
  have T1 := T n (List.mem_range.2 (by omega))
  rw [List.all_eq_true] at T1
  have T2 := T1 m (List.mem_range.2 (by omega))
  simp only [Bool.or_eq_true, bne_iff_ne, beq_iff_eq] at T2
  rcases T2 with h' | h'
  · exact absurd h h'
  · rw [radialEval_one n m h, h']; simp

/-- **radial orthogonality**: `∫₀¹ R_n^m R_n'^m ρ dρ = δ_{nn'} / (2(n+1))` as an exact rational identity (each monomial
integrated as `∫₀¹ ρ^a ρ dρ = 1/(a+2)`), for all valid n, n' ≤ 20 and m — all pairs among the first 231 modes -/
theorem radial_gram (n n' m : Nat) (hn : n ≤ 20) (hn' : n' ≤ 20) (hm : m ≤ n) (hm' : m ≤ n')
    (h : (n - m) % 2 = 0) (h' : (n' - m) % 2 = 0) :
    gramQ n n' m = if n = n' then (1 : Rat) / (((2 * (n + 1) : Nat) : Int) : Rat) else 0 := by
  have T := allGramQ_20
  unfold allGramQ at T
  rw [List.all_eq_true] at T
  have T1 := T n (List.mem_range.2 (by omega))
  rw [List.all_eq_true] at T1
  have T2 := T1 n' (List.mem_range.2 (by omega))
  rw [List.all_eq_true] at T2
  have T3 := T2 m (List.mem_range.2 (by omega))
  simp only [Bool.or_eq_true, bne_iff_ne, beq_iff_eq] at T3
  rcases T3 with (h1 | h1) | h1
  · exact absurd h h1
  · exact absurd h' h1
  · exact h1

/-- **azimuthal orthogonality**: over a period, `cos(mθ)·cos(m'θ)` and `sin(mθ)·sin(m'θ)` integrate to 0 for m ≠ m', and
`cos(mθ)·sin(m'θ)` integrates to 0 for all m, m' — so modes with different azimuthal order, or the cosine and sine mode of the
same order, have vanishing cross products whatever their radial parts -/
theorem azimuthal_orthogonality (m m' : ℕ) :
    (m ≠ m' → ∫ θ in (0 : ℝ)..(2 * Real.pi), Real.cos ((m : ℝ) * θ) * Real.cos ((m' : ℝ) * θ) = 0) ∧
    (m ≠ m' → ∫ θ in (0 : ℝ)..(2 * Real.pi), Real.sin ((m : ℝ) * θ) * Real.sin ((m' : ℝ) * θ) = 0) ∧
    (∫ θ in (0 : ℝ)..(2 * Real.pi), Real.cos ((m : ℝ) * θ) * Real.sin ((m' : ℝ) * θ) = 0) := angular_cross m m'

/-- **the radial Gram entries are the radial integrals of the model's polynomials**: `gramQ n n' m = ∫₀¹ R_n^m(ρ) R_n'^m(ρ) ρ dρ`
with `R = radialEval` (the function `zernAt` evaluates), hence by `radial_gram` the integral is `δ_{nn'}/(2(n+1))` for n, n' ≤ 20 -/
theorem radial_gram_integral (n n' m : Nat) (hn : n ≤ 20) (hn' : n' ≤ 20) (hm : m ≤ n) (hm' : m ≤ n')
    (h : (n - m) % 2 = 0) (h' : (n' - m) % 2 = 0) :
    ∫ x in (0 : ℝ)..1, radialEval n m x * radialEval n' m x * x = if n = n' then 1 / (2 * ((n : ℝ) + 1)) else 0 := by
  rw [← gramQ_eq_integral n n' m h h', radial_gram n n' m hn hn' hm hm' h h']
  split_ifs
  · push_cast; ring
  · simp

/-- the radial Gram table up to order `N`, as a hypothesis (proved for N = 20 by `radial_gram`; for N = 40 in the thorough-tier module
`Props/C11Thorough.lean`) -/
def GramUpTo (N : Nat) : Prop :=
  ∀ n n' m : Nat, n ≤ N → n' ≤ N → m ≤ n → m ≤ n' → (n - m) % 2 = 0 → (n' - m) % 2 = 0 →
    gramQ n n' m = if n = n' then (1 : Rat) / (((2 * (n + 1) : Nat) : Int) : Rat) else 0

theorem gramUpTo_20 : GramUpTo 20 := fun n n' m hn hn' hm hm' h h' => radial_gram n n' m hn hn' hm hm' h h'

/-- **the model's mode is normalisation · radial · azimuthal, with the squared normalisation `normSq`**: over ℝ (real √, cos, sin),
inside the mask, `zernAt j = N · R_n^{|m|}(ρ) · A_m(θ)` with `N² = normSq n m` (n+1 for m = 0, 2(n+1) otherwise) and
`A_m = 1, cos(mθ), sin(mθ)` for m = 0, m > 0, m < 0 — this binds `normalisation_constants`/`normalisation_unit_mean_square` to `zernAt` -/
theorem mode_factorisation (j : Nat) (ρ θ : ℝ) :
    zReal j ρ θ = normFac (nollN j) (nollM j) * radialEval (nollN j) (nollM j).natAbs ρ * azim (nollM j) θ ∧
    normFac (nollN j) (nollM j) ^ 2 = ((normSq (nollN j) (nollM j) : ℕ) : ℝ) :=
  ⟨zReal_factor j ρ θ, normFac_sq _ _⟩

/-- orthonormality for all modes of radial order ≤ N, given the radial Gram table up to N -/
theorem zernike_orthonormal_of (N : Nat) (hG : GramUpTo N) (j j' : Nat) (hj : 1 ≤ j) (hj' : 1 ≤ j') (hn : nollN j ≤ N) (hn' : nollN j' ≤ N) :
    diskMean (fun ρ θ => zReal j ρ θ * zReal j' ρ θ) = if j = j' then 1 else 0 := by
  rw [diskMean_modes, azim_integral]
  obtain ⟨v1, v2, _, _, _, _⟩ := noll_valid j hj
  obtain ⟨w1, w2, _, _, _, _⟩ := noll_valid j' hj'
  have hpi : Real.pi ≠ 0 := Real.pi_ne_zero
  by_cases hm : nollM j = nollM j'
  · rw [if_pos hm]
    have hab : (nollM j).natAbs = (nollM j').natAbs := by rw [hm]
    have hI : ∫ x in (0 : ℝ)..1, radialEval (nollN j) (nollM j).natAbs x * radialEval (nollN j') (nollM j).natAbs x * x
        = if nollN j = nollN j' then 1 / (2 * ((nollN j : ℝ) + 1)) else 0 := by
      rw [← gramQ_eq_integral _ _ _ v2 (hab ▸ w2), hG _ _ _ hn hn' v1 (hab ▸ w1) v2 (hab ▸ w2)]
      split_ifs
      · push_cast; ring
      · simp
    rw [← hab, hI]
    by_cases hnn : nollN j = nollN j'
    · have hjj : j = j' := by
        have a := noll_bijective.1 j hj
        have b := noll_bijective.1 j' hj'
        rw [hnn, hm] at a; exact a.symm.trans b
      subst hjj
      simp only [if_true]
      have hsq := normFac_sq (nollN j) (nollM j)
      have hN : (2 * ((nollN j : ℝ) + 1)) ≠ 0 := by positivity
      rw [← sq, hsq]
      unfold normSq
      split_ifs <;> (push_cast; field_simp)
    · have hjne : j ≠ j' := fun e => hnn (by rw [e])
      simp [hnn, hjne]
  · have hjne : j ≠ j' := fun e => hm (by rw [e])
    simp [hm, hjne]

/-- **orthonormality of the model's modes over the unit disk** (all pairs among the first 231 modes, n ≤ 20): the polar-coordinate
mean `(1/π) ∫₀^{2π} ∫₀¹ Z_j Z_j' ρ dρ dθ` of the product of two normalised modes of the model is 1 if j = j' and 0 otherwise.
(`zernike_orthonormal_area` below turns the iterated polar integral into the area mean over the disk.) -/
theorem zernike_orthonormal (j j' : Nat) (hj : 1 ≤ j) (hj' : 1 ≤ j') (hn : nollN j ≤ 20) (hn' : nollN j' ≤ 20) :
    diskMean (fun ρ θ => zReal j ρ θ * zReal j' ρ θ) = if j = j' then 1 else 0 :=
  zernike_orthonormal_of 20 gramUpTo_20 j j' hj hj' hn hn'

/-- **orthonormality as an area mean over the unit disk**: with each mode read as a function of the point `q` of the plane through its
polar coordinates `(|q|, arg q)`, `(1/π) ∫_{|q|<1} Z_j(q) Z_j'(q) dq` is 1 if j = j' and 0 otherwise (n ≤ N given the Gram table up to N;
polar change of variables `integral_comp_polarCoord_symm`, Fubini, 2π-periodicity) -/
theorem zernike_orthonormal_area_of (N : Nat) (hG : GramUpTo N) (j j' : Nat) (hj : 1 ≤ j) (hj' : 1 ≤ j') (hn : nollN j ≤ N) (hn' : nollN j' ≤ N) :
    (1 / Real.pi) * ∫ q in unitDisk, zReal j (polarCoord q).1 (polarCoord q).2 * zReal j' (polarCoord q).1 (polarCoord q).2
      = if j = j' then 1 else 0 := by
  rw [area_mean_modes, zernike_orthonormal_of N hG j j' hj hj' hn hn']

/-- … for all pairs among the first 231 modes (n ≤ 20) -/
theorem zernike_orthonormal_area (j j' : Nat) (hj : 1 ≤ j) (hj' : 1 ≤ j') (hn : nollN j ≤ 20) (hn' : nollN j' ≤ 20) :
    (1 / Real.pi) * ∫ q in unitDisk, zReal j (polarCoord q).1 (polarCoord q).2 * zReal j' (polarCoord q).1 (polarCoord q).2
      = if j = j' then 1 else 0 := zernike_orthonormal_area_of 20 gramUpTo_20 j j' hj hj' hn hn'

/-! ## coordinates: centroid origin, unit radius at the farthest sample, support only -/

/-- **the default polar origin is the centroid of the mask**, whatever the parity of the array size or the position of the mask:
the first moments of the default mesh coordinates vanish over the mask, and `rr(i) = i − (mean row index)` -/
theorem coords_origin_is_centroid {K : Type} [Field K] (mask : Arr Bool) (hc : ((maskMoments mask).1 : K) ≠ 0) :
    (∀ i : Int, zRR mask (zShift (K := K) mask) i = (i : K) - ((maskMoments mask).2.1 : K) / ((maskMoments mask).1 : K)) ∧
    (∀ j : Int, zCC mask (zShift (K := K) mask) j = (j : K) - ((maskMoments mask).2.2 : K) / ((maskMoments mask).1 : K)) ∧
    (∑ i ∈ range mask.s0.toNat, ∑ j ∈ range mask.s1.toNat,
      (if mask.get i j then zRR mask (zShift (K := K) mask) i else 0)) = 0 ∧
    (∑ i ∈ range mask.s0.toNat, ∑ j ∈ range mask.s1.toNat,
      (if mask.get i j then zCC mask (zShift (K := K) mask) j else 0)) = 0 := by
  obtain ⟨m0, m1, m2⟩ := maskMoments_cast (K := K) mask
  have hr : ∀ i : Int, zRR mask (zShift (K := K) mask) i = (i : K) - ((maskMoments mask).2.1 : K) / ((maskMoments mask).1 : K) := by
    intro i; unfold zRR zShift meshCoord Gen.meshCoord Gen.zShiftAxis Gen.zCenter; simp only; ring
  have hcc : ∀ j : Int, zCC mask (zShift (K := K) mask) j = (j : K) - ((maskMoments mask).2.2 : K) / ((maskMoments mask).1 : K) := by
    intro j; unfold zCC zShift meshCoord Gen.meshCoord Gen.zShiftAxis Gen.zCenter; simp only; ring
  refine ⟨hr, hcc, ?_, ?_⟩
  · have e : ∀ i ∈ range mask.s0.toNat, ∀ j ∈ range mask.s1.toNat,
        (if mask.get i j then zRR mask (zShift (K := K) mask) i else 0)
          = (if mask.get i j then ((i : ℕ) : K) else 0)
            - ((maskMoments mask).2.1 : K) / ((maskMoments mask).1 : K) * (if mask.get i j then (1 : K) else 0) := by
      intro i _ j _; rw [hr]; split_ifs <;> simp
    rw [Finset.sum_congr rfl fun i hi => Finset.sum_congr rfl fun j hj => e i hi j hj]
    simp only [Finset.sum_sub_distrib, ← Finset.mul_sum]
    rw [← m0, ← m1]; field_simp; ring
  · have e : ∀ i ∈ range mask.s0.toNat, ∀ j ∈ range mask.s1.toNat,
        (if mask.get i j then zCC mask (zShift (K := K) mask) j else 0)
          = (if mask.get i j then ((j : ℕ) : K) else 0)
            - ((maskMoments mask).2.2 : K) / ((maskMoments mask).1 : K) * (if mask.get i j then (1 : K) else 0) := by
      intro i _ j _; rw [hcc]; split_ifs <;> simp
    rw [Finset.sum_congr rfl fun i hi => Finset.sum_congr rfl fun j hj => e i hi j hj]
    simp only [Finset.sum_sub_distrib, ← Finset.mul_sum]
    rw [← m0, ← m2]; field_simp; ring

/-- **ρ = 1 at the farthest masked sample** and ρ ≤ 1 on the whole mask (any origin `s`, any radius function `sqrt`): when
some masked sample is away from the origin (`zRmax > 0`) -/
theorem rho_one_at_farthest {K : Type} [Field K] [LinearOrder K] [IsStrictOrderedRing K] (sqrt : K → K) (mask : Arr Bool)
    (s : K × K) (hpos : 0 < zRmax sqrt mask s) :
    (∃ i j : Nat, (i : Int) < mask.s0 ∧ (j : Int) < mask.s1 ∧ mask.get i j = true ∧ zRho sqrt mask s i j = 1) ∧
    (∀ i j : Nat, (i : Int) < mask.s0 → (j : Int) < mask.s1 → mask.get i j = true → zRho sqrt mask s i j ≤ 1) := by
  unfold zRho
  constructor
  · have hm := maxL_mem ((List.range mask.s0.toNat).flatMap fun (i : Nat) => (List.range mask.s1.toNat).map fun (j : Nat) =>
        if mask.get i j then zRad sqrt mask s i j else 0)
    unfold zRmax at hpos ⊢
    rcases hm with h0 | hin
    · rw [h0] at hpos; exact absurd hpos (lt_irrefl _)
    · obtain ⟨i, hi, hin⟩ := List.mem_flatMap.1 hin
      obtain ⟨j, hj, e⟩ := List.mem_map.1 hin
      rw [List.mem_range] at hi hj
      by_cases hmask : mask.get i j = true
      · rw [if_pos hmask] at e
        exact ⟨i, j, by omega, by omega, hmask, by rw [e]; exact div_self hpos.ne'⟩
      · rw [if_neg hmask] at e; rw [← e] at hpos; exact absurd hpos (lt_irrefl _)
  · intro i j hi hj hmask
    have hge := (maxL_ge ((List.range mask.s0.toNat).flatMap fun (i : Nat) => (List.range mask.s1.toNat).map fun (j : Nat) =>
        if mask.get i j then zRad sqrt mask s i j else 0)).2 (zRad sqrt mask s i j)
      (List.mem_flatMap.2 ⟨i, List.mem_range.2 (by omega), List.mem_map.2 ⟨j, List.mem_range.2 (by omega), by rw [if_pos hmask]⟩⟩)
    exact (div_le_one hpos).2 hge

/-- … and that sample really is a *farthest* one: if `sqrt` reflects order on non-negative arguments (as the real square root does),
a masked sample with ρ = 1 has the largest squared distance `rr² + cc²` from the origin among all masked samples -/
theorem rho_one_is_farthest {K : Type} [Field K] [LinearOrder K] [IsStrictOrderedRing K] (sqrt : K → K) (mask : Arr Bool)
    (s : K × K) (hpos : 0 < zRmax sqrt mask s)
    (hsqrt : ∀ a b : K, 0 ≤ a → 0 ≤ b → sqrt a ≤ sqrt b → a ≤ b)
    (i j : Nat) (hi : (i : Int) < mask.s0) (hj : (j : Int) < mask.s1) (hmask : mask.get i j = true)
    (hone : zRho sqrt mask s i j = 1)
    (i' j' : Nat) (hi' : (i' : Int) < mask.s0) (hj' : (j' : Int) < mask.s1) (hmask' : mask.get i' j' = true) :
    zRR mask s i' * zRR mask s i' + zCC mask s j' * zCC mask s j' ≤ zRR mask s i * zRR mask s i + zCC mask s j * zCC mask s j := by
  have h1 := (rho_one_at_farthest sqrt mask s hpos).2 i' j' hi' hj' hmask'
  unfold zRho at h1 hone
  have e : zRad sqrt mask s i j = zRmax sqrt mask s := by
    have := (div_eq_one_iff_eq hpos.ne').1 hone; exact this
  have le : zRad sqrt mask s i' j' ≤ zRad sqrt mask s i j := by rw [e]; exact (div_le_one hpos).1 h1
  unfold zRad at le
  exact hsqrt _ _ (add_nonneg (mul_self_nonneg _) (mul_self_nonneg _)) (add_nonneg (mul_self_nonneg _) (mul_self_nonneg _)) le

/-- **values are zero outside the mask**: the regenerated `Gen.zernCore` SELECTS with the mask (`np.where(mask, …, 0)` since 99180f6, formerly a product with
the mask factor), so nothing evaluated outside the mask reaches the result — also at `Float` with non-finite coordinates there; the piston mode (j = 1)
is the mask itself. (The residual known finding is the one-sample mask, where rho = 0/0 AT the masked sample.) -/
theorem zero_outside_mask {K : Type} [Field K] (sqrtN : Nat → K) (cos sin : K → K) (j : Nat) (normalize : Bool) (rho theta : K) :
    zernAt sqrtN cos sin j normalize rho theta false = 0 ∧ zernAt sqrtN cos sin 1 normalize rho theta true = 1 := by
  constructor
  · unfold zernAt Gen.zernCore; simp only [Bool.false_eq_true, if_false, mul_zero]; split_ifs <;> rfl
  · have h1 : nollN 1 = 0 := by decide
    have h2 : nollM 1 = 0 := by decide
    simp [zernAt, Gen.zernCore, h1, h2]

/-- **the mask enters only through its support**: two weight arrays of the same shape that are non-zero at the same samples give
the same Boolean mask, hence the same moments, origin, coordinates and mode values (all of which are functions of that mask) -/
theorem depends_on_support_only {W : Type} [Zero W] [DecidableEq W] (x y : Arr W) (hs : x.s0 = y.s0 ∧ x.s1 = y.s1)
    (h : ∀ i j, x.get i j ≠ 0 ↔ y.get i j ≠ 0) : supportMask x = supportMask y := by
  unfold supportMask
  have : (fun i j => decide (x.get i j ≠ 0)) = fun i j => decide (y.get i j ≠ 0) := by
    funext i j; exact decide_eq_decide.2 (h i j)
  rw [hs.1, hs.2, this]

/-- in particular the support, hence everything computed from the mask, does not depend on the scale of the weights: multiplying a
weight array by any non-zero factor (nano-scale units, 1e-300, …) leaves the Boolean mask unchanged — no absolute tolerance may enter
the test `mask ≠ 0` -/
theorem support_scale_invariant {W : Type} [Field W] [DecidableEq W] (x : Arr W) (k : W) (hk : k ≠ 0) :
    supportMask ({ s0 := x.s0, s1 := x.s1, get := fun i j => x.get i j * k } : Arr W) = supportMask x :=
  depends_on_support_only _ x ⟨rfl, rfl⟩ (fun i j => by simp [hk])


/-- the piston mode is the constant 1 and every other mode has mean zero over the unit disk (n ≤ 20): the clause "unit mean square except
piston's constant 1" — `zernike_orthonormal` with j' = 1 -/
theorem piston_and_mean (j : Nat) (hj : 1 ≤ j) (hn : nollN j ≤ 20) (ρ θ : ℝ) :
    zReal 1 ρ θ = 1 ∧ diskMean (fun ρ θ => zReal j ρ θ) = if j = 1 then 1 else 0 := by
  have h1 : ∀ ρ θ : ℝ, zReal 1 ρ θ = 1 := fun ρ θ => (zero_outside_mask (fun k => Real.sqrt k) Real.cos Real.sin 1 true ρ θ).2
  refine ⟨h1 ρ θ, ?_⟩
  have := zernike_orthonormal j 1 hj (le_refl 1) hn (by decide)
  simpa only [h1, mul_one] using this

/-- without normalisation a mode is bounded by its radial part: `|Z_j(ρ, θ)| ≤ |R_n^{|m|}(ρ)|` — with `radial_abs_le_one` below this gives
`|Z_j| ≤ 1` (`raw_mode_abs_le_one`, n ≤ 20; n ≤ 40 in the thorough module) -/
theorem raw_mode_le_radial (j : Nat) (ρ θ : ℝ) :
    |zernAt (fun k => Real.sqrt k) Real.cos Real.sin j false ρ θ true| ≤ |radialEval (nollN j) (nollM j).natAbs ρ| := by
  unfold zernAt Gen.zernCore
  by_cases h0 : nollM j = 0
  · by_cases hn : nollN j = 0
    · simp [h0, hn, radialEval_zero_zero]
    · simp [h0, hn]
  · by_cases hp : 0 < nollM j
    · simp only [h0, hp, if_false, if_true, Bool.false_eq_true, mul_one]
      rw [abs_mul]
      exact mul_le_of_le_one_right (abs_nonneg _) (Real.abs_cos_le_one _)
    · simp only [h0, hp, if_false, if_true, Bool.false_eq_true, mul_one]
      rw [abs_mul]
      exact mul_le_of_le_one_right (abs_nonneg _) (Real.abs_sin_le_one _)

/-- **the radial polynomials are bounded by 1 on [−1, 1]** (in particular on the pupil 0 ≤ ρ ≤ 1) for every valid (n, m) with n ≤ 20 — all
of the first 231 modes. Proof: `2^n R_n^m = Σ_t W_t T_t` with Chebyshev polynomials `T_t(cos θ) = cos tθ` and integer weights `W_t ≥ 0`
summing to `2^n`; the weights and the coefficient identity are checked exactly by the kernel (`allCheb_20`), the inequality
`|Σ W_t cos tθ| ≤ Σ W_t` is proved (`radialCheb_sound`). The bound is attained: `R_n^m(1) = 1` (`radial_at_one`). -/
theorem radial_abs_le_one (n m : Nat) (hn : n ≤ 20) (hm : m ≤ n) (h : (n - m) % 2 = 0) (x : ℝ) (h0 : -1 ≤ x) (h1 : x ≤ 1) :
    |radialEval n m x| ≤ 1 :=
  radialCheb_sound n m h (radialCheb_of_all 20 allCheb_20 n m hn hm h) x h0 h1

/-- **without normalisation every mode is bounded by 1 on the unit disk**: `|Z_j(ρ, θ)| ≤ 1` for 0 ≤ ρ ≤ 1, every θ, for the modes with
radial order n ≤ 20 (j ≤ 231) -/
theorem raw_mode_abs_le_one (j : Nat) (hj : 1 ≤ j) (hn : nollN j ≤ 20) (ρ θ : ℝ) (h0 : 0 ≤ ρ) (h1 : ρ ≤ 1) :
    |zernAt (fun k => Real.sqrt k) Real.cos Real.sin j false ρ θ true| ≤ 1 := by
  obtain ⟨v1, v2, -⟩ := noll_valid j hj
  exact le_trans (raw_mode_le_radial j ρ θ) (radial_abs_le_one _ _ hn v1 v2 ρ (by linarith) h1)

/-- **the hypotheses of the coordinate theorems are satisfiable** (`coords_origin_is_centroid`: non-empty mask in characteristic 0;
`rho_one_at_farthest` / `rho_one_is_farthest`: some masked sample away from the origin, a radius function that reflects order): the 2 × 3 mask
"first row and last column" over ℚ with the identity as radius function has 4 samples, `max(r·mask) = 13/8 > 0` about its centroid, and therefore a
masked sample with ρ = 1 -/
theorem coordinate_theorems_nonvacuous :
    ((maskMoments exMask).1 : ℚ) ≠ 0 ∧ 0 < zRmax (fun x : ℚ => x) exMask (zShift (K := ℚ) exMask) ∧
    (∀ a b : ℚ, 0 ≤ a → 0 ≤ b → (fun x : ℚ => x) a ≤ (fun x : ℚ => x) b → a ≤ b) ∧
    ∃ i j : Nat, (i : Int) < exMask.s0 ∧ (j : Int) < exMask.s1 ∧ exMask.get i j = true ∧
      zRho (fun x : ℚ => x) exMask (zShift (K := ℚ) exMask) i j = 1 := by
  obtain ⟨hm, hr⟩ := exMask_facts
  have hpos : 0 < zRmax (fun x : ℚ => x) exMask (zShift (K := ℚ) exMask) := by rw [hr]; norm_num
  refine ⟨by rw [hm]; norm_num, hpos, fun a b _ _ h => h, (rho_one_at_farthest _ exMask _ hpos).1⟩

/-- **the sign convention of the odd modes, as a theorem**: for odd j with m ≠ 0 the model (and the code it is regenerated from: `sin(m·θ)` with the
negative `m` of `zernike_index`) is `Z_j = −√2·√(n+1)·R_n^{|m|}(ρ)·sin(|m|θ)` — the opposite sign to Noll (1976). The property statement does
not fix this sign; orthonormality and the index map do not depend on it. -/
theorem odd_mode_sign_convention (j : ℕ) (hj : 1 ≤ j) (hodd : j % 2 = 1) (hm : nollM j ≠ 0) (ρ θ : ℝ) :
    zReal j ρ θ = -(Real.sqrt 2 * Real.sqrt ((nollN j + 1 : ℕ) : ℝ) * radialEval (nollN j) (nollM j).natAbs ρ
      * Real.sin (((nollM j).natAbs : ℝ) * θ)) := by
  obtain ⟨_, _, _, hneg, _⟩ := noll_valid j hj
  have hlt : nollM j < 0 := lt_of_le_of_ne (hneg hodd) hm
  rw [zReal_factor, azim_neg _ hlt]
  unfold normFac
  rw [if_neg hm]
  push_cast
  ring

/-- **the hypothesis of `coords_origin_is_centroid` is a statement about the input**: over a field of characteristic 0 the cast count of masked
samples is non-zero exactly when the mask has a sample inside the array -/
theorem centroid_hypothesis_iff_nonempty {K : Type} [Field K] [CharZero K] (mask : Arr Bool) :
    ((maskMoments mask).1 : K) ≠ 0 ↔ ∃ i j : Nat, i < mask.s0.toNat ∧ j < mask.s1.toNat ∧ mask.get i j = true := by
  rw [Nat.cast_ne_zero]
  unfold maskMoments
  simp only [sumRange_eq_sum]
  rw [ne_eq, Finset.sum_eq_zero_iff]
  constructor
  · intro h
    by_contra hc
    apply h
    intro i hi
    rw [Finset.sum_eq_zero_iff]
    intro j hj
    by_cases hm : mask.get i j = true
    · exact absurd ⟨i, j, Finset.mem_range.1 hi, Finset.mem_range.1 hj, hm⟩ hc
    · simp [hm]
  · rintro ⟨i, j, hi, hj, hm⟩ h
    have h1 := h i (Finset.mem_range.2 hi)
    rw [Finset.sum_eq_zero_iff] at h1
    have h2 := h1 j (Finset.mem_range.2 hj)
    simp [hm] at h2

/-- … so: for every NON-EMPTY mask (characteristic 0) the default polar origin is the centroid — first moments of the default mesh coordinates
over the mask vanish — with the hypothesis discharged from the input -/
theorem coords_origin_is_centroid_of_nonempty {K : Type} [Field K] [CharZero K] (mask : Arr Bool)
    (hne : ∃ i j : Nat, i < mask.s0.toNat ∧ j < mask.s1.toNat ∧ mask.get i j = true) :
    (∑ i ∈ range mask.s0.toNat, ∑ j ∈ range mask.s1.toNat,
      (if mask.get i j then zRR mask (zShift (K := K) mask) i else 0)) = 0 ∧
    (∑ i ∈ range mask.s0.toNat, ∑ j ∈ range mask.s1.toNat,
      (if mask.get i j then zCC mask (zShift (K := K) mask) j else 0)) = 0 :=
  (coords_origin_is_centroid mask ((centroid_hypothesis_iff_nonempty mask).2 hne)).2.2

/-- **where `zernike` takes its coordinates from** (the block between the mask cast and the index call, regenerated: `Gen.zernCoordSrc`):
without `rho` the coordinates are `zernike_coordinates(mask)` — default shift and no rotation, i.e. the centroid origin of
`coords_origin_is_centroid` — whatever `theta` is; `rho` without `theta` is refused (`ValueError`); with both, the caller's arrays are used
unchanged ("arbitrary caller-supplied polar coordinates") -/
theorem coordinate_source_dispatch (rhoNone thetaNone : Bool) :
    Gen.zernCoordSrc rhoNone thetaNone =
      if rhoNone = true then Gen.CoordSrc.default else if thetaNone = true then Gen.CoordSrc.refuse else Gen.CoordSrc.caller := by
  cases rhoNone <;> cases thetaNone <;> rfl

/-- **the centroid the default origin uses is the regenerated `util.centroid`**: `zernike_coordinates` calls `lentil.centroid(mask)` on the
boolean mask; the REGENERATED `Gen.centroid` (through `centroidRC`: normalisation by the total, `np.mgrid` grids, the two dot products, order of the
returned pair) applied to the mask as 0/1 samples returns exactly (Σ row indices / count, Σ column indices / count) of `maskMoments` — the pair the
model's default shift `zShift` (and with it `coords_origin_is_centroid`) is built from. Over any field. -/
theorem default_centroid_is_regenerated {K : Type} [Field K] (mask : Arr Bool) :
    let c := centroidRC (⟨mask.s0, mask.s1, fun i j => if mask.get i j then (1 : K) else 0⟩ : Arr K)
    c = (((maskMoments mask).2.1 : K) / ((maskMoments mask).1 : K), ((maskMoments mask).2.2 : K) / ((maskMoments mask).1 : K)) ∧
    zShift (K := K) mask = (Gen.zShiftAxis c.1 mask.s0, Gen.zShiftAxis c.2 mask.s1) := by
  have h : centroidRC (⟨mask.s0, mask.s1, fun i j => if mask.get i j then (1 : K) else 0⟩ : Arr K) =
      (((maskMoments mask).2.1 : K) / ((maskMoments mask).1 : K), ((maskMoments mask).2.2 : K) / ((maskMoments mask).1 : K)) := by
    unfold centroidRC Gen.centroid Gen.centroidWeight maskMoments
    simp only [sumRange_eq_sum, Gen.centroidGrid, zero_add, Int.cast_natCast, div_eq_mul_inv, ← mul_assoc, ← Finset.sum_mul,
      mul_ite, mul_one, mul_zero, Nat.cast_sum, Nat.cast_ite, Nat.cast_one, Nat.cast_zero]
  refine ⟨h, ?_⟩
  simp only [h]
  rfl

/-- **`theta` and `angle` of `zernike_coordinates`, regenerated** (`Gen.zThetaArg`: the complex argument of `np.angle(-rr·e^{iα} + i·cc·e^{iα})`
split symbolically into real and imaginary part; `Gen.zAngle`: `α = (90 - rotate)·π/180`): the argument is `(-rr + i·cc)·(cos α + i·sin α)`, i.e.
real part `-(rr·cos α) - cc·sin α` and imaginary part `-(rr·sin α) + cc·cos α`; the model's `zTheta` (which the driver runs) is `atan2` of exactly
these; and `rotate = 0` gives `α = π/2` (the "90 degree offset" of the source comment), where the argument is `(-cc, -rr)` -/
theorem theta_regenerated {F : Type} [Field F] [LinearOrder F] [CharZero F] (rr cc ca sa rotate pi : F) :
    Gen.zThetaArg rr cc ca sa = (-(rr * ca) - cc * sa, -(rr * sa) + cc * ca) ∧
    (∀ (atan2 : F → F → F) (mask : Arr Bool) (s : F × F) (i j : Int),
      zTheta atan2 ca sa mask s i j =
        atan2 (Gen.zThetaArg (zRR mask s i) (zCC mask s j) ca sa).2 (Gen.zThetaArg (zRR mask s i) (zCC mask s j) ca sa).1) ∧
    Gen.zAngle rotate pi = (90 - rotate) * pi / 180 ∧ Gen.zAngle 0 pi = pi / 2 ∧
    Gen.zThetaArg rr cc 0 1 = (-cc, -rr) := by
  refine ⟨?_, fun _ _ _ _ _ => rfl, ?_, ?_, ?_⟩
  · unfold Gen.zThetaArg; ext <;> simp only <;> ring
  · unfold Gen.zAngle; push_cast; ring
  · unfold Gen.zAngle; push_cast; ring
  · unfold Gen.zThetaArg; ext <;> simp

/-- **the radius `r = np.abs(rr + 1j*cc)` of `zernike_coordinates`, regenerated** (`Gen.zRadArg`: real and imaginary part of the argument of
`np.abs`, split from the source expression): the model's `zRad` — which `rho`, `zRmax` and the theorems `rho_one_at_farthest` / `rho_one_is_farthest`
are about — is the modulus `sqrt(re² + im²)` of exactly that argument, i.e. the Euclidean distance `sqrt(rr² + cc²)` from the origin of the mesh -/
theorem radius_regenerated {F : Type} [Field F] [LinearOrder F] (sqrt : F → F) (mask : Arr Bool) (s : F × F) (i j : Int) :
    zRad sqrt mask s i j =
      sqrt ((Gen.zRadArg (zRR mask s i) (zCC mask s j)).1 * (Gen.zRadArg (zRR mask s i) (zCC mask s j)).1 +
            (Gen.zRadArg (zRR mask s i) (zCC mask s j)).2 * (Gen.zRadArg (zRR mask s i) (zCC mask s j)).2) := by
  unfold zRad Gen.zRadArg
  first | rfl | (congr 1; simp only; ring)

end Lentil.C11
