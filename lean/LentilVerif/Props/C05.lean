import LentilVerif.Lemmas.Energy
/-! # C05 — propagation conserves energy

Property theorems only. Model: `Model/Energy.lean` over `Model/Fourier.lean`, instantiated at `K = ℂ`, `R = ℝ`. -/
namespace Lentil.C05
open Lentil Finset

/-- intensity is never negative -/
theorem intensity_nonneg (F : Arr ℂ) (i j : ℤ) : 0 ≤ (intensity (R := ℝ) F).get i j := by
  simp only [intensity, NormSqLike.normSq]; exact Complex.normSq_nonneg _

/-- **normalize_power.** For an array with non-zero power and a target `p ≥ 0`, the normalised array has power `p`:
`Σ |a·√(p/Σ|a|²)|² = p`. -/
theorem normalize_power_power (a : Arr ℂ) (p : ℝ) (hp : 0 ≤ p) (ha : 0 < arrSum (intensity (R := ℝ) a)) :
    arrSum (intensity (R := ℝ) (normalizePower a p)) = p := by
  set S := arrSum (intensity (R := ℝ) a) with hS
  have h1 : ∀ i j : ℤ, (intensity (R := ℝ) (normalizePower a p)).get i j = (intensity (R := ℝ) a).get i j * (p / S) := by
    intro i j
    show Complex.normSq (a.get i j * ((Real.sqrt (p / arrSum (intensity (R := ℝ) a)) : ℝ) : ℂ))
      = Complex.normSq (a.get i j) * (p / S)
    rw [Complex.normSq_mul, Complex.normSq_ofReal, ← hS, Real.mul_self_sqrt (div_nonneg hp ha.le)]
  rw [arrSum_eq]
  simp only [h1]
  have : (intensity (R := ℝ) (normalizePower a p)).s0 = (intensity (R := ℝ) a).s0 ∧
      (intensity (R := ℝ) (normalizePower a p)).s1 = (intensity (R := ℝ) a).s1 := ⟨rfl, rfl⟩
  rw [this.1, this.2]
  simp only [← sum_mul]
  rw [← arrSum_eq, ← hS]
  field_simp

example : ∃ a : Arr ℂ, 0 < arrSum (intensity (R := ℝ) a) :=
  ⟨⟨1, 1, fun _ _ => 1⟩, by simp [arrSum, intensity, sumRange, NormSqLike.normSq]⟩

end Lentil.C05
