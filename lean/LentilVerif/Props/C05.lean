import LentilVerif.Lemmas.Energy
/-! # C05 — propagation conserves energy

Property theorems only. Model: `Model/Energy.lean` over `Model/Fourier.lean`, instantiated at `K = ℂ`, `R = ℝ`. -/
namespace Lentil.C05
open Lentil Finset

/-- intensity is never negative -/
theorem intensity_nonneg (F : Arr ℂ) (i j : ℤ) : 0 ≤ (intensity (R := ℝ) F).get i j := by
  simp only [intensity, NormSqLike.normSq]; exact Complex.normSq_nonneg _

/-- **normalize_power.** For an array with non-zero power and a target `p ≥ 0`, the normalised array has power `p`:
`Σ |a·√(p/Σ|a|²)|² = p`. -/
theorem normalize_power_power (a : Arr ℂ) (p : ℝ) (hp : 0 ≤ p) (ha : 0 < arrSum (intensity (R := ℝ) a)) :
    arrSum (intensity (R := ℝ) (normalizePower a p)) = p := by
  set S := arrSum (intensity (R := ℝ) a) with hS
  have h1 : ∀ i j : ℤ, (intensity (R := ℝ) (normalizePower a p)).get i j = (intensity (R := ℝ) a).get i j * (p / S) := by
    intro i j
    show Complex.normSq (a.get i j * ((Real.sqrt (p / arrSum (intensity (R := ℝ) a)) : ℝ) : ℂ))
      = Complex.normSq (a.get i j) * (p / S)
    rw [Complex.normSq_mul, Complex.normSq_ofReal, ← hS, Real.mul_self_sqrt (div_nonneg hp ha.le)]
  rw [arrSum_eq]
  simp only [h1]
  have : (intensity (R := ℝ) (normalizePower a p)).s0 = (intensity (R := ℝ) a).s0 ∧
      (intensity (R := ℝ) (normalizePower a p)).s1 = (intensity (R := ℝ) a).s1 := ⟨rfl, rfl⟩
  rw [this.1, this.2]
  simp only [← sum_mul]
  rw [← arrSum_eq, ← hS]
  field_simp

example : ∃ a : Arr ℂ, 0 < arrSum (intensity (R := ℝ) a) :=
  ⟨⟨1, 1, fun _ _ => 1⟩, by simp [arrSum, intensity, sumRange, NormSqLike.normSq]⟩

/-- **full-period energy.** Input `m × n`, sampling `α = (1/K, 1/L)` with `K ≥ m`, `L ≥ n` (`K ≠ L` allowed), output
grid `K × L` (one period), unitary normalisation, any integer offset and real shift: `Σ|F|² = Σ|f|²`. -/
theorem dft_full_period_energy (f : Arr ℂ) (m n : ℕ) (hm : f.s0 = m) (hn : f.s1 = n) (K L : ℕ) (hK : 0 < K) (hL : 0 < L)
    (hmK : m ≤ K) (hnL : n ≤ L) (shr shc : ℝ) (offr offc : ℤ) :
    arrSum (intensity (R := ℝ) (dft2 f (1 / (K : ℝ)) (1 / (L : ℝ)) K L shr shc offr offc true))
      = arrSum (intensity (R := ℝ) f) := by
  rw [arrSum_eq, arrSum_eq]
  simp only [intensity, NormSqLike.normSq, dft2_s0, dft2_s1, hm, hn, Int.toNat_natCast]
  exact dft2_energy f m n hm hn K L hK hL hmK hnL shr shc offr offc

/-- **windows.** For any fields and samplings, an evaluated window only selects samples of the field at integer frequency
coordinates, so for nested windows `W₁ ⊆ W₂` (as coordinate boxes `[U, U+M) × [V, V+N)`): `0 ≤ E(W₁) ≤ E(W₂)`. -/
theorem window_energy_monotone (fs : List (Fld ℂ)) (αr αc : ℝ) (M1 N1 M2 N2 : ℕ) (U1 V1 U2 V2 : ℤ)
    (hU : U2 ≤ U1 ∧ U1 + M1 ≤ U2 + M2) (hV : V2 ≤ V1 ∧ V1 + N1 ≤ V2 + N2) :
    0 ≤ arrSum (intensity (R := ℝ) (propagateWindow fs αr αc M1 N1 U1 V1)) ∧
    arrSum (intensity (R := ℝ) (propagateWindow fs αr αc M1 N1 U1 V1))
      ≤ arrSum (intensity (R := ℝ) (propagateWindow fs αr αc M2 N2 U2 V2)) := by
  rw [window_energy_eq, window_energy_eq]
  constructor
  · exact sum_nonneg fun U _ => sum_nonneg fun V _ => Complex.normSq_nonneg _
  · calc ∑ U ∈ Finset.Ico U1 (U1 + M1), ∑ V ∈ Finset.Ico V1 (V1 + N1), Complex.normSq (fieldAt fs αr αc U V)
        ≤ ∑ U ∈ Finset.Ico U1 (U1 + M1), ∑ V ∈ Finset.Ico V2 (V2 + N2), Complex.normSq (fieldAt fs αr αc U V) :=
          sum_le_sum fun U _ => sum_le_sum_of_subset_of_nonneg (Finset.Ico_subset_Ico hV.1 hV.2)
            (fun _ _ _ => Complex.normSq_nonneg _)
      _ ≤ _ := sum_le_sum_of_subset_of_nonneg (Finset.Ico_subset_Ico hU.1 hU.2)
            (fun _ _ _ => sum_nonneg fun V _ => Complex.normSq_nonneg _)

example : ∃ (M1 N1 M2 N2 : ℕ) (U1 V1 U2 V2 : ℤ), (U2 ≤ U1 ∧ U1 + M1 ≤ U2 + M2) ∧ (V2 ≤ V1 ∧ V1 + N1 ≤ V2 + N2) ∧ M1 < M2 :=
  ⟨2, 3, 6, 4, -1, -2, -3, -2, by norm_num, by norm_num, by norm_num⟩

/-- **a window captures no more than the input power.** On a commensurate sampling (`α = (1/K, 1/L)`, `K ≥ rows`,
`L ≥ cols`) every window inside the period `[-⌊K/2⌋, -⌊K/2⌋+K) × [-⌊L/2⌋, -⌊L/2⌋+L)` has `E(W) ≤ Σ|f|²`; with
`window_energy_monotone`: `0 ≤ E(W₁) ≤ E(W₂) ≤ Σ|f|²`. -/
theorem window_energy_le_input_power (f : Fld ℂ) (m n : ℕ) (hm : f.arr.s0 = m) (hn : f.arr.s1 = n) (K L : ℕ)
    (hK : 0 < K) (hL : 0 < L) (hmK : m ≤ K) (hnL : n ≤ L) (M N : ℕ) (U0 V0 : ℤ)
    (hU : -((K : ℤ) / 2) ≤ U0 ∧ U0 + M ≤ -((K : ℤ) / 2) + K) (hV : -((L : ℤ) / 2) ≤ V0 ∧ V0 + N ≤ -((L : ℤ) / 2) + L) :
    arrSum (intensity (R := ℝ) (propagateWindow [f] (1 / (K : ℝ)) (1 / (L : ℝ)) M N U0 V0))
      ≤ arrSum (intensity (R := ℝ) f.arr) := by
  refine le_trans (window_energy_monotone [f] _ _ M N K L U0 V0 (-((K : ℤ) / 2)) (-((L : ℤ) / 2)) hU hV).2 (le_of_eq ?_)
  rw [← dft_full_period_energy f.arr m n hm hn K L hK hL hmK hnL
    (-(RealLike.ofInt (-((K : ℤ) / 2) + (K : ℤ) / 2))) (-(RealLike.ofInt (-((L : ℤ) / 2) + (L : ℤ) / 2))) f.o0 f.o1]
  congr 2
  simp [propagateWindow, sumList, dft2]

/-- **the FFT path is the centred unitary DFT.** With `np.fft.fft2(norm='ortho')` the unitary DFT with origin at index 0
and `fftshift`/`ifftshift` their documented index maps (contracts), `fftshift ∘ fft2 ∘ ifftshift` on an `S0 × S1` grid
equals `dft2` with `α = (1/S0, 1/S1)`, unitary, both origins at `⌊S/2⌋` — at every index, for even *and* odd sizes. -/
theorem fft_path_is_unitary_dft (x : Arr ℂ) (S0 S1 : ℕ) (h0 : x.s0 = S0) (h1 : x.s1 = S1) (hS0 : 0 < S0) (hS1 : 0 < S1)
    (k l : ℤ) :
    (fftPath (R := ℝ) x).get k l = (dft2 x (1 / (S0 : ℝ)) (1 / (S1 : ℝ)) S0 S1 0 0 0 0 true).get k l :=
  fftPath_eq_dft2 x S0 S1 h0 h1 hS0 hS1 k l

/-- hence the FFT propagator conserves energy on its (zero-padded) grid: `Σ|fftPath x|² = Σ|x|²` -/
theorem fft_path_conserves_energy (x : Arr ℂ) (S0 S1 : ℕ) (h0 : x.s0 = S0) (h1 : x.s1 = S1) (hS0 : 0 < S0) (hS1 : 0 < S1) :
    arrSum (intensity (R := ℝ) (fftPath (R := ℝ) x)) = arrSum (intensity (R := ℝ) x) := by
  rw [← dft_full_period_energy x S0 S1 h0 h1 S0 S1 hS0 hS1 le_rfl le_rfl 0 0 0 0, arrSum_eq, arrSum_eq]
  have e0 : (intensity (R := ℝ) (fftPath (R := ℝ) x)).s0 = S0 := h0
  have e1 : (intensity (R := ℝ) (fftPath (R := ℝ) x)).s1 = S1 := h1
  have e2 : (intensity (R := ℝ) (dft2 x (1 / (S0 : ℝ)) (1 / (S1 : ℝ)) S0 S1 0 0 0 0 true)).s0 = S0 := rfl
  have e3 : (intensity (R := ℝ) (dft2 x (1 / (S0 : ℝ)) (1 / (S1 : ℝ)) S0 S1 0 0 0 0 true)).s1 = S1 := rfl
  rw [e0, e1, e2, e3]
  refine sum_congr rfl fun i _ => sum_congr rfl fun j _ => ?_
  simp only [intensity, NormSqLike.normSq, fftPath_eq_dft2 x S0 S1 h0 h1 hS0 hS1]

end Lentil.C05
