import LentilVerif.Lemmas.EnergyPlane
import LentilVerif.Lemmas.EnergyFft
import LentilVerif.Lemmas.EnergyPupil
import LentilVerif.Lemmas.EnergyPupilFft
import LentilVerif.Lemmas.WindowPos
import LentilVerif.Lemmas.FourierWiring   -- the dft2 model = the wiring regenerated from fourier.py (theorem: C01.dft2_follows_source_wiring)
/-! # C05 — propagation conserves energy

Property theorems only, at `K = ℂ`, `R = ℝ`. The propagators are the C02 model (`propagateField`, window kernel regenerated) and the
C09 model (`propagateFft`); `Model/Energy.lean` adds `intensity`, `arrSum`, `normalizePower` (factor regenerated) and the reference
power `embedAll`. No theorem here is about a hand-written propagator of C05's own; "the FFT path is the centred unitary DFT" is
C09 `fft_path_is_unitary_dft_complex`, used through `fft_eq_propagate_dft`. -/
namespace Lentil.C05
open Lentil Finset

/-- intensity is never negative -/
theorem intensity_nonneg (F : Arr ℂ) (i j : ℤ) : 0 ≤ (intensity (R := ℝ) F).get i j := by
  simp only [intensity, NormSqLike.normSq]; exact Complex.normSq_nonneg _

/-- **normalize_power.** For an array with non-zero power and a target `p ≥ 0`, the normalised array has power `p`:
`Σ |a·√(p/Σ|a|²)|² = p`. -/
theorem normalize_power_power (a : Arr ℂ) (p : ℝ) (hp : 0 ≤ p) (ha : 0 < arrSum (intensity (R := ℝ) a)) :
    arrSum (intensity (R := ℝ) (normalizePower a p)) = p := by
  set S := arrSum (intensity (R := ℝ) a) with hS
  have h1 : ∀ i j : ℤ, (intensity (R := ℝ) (normalizePower a p)).get i j = (intensity (R := ℝ) a).get i j * (p / S) := by
    intro i j
    show Complex.normSq (a.get i j * ((Real.sqrt (p / arrSum (intensity (R := ℝ) a)) : ℝ) : ℂ))
      = Complex.normSq (a.get i j) * (p / S)
    rw [Complex.normSq_mul, Complex.normSq_ofReal, ← hS, Real.mul_self_sqrt (div_nonneg hp ha.le)]
  rw [arrSum_eq]
  simp only [h1]
  have : (intensity (R := ℝ) (normalizePower a p)).s0 = (intensity (R := ℝ) a).s0 ∧
      (intensity (R := ℝ) (normalizePower a p)).s1 = (intensity (R := ℝ) a).s1 := ⟨rfl, rfl⟩
  rw [this.1, this.2]
  simp only [← sum_mul]
  rw [← arrSum_eq, ← hS]
  field_simp

/-- **`normalize_power(array)` — the call that omits the target — yields unit power**: the default of `power` is regenerated from the
signature (`Gen.npDefaultPower`), so a changed default stops this proof instead of only moving a pin. -/
theorem normalize_power_default_power (a : Arr ℂ) (ha : 0 < arrSum (intensity (R := ℝ) a)) :
    arrSum (intensity (R := ℝ) (normalizePowerDefault (R := ℝ) a)) = 1 := by
  have h := normalize_power_power a 1 zero_le_one ha
  simpa [normalizePowerDefault, Gen.npDefaultPower, RealLike.ofInt] using h

/-- **normalize_power does not depend on the scale of its input** (no tolerance, no "already normalised" shortcut): multiplying
the amplitude by any `c > 0` — nano-scale or giga-scale units alike — gives exactly the same normalised array, for every
target power. Together with `normalize_power_power` (power exactly `p` for every non-zero input power, however close to `p` it
already is) this is what a tolerance-guarded early return violates. -/
theorem normalize_power_scale_invariant (a : Arr ℂ) (p c : ℝ) (hc : 0 < c) (i j : ℤ) :
    (normalizePower { a with get := fun i j => (c : ℂ) * a.get i j } p).get i j = (normalizePower a p).get i j := by
  have hS : arrSum (intensity (R := ℝ) ({ a with get := fun i j => (c : ℂ) * a.get i j } : Arr ℂ))
      = c * c * arrSum (intensity (R := ℝ) a) := by
    rw [arrSum_eq, arrSum_eq]
    simp only [intensity, NormSqLike.normSq, Complex.normSq_mul, Complex.normSq_ofReal, mul_sum]
  show (c : ℂ) * a.get i j * ((Real.sqrt (p / arrSum (intensity (R := ℝ)
      ({ a with get := fun i j => (c : ℂ) * a.get i j } : Arr ℂ))) : ℝ) : ℂ)
    = a.get i j * ((Real.sqrt (p / arrSum (intensity (R := ℝ) a)) : ℝ) : ℂ)
  rw [hS]
  have e : p / (c * c * arrSum (intensity (R := ℝ) a)) = (p / arrSum (intensity (R := ℝ) a)) / (c * c) := by
    rw [div_div, mul_comm]
  rw [e, Real.sqrt_div' _ (mul_self_nonneg c), Real.sqrt_mul_self hc.le]
  push_cast
  have hc' : (c : ℂ) ≠ 0 := by exact_mod_cast hc.ne'
  field_simp

example : ∃ a : Arr ℂ, 0 < arrSum (intensity (R := ℝ) a) :=
  ⟨⟨1, 1, fun _ _ => 1⟩, by simp [arrSum, intensity, sumRange, NormSqLike.normSq]⟩

/-- **full-period energy.** Input `m × n`, sampling `α = (1/K, 1/L)` with `K ≥ m`, `L ≥ n` (`K ≠ L` allowed), output
grid `K × L` (one period), unitary normalisation, any integer offset and real shift: `Σ|F|² = Σ|f|²`. -/
theorem dft_full_period_energy (f : Arr ℂ) (m n : ℕ) (hm : f.s0 = m) (hn : f.s1 = n) (K L : ℕ) (hK : 0 < K) (hL : 0 < L)
    (hmK : m ≤ K) (hnL : n ≤ L) (shr shc : ℝ) (offr offc : ℤ) :
    arrSum (intensity (R := ℝ) (dft2 f (1 / (K : ℝ)) (1 / (L : ℝ)) K L shr shc offr offc true))
      = arrSum (intensity (R := ℝ) f) := by
  rw [arrSum_eq, arrSum_eq]
  simp only [intensity, NormSqLike.normSq, dft2C_s0, dft2C_s1, hm, hn, Int.toNat_natCast]
  exact dft2_energy f m n hm hn K L hK hL hmK hnL shr shc offr offc

/-! ## over the C02 propagation model (generated window kernel), for any number of fields -/

/-- **the samples `propagate_dft` produces are `fieldAt`.** For tilt-free fields, any output extent (whole array or the
bounding box of a mask) and any propagation shape, the fields built by the loop body of `propagate_dft` — C02's
`propagateField` over the window kernel `Gen.dftWindow` regenerated from `propagate.py` — sum, at plane coordinate `(r, c)`, to
the `fieldAt` the energy theorems are about inside `out_extent ∩ prop_extent`, and to `0` outside. -/
theorem propagate_dft_samples (fs : List (Fld ℂ)) (αr αc : ℝ) (oe : Extent) (P0 P1 : ℤ)
    (hoe : oe.rmin ≤ oe.rmax ∧ oe.cmin ≤ oe.cmax) (hP : 0 < P0 ∧ 0 < P1) (r c : ℤ) :
    (fs.map fun f => embO (propagateField (⟨f, 0, 0, 0, 0⟩ : TField ℂ ℝ) αr αc oe P0 P1) r c).sum
      = if oe.inb r c && (propExtent P0 P1 0 0).inb r c then fieldAt fs αr αc r c else 0 :=
  propagateField_sum_eq_fieldAt fs αr αc oe P0 P1 hoe hP r c

/-- **energy of a propagated wavefront, any number of fields.** All fields lie on an `S0 × S1` canvas (the wavefront's
shape) with `S0 ≤ K`, `S1 ≤ L`, sampling `α = (1/K, 1/L)`. For every finite set `B` of output sample coordinates inside one
period — whatever output extent, mask box and propagation shape selected them — the intensity `|Σ fields|²` of the C02
model summed over `B` is at most the input power `Σ|total field on the canvas|²`; over the whole period, when the window
covers it, it equals the input power. (`Wavefront.intensity = |Wavefront.field|²`: C07; merged fields keep the total: C06.) -/
theorem propagate_dft_energy (fs : List (Fld ℂ)) (S0 S1 K L : ℕ) (hfit : ∀ f ∈ fs, Fits f S0 S1) (hK : 0 < K) (hL : 0 < L)
    (hS0 : S0 ≤ K) (hS1 : S1 ≤ L) (oe : Extent) (P0 P1 : ℤ) (hoe : oe.rmin ≤ oe.rmax ∧ oe.cmin ≤ oe.cmax) (hP : 0 < P0 ∧ 0 < P1)
    (B : Finset (ℤ × ℤ)) (hB : B ⊆ periodBox K L) :
    ∑ p ∈ B, Complex.normSq
        ((fs.map fun f => embO (propagateField (⟨f, 0, 0, 0, 0⟩ : TField ℂ ℝ) (1 / (K : ℝ)) (1 / (L : ℝ)) oe P0 P1) p.1 p.2).sum)
      ≤ arrSum (intensity (R := ℝ) (embedAll fs S0 S1)) ∧
    ((∀ p ∈ periodBox K L, (oe.inb p.1 p.2 && (propExtent P0 P1 0 0).inb p.1 p.2) = true) →
      ∑ p ∈ periodBox K L, Complex.normSq
        ((fs.map fun f => embO (propagateField (⟨f, 0, 0, 0, 0⟩ : TField ℂ ℝ) (1 / (K : ℝ)) (1 / (L : ℝ)) oe P0 P1) p.1 p.2).sum)
      = arrSum (intensity (R := ℝ) (embedAll fs S0 S1))) := by
  have hpl := plane_energy_le fs S0 S1 K L hfit hK hL hS0 hS1 B hB
  constructor
  · refine le_trans (sum_le_sum fun p _ => ?_) hpl.1
    rw [propagate_dft_samples fs _ _ oe P0 P1 hoe hP]
    split_ifs
    · exact le_refl _
    · simp [Complex.normSq_nonneg]
  · intro hcover
    rw [← hpl.2]
    refine sum_congr rfl fun p hp => ?_
    rw [propagate_dft_samples fs _ _ oe P0 P1 hoe hP, hcover p hp, if_pos rfl]

/-- **nested windows of two calls.** Two calls of `propagate_dft` on the same fields and sampling whose evaluated windows
(`out_extent ∩ prop_extent`: whole array or mask box, any propagation shapes) are nested — every plane coordinate the first call
evaluates, the second evaluates too. Then over *any* finite set `B` of plane coordinates (in particular the whole first window,
or the whole second one) the first call's intensity is non-negative and at most the second's: inside the first window both
calls hold the same samples, outside it the first holds zero. With `propagate_dft_energy` (`B` inside one period):
`0 ≤ E(W₁) ≤ E(W₂) ≤ input power`. -/
theorem propagate_dft_nested_windows (fs : List (Fld ℂ)) (αr αc : ℝ) (oe oe' : Extent) (P0 P1 P0' P1' : ℤ)
    (hoe : oe.rmin ≤ oe.rmax ∧ oe.cmin ≤ oe.cmax) (hP : 0 < P0 ∧ 0 < P1)
    (hoe' : oe'.rmin ≤ oe'.rmax ∧ oe'.cmin ≤ oe'.cmax) (hP' : 0 < P0' ∧ 0 < P1')
    (hsub : ∀ r c, (oe.inb r c && (propExtent P0 P1 0 0).inb r c) = true →
      (oe'.inb r c && (propExtent P0' P1' 0 0).inb r c) = true)
    (B : Finset (ℤ × ℤ)) :
    0 ≤ ∑ p ∈ B, Complex.normSq ((fs.map fun f => embO (propagateField (⟨f, 0, 0, 0, 0⟩ : TField ℂ ℝ) αr αc oe P0 P1) p.1 p.2).sum) ∧
    ∑ p ∈ B, Complex.normSq ((fs.map fun f => embO (propagateField (⟨f, 0, 0, 0, 0⟩ : TField ℂ ℝ) αr αc oe P0 P1) p.1 p.2).sum)
      ≤ ∑ p ∈ B, Complex.normSq ((fs.map fun f => embO (propagateField (⟨f, 0, 0, 0, 0⟩ : TField ℂ ℝ) αr αc oe' P0' P1') p.1 p.2).sum) := by
  refine ⟨sum_nonneg fun _ _ => Complex.normSq_nonneg _, sum_le_sum fun p _ => ?_⟩
  rw [propagate_dft_samples fs αr αc oe P0 P1 hoe hP, propagate_dft_samples fs αr αc oe' P0' P1' hoe' hP']
  by_cases h : (oe.inb p.1 p.2 && (propExtent P0 P1 0 0).inb p.1 p.2) = true
  · rw [if_pos h, if_pos (hsub _ _ h)]
  · rw [if_neg h]; simp [Complex.normSq_nonneg]

/-- the hypothesis is satisfiable by two genuinely different calls: a 3 × 3 mask box inside a 5 × 5 one, both inside an 8 × 8
propagation shape -/
example : ∃ (oe oe' : Extent) (P : ℤ), oe ≠ oe' ∧ ∀ r c, (oe.inb r c && (propExtent P P 0 0).inb r c) = true →
    (oe'.inb r c && (propExtent P P 0 0).inb r c) = true :=
  ⟨⟨-1, 1, -1, 1⟩, ⟨-2, 2, -2, 2⟩, 8, by decide, by
    intro r c h
    simp only [Bool.and_eq_true, Extent.inb_iff, propExtent, arrayExtent_eq] at h ⊢
    omega⟩

/-- **the whole chain for nested windows: `0 ≤ E(W₁) ≤ E(W₂) ≤ input power`.** Two calls of `propagate_dft` on the same tilt-free
fields on the wavefront canvas, commensurate sampling `α = (1/K, 1/L)` with `K, L ≥` canvas, nested evaluated windows, and any
set `B` of plane coordinates inside one period: the first call's energy over `B` is non-negative, at most the second's, and the
second's is at most the input power `Σ|total field|²` (`propagate_dft_nested_windows` composed with `propagate_dft_energy`). -/
theorem propagate_dft_nested_windows_le_input_power (fs : List (Fld ℂ)) (S0 S1 K L : ℕ) (hfit : ∀ f ∈ fs, Fits f S0 S1)
    (hK : 0 < K) (hL : 0 < L) (hS0 : S0 ≤ K) (hS1 : S1 ≤ L) (oe oe' : Extent) (P0 P1 P0' P1' : ℤ)
    (hoe : oe.rmin ≤ oe.rmax ∧ oe.cmin ≤ oe.cmax) (hP : 0 < P0 ∧ 0 < P1)
    (hoe' : oe'.rmin ≤ oe'.rmax ∧ oe'.cmin ≤ oe'.cmax) (hP' : 0 < P0' ∧ 0 < P1')
    (hsub : ∀ r c, (oe.inb r c && (propExtent P0 P1 0 0).inb r c) = true →
      (oe'.inb r c && (propExtent P0' P1' 0 0).inb r c) = true)
    (B : Finset (ℤ × ℤ)) (hB : B ⊆ periodBox K L) :
    0 ≤ ∑ p ∈ B, Complex.normSq
        ((fs.map fun f => embO (propagateField (⟨f, 0, 0, 0, 0⟩ : TField ℂ ℝ) (1 / (K : ℝ)) (1 / (L : ℝ)) oe P0 P1) p.1 p.2).sum) ∧
    ∑ p ∈ B, Complex.normSq
        ((fs.map fun f => embO (propagateField (⟨f, 0, 0, 0, 0⟩ : TField ℂ ℝ) (1 / (K : ℝ)) (1 / (L : ℝ)) oe P0 P1) p.1 p.2).sum)
      ≤ ∑ p ∈ B, Complex.normSq
        ((fs.map fun f => embO (propagateField (⟨f, 0, 0, 0, 0⟩ : TField ℂ ℝ) (1 / (K : ℝ)) (1 / (L : ℝ)) oe' P0' P1') p.1 p.2).sum) ∧
    ∑ p ∈ B, Complex.normSq
        ((fs.map fun f => embO (propagateField (⟨f, 0, 0, 0, 0⟩ : TField ℂ ℝ) (1 / (K : ℝ)) (1 / (L : ℝ)) oe' P0' P1') p.1 p.2).sum)
      ≤ arrSum (intensity (R := ℝ) (embedAll fs S0 S1)) :=
  ⟨(propagate_dft_nested_windows fs _ _ oe oe' P0 P1 P0' P1' hoe hP hoe' hP' hsub B).1,
   (propagate_dft_nested_windows fs _ _ oe oe' P0 P1 P0' P1' hoe hP hoe' hP' hsub B).2,
   (propagate_dft_energy fs S0 S1 K L hfit hK hL hS0 hS1 oe' P0' P1' hoe' hP' B hB).1⟩

/-- **nested sets of output samples of one call capture nested energies** (over the C02 model, any fields, any window
parameters) — monotonicity in the summation set; for nested windows of two calls see `propagate_dft_nested_windows`. -/
theorem propagate_dft_energy_monotone (fs : List (Fld ℂ)) (αr αc : ℝ) (oe : Extent) (P0 P1 : ℤ) (B B' : Finset (ℤ × ℤ)) (h : B ⊆ B') :
    ∑ p ∈ B, Complex.normSq ((fs.map fun f => embO (propagateField (⟨f, 0, 0, 0, 0⟩ : TField ℂ ℝ) αr αc oe P0 P1) p.1 p.2).sum)
      ≤ ∑ p ∈ B', Complex.normSq ((fs.map fun f => embO (propagateField (⟨f, 0, 0, 0, 0⟩ : TField ℂ ℝ) αr αc oe P0 P1) p.1 p.2).sum) :=
  sum_le_sum_of_subset_of_nonneg h (fun _ _ _ => Complex.normSq_nonneg _)

/-- **the FFT propagator conserves energy, end to end.** Whenever `propagate_fft` answers (C09 model `propagateFft`: `_fft_shape`,
zero padding or scratch insertion, `_fft2`, crop to the requested shape) on an isotropic sampling, for any number of fields
on the wavefront canvas `W0 × W1` no larger than the grid: the intensity `|Wavefront.field|²` summed over the returned
`so.1 × so.2` samples is at most the input power `Σ|total field|²`, and equals it when the whole grid is returned. Composition of
C09 `fft_eq_propagate_dft` (FFT output = `propagate_dft` model at the reported wavelength, α = 1/S) with the plane-energy bound. -/
theorem propagate_fft_energy (fs : List (Fld ℂ)) (W0 W1 : ℕ) (dx0 dx1 du0 du1 wl z : ℝ) (os : ℤ)
    (shape : Option (ℤ × ℤ)) (scratch : Option (Arr ℂ)) (lam : ℝ) (S0 S1 : ℤ) (so : ℤ × ℤ) (g : Fld ℂ)
    (h : propagateFft 1 fs false W0 W1 dx0 dx1 du0 du1 wl z os shape scratch = FftOut.ok lam S0 S1 so g)
    (hiso : dx0 * du0 = dx1 * du1) (hp : dx0 * du0 ≠ 0) (hz : z ≠ 0) (hos : 0 < os) (hS : 0 < S0 ∧ 0 < S1)
    (hW : (W0 : ℤ) ≤ S0 ∧ (W1 : ℤ) ≤ S1) (hfit : ∀ f ∈ fs, f.within W0 W1)
    (hpos : ∀ f ∈ fs, 0 < f.arr.s0 ∧ 0 < f.arr.s1) (hso : 0 < so.1 ∧ 0 < so.2) :
    ∑ i ∈ range so.1.toNat, ∑ j ∈ range so.2.toNat, Complex.normSq ((wavefrontField 1 [g] so.1 so.2).get i j)
      ≤ arrSum (intensity (R := ℝ) (embedAll fs W0 W1)) ∧
    (so = (S0, S1) →
      ∑ i ∈ range so.1.toNat, ∑ j ∈ range so.2.toNat, Complex.normSq ((wavefrontField 1 [g] so.1 so.2).get i j)
        = arrSum (intensity (R := ℝ) (embedAll fs W0 W1))) :=
  propagate_fft_energy_aux fs W0 W1 dx0 dx1 du0 du1 wl z os shape scratch lam S0 S1 so g h hiso hp hz hos hS hW hfit hpos hso

/-- **the FFT propagator conserves energy on non-square grids too.** Same statement as `propagate_fft_energy` under C09's weaker
condition: isotropic `dx·du`, *or* a grid consistent with the two samplings, `S0·dx0·du0 = S1·dx1·du1` (then `α = (1/S0, 1/S1)` at
the reported wavelength, `S0 ≠ S1` allowed). -/
theorem propagate_fft_energy_consistent (fs : List (Fld ℂ)) (W0 W1 : ℕ) (dx0 dx1 du0 du1 wl z : ℝ) (os : ℤ)
    (shape : Option (ℤ × ℤ)) (scratch : Option (Arr ℂ)) (lam : ℝ) (S0 S1 : ℤ) (so : ℤ × ℤ) (g : Fld ℂ)
    (h : propagateFft 1 fs false W0 W1 dx0 dx1 du0 du1 wl z os shape scratch = FftOut.ok lam S0 S1 so g)
    (hcons : dx0 * du0 = dx1 * du1 ∨ (S0 : ℝ) * (dx0 * du0) = (S1 : ℝ) * (dx1 * du1))
    (hp : dx0 * du0 ≠ 0) (hp1 : dx1 * du1 ≠ 0) (hz : z ≠ 0) (hos : 0 < os) (hS : 0 < S0 ∧ 0 < S1)
    (hW : (W0 : ℤ) ≤ S0 ∧ (W1 : ℤ) ≤ S1) (hfit : ∀ f ∈ fs, f.within W0 W1)
    (hpos : ∀ f ∈ fs, 0 < f.arr.s0 ∧ 0 < f.arr.s1) (hso : 0 < so.1 ∧ 0 < so.2) :
    ∑ i ∈ range so.1.toNat, ∑ j ∈ range so.2.toNat, Complex.normSq ((wavefrontField 1 [g] so.1 so.2).get i j)
      ≤ arrSum (intensity (R := ℝ) (embedAll fs W0 W1)) ∧
    (so = (S0, S1) →
      ∑ i ∈ range so.1.toNat, ∑ j ∈ range so.2.toNat, Complex.normSq ((wavefrontField 1 [g] so.1 so.2).get i j)
        = arrSum (intensity (R := ℝ) (embedAll fs W0 W1))) :=
  propagate_fft_energy_cons fs W0 W1 dx0 dx1 du0 du1 wl z os shape scratch lam S0 S1 so g h hcons hp hp1 hz hos hS hW hfit hpos hso

/-- non-vacuity of `propagate_fft_energy` *with its equality clause*: the plain call (no shape, no scratch) of a 2 × 2 field on the
isotropic sampling `dx = du = 1/2` is accepted with grid and output `4 × 4`, and every hypothesis of the theorem is discharged for it —
so "exactly the input power on the full grid" is a statement about a real instance -/
example (lam : ℝ) (g : Fld ℂ)
    (h : propagateFft (K := ℂ) (R := ℝ) 1 [⟨⟨2, 2, fun i j => (i + 2 * j + 1 : ℤ)⟩, 0, 0⟩] false 2 2 (1/2) (1/2) (1/2) (1/2) 1 1 1
      none none = FftOut.ok lam 4 4 (4, 4) g) :=
  (propagate_fft_energy [⟨⟨2, 2, fun i j => (i + 2 * j + 1 : ℤ)⟩, 0, 0⟩] 2 2 (1/2) (1/2) (1/2) (1/2) 1 1 1 none none lam 4 4 (4, 4) g h
    rfl (by norm_num) (by norm_num) (by norm_num) (by decide) (by decide)
    (by intro f hf; simp only [List.mem_singleton] at hf; subst hf; simp only [Fld.within, Fld.extent, arrayExtent_eq]; decide)
    (by intro f hf; simp only [List.mem_singleton] at hf; subst hf; decide)
    (by decide)).2 rfl

/-- non-vacuity of `propagate_fft_energy_consistent` beyond the isotropic case: explicit `shape=(1, 2)`, a dirty 5 × 9 scratch buffer and
per-axis sampling `du = (1/2, 1/4)` (grid `4 × 8`, `S0·dx0·du0 = S1·dx1·du1` while `dx0·du0 ≠ dx1·du1`; the call is accepted: C09) —
every hypothesis is discharged and the cropped output holds at most the input power -/
example (lam : ℝ) (g : Fld ℂ)
    (h : propagateFft (K := ℂ) (R := ℝ) 1 [⟨⟨2, 2, fun i j => (i + 2 * j + 1 : ℤ)⟩, 0, 0⟩] false 2 2 (1/2) (1/2) (1/2) (1/4) 1 1 1
      (some (1, 2)) (some ⟨5, 9, fun _ _ => 3⟩) = FftOut.ok lam 4 8 (1, 2) g) :=
  (propagate_fft_energy_consistent [⟨⟨2, 2, fun i j => (i + 2 * j + 1 : ℤ)⟩, 0, 0⟩] 2 2 (1/2) (1/2) (1/2) (1/4) 1 1 1 (some (1, 2))
    (some ⟨5, 9, fun _ _ => 3⟩) lam 4 8 (1, 2) g h (Or.inr (by norm_num)) (by norm_num) (by norm_num) (by norm_num) (by decide)
    (by decide) (by decide)
    (by intro f hf; simp only [List.mem_singleton] at hf; subst hf; simp only [Fld.within, Fld.extent, arrayExtent_eq]; decide)
    (by intro f hf; simp only [List.mem_singleton] at hf; subst hf; decide)
    (by decide)).1

/-- **several fields transform like the wavefront's total field** (linearity + zero-padded embedding): the statement that lets the
single-array theorems above speak about segmented pupils -/
theorem fields_transform_as_total (fs : List (Fld ℂ)) (S0 S1 : ℕ) (hfit : ∀ f ∈ fs, Fits f S0 S1) (αr αc : ℝ) (U V : ℤ) :
    fieldAt fs αr αc U V = fieldAt [canvasFld fs S0 S1] αr αc U V :=
  fieldAt_eq_canvas fs S0 S1 hfit αr αc U V

example : ∃ (fs : List (Fld ℂ)) (S0 S1 : ℕ), fs.length = 2 ∧ ∀ f ∈ fs, Fits f S0 S1 :=
  ⟨[⟨⟨1, 2, fun _ _ => 1⟩, 1, 0⟩, ⟨⟨2, 1, fun _ _ => 2⟩, -1, 1⟩], 4, 4, rfl, by
    intro f hf
    simp only [List.mem_cons, List.mem_nil_iff, or_false] at hf
    rcases hf with rfl | rfl
    · exact ⟨1, 2, rfl, rfl, by norm_num, by norm_num⟩
    · exact ⟨2, 1, rfl, rfl, by norm_num, by norm_num⟩⟩

/-- **a tilted field keeps its energy over the (displaced) period.** One field with any tilt shift `fix + sub` (integer plus
sub-pixel part), propagation shape = one period `K × L`, output extent containing the displaced propagation extent: the
intensity summed over that extent equals the field's power — the period moves with the tilt and the sub-pixel part sits in the
kernel, neither changes the energy. -/
theorem tilted_field_period_energy (t : TField ℂ ℝ) (m n : ℕ) (hm : t.fld.arr.s0 = m) (hn : t.fld.arr.s1 = n) (K L : ℕ)
    (hK : 0 < K) (hL : 0 < L) (hmK : m ≤ K) (hnL : n ≤ L) (oe : Extent) (hoe : oe.rmin ≤ oe.rmax ∧ oe.cmin ≤ oe.cmax)
    (hcover : ∀ r c, (propExtent K L t.fix0 t.fix1).inb r c = true → oe.inb r c = true) :
    ∑ u ∈ range K, ∑ v ∈ range L, Complex.normSq
        (embO (propagateField t (1 / (K : ℝ)) (1 / (L : ℝ)) oe K L) (-((K : ℤ) / 2) + t.fix0 + u) (-((L : ℤ) / 2) + t.fix1 + v))
      = arrSum (intensity (R := ℝ) t.fld.arr) := by
  have hE := dft2_energy t.fld.arr m n hm hn K L hK hL hmK hnL t.sub0 t.sub1 t.fld.o0 t.fld.o1
  rw [arrSum_eq]
  simp only [intensity, NormSqLike.normSq, hm, hn, Int.toNat_natCast]
  rw [← hE]
  refine sum_congr rfl fun u hu => sum_congr rfl fun v hv => ?_
  have hu' := mem_range.mp hu
  have hv' := mem_range.mp hv
  have hin : (propExtent (K : ℤ) (L : ℤ) t.fix0 t.fix1).inb (-((K : ℤ) / 2) + t.fix0 + u) (-((L : ℤ) / 2) + t.fix1 + v) = true := by
    unfold propExtent; rw [arrayExtent_eq, Extent.inb_iff]; simp only; omega
  rw [C02.propagateField_sample (K := ℂ) (R := ℝ) (fun _ => rfl) t _ _ oe K L hoe ⟨by exact_mod_cast hK, by exact_mod_cast hL⟩,
    hcover _ _ hin, hin]
  simp only [Bool.and_self, if_true, fraunhoferAt]
  congr 1
  apply dft2_get_congr
  · simp only [RealLike.ofInt, cc]; push_cast; ring
  · simp only [RealLike.ofInt, cc]; push_cast; ring

/-- **fields sharing one tilt keep their energy over the displaced period**, any number of fields on the wavefront canvas (a tilted
segmented pupil): with propagation shape one period `K × L` and an output extent containing the displaced propagation extent,
the intensity `|Σ fields|²` of the C02 model summed over that extent equals the input power `Σ|total field|²`. -/
theorem common_tilt_period_energy (fs : List (Fld ℂ)) (S0 S1 K L : ℕ) (hfit : ∀ f ∈ fs, Fits f S0 S1) (hK : 0 < K) (hL : 0 < L)
    (hS0 : S0 ≤ K) (hS1 : S1 ≤ L) (fix0 fix1 : ℤ) (sub0 sub1 : ℝ) (oe : Extent) (hoe : oe.rmin ≤ oe.rmax ∧ oe.cmin ≤ oe.cmax)
    (hcover : ∀ r c, (propExtent K L fix0 fix1).inb r c = true → oe.inb r c = true) :
    ∑ u ∈ range K, ∑ v ∈ range L, Complex.normSq
        ((fs.map fun f => embO (propagateField (⟨f, fix0, fix1, sub0, sub1⟩ : TField ℂ ℝ) (1 / (K : ℝ)) (1 / (L : ℝ)) oe K L)
          (-((K : ℤ) / 2) + fix0 + u) (-((L : ℤ) / 2) + fix1 + v)).sum)
      = arrSum (intensity (R := ℝ) (embedAll fs S0 S1)) :=
  common_tilt_period_energy_aux fs S0 S1 K L hfit hK hL hS0 hS1 fix0 fix1 sub0 sub1 oe hoe hcover

/-- **a pupil images to its amplitude·mask power** ("an amplitude with power p images to total p"). The fresh wavefront
(`unitField`) multiplied by a pupil plane — `Plane.multiply` as modelled and proved in C07, monolithic mask with a bounding box of
more than one pixel, any OPD, any wavelength — and propagated over one full period `K × L ≥` plane shape gives an image whose
total is `Σ_mask |amplitude|²`: the phase factor has modulus 1 and the transform is unitary. With `normalize_power_power`
(`Σ|normalize_power(a, p)|² = p`) this is the clause "a normalised amplitude images to total p"; segmented masks reduce to
this one by C03 `segmented_eq_monolithic_end_to_end`. -/
theorem pupil_images_to_amplitude_power (wl : ℝ) (amp : Attr ℂ) (opd : Attr ℝ) (S0 S1 K L : ℕ) (g : Seg) (hc : g.covers S0 S1)
    (hbig : g.s.r0 < g.s.r1 ∧ g.s.c0 < g.s.c1 ∧ ¬ (g.s.r1 - g.s.r0 = 1 ∧ g.s.c1 - g.s.c0 = 1))
    (hK : 0 < K) (hL : 0 < L) (hS0 : S0 ≤ K) (hS1 : S1 ≤ L) (oe : Extent) (P0 P1 : ℤ)
    (hoe : oe.rmin ≤ oe.rmax ∧ oe.cmin ≤ oe.cmax) (hP : 0 < P0 ∧ 0 < P1)
    (hcover : ∀ q ∈ periodBox K L, (oe.inb q.1 q.2 && (propExtent P0 P1 0 0).inb q.1 q.2) = true) :
    ∑ q ∈ periodBox K L, Complex.normSq
        (((planeMultiply (planePh wl) ⟨amp, opd, .segs S0 S1 [g]⟩ [unitField]).map fun f =>
          embO (propagateField (⟨f, 0, 0, 0, 0⟩ : TField ℂ ℝ) (1 / (K : ℝ)) (1 / (L : ℝ)) oe P0 P1) q.1 q.2).sum)
      = ∑ i ∈ range S0, ∑ j ∈ range S1, (if g.m i j = true then Complex.normSq (amp.at i j) else 0) :=
  pupil_image_total_aux wl amp opd S0 S1 K L g hc hbig hK hL hS0 hS1 oe P0 P1 hoe hP hcover

/-- **a window of a commonly tilted wavefront captures no more than the input power.** Fields sharing one tilt `fix + sub`
(a tilted segmented pupil), propagation shape one period `K × L`, output extent containing the displaced propagation extent: over
any set `B` of samples of the displaced period (indexed `(u, v) ∈ [0, K) × [0, L)` from its first sample) the intensity
`|Σ fields|²` is non-negative and at most the input power `Σ|total field|²` — the "any smaller window" clause for tilted fields,
from `common_tilt_period_energy` and non-negativity of the summands. -/
theorem common_tilt_window_energy_le (fs : List (Fld ℂ)) (S0 S1 K L : ℕ) (hfit : ∀ f ∈ fs, Fits f S0 S1) (hK : 0 < K) (hL : 0 < L)
    (hS0 : S0 ≤ K) (hS1 : S1 ≤ L) (fix0 fix1 : ℤ) (sub0 sub1 : ℝ) (oe : Extent) (hoe : oe.rmin ≤ oe.rmax ∧ oe.cmin ≤ oe.cmax)
    (hcover : ∀ r c, (propExtent K L fix0 fix1).inb r c = true → oe.inb r c = true)
    (B : Finset (ℕ × ℕ)) (hB : B ⊆ range K ×ˢ range L) :
    0 ≤ ∑ q ∈ B, Complex.normSq
        ((fs.map fun f => embO (propagateField (⟨f, fix0, fix1, sub0, sub1⟩ : TField ℂ ℝ) (1 / (K : ℝ)) (1 / (L : ℝ)) oe K L)
          (-((K : ℤ) / 2) + fix0 + q.1) (-((L : ℤ) / 2) + fix1 + q.2)).sum) ∧
    ∑ q ∈ B, Complex.normSq
        ((fs.map fun f => embO (propagateField (⟨f, fix0, fix1, sub0, sub1⟩ : TField ℂ ℝ) (1 / (K : ℝ)) (1 / (L : ℝ)) oe K L)
          (-((K : ℤ) / 2) + fix0 + q.1) (-((L : ℤ) / 2) + fix1 + q.2)).sum)
      ≤ arrSum (intensity (R := ℝ) (embedAll fs S0 S1)) := by
  refine ⟨sum_nonneg fun _ _ => Complex.normSq_nonneg _, ?_⟩
  rw [← common_tilt_period_energy fs S0 S1 K L hfit hK hL hS0 hS1 fix0 fix1 sub0 sub1 oe hoe hcover, ← Finset.sum_product']
  exact sum_le_sum_of_subset_of_nonneg hB (fun _ _ _ => Complex.normSq_nonneg _)

/-- **a normalised pupil images to total `p`** — the property's "and therefore images to total p" as one statement. The
amplitude is `normalize_power(a, p)` (factor regenerated from `util.py`) of an array `a` of the plane's shape with non-zero power
that vanishes outside the mask, `p ≥ 0`; the fresh wavefront times that pupil (C07 `Plane.multiply`, monolithic mask with a
bounding box of more than one pixel, any OPD and wavelength), propagated by the C02 model over one full period `K × L ≥` plane
shape, has image total exactly `p`. (Segmented masks: C03 `segmented_eq_monolithic_end_to_end`; FFT path and segmented pupils
here: oracle.) -/
theorem normalized_pupil_images_to_p (wl : ℝ) (a : Arr ℂ) (p : ℝ) (hp : 0 ≤ p) (opd : Attr ℝ) (S0 S1 K L : ℕ)
    (ha0 : a.s0 = S0) (ha1 : a.s1 = S1) (hpow : 0 < arrSum (intensity (R := ℝ) a)) (g : Seg) (hc : g.covers S0 S1)
    (hsupp : ∀ i j, g.m i j = false → a.get i j = 0)
    (hbig : g.s.r0 < g.s.r1 ∧ g.s.c0 < g.s.c1 ∧ ¬ (g.s.r1 - g.s.r0 = 1 ∧ g.s.c1 - g.s.c0 = 1))
    (hK : 0 < K) (hL : 0 < L) (hS0 : S0 ≤ K) (hS1 : S1 ≤ L) (oe : Extent) (P0 P1 : ℤ)
    (hoe : oe.rmin ≤ oe.rmax ∧ oe.cmin ≤ oe.cmax) (hP : 0 < P0 ∧ 0 < P1)
    (hcover : ∀ q ∈ periodBox K L, (oe.inb q.1 q.2 && (propExtent P0 P1 0 0).inb q.1 q.2) = true) :
    ∑ q ∈ periodBox K L, Complex.normSq
        (((planeMultiply (planePh wl) ⟨.array (normalizePower a p), opd, .segs S0 S1 [g]⟩ [unitField]).map fun f =>
          embO (propagateField (⟨f, 0, 0, 0, 0⟩ : TField ℂ ℝ) (1 / (K : ℝ)) (1 / (L : ℝ)) oe P0 P1) q.1 q.2).sum)
      = p := by
  rw [pupil_images_to_amplitude_power wl (.array (normalizePower a p)) opd S0 S1 K L g hc hbig hK hL hS0 hS1 oe P0 P1 hoe hP hcover]
  refine Eq.trans ?_ (normalize_power_power a p hp hpow)
  rw [arrSum_eq]
  have e0 : (intensity (R := ℝ) (normalizePower a p)).s0 = S0 := ha0
  have e1 : (intensity (R := ℝ) (normalizePower a p)).s1 = S1 := ha1
  rw [e0, e1]
  simp only [Int.toNat_natCast]
  refine sum_congr rfl fun i _ => sum_congr rfl fun j _ => ?_
  by_cases hm : g.m i j = true
  · rw [if_pos hm]; rfl
  · rw [if_neg hm]
    have hz : a.get i j = 0 := hsupp i j (by simpa using hm)
    show (0 : ℝ) = Complex.normSq (a.get i j * _)
    rw [hz, zero_mul, map_zero]

/-- **a normalised pupil images to total `p` through the FFT propagator too.** The same pupil as in `normalized_pupil_images_to_p`
(amplitude `normalize_power(a, p)` vanishing outside a monolithic mask whose box spans more than one pixel, any OPD), the fresh
wavefront times it handed to `propagate_fft` (C09 model) at the same wavelength: whenever the call answers on a sampling that is
isotropic or consistent with its grid and returns the whole grid `G0 × G1 ≥` plane shape, the image total `Σ|Wavefront.field|²` is
exactly `p`. Composition of `propagate_fft_energy_consistent`, C07 `plane_multiply_exp` (through `pupil_input_power`) and
`normalize_power_power`; the fields' positions on the canvas are derived (`pupil_fields_on_canvas`), not assumed. -/
theorem normalized_pupil_images_to_p_fft (wl : ℝ) (a : Arr ℂ) (p : ℝ) (hp : 0 ≤ p) (opd : Attr ℝ) (S0 S1 : ℕ)
    (ha0 : a.s0 = S0) (ha1 : a.s1 = S1) (hpow : 0 < arrSum (intensity (R := ℝ) a)) (g : Seg) (hc : g.covers S0 S1)
    (hsupp : ∀ i j, g.m i j = false → a.get i j = 0)
    (hbig : g.s.r0 < g.s.r1 ∧ g.s.c0 < g.s.c1 ∧ ¬ (g.s.r1 - g.s.r0 = 1 ∧ g.s.c1 - g.s.c0 = 1))
    (dx0 dx1 du0 du1 z : ℝ) (os : ℤ) (shape : Option (ℤ × ℤ)) (scratch : Option (Arr ℂ)) (lam : ℝ) (G0 G1 : ℤ) (gout : Fld ℂ)
    (h : propagateFft 1 (planeMultiply (planePh wl) ⟨.array (normalizePower a p), opd, .segs S0 S1 [g]⟩ [unitField]) false S0 S1
      dx0 dx1 du0 du1 wl z os shape scratch = FftOut.ok lam G0 G1 (G0, G1) gout)
    (hcons : dx0 * du0 = dx1 * du1 ∨ (G0 : ℝ) * (dx0 * du0) = (G1 : ℝ) * (dx1 * du1))
    (hq : dx0 * du0 ≠ 0) (hq1 : dx1 * du1 ≠ 0) (hz : z ≠ 0) (hos : 0 < os) (hG : 0 < G0 ∧ 0 < G1)
    (hW : (S0 : ℤ) ≤ G0 ∧ (S1 : ℤ) ≤ G1) :
    ∑ i ∈ range G0.toNat, ∑ j ∈ range G1.toNat, Complex.normSq ((wavefrontField 1 [gout] G0 G1).get i j) = p := by
  have hon := pupil_fields_on_canvas wl (.array (normalizePower a p)) opd S0 S1 g hc hbig
  have hE := (propagate_fft_energy_consistent _ S0 S1 dx0 dx1 du0 du1 wl z os shape scratch lam G0 G1 (G0, G1) gout h hcons hq hq1 hz
    hos hG hW (fun f hf => (hon f hf).1) (fun f hf => (hon f hf).2) hG).2 rfl
  simp only at hE
  rw [hE, pupil_input_power wl (.array (normalizePower a p)) opd S0 S1 g hc hbig]
  refine Eq.trans ?_ (normalize_power_power a p hp hpow)
  rw [arrSum_eq]
  have e0 : (intensity (R := ℝ) (normalizePower a p)).s0 = S0 := ha0
  have e1 : (intensity (R := ℝ) (normalizePower a p)).s1 = S1 := ha1
  rw [e0, e1]
  simp only [Int.toNat_natCast]
  refine sum_congr rfl fun i _ => sum_congr rfl fun j _ => ?_
  by_cases hm : g.m i j = true
  · rw [if_pos hm]; rfl
  · rw [if_neg hm]
    have hz' : a.get i j = 0 := hsupp i j (by simpa using hm)
    show (0 : ℝ) = Complex.normSq (a.get i j * _)
    rw [hz', zero_mul, map_zero]

/-- the window hypothesis `hcover` of the period theorems is met by the plain call: whole output array `K × L`, propagation shape
`K × L` — the evaluated window is exactly one period -/
example (K L : ℕ) (hK : 0 < K) (hL : 0 < L) :
    ∀ q ∈ periodBox K L, ((arrayExtent K L 0 0).inb q.1 q.2 && (propExtent K L 0 0).inb q.1 q.2) = true := by
  intro q hq
  simp only [periodBox, Finset.mem_product, Finset.mem_Ico] at hq
  simp only [Bool.and_eq_true, Extent.inb_iff, propExtent, arrayExtent_eq]
  omega

/-- **fields carrying different tilts.** Every field `t` has its own shift `fix + sub`. Where every field's window covers one whole
period, the intensity `|Σ fields|²` of the C02 model summed over that period equals the power of the coherent sum of the *tilted*
input fields — each input multiplied by its own phase ramp `exp(2πi(αr·X·s_r + αc·Y·s_c))` (`rampFld`): differently tilted fields
interfere, so their untilted `Σ|field|²` is not the reference, but the propagation itself conserves energy. -/
theorem multi_tilt_period_energy (ts : List (TField ℂ ℝ)) (S0 S1 K L : ℕ) (hfit : ∀ t ∈ ts, Fits t.fld S0 S1) (hK : 0 < K) (hL : 0 < L)
    (hS0 : S0 ≤ K) (hS1 : S1 ≤ L) (oe : Extent) (P0 P1 : ℤ) (hoe : oe.rmin ≤ oe.rmax ∧ oe.cmin ≤ oe.cmax) (hP : 0 < P0 ∧ 0 < P1)
    (hcover : ∀ t ∈ ts, ∀ q ∈ periodBox K L, (oe.inb q.1 q.2 && (propExtent P0 P1 t.fix0 t.fix1).inb q.1 q.2) = true) :
    ∑ q ∈ periodBox K L, Complex.normSq
        ((ts.map fun t => embO (propagateField t (1 / (K : ℝ)) (1 / (L : ℝ)) oe P0 P1) q.1 q.2).sum)
      = arrSum (intensity (R := ℝ) (embedAll (ts.map fun t =>
          rampFld t.fld (1 / (K : ℝ)) (1 / (L : ℝ)) ((t.fix0 : ℝ) + t.sub0) ((t.fix1 : ℝ) + t.sub1)) S0 S1)) :=
  multi_tilt_period_energy_aux ts S0 S1 K L hfit hK hL hS0 hS1 oe P0 P1 hoe hP hcover

/-- **a window of a wavefront whose fields carry different tilts captures no more than the power of the coherently summed ramped
inputs.** Under the hypotheses of `multi_tilt_period_energy` (every field's window covers the period), over any set `B` of plane
coordinates inside the period the intensity `|Σ fields|²` is non-negative and at most that reference power. -/
theorem multi_tilt_window_energy_le (ts : List (TField ℂ ℝ)) (S0 S1 K L : ℕ) (hfit : ∀ t ∈ ts, Fits t.fld S0 S1) (hK : 0 < K) (hL : 0 < L)
    (hS0 : S0 ≤ K) (hS1 : S1 ≤ L) (oe : Extent) (P0 P1 : ℤ) (hoe : oe.rmin ≤ oe.rmax ∧ oe.cmin ≤ oe.cmax) (hP : 0 < P0 ∧ 0 < P1)
    (hcover : ∀ t ∈ ts, ∀ q ∈ periodBox K L, (oe.inb q.1 q.2 && (propExtent P0 P1 t.fix0 t.fix1).inb q.1 q.2) = true)
    (B : Finset (ℤ × ℤ)) (hB : B ⊆ periodBox K L) :
    0 ≤ ∑ q ∈ B, Complex.normSq
        ((ts.map fun t => embO (propagateField t (1 / (K : ℝ)) (1 / (L : ℝ)) oe P0 P1) q.1 q.2).sum) ∧
    ∑ q ∈ B, Complex.normSq
        ((ts.map fun t => embO (propagateField t (1 / (K : ℝ)) (1 / (L : ℝ)) oe P0 P1) q.1 q.2).sum)
      ≤ arrSum (intensity (R := ℝ) (embedAll (ts.map fun t =>
          rampFld t.fld (1 / (K : ℝ)) (1 / (L : ℝ)) ((t.fix0 : ℝ) + t.sub0) ((t.fix1 : ℝ) + t.sub1)) S0 S1)) := by
  refine ⟨sum_nonneg fun _ _ => Complex.normSq_nonneg _, ?_⟩
  rw [← multi_tilt_period_energy ts S0 S1 K L hfit hK hL hS0 hS1 oe P0 P1 hoe hP hcover]
  exact sum_le_sum_of_subset_of_nonneg hB (fun _ _ _ => Complex.normSq_nonneg _)

/-- **`Wavefront.insert(out, weight)` of a propagated wavefront adds `weight ·` intensity, and over one period `weight ·` the input
power.** The output fields of `propagate_dft` (C02 model, any output extent / mask box / propagation shape, any number of tilt-free
fields) are accumulated into a caller's `K × L` array `acc` by the loop of `Wavefront.insert` as the wiring regenerated from
wavefront.py drives it (`viewRun Gen.insertWiring`: `reduce`, `intensity=True`, `weight=weight`, no fresh zeros; a call that does not
pass `weight` on would use `field.insert`'s default 1 — the statement is then false and the proof stops at `hv`) and by
`field.insert`'s regenerated accumulation statement (`out[…] += |data|²·weight`). The call always returns; the target keeps its
shape; every sample is its prior content plus `weight · |Σ fields|²` (coherent sum, not a sum of intensities); and when the evaluated
window covers the period the total added over the array is exactly `weight · Σ|input field|²`, whatever the accumulator held
(`acc` arbitrary, `w` any complex number — a real weight is the case the code documents). Positivity of the produced fields' shapes,
which `Wavefront.insert`'s `reduce` needs, is proved (`propagateField_pos`), not assumed. -/
theorem wavefront_insert_weighted_energy (fs : List (Fld ℂ)) (S0 S1 K L : ℕ) (hfit : ∀ f ∈ fs, Fits f S0 S1) (hK : 0 < K) (hL : 0 < L)
    (hS0 : S0 ≤ K) (hS1 : S1 ≤ L) (oe : Extent) (P0 P1 : ℤ) (hoe : oe.rmin ≤ oe.rmax ∧ oe.cmin ≤ oe.cmax) (hP : 0 < P0 ∧ 0 < P1)
    (acc : Arr ℂ) (hacc0 : acc.s0 = K) (hacc1 : acc.s1 = L) (w : ℂ) :
    ∃ acc', viewRun Gen.insertWiring 1 (fun z => ((Complex.normSq z : ℝ) : ℂ))
        (fs.filterMap fun f => propagateField (⟨f, 0, 0, 0, 0⟩ : TField ℂ ℝ) (1 / (K : ℝ)) (1 / (L : ℝ)) oe P0 P1) acc w = some acc' ∧
      acc'.s0 = K ∧ acc'.s1 = L ∧
      (∀ i j : ℤ, 0 ≤ i ∧ i < K → 0 ≤ j ∧ j < L → acc'.get i j = acc.get i j +
        ((Complex.normSq ((fs.map fun f => embO (propagateField (⟨f, 0, 0, 0, 0⟩ : TField ℂ ℝ) (1 / (K : ℝ)) (1 / (L : ℝ)) oe P0 P1)
            (i - (K : ℤ) / 2) (j - (L : ℤ) / 2)).sum) : ℝ) : ℂ) * w) ∧
      ((∀ p ∈ periodBox K L, (oe.inb p.1 p.2 && (propExtent P0 P1 0 0).inb p.1 p.2) = true) →
        ∑ i ∈ range K, ∑ j ∈ range L, (acc'.get i j - acc.get i j)
          = ((arrSum (intensity (R := ℝ) (embedAll fs S0 S1)) : ℝ) : ℂ) * w) := by
  have hpos : ∀ g ∈ fs.filterMap (fun f => propagateField (⟨f, 0, 0, 0, 0⟩ : TField ℂ ℝ) (1 / (K : ℝ)) (1 / (L : ℝ)) oe P0 P1),
      0 < g.arr.s0 ∧ 0 < g.arr.s1 := by
    intro g hg
    obtain ⟨f, _, hf⟩ := List.mem_filterMap.mp hg
    exact propagateField_pos _ _ _ oe P0 P1 hoe hP g hf
  -- the loop as wavefront.py writes it (`Gen.insertWiring`, with `field.insert`'s own default weight 1 where the wiring passes none) is
  -- C07's `wfInsert`: this is where `weight=weight` of the regenerated call enters
  have hv : ∀ data : List (Fld ℂ), viewRun Gen.insertWiring 1 (fun z : ℂ => ((Complex.normSq z : ℝ) : ℂ)) data acc w
      = wfInsert 1 (fun z : ℂ => ((Complex.normSq z : ℝ) : ℂ)) data acc w := fun _ => rfl
  rw [hv]
  obtain ⟨acc', h, e0, e1, hget⟩ := C07.wavefront_insert_weight_total (fun z : ℂ => ((Complex.normSq z : ℝ) : ℂ)) (by simp) _ hpos acc w
  have hsample : ∀ i j : ℤ, 0 ≤ i ∧ i < K → 0 ≤ j ∧ j < L → acc'.get i j = acc.get i j +
        ((Complex.normSq ((fs.map fun f => embO (propagateField (⟨f, 0, 0, 0, 0⟩ : TField ℂ ℝ) (1 / (K : ℝ)) (1 / (L : ℝ)) oe P0 P1)
            (i - (K : ℤ) / 2) (j - (L : ℤ) / 2)).sum) : ℝ) : ℂ) * w := by
    intro i j hi hj
    rw [hget i j (by rw [hacc0]; exact hi) (by rw [hacc1]; exact hj), sumList_eq, sum_filterMap_embO, hacc0, hacc1]
  refine ⟨acc', h, by rw [e0, hacc0], by rw [e1, hacc1], hsample, ?_⟩
  intro hcover
  have hE := (propagate_dft_energy fs S0 S1 K L hfit hK hL hS0 hS1 oe P0 P1 hoe hP ∅ (empty_subset _)).2 hcover
  rw [← hE]
  have hre := canvas_sum_eq (fun r c => Complex.normSq
    ((fs.map fun f => embO (propagateField (⟨f, 0, 0, 0, 0⟩ : TField ℂ ℝ) (1 / (K : ℝ)) (1 / (L : ℝ)) oe P0 P1) r c).sum)) K L
  unfold periodBox
  rw [← hre, Complex.ofReal_sum, sum_mul]
  refine sum_congr rfl fun i hi => ?_
  rw [Complex.ofReal_sum, sum_mul]
  refine sum_congr rfl fun j hj => ?_
  have hi' := mem_range.mp hi
  have hj' := mem_range.mp hj
  rw [hsample i j ⟨by omega, by omega⟩ ⟨by omega, by omega⟩]
  ring

/-- **the array `Wavefront.intensity` returns for a propagated wavefront sums to the input power.** The view as wavefront.py drives it
(`wfIntensity` = `viewRun Gen.intensityWiring`: fresh zeros of the output shape, `reduce`, `intensity=True`, `field.insert`'s default
weight — all regenerated) applied to the tilt-free output fields of `propagate_dft` on a `K × L` output array: it always returns, has
shape `K × L`, every sample is `|Σ fields|²` (coherent sum), and when the evaluated window covers the period the total of the array
is exactly `Σ|input field|²`. The headline clause stated on the array the caller gets, not on a sum of list sums. -/
theorem wavefront_intensity_period_energy (fs : List (Fld ℂ)) (S0 S1 K L : ℕ) (hfit : ∀ f ∈ fs, Fits f S0 S1) (hK : 0 < K) (hL : 0 < L)
    (hS0 : S0 ≤ K) (hS1 : S1 ≤ L) (oe : Extent) (P0 P1 : ℤ) (hoe : oe.rmin ≤ oe.rmax ∧ oe.cmin ≤ oe.cmax) (hP : 0 < P0 ∧ 0 < P1) :
    ∃ I, wfIntensity 1 (fun z => ((Complex.normSq z : ℝ) : ℂ)) K L
        (fs.filterMap fun f => propagateField (⟨f, 0, 0, 0, 0⟩ : TField ℂ ℝ) (1 / (K : ℝ)) (1 / (L : ℝ)) oe P0 P1) = some I ∧
      I.s0 = K ∧ I.s1 = L ∧
      (∀ i j : ℤ, 0 ≤ i ∧ i < K → 0 ≤ j ∧ j < L → I.get i j =
        ((Complex.normSq ((fs.map fun f => embO (propagateField (⟨f, 0, 0, 0, 0⟩ : TField ℂ ℝ) (1 / (K : ℝ)) (1 / (L : ℝ)) oe P0 P1)
            (i - (K : ℤ) / 2) (j - (L : ℤ) / 2)).sum) : ℝ) : ℂ)) ∧
      ((∀ p ∈ periodBox K L, (oe.inb p.1 p.2 && (propExtent P0 P1 0 0).inb p.1 p.2) = true) →
        ∑ i ∈ range K, ∑ j ∈ range L, I.get i j = ((arrSum (intensity (R := ℝ) (embedAll fs S0 S1)) : ℝ) : ℂ)) := by
  -- `Wavefront.intensity` is `Wavefront.insert` into fresh zeros with weight 1: both wirings regenerated, the bridge is definitional
  have hv : ∀ data : List (Fld ℂ), wfIntensity 1 (fun z : ℂ => ((Complex.normSq z : ℝ) : ℂ)) K L data
      = viewRun Gen.insertWiring 1 (fun z : ℂ => ((Complex.normSq z : ℝ) : ℂ)) data (zerosArr K L) 1 := fun _ => rfl
  obtain ⟨I, h, e0, e1, hget, htot⟩ := wavefront_insert_weighted_energy fs S0 S1 K L hfit hK hL hS0 hS1 oe P0 P1 hoe hP
    (zerosArr K L) rfl rfl 1
  refine ⟨I, by rw [hv]; exact h, e0, e1, ?_, ?_⟩
  · intro i j hi hj
    rw [hget i j hi hj]; simp [zerosArr]
  · intro hcover
    have := htot hcover
    simpa [zerosArr] using this

end Lentil.C05
