import LentilVerif.Lemmas.Blur
/-! # C19 — pixel, jitter and smear blurs are flux-preserving convolutions on any shape

Property theorems only. Model: `Model/Blur.lean`, instantiated at `K = ℂ`, `R = ℝ`. -/
namespace Lentil.C19
open Lentil Finset

/-- **kernel shape = image shape, any aspect ratio.** The kernels' shapes are the ones regenerated from the source
(`Gen.bw…KernelShape`: rows from the vector placed as a column / `meshgrid`'s second argument, columns from the row vector /
first argument, each of length `img.shape[k]` as written in the code); they equal the image shape `(s0, s1)` for all `s0`, `s1`, so
`fft2(img) * kernel` is shape-compatible on non-square images (swapping the factors of the outer product gives `(s1, s0)` and
this statement fails). Outputs have the image's shape (either branch of the zero-total guard). -/
theorem kernel_shape_eq_image_shape (img : Arr ℝ) (os scale dist ang ps : ℝ) :
    ((pixelKernel img.s0 img.s1 os).s0 = img.s0 ∧ (pixelKernel img.s0 img.s1 os).s1 = img.s1) ∧
    ((jitterKernel img.s0 img.s1 scale ps os).s0 = img.s0 ∧ (jitterKernel img.s0 img.s1 scale ps os).s1 = img.s1) ∧
    ((smearKernel img.s0 img.s1 dist ang ps os).s0 = img.s0 ∧ (smearKernel img.s0 img.s1 dist ang ps os).s1 = img.s1) ∧
    ((pixel ℂ img os).s0 = img.s0 ∧ (pixel ℂ img os).s1 = img.s1) ∧
    ((jitter ℂ img scale ps os).s0 = img.s0 ∧ (jitter ℂ img scale ps os).s1 = img.s1) ∧
    ((smear ℂ img dist ang ps os).s0 = img.s0 ∧ (smear ℂ img dist ang ps os).s1 = img.s1) :=
  ⟨⟨rfl, rfl⟩, ⟨rfl, rfl⟩, ⟨rfl, rfl⟩, ⟨rfl, rfl⟩,
   ⟨by rw [jitter_def, renormZ_s0]; rfl, by rw [jitter_def, renormZ_s1]; rfl⟩,
   ⟨by rw [smear_def, renormZ_s0]; rfl, by rw [smear_def, renormZ_s1]; rfl⟩⟩

/-- every transfer function has unit gain at zero frequency (index `(0,0)`), whatever the extent, angle and sampling -/
theorem kernel_dc_gain_one (s0 s1 : ℤ) (h0 : 1 ≤ s0) (h1 : 1 ≤ s1) (os scale dist ang ps : ℝ) :
    (pixelKernel s0 s1 os).get 0 0 = 1 ∧ (jitterKernel s0 s1 scale ps os).get 0 0 = 1 ∧
    (smearKernel s0 s1 dist ang ps os).get 0 0 = 1 := by
  refine ⟨?_, ?_, ?_⟩
  · simp [pixelKernel, Gen.bwPixelKernel, fftfreq_zero, h0, h1, BlurLike.sinc]
  · simp [jitterKernel, Gen.bwJitterKernel, fftfreq_zero, h0, h1, BlurLike.exp, RealLike.sqrt]
  · simp [smearKernel, Gen.bwSmearKernel, fftfreq_zero, h0, h1, BlurLike.sinc]

/-- **the transfer functions are the stated closed forms** (rows ↔ `f_y = fftfreq(s0)[i]`, columns ↔ `f_x = fftfreq(s1)[j]`): the
separable pixel sinc `sinc(f_y·os)·sinc(f_x·os)`, the isotropic Gaussian `exp(−2π²σ²ρ²)` with `σ = scale/pixelscale·os`,
`ρ² = f_x² + f_y²`, and the directional sinc `sinc((sin a·f_y + cos a·f_x)·d)` along `a = angle·π/180`, `d = distance/pixelscale·os`
(`np.sinc x = sin(πx)/(πx)`). The kernels are the definitions regenerated from the source, so a changed constant or axis
breaks this theorem. -/
theorem transfer_functions_closed_form (s0 s1 : ℤ) (os scale dist ang ps : ℝ) (i j : ℤ) :
    (pixelKernel s0 s1 os).get i j
      = Real.sinc (Real.pi * ((fftfreq s0 i : ℝ) * os)) * Real.sinc (Real.pi * ((fftfreq s1 j : ℝ) * os)) ∧
    (jitterKernel s0 s1 scale ps os).get i j
      = Real.exp (-2 * Real.pi ^ 2 * (scale / ps * os) ^ 2 * ((fftfreq s1 j : ℝ) ^ 2 + (fftfreq s0 i : ℝ) ^ 2)) ∧
    (smearKernel s0 s1 dist ang ps os).get i j
      = Real.sinc (Real.pi * ((Real.sin (ang * (Real.pi / 180)) * (fftfreq s0 i : ℝ)
          + Real.cos (ang * (Real.pi / 180)) * (fftfreq s1 j : ℝ)) * (dist / ps * os))) := by
  refine ⟨?_, ?_, ?_⟩
  · simp only [pixelKernel, Gen.bwPixelKernel, BlurLike.sinc]
  · simp only [jitterKernel, Gen.bwJitterKernel, BlurLike.exp, BlurLike.pi, RealLike.sqrt, RealLike.ofInt]
    congr 1
    have hρ : 0 ≤ (fftfreq s1 j : ℝ) * fftfreq s1 j + (fftfreq s0 i : ℝ) * fftfreq s0 i :=
      add_nonneg (mul_self_nonneg _) (mul_self_nonneg _)
    have hs := Real.mul_self_sqrt hρ
    push_cast
    set r := Real.sqrt ((fftfreq s1 j : ℝ) * fftfreq s1 j + (fftfreq s0 i : ℝ) * fftfreq s0 i) with hr
    have e : Real.pi * (scale / ps) * os * r * (Real.pi * (scale / ps) * os * r)
        = Real.pi * (scale / ps) * os * (Real.pi * (scale / ps) * os) * (r * r) := by ring
    rw [e, hs]
    ring
  · simp only [smearKernel, Gen.bwSmearKernel, BlurLike.sinc, BlurLike.sin, BlurLike.cos, BlurLike.pi, RealLike.ofInt]
    congr 2
    push_cast
    ring

/-- **Hermitian symmetry on odd axes.** On an image with an odd number of rows and of columns each of the three (real)
transfer functions is even under negation of the frequency indices modulo the shape, `K[−u, −v] = K[u, v]`, i.e. Hermitian. -/
theorem transfer_functions_hermitian_odd (m n : ℕ) (hm : m % 2 = 1) (hn : n % 2 = 1) (os scale dist ang ps : ℝ) :
    KerEven (pixelKernel m n os) m n ∧ KerEven (jitterKernel m n scale ps os) m n ∧
    KerEven (smearKernel m n dist ang ps os) m n :=
  ⟨pixelKernel_even m n hm hn os, jitterKernel_even m n hm hn scale ps os, smearKernel_even m n hm hn dist ang ps os⟩

/-- **pixel and jitter are Hermitian on every shape.** The pixel kernel is even in `f_y` and `f_x` separately and the jitter kernel
depends on `f_x² + f_y²` only, so at the unpaired Nyquist sample of an even axis (where `−u ≡ u` and the frequency keeps its
value) nothing changes: `K[−u, −v] = K[u, v]` for all rows and columns, even or odd. Only the directional sinc of `smear` needs
the Nyquist allowance of the statement. -/
theorem pixel_jitter_hermitian_all_shapes (m n : ℕ) (hm : 0 < m) (hn : 0 < n) (os scale ps : ℝ) :
    KerEven (pixelKernel m n os) m n ∧ KerEven (jitterKernel m n scale ps os) m n :=
  ⟨pixelKernel_even_any m n hm hn os, jitterKernel_even_any m n hm hn scale ps os⟩

/-- zero extent (pixel width / jitter sigma / smear distance `0`) makes the transfer function identically one -/
theorem zero_extent_kernel_one (s0 s1 : ℤ) (os ang ps : ℝ) (i j : ℤ) :
    (pixelKernel s0 s1 (0 : ℝ)).get i j = 1 ∧ (jitterKernel s0 s1 0 ps os).get i j = 1 ∧
    (smearKernel s0 s1 0 ang ps os).get i j = 1 := by
  refine ⟨?_, ?_, ?_⟩
  · simp [pixelKernel, Gen.bwPixelKernel, BlurLike.sinc]
  · simp [jitterKernel, Gen.bwJitterKernel, BlurLike.exp]
  · simp [smearKernel, Gen.bwSmearKernel, BlurLike.sinc]

/-- **zero extent is the identity.** For every non-negative image — the all-zero image included — pixel width `0`, jitter
`σ = 0` and smear distance `0` return the image itself at every sample, for every shape, angle, pixel scale and oversampling.
(When the blurred frame has zero total the regenerated guard returns it un-normalised; otherwise its total is the image's,
non-zero, and the rescaling factor is 1.) -/
theorem zero_extent_identity (img : Arr ℝ) (m n : ℕ) (hm : img.s0 = m) (hn : img.s1 = n) (hm0 : 0 < m) (hn0 : 0 < n)
    (hpos : ∀ i j, 0 ≤ img.get i j) (os ang ps : ℝ) (i j : ℕ) (hi : i < m) (hj : j < n) :
    (pixel ℂ img 0).get i j = img.get i j ∧ (jitter ℂ img 0 ps os).get i j = img.get i j ∧
    (smear ℂ img 0 ang ps os).get i j = img.get i j := by
  rw [pixel_def, jitter_def, smear_def]
  have hcore : ∀ k : Arr ℝ, (∀ i j, k.get i j = 1) → ∀ i j : ℕ, i < m → j < n → (blurCore ℂ img k).get i j = img.get i j := by
    intro k hk i j hi hj
    rw [blurCore_one img k hk m n hm hn hm0 hn0 i j hi hj, abs_of_nonneg (hpos _ _)]
  have hz : ∀ k : Arr ℝ, (∀ i j, k.get i j = 1) → (renormZ img (blurCore ℂ img k)).get i j = img.get i j := by
    intro k hk
    have hsum : arrSum (blurCore ℂ img k) = arrSum img := by
      have e0 : (blurCore ℂ img k).s0 = m := hm
      have e1 : (blurCore ℂ img k).s1 = n := hn
      rw [arrSum_eq, arrSum_eq, hm, hn, e0, e1]
      simp only [Int.toNat_natCast]
      exact sum_congr rfl fun i hi => sum_congr rfl fun j hj => hcore k hk i j (mem_range.mp hi) (mem_range.mp hj)
    by_cases h0 : arrSum (blurCore ℂ img k) = 0
    · rw [renormZ_zero _ _ h0]; exact hcore k hk i j hi hj
    · rw [renormZ_ne _ _ h0]
      exact renorm_of_eq img (blurCore ℂ img k) m n hm hn hm hn (hcore k hk) (hsum ▸ h0) i j hi hj
  exact ⟨hcore _ (fun i j => (zero_extent_kernel_one _ _ os ang ps i j).1) i j hi hj,
    hz _ (fun i j => (zero_extent_kernel_one _ _ os ang ps i j).2.1), hz _ (fun i j => (zero_extent_kernel_one _ _ os ang ps i j).2.2)⟩

/-- the hypotheses are met by a non-square image with signal and by the all-zero image alike -/
example : (∃ img : Arr ℝ, (∀ i j, 0 ≤ img.get i j) ∧ arrSum img ≠ 0 ∧ img.s0 ≠ img.s1) ∧
    (∃ img : Arr ℝ, (∀ i j, 0 ≤ img.get i j) ∧ arrSum img = 0 ∧ img.s0 = 3 ∧ img.s1 = 4) :=
  ⟨⟨⟨1, 2, fun _ _ => 1⟩, fun _ _ => by norm_num, by rw [arrSum_eq]; norm_num [Finset.sum_range_succ], by norm_num⟩,
   ⟨⟨3, 4, fun _ _ => 0⟩, fun _ _ => le_refl _, by rw [arrSum_eq]; simp, rfl, rfl⟩⟩

/-- **outputs are never negative**, for every image whose total is non-negative — every non-negative image, the all-zero one
included. A blurred frame with zero total is returned as it is (`|·| ≥ 0`; the guard regenerated from the source), any other is
multiplied by `Σ img / Σ blur` with `Σ img ≥ 0` and `Σ blur > 0`: no division by zero is involved in either case. -/
theorem blur_nonneg (img : Arr ℝ) (os scale dist ang ps : ℝ) (hS : 0 ≤ arrSum img) (i j : ℤ) :
    0 ≤ (pixel ℂ img os).get i j ∧ 0 ≤ (jitter ℂ img scale ps os).get i j ∧ 0 ≤ (smear ℂ img dist ang ps os).get i j := by
  have hcore : ∀ k : Arr ℝ, ∀ i j : ℤ, 0 ≤ (blurCore ℂ img k).get i j := by
    intro k i j; rw [blurCore_def]; simp only [absArr, AbsLike.cabs]; exact norm_nonneg _
  have hsum : ∀ k : Arr ℝ, 0 ≤ arrSum (blurCore ℂ img k) := by
    intro k; rw [arrSum_eq]; exact sum_nonneg fun i _ => sum_nonneg fun j _ => hcore k i j
  have hz : ∀ k : Arr ℝ, 0 ≤ (renormZ img (blurCore ℂ img k)).get i j := by
    intro k
    by_cases h0 : arrSum (blurCore ℂ img k) = 0
    · rw [renormZ_zero _ _ h0]; exact hcore k i j
    · rw [renormZ_ne _ _ h0, renorm_get]
      exact div_nonneg (mul_nonneg (hcore _ i j) hS) (lt_of_le_of_ne (hsum k) (Ne.symm h0)).le
  rw [pixel_def, jitter_def, smear_def]
  exact ⟨hcore _ i j, hz _, hz _⟩

/-- renormalisation restores the input total whenever the un-normalised blur has non-zero total -/
theorem renorm_total (img out : Arr ℝ) (h : arrSum out ≠ 0) : arrSum (renorm img out) = arrSum img := by
  rw [arrSum_eq]
  simp only [renorm_get]
  have e0 : (renorm img out).s0 = out.s0 := rfl
  have e1 : (renorm img out).s1 = out.s1 := rfl
  rw [e0, e1]
  simp only [mul_div_assoc, ← sum_mul]
  rw [← arrSum_eq]
  field_simp

/-- **jitter and smear keep the total of every image** — every shape, extent, angle, pixel scale and oversampling, no condition on
the image (so every non-negative image, the all-zero one included). The un-normalised blur has total `≥ |Σ img|` (unit DC gain:
`Σ ifft2(fft2(img)·K) = K[0,0]·Σ img`, then the triangle inequality). If that total is zero, so is `Σ img`, and the guard
regenerated from the source returns the blurred frame, total `0 = Σ img`; otherwise the rescaling by `Σ img / Σ blur` restores
`Σ img` exactly. -/
theorem renormalised_total_preserved (img : Arr ℝ) (m n : ℕ) (hm : img.s0 = m) (hn : img.s1 = n) (hm0 : 0 < m) (hn0 : 0 < n)
    (scale dist ang ps os : ℝ) :
    arrSum (jitter ℂ img scale ps os) = arrSum img ∧ arrSum (smear ℂ img dist ang ps os) = arrSum img := by
  have hdc := kernel_dc_gain_one img.s0 img.s1 (by omega) (by omega) os scale dist ang ps
  have key : ∀ k : Arr ℝ, k.get 0 0 = 1 → arrSum (renormZ img (blurCore ℂ img k)) = arrSum img := by
    intro k hk
    have h := blurCore_total_ge img k m n hm hn hm0 hn0
    rw [hk, one_mul] at h
    by_cases h0 : arrSum (blurCore ℂ img k) = 0
    · rw [renormZ_zero _ _ h0, h0]
      rw [h0] at h
      exact (abs_eq_zero.mp (le_antisymm h (abs_nonneg _))).symm
    · rw [renormZ_ne _ _ h0]; exact renorm_total img _ h0
  rw [jitter_def, smear_def]
  exact ⟨key _ hdc.2.1, key _ hdc.2.2⟩

/-- **commutes with circular translation.** Blurring a circularly shifted image (`np.roll(img, (a, b))`) is the circular
shift of the blurred image, at every sample, for every shape, shift of either sign, extent, angle and sampling (DFT shift
theorem; holds for any real transfer function, renormalisation included). -/
theorem blur_commutes_with_roll (img : Arr ℝ) (m n : ℕ) (hm : img.s0 = m) (hn : img.s1 = n) (hm0 : 0 < m) (hn0 : 0 < n)
    (a b : ℤ) (os scale dist ang ps : ℝ) (i j : ℤ) :
    (pixel ℂ (roll img a b) os).get i j = (roll (pixel ℂ img os) a b).get i j ∧
    (jitter ℂ (roll img a b) scale ps os).get i j = (roll (jitter ℂ img scale ps os) a b).get i j ∧
    (smear ℂ (roll img a b) dist ang ps os).get i j = (roll (smear ℂ img dist ang ps os) a b).get i j := by
  have core : ∀ k : Arr ℝ, ∀ i j : ℤ,
      (blurCore ℂ (roll img a b) k).get i j = (blurCore ℂ img k).get ((i - a) % m) ((j - b) % n) :=
    fun k i j => blurCore_roll img k m n hm hn hm0 hn0 a b i j
  have hsum : ∀ k : Arr ℝ, arrSum (blurCore ℂ (roll img a b) k) = arrSum (blurCore ℂ img k) := by
    intro k
    rw [← arrSum_roll (blurCore ℂ img k) m n hm hn a b, arrSum_eq, arrSum_eq]
    have e0 : (blurCore ℂ (roll img a b) k).s0 = m := hm
    have e1 : (blurCore ℂ (roll img a b) k).s1 = n := hn
    have e2 : (roll (blurCore ℂ img k) a b).s0 = m := hm
    have e3 : (roll (blurCore ℂ img k) a b).s1 = n := hn
    rw [e0, e1, e2, e3]
    refine sum_congr rfl fun i _ => sum_congr rfl fun j _ => ?_
    rw [core k i j]
    have f0 : (blurCore ℂ img k).s0 = m := hm
    have f1 : (blurCore ℂ img k).s1 = n := hn
    rw [roll_get, f0, f1]
  have hren : ∀ k : Arr ℝ, (renormZ (roll img a b) (blurCore ℂ (roll img a b) k)).get i j
      = (roll (renormZ img (blurCore ℂ img k)) a b).get i j := by
    intro k
    by_cases h0 : arrSum (blurCore ℂ img k) = 0
    · have h0' : arrSum (blurCore ℂ (roll img a b) k) = 0 := (hsum k).trans h0
      rw [renormZ_zero _ _ h0', renormZ_zero _ _ h0]
      have f0 : (blurCore ℂ img k).s0 = m := hm
      have f1 : (blurCore ℂ img k).s1 = n := hn
      rw [roll_get, f0, f1]
      exact core k i j
    · have h0' : arrSum (blurCore ℂ (roll img a b) k) ≠ 0 := fun h => h0 ((hsum k).symm.trans h)
      rw [renormZ_ne _ _ h0', renormZ_ne _ _ h0]
      have f0 : (renorm img (blurCore ℂ img k)).s0 = m := hm
      have f1 : (renorm img (blurCore ℂ img k)).s1 = n := hn
      rw [roll_get, f0, f1]
      simp only [renorm]
      rw [hsum k, arrSum_roll img m n hm hn a b, core k i j]
  rw [jitter_def, jitter_def, smear_def, smear_def]
  refine ⟨?_, hren _, hren _⟩
  have f0 : (pixel ℂ img os).s0 = m := hm
  have f1 : (pixel ℂ img os).s1 = n := hn
  rw [roll_get, f0, f1]
  exact core _ i j

example : ∃ (a b : ℤ), a < 0 ∧ 0 < b := ⟨-3, 2, by norm_num, by norm_num⟩

open ComplexConjugate in
/-- **equals the convolution (Hermitian kernel; in particular odd × odd images).** With `c = ifft2(fft2(img)·K)` the exact
circular convolution in its Fourier form and `K` Hermitian (`KerEven`, which holds for pixel, jitter and smear on odd axes by
`transfer_functions_hermitian_odd`): `c` is real at every sample and the un-normalised output is `|c|`; if moreover `c ≥ 0`
on the image, the output equals `c` at every sample, and with unit DC gain it keeps the total, so the renormalised output
(jitter, smear) equals `c` too. No realness assumption. (Smear on even axes, where `K` is not Hermitian: `smear_even_axis_deviation`;
the spatial-domain form of `c`: `conv_is_circular_convolution`.) -/
theorem equals_convolution_when_hermitian (img k : Arr ℝ) (m n : ℕ) (hm : img.s0 = m) (hn : img.s1 = n) (hm0 : 0 < m)
    (hn0 : 0 < n) (hk : KerEven k m n) : EqualsConvolution img k m n := by
  unfold EqualsConvolution conv
  have hreal : ∀ i j : ℤ, (ifft2 (R := ℝ) (mulKernel (fft2 (R := ℝ) (toCx (K := ℂ) img)) k)).get i j
      = (((ifft2 (R := ℝ) (mulKernel (fft2 (R := ℝ) (toCx (K := ℂ) img)) k)).get i j).re : ℂ) :=
    fun i j => (Complex.conj_eq_iff_re.mp (filtered_real img k m n hm hn hm0 hn0 hk i j)).symm
  refine ⟨hreal, ?_, ?_⟩
  · intro i j
    rw [blurCore_def]
    show ‖(ifft2 (R := ℝ) (mulKernel (fft2 (R := ℝ) (toCx (K := ℂ) img)) k)).get i j‖ = _
    rw [hreal i j, Complex.norm_real, Real.norm_eq_abs, Complex.ofReal_re]
  · intro hpos
    have h := nonneg_convolution_kept img k m n hm hn hm0 hn0
      (fun i j => |((ifft2 (R := ℝ) (mulKernel (fft2 (R := ℝ) (toCx (K := ℂ) img)) k)).get i j).re|) (fun _ _ => abs_nonneg _)
      (fun i j hi hj => by rw [abs_of_nonneg (hpos i j hi hj)]; exact hreal i j)
    refine ⟨fun i j hi hj => by rw [h.1 i j hi hj, abs_of_nonneg (hpos i j hi hj)], fun hk0 => ⟨h.2 hk0, fun hS i j hi hj => ?_⟩⟩
    rw [renorm_get, h.2 hk0, h.1 i j hi hj, abs_of_nonneg (hpos i j hi hj)]
    field_simp

/-- **odd × odd images: all three blurs equal the convolution**, unconditionally in the realness: the pixel, jitter and smear
outputs are `|c|` with `c` the (real) exact circular convolution, equal to `c` wherever it is non-negative, total kept. -/
theorem blurs_equal_convolution_odd (img : Arr ℝ) (m n : ℕ) (hm : img.s0 = m) (hn : img.s1 = n) (hmo : m % 2 = 1)
    (hno : n % 2 = 1) (os scale dist ang ps : ℝ) :
    EqualsConvolution img (pixelKernel img.s0 img.s1 os) m n ∧
    EqualsConvolution img (jitterKernel img.s0 img.s1 scale ps os) m n ∧
    EqualsConvolution img (smearKernel img.s0 img.s1 dist ang ps os) m n := by
  have hm0 : 0 < m := by omega
  have hn0 : 0 < n := by omega
  have h := transfer_functions_hermitian_odd m n hmo hno os scale dist ang ps
  rw [hm, hn]
  exact ⟨equals_convolution_when_hermitian img _ m n hm hn hm0 hn0 h.1,
    equals_convolution_when_hermitian img _ m n hm hn hm0 hn0 h.2.1,
    equals_convolution_when_hermitian img _ m n hm hn hm0 hn0 h.2.2⟩

example : ∃ m n : ℕ, m % 2 = 1 ∧ n % 2 = 1 ∧ m ≠ n := ⟨3, 5, rfl, rfl, by norm_num⟩

/-- **pixel and jitter equal the convolution on every shape**, even axes included, with no realness assumption: the output is
`|c|` with `c` the real exact circular convolution, equals `c` wherever `c ≥ 0`, keeps the total (unit DC gain), and the
renormalised jitter output equals `c` too. -/
theorem pixel_jitter_equal_convolution_all_shapes (img : Arr ℝ) (m n : ℕ) (hm : img.s0 = m) (hn : img.s1 = n) (hm0 : 0 < m)
    (hn0 : 0 < n) (os scale ps : ℝ) :
    EqualsConvolution img (pixelKernel img.s0 img.s1 os) m n ∧
    EqualsConvolution img (jitterKernel img.s0 img.s1 scale ps os) m n := by
  have h := pixel_jitter_hermitian_all_shapes m n hm0 hn0 os scale ps
  rw [hm, hn]
  exact ⟨equals_convolution_when_hermitian img _ m n hm hn hm0 hn0 h.1,
    equals_convolution_when_hermitian img _ m n hm hn hm0 hn0 h.2⟩

example : ∃ m n : ℕ, m % 2 = 0 ∧ n % 2 = 0 ∧ 0 < m ∧ m ≠ n := ⟨4, 6, rfl, rfl, by norm_num, by norm_num⟩

/-- **the functions themselves return a non-negative convolution unchanged.** Stated about `pixel`, `jitter`, `smear` as the sources
compose them — renormalisation and zero-total guard included — not about the un-normalised core: whenever the exact circular
convolution `c = conv img K` with the function's transfer function is non-negative on the image, the output *is* `c` at every
sample; pixel and jitter on every shape, smear on odd × odd shapes (`hodd`). Every image is covered, the all-zero one included
(there `c = 0` and the guard returns the zero frame). Totals: `renormalised_total_preserved`. -/
theorem blurs_return_nonneg_convolution (img : Arr ℝ) (m n : ℕ) (hm : img.s0 = m) (hn : img.s1 = n) (hm0 : 0 < m) (hn0 : 0 < n)
    (os scale dist ang ps : ℝ) :
    ((∀ i j : ℕ, i < m → j < n → 0 ≤ ((conv img (pixelKernel img.s0 img.s1 os)).get i j).re) →
      ∀ i j : ℕ, i < m → j < n → (pixel ℂ img os).get i j = ((conv img (pixelKernel img.s0 img.s1 os)).get i j).re) ∧
    ((∀ i j : ℕ, i < m → j < n → 0 ≤ ((conv img (jitterKernel img.s0 img.s1 scale ps os)).get i j).re) →
      ∀ i j : ℕ, i < m → j < n →
        (jitter ℂ img scale ps os).get i j = ((conv img (jitterKernel img.s0 img.s1 scale ps os)).get i j).re) ∧
    (m % 2 = 1 → n % 2 = 1 →
      (∀ i j : ℕ, i < m → j < n → 0 ≤ ((conv img (smearKernel img.s0 img.s1 dist ang ps os)).get i j).re) →
      ∀ i j : ℕ, i < m → j < n →
        (smear ℂ img dist ang ps os).get i j = ((conv img (smearKernel img.s0 img.s1 dist ang ps os)).get i j).re) := by
  have hdc := kernel_dc_gain_one img.s0 img.s1 (by omega) (by omega) os scale dist ang ps
  have key : ∀ k : Arr ℝ, EqualsConvolution img k m n → k.get 0 0 = 1 →
      (∀ i j : ℕ, i < m → j < n → 0 ≤ ((conv img k).get i j).re) →
      ∀ i j : ℕ, i < m → j < n → (renormZ img (blurCore ℂ img k)).get i j = ((conv img k).get i j).re := by
    intro k hE hk hnn i j hi hj
    obtain ⟨hb, ht⟩ := hE.2.2 hnn
    by_cases h0 : arrSum (blurCore ℂ img k) = 0
    · rw [renormZ_zero _ _ h0]; exact hb i j hi hj
    · rw [renormZ_ne _ _ h0]
      exact (ht hk).2 (by rw [← (ht hk).1]; exact h0) i j hi hj
  have hpj := pixel_jitter_equal_convolution_all_shapes img m n hm hn hm0 hn0 os scale ps
  refine ⟨fun hnn i j hi hj => ?_, fun hnn i j hi hj => ?_, fun hmo hno hnn i j hi hj => ?_⟩
  · rw [pixel_def]; exact (hpj.1.2.2 hnn).1 i j hi hj
  · rw [jitter_def]; exact key _ hpj.2 hdc.2.1 hnn i j hi hj
  · rw [smear_def]
    exact key _ (blurs_equal_convolution_odd img m n hm hn hmo hno os scale dist ang ps).2.2 hdc.2.2 hnn i j hi hj

/-- the hypothesis is satisfiable on an image with signal (1 × 1, where the convolution is the image itself) -/
example : ∃ img : Arr ℝ, img.s0 = 1 ∧ img.s1 = 1 ∧ 0 < arrSum img ∧
    ∀ i j : ℕ, i < 1 → j < 1 → 0 ≤ ((conv img (jitterKernel img.s0 img.s1 (0.7 : ℝ) 1 2)).get i j).re := by
  refine ⟨⟨1, 1, fun _ _ => 1⟩, rfl, rfl, by rw [arrSum_eq]; simp, fun i j hi hj => ?_⟩
  have hi0 : i = 0 := by omega
  have hj0 : j = 0 := by omega
  subst hi0 hj0
  have hk := (kernel_dc_gain_one 1 1 le_rfl le_rfl (2 : ℝ) 0.7 0 0 1).2.1
  unfold conv
  rw [ifft2_get_eq _ 1 1 rfl rfl]
  have hf : ∀ k l : ℤ, (fft2 (R := ℝ) (toCx (K := ℂ) (⟨1, 1, fun _ _ => 1⟩ : Arr ℝ))).get k l = 1 := by
    intro k l
    rw [fft2_get_eq (toCx (K := ℂ) (⟨1, 1, fun _ _ => 1⟩ : Arr ℝ)) 1 1 rfl rfl]
    simp [fker_eq, E_zero, toCx, CxLike.ofReal]
  simp [mulKernel, hf, fker_eq, E_zero, hk, CxLike.ofReal]

/-- **convolution theorem: the Fourier form is the spatial circular convolution.** `conv img K = ifft2(fft2(img)·K)` — the object
the "equals the convolution" theorems speak about — is `Σ_a Σ_b img[a,b]·h[(i−a) mod m, (j−b) mod n]` with the point-spread
function `h = ifft2(K)`, for every shape and every real transfer function (`np.fft.fft2/ifft2` as the plain DFT pair). -/
theorem conv_is_circular_convolution (img k : Arr ℝ) (m n : ℕ) (hm : img.s0 = m) (hn : img.s1 = n) (hkm : k.s0 = m) (hkn : k.s1 = n)
    (hm0 : 0 < m) (hn0 : 0 < n) (i j : ℤ) :
    (conv img k).get i j = ∑ a ∈ range m, ∑ b ∈ range n, (img.get a b : ℂ) *
      (ifft2 (R := ℝ) (toCx (K := ℂ) k)).get ((i - a) % m) ((j - b) % n) :=
  conv_eq_circular_convolution img k m n hm hn hkm hkn hm0 hn0 i j

/-- **smear on even axes: the deviation is bounded by the unpaired Nyquist samples.** Split the directional sinc into its
Hermitian (even) part `K_H` and its odd part `K_N` under negation of the frequency indices. Then at every sample the
un-normalised smear output differs from `|c_H|` — `c_H = conv img K_H` is real — by at most `(1/(mn))·Σ|fft2(img)|·|K_N|`, and
`K_N` vanishes off the Nyquist row (`2u = m`) and Nyquist column (`2v = n`): on odd × odd images it is zero and the bound is 0;
on even axes it is exactly the contribution of the unpaired Nyquist row/column the statement allows. -/
theorem smear_even_axis_deviation (img : Arr ℝ) (m n : ℕ) (hm : img.s0 = m) (hn : img.s1 = n) (hm0 : 0 < m) (hn0 : 0 < n)
    (dist ang ps os : ℝ) (i j : ℤ) :
    (conv img (evenPart (smearKernel m n dist ang ps os) m n)).get i j
      = (((conv img (evenPart (smearKernel m n dist ang ps os) m n)).get i j).re : ℂ) ∧
    abs ((blurCore ℂ img (smearKernel m n dist ang ps os)).get i j
        - abs ((conv img (evenPart (smearKernel m n dist ang ps os) m n)).get i j).re)
      ≤ (∑ v ∈ range n, ∑ u ∈ range m, ‖(fft2 (R := ℝ) (toCx (K := ℂ) img)).get u v‖
          * |(oddPart (smearKernel m n dist ang ps os) m n).get u v|) / ((m : ℝ) * n) ∧
    (∀ u v : ℤ, 2 * (u % (m : ℤ)) ≠ m → 2 * (v % (n : ℤ)) ≠ n → (oddPart (smearKernel m n dist ang ps os) m n).get u v = 0) := by
  have h := blur_deviation_le img (smearKernel m n dist ang ps os) m n hm hn hm0 hn0 i j
  exact ⟨h.1, h.2, fun u v hu hv => smear_oddPart_support m n hm0 hn0 dist ang ps os u v hu hv⟩

/-- **the bound survives the renormalisation.** For an image with non-negative total the renormalised smear output `blur·Σimg/Σblur`
differs from the equally renormalised `|c_H|` by at most the same Nyquist-line bound: the factor `Σimg/Σblur` lies in `[0, 1]`
(`Σblur ≥ Σimg` by unit DC gain and the triangle inequality). -/
theorem smear_renormalised_deviation (img : Arr ℝ) (m n : ℕ) (hm : img.s0 = m) (hn : img.s1 = n) (hm0 : 0 < m) (hn0 : 0 < n)
    (hS : 0 < arrSum img) (dist ang ps os : ℝ) (i j : ℤ) :
    abs ((smear ℂ img dist ang ps os).get i j
        - abs ((conv img (evenPart (smearKernel m n dist ang ps os) m n)).get i j).re
          * (arrSum img / arrSum (blurCore ℂ img (smearKernel m n dist ang ps os))))
      ≤ (∑ v ∈ range n, ∑ u ∈ range m, ‖(fft2 (R := ℝ) (toCx (K := ℂ) img)).get u v‖
          * |(oddPart (smearKernel m n dist ang ps os) m n).get u v|) / ((m : ℝ) * n) := by
  have hdev := (smear_even_axis_deviation img m n hm hn hm0 hn0 dist ang ps os i j).2.1
  have hdc := (kernel_dc_gain_one m n (by omega) (by omega) os 0 dist ang ps).2.2
  have hT := blurCore_total_ge img (smearKernel m n dist ang ps os) m n hm hn hm0 hn0
  rw [hdc, one_mul, abs_of_pos hS] at hT
  have hTpos : 0 < arrSum (blurCore ℂ img (smearKernel m n dist ang ps os)) := lt_of_lt_of_le hS hT
  have hfac0 : 0 ≤ arrSum img / arrSum (blurCore ℂ img (smearKernel m n dist ang ps os)) := div_nonneg hS.le hTpos.le
  have hfac1 : arrSum img / arrSum (blurCore ℂ img (smearKernel m n dist ang ps os)) ≤ 1 := (div_le_one hTpos).mpr hT
  have hget : (smear ℂ img dist ang ps os).get i j
      = (blurCore ℂ img (smearKernel m n dist ang ps os)).get i j
        * (arrSum img / arrSum (blurCore ℂ img (smearKernel m n dist ang ps os))) := by
    rw [smear_def, hm, hn, renormZ_ne _ _ hTpos.ne', renorm_get, mul_div_assoc]
  rw [hget, ← sub_mul, abs_mul, abs_of_nonneg hfac0]
  calc _ ≤ abs ((blurCore ℂ img (smearKernel m n dist ang ps os)).get i j
          - abs ((conv img (evenPart (smearKernel m n dist ang ps os) m n)).get i j).re) * 1 :=
        mul_le_mul_of_nonneg_left hfac1 (abs_nonneg _)
    _ ≤ _ := by rw [mul_one]; exact hdev

/-- **the even-axis deviation is at most the image's content on the Nyquist row and column.** At every sample the smear output —
un-normalised, and renormalised for an image of positive total — differs from (the equally renormalised) `|c_H|` by at most
`(1/(mn))·Σ_{2u = m or 2v = n} |fft2(img)[u, v]|`: only the image's own spectrum on the unpaired lines enters, whatever the smear
distance and angle. -/
theorem smear_deviation_le_nyquist_lines (img : Arr ℝ) (m n : ℕ) (hm : img.s0 = m) (hn : img.s1 = n) (hm0 : 0 < m) (hn0 : 0 < n)
    (dist ang ps os : ℝ) (i j : ℤ) :
    abs ((blurCore ℂ img (smearKernel m n dist ang ps os)).get i j
        - abs ((conv img (evenPart (smearKernel m n dist ang ps os) m n)).get i j).re)
      ≤ (∑ v ∈ range n, ∑ u ∈ range m,
          if 2 * u = m ∨ 2 * v = n then ‖(fft2 (R := ℝ) (toCx (K := ℂ) img)).get u v‖ else 0) / ((m : ℝ) * n) ∧
    (0 < arrSum img →
      abs ((smear ℂ img dist ang ps os).get i j
          - abs ((conv img (evenPart (smearKernel m n dist ang ps os) m n)).get i j).re
            * (arrSum img / arrSum (blurCore ℂ img (smearKernel m n dist ang ps os))))
        ≤ (∑ v ∈ range n, ∑ u ∈ range m,
            if 2 * u = m ∨ 2 * v = n then ‖(fft2 (R := ℝ) (toCx (K := ℂ) img)).get u v‖ else 0) / ((m : ℝ) * n)) :=
  ⟨(smear_even_axis_deviation img m n hm hn hm0 hn0 dist ang ps os i j).2.1.trans
      (nyquist_bound_le_lines img m n hm0 hn0 dist ang ps os),
   fun hS => (smear_renormalised_deviation img m n hm hn hm0 hn0 hS dist ang ps os i j).trans
      (nyquist_bound_le_lines img m n hm0 hn0 dist ang ps os)⟩

/-- **a Nyquist-free image is smeared exactly.** If the image spectrum vanishes on the Nyquist row (`2u = m`, present when `m` is
even) and the Nyquist column (`2v = n`), then on every shape — even axes included — the un-normalised smear output equals
`|c_H|`, the modulus of the real circular convolution with the Hermitian part of the directional sinc, at every sample; and for
an image of positive total the renormalised output equals the equally renormalised `|c_H|`. (Odd × odd images satisfy the
hypothesis vacuously: `blurs_equal_convolution_odd`.) -/
theorem smear_exact_when_nyquist_free (img : Arr ℝ) (m n : ℕ) (hm : img.s0 = m) (hn : img.s1 = n) (hm0 : 0 < m) (hn0 : 0 < n)
    (dist ang ps os : ℝ)
    (hfree : ∀ u v : ℕ, u < m → v < n → (2 * u = m ∨ 2 * v = n) → (fft2 (R := ℝ) (toCx (K := ℂ) img)).get u v = 0) (i j : ℤ) :
    (blurCore ℂ img (smearKernel m n dist ang ps os)).get i j
      = abs ((conv img (evenPart (smearKernel m n dist ang ps os) m n)).get i j).re ∧
    (0 < arrSum img →
      (smear ℂ img dist ang ps os).get i j
        = abs ((conv img (evenPart (smearKernel m n dist ang ps os) m n)).get i j).re
          * (arrSum img / arrSum (blurCore ℂ img (smearKernel m n dist ang ps os)))) := by
  have h := smear_deviation_le_nyquist_lines img m n hm hn hm0 hn0 dist ang ps os i j
  have hz : (∑ v ∈ range n, ∑ u ∈ range m,
      if 2 * u = m ∨ 2 * v = n then ‖(fft2 (R := ℝ) (toCx (K := ℂ) img)).get u v‖ else 0) = 0 := by
    refine sum_eq_zero fun v hv => sum_eq_zero fun u hu => ?_
    split_ifs with hny
    · rw [hfree u v (mem_range.mp hu) (mem_range.mp hv) hny, norm_zero]
    · rfl
  rw [hz, zero_div] at h
  exact ⟨sub_eq_zero.mp (abs_nonpos_iff.mp h.1), fun hS => sub_eq_zero.mp (abs_nonpos_iff.mp (h.2 hS))⟩

/-- non-vacuity on an even axis: the constant 2 × 1 image has no content on its Nyquist row -/
example : ∃ img : Arr ℝ, img.s0 = 2 ∧ img.s1 = 1 ∧ 0 < arrSum img ∧
    ∀ u v : ℕ, u < 2 → v < 1 → (2 * u = 2 ∨ 2 * v = 1) → (fft2 (R := ℝ) (toCx (K := ℂ) img)).get u v = 0 := by
  refine ⟨⟨2, 1, fun _ _ => 1⟩, rfl, rfl, by rw [arrSum_eq]; simp, fun u v hu hv h => ?_⟩
  have hu1 : u = 1 := by omega
  have hv0 : v = 0 := by omega
  subst hu1 hv0
  rw [fft2_get_eq _ 2 1 rfl rfl]
  simp only [fker_eq, toCx, CxLike.ofReal, sum_range_succ, sum_range_zero]
  have h1 : E 2 1 = -1 := by
    unfold E
    have : -(2 * (Real.pi : ℂ) * Complex.I) * ((1 : ℤ) : ℂ) / ((2 : ℕ) : ℂ) = -(Real.pi * Complex.I) := by push_cast; ring
    rw [this, Complex.exp_neg, Complex.exp_pi_mul_I]; norm_num
  norm_num [E_zero, h1]

/-- **`smear(angle=None)` is the smear along the drawn direction.** The `angle is None` branch (regenerated from the source) uses the
draw `uniform(0, 2π) = 2π·u` of the global generator *as radians*; it is exactly `smear` with the given angle `360·u` degrees — so
the random direction covers the full turn and no degree/radian conversion is applied twice or missed. -/
theorem smear_none_is_smear_at_drawn_angle (img : Arr ℝ) (dist ps os u : ℝ) :
    smearNone ℂ img dist ps os u = smear ℂ img dist (360 * u) ps os := by
  have hk : smearKernelNone (R := ℝ) img.s0 img.s1 dist ps os u = smearKernel img.s0 img.s1 dist (360 * u) ps os := by
    unfold smearKernelNone smearKernel
    congr 1
    funext i j
    simp only [Gen.bwSmearKernelNone, Gen.bwSmearKernel, RealLike.ofInt, BlurLike.pi]
    have e : ((0 : ℤ) : ℝ) + (((2 : ℤ) : ℝ) * Real.pi - ((0 : ℤ) : ℝ)) * u = 360 * u * (Real.pi / ((180 : ℤ) : ℝ)) := by
      push_cast; ring
    rw [e]
  unfold smearNone smear
  rw [hk]

/-- **`smear(angle=None)` has the properties of `smear`.** Whatever direction the global generator draws (`u ∈ ℝ`, in particular every
`u ∈ [0, 1)`): the output is non-negative for every image of non-negative total, keeps the total of every image, and commutes
with circular translation — `smear_none_is_smear_at_drawn_angle` composed with `blur_nonneg`, `renormalised_total_preserved`,
`blur_commutes_with_roll`. -/
theorem smear_none_nonneg_total_roll (img : Arr ℝ) (m n : ℕ) (hm : img.s0 = m) (hn : img.s1 = n) (hm0 : 0 < m) (hn0 : 0 < n)
    (dist ps os u : ℝ) (a b i j : ℤ) :
    (0 ≤ arrSum img → 0 ≤ (smearNone ℂ img dist ps os u).get i j) ∧
    arrSum (smearNone ℂ img dist ps os u) = arrSum img ∧
    (smearNone ℂ (roll img a b) dist ps os u).get i j = (roll (smearNone ℂ img dist ps os u) a b).get i j := by
  rw [smear_none_is_smear_at_drawn_angle, smear_none_is_smear_at_drawn_angle]
  exact ⟨fun hS => (blur_nonneg img os 0 dist (360 * u) ps hS i j).2.2,
    (renormalised_total_preserved img m n hm hn hm0 hn0 0 dist (360 * u) ps os).2,
    (blur_commutes_with_roll img m n hm hn hm0 hn0 a b os 0 dist (360 * u) ps i j).2.2⟩

/-- **`pixelate` = `pixel` then `rescale` by `1/oversample`**: the wiring regenerated from `detector.pixelate` gives the output
shape `(⌈s0/os⌉, ⌈s1/os⌉)` and calls the rescale with spline order 3, mode `nearest`, `unitary=True` (the interpolation itself —
`scipy.ndimage.map_coordinates` — is not modelled; total and values are evaluated by the oracle). -/
theorem pixelate_wiring (s0 s1 : ℤ) (os : ℝ) :
    pixelateShape (R := ℝ) Int.ceil s0 s1 os = (Int.ceil ((s0 : ℝ) / os), Int.ceil ((s1 : ℝ) / os)) ∧
    Gen.bwPixelateOrder = 3 ∧ Gen.bwPixelateModeNearest = true ∧ Gen.bwPixelateUnitary = true := by
  refine ⟨?_, rfl, rfl, rfl⟩
  simp only [pixelateShape, Gen.bwPixelateScale, RealLike.ofInt, Int.cast_one, mul_one_div]

/-- **the blur does not depend on the size of the physical unit.** Expressing the extent and the pixel scale in any other unit
(both multiplied by `k ≠ 0`: metres, nanometres, radians, milli-arcseconds) gives exactly the same output — in particular a
multi-pixel jitter given in nano-scale units is not "close to zero". -/
theorem blur_unit_invariant (img : Arr ℝ) (extent ang ps os k : ℝ) (hk : k ≠ 0) :
    jitter ℂ img (k * extent) (k * ps) os = jitter ℂ img extent ps os ∧
    smear ℂ img (k * extent) ang (k * ps) os = smear ℂ img extent ang ps os := by
  constructor
  · have hker : jitterKernel (R := ℝ) img.s0 img.s1 (k * extent) (k * ps) os = jitterKernel img.s0 img.s1 extent ps os := by
      unfold jitterKernel; congr 1; funext i j; simp only [Gen.bwJitterKernel, mul_div_mul_left _ _ hk]
    rw [jitter_def, jitter_def, hker]
  · have hker : smearKernel (R := ℝ) img.s0 img.s1 (k * extent) ang (k * ps) os = smearKernel img.s0 img.s1 extent ang ps os := by
      unfold smearKernel; congr 1; funext i j; simp only [Gen.bwSmearKernel, mul_div_mul_left _ _ hk]
    rw [smear_def, smear_def, hker]

/-- only `extent / pixelscale · oversample` enters: an extent in physical units with a pixel scale and an oversampling
factor is the same blur as that extent expressed in samples -/
theorem physical_units_equivalent (img : Arr ℝ) (extent ang ps os : ℝ) :
    jitter ℂ img extent ps os = jitter ℂ img (extent / ps * os) 1 1 ∧
    smear ℂ img extent ang ps os = smear ℂ img (extent / ps * os) ang 1 1 := by
  constructor
  · have hk : jitterKernel (R := ℝ) img.s0 img.s1 extent ps os = jitterKernel img.s0 img.s1 (extent / ps * os) 1 1 := by
      unfold jitterKernel; congr 1; funext i j; simp only [Gen.bwJitterKernel, div_one, mul_one, mul_assoc]
    rw [jitter_def, jitter_def, hk]
  · have hk : smearKernel (R := ℝ) img.s0 img.s1 extent ang ps os = smearKernel img.s0 img.s1 (extent / ps * os) ang 1 1 := by
      unfold smearKernel; congr 1; funext i j; simp only [Gen.bwSmearKernel, div_one, mul_one, mul_assoc]
    rw [smear_def, smear_def, hk]

/-- **"the same extent expressed in samples" is the call that omits `pixelscale` and `oversample`.** With the default arguments as
regenerated from the signatures of `jitter` / `smear` (`Gen.bwJitterDefaultPixelscale`, `…DefaultOversample`, …): a blur whose extent
is given in physical units with a pixel scale and an oversampling factor equals the call that passes `extent / pixelscale · oversample`
and nothing else; and `pixel(img)` is `pixel(img, 1)`. A changed default (say `oversample=2`) makes this false and the proof stops. -/
theorem samples_call_is_default_call (img : Arr ℝ) (extent ang ps os : ℝ) :
    jitter ℂ img extent ps os = jitterDefault ℂ img (extent / ps * os) ∧
    smear ℂ img extent ang ps os = smearDefault ℂ img (extent / ps * os) ang ∧
    pixelDefault ℂ img = pixel ℂ img 1 := by
  obtain ⟨hj, hs⟩ := physical_units_equivalent img extent ang ps os
  refine ⟨?_, ?_, ?_⟩
  · rw [hj]; simp [jitterDefault, Gen.bwJitterDefaultPixelscale, Gen.bwJitterDefaultOversample, RealLike.ofInt]
  · rw [hs]; simp [smearDefault, Gen.bwSmearDefaultPixelscale, Gen.bwSmearDefaultOversample, RealLike.ofInt]
  · simp [pixelDefault, Gen.bwPixelDefaultOversample, RealLike.ofInt]

end Lentil.C19
