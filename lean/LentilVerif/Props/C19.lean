import LentilVerif.Lemmas.Blur
/-! # C19 — pixel, jitter and smear blurs are flux-preserving convolutions on any shape

Property theorems only. Model: `Model/Blur.lean`, instantiated at `K = ℂ`, `R = ℝ`. -/
namespace Lentil.C19
open Lentil Finset

/-- kernels and outputs have the image's shape, for every shape (square or not) -/
theorem kernel_shape_eq_image_shape (img : Arr ℝ) (os scale dist ang ps : ℝ) :
    ((pixelKernel img.s0 img.s1 os).s0 = img.s0 ∧ (pixelKernel img.s0 img.s1 os).s1 = img.s1) ∧
    ((jitterKernel img.s0 img.s1 scale ps os).s0 = img.s0 ∧ (jitterKernel img.s0 img.s1 scale ps os).s1 = img.s1) ∧
    ((smearKernel img.s0 img.s1 dist ang ps os).s0 = img.s0 ∧ (smearKernel img.s0 img.s1 dist ang ps os).s1 = img.s1) ∧
    ((pixel ℂ img os).s0 = img.s0 ∧ (pixel ℂ img os).s1 = img.s1) ∧
    ((jitter ℂ img scale ps os).s0 = img.s0 ∧ (jitter ℂ img scale ps os).s1 = img.s1) ∧
    ((smear ℂ img dist ang ps os).s0 = img.s0 ∧ (smear ℂ img dist ang ps os).s1 = img.s1) :=
  ⟨⟨rfl, rfl⟩, ⟨rfl, rfl⟩, ⟨rfl, rfl⟩, ⟨rfl, rfl⟩, ⟨rfl, rfl⟩, ⟨rfl, rfl⟩⟩

/-- every transfer function has unit gain at zero frequency (index `(0,0)`), whatever the extent, angle and sampling -/
theorem kernel_dc_gain_one (s0 s1 : ℤ) (h0 : 1 ≤ s0) (h1 : 1 ≤ s1) (os scale dist ang ps : ℝ) :
    (pixelKernel s0 s1 os).get 0 0 = 1 ∧ (jitterKernel s0 s1 scale ps os).get 0 0 = 1 ∧
    (smearKernel s0 s1 dist ang ps os).get 0 0 = 1 := by
  refine ⟨?_, ?_, ?_⟩
  · simp [pixelKernel, fftfreq_zero, h0, h1, BlurLike.sinc]
  · simp [jitterKernel, fftfreq_zero, h0, h1, BlurLike.exp, RealLike.sqrt]
  · simp [smearKernel, fftfreq_zero, h0, h1, BlurLike.sinc]

/-- zero extent (pixel width / jitter sigma / smear distance `0`) makes the transfer function identically one -/
theorem zero_extent_kernel_one (s0 s1 : ℤ) (os ang ps : ℝ) (i j : ℤ) :
    (pixelKernel s0 s1 (0 : ℝ)).get i j = 1 ∧ (jitterKernel s0 s1 0 ps os).get i j = 1 ∧
    (smearKernel s0 s1 0 ang ps os).get i j = 1 := by
  refine ⟨?_, ?_, ?_⟩
  · simp [pixelKernel, BlurLike.sinc]
  · simp [jitterKernel, BlurLike.exp]
  · simp [smearKernel, BlurLike.sinc]

/-- outputs are never negative (for jitter and smear: on images with non-negative total) -/
theorem blur_nonneg (img : Arr ℝ) (os scale dist ang ps : ℝ) (hS : 0 ≤ arrSum img) (i j : ℤ) :
    0 ≤ (pixel ℂ img os).get i j ∧ 0 ≤ (jitter ℂ img scale ps os).get i j ∧ 0 ≤ (smear ℂ img dist ang ps os).get i j := by
  have hcore : ∀ k : Arr ℝ, ∀ i j : ℤ, 0 ≤ (blurCore ℂ img k).get i j := by
    intro k i j; simp only [blurCore, absArr, AbsLike.cabs]; exact norm_nonneg _
  have hsum : ∀ k : Arr ℝ, 0 ≤ arrSum (blurCore ℂ img k) := by
    intro k; rw [arrSum_eq]; exact sum_nonneg fun i _ => sum_nonneg fun j _ => hcore k i j
  refine ⟨hcore _ i j, ?_, ?_⟩
  · simp only [jitter, renorm]; exact div_nonneg (mul_nonneg (hcore _ i j) hS) (hsum _)
  · simp only [smear, renorm]; exact div_nonneg (mul_nonneg (hcore _ i j) hS) (hsum _)

/-- the renormalised output keeps the input total whenever the un-normalised blur has non-zero total -/
theorem renormalised_total_preserved_partial (img out : Arr ℝ) (h : arrSum out ≠ 0) :
    arrSum (renorm img out) = arrSum img := by
  rw [arrSum_eq]
  simp only [renorm]
  simp only [mul_div_assoc, ← sum_mul]
  rw [← arrSum_eq]
  field_simp

/-- only `extent / pixelscale · oversample` enters: an extent in physical units with a pixel scale and an oversampling
factor is the same blur as that extent expressed in samples -/
theorem physical_units_equivalent (img : Arr ℝ) (extent ang ps os : ℝ) :
    jitter ℂ img extent ps os = jitter ℂ img (extent / ps * os) 1 1 ∧
    smear ℂ img extent ang ps os = smear ℂ img (extent / ps * os) ang 1 1 := by
  constructor
  · simp only [jitter, jitterKernel, div_one, mul_one, mul_assoc]
  · simp only [smear, smearKernel, div_one, mul_one, mul_assoc]

end Lentil.C19
