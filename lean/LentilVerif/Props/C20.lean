import LentilVerif.Lemmas.Geometry
import LentilVerif.Lemmas.GeometrySums
import LentilVerif.Lemmas.GeometryShapes
import LentilVerif.Lemmas.GeometryHex
import LentilVerif.Lemmas.GeometryCentroid
import Mathlib.Analysis.SpecialFunctions.Trigonometric.Basic
/-! # C20 — array geometry helpers share one centre convention (index ⌊n/2⌋)

Property theorems only (helper lemmas live in `Lemmas/Geometry*.lean`). The index arithmetic of `util.pad` (2-D and cube
specialisations), `util.subarray`, `helper.boundary_slice`, `helper.slice_offset` and the hex-grid tables are the
*generated* kernel (`Gen.*`, re-translated from the source on every run); the array plumbing is `Model/Geometry.lean`.

Not proved here (checked on the real code by the oracle of tools/harness/c20.py only): segments are of equal area up to edge
sampling. Non-overlap for `seg_gap > 0` and border clearance for `pad ≥ 2` are proved on the real-valued model
(`hex_disjoint_pos_gap`, `hex_clear_of_border`); float rounding of the edge test is covered by the oracle only. -/
namespace Lentil.C20
open Lentil Finset
variable {K : Type}

/-! ## zero-padding / cropping -/

/-- the copy `padded[rmin1:rmax1, cmin1:cmax1] = array[rmin0:rmax0, cmin0:cmax0]` never leaves either array and both
slices have the same shape (so NumPy neither wraps a negative index, nor clips, nor refuses), 2-D arrays and cubes -/
theorem pad_slices_in_bounds (d m0 m1 S0 S1 : Int) (hm : 0 ≤ m0 ∧ 0 ≤ m1) (hS : 0 ≤ S0 ∧ 0 ≤ S1) :
    Gen.padIdx3 d m0 m1 S0 S1 = Gen.padIdx2 m0 m1 S0 S1 ∧
    (let ix := Gen.padIdx2 m0 m1 S0 S1
     (0 ≤ ix.1.1 ∧ ix.1.1 ≤ ix.1.2.1 ∧ ix.1.2.1 ≤ m0 ∧ 0 ≤ ix.1.2.2.1 ∧ ix.1.2.2.1 ≤ ix.1.2.2.2 ∧ ix.1.2.2.2 ≤ m1) ∧
     (0 ≤ ix.2.1 ∧ ix.2.1 ≤ ix.2.2.1 ∧ ix.2.2.1 ≤ S0 ∧ 0 ≤ ix.2.2.2.1 ∧ ix.2.2.2.1 ≤ ix.2.2.2.2 ∧ ix.2.2.2.2 ≤ S1) ∧
     ix.1.2.1 - ix.1.1 = ix.2.2.1 - ix.2.1 ∧ ix.1.2.2.2 - ix.1.2.2.1 = ix.2.2.2.2 - ix.2.2.2.1) := by
  refine ⟨by rw [padIdx3_eq, padIdx2_eq], ?_⟩
  rw [padIdx2_eq]
  have r := padAxis_bounds m0 S0 hm.1 hS.1
  have c := padAxis_bounds m1 S1 hm.2 hS.2
  simp only
  omega

/-- **pad keeps the origin** (2-D, every mix of growing/shrinking axes and parities): the result is the source placed on
the infinite zero plane with its sample `⌊m/2⌋` at the origin, read back with the origin at index `⌊S/2⌋` — every copied
sample keeps its coordinate relative to the origin, everything else is zero -/
theorem pad_keeps_origin [Zero K] (a : Arr K) (S0 S1 i j : Int) (h0 : 0 ≤ a.s0) (h1 : 0 ≤ a.s1)
    (hi : 0 ≤ i ∧ i < S0) (hj : 0 ≤ j ∧ j < S1) :
    (pad2 a S0 S1).get i j = a.centred (i - S0 / 2) (j - S1 / 2) := by
  obtain ⟨r1, r2⟩ := padAxis_centre a.s0 S0 i h0 hi.1 hi.2
  obtain ⟨c1, c2⟩ := padAxis_centre a.s1 S1 j h1 hj.1 hj.2
  unfold pad2 Arr.centred
  rw [padIdx2_eq]
  simp only
  rw [r1, c1]
  by_cases g : (inWin 0 a.s0 (i - S0 / 2 + a.s0 / 2) && inWin 0 a.s1 (j - S1 / 2 + a.s1 / 2)) = true
  · have g' := g
    rw [Bool.and_eq_true] at g'
    rw [← r1] at g'; rw [← c1] at g'
    simp only [g, if_true]
    rw [r2 g'.1, c2 g'.2]
  · simp only [g]; rfl

/-- in particular the origin sample `[⌊m0/2⌋, ⌊m1/2⌋]` of a non-empty source lands on `[⌊S0/2⌋, ⌊S1/2⌋]` -/
theorem pad_origin_sample [Zero K] (a : Arr K) (S0 S1 : Int) (h0 : 0 < a.s0) (h1 : 0 < a.s1) (hS0 : 0 < S0) (hS1 : 0 < S1) :
    (pad2 a S0 S1).get (S0 / 2) (S1 / 2) = a.get (a.s0 / 2) (a.s1 / 2) := by
  rw [pad_keeps_origin a S0 S1 _ _ (by omega) (by omega) (by omega) (by omega)]
  unfold Arr.centred
  have g0 : inWin 0 a.s0 (S0 / 2 - S0 / 2 + a.s0 / 2) = true := (inWin_iff ..).2 (by omega)
  have g1 : inWin 0 a.s1 (S1 / 2 - S1 / 2 + a.s1 / 2) = true := (inWin_iff ..).2 (by omega)
  simp only [g0, g1, Bool.and_self, if_true]
  congr 1 <;> omega

/-- the same for cubes (`array.ndim == 3`, slices along the first axis, possibly non-square): every slice is padded like a
2-D array and the depth is kept -/
theorem pad3_keeps_origin [Zero K] (a : Cube K) (S0 S1 k i j : Int) (h0 : 0 ≤ a.s0) (h1 : 0 ≤ a.s1)
    (hi : 0 ≤ i ∧ i < S0) (hj : 0 ≤ j ∧ j < S1) :
    (pad3 a S0 S1).d = a.d ∧ (pad3 a S0 S1).s0 = S0 ∧ (pad3 a S0 S1).s1 = S1 ∧
    (pad3 a S0 S1).get k i j = a.centred k (i - S0 / 2) (j - S1 / 2) := by
  refine ⟨rfl, rfl, rfl, ?_⟩
  obtain ⟨r1, r2⟩ := padAxis_centre a.s0 S0 i h0 hi.1 hi.2
  obtain ⟨c1, c2⟩ := padAxis_centre a.s1 S1 j h1 hj.1 hj.2
  unfold pad3 Cube.centred
  rw [padIdx3_eq]
  simp only
  rw [r1, c1]
  by_cases g : (inWin 0 a.s0 (i - S0 / 2 + a.s0 / 2) && inWin 0 a.s1 (j - S1 / 2 + a.s1 / 2)) = true
  · have g' := g
    rw [Bool.and_eq_true] at g'
    rw [← r1] at g'; rw [← c1] at g'
    simp only [g, if_true]
    rw [r2 g'.1, c2 g'.2]
  · simp only [g]; rfl

/-- **padding then cropping back is the identity** -/
theorem pad_crop_identity [Zero K] (a : Arr K) (S0 S1 i j : Int) (hS0 : a.s0 ≤ S0) (hS1 : a.s1 ≤ S1)
    (hi : 0 ≤ i ∧ i < a.s0) (hj : 0 ≤ j ∧ j < a.s1) :
    (pad2 (pad2 a S0 S1) a.s0 a.s1).get i j = a.get i j := by
  rw [pad_keeps_origin (pad2 a S0 S1) a.s0 a.s1 i j (show 0 ≤ S0 by omega) (show 0 ≤ S1 by omega) hi hj]
  unfold Arr.centred
  have g0 : inWin 0 S0 (i - a.s0 / 2 + S0 / 2) = true := (inWin_iff ..).2 (by omega)
  have g1 : inWin 0 S1 (j - a.s1 / 2 + S1 / 2) = true := (inWin_iff ..).2 (by omega)
  simp only [show (pad2 a S0 S1).s0 = S0 from rfl, show (pad2 a S0 S1).s1 = S1 from rfl, g0, g1, Bool.and_self, if_true]
  rw [pad_keeps_origin a S0 S1 _ _ (by omega) (by omega) (by omega) (by omega)]
  unfold Arr.centred
  have e0 : i - a.s0 / 2 + S0 / 2 - S0 / 2 + a.s0 / 2 = i := by omega
  have e1 : j - a.s1 / 2 + S1 / 2 - S1 / 2 + a.s1 / 2 = j := by omega
  have k0 : inWin 0 a.s0 i = true := (inWin_iff ..).2 (by omega)
  have k1 : inWin 0 a.s1 j = true := (inWin_iff ..).2 (by omega)
  simp only [e0, e1, k0, k1, Bool.and_self, if_true]

/-- padding then cropping back is the identity on every slice of a cube -/
theorem pad_crop_identity_cube [Zero K] (a : Cube K) (S0 S1 k i j : Int) (hS0 : a.s0 ≤ S0) (hS1 : a.s1 ≤ S1)
    (hi : 0 ≤ i ∧ i < a.s0) (hj : 0 ≤ j ∧ j < a.s1) :
    (pad3 (pad3 a S0 S1) a.s0 a.s1).get k i j = a.get k i j := by
  rw [(pad3_keeps_origin (pad3 a S0 S1) a.s0 a.s1 k i j (show 0 ≤ S0 by omega) (show 0 ≤ S1 by omega) hi hj).2.2.2]
  unfold Cube.centred
  have g0 : inWin 0 S0 (i - a.s0 / 2 + S0 / 2) = true := (inWin_iff ..).2 (by omega)
  have g1 : inWin 0 S1 (j - a.s1 / 2 + S1 / 2) = true := (inWin_iff ..).2 (by omega)
  simp only [show (pad3 a S0 S1).s0 = S0 from rfl, show (pad3 a S0 S1).s1 = S1 from rfl, g0, g1, Bool.and_self, if_true]
  rw [(pad3_keeps_origin a S0 S1 k _ _ (by omega) (by omega) (by omega) (by omega)).2.2.2]
  unfold Cube.centred
  have e0 : i - a.s0 / 2 + S0 / 2 - S0 / 2 + a.s0 / 2 = i := by omega
  have e1 : j - a.s1 / 2 + S1 / 2 - S1 / 2 + a.s1 / 2 = j := by omega
  have k0 : inWin 0 a.s0 i = true := (inWin_iff ..).2 (by omega)
  have k1 : inWin 0 a.s1 j = true := (inWin_iff ..).2 (by omega)
  simp only [e0, e1, k0, k1, Bool.and_self, if_true]

example : (pad2 (⟨3, 2, fun i j => 10 * i + j + 1⟩ : Arr Int) 4 5).get 2 2 = 12 := by decide
example : (pad2 (⟨4, 5, fun i j => 10 * i + j + 1⟩ : Arr Int) 3 2).get 1 1 = 23 := by decide

/-! ## `util.window` (decision tree regenerated from the source: `Gen.windowAct`) -/

/-- **the dispatch of `util.window`**, for all arguments: a one-element input is returned unchanged whatever `shape` and `slice`
are; with neither argument the input is returned; with `slice` the view `img[s0:s1, s2:s3]` is returned — when `shape` is given
too, only if `s1 - s0 = shape[0]` and `s3 - s2 = shape[1]` (otherwise `AssertionError`); with `shape` alone the input goes to
`lentil.pad`. It never falls off the end. -/
theorem window_dispatch (size : Int) (shNone slNone : Bool) (sh : Int × Int) (sl : Int × Int × Int × Int) :
    Gen.windowAct size shNone slNone sh sl =
      if size = 1 then .whole
      else if slNone = false then
        (if shNone = true ∨ (sl.2.1 - sl.1 = sh.1 ∧ sl.2.2.2 - sl.2.2.1 = sh.2)
         then .view sl.1 sl.2.1 sl.2.2.1 sl.2.2.2 else .refuse)
      else if shNone = true then .whole else .pad sh.1 sh.2 := by
  unfold Gen.windowAct
  by_cases h1 : size = 1
  · simp [h1]
  · cases shNone <;> cases slNone <;> simp [h1]
    by_cases ha : sl.2.1 - sl.1 = sh.1 <;> by_cases hb : sl.2.2.2 - sl.2.2.1 = sh.2 <;> simp [ha, hb]

/-- `window(img, shape=S)` **is the centred crop/pad**: the result has shape `S` and every sample keeps its coordinate relative
to the origin `⌊n/2⌋` (samples outside the source are zero) — the centre convention of `pad` carried through the dispatch -/
theorem window_shape_keeps_origin [Zero K] (a : Arr K) (S0 S1 : Int) (h0 : 0 ≤ a.s0) (h1 : 0 ≤ a.s1) (hs : a.s0 * a.s1 ≠ 1) :
    ∃ r, window a (some (S0, S1)) none = .ok r ∧ r.s0 = S0 ∧ r.s1 = S1 ∧
      ∀ i j, 0 ≤ i ∧ i < S0 → 0 ≤ j ∧ j < S1 → r.get i j = a.centred (i - S0 / 2) (j - S1 / 2) := by
  refine ⟨pad2 a S0 S1, ?_, rfl, rfl, fun i j hi hj => pad_keeps_origin a S0 S1 i j h0 h1 hi hj⟩
  unfold window
  rw [window_dispatch]
  simp [hs]

/-- `window(img, slice=(r0, r1, c0, c1))` for a slice inside the array **is exactly the requested index set**: shape
`(r1 - r0, c1 - c0)`, sample `(i, j)` = source sample `(r0 + i, c0 + j)`; when `shape` is given as well the call succeeds iff the
shape equals the slice's extent (and the result then has that shape) -/
theorem window_slice_indices [Zero K] (a : Arr K) (r0 r1 c0 c1 : Int) (hs : a.s0 * a.s1 ≠ 1)
    (hr : 0 ≤ r0 ∧ r0 ≤ r1 ∧ r1 ≤ a.s0) (hc : 0 ≤ c0 ∧ c0 ≤ c1 ∧ c1 ≤ a.s1) :
    (∃ r, window a none (some (r0, r1, c0, c1)) = .ok r ∧ r.s0 = r1 - r0 ∧ r.s1 = c1 - c0 ∧
      ∀ i j, r.get i j = a.get (r0 + i) (c0 + j)) ∧
    ∀ S0 S1 : Int,
      (r1 - r0 = S0 ∧ c1 - c0 = S1 →
        window a (some (S0, S1)) (some (r0, r1, c0, c1)) = window a none (some (r0, r1, c0, c1))) ∧
      (¬ (r1 - r0 = S0 ∧ c1 - c0 = S1) →
        window a (some (S0, S1)) (some (r0, r1, c0, c1)) = .error "AssertionError") := by
  have b0 : sliceBound a.s0 r0 = r0 := by unfold sliceBound; split <;> split <;> omega
  have e0 : sliceBound a.s0 r1 = r1 := by unfold sliceBound; split <;> split <;> omega
  have b1 : sliceBound a.s1 c0 = c0 := by unfold sliceBound; split <;> split <;> omega
  have e1 : sliceBound a.s1 c1 = c1 := by unfold sliceBound; split <;> split <;> omega
  refine ⟨⟨viewSlice a r0 r1 c0 c1, ?_, ?_, ?_, ?_⟩, fun S0 S1 => ⟨?_, ?_⟩⟩
  · unfold window; rw [window_dispatch]; simp [hs]
  · simp only [viewSlice, b0, e0]; split <;> omega
  · simp only [viewSlice, b1, e1]; split <;> omega
  · intro i j; simp only [viewSlice, b0, b1]
  · intro h; unfold window; rw [window_dispatch, window_dispatch]; simp [hs, h.1, h.2]
  · intro h; unfold window; rw [window_dispatch]; simp [hs]
    rw [if_neg h]

/-- a one-element input, and a call with neither `shape` nor `slice`, return the input unchanged -/
theorem window_passthrough [Zero K] (a : Arr K) (shape : Option (Int × Int)) (slice : Option (Int × Int × Int × Int)) :
    (a.s0 * a.s1 = 1 → window a shape slice = .ok a) ∧ window a none none = .ok a := by
  constructor
  · intro h; unfold window; rw [window_dispatch]; simp [h]
  · unfold window; rw [window_dispatch]; simp

/-- cubes with `shape=`: every slice along the first axis is cropped/padded about its own origin `⌊n/2⌋`, the depth is kept -/
theorem window3_shape_keeps_origin [Zero K] (a : Cube K) (S0 S1 : Int) (h0 : 0 ≤ a.s0) (h1 : 0 ≤ a.s1) (hs : a.d * a.s0 * a.s1 ≠ 1) :
    ∃ r, window3Shape a S0 S1 = .ok r ∧ r.d = a.d ∧ r.s0 = S0 ∧ r.s1 = S1 ∧
      ∀ k i j, 0 ≤ i ∧ i < S0 → 0 ≤ j ∧ j < S1 → r.get k i j = a.centred k (i - S0 / 2) (j - S1 / 2) := by
  refine ⟨pad3 a S0 S1, ?_, rfl, rfl, rfl, fun k i j hi hj => (pad3_keeps_origin a S0 S1 k i j h0 h1 hi hj).2.2.2⟩
  unfold window3Shape
  rw [window_dispatch]
  simp [hs]

/-- **cubes with `slice=`**: the returned view addresses the LAST two axes (`Gen.windowSliceAxesFromEnd`, regenerated from the leading `...` of
`img[..., s0:s1, s2:s3]`), so for a cube `(depth, rows, cols)` — the convention of `pad` and of `window(shape=)` — a slice inside the array selects
`[:, r0:r1, c0:c1]`: the depth is kept, every depth slice is cut to rows `r0..r1-1` and columns `c0..c1-1`; with `shape` given as well the call
succeeds iff the shape equals the extent of the slice -/
theorem window3_slice_indices [Zero K] (a : Cube K) (r0 r1 c0 c1 : Int) (hs : a.d * a.s0 * a.s1 ≠ 1)
    (hr : 0 ≤ r0 ∧ r0 ≤ r1 ∧ r1 ≤ a.s0) (hc : 0 ≤ c0 ∧ c0 ≤ c1 ∧ c1 ≤ a.s1) :
    Gen.windowSliceAxesFromEnd = true ∧
    (∃ r, window3 a none (some (r0, r1, c0, c1)) = .ok r ∧ r.d = a.d ∧ r.s0 = r1 - r0 ∧ r.s1 = c1 - c0 ∧
      ∀ k i j, r.get k i j = a.get k (r0 + i) (c0 + j)) ∧
    ∀ S0 S1 : Int,
      (r1 - r0 = S0 ∧ c1 - c0 = S1 →
        window3 a (some (S0, S1)) (some (r0, r1, c0, c1)) = window3 a none (some (r0, r1, c0, c1))) ∧
      (¬ (r1 - r0 = S0 ∧ c1 - c0 = S1) →
        window3 a (some (S0, S1)) (some (r0, r1, c0, c1)) = .error "AssertionError") := by
  have b0 : sliceBound a.s0 r0 = r0 := by unfold sliceBound; split <;> split <;> omega
  have e0 : sliceBound a.s0 r1 = r1 := by unfold sliceBound; split <;> split <;> omega
  have b1 : sliceBound a.s1 c0 = c0 := by unfold sliceBound; split <;> split <;> omega
  have e1 : sliceBound a.s1 c1 = c1 := by unfold sliceBound; split <;> split <;> omega
  have hE : Gen.windowSliceAxesFromEnd = true := rfl
  refine ⟨hE, ⟨viewSlice3 true a r0 r1 c0 c1, ?_, rfl, ?_, ?_, ?_⟩, fun S0 S1 => ⟨?_, ?_⟩⟩
  · unfold window3; rw [window_dispatch, hE]; simp [hs]
  · simp only [viewSlice3, if_true, b0, e0]; split <;> omega
  · simp only [viewSlice3, if_true, b1, e1]; split <;> omega
  · intro k i j; simp only [viewSlice3, if_true, b0, b1]
  · intro h; unfold window3; rw [window_dispatch, window_dispatch]; simp [hs, h.1, h.2]
  · intro h; unfold window3; rw [window_dispatch]; simp [hs]
    rw [if_neg h]

example : (window3 (⟨3, 4, 5, fun k i j => 100 * k + 10 * i + j⟩ : Cube Int) none (some (1, 3, 2, 5))).toOption.map
    (fun r => (r.d, r.s0, r.s1, r.get 2 0 0)) = some (3, 2, 3, 212) := by decide

example : (window (⟨3, 4, fun i j => 10 * i + j⟩ : Arr Int) none (some (1, 3, 1, 4))).toOption.map (fun r => (r.s0, r.s1, r.get 0 0)) =
    some (2, 3, 11) := by decide
example : (window (⟨3, 4, fun i j => 10 * i + j⟩ : Arr Int) (some (2, 2)) (some (1, 3, 1, 4))).toOption.isNone = true := by decide

/-- **`util.centroid` regenerated** (`Gen.centroid`: normalisation `img / np.sum(img)`, the grids of `np.mgrid[0:nr, 0:nc]`, which grid each
`np.dot` pairs with the image and the order of the returned pair are re-translated from the source): the grid value of sample `(i, j)` is `i` in the
first and `j` in the second returned component, and over any field the returned pair is (row numerator / total, column numerator / total) of
`centroidNumK` — the quantities every centroid theorem of this file (and the default origin of C11) is stated about -/
theorem centroid_regenerated {F : Type} [Field F] (a : Arr F) :
    (∀ i j : Int, Gen.centroidGrid 0 i j = i ∧ Gen.centroidGrid 1 i j = j) ∧
    centroidRC a = ((centroidNumK a).1 / (centroidNumK a).2.2, (centroidNumK a).2.1 / (centroidNumK a).2.2) := by
  refine ⟨fun i j => ⟨by simp [Gen.centroidGrid], by simp [Gen.centroidGrid]⟩, ?_⟩
  unfold centroidRC Gen.centroid centroidNumK Arr.total Gen.centroidWeight
  simp only [sumRange_eq_sum, Gen.centroidGrid, zero_add, Int.cast_natCast, div_eq_mul_inv, ← mul_assoc, ← Finset.sum_mul]

example : centroidRC (⟨2, 3, fun i j => if i = 0 ∨ j = 2 then 1 else 0⟩ : Arr ℚ) = (1 / 4, 5 / 4) := by decide +kernel

/-- **`util.rebin` regenerated** (`Gen.rebinReshape2`, `Gen.rebinSumAxes2`: the shape handed to `img.reshape` and the two summed axes are
re-translated from the source): whenever the model's `rebin` accepts (factor divides both axes) the reshape is legal (the product of the new
shape is the number of samples), the result shape is entries 0 and 2 of it, the summed axes are the two of length `factor` (last, then 1), and —
`reshape` keeping the C-order position — entry `(i, u, j, v)` of the reshaped array is source sample `(i·f + u, j·f + v)`: exactly the block the
model sums. So `rebin_preserves_sum` is about what this source line computes. -/
theorem rebin_regenerated [Add K] [Zero K] (a r : Arr K) (f : Nat) (hr : rebin a f = some r) :
    (Gen.rebinReshape2 a.s0 a.s1 f).foldl (· * ·) 1 = a.s0 * a.s1 ∧
    Gen.rebinSumAxes2 = [-1, 1] ∧
    r.s0 = (Gen.rebinReshape2 a.s0 a.s1 f)[0]! ∧ r.s1 = (Gen.rebinReshape2 a.s0 a.s1 f)[2]! ∧
    ∀ i j : Int, (r.get i j = sumRange f fun u => sumRange f fun v => a.get (i * f + u) (j * f + v)) ∧
      ∀ u v : Int, cFlat (Gen.rebinReshape2 a.s0 a.s1 f) [i, u, j, v] = (i * f + u) * a.s1 + (j * f + v) := by
  unfold rebin at hr
  by_cases g : (decide (0 < f) && decide (a.s0 % (f : Int) = 0) && decide (a.s1 % (f : Int) = 0)) = true
  · rw [if_pos g] at hr
    simp only [Bool.and_eq_true, decide_eq_true_eq] at g
    obtain ⟨⟨_, g0⟩, g1⟩ := g
    have e0 : a.s0 / (f : Int) * f = a.s0 := Int.ediv_mul_cancel (Int.dvd_of_emod_eq_zero g0)
    have e1 : a.s1 / (f : Int) * f = a.s1 := Int.ediv_mul_cancel (Int.dvd_of_emod_eq_zero g1)
    simp only [Option.some.injEq] at hr
    subst hr
    refine ⟨?_, rfl, rfl, rfl, fun i j => ⟨rfl, fun u v => ?_⟩⟩
    · show 1 * (a.s0 / (f : Int)) * f * (a.s1 / (f : Int)) * f = a.s0 * a.s1
      calc 1 * (a.s0 / (f : Int)) * f * (a.s1 / (f : Int)) * f = (a.s0 / (f : Int) * f) * (a.s1 / (f : Int) * f) := by ring
        _ = a.s0 * a.s1 := by rw [e0, e1]
    · show (((0 * (a.s0 / (f : Int)) + i) * f + u) * (a.s1 / (f : Int)) + j) * f + v = (i * f + u) * a.s1 + (j * f + v)
      calc (((0 * (a.s0 / (f : Int)) + i) * f + u) * (a.s1 / (f : Int)) + j) * f + v
          = (i * f + u) * (a.s1 / (f : Int) * f) + (j * f + v) := by ring
        _ = _ := by rw [e1]
  · rw [if_neg g] at hr; cases hr

/-- the cube branch (`img.ndim == 3`): the depth axis is kept in front, the summed axes are again the two of length `factor` (last, then 2), and
entry `(k, i, u, j, v)` of the reshaped cube is sample `(i·f + u, j·f + v)` of slice `k` -/
theorem rebin3_regenerated (d s0 s1 : Int) (f : Nat) (h0 : s0 % (f : Int) = 0) (h1 : s1 % (f : Int) = 0) :
    (Gen.rebinReshape3 d s0 s1 f).foldl (· * ·) 1 = d * s0 * s1 ∧
    Gen.rebinSumAxes3 = [-1, 2] ∧
    (Gen.rebinReshape3 d s0 s1 f)[0]! = d ∧ (Gen.rebinReshape3 d s0 s1 f)[1]! = s0 / f ∧ (Gen.rebinReshape3 d s0 s1 f)[3]! = s1 / f ∧
    ∀ k i u j v : Int, cFlat (Gen.rebinReshape3 d s0 s1 f) [k, i, u, j, v] = (k * s0 + (i * f + u)) * s1 + (j * f + v) := by
  have e0 : s0 / (f : Int) * f = s0 := Int.ediv_mul_cancel (Int.dvd_of_emod_eq_zero h0)
  have e1 : s1 / (f : Int) * f = s1 := Int.ediv_mul_cancel (Int.dvd_of_emod_eq_zero h1)
  refine ⟨?_, rfl, rfl, rfl, rfl, fun k i u j v => ?_⟩
  · show 1 * d * (s0 / (f : Int)) * f * (s1 / (f : Int)) * f = d * s0 * s1
    calc 1 * d * (s0 / (f : Int)) * f * (s1 / (f : Int)) * f = d * (s0 / (f : Int) * f) * (s1 / (f : Int) * f) := by ring
      _ = d * s0 * s1 := by rw [e0, e1]
  · show ((((0 * d + k) * (s0 / (f : Int)) + i) * f + u) * (s1 / (f : Int)) + j) * f + v = (k * s0 + (i * f + u)) * s1 + (j * f + v)
    calc ((((0 * d + k) * (s0 / (f : Int)) + i) * f + u) * (s1 / (f : Int)) + j) * f + v
        = (k * (s0 / (f : Int) * f) + (i * f + u)) * (s1 / (f : Int) * f) + (j * f + v) := by ring
      _ = _ := by rw [e0, e1]

example : rebin (⟨4, 6, fun i j => 10 * i + j⟩ : Arr Int) 2 ≠ none ∧ cFlat (Gen.rebinReshape2 4 6 2) [1, 1, 2, 0] = 3 * 6 + 4 := by decide

/-! ## sub-array extraction -/

/-- `subarray(a, (h, w), shift)` returns the `h × w` window whose sample `(i, j)` is the source sample at coordinate
`(i - ⌊h/2⌋ + shift₀, j - ⌊w/2⌋ + shift₁)` relative to the source's origin, and every such sample lies inside the source -/
theorem subarray_indices (a r : Arr K) (h w o0 o1 : Int) (hr : subarray a h w o0 o1 = .ok r) :
    r.s0 = h ∧ r.s1 = w ∧ ∀ i j, 0 ≤ i → i < h → 0 ≤ j → j < w →
      r.get i j = a.get (i - h / 2 + o0 + a.s0 / 2) (j - w / 2 + o1 + a.s1 / 2) ∧
      0 ≤ i - h / 2 + o0 + a.s0 / 2 ∧ i - h / 2 + o0 + a.s0 / 2 < a.s0 ∧
      0 ≤ j - w / 2 + o1 + a.s1 / 2 ∧ j - w / 2 + o1 + a.s1 / 2 < a.s1 := by
  unfold subarray at hr
  rw [subarrayIdx_spec] at hr
  by_cases g : a.s0 / 2 - h / 2 + o0 < 0 ∨ a.s1 / 2 - w / 2 + o1 < 0 ∨ a.s0 / 2 - h / 2 + o0 + h > a.s0 ∨
      a.s1 / 2 - w / 2 + o1 + w > a.s1
  · rw [if_pos g] at hr; cases hr
  · rw [if_neg g] at hr
    simp only [Except.ok.injEq] at hr
    subst hr
    refine ⟨by simp only; omega, by simp only; omega, ?_⟩
    intro i j hi0 hi1 hj0 hj1
    refine ⟨?_, by omega, by omega, by omega, by omega⟩
    simp only
    congr 1 <;> omega

/-- and it refuses (`ValueError`) exactly when some requested sample would lie outside the source -/
theorem subarray_refuses_iff (a : Arr K) (h w o0 o1 : Int) (hh : 0 < h) (hw : 0 < w) :
    (∃ r, subarray a h w o0 o1 = .ok r) ↔
      (∀ i, 0 ≤ i → i < h → 0 ≤ i - h / 2 + o0 + a.s0 / 2 ∧ i - h / 2 + o0 + a.s0 / 2 < a.s0) ∧
      (∀ j, 0 ≤ j → j < w → 0 ≤ j - w / 2 + o1 + a.s1 / 2 ∧ j - w / 2 + o1 + a.s1 / 2 < a.s1) := by
  unfold subarray
  rw [subarrayIdx_spec]
  by_cases g : a.s0 / 2 - h / 2 + o0 < 0 ∨ a.s1 / 2 - w / 2 + o1 < 0 ∨ a.s0 / 2 - h / 2 + o0 + h > a.s0 ∨
      a.s1 / 2 - w / 2 + o1 + w > a.s1
  · rw [if_pos g]
    constructor
    · rintro ⟨r, hr⟩; cases hr
    · rintro ⟨hr, hc⟩
      have a0 := hr 0 (le_refl _) hh
      have a1 := hr (h - 1) (by omega) (by omega)
      have b0 := hc 0 (le_refl _) hw
      have b1 := hc (w - 1) (by omega) (by omega)
      omega
  · rw [if_neg g]
    constructor
    · intro _
      exact ⟨fun i h0 h1 => by omega, fun j h0 h1 => by omega⟩
    · intro _; exact ⟨_, rfl⟩

example : ∃ r, subarray (⟨5, 4, fun i j => i + j⟩ : Arr Int) 2 3 1 0 = .ok r := ⟨_, rfl⟩

/-! ## bounding box, bounding slice and its offset -/

/-- `boundary` returns the bounding box of the samples above the threshold: inside the array, containing every such
sample, and tight (each of its four sides holds one) -/
theorem boundary_is_bbox (x : Arr Bool) (b : Extent) (h : boundary x = some b) :
    (0 ≤ b.rmin ∧ b.rmin ≤ b.rmax ∧ b.rmax < x.s0 ∧ 0 ≤ b.cmin ∧ b.cmin ≤ b.cmax ∧ b.cmax < x.s1) ∧
    (∀ i j : Nat, (i : Int) < x.s0 → (j : Int) < x.s1 → x.get i j = true →
      b.rmin ≤ i ∧ (i : Int) ≤ b.rmax ∧ b.cmin ≤ j ∧ (j : Int) ≤ b.cmax) ∧
    (∃ j : Nat, (j : Int) < x.s1 ∧ x.get b.rmin j = true) ∧ (∃ j : Nat, (j : Int) < x.s1 ∧ x.get b.rmax j = true) ∧
    (∃ i : Nat, (i : Int) < x.s0 ∧ x.get i b.cmin = true) ∧ (∃ i : Nat, (i : Int) < x.s0 ∧ x.get i b.cmax = true) := by
  unfold boundary at h
  cases h1 : firstTrue x.s0.toNat (rowAny x) with
  | none => simp [h1] at h
  | some r0 =>
  cases h2 : lastTrue x.s0.toNat (rowAny x) with
  | none => simp [h1, h2] at h
  | some r1 =>
  cases h3 : firstTrue x.s1.toNat (colAny x) with
  | none => simp [h1, h2, h3] at h
  | some c0 =>
  cases h4 : lastTrue x.s1.toNat (colAny x) with
  | none => simp [h1, h2, h3, h4] at h
  | some c1 =>
  simp only [h1, h2, h3, h4, Option.some.injEq] at h
  subst h
  obtain ⟨a1, a2, a3⟩ := firstTrue_some _ _ _ h1
  obtain ⟨b1, b2, b3⟩ := lastTrue_some _ _ _ h2
  obtain ⟨d1, d2, d3⟩ := firstTrue_some _ _ _ h3
  obtain ⟨e1, e2, e3⟩ := lastTrue_some _ _ _ h4
  have rle : r0 ≤ r1 := by
    by_cases g : r0 ≤ r1
    · exact g
    · have := b3 r0 (by omega) a1; rw [a2] at this; cases this
  have cle : c0 ≤ c1 := by
    by_cases g : c0 ≤ c1
    · exact g
    · have := e3 c0 (by omega) d1; rw [d2] at this; cases this
  simp only
  refine ⟨⟨by omega, by omega, by omega, by omega, by omega, by omega⟩, ?_, ?_, ?_, ?_, ?_⟩
  · intro i j hi hj hx
    have hr : rowAny x i = true := (anyBelow_iff _ _).2 ⟨j, by omega, hx⟩
    have hc : colAny x j = true := (anyBelow_iff _ _).2 ⟨i, by omega, hx⟩
    refine ⟨?_, ?_, ?_, ?_⟩
    · by_cases g : r0 ≤ i
      · omega
      · have := a3 i (by omega); rw [hr] at this; cases this
    · by_cases g : i ≤ r1
      · omega
      · have := b3 i (by omega) (by omega); rw [hr] at this; cases this
    · by_cases g : c0 ≤ j
      · omega
      · have := d3 j (by omega); rw [hc] at this; cases this
    · by_cases g : j ≤ c1
      · omega
      · have := e3 j (by omega) (by omega); rw [hc] at this; cases this
  · obtain ⟨j, hj, hx⟩ := (anyBelow_iff _ _).1 a2; exact ⟨j, by omega, hx⟩
  · obtain ⟨j, hj, hx⟩ := (anyBelow_iff _ _).1 b2; exact ⟨j, by omega, hx⟩
  · obtain ⟨i, hi, hx⟩ := (anyBelow_iff _ _).1 d2; exact ⟨i, by omega, hx⟩
  · obtain ⟨i, hi, hx⟩ := (anyBelow_iff _ _).1 e2; exact ⟨i, by omega, hx⟩

/-- `boundary` fails (NumPy: IndexError) exactly on an empty mask -/
theorem boundary_none_iff (x : Arr Bool) :
    boundary x = none ↔ ∀ i j : Nat, (i : Int) < x.s0 → (j : Int) < x.s1 → x.get i j = false := by
  constructor
  · intro h i j hi hj
    unfold boundary at h
    cases h1 : firstTrue x.s0.toNat (rowAny x) with
    | none =>
      have := firstTrue_none _ _ h1 i (by omega)
      cases hx : x.get i j with
      | false => rfl
      | true =>
        have hr : rowAny x i = true := (anyBelow_iff _ _).2 ⟨j, by omega, hx⟩
        rw [hr] at this; cases this
    | some r0 =>
      obtain ⟨a1, a2, _⟩ := firstTrue_some _ _ _ h1
      obtain ⟨j0, hj0, hx0⟩ := (anyBelow_iff _ _).1 a2
      have hc : colAny x j0 = true := (anyBelow_iff _ _).2 ⟨r0, a1, hx0⟩
      cases h2 : lastTrue x.s0.toNat (rowAny x) with
      | none => have := lastTrue_none _ _ h2 r0 a1; rw [a2] at this; cases this
      | some r1 =>
      cases h3 : firstTrue x.s1.toNat (colAny x) with
      | none => have := firstTrue_none _ _ h3 j0 hj0; rw [hc] at this; cases this
      | some c0 =>
      cases h4 : lastTrue x.s1.toNat (colAny x) with
      | none => have := lastTrue_none _ _ h4 j0 hj0; rw [hc] at this; cases this
      | some c1 => simp [h1, h2, h3, h4] at h
  · intro h
    have : firstTrue x.s0.toNat (rowAny x) = none := by
      cases h1 : firstTrue x.s0.toNat (rowAny x) with
      | none => rfl
      | some r0 =>
        obtain ⟨a1, a2, _⟩ := firstTrue_some _ _ _ h1
        obtain ⟨j0, hj0, hx0⟩ := (anyBelow_iff _ _).1 a2
        have := h r0 j0 (by omega) (by omega); rw [hx0] at this; cases this
    unfold boundary; rw [this]

/-- **boundary_slice and slice_offset are consistent with the centre convention**: the padded bounding slice stays inside
the array, contains the bounding box, is the box grown by the pad except where clipped at the array border, and the window
it cuts, carried as a field with offset `slice_offset(slice, shape)`, occupies (in the extent convention of C06,
`array_extent`) exactly the pixels it was cut from, measured from the parent's origin sample `⌊S/2⌋` -/
theorem boundary_slice_offset_consistent (x : Arr Bool) (p0 p1 : Int) (sl : (Int × Int) × (Int × Int))
    (hp : 0 ≤ p0 ∧ 0 ≤ p1) (h : boundarySlice x p0 p1 = some sl) :
    ∃ b, boundary x = some b ∧
      (0 ≤ sl.1.1 ∧ sl.1.1 ≤ b.rmin ∧ b.rmax < sl.1.2 ∧ sl.1.2 ≤ x.s0 ∧ 0 ≤ sl.2.1 ∧ sl.2.1 ≤ b.cmin ∧ b.cmax < sl.2.2 ∧ sl.2.2 ≤ x.s1) ∧
      (sl.1.1 = 0 ∨ sl.1.1 = b.rmin - p0) ∧ (sl.1.2 = x.s0 ∨ sl.1.2 = b.rmax + p0 + 1) ∧
      (sl.2.1 = 0 ∨ sl.2.1 = b.cmin - p1) ∧ (sl.2.2 = x.s1 ∨ sl.2.2 = b.cmax + p1 + 1) ∧
      arrayExtent (sl.1.2 - sl.1.1) (sl.2.2 - sl.2.1) (Gen.sliceOffset sl.1.1 sl.1.2 sl.2.1 sl.2.2 x.s0 x.s1).1
          (Gen.sliceOffset sl.1.1 sl.1.2 sl.2.1 sl.2.2 x.s0 x.s1).2
        = ⟨sl.1.1 - x.s0 / 2, sl.1.2 - 1 - x.s0 / 2, sl.2.1 - x.s1 / 2, sl.2.2 - 1 - x.s1 / 2⟩ := by
  unfold boundarySlice at h
  cases hb : boundary x with
  | none => rw [hb] at h; cases h
  | some b =>
    rw [hb] at h
    simp only [Option.map_some, Option.some.injEq] at h
    subst h
    have bb := (boundary_is_bbox x b hb).1
    have sp := boundarySlice_spec b.rmin b.rmax b.cmin b.cmax x.s0 x.s1 p0 p1 bb hp
    simp only at sp
    exact ⟨b, rfl, sp.1, sp.2.1, sp.2.2.1, sp.2.2.2.1, sp.2.2.2.2.1, sliceOffset_extent ..⟩

example : boundarySlice (⟨3, 4, fun i j => decide (i = 1 ∧ j = 2)⟩ : Arr Bool) 1 0 = some ((0, 3), (2, 3)) := by decide

/-- **the bounding box does not depend on the physical scale of the data**: multiplying every sample and the threshold by the same
positive factor leaves the thresholded mask — hence `boundary`, `boundary_slice` and the offset — unchanged (no absolute tolerance may
enter the comparison `x > threshold`) -/
theorem boundary_scale_invariant {F : Type} [Field F] [LinearOrder F] [IsStrictOrderedRing F] (x : Arr F) (thr k : F) (hk : 0 < k) :
    gtMask ({ s0 := x.s0, s1 := x.s1, get := fun i j => x.get i j * k } : Arr F) (thr * k) = gtMask x thr ∧
    boundary (gtMask ({ s0 := x.s0, s1 := x.s1, get := fun i j => x.get i j * k } : Arr F) (thr * k)) = boundary (gtMask x thr) := by
  have h : gtMask ({ s0 := x.s0, s1 := x.s1, get := fun i j => x.get i j * k } : Arr F) (thr * k) = gtMask x thr := by
    unfold gtMask
    simp only [Arr.mk.injEq, true_and]
    funext i j
    exact decide_eq_decide.2 (mul_lt_mul_iff_left₀ hk)
  exact ⟨h, by rw [h]⟩

/-! ## rebinning and centroid -/

/-- **integer-factor rebinning preserves the sum** (whenever `reshape` accepts, i.e. the factor divides both axes) -/
theorem rebin_preserves_sum [AddCommMonoid K] (a r : Arr K) (f : ℕ) (h0 : 0 ≤ a.s0) (h1 : 0 ≤ a.s1)
    (h : rebin a f = some r) : r.total = a.total := by
  unfold rebin at h
  split at h
  · rename_i g
    simp only [Bool.and_eq_true, decide_eq_true_eq] at g
    obtain ⟨⟨hf, d0⟩, d1⟩ := g
    simp only [Option.some.injEq] at h
    subst h
    obtain ⟨q0, e0⟩ := Int.dvd_of_emod_eq_zero d0
    obtain ⟨q1, e1⟩ := Int.dvd_of_emod_eq_zero d1
    have hfz : (f : Int) ≠ 0 := by omega
    have hfp : (0 : Int) < f := by omega
    have q0n : 0 ≤ q0 := by
      by_contra hq; have : (f : Int) * q0 < 0 := mul_neg_of_pos_of_neg hfp (by omega); omega
    have q1n : 0 ≤ q1 := by
      by_contra hq; have : (f : Int) * q1 < 0 := mul_neg_of_pos_of_neg hfp (by omega); omega
    obtain ⟨n0, rfl⟩ := Int.eq_ofNat_of_zero_le q0n
    obtain ⟨n1, rfl⟩ := Int.eq_ofNat_of_zero_le q1n
    unfold Arr.total
    simp only [sumRange_eq_sum]
    rw [e0, e1, Int.mul_ediv_cancel_left _ hfz, Int.mul_ediv_cancel_left _ hfz]
    have t0 : ((f : Int) * (n0 : Int)).toNat = n0 * f := by
      rw [show (f : Int) * (n0 : Int) = ((n0 * f : ℕ) : Int) by push_cast; ring]; exact Int.toNat_natCast _
    have t1 : ((f : Int) * (n1 : Int)).toNat = n1 * f := by
      rw [show (f : Int) * (n1 : Int) = ((n1 * f : ℕ) : Int) by push_cast; ring]; exact Int.toNat_natCast _
    rw [t0, t1, Int.toNat_natCast, Int.toNat_natCast]
    have := sum_blocks2 n0 n1 f (fun x y => a.get (x : Int) (y : Int))
    simp only [Nat.cast_add, Nat.cast_mul] at this
    exact this
  · cases h

/-- the cube branch of `rebin` preserves the sum of every slice and keeps the depth -/
theorem rebin3_preserves_sum [AddCommMonoid K] (a r : Cube K) (f : ℕ) (h0 : 0 ≤ a.s0) (h1 : 0 ≤ a.s1)
    (h : rebin3 a f = some r) : r.d = a.d ∧ ∀ k, (r.slice k).total = (a.slice k).total := by
  unfold rebin3 at h
  split at h
  · rename_i g
    simp only [Option.some.injEq] at h
    subst h
    refine ⟨rfl, fun k => ?_⟩
    apply rebin_preserves_sum (a.slice k) _ f h0 h1
    unfold rebin Cube.slice
    simp only [g, if_true]
  · cases h

example : ((rebin (⟨4, 2, fun i j => i + 3 * j⟩ : Arr Int) 2).map fun r => (r.s0, r.s1, r.total)) = some (2, 1, 24) := by decide

/-- the centroid of a single sample of weight `v` at index `(p, q)` is `(p, q)` (rows first, zero-based): the numerators are
`p·v`, `q·v` over the total `v` -/
theorem centroid_of_indicator (s0 s1 p q : ℕ) (v : Int) (hp : p < s0) (hq : q < s1) :
    centroidNum ⟨s0, s1, fun i j => if i = p ∧ j = q then v else 0⟩ = ((p : Int) * v, (q : Int) * v, v) := by
  unfold centroidNum Arr.total
  simp only [sumRange_eq_sum, Int.toNat_natCast, Nat.cast_inj]
  have key : ∀ g : ℕ → ℕ → Int, (∑ i ∈ range s0, ∑ j ∈ range s1, g i j * (if i = p ∧ j = q then v else 0)) = g p q * v := by
    intro g
    rw [Finset.sum_eq_single p]
    · rw [Finset.sum_eq_single q]
      · simp
      · intro j _ hj; simp [hj]
      · intro hq'; exact absurd (Finset.mem_range.2 hq) hq'
    · intro i _ hi; apply Finset.sum_eq_zero; intro j _; simp [hi]
    · intro hp'; exact absurd (Finset.mem_range.2 hp) hp'
  refine Prod.ext ?_ (Prod.ext ?_ ?_)
  · exact key (fun i _ => (i : Int))
  · exact key (fun _ j => (j : Int))
  · have := key (fun _ _ => 1); simpa using this

/-- **the centroid is consistent with the centre convention**: an array that is unchanged by the half-turn about the sample
`(c₀, c₁)` (every non-zero sample has its mirror image `(2c₀ − i, 2c₁ − j)` inside the array, with the same value) has its centroid
at `(c₀, c₁)` — numerators `c₀·T`, `c₁·T` over the total `T`. With `c = ⌊n/2⌋` this is the origin sample of every drawn shape. -/
theorem centroid_of_half_turn_symmetric (n0 n1 c0 c1 : ℕ) (g : Int → Int → Int)
    (hsym : ∀ i j : ℕ, i < n0 → j < n1 → g i j ≠ 0 →
      i ≤ 2 * c0 ∧ j ≤ 2 * c1 ∧ 2 * c0 - i < n0 ∧ 2 * c1 - j < n1 ∧ g ((2 * c0 - i : ℕ) : Int) ((2 * c1 - j : ℕ) : Int) = g i j) :
    centroidNum ⟨n0, n1, g⟩ = ((c0 : Int) * (centroidNum ⟨n0, n1, g⟩).2.2, (c1 : Int) * (centroidNum ⟨n0, n1, g⟩).2.2,
      (centroidNum ⟨n0, n1, g⟩).2.2) := centroid_half_turn n0 n1 c0 c1 g hsym

/-- the centroid of the indicator of a set of samples is the mean position of the set (numerators `Σ_S i`, `Σ_S j`, total `|S|`) -/
theorem centroid_of_indicator_set (n0 n1 : ℕ) (S : Finset (ℕ × ℕ)) (hS : S ⊆ Finset.range n0 ×ˢ Finset.range n1)
    [DecidablePred (· ∈ S)] :
    centroidNum ⟨n0, n1, fun i j => if (i.toNat, j.toNat) ∈ S then 1 else 0⟩
      = (∑ p ∈ S, (p.1 : Int), ∑ p ∈ S, (p.2 : Int), (S.card : Int)) := centroid_indicator_set n0 n1 S hS

example : centroidNum ⟨3, 5, fun i j => if (i = 0 ∧ j = 1) ∨ (i = 2 ∧ j = 3) ∨ (i = 1 ∧ j = 2) then 7 else 0⟩ = (1 * 21, 2 * 21, 21) := by decide

/-! ## hexagonal segment grid -/

/-- **tie to the source of `hex_ring`**: the model's ring IS the loop translation `Gen.hexRing` (the two nested `for` loops of the source as folds
over the state `(results, hex)`, statement by statement) with the translated `hex_neighbor`; it equals the recursive walk all ring lemmas are
proved about. Reordering the loop body, changing a bound or the neighbour rule changes the generated definition and breaks this theorem. -/
theorem hex_ring_translated (k : ℕ) :
    hexRing k = Gen.hexRing k ∧ hexRing k = (walkSides k 6).1 ∧
    ∀ (h : HexCell) (i : ℕ), hexNeighbor h i = Gen.hexAdd h (Gen.hexDirections.getD i (0, 0, 0)) :=
  ⟨rfl, hexRing_eq_walk k, fun _ _ => rfl⟩

/-- **tie to the source of the segment numbering of `hex_segments`**: the model's drawn segments are the statement-by-statement translation
`Gen.keptCells` of the centre test, the `seg` counter, the ring loops and the `seg not in drop` test; their numbers are `keptSegments` (the numbers
0 … 3k(k+1) not in `drop`, in order) and each drawn cell is the cell with that number in `segCells` (centre, then ring 1, ring 2, …). Moving
`seg += 1`, starting the count elsewhere or testing another number changes the generated definition and breaks this theorem. -/
theorem segment_numbering_translated (rings : ℕ) (drop : List ℕ) :
    keptCells rings drop = Gen.keptCells rings drop ∧
    (keptCells rings drop).map Prod.fst = keptSegments rings drop ∧
    ∀ p ∈ keptCells rings drop, (segCells rings)[p.1]? = some p.2 :=
  ⟨rfl, (keptCells_spec rings drop).1, (keptCells_spec rings drop).2⟩

/-- `hex_ring(k)` lists `6k` cells -/
theorem hex_ring_length (k : ℕ) : (hexRing k).length = 6 * k := hexRing_length k

/-- every cell of `hex_ring(k)` is a cube coordinate (`q + r + s = 0`) at cube distance exactly `k` from the centre:
all three coordinates lie in `[-k, k]` and one of them is `±k` -/
theorem hex_ring_cube_distance (k : ℕ) (c : HexCell) (hc : c ∈ hexRing k) :
    c.1 + c.2.1 + c.2.2 = 0 ∧ (-(k : Int) ≤ c.1 ∧ c.1 ≤ k) ∧ (-(k : Int) ≤ c.2.1 ∧ c.2.1 ≤ k) ∧ (-(k : Int) ≤ c.2.2 ∧ c.2.2 ≤ k) ∧
    (c.1 = k ∨ c.1 = -k ∨ c.2.1 = k ∨ c.2.1 = -k ∨ c.2.2 = k ∨ c.2.2 = -k) := by
  obtain ⟨t, ht, h⟩ := hexRing_mem k c hc
  rcases h with rfl | rfl | rfl | rfl | rfl | rfl <;>
    exact ⟨by simp only; omega, ⟨by simp only; omega, by simp only; omega⟩, ⟨by simp only; omega, by simp only; omega⟩,
      ⟨by simp only; omega, by simp only; omega⟩, by simp⟩

/-- the cells of a ring are pairwise distinct, and so are all cells of a `k`-ring aperture (cells of different rings lie at
different cube distances): distinct segment numbers are distinct grid cells -/
theorem hex_ring_distinct (k : ℕ) : (hexRing k).Nodup ∧ (segCells k).Nodup := ⟨hexRing_nodup k, segCells_nodup k⟩

/-- a `k`-ring aperture numbers `1 + 3k(k+1)` cells (centre = 0, then the rings in order) and draws exactly those whose
number is not in `drop`: their count is `1 + 3k(k+1)` minus the number of distinct in-range numbers dropped
(duplicates and out-of-range entries of `drop` do not matter) -/
theorem segment_count (k : ℕ) (drop : List ℕ) :
    (segCells k).length = 1 + 3 * k * (k + 1) ∧
    (keptSegments k drop).length
      = 1 + 3 * k * (k + 1) - ((List.range (1 + 3 * k * (k + 1))).filter fun s => drop.contains s).length := by
  refine ⟨segCells_length k, ?_⟩
  unfold keptSegments
  rw [segCells_length]
  have := filter_not_length (List.range (1 + 3 * k * (k + 1))) (fun s => drop.contains s)
  rw [List.length_range] at this
  omega

example : (hexRing 2).length = 12 ∧ keptSegments 1 [0, 3, 3, 99] = [1, 2, 4, 5, 6] := by decide

/-! ## drawn shapes (over any linearly ordered field; the driver runs the same definitions at `Float`) -/
section Shapes
variable {K : Type} [Field K] [LinearOrder K] [IsStrictOrderedRing K]

/-- drawn shapes take values in [0, 1] (any parameters, antialiased or not) -/
theorem shape_range_01 (sqrt : K → K) (half : K) (n0 n1 : Int) (radius width height inner s0 s1 ca sa : K)
    (sinT cosT : Nat → K) (aa : Bool) (i j : Int) :
    (0 ≤ circleAt sqrt half n0 n1 radius s0 s1 aa i j ∧ circleAt sqrt half n0 n1 radius s0 s1 aa i j ≤ 1) ∧
    (0 ≤ rectangleAt half n0 n1 width height s0 s1 ca sa aa i j ∧ rectangleAt half n0 n1 width height s0 s1 ca sa aa i j ≤ 1) ∧
    (0 ≤ hexagonAt half inner sinT cosT n0 n1 s0 s1 aa i j ∧ hexagonAt half inner sinT cosT n0 n1 s0 s1 aa i j ≤ 1) := by
  have b01 : ∀ x : K, 0 ≤ x ∧ x ≤ 1 → (0 ≤ binarise x ∧ binarise x ≤ 1) := by
    intro x hx; rcases binarise_mem hx with h | h <;> rw [h]
    · exact ⟨le_refl _, zero_le_one⟩
    · exact ⟨zero_le_one, le_refl _⟩
  have one01 : (0 : K) ≤ 1 ∧ (1 : K) ≤ 1 := ⟨zero_le_one, le_refl _⟩
  refine ⟨?_, ?_, ?_⟩
  · unfold circleAt; simp only
    cases aa
    · exact b01 _ (clip01_mem _)
    · exact clip01_mem _
  · unfold rectangleAt; simp only [minK_eq_min]
    have := min_mem01 (min_mem01 one01 (clip01_mem ((half + width * half) -
      absK (meshCoord n0 i s0 * -sa + meshCoord n1 j s1 * ca)))) (clip01_mem ((half + height * half) -
      absK (meshCoord n0 i s0 * ca + meshCoord n1 j s1 * sa)))
    cases aa
    · exact b01 _ this
    · exact this
  · unfold hexagonAt; simp only [minK_eq_min]
    exact min_mem01 (min_mem01 (min_mem01 (min_mem01 (min_mem01 (min_mem01 one01 (hexSide_mem ..)) (hexSide_mem ..))
      (hexSide_mem ..)) (hexSide_mem ..)) (hexSide_mem ..)) (hexSide_mem ..)

/-- without antialiasing every sample is 0 or 1 -/
theorem binary_without_aa (sqrt : K → K) (half : K) (n0 n1 : Int) (radius width height inner s0 s1 ca sa : K)
    (sinT cosT : Nat → K) (i j : Int) :
    (circleAt sqrt half n0 n1 radius s0 s1 false i j = 0 ∨ circleAt sqrt half n0 n1 radius s0 s1 false i j = 1) ∧
    (rectangleAt half n0 n1 width height s0 s1 ca sa false i j = 0 ∨ rectangleAt half n0 n1 width height s0 s1 ca sa false i j = 1) ∧
    (hexagonAt half inner sinT cosT n0 n1 s0 s1 false i j = 0 ∨ hexagonAt half inner sinT cosT n0 n1 s0 s1 false i j = 1) := by
  have one01 : (0 : K) ≤ 1 ∧ (1 : K) ≤ 1 := ⟨zero_le_one, le_refl _⟩
  refine ⟨?_, ?_, ?_⟩
  · unfold circleAt; simp only [Bool.false_eq_true, if_false]
    exact binarise_mem (clip01_mem _)
  · unfold rectangleAt; simp only [minK_eq_min, Bool.false_eq_true, if_false]
    exact binarise_mem (min_mem01 (min_mem01 one01 (clip01_mem _)) (clip01_mem _))
  · unfold hexagonAt; simp only [minK_eq_min]
    exact min_binary (min_binary (min_binary (min_binary (min_binary (min_binary (Or.inr rfl) (hexSide_binary ..))
      (hexSide_binary ..)) (hexSide_binary ..)) (hexSide_binary ..)) (hexSide_binary ..)) (hexSide_binary ..)

/-- shifting a shape by an integer vector `(d0, d1)` translates its samples exactly: the value at index `(i, j)` is the
value of the unshifted drawing at index `(i - d0, j - d1)` (same shape parameters, same array size) -/
theorem integer_shift_translates (sqrt : K → K) (half : K) (n0 n1 : Int) (radius width height inner s0 s1 ca sa : K)
    (sinT cosT : Nat → K) (aa : Bool) (i j d0 d1 : Int) :
    circleAt sqrt half n0 n1 radius (s0 + d0) (s1 + d1) aa i j = circleAt sqrt half n0 n1 radius s0 s1 aa (i - d0) (j - d1) ∧
    rectangleAt half n0 n1 width height (s0 + d0) (s1 + d1) ca sa aa i j
      = rectangleAt half n0 n1 width height s0 s1 ca sa aa (i - d0) (j - d1) ∧
    hexagonAt half inner sinT cosT n0 n1 (s0 + d0) (s1 + d1) aa i j = hexagonAt half inner sinT cosT n0 n1 s0 s1 aa (i - d0) (j - d1) := by
  refine ⟨?_, ?_, ?_⟩
  · unfold circleAt; rw [meshCoord_shift, meshCoord_shift]
  · unfold rectangleAt; rw [meshCoord_shift, meshCoord_shift]
  · unfold hexagonAt; rw [meshCoord_shift, meshCoord_shift]

/-- `shape.spider` (one minus an offset rectangle) inherits the clauses: values in [0, 1], binary without antialiasing, and exact
translation under integer shifts -/
theorem spider_range_binary_shift (half sqrt2 : K) (n0 n1 : Int) (width s0 s1 ca sa : K) (aa : Bool) (i j d0 d1 : Int) :
    (0 ≤ spiderAt half sqrt2 n0 n1 width s0 s1 ca sa aa i j ∧ spiderAt half sqrt2 n0 n1 width s0 s1 ca sa aa i j ≤ 1) ∧
    (spiderAt half sqrt2 n0 n1 width s0 s1 ca sa false i j = 0 ∨ spiderAt half sqrt2 n0 n1 width s0 s1 ca sa false i j = 1) ∧
    spiderAt half sqrt2 n0 n1 width (s0 + d0) (s1 + d1) ca sa aa i j = spiderAt half sqrt2 n0 n1 width s0 s1 ca sa aa (i - d0) (j - d1) := by
  refine ⟨?_, ?_, ?_⟩
  · unfold spiderAt; simp only
    have h := (shape_range_01 (fun x => x) half n0 n1 0 (sqrt2 * ((max n0 n1 : Int) : K) / ((2 : Int) : K)) width 0
      (s0 + -(sqrt2 * ((max n0 n1 : Int) : K) / ((2 : Int) : K) / ((2 : Int) : K)) * sa)
      (s1 + sqrt2 * ((max n0 n1 : Int) : K) / ((2 : Int) : K) / ((2 : Int) : K) * ca) ca sa (fun _ => 0) (fun _ => 0) aa i j).2.1
    constructor <;> linarith [h.1, h.2]
  · unfold spiderAt; simp only
    have h := (binary_without_aa (fun x => x) half n0 n1 0 (sqrt2 * ((max n0 n1 : Int) : K) / ((2 : Int) : K)) width 0
      (s0 + -(sqrt2 * ((max n0 n1 : Int) : K) / ((2 : Int) : K) / ((2 : Int) : K)) * sa)
      (s1 + sqrt2 * ((max n0 n1 : Int) : K) / ((2 : Int) : K) / ((2 : Int) : K) * ca) ca sa (fun _ => 0) (fun _ => 0) i j).2.1
    rcases h with h | h <;> rw [h]
    · right; ring
    · left; ring
  · unfold spiderAt; simp only
    rw [add_right_comm s0, add_right_comm s1]
    rw [(integer_shift_translates (fun x => x) half n0 n1 0 _ width 0 _ _ ca sa (fun _ => 0) (fun _ => 0) aa i j d0 d1).2.1]

/-- the mesh index map: index `i` carries coordinate `i - ⌊n/2⌋` (so the origin sample is index `⌊n/2⌋`), and the
half-turn about the origin sample, `i ↦ 2⌊n/2⌋ - i`, negates it -/
theorem mesh_origin_and_half_turn (n i : Int) :
    meshCoord n (n / 2) (0 : K) = 0 ∧ meshCoord n (2 * (n / 2) - i) (0 : K) = -meshCoord n i (0 : K) := by
  refine ⟨?_, meshCoord_half_turn n i⟩
  unfold meshCoord Gen.meshCoord; simp

/-- circles and rectangles (any rotation) centred on the origin sample are unchanged by the half-turn about it -/
theorem circle_rect_half_turn (sqrt : K → K) (half : K) (n0 n1 : Int) (radius width height ca sa : K) (aa : Bool) (i j : Int) :
    circleAt sqrt half n0 n1 radius 0 0 aa (2 * (n0 / 2) - i) (2 * (n1 / 2) - j) = circleAt sqrt half n0 n1 radius 0 0 aa i j ∧
    rectangleAt half n0 n1 width height 0 0 ca sa aa (2 * (n0 / 2) - i) (2 * (n1 / 2) - j)
      = rectangleAt half n0 n1 width height 0 0 ca sa aa i j := by
  refine ⟨?_, ?_⟩
  · unfold circleAt; simp only [meshCoord_half_turn, neg_mul_neg]
  · unfold rectangleAt; simp only [meshCoord_half_turn, absK_eq_abs, meshRot_neg, abs_neg]

/-- hexagons: the six edge normals are closed under negation (`normal (n+3) = -normal n`, true of the angles
`n·π/3 + φ`), hence the hexagon centred on the origin sample is unchanged by the half-turn -/
theorem hexagon_half_turn (half inner : K) (sinT cosT : Nat → K) (n0 n1 : Int) (aa : Bool) (i j : Int)
    (hs : ∀ n, n < 3 → sinT (n + 3) = -sinT n) (hc : ∀ n, n < 3 → cosT (n + 3) = -cosT n) :
    hexagonAt half inner sinT cosT n0 n1 0 0 aa (2 * (n0 / 2) - i) (2 * (n1 / 2) - j)
      = hexagonAt half inner sinT cosT n0 n1 0 0 aa i j := by
  unfold hexagonAt
  simp only [meshCoord_half_turn, minK_eq_min]
  have e3 := hs 0 (by omega); have e4 := hs 1 (by omega); have e5 := hs 2 (by omega)
  have f3 := hc 0 (by omega); have f4 := hc 1 (by omega); have f5 := hc 2 (by omega)
  simp only [Nat.zero_add, Nat.reduceAdd] at e3 e4 e5 f3 f4 f5
  have k0 := hexSide_neg half inner aa (meshCoord n0 i (0 : K)) (meshCoord n1 j 0) (sinT 0) (cosT 0)
  have k1 := hexSide_neg half inner aa (meshCoord n0 i (0 : K)) (meshCoord n1 j 0) (sinT 1) (cosT 1)
  have k2 := hexSide_neg half inner aa (meshCoord n0 i (0 : K)) (meshCoord n1 j 0) (sinT 2) (cosT 2)
  have k3 := hexSide_neg half inner aa (meshCoord n0 i (0 : K)) (meshCoord n1 j 0) (sinT 3) (cosT 3)
  have k4 := hexSide_neg half inner aa (meshCoord n0 i (0 : K)) (meshCoord n1 j 0) (sinT 4) (cosT 4)
  have k5 := hexSide_neg half inner aa (meshCoord n0 i (0 : K)) (meshCoord n1 j 0) (sinT 5) (cosT 5)
  rw [e3, f3] at k3; rw [e4, f4] at k4; rw [e5, f5] at k5
  simp only [neg_neg] at k3 k4 k5
  rw [← e3, ← f3] at k0; rw [← e4, ← f4] at k1; rw [← e5, ← f5] at k2
  rw [k0, k1, k2, k3, k4, k5, e3, f3, e4, f4, e5, f5]
  ac_rfl

/-- mirror symmetry about the origin row when not rotated: circles, rectangles at angle 0 (`ca = 1`, `sa = 0`) and hexagons
(whose normal set is closed under `(s, c) ↦ (−s, c)`: `normal (5−n)` mirrors `normal n`, true of the angles `n·π/3 + π/6`
and `n·π/3`… up to the index permutation stated in the hypotheses) are unchanged by `i ↦ 2⌊n0/2⌋ − i` -/
theorem mirror_when_unrotated (sqrt : K → K) (half : K) (n0 n1 : Int) (radius width height inner : K) (sinT cosT : Nat → K)
    (perm : Nat → Nat) (hperm : perm 0 = 5 ∧ perm 1 = 4 ∧ perm 2 = 3 ∧ perm 3 = 2 ∧ perm 4 = 1 ∧ perm 5 = 0)
    (hs : ∀ n, n < 6 → sinT (perm n) = -sinT n) (hc : ∀ n, n < 6 → cosT (perm n) = cosT n) (aa : Bool) (i j : Int) :
    circleAt sqrt half n0 n1 radius 0 0 aa (2 * (n0 / 2) - i) j = circleAt sqrt half n0 n1 radius 0 0 aa i j ∧
    rectangleAt half n0 n1 width height 0 0 1 0 aa (2 * (n0 / 2) - i) j = rectangleAt half n0 n1 width height 0 0 1 0 aa i j ∧
    hexagonAt half inner sinT cosT n0 n1 0 0 aa (2 * (n0 / 2) - i) j = hexagonAt half inner sinT cosT n0 n1 0 0 aa i j := by
  refine ⟨?_, ?_, ?_⟩
  · unfold circleAt; simp only [meshCoord_half_turn, neg_mul_neg]
  · unfold rectangleAt; simp only [meshCoord_half_turn, absK_eq_abs, meshRot_unrotated, abs_neg]
  · unfold hexagonAt
    simp only [meshCoord_half_turn, minK_eq_min]
    obtain ⟨p0, p1, p2, p3, p4, p5⟩ := hperm
    have side : ∀ n, n < 6 → hexSide half inner aa (-meshCoord n0 i (0 : K)) (meshCoord n1 j 0) (sinT (perm n)) (cosT (perm n))
        = hexSide half inner aa (meshCoord n0 i 0) (meshCoord n1 j 0) (sinT n) (cosT n) := by
      intro n hn; rw [hs n hn, hc n hn]; unfold hexSide; simp only [neg_mul_neg]
    have s0 := side 0 (by omega); have s1 := side 1 (by omega); have s2 := side 2 (by omega)
    have s3 := side 3 (by omega); have s4 := side 4 (by omega); have s5 := side 5 (by omega)
    rw [p0] at s0; rw [p1] at s1; rw [p2] at s2; rw [p3] at s3; rw [p4] at s4; rw [p5] at s5
    rw [s0, s1, s2, s3, s4, s5]
    ac_rfl

/-- rotated hexagons (`θₙ = n·π/3`) are mirror symmetric about the origin row too: the mirror image of normal `n` is normal
`(6 − n) mod 6` (`θ ↦ −θ`), i.e. the permutation 0, 5, 4, 3, 2, 1 -/
theorem mirror_rotated_hexagon (half inner : K) (n0 n1 : Int) (sinT cosT : Nat → K)
    (perm : Nat → Nat) (hperm : perm 0 = 0 ∧ perm 1 = 5 ∧ perm 2 = 4 ∧ perm 3 = 3 ∧ perm 4 = 2 ∧ perm 5 = 1)
    (hs : ∀ n, n < 6 → sinT (perm n) = -sinT n) (hc : ∀ n, n < 6 → cosT (perm n) = cosT n) (aa : Bool) (i j : Int) :
    hexagonAt half inner sinT cosT n0 n1 0 0 aa (2 * (n0 / 2) - i) j = hexagonAt half inner sinT cosT n0 n1 0 0 aa i j := by
  unfold hexagonAt
  simp only [meshCoord_half_turn, minK_eq_min]
  obtain ⟨p0, p1, p2, p3, p4, p5⟩ := hperm
  have side : ∀ n, n < 6 → hexSide half inner aa (-meshCoord n0 i (0 : K)) (meshCoord n1 j 0) (sinT (perm n)) (cosT (perm n))
      = hexSide half inner aa (meshCoord n0 i 0) (meshCoord n1 j 0) (sinT n) (cosT n) := by
    intro n hn; rw [hs n hn, hc n hn]; unfold hexSide; simp only [neg_mul_neg]
  have s0 := side 0 (by omega); have s1 := side 1 (by omega); have s2 := side 2 (by omega)
  have s3 := side 3 (by omega); have s4 := side 4 (by omega); have s5 := side 5 (by omega)
  rw [p0] at s0; rw [p1] at s1; rw [p2] at s2; rw [p3] at s3; rw [p4] at s4; rw [p5] at s5
  rw [s0, s1, s2, s3, s4, s5]
  ac_rfl


/-- KNOWN FINDING (KF-C20-hex-gap0-shared-edge), witness on the model: with `seg_gap = 0` and no antialiasing the edge test
is the closed half-plane `rho ≤ inner` on both sides of a shared edge, so a pixel centre lying exactly on the common edge of two
neighbouring segments (here: row coordinate `inner` from the first centre, the neighbour's centre `2·inner` further along the
normal) passes the test of both — the segments are not disjoint. -/
theorem kf_hex_gap0_shared_edge (half inner c : K) :
    hexSide half inner false inner c 1 0 = 1 ∧ hexSide half inner false (inner - 2 * inner) c (-1) 0 = 1 := by
  constructor
  · simp [hexSide]
  · simp [hexSide]; linarith

/-! ### cross-helper: `util.centroid` of a drawn shape is the origin sample -/

/-- **any image that is unchanged by the half-turn about the origin sample `(⌊n₀/2⌋, ⌊n₁/2⌋)` and is clear of the leading border row /
column when that axis is even** (the mirror image of index 0 on an even axis is index n: outside the array) has its weighted centroid
(`util.centroid`, any scalar: antialiased values included) at the origin sample: numerators `⌊n₀/2⌋·T`, `⌊n₁/2⌋·T` over the total `T` -/
theorem centroid_of_centred_image (n0 n1 : ℕ) (g : Int → Int → K)
    (hsym : ∀ i j : Int, g (2 * ((n0 : Int) / 2) - i) (2 * ((n1 : Int) / 2) - j) = g i j)
    (hr : n0 % 2 = 0 → ∀ j : Int, g 0 j = 0) (hc : n1 % 2 = 0 → ∀ i : Int, g i 0 = 0) :
    centroidNumK ⟨n0, n1, g⟩ = (((n0 / 2 : ℕ) : K) * (centroidNumK ⟨n0, n1, g⟩).2.2, ((n1 / 2 : ℕ) : K) * (centroidNumK ⟨n0, n1, g⟩).2.2,
      (centroidNumK ⟨n0, n1, g⟩).2.2) := by
  apply centroid_half_turnK
  intro i j hi hj hne
  have hi0 : n0 % 2 = 0 → i ≠ 0 := fun h e => hne (by rw [e]; exact hr h j)
  have hj0 : n1 % 2 = 0 → j ≠ 0 := fun h e => hne (by rw [e]; exact hc h i)
  refine ⟨by omega, by omega, by omega, by omega, ?_⟩
  have := hsym i j
  rw [← this]
  congr 1 <;> · push_cast [Nat.cast_sub (show i ≤ 2 * (n0 / 2) by omega), Nat.cast_sub (show j ≤ 2 * (n1 / 2) by omega)]; omega

/-- **the centroid of a drawn circle, rectangle (any rotation) or hexagon with zero shift is the origin sample `(⌊n₀/2⌋, ⌊n₁/2⌋)`** —
`util.centroid` and `shape.*` share the centre convention — whenever the shape is clear of the leading border row / column of an even axis
(`hex_clear_of_border` gives this for the segment arrays; a shape that touches the border is cropped asymmetrically) -/
theorem centroid_of_drawn_shapes (sqrt : K → K) (half inner : K) (sinT cosT : Nat → K) (n0 n1 : ℕ) (radius width height ca sa : K) (aa : Bool)
    (hs : ∀ n, n < 3 → sinT (n + 3) = -sinT n) (hcs : ∀ n, n < 3 → cosT (n + 3) = -cosT n) :
    let circ := fun i j : Int => circleAt sqrt half n0 n1 radius 0 0 aa i j
    let rect := fun i j : Int => rectangleAt half n0 n1 width height 0 0 ca sa aa i j
    let hex := fun i j : Int => hexagonAt half inner sinT cosT n0 n1 0 0 aa i j
    ∀ g ∈ [circ, rect, hex], (n0 % 2 = 0 → ∀ j : Int, g 0 j = 0) → (n1 % 2 = 0 → ∀ i : Int, g i 0 = 0) →
      centroidNumK ⟨n0, n1, g⟩ = (((n0 / 2 : ℕ) : K) * (centroidNumK ⟨n0, n1, g⟩).2.2, ((n1 / 2 : ℕ) : K) * (centroidNumK ⟨n0, n1, g⟩).2.2,
        (centroidNumK ⟨n0, n1, g⟩).2.2) := by
  intro circ rect hex g hg hr hc
  apply centroid_of_centred_image n0 n1 g _ hr hc
  simp only [List.mem_cons, List.mem_nil_iff, or_false] at hg
  rcases hg with rfl | rfl | rfl
  · intro i j; exact (circle_rect_half_turn sqrt half n0 n1 radius width height ca sa aa i j).1
  · intro i j; exact (circle_rect_half_turn sqrt half n0 n1 radius width height ca sa aa i j).2
  · intro i j; exact hexagon_half_turn half inner sinT cosT n0 n1 aa i j hs hcs

/-- **mirror symmetry about the origin COLUMN** (`j ↦ 2⌊n1/2⌋ − j`) of unrotated circles, rectangles and hexagons: the composition of the half-turn
(`circle_rect_half_turn`, `hexagon_half_turn`) with the row mirror (`mirror_when_unrotated`), under the same table hypotheses on the six edge normals -/
theorem column_mirror_when_unrotated (sqrt : K → K) (half : K) (n0 n1 : Int) (radius width height inner : K) (sinT cosT : Nat → K)
    (perm : Nat → Nat) (hperm : perm 0 = 5 ∧ perm 1 = 4 ∧ perm 2 = 3 ∧ perm 3 = 2 ∧ perm 4 = 1 ∧ perm 5 = 0)
    (hs : ∀ n, n < 6 → sinT (perm n) = -sinT n) (hc : ∀ n, n < 6 → cosT (perm n) = cosT n)
    (hs3 : ∀ n, n < 3 → sinT (n + 3) = -sinT n) (hc3 : ∀ n, n < 3 → cosT (n + 3) = -cosT n) (aa : Bool) (i j : Int) :
    circleAt sqrt half n0 n1 radius 0 0 aa i (2 * (n1 / 2) - j) = circleAt sqrt half n0 n1 radius 0 0 aa i j ∧
    rectangleAt half n0 n1 width height 0 0 1 0 aa i (2 * (n1 / 2) - j) = rectangleAt half n0 n1 width height 0 0 1 0 aa i j ∧
    hexagonAt half inner sinT cosT n0 n1 0 0 aa i (2 * (n1 / 2) - j) = hexagonAt half inner sinT cosT n0 n1 0 0 aa i j := by
  refine ⟨?_, ?_, ?_⟩
  · exact column_mirror_of_half_turn_and_row_mirror _ _ _
      (fun i j => (circle_rect_half_turn sqrt half n0 n1 radius width height 1 0 aa i j).1)
      (fun i j => (mirror_when_unrotated sqrt half n0 n1 radius width height inner sinT cosT perm hperm hs hc aa i j).1) i j
  · exact column_mirror_of_half_turn_and_row_mirror _ _ _
      (fun i j => (circle_rect_half_turn sqrt half n0 n1 radius width height 1 0 aa i j).2)
      (fun i j => (mirror_when_unrotated sqrt half n0 n1 radius width height inner sinT cosT perm hperm hs hc aa i j).2.1) i j
  · exact column_mirror_of_half_turn_and_row_mirror _ _ _
      (fun i j => hexagon_half_turn half inner sinT cosT n0 n1 aa i j hs3 hc3)
      (fun i j => (mirror_when_unrotated sqrt half n0 n1 radius width height inner sinT cosT perm hperm hs hc aa i j).2.2) i j

end Shapes

/-- **non-vacuity of `centroid_of_centred_image` / `centroid_of_drawn_shapes`**: the 2 × 2 binary rectangle on a 6 × 6 array (even axes) over ℚ has
row 0 and column 0 empty, is half-turn symmetric, and its centroid numerators are `3·T`, `3·T` — the origin sample ⌊6/2⌋ = 3 -/
theorem centroid_of_drawn_rectangle_instance :
    (∀ j : Int, exRect 0 j = 0) ∧ (∀ i : Int, exRect i 0 = 0) ∧
    centroidNumK ⟨6, 6, exRect⟩ = (((3 : ℕ) : ℚ) * (centroidNumK ⟨6, 6, exRect⟩).2.2, ((3 : ℕ) : ℚ) * (centroidNumK ⟨6, 6, exRect⟩).2.2,
      (centroidNumK ⟨6, 6, exRect⟩).2.2) := by
  refine ⟨fun j => (exRect_border 0 j).1, fun i => (exRect_border i 0).2, ?_⟩
  exact centroid_of_centred_image 6 6 exRect
    (fun i j => (circle_rect_half_turn (fun x => x) (1 / 2 : ℚ) 6 6 0 2 2 1 0 false i j).2)
    (fun _ j => (exRect_border 0 j).1) (fun _ i => (exRect_border i 0).2)


/-- **segments do not overlap when the gap is positive** (judged on non-antialiased masks, both orientations): two segments
drawn by `hex_segments` at distinct grid cells `a ≠ b` (cube coordinates, `q + r + s = 0`) never both contain a pixel.
`hh` stands for `√3/2`: `inner = R·hh`, the centres are `hex_to_rc(cell, R + g/2)` with constants `√3 = 2·hh`, `√3/2 = hh`, `3/2`, and
the edge normals are the tables of `hexagon_normal_tables`. Separating axis: along the normal `n` that sees the largest difference
of cube coordinates the centres are `≥ 2·(R + g/2)·hh = 2·inner + g·hh` apart, while a common pixel would force `≤ 2·inner`. -/
theorem hex_disjoint_pos_gap {K : Type} [Field K] [LinearOrder K] [IsStrictOrderedRing K]
    (half hh R g : K) (sinT cosT : Nat → K) (n : Int) (a b : HexCell) (i j : Int) (rotate : Bool)
    (hhpos : 0 < hh) (hR : 0 ≤ R) (hg : 0 < g)
    (hT : if rotate then
            (sinT 0 = 0 ∧ cosT 0 = 1 ∧ sinT 1 = hh ∧ cosT 1 = 1 / 2 ∧ sinT 2 = hh ∧ cosT 2 = -(1 / 2) ∧
             sinT 3 = 0 ∧ cosT 3 = -1 ∧ sinT 4 = -hh ∧ cosT 4 = -(1 / 2) ∧ sinT 5 = -hh ∧ cosT 5 = 1 / 2)
          else
            (sinT 0 = 1 / 2 ∧ cosT 0 = hh ∧ sinT 1 = 1 ∧ cosT 1 = 0 ∧ sinT 2 = 1 / 2 ∧ cosT 2 = -hh ∧
             sinT 3 = -(1 / 2) ∧ cosT 3 = -hh ∧ sinT 4 = -1 ∧ cosT 4 = 0 ∧ sinT 5 = -(1 / 2) ∧ cosT 5 = hh))
    (ha : a.1 + a.2.1 + a.2.2 = 0) (hb : b.1 + b.2.1 + b.2.2 = 0) (hab : a ≠ b) :
    ¬ (hexagonAt half (R * hh) sinT cosT n n (hexToRC (2 * hh) hh (3 / 2) a (R + g / 2) rotate).1
          (hexToRC (2 * hh) hh (3 / 2) a (R + g / 2) rotate).2 false i j = 1 ∧
       hexagonAt half (R * hh) sinT cosT n n (hexToRC (2 * hh) hh (3 / 2) b (R + g / 2) rotate).1
          (hexToRC (2 * hh) hh (3 / 2) b (R + g / 2) rotate).2 false i j = 1) := by
  cases rotate
  · exact hex_disjoint_unrotated half hh R g sinT cosT n a b i j hhpos hR hg (by simpa using hT) ha hb hab
  · exact hex_disjoint_rotated half hh R g sinT cosT n a b i j hhpos hR hg (by simpa using hT) ha hb hab

/-- **segments are clear of the array border** (default `pad ≥ 2`, both orientations, any gap ≥ 0): a pixel of the segment drawn at a
cell within cube distance `k = rings` has row and column index in `[1, size − 2]`, where `size` is any integer at least
`(2k+1)·2·inner + 2k·g + 2·pad` (the code takes the ceiling of exactly that). `hh` stands for `√3/2` and only `5/6 ≤ hh ≤ 1` is used
(`sqrt3_half_bounds`). Extents: a hexagon reaches `inner` across its flats and `R` across its vertices; the centres lie within
`2k·(R+g/2)·hh` resp. `(3/2)k·(R+g/2)` of the array centre `⌊size/2⌋`. -/
theorem hex_clear_of_border {K : Type} [Field K] [LinearOrder K] [IsStrictOrderedRing K]
    (half hh R g pad : K) (sinT cosT : Nat → K) (size : Int) (k : Nat) (a : HexCell) (i j : Int) (rotate : Bool)
    (hh56 : 5 / 6 ≤ hh) (hh1 : hh ≤ 1) (hR : 0 ≤ R) (hg : 0 ≤ g) (hpad : 2 ≤ pad) (hk : 1 ≤ k)
    (hsize : ((2 * k + 1 : ℕ) : K) * (R * hh) * 2 + ((2 * k : ℕ) : K) * g + pad * 2 ≤ (size : K))
    (hT : if rotate then
            (sinT 0 = 0 ∧ cosT 0 = 1 ∧ sinT 1 = hh ∧ cosT 1 = 1 / 2 ∧ sinT 2 = hh ∧ cosT 2 = -(1 / 2) ∧
             sinT 3 = 0 ∧ cosT 3 = -1 ∧ sinT 4 = -hh ∧ cosT 4 = -(1 / 2) ∧ sinT 5 = -hh ∧ cosT 5 = 1 / 2)
          else
            (sinT 0 = 1 / 2 ∧ cosT 0 = hh ∧ sinT 1 = 1 ∧ cosT 1 = 0 ∧ sinT 2 = 1 / 2 ∧ cosT 2 = -hh ∧
             sinT 3 = -(1 / 2) ∧ cosT 3 = -hh ∧ sinT 4 = -1 ∧ cosT 4 = 0 ∧ sinT 5 = -(1 / 2) ∧ cosT 5 = hh))
    (hcell : a ∈ segCells k)
    (hin : hexagonAt half (R * hh) sinT cosT size size (hexToRC (2 * hh) hh (3 / 2) a (R + g / 2) rotate).1
          (hexToRC (2 * hh) hh (3 / 2) a (R + g / 2) rotate).2 false i j = 1) :
    (1 ≤ i ∧ i ≤ size - 2) ∧ (1 ≤ j ∧ j ≤ size - 2) := by
  have ha := segCells_sum k a hcell
  have hb := segCells_bounds k a hcell
  cases rotate
  · exact hex_border_unrotated half hh R g pad sinT cosT size k a i j hh56 hh1 hR hg hpad hk hsize (by simpa using hT) ha hb hin
  · exact hex_border_rotated half hh R g pad sinT cosT size k a i j hh56 hh1 hR hg hpad hk hsize (by simpa using hT) ha hb hin

/-- **the ANTIALIASED segments — the library default `antialias=True` — are clear of the array border too** (`pad ≥ 2`, both orientations, any
gap ≥ 0): every pixel with a non-zero antialiased value of the segment at a cell within cube distance `k = rings` has row and column index in
`[1, size − 2]`. The antialiased edge profile `clip(inner + 1/2 − ρ)` reaches half a pixel beyond the flats and at most `(1/2)/(√3/2) ≤ 3/5` of a
pixel beyond the vertices; `pad ≥ 2` leaves room for that. -/
theorem hex_clear_of_border_antialiased {K : Type} [Field K] [LinearOrder K] [IsStrictOrderedRing K]
    (half hh R g pad : K) (hhalf : half = 1 / 2) (sinT cosT : Nat → K) (size : Int) (k : Nat) (a : HexCell) (i j : Int) (rotate : Bool)
    (hh56 : 5 / 6 ≤ hh) (hh1 : hh ≤ 1) (hR : 0 ≤ R) (hg : 0 ≤ g) (hpad : 2 ≤ pad) (hk : 1 ≤ k)
    (hsize : ((2 * k + 1 : ℕ) : K) * (R * hh) * 2 + ((2 * k : ℕ) : K) * g + pad * 2 ≤ (size : K))
    (hT : if rotate then
            (sinT 0 = 0 ∧ cosT 0 = 1 ∧ sinT 1 = hh ∧ cosT 1 = 1 / 2 ∧ sinT 2 = hh ∧ cosT 2 = -(1 / 2) ∧
             sinT 3 = 0 ∧ cosT 3 = -1 ∧ sinT 4 = -hh ∧ cosT 4 = -(1 / 2) ∧ sinT 5 = -hh ∧ cosT 5 = 1 / 2)
          else
            (sinT 0 = 1 / 2 ∧ cosT 0 = hh ∧ sinT 1 = 1 ∧ cosT 1 = 0 ∧ sinT 2 = 1 / 2 ∧ cosT 2 = -hh ∧
             sinT 3 = -(1 / 2) ∧ cosT 3 = -hh ∧ sinT 4 = -1 ∧ cosT 4 = 0 ∧ sinT 5 = -(1 / 2) ∧ cosT 5 = hh))
    (hcell : a ∈ segCells k)
    (hin : 0 < hexagonAt half (R * hh) sinT cosT size size (hexToRC (2 * hh) hh (3 / 2) a (R + g / 2) rotate).1
          (hexToRC (2 * hh) hh (3 / 2) a (R + g / 2) rotate).2 true i j) :
    (1 ≤ i ∧ i ≤ size - 2) ∧ (1 ≤ j ∧ j ≤ size - 2) := by
  have ha := segCells_sum k a hcell
  have hb := segCells_bounds k a hcell
  cases rotate
  · exact hex_border_unrotated_aa half hh R g pad sinT cosT size k a i j hhalf hh56 hh1 hR hg hpad hk hsize (by simpa using hT) ha hb hin
  · exact hex_border_rotated_aa half hh R g pad sinT cosT size k a i j hhalf hh56 hh1 hR hg hpad hk hsize (by simpa using hT) ha hb hin

/-- **the two segment theorems over the code's own expressions.** `Gen.hexInner`, `Gen.hexSizeArg`, `Gen.hexPitch` and `Gen.hexToRC` are
re-translated from `hex_segments` / `hex_to_xy` / `hex_to_rc` on every run and are what the driver executes; with `sqrtN 3 = 2·hh`
(`hh = √3/2`) they are the closed forms used above (`gen_hex_forms`), so: segments at distinct cells of a gap > 0 aperture share no pixel,
and — for `pad ≥ 2`, any `ceil` with `x ≤ ceil x` — every pixel of every segment of a k-ring aperture lies in `[1, size − 2]` for the size
the code computes. An edit of the pitch, the size formula or the cell-to-centre map changes these definitions and breaks this theorem. -/
theorem hex_segments_code {K : Type} [Field K] [LinearOrder K] [IsStrictOrderedRing K]
    (ceil : K → Int) (hceil : ∀ x : K, x ≤ ((ceil x : Int) : K)) (sqrtN : ℕ → K)
    (half hh R g : K) (pad : Nat) (sinT cosT : Nat → K) (k : Nat) (a b : HexCell) (i j : Int) (rotate : Bool)
    (hs : sqrtN 3 = 2 * hh) (hh56 : 5 / 6 ≤ hh) (hh1 : hh ≤ 1) (hR : 0 ≤ R)
    (hT : if rotate then
            (sinT 0 = 0 ∧ cosT 0 = 1 ∧ sinT 1 = hh ∧ cosT 1 = 1 / 2 ∧ sinT 2 = hh ∧ cosT 2 = -(1 / 2) ∧
             sinT 3 = 0 ∧ cosT 3 = -1 ∧ sinT 4 = -hh ∧ cosT 4 = -(1 / 2) ∧ sinT 5 = -hh ∧ cosT 5 = 1 / 2)
          else
            (sinT 0 = 1 / 2 ∧ cosT 0 = hh ∧ sinT 1 = 1 ∧ cosT 1 = 0 ∧ sinT 2 = 1 / 2 ∧ cosT 2 = -hh ∧
             sinT 3 = -(1 / 2) ∧ cosT 3 = -hh ∧ sinT 4 = -1 ∧ cosT 4 = 0 ∧ sinT 5 = -(1 / 2) ∧ cosT 5 = hh)) :
    let n := hexSegmentsSize ceil sqrtN k pad R g
    let seg := fun (c : HexCell) => hexagonAt half (Gen.hexInner sqrtN R) sinT cosT n n
      (Gen.hexToRC sqrtN c (Gen.hexPitch R g) rotate).1 (Gen.hexToRC sqrtN c (Gen.hexPitch R g) rotate).2 false i j
    (0 < g → a.1 + a.2.1 + a.2.2 = 0 → b.1 + b.2.1 + b.2.2 = 0 → a ≠ b → ¬ (seg a = 1 ∧ seg b = 1)) ∧
    (0 ≤ g → 2 ≤ pad → 1 ≤ k → a ∈ segCells k → seg a = 1 → (1 ≤ i ∧ i ≤ n - 2) ∧ (1 ≤ j ∧ j ≤ n - 2)) := by
  intro n seg
  have hhpos : 0 < hh := by linarith
  have fa := gen_hex_forms sqrtN hh hs a (Gen.hexPitch R g) R g rotate k pad
  have fb := gen_hex_forms sqrtN hh hs b (Gen.hexPitch R g) R g rotate k pad
  have segeq : ∀ c : HexCell, seg c = hexagonAt half (R * hh) sinT cosT n n (hexToRC (2 * hh) hh (3 / 2) c (R + g / 2) rotate).1
      (hexToRC (2 * hh) hh (3 / 2) c (R + g / 2) rotate).2 false i j := by
    intro c
    have fc := gen_hex_forms sqrtN hh hs c (R + g / 2) R g rotate k pad
    simp only [seg, fc.2.2.1, fc.2.1, fc.1]
  constructor
  · intro hg ha hb hab
    rw [segeq a, segeq b]
    exact hex_disjoint_pos_gap half hh R g sinT cosT n a b i j rotate hhpos hR hg hT ha hb hab
  · intro hg hpad hk hcell hin
    rw [segeq a] at hin
    refine hex_clear_of_border half hh R g (pad : K) sinT cosT n k a i j rotate hh56 hh1 hR hg (by exact_mod_cast hpad) hk ?_ hT hcell hin
    have h2 := hceil (Gen.hexSizeArg sqrtN k pad R g)
    have e : ((n : Int) : K) = ((ceil (Gen.hexSizeArg sqrtN k pad R g) : Int) : K) := rfl
    rw [e]
    rw [fa.2.2.2] at h2 ⊢
    exact h2

/-- KNOWN FINDING (KF-C20-hex-gap0-shared-edge), witness at a concrete pixel of the model: for an integer circumradius `R`, gap 0 and no
antialiasing, the pixel `R` columns right of the centre sample (`(⌊n/2⌋, ⌊n/2⌋ + R)`, the right-hand vertex of the central hexagon) is
drawn both by the central segment and by its neighbour at cell `(1, 0, −1)` — the two masks overlap -/
theorem kf_hex_gap0_shared_vertex_pixel {K : Type} [Field K] [LinearOrder K] [IsStrictOrderedRing K]
    (half hh : K) (sinT cosT : Nat → K) (n : Int) (R : ℕ) (hhpos : 0 < hh)
    (hT : sinT 0 = 1 / 2 ∧ cosT 0 = hh ∧ sinT 1 = 1 ∧ cosT 1 = 0 ∧ sinT 2 = 1 / 2 ∧ cosT 2 = -hh ∧
          sinT 3 = -(1 / 2) ∧ cosT 3 = -hh ∧ sinT 4 = -1 ∧ cosT 4 = 0 ∧ sinT 5 = -(1 / 2) ∧ cosT 5 = hh) :
    hexagonAt half ((R : K) * hh) sinT cosT n n 0 0 false (n / 2) (n / 2 + R) = 1 ∧
    hexagonAt half ((R : K) * hh) sinT cosT n n (hexToRC (2 * hh) hh (3 / 2) (1, 0, -1) ((R : K) + 0 / 2) false).1
      (hexToRC (2 * hh) hh (3 / 2) (1, 0, -1) ((R : K) + 0 / 2) false).2 false (n / 2) (n / 2 + R) = 1 :=
  kf_vertex_pixel half hh sinT cosT n R hhpos hT

/-- the real constant: `5/6 ≤ √3/2 ≤ 1` -/
theorem sqrt3_half_in_range : (5 : ℝ) / 6 ≤ √3 / 2 ∧ √3 / 2 ≤ 1 ∧ 0 < √3 / 2 := sqrt3_half_bounds

/-- the edge-normal tables assumed by `hex_disjoint_pos_gap` are the sines and cosines `lentil.hexagon` evaluates, with
`hh = √3/2`: `θₙ = n·π/3 + π/6` (unrotated) and `θₙ = n·π/3` (rotated) -/
theorem hexagon_normal_tables :
    (let s := fun n : ℕ => Real.sin ((n : ℝ) * Real.pi / 3 + Real.pi / 6)
     let c := fun n : ℕ => Real.cos ((n : ℝ) * Real.pi / 3 + Real.pi / 6)
     s 0 = 1 / 2 ∧ c 0 = √3 / 2 ∧ s 1 = 1 ∧ c 1 = 0 ∧ s 2 = 1 / 2 ∧ c 2 = -(√3 / 2) ∧
     s 3 = -(1 / 2) ∧ c 3 = -(√3 / 2) ∧ s 4 = -1 ∧ c 4 = 0 ∧ s 5 = -(1 / 2) ∧ c 5 = √3 / 2) ∧
    (let s := fun n : ℕ => Real.sin ((n : ℝ) * Real.pi / 3)
     let c := fun n : ℕ => Real.cos ((n : ℝ) * Real.pi / 3)
     s 0 = 0 ∧ c 0 = 1 ∧ s 1 = √3 / 2 ∧ c 1 = 1 / 2 ∧ s 2 = √3 / 2 ∧ c 2 = -(1 / 2) ∧
     s 3 = 0 ∧ c 3 = -1 ∧ s 4 = -(√3 / 2) ∧ c 4 = -(1 / 2) ∧ s 5 = -(√3 / 2) ∧ c 5 = 1 / 2) :=
  ⟨hexagon_table_unrotated, hexagon_table_rotated⟩

/-- the edge normals `lentil.hexagon` actually uses, `θₙ = n·π/3 + φ` (φ = π/6, or 0 when rotated), satisfy the hypotheses of
`hexagon_half_turn`: `sin θₙ₊₃ = −sin θₙ`, `cos θₙ₊₃ = −cos θₙ` -/
theorem hexagon_normals_closed_under_negation (φ : ℝ) (n : ℕ) :
    Real.sin (((n + 3 : ℕ) : ℝ) * Real.pi / 3 + φ) = -Real.sin ((n : ℝ) * Real.pi / 3 + φ) ∧
    Real.cos (((n + 3 : ℕ) : ℝ) * Real.pi / 3 + φ) = -Real.cos ((n : ℝ) * Real.pi / 3 + φ) := by
  have e : ((n + 3 : ℕ) : ℝ) * Real.pi / 3 + φ = ((n : ℝ) * Real.pi / 3 + φ) + Real.pi := by push_cast; ring
  rw [e, Real.sin_add_pi, Real.cos_add_pi]; exact ⟨rfl, rfl⟩

/-- and, unrotated (φ = π/6), the hypotheses of `mirror_when_unrotated`: `θ₅₋ₙ = 2π − θₙ` -/
theorem hexagon_normals_mirror (n : ℕ) (hn : n < 6) :
    Real.sin (((5 - n : ℕ) : ℝ) * Real.pi / 3 + Real.pi / 6) = -Real.sin ((n : ℝ) * Real.pi / 3 + Real.pi / 6) ∧
    Real.cos (((5 - n : ℕ) : ℝ) * Real.pi / 3 + Real.pi / 6) = Real.cos ((n : ℝ) * Real.pi / 3 + Real.pi / 6) := by
  have e : ((5 - n : ℕ) : ℝ) * Real.pi / 3 + Real.pi / 6 = 2 * Real.pi - ((n : ℝ) * Real.pi / 3 + Real.pi / 6) := by
    rw [Nat.cast_sub (by omega)]; push_cast; ring
  rw [e, Real.sin_two_pi_sub, Real.cos_two_pi_sub]; exact ⟨rfl, rfl⟩


/-- … and, rotated (φ = 0), the hypotheses of `mirror_rotated_hexagon`: `θ_{(6−n) mod 6} ≡ −θₙ` -/
theorem hexagon_normals_mirror_rotated (n : ℕ) (hn : n < 6) :
    Real.sin ((((6 - n) % 6 : ℕ) : ℝ) * Real.pi / 3) = -Real.sin ((n : ℝ) * Real.pi / 3) ∧
    Real.cos ((((6 - n) % 6 : ℕ) : ℝ) * Real.pi / 3) = Real.cos ((n : ℝ) * Real.pi / 3) := by
  have e : ∀ k : ℕ, k ≤ 6 → ((6 - k : ℕ) : ℝ) * Real.pi / 3 = 2 * Real.pi - (k : ℝ) * Real.pi / 3 := by
    intro k hk; rw [Nat.cast_sub hk]; push_cast; ring
  have h : n = 0 ∨ n = 1 ∨ n = 2 ∨ n = 3 ∨ n = 4 ∨ n = 5 := by omega
  rcases h with rfl | rfl | rfl | rfl | rfl | rfl
  · simp
  · rw [show (6 - 1) % 6 = 6 - 1 from rfl, e 1 (by omega), Real.sin_two_pi_sub, Real.cos_two_pi_sub]; exact ⟨rfl, rfl⟩
  · rw [show (6 - 2) % 6 = 6 - 2 from rfl, e 2 (by omega), Real.sin_two_pi_sub, Real.cos_two_pi_sub]; exact ⟨rfl, rfl⟩
  · have h3 : (((6 - 3) % 6 : ℕ) : ℝ) * Real.pi / 3 = Real.pi := by norm_num
    have h3' : ((3 : ℕ) : ℝ) * Real.pi / 3 = Real.pi := by norm_num
    rw [h3]; simp
  · rw [show (6 - 4) % 6 = 6 - 4 from rfl, e 4 (by omega), Real.sin_two_pi_sub, Real.cos_two_pi_sub]; exact ⟨rfl, rfl⟩
  · rw [show (6 - 5) % 6 = 6 - 5 from rfl, e 5 (by omega), Real.sin_two_pi_sub, Real.cos_two_pi_sub]; exact ⟨rfl, rfl⟩

/-! ## across helpers: one centre convention -/

/-- **cropping is sub-array extraction**: for a target no larger than the source, `subarray(a, (h, w))` (shift 0) succeeds and is `pad(a, (h, w))` -/
theorem subarray_eq_pad_crop [Zero K] (a : Arr K) (h w : Int) (hh : 0 < h) (hw : 0 < w) (h0 : h ≤ a.s0) (h1 : w ≤ a.s1) :
    ∃ r, subarray a h w 0 0 = .ok r ∧ r.s0 = h ∧ r.s1 = w ∧
      ∀ i j, 0 ≤ i → i < h → 0 ≤ j → j < w → r.get i j = (pad2 a h w).get i j := by
  obtain ⟨r, hr⟩ := (subarray_refuses_iff a h w 0 0 hh hw).2 ⟨fun i a0 a1 => by omega, fun j a0 a1 => by omega⟩
  obtain ⟨e0, e1, hget⟩ := subarray_indices a r h w 0 0 hr
  refine ⟨r, hr, e0, e1, ?_⟩
  intro i j i0 i1 j0 j1
  obtain ⟨g, b0, b1, b2, b3⟩ := hget i j i0 i1 j0 j1
  rw [g, pad_keeps_origin a h w i j (by omega) (by omega) ⟨i0, i1⟩ ⟨j0, j1⟩]
  unfold Arr.centred
  have k0 : inWin 0 a.s0 (i - h / 2 + a.s0 / 2) = true := (inWin_iff ..).2 (by omega)
  have k1 : inWin 0 a.s1 (j - w / 2 + a.s1 / 2) = true := (inWin_iff ..).2 (by omega)
  simp only [k0, k1, Bool.and_self, if_true]
  congr 1 <;> omega

section
variable [Field K] [LinearOrder K] [IsStrictOrderedRing K]

/-- **drawing and padding commute** (the shapes and `pad` share the centre convention): a circle / rectangle / hexagon drawn on an
`n0 × n1` array and then padded or cropped to `S0 × S1` equals, wherever `pad` copies a sample, the same shape drawn directly on
`S0 × S1` -/
theorem shape_pad_commute (sqrt : K → K) (half : K) (n0 n1 S0 S1 : Int) (radius width height inner s0 s1 ca sa : K)
    (sinT cosT : Nat → K) (aa : Bool) (i j : Int) (h0 : 0 ≤ n0) (h1 : 0 ≤ n1) (hi : 0 ≤ i ∧ i < S0) (hj : 0 ≤ j ∧ j < S1)
    (hin : 0 ≤ i - S0 / 2 + n0 / 2 ∧ i - S0 / 2 + n0 / 2 < n0 ∧ 0 ≤ j - S1 / 2 + n1 / 2 ∧ j - S1 / 2 + n1 / 2 < n1) :
    (pad2 ⟨n0, n1, fun i j => circleAt sqrt half n0 n1 radius s0 s1 aa i j⟩ S0 S1).get i j = circleAt sqrt half S0 S1 radius s0 s1 aa i j ∧
    (pad2 ⟨n0, n1, fun i j => rectangleAt half n0 n1 width height s0 s1 ca sa aa i j⟩ S0 S1).get i j
      = rectangleAt half S0 S1 width height s0 s1 ca sa aa i j ∧
    (pad2 ⟨n0, n1, fun i j => hexagonAt half inner sinT cosT n0 n1 s0 s1 aa i j⟩ S0 S1).get i j
      = hexagonAt half inner sinT cosT S0 S1 s0 s1 aa i j := by
  have k0 : inWin 0 n0 (i - S0 / 2 + n0 / 2) = true := (inWin_iff ..).2 ⟨hin.1, hin.2.1⟩
  have k1 : inWin 0 n1 (j - S1 / 2 + n1 / 2) = true := (inWin_iff ..).2 ⟨hin.2.2.1, hin.2.2.2⟩
  have m0 : ∀ s : K, meshCoord n0 (i - S0 / 2 + n0 / 2) s = meshCoord S0 i s := by
    intro s; have := meshCoord_recentre n0 S0 (i - S0 / 2) s; rw [this]; congr 1; omega
  have m1 : ∀ s : K, meshCoord n1 (j - S1 / 2 + n1 / 2) s = meshCoord S1 j s := by
    intro s; have := meshCoord_recentre n1 S1 (j - S1 / 2) s; rw [this]; congr 1; omega
  refine ⟨?_, ?_, ?_⟩
  · rw [pad_keeps_origin _ S0 S1 i j h0 h1 hi hj]; unfold Arr.centred
    simp only [k0, k1, Bool.and_self, if_true]; unfold circleAt; simp only [m0, m1]
  · rw [pad_keeps_origin _ S0 S1 i j h0 h1 hi hj]; unfold Arr.centred
    simp only [k0, k1, Bool.and_self, if_true]; unfold rectangleAt; simp only [m0, m1]
  · rw [pad_keeps_origin _ S0 S1 i j h0 h1 hi hj]; unfold Arr.centred
    simp only [k0, k1, Bool.and_self, if_true]; unfold hexagonAt; simp only [m0, m1]
end

end Lentil.C20
