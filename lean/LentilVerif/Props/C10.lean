import LentilVerif.Model.Heap
import LentilVerif.Lemmas.Heap
import LentilVerif.Props.C04
import LentilVerif.Gen.InplaceGate
/-! # C10 — calls are pure: no hidden mutation of inputs, no dependence on call history

**Partial by nature** (DESIGN §5 C10): the theorems are about *effect summaries*. What each public function may write is
the generated table `Gen.effTable` (effect-site scan of the source, regenerated on every run); the theorems show that the
summaries are confined to the documented in-place list and that they compose over unbounded histories. That each
summary is right about NumPy-level behaviour is sampled by the correspondence (tools/harness/c10.py). -/
namespace Lentil.C10
open Lentil Lentil.Heap

/-! ## The generated table against the documented in-place list -/

/-- every in-place write site the scan finds in a public function targets a (function, parameter) pair documented as
in-place (explicit output buffers, accumulate-into-array, scratch, in-place tilt fitting, attribute setters, the spectrum
editing methods). (Two hidden writes the scan found — `Spectrum.bin` converting `self`, `Rotate.__init__` scaling an
ndarray `angle` — were reported and fixed in the repository; their witnesses are corpus cases.) -/
theorem documented_inplace_only : tableOK Gen.effTable = true := by decide +kernel

/-- **the `inplace=` gate of the heap model is the source's** (regenerated `Gen.effInplaceGates`: every function of the package with an
`inplace` parameter, its gate statement and its write sites classified by the name they go through): the functions the model switches
by the flag (`inplaceGated`, hand list) are exactly those; with the flag off each works on `self.copy()`; NO write site goes through
`self` directly (it would write the caller's plane whatever the flag says); and the attributes written through the gate variable are
write paths of the function's row in the effect table — a second `inplace=` function, a gate that stops copying, or a write that
bypasses the gate variable breaks this proof -/
theorem inplace_gate_follows_source :
    Gen.effInplaceGates.map (·.1) = inplaceGated ∧
    (∀ g ∈ Gen.effInplaceGates, g.2.1 = "self" ∧ g.2.2.1 = "self.copy()" ∧ g.2.2.2.1 = []) ∧
    (∀ g ∈ Gen.effInplaceGates, ∀ r ∈ Gen.effTable, r.fn = g.1 → ∀ a ∈ g.2.2.2.2, (g.2.1, a) ∈ r.writePaths) := by
  decide +kernel

/-- slot-specific: the in-place write sites of the documented in-place functions go through exactly the attributes the
documentation names — `fit_tilt` touches only `opd` and `tilt` (never amplitude, mask or pixel scale), each plane/spectrum/wavefront
setter only its own attribute, the spectrum editing methods only wave/value(/units) — read off the source on every run -/
theorem inplace_writes_go_through_documented_attributes :
    (Gen.effTable.filter fun r => r.pub && !r.writePaths.isEmpty).map (fun r => (r.fn, r.writePaths)) =
      [("plane.Plane.amplitude.setter", [("self", "amplitude")]),
       ("plane.Plane.fit_tilt", [("self", "opd"), ("self", "tilt")]),
       ("plane.Plane.opd.setter", [("self", "opd")]),
       ("radiometry.Material.emission.setter", [("self", "emission")]),
       ("radiometry.Material.transmission.setter", [("self", "transmission")]),
       ("radiometry.Spectrum.append", [("self", "value"), ("self", "wave")]),
       ("radiometry.Spectrum.crop", [("self", "value"), ("self", "wave")]),
       ("radiometry.Spectrum.pad", [("self", "value"), ("self", "wave")]),
       ("radiometry.Spectrum.resample", [("self", "value"), ("self", "wave"), ("self", "waveunit")]),
       ("radiometry.Spectrum.to", [("self", "value"), ("self", "valueunit"), ("self", "wave"), ("self", "waveunit")]),
       ("radiometry.Spectrum.trim", [("self", "value"), ("self", "wave")]),
       ("radiometry.Spectrum.value.setter", [("self", "value")]),
       ("radiometry.Spectrum.valueunit.setter", [("self", "valueunit")]),
       ("radiometry.Spectrum.wave.setter", [("self", "wave")]),
       ("radiometry.Spectrum.waveunit.setter", [("self", "waveunit")]),
       ("wavefront.Wavefront.ptype.setter", [("self", "ptype")])] := by decide +kernel

/-- results are fresh unless documented otherwise (regenerated `returnsAlias`): the only public functions whose return value may be
(a view of) one of their arguments are attribute getters, the in-place functions returning their target, `window`/`subarray` views
and pass-through sanitizers — the list `viewReturning`; the heap model makes such a result share its cells with that argument, so
a later in-place call on the result is accounted to the caller's cell -/
theorem results_are_fresh_unless_documented_view :
    (Gen.effTable.filter fun r => r.pub && !r.returnsAlias.isEmpty).map (·.fn) = viewReturning := by decide +kernel

/-- repeating a seeded call gives the same answer because the seed reaches the generator (regenerated call wiring): every function
with a parameter named `seed` either builds its generator as `default_rng(seed)` from the bare parameter, or builds none and hands
`seed` itself on, in the seed position, to a function that does (`rule07_dark_current → dark_current`); a call site that drops or
alters the seed changes the table and this fails -/
theorem seed_reaches_every_generator :
    (Gen.effTable.filter fun r => r.takesSeed).all (fun r =>
      (r.rngArgs == ["seed"] && r.seedForward.isEmpty) ||
      (r.rngArgs.isEmpty && !r.seedForward.isEmpty && r.seedForward.all fun p => p.2 == "seed")) = true ∧
    (Gen.effTable.filter fun r => r.takesSeed).map (·.fn) =
      ["detector.dark_current", "detector.read_noise", "detector.rule07_dark_current", "detector.shot_noise", "wfe.power_spectrum"] := by
  decide +kernel

/-- no function writes a module-level object or a value handed out by a cached function; the only cache is `_dft2_coords`
and the only module-level containers are two constant tables -/
theorem no_shared_state_written :
    (Gen.effTable.all fun r => r.cacheWrites.isEmpty && r.globalWrites.isEmpty) = true ∧
    Gen.effCaches = ["fourier._dft2_coords"] ∧
    Gen.effModuleState = ["plane._mul_ptype_table", "segmented.hex_directions"] := by decide +kernel

/-- the functions that touch NumPy's global generator are exactly the documented unseeded ones (cosmic rays and
`smear(angle=None)`), and no function that takes a seed is among them -/
theorem global_rng_users_documented :
    (Gen.effTable.filter (·.globalRng)).map (·.fn) =
      ["convolvable.smear", "detector._cosmic_ray", "detector._nrays", "detector.cosmic_rays"] ∧
    (Gen.effTable.all fun r => !r.seeded || !r.globalRng) = true ∧
    (Gen.effTable.filter (·.seeded)).map (·.fn) =
      ["detector.dark_current", "detector.read_noise", "detector.shot_noise", "wfe.power_spectrum"] := by decide +kernel

/-! ## Frame theorems: the summaries compose over every history -/

/-- **frame**: over any history, a cell that the history does not itself allocate changes only under an op that has it
(or an object holding it by reference) bound to one of its write slots -/
theorem caller_cells_frame (tbl : List Gen.EffRow) (ops : List Op) (s : State) (c : Cell)
    (halloc : ∀ op ∈ ops, op.res ≠ some c) (h : (run tbl s ops).val c ≠ s.val c) :
    ∃ pre op post, ops = pre ++ op :: post ∧
      ∃ b ∈ op.bind, b.1 ∈ writeSlots tbl op ∧ (c = b.2 ∨ ∃ a, (a, c) ∈ (run tbl s pre).refs b.2 ∧
        (a = "*" ∨ (writeAttrs tbl op b.1).isEmpty = true ∨ a ∈ writeAttrs tbl op b.1)) := by
  induction ops generalizing s with
  | nil => exact absurd rfl h
  | cons op rest ih =>
    by_cases hw : c ∈ writeCells tbl s op
    · exact ⟨[], op, rest, rfl, (mem_writeCells tbl s op c).mp hw⟩
    · have h1 : (step tbl s op).val c = s.val c := frame_step tbl s op c (halloc op (by simp)) hw
      rw [run_cons] at h
      obtain ⟨pre, op', post, he, hb⟩ := ih (step tbl s op) (fun o ho => halloc o (by simp [ho])) (by rw [h1]; exact h)
      exact ⟨op :: pre, op', post, by rw [he]; rfl, by rw [run_cons]; exact hb⟩

/-- … and, for the table generated from the source, that op is a call documented as in-place on that
argument: a caller's array/plane/spectrum is never changed by any other public call, whatever
the history. `hpub`: the history consists of public API functions known to the scan. -/
theorem caller_cell_changes_only_under_documented_inplace (ops : List Op) (s : State) (c : Cell)
    (hpub : ∀ op ∈ ops, ∃ r, row? Gen.effTable op.fn = some r ∧ r.pub = true)
    (halloc : ∀ op ∈ ops, op.res ≠ some c) (h : (run Gen.effTable s ops).val c ≠ s.val c) :
    ∃ pre op post, ops = pre ++ op :: post ∧ ∃ b ∈ op.bind,
      (op.fn, b.1) ∈ documentedInPlace ∧
      (c = b.2 ∨ ∃ a, (a, c) ∈ (run Gen.effTable s pre).refs b.2 ∧
        (a = "*" ∨ (writeAttrs Gen.effTable op b.1).isEmpty = true ∨ a ∈ writeAttrs Gen.effTable op b.1)) := by
  obtain ⟨pre, op, post, he, b, hb, hs, hc⟩ := caller_cells_frame Gen.effTable ops s c halloc h
  refine ⟨pre, op, post, he, b, hb, ?_, hc⟩
  obtain ⟨r, hr, hp⟩ := hpub op (by rw [he]; simp)
  have hmem := row?_mem _ _ _ hr
  simp only [writeSlots, hr] at hs
  by_cases hgate : (inplaceGated.contains op.fn && !op.inplace) = true
  · rw [if_pos hgate] at hs; exact absurd hs List.not_mem_nil
  rw [if_neg hgate] at hs
  simp only [List.mem_map] at hs
  obtain ⟨w, hw, hw1⟩ := hs
  have ht := documented_inplace_only
  simp only [tableOK, List.all_eq_true, Bool.or_eq_true, Bool.not_eq_true', List.contains_eq_mem, decide_eq_true_eq] at ht
  rcases ht r hmem.1 with hf | hall
  · rw [hp] at hf; exact absurd hf (by decide)
  · have := hall w hw
    rw [hmem.2, hw1] at this
    exact this

/-- functions given a seed neither read nor advance the global random state: over any history of seeded calls (indeed
of any calls outside the documented unseeded ones) the global generator cell is unchanged -/
theorem seeded_ops_leave_global_rng (ops : List Op) (s : State)
    (h : ∀ op ∈ ops, ∃ r, row? Gen.effTable op.fn = some r ∧ (r.seeded = true ∨ r.globalRng = false)) :
    (run Gen.effTable s ops).rng = s.rng := by
  induction ops generalizing s with
  | nil => rfl
  | cons op rest ih =>
    rw [run_cons, ih _ (fun o ho => h o (by simp [ho]))]
    apply rng_step
    obtain ⟨r, hr, hs⟩ := h op (by simp)
    simp only [usesGlobalRng, hr]
    have ht := global_rng_users_documented.2.1
    simp only [List.all_eq_true, Bool.or_eq_true, Bool.not_eq_true'] at ht
    rcases hs with hs | hs
    · rcases ht r (row?_mem _ _ _ hr).1 with h1 | h1
      · rw [hs] at h1; exact absurd h1 (by decide)
      · exact h1
    · exact hs

/-- interleaving unrelated calls: a history none of whose calls has the cell (or an object holding it) in a write slot leaves it
exactly as it was — whatever else the calls do, in whatever order and number -/
theorem unrelated_calls_preserve_arguments (tbl : List Gen.EffRow) (ops : List Op) (s : State) (c : Cell)
    (halloc : ∀ op ∈ ops, op.res ≠ some c)
    (hunrel : ∀ pre op post, ops = pre ++ op :: post → c ∉ writeCells tbl (run tbl s pre) op) :
    (run tbl s ops).val c = s.val c := by
  apply Classical.byContradiction; intro h
  obtain ⟨pre, op, post, he, hb⟩ := caller_cells_frame tbl ops s c halloc h
  exact hunrel pre op post he ((mem_writeCells tbl _ op c).mpr hb)

/-- in particular a history of calls whose rows have no write site at all (every function of the table outside the documented
in-place list) changes no cell that existed before, nor the global generator when none of them is a documented unseeded function -/
theorem pure_calls_change_nothing (ops : List Op) (s : State) (c : Cell)
    (halloc : ∀ op ∈ ops, op.res ≠ some c)
    (hpure : ∀ op ∈ ops, ∃ r, row? Gen.effTable op.fn = some r ∧ r.writes = [] ∧ r.globalRng = false) :
    (run Gen.effTable s ops).val c = s.val c ∧ (run Gen.effTable s ops).rng = s.rng := by
  constructor
  · apply unrelated_calls_preserve_arguments _ _ _ _ halloc
    intro pre op post he hmem
    obtain ⟨r, hr, hw, _⟩ := hpure op (by rw [he]; simp)
    rw [mem_writeCells] at hmem
    obtain ⟨b, _, hs, _⟩ := hmem
    simp only [writeSlots, hr, hw, List.map_nil] at hs
    by_cases hg : (inplaceGated.contains op.fn && !op.inplace) = true
    · rw [if_pos hg] at hs; exact absurd hs List.not_mem_nil
    · rw [if_neg hg] at hs; exact absurd hs List.not_mem_nil
  · apply seeded_ops_leave_global_rng
    intro op hop
    obtain ⟨r, hr, _, hg⟩ := hpure op hop
    exact ⟨r, hr, Or.inr hg⟩

/-- non-vacuity of `pure_calls_change_nothing`: `adc` then `collect_charge` on the caller's cells 0 and 1 — both rows of the generated
table have no write site and do not use the global generator — leave cell 0 and the generator as they were -/
example :
    let a : Op := { fn := "detector.adc", bind := [("img", 0), ("gain", 1)], res := some 2, newVal := fun _ => 9, newRng := 5,
                    newCoords := freshCoords, evict := fun _ => false, key := none }
    let b : Op := { a with fn := "detector.collect_charge", bind := [("img", 0), ("qe", 1)], res := some 3 }
    let s0 : State := { val := fun _ => 0, refs := fun _ => [], rng := 0, cache := fun _ => none }
    (run Gen.effTable s0 [a, b]).val 0 = 0 ∧ (run Gen.effTable s0 [a, b]).rng = 0 := by
  decide +kernel

/-- the cached coordinate vectors always equal `arange(n) − ⌊n/2⌋`: nothing in the library writes them, so the invariant
survives every history (lookups, insertions and evictions included) -/
theorem cache_invariant (ops : List Op) (s : State) (hs : CacheOK s)
    (h : ∀ op ∈ ops, (row? Gen.effTable op.fn).isSome) : CacheOK (run Gen.effTable s ops) := by
  induction ops generalizing s with
  | nil => exact hs
  | cons op rest ih =>
    rw [run_cons]
    apply ih _ _ (fun o ho => h o (by simp [ho]))
    apply cache_step _ _ _ _ hs
    have := h op (by simp)
    cases hr : row? Gen.effTable op.fn with
    | none => simp [hr] at this
    | some r =>
      simp only [writesCache, hr]
      have ht := no_shared_state_written.1
      simp only [List.all_eq_true, Bool.and_eq_true] at ht
      simp [(ht r (row?_mem _ _ _ hr).1).1]

/-- non-vacuity of `seeded_ops_leave_global_rng`: `read_noise`, `rule07_dark_current` and `power_spectrum` calls in a row leave the
global generator cell where it was -/
example :
    let a : Op := { fn := "detector.read_noise", bind := [("img", 0)], res := some 1, newVal := fun _ => 9, newRng := 5,
                    newCoords := freshCoords, evict := fun _ => false, key := none }
    let s0 : State := { val := fun _ => 0, refs := fun _ => [], rng := 7, cache := fun _ => none }
    (run Gen.effTable s0 [a, { a with fn := "detector.rule07_dark_current", bind := [], res := some 2 },
                          { a with fn := "wfe.power_spectrum", bind := [("mask", 0)], res := some 3 }]).rng = 7 := by
  decide +kernel

/-- what the cache holds, read off the source: the four vectors `_dft2_coords(m, n, M, N)` builds (regenerated `Gen.fwCoord0..3`)
are `arange(len) − ⌊len/2⌋` of the four lengths, in the order (m, n, M, N) -/
theorem fresh_coords_are_centred (m n M N : Int) :
    freshCoords (m, n, M, N) = (cc m, cc n, cc M, cc N) := rfl

/-- hence the coordinates a Fourier-transform call works with depend only on its own shape arguments, not on the
history of earlier calls (repeated or interleaved calls with other offsets, shifts or shapes) -/
theorem result_history_independent (ops : List Op) (s : State) (hs : CacheOK s)
    (h : ∀ op ∈ ops, (row? Gen.effTable op.fn).isSome) (k : Key) :
    lookup (run Gen.effTable s ops) k = freshCoords k :=
  lookup_of_ok _ (cache_invariant ops s hs h) k

/-- repeating or interleaving Fourier calls: whatever happened in between, a call sees the coordinate vectors it saw before — the
view of the cache is the same function of the key before and after any history of table functions -/
theorem repeated_call_sees_same_coordinates (ops : List Op) (s : State) (hs : CacheOK s)
    (h : ∀ op ∈ ops, (row? Gen.effTable op.fn).isSome) (k : Key) :
    lookup (run Gen.effTable s ops) k = lookup s k := by
  rw [result_history_independent ops s hs h k, lookup_of_ok s hs k]

/-- **plane-state confluence** (composed with C04's `fit_tilt_history`, proved there over the regenerated tilt-fit model): two
histories of OPD updates and tilt fits — in any order and number, whatever coefficients the solver returned — that start from
the same plane and apply the same total OPD update reach the same *optical* state: current OPD plus the ramp of all recorded tilts.
(That `multiply`/`propagate` depend only on that total is C04's tilt-equivalence theorem; the histories are sampled here.) -/
theorem plane_state_total_invariant {R : Type} [Field R] [RealLike R] (h1 : (RealLike.ofInt 1 : R) = 1) (s0 s1 : Int) (px0 px1 : R)
    (mask : Int → Int → R) (ops ops' : List (TiltOp R)) (opd : Int → Int → R) (ts : List (R × R)) (i j : Int)
    (hsame : tiltUpdatesSum ops i j = tiltUpdatesSum ops' i j) :
    (tiltRun s0 s1 px0 px1 mask ops (opd, ts)).1 i j +
      tiltRamp s0 s1 px0 px1 mask ((tiltRun s0 s1 px0 px1 mask ops (opd, ts)).2.map Prod.fst).sum
        ((tiltRun s0 s1 px0 px1 mask ops (opd, ts)).2.map Prod.snd).sum i j =
    (tiltRun s0 s1 px0 px1 mask ops' (opd, ts)).1 i j +
      tiltRamp s0 s1 px0 px1 mask ((tiltRun s0 s1 px0 px1 mask ops' (opd, ts)).2.map Prod.fst).sum
        ((tiltRun s0 s1 px0 px1 mask ops' (opd, ts)).2.map Prod.snd).sum i j := by
  rw [Lentil.C04.fit_tilt_history h1, Lentil.C04.fit_tilt_history h1, hsame]

/-- slot- and attribute-specific frame: an in-place tilt fit may write, of what the plane holds by reference, only what it holds
through `opd` or `tilt` — a caller's amplitude (or any other) array held by the plane is outside its write set, in every state -/
theorem inplace_fit_never_writes_amplitude (s : State) (op : Op) (hfn : op.fn = "plane.Plane.fit_tilt") (c : Cell)
    (hc : c ∈ writeCells Gen.effTable s op) :
    ∃ b ∈ op.bind, c = b.2 ∨ (("opd", c) ∈ s.refs b.2 ∨ ("tilt", c) ∈ s.refs b.2 ∨ ("*", c) ∈ s.refs b.2) := by
  obtain ⟨b, hb, hs, h⟩ := (mem_writeCells Gen.effTable s op c).mp hc
  refine ⟨b, hb, ?_⟩
  have hslot : b.1 = "self" := by
    have hrow : (row? Gen.effTable "plane.Plane.fit_tilt").map (fun r => r.writes.map (·.1)) = some ["self"] := by decide +kernel
    simp only [writeSlots, hfn] at hs
    cases hr : row? Gen.effTable "plane.Plane.fit_tilt" with
    | none => rw [hr] at hrow; simp at hrow
    | some r =>
      rw [hr] at hrow hs
      simp only [Option.map_some, Option.some.injEq] at hrow
      by_cases hg : (inplaceGated.contains "plane.Plane.fit_tilt" && !op.inplace) = true
      · simp only [hg, if_true] at hs; exact absurd hs List.not_mem_nil
      · simp only [hg, if_false, hrow] at hs; simpa using hs
  have hattrs : writeAttrs Gen.effTable op "self" = ["opd", "tilt"] := by
    simp only [writeAttrs, hfn]; decide +kernel
  rcases h with h | ⟨a, ha, hok⟩
  · exact Or.inl h
  · right
    rw [hslot, hattrs] at hok
    rcases hok with rfl | hok | hok
    · exact Or.inr (Or.inr ha)
    · simp at hok
    · simp only [List.mem_cons, List.mem_nil_iff, or_false] at hok
      rcases hok with rfl | rfl
      · exact Or.inl ha
      · exact Or.inr (Or.inl ha)

/-- non-vacuity: a two-call history (construct a plane from caller arrays 0 and 1, fit its tilt in place) in which the
frame theorem's conclusion is the in-place fit on the plane that holds cell 1 by reference -/
example :
    let mk : Op := { fn := "plane.Plane.__init__", bind := [("amplitude", 0), ("opd", 1)], res := some 2, newVal := fun _ => 7,
                     newRng := 0, newCoords := freshCoords, evict := fun _ => false, key := none }
    let fit : Op := { mk with fn := "plane.Plane.fit_tilt", bind := [("self", 2)], res := none, inplace := true }
    let fitCopy : Op := { fit with inplace := false, res := some 3 }
    let s0 : State := { val := fun _ => 0, refs := fun _ => [], rng := 0, cache := fun _ => none }
    (run Gen.effTable s0 [mk, fit]).val 1 = 7 ∧ (run Gen.effTable s0 [mk, fit]).val 0 = 0 ∧ (run Gen.effTable s0 [mk]).val 1 = 0 ∧
      (run Gen.effTable s0 [mk, fitCopy]).val 1 = 0 := by
  decide +kernel

end Lentil.C10
