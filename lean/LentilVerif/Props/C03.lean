import LentilVerif.Model.PropSeg
import LentilVerif.Model.PlaneTilt
import LentilVerif.Lemmas.PlaneAlg
import LentilVerif.Lemmas.PropLinear
import LentilVerif.Lemmas.ChainExtents
import LentilVerif.Lemmas.PropCommon
import LentilVerif.Lemmas.Window
import LentilVerif.Lemmas.PlaneComplex
import LentilVerif.Props.C09
import LentilVerif.Props.C04
import LentilVerif.Props.C07
import LentilVerif.Lemmas.PlaneLoop
/-! # C03 — splitting an aperture into segments never changes the result

Property theorems only. `Gen.sliceOffset` is regenerated from lentil/helper.py on every run. -/
namespace Lentil.C03
open Lentil

/-- **index lemma**: the sub-array `arr[r0:r1, c0:c1]` of an array of shape `(S0, S1)`, carried as a field at
`slice_offset(s, shape)`, embeds to `arr` restricted to the slice: pixel `(i, j)` of the array sits at the global
coordinate `(i - S0/2, j - S1/2)` whatever slice it was cut with -/
theorem slice_offset_embeds {K : Type} [Zero K] (g : Int → Int → K) (r0 r1 c0 c1 S0 S1 r c : Int) :
    (Fld.mk ⟨r1 - r0, c1 - c0, fun i j => g (i + r0) (j + c0)⟩
        (Gen.sliceOffset r0 r1 c0 c1 S0 S1).1 (Gen.sliceOffset r0 r1 c0 c1 S0 S1).2).emb r c
      = if r0 ≤ r + S0 / 2 ∧ r + S0 / 2 < r1 ∧ c0 ≤ c + S1 / 2 ∧ c + S1 / 2 < c1 then g (r + S0 / 2) (c + S1 / 2) else 0 := by
  rw [emb_mk, slice_extent]
  unfold embAt
  by_cases h : r0 ≤ r + S0 / 2 ∧ r + S0 / 2 < r1 ∧ c0 ≤ c + S1 / 2 ∧ c + S1 / 2 < c1
  · have hin : (Extent.mk (r0 - S0 / 2) (r1 - 1 - S0 / 2) (c0 - S1 / 2) (c1 - 1 - S1 / 2)).inb r c = true := by
      rw [Extent.inb_iff]; simp only; omega
    rw [if_pos hin, if_pos h]
    have e1 : r - (r0 - S0 / 2) + r0 = r + S0 / 2 := by omega
    have e2 : c - (c0 - S1 / 2) + c0 = c + S1 / 2 := by omega
    simp only [e1, e2]
  · have hin : ¬ (Extent.mk (r0 - S0 / 2) (r1 - 1 - S0 / 2) (c0 - S1 / 2) (c1 - 1 - S1 / 2)).inb r c = true := by
      rw [Extent.inb_iff]; simp only; omega
    rw [if_neg hin, if_neg h]

section segments
variable {K R : Type} [NonUnitalNonAssocSemiring K]

/-- **segments add up to the monolithic aperture**: for masks with pairwise disjoint supports the segment transmissions
sum, at every pixel, to the transmission of the union mask — whatever the amplitude and OPD (scalar or array), and
whatever the bounding boxes (they do not even appear: `segPhasor_emb` shows the mask factor zeroes the foreign pixels
of an overlapping box) -/
theorem segments_sum (ph : R → K) (amp : Attr K) (opd : Attr R) (S0 S1 : Int) (ms : List (Int → Int → Bool))
    (hdis : ms.Pairwise (fun a b => ∀ i j, ¬ (a i j = true ∧ b i j = true))) (r c : Int) :
    sumList ms (fun m => segFactor ph amp opd S0 S1 m r c)
      = segFactor ph amp opd S0 S1 (fun i j => ms.any (fun m => m i j)) r c := by
  induction ms with
  | nil => simp [segFactor]
  | cons m ms ih =>
    rw [sumL_cons, ih (List.Pairwise.of_cons hdis)]
    have hrest : ∀ b ∈ ms, ∀ i j, ¬ (m i j = true ∧ b i j = true) := (List.pairwise_cons.mp hdis).1
    unfold segFactor
    simp only [List.any_cons, Bool.or_eq_true]
    by_cases hm : m (r + S0 / 2) (c + S1 / 2) = true
    · have hnone : ¬ (ms.any (fun m => m (r + S0 / 2) (c + S1 / 2)) = true) := by
        intro hh
        obtain ⟨b, hb, hb'⟩ := List.any_eq_true.mp hh
        exact hrest b hb _ _ ⟨hm, hb'⟩
      simp [hm, hnone]
    · simp [hm]

/-- **one plane, two descriptions**: a plane whose mask is split into segments with pairwise disjoint supports (any
bounding slices covering them, overlapping or not) produces the same total field, at every pixel, as the plane with the
single union mask — for any number of incoming fields. Hypotheses `hbig*`: no bounding box is a single pixel (known
finding KF-C03-one-pixel-segment). -/
theorem segmented_eq_monolithic (ph : R → K) (amp : Attr K) (opd : Attr R) (S0 S1 : Int) (l : List Seg) (g0 : Seg)
    (hc : ∀ g ∈ l, g.covers S0 S1) (hc0 : g0.covers S0 S1)
    (hbig : ∀ g ∈ l, g.s.r0 < g.s.r1 ∧ g.s.c0 < g.s.c1 ∧ ¬ (g.s.r1 - g.s.r0 = 1 ∧ g.s.c1 - g.s.c0 = 1))
    (hbig0 : g0.s.r0 < g0.s.r1 ∧ g0.s.c0 < g0.s.c1 ∧ ¬ (g0.s.r1 - g0.s.r0 = 1 ∧ g0.s.c1 - g0.s.c0 = 1))
    (hdis : (l.map Seg.m).Pairwise (fun a b => ∀ i j, ¬ (a i j = true ∧ b i j = true)))
    (hM : ∀ i j, g0.m i j = (l.map Seg.m).any (fun m => m i j))
    (data : List (Fld K)) (hd : ∀ f ∈ data, 0 < f.arr.s0 ∧ 0 < f.arr.s1) (r c : Int) :
    sumList (planeMultiply ph ⟨amp, opd, .segs S0 S1 l⟩ data) (fun g => g.emb r c)
      = sumList (planeMultiply ph ⟨amp, opd, .segs S0 S1 [g0]⟩ data) (fun g => g.emb r c) := by
  rw [C07.plane_multiply_pointwise ph amp opd S0 S1 l hc hbig data hd r c,
      C07.plane_multiply_pointwise ph amp opd S0 S1 [g0] (by simpa using hc0) (by simpa using hbig0) data hd r c]
  congr 1
  rw [sumL_cons, sumL_nil, add_zero]
  have := segments_sum ph amp opd S0 S1 (l.map Seg.m) hdis r c
  rw [sumList_map] at this
  rw [this]
  exact (segFactor_congr ph amp opd S0 S1 _ _ r c (hM _ _)).symm

/-- non-vacuity: two segments with overlapping bounding *rows/columns ranges* but disjoint supports, their union, and a
field on which both descriptions give the same total -/
example : ([Witness.g2, Witness.g3].map Seg.m).Pairwise (fun a b => ∀ i j, ¬ (a i j = true ∧ b i j = true)) ∧
    sumList (planeMultiply Witness.ph1 ⟨.scalar 2, .scalar 0, .segs 5 5 [Witness.g2, Witness.g3]⟩ [Witness.a55]) (fun g => g.emb (-2) 0) = 10 ∧
    sumList (planeMultiply Witness.ph1 ⟨.scalar 2, .scalar 0, .segs 5 5 [Witness.g23]⟩ [Witness.a55]) (fun g => g.emb (-2) 0) = 10 :=
  ⟨Witness.g23_disjoint, by rfl, by rfl⟩

/-- **known finding KF-C03-one-pixel-segment, on the model** (the negation of `segmented_eq_monolithic` without `hbig`):
the partition {one pixel (1,1)} ∪ {2×3 block} of a 5×5 aperture against the monolithic union mask, on a 5×5 field of ones:
at the global coordinate (-2, -2) — pixel (0, 0), outside every mask — the monolithic total is 0 and the segmented total
is 1, because the 1×1 phasor of the one-pixel segment is broadcast over the whole field -/
theorem kf_one_pixel_segment :
    ([Witness.g1, Witness.g2].map Seg.m).Pairwise (fun a b => ∀ i j, ¬ (a i j = true ∧ b i j = true)) ∧
    (∀ i j, Witness.g12.m i j = ([Witness.g1, Witness.g2].map Seg.m).any (fun m => m i j)) ∧
    sumList (planeMultiply Witness.ph1 ⟨.scalar 1, .scalar 0, .segs 5 5 [Witness.g1, Witness.g2]⟩ [Witness.ones55]) (fun g => g.emb (-2) (-2)) = 1 ∧
    sumList (planeMultiply Witness.ph1 ⟨.scalar 1, .scalar 0, .segs 5 5 [Witness.g12]⟩ [Witness.ones55]) (fun g => g.emb (-2) (-2)) = 0 :=
  ⟨Witness.g12_disjoint, fun _ _ => rfl, by rfl, by rfl⟩

/-- non-vacuity of `ChainOK`: the fresh wavefront through a two-segment plane -/
example : ChainOK Witness.ph1 [(⟨.scalar 2, .scalar 0, .segs 5 5 [Witness.g2, Witness.g3]⟩ : PlaneM Int Int)] [Witness.w0] :=
  Witness.chain_ok

/-- **chains of planes distribute**: after any chain of planes the total field is the total incoming field times the
product of the plane transmissions, pixel by pixel — the sum over all (field × segment × segment × …) products equals
the product of the sums. (`ChainOK`: positive shapes and no one-element intermediate field.) -/
theorem chain_distrib (ph : R → K) (ps : List (PlaneM K R)) (data : List (Fld K)) (hok : ChainOK ph ps data) (r c : Int) :
    sumList (chainMultiply ph ps data) (fun g => g.sem r c)
      = ps.foldl (fun acc p => acc * planeT ph p r c) (sumList data (fun f => f.sem r c)) := by
  induction ps generalizing data with
  | nil => rfl
  | cons p ps ih =>
    obtain ⟨hd, hq, h1, hs, hrest⟩ := hok
    show sumList (chainMultiply ph ps (planeMultiply ph p data)) (fun g => g.sem r c) = _
    rw [ih _ hrest, List.foldl_cons]
    congr 1
    unfold planeT
    rw [← C07.plane_multiply_total ph p data hd hq h1 r c]
    apply sumList_congr
    intro g hg
    simp only [Fld.sem, hs g hg, Bool.false_eq_true, if_false]

/-- hence two chains whose planes have pairwise equal transmissions (e.g. segmented vs monolithic, plane by plane, by
`segments_sum`) give the same total field at every pixel -/
theorem chain_segmented_eq (ph : R → K) (ps qs : List (PlaneM K R)) (data : List (Fld K))
    (hp : ChainOK ph ps data) (hq : ChainOK ph qs data)
    (hT : ps.map (planeT ph) = qs.map (planeT ph)) (r c : Int) :
    sumList (chainMultiply ph ps data) (fun g => g.sem r c) = sumList (chainMultiply ph qs data) (fun g => g.sem r c) := by
  rw [chain_distrib ph ps data hp, chain_distrib ph qs data hq]
  have key : ∀ (l : List (PlaneM K R)) (a : K),
      l.foldl (fun acc p => acc * planeT ph p r c) a = (l.map (planeT ph)).foldl (fun acc t => acc * t r c) a := by
    intro l; induction l with
    | nil => intro a; rfl
    | cons x xs ih => intro a; simp only [List.foldl_cons, List.map_cons]; exact ih _
  rw [key, key, hT]

end segments

section propagate
variable {K R : Type} [Add R] [Sub R] [Mul R] [Neg R] [RealLike R] [NonUnitalNonAssocSemiring K] [CxLike K R]

/-- **propagation is additive in the embedded field**: two descriptions of a wavefront — any numbers of fields of any
shapes and offsets — with the same total field at every pixel of the infinite plane (e.g. segmented and monolithic, by
`chain_segmented_eq`) give, after `propagate_dft` with any sampling `αr, αc`, output shape and propagation shape, fields
whose sum is the same at every output sample: each sub-array is re-centred by its own offset inside `dft2`, which makes
its transform the transform of its zero-padded embedding (`dft2_eq_boxDft`), and the transform is additive. The unitary
scale factor is common. (Tilt-free fields, no output mask: `propagateDftNoTilt`.) -/
theorem propagate_linear (A B : List (Fld K)) (hA : ∀ f ∈ A, 0 < f.arr.s0 ∧ 0 < f.arr.s1) (hB : ∀ f ∈ B, 0 < f.arr.s0 ∧ 0 < f.arr.s1)
    (htot : ∀ r c, sumList A (fun f => f.emb r c) = sumList B (fun f => f.emb r c))
    (αr αc : R) (shapeOut propOut : Int × Int) (u v : Int) :
    sumList (propagateDftNoTilt A αr αc shapeOut propOut) (fun g => g.arr.get u v)
      = sumList (propagateDftNoTilt B αr αc shapeOut propOut) (fun g => g.arr.get u v) := by
  unfold propagateDftNoTilt
  cases hw : propWindow shapeOut propOut with
  | none => rfl
  | some w =>
    obtain ⟨ish, isft, psh⟩ := w
    simp only []
    rw [sumList_map, sumList_map]
    obtain ⟨R0, H, C0, W, hbox⟩ := exists_box (A ++ B)
    have hbA : ∀ f ∈ A, _ := fun f hf => hbox f (List.mem_append_left _ hf)
    have hbB : ∀ f ∈ B, _ := fun f hf => hbox f (List.mem_append_right _ hf)
    -- unitary = true: value = unscaled value * scale
    have hscale : ∀ (f : Fld K), (dft2 f.arr αr αc ish.1 ish.2 (RealLike.ofInt psh.1) (RealLike.ofInt psh.2) f.o0 f.o1 true).get u v
        = (dft2 f.arr αr αc ish.1 ish.2 (RealLike.ofInt psh.1) (RealLike.ofInt psh.2) f.o0 f.o1 false).get u v
          * CxLike.ofReal (RealLike.sqrt (RealLike.abs (αr * αc))) := by
      intro f; unfold dft2; simp
    simp only [hscale]
    rw [sumList_mul_right, sumList_mul_right,
        sum_dft2_eq_boxDft A hA αr αc ish.1 ish.2 _ _ u v R0 H C0 W hbA,
        sum_dft2_eq_boxDft B hB αr αc ish.1 ish.2 _ _ u v R0 H C0 W hbB,
        boxDft_congr _ _ htot]

/-- all output fields of the propagation occupy the same window, so the statement carries over to the embedded total:
the propagated `Wavefront.field` (and with `views_depend_on_total` the intensity) of both descriptions agree -/
theorem propagate_linear_emb (A B : List (Fld K)) (hA : ∀ f ∈ A, 0 < f.arr.s0 ∧ 0 < f.arr.s1) (hB : ∀ f ∈ B, 0 < f.arr.s0 ∧ 0 < f.arr.s1)
    (htot : ∀ r c, sumList A (fun f => f.emb r c) = sumList B (fun f => f.emb r c))
    (αr αc : R) (shapeOut propOut : Int × Int) (r c : Int) :
    sumList (propagateDftNoTilt A αr αc shapeOut propOut) (fun g => g.emb r c)
      = sumList (propagateDftNoTilt B αr αc shapeOut propOut) (fun g => g.emb r c) := by
  have key := propagate_linear A B hA hB htot αr αc shapeOut propOut
  unfold propagateDftNoTilt at key ⊢
  cases hw : propWindow shapeOut propOut with
  | none => rfl
  | some w =>
    obtain ⟨ish, isft, psh⟩ := w
    simp only [hw] at key ⊢
    simp only [sumList_map] at key ⊢
    by_cases hin : (arrayExtent ish.1 ish.2 isft.1 isft.2).inb r c = true
    · have hk := key (r - (arrayExtent ish.1 ish.2 isft.1 isft.2).rmin) (c - (arrayExtent ish.1 ish.2 isft.1 isft.2).cmin)
      have e : ∀ (f : Fld K), (Fld.mk (dft2 f.arr αr αc ish.1 ish.2 (RealLike.ofInt psh.1) (RealLike.ofInt psh.2) f.o0 f.o1 true) isft.1 isft.2).emb r c
          = (dft2 f.arr αr αc ish.1 ish.2 (RealLike.ofInt psh.1) (RealLike.ofInt psh.2) f.o0 f.o1 true).get
              (r - (arrayExtent ish.1 ish.2 isft.1 isft.2).rmin) (c - (arrayExtent ish.1 ish.2 isft.1 isft.2).cmin) := by
        intro f
        show embAt (arrayExtent ish.1 ish.2 isft.1 isft.2) _ r c = _
        unfold embAt; rw [if_pos hin]
      simp only [e]; exact hk
    · have e : ∀ (f : Fld K), (Fld.mk (dft2 f.arr αr αc ish.1 ish.2 (RealLike.ofInt psh.1) (RealLike.ofInt psh.2) f.o0 f.o1 true) isft.1 isft.2).emb r c = 0 := by
        intro f
        show embAt (arrayExtent ish.1 ish.2 isft.1 isft.2) _ r c = _
        unfold embAt; rw [if_neg hin]
      simp only [e]
      rw [sumList_all_zero A _ (fun _ _ => rfl), sumList_all_zero B _ (fun _ _ => rfl)]

/-- **propagation with a common tilt shift and an output mask is additive in the embedded field**: as `propagate_linear_emb`,
for builderB's `propagateDft` (the model the driver runs) when all fields carry the same shift `fix + sub` — whatever the
shift, the output mask box, the output and propagation shapes and the sampling -/
theorem propagate_common_linear (A B : List (Fld K)) (hA : ∀ f ∈ A, 0 < f.arr.s0 ∧ 0 < f.arr.s1) (hB : ∀ f ∈ B, 0 < f.arr.s0 ∧ 0 < f.arr.s1)
    (htot : ∀ r c, sumList A (fun f => f.emb r c) = sumList B (fun f => f.emb r c))
    (αr αc : R) (S0 S1 P0 P1 os : Int) (mask : Option Extent) (fix0 fix1 : Int) (sub0 sub1 : R) (r c : Int) :
    sumList (propagateDftCommon A αr αc S0 S1 P0 P1 os mask fix0 fix1 sub0 sub1) (fun g => g.emb r c)
      = sumList (propagateDftCommon B αr αc S0 S1 P0 P1 os mask fix0 fix1 sub0 sub1) (fun g => g.emb r c) := by
  rw [propagateDftCommon_eq, propagateDftCommon_eq]
  cases hw : dftWindow (outExtent (S0 * os) (S1 * os) mask) (P0 * os) (P1 * os) fix0 fix1 with
  | none => rfl
  | some w =>
    obtain ⟨ish, isf, ps⟩ := w
    simp only [sumL_nil, sumList_map]
    obtain ⟨R0, H, C0, W, hbox⟩ := exists_box (A ++ B)
    have hbA : ∀ f ∈ A, _ := fun f hf => hbox f (List.mem_append_left _ hf)
    have hbB : ∀ f ∈ B, _ := fun f hf => hbox f (List.mem_append_right _ hf)
    have hscale : ∀ (f : Fld K) (u v : Int),
        (dft2 f.arr αr αc ish.1 ish.2 (RealLike.ofInt ps.1 + sub0) (RealLike.ofInt ps.2 + sub1) f.o0 f.o1 true).get u v
        = (dft2 f.arr αr αc ish.1 ish.2 (RealLike.ofInt ps.1 + sub0) (RealLike.ofInt ps.2 + sub1) f.o0 f.o1 false).get u v
          * CxLike.ofReal (RealLike.sqrt (RealLike.abs (αr * αc))) := by
      intro f u v; unfold dft2; simp
    by_cases hin : (arrayExtent ish.1 ish.2 isf.1 isf.2).inb r c = true
    · have e : ∀ (f : Fld K), (Fld.mk (dft2 f.arr αr αc ish.1 ish.2 (RealLike.ofInt ps.1 + sub0) (RealLike.ofInt ps.2 + sub1) f.o0 f.o1 true) isf.1 isf.2).emb r c
          = (dft2 f.arr αr αc ish.1 ish.2 (RealLike.ofInt ps.1 + sub0) (RealLike.ofInt ps.2 + sub1) f.o0 f.o1 false).get
              (r - (arrayExtent ish.1 ish.2 isf.1 isf.2).rmin) (c - (arrayExtent ish.1 ish.2 isf.1 isf.2).cmin)
            * CxLike.ofReal (RealLike.sqrt (RealLike.abs (αr * αc))) := by
        intro f
        rw [← hscale]
        show embAt (arrayExtent ish.1 ish.2 isf.1 isf.2) _ r c = _
        unfold embAt; rw [if_pos hin]
      simp only [e]
      rw [sumList_mul_right, sumList_mul_right,
          sum_dft2_eq_boxDft A hA αr αc ish.1 ish.2 _ _ _ _ R0 H C0 W hbA,
          sum_dft2_eq_boxDft B hB αr αc ish.1 ish.2 _ _ _ _ R0 H C0 W hbB,
          boxDft_congr _ _ htot]
    · have e : ∀ (f : Fld K), (Fld.mk (dft2 f.arr αr αc ish.1 ish.2 (RealLike.ofInt ps.1 + sub0) (RealLike.ofInt ps.2 + sub1) f.o0 f.o1 true) isf.1 isf.2).emb r c = 0 := by
        intro f
        show embAt (arrayExtent ish.1 ish.2 isf.1 isf.2) _ r c = _
        unfold embAt; rw [if_neg hin]
      simp only [e]
      rw [sumList_all_zero A _ (fun _ _ => rfl), sumList_all_zero B _ (fun _ _ => rfl)]

end propagate

section coherent
variable {K : Type} [NonAssocSemiring K]

/-- **contributions add coherently**: `Wavefront.intensity` at a sample is the squared modulus of the *sum of the complex
amplitudes* of all fields landing there (`nsq z = |z^2|`), for any number of overlapping fields — e.g. the one field per
segment that `propagate_dft` produces — never the sum of their intensities -/
theorem intensity_coherent (nsq : K → K) (h0 : nsq 0 = 0) (S0 S1 : Int) (data : List (Fld K))
    (hpos : ∀ f ∈ data, 0 < f.arr.s0 ∧ 0 < f.arr.s1) (I : Arr K) (h : wfIntensity 1 nsq S0 S1 data = some I)
    (i j : Int) (hi : 0 ≤ i ∧ i < S0) (hj : 0 ≤ j ∧ j < S1) :
    I.get i j = nsq (sumList data (fun f => f.emb (i - S0 / 2) (j - S1 / 2))) := by
  obtain ⟨_, _, hget⟩ := C07.intensity_eq_normSq_field nsq h0 S0 S1 data hpos I h
  rw [hget i j hi hj, C07.field_eq_sum S0 S1 data i j hi hj]

/-- hence two descriptions with the same total field (segmented / monolithic) have the same `field` and the same
`intensity`, sample by sample -/
theorem views_depend_on_total (nsq : K → K) (h0 : nsq 0 = 0) (S0 S1 : Int) (A B : List (Fld K))
    (hA : ∀ f ∈ A, 0 < f.arr.s0 ∧ 0 < f.arr.s1) (hB : ∀ f ∈ B, 0 < f.arr.s0 ∧ 0 < f.arr.s1)
    (htot : ∀ r c, sumList A (fun f => f.emb r c) = sumList B (fun f => f.emb r c))
    (IA IB : Arr K) (hIA : wfIntensity 1 nsq S0 S1 A = some IA) (hIB : wfIntensity 1 nsq S0 S1 B = some IB)
    (i j : Int) (hi : 0 ≤ i ∧ i < S0) (hj : 0 ≤ j ∧ j < S1) :
    (wfField 1 S0 S1 A).get i j = (wfField 1 S0 S1 B).get i j ∧ IA.get i j = IB.get i j := by
  rw [C07.field_eq_sum S0 S1 A i j hi hj, C07.field_eq_sum S0 S1 B i j hi hj,
      intensity_coherent nsq h0 S0 S1 A hA IA hIA i j hi hj, intensity_coherent nsq h0 S0 S1 B hB IB hIB i j hi hj, htot]
  exact ⟨rfl, rfl⟩

end coherent

/-! ## Independence of array size and of the unit of length -/
section invariance
variable {K R : Type} [Add R] [Sub R] [Mul R] [Neg R] [RealLike R] [NonUnitalNonAssocSemiring K] [CxLike K R]

/-- **`dft2` may be evaluated in blocks of any height**: if a family of sub-arrays (row blocks, column blocks, tiles — of any
sizes, each carried with its own offset) has the same total embedding as the field `f`, the sum of their transforms is
the transform of `f`, at every output sample. There is no size beyond which a different formula applies. -/
theorem dft2_any_blocks (f : Fld K) (blocks : List (Fld K)) (hf : 0 < f.arr.s0 ∧ 0 < f.arr.s1)
    (hb : ∀ b ∈ blocks, 0 < b.arr.s0 ∧ 0 < b.arr.s1)
    (htot : ∀ r c, sumList blocks (fun b => b.emb r c) = f.emb r c)
    (αr αc : R) (M N : Int) (shr shc : R) (u v : Int) :
    sumList blocks (fun b => (dft2 b.arr αr αc M N shr shc b.o0 b.o1 false).get u v)
      = (dft2 f.arr αr αc M N shr shc f.o0 f.o1 false).get u v := by
  obtain ⟨R0, H, C0, W, hbox⟩ := exists_box (f :: blocks)
  rw [sum_dft2_eq_boxDft blocks hb αr αc M N shr shc u v R0 H C0 W (fun b hb' => hbox b (List.mem_cons_of_mem _ hb')),
      dft2_eq_boxDft f hf αr αc M N shr shc u v R0 H C0 W (hbox f (List.mem_cons_self ..))]
  exact boxDft_congr _ _ htot _ _ _ _ _ _ _ _ _ _ _ _

end invariance

section units
attribute [local instance] PlaneC.realLikeReal

/-- **the sampling parameter is unit-free**: `_dft_alpha` is unchanged when every length (both pixel scales, wavelength, focal
length) is multiplied by the same `k ≠ 0` — propagating in metres, millimetres or nanometres is the same computation -/
theorem dftAlpha_unit_free (k dx0 dx1 du0 du1 wl z : ℝ) (os : Int) (hk : k ≠ 0) :
    dftAlpha (k * dx0) (k * dx1) (k * du0) (k * du1) (k * wl) (k * z) os = dftAlpha dx0 dx1 du0 du1 wl z os := by
  unfold dftAlpha Gen.dftAlphaCall Gen.dftAlpha
  have hkk : k * k ≠ 0 := mul_ne_zero hk hk
  rw [Prod.mk.injEq]
  constructor
  · rw [show k * dx0 * (k * du0) = (k * k) * (dx0 * du0) by ring,
        show k * wl * (k * z) * RealLike.ofInt os = (k * k) * (wl * z * RealLike.ofInt os) by ring, mul_div_mul_left _ _ hkk]
  · rw [show k * dx1 * (k * du1) = (k * k) * (dx1 * du1) by ring,
        show k * wl * (k * z) * RealLike.ofInt os = (k * k) * (wl * z * RealLike.ofInt os) by ring, mul_div_mul_left _ _ hkk]

end units

/-! ## Shared tilts stay common; constructed planes are well formed -/
section tilts
variable {K R : Type} [Zero K] [Mul K]

/-- a plane without fitted tilts hands every incoming tilt list on unchanged: if all fields carry the list `t`, so do all
products (per segment) — the premise "common shift" of `segmented_eq_monolithic_propagateDft` survives masked planes -/
theorem common_tilts_plane (ph : R → K) (p : PlaneM K R) (t : List (TiltEl R)) (data : List (TFld K R))
    (hd : ∀ ft ∈ data, ft.2 = t) : ∀ gt ∈ planeMultiplyT ph p [] data, gt.2 = t := by
  intro gt hgt
  unfold planeMultiplyT at hgt
  rw [List.mem_flatMap] at hgt
  obtain ⟨ft, hft, hgt⟩ := hgt
  rw [List.mem_filterMap] at hgt
  obtain ⟨⟨q, n⟩, _, hq⟩ := hgt
  simp only [] at hq
  cases hm : ft.1.mul q with
  | none => rw [hm] at hq; simp at hq
  | some g =>
    rw [hm] at hq
    simp only [Option.map_some, Option.some.injEq] at hq
    rw [← hq]
    simp only [List.getD_eq_getElem?_getD, List.getElem?_nil, Option.getD_none, List.append_nil]
    exact hd ft hft

/-- a Tilt plane appends itself exactly once to every field's list, and acts on the data as the default plane does (identity,
`C07.default_plane_identity`) — whatever the number of fields (segments) -/
theorem common_tilts_tilt (ph : R → K) (one : K) (z : R) (e : TiltEl R) (t : List (TiltEl R)) (data : List (TFld K R))
    (hd : ∀ ft ∈ data, ft.2 = t) :
    (∀ gt ∈ tiltMultiplyT ph one z e data, gt.2 = t ++ [e]) ∧
    (tiltMultiplyT ph one z e data).map Prod.fst = planeMultiply ph ⟨.scalar one, .scalar z, .scalar true⟩ (data.map Prod.fst) := by
  refine ⟨?_, ?_⟩
  · intro gt hgt
    unfold tiltMultiplyT at hgt
    rw [List.mem_map] at hgt
    obtain ⟨ft, hft, rfl⟩ := hgt
    rw [common_tilts_plane ph _ t data hd ft hft]
  · unfold tiltMultiplyT
    rw [List.map_map]
    exact planeMultiplyT_data ph _ [] data

end tilts

section constructed
variable {K R : Type}

/-- **well-formedness from the masks alone**: when the bounding slices are the ones the model of `_plane_slice` /
`boundary_slice` computes (`mkMask`), `SplitPlane.WF` needs no assumption about slices — only that the segment masks are
pairwise disjoint with union `g0.m`, and that every mask (each segment's and the union) has two different set entries
(i.e. is not a one-pixel mask: the scope exclusion of the known finding, now stated on the masks) -/
theorem splitPlane_wf_of_masks (sp : SplitPlane K R)
    (hl : mkMask sp.S0 sp.S1 (sp.l.map Seg.m) = some (.segs sp.S0 sp.S1 sp.l))
    (h0 : mkMask sp.S0 sp.S1 [sp.g0.m] = some (.segs sp.S0 sp.S1 [sp.g0]))
    (hdis : (sp.l.map Seg.m).Pairwise (fun a b => ∀ i j, ¬ (a i j = true ∧ b i j = true)))
    (hM : ∀ i j, sp.g0.m i j = (sp.l.map Seg.m).any (fun m => m i j))
    (htwo : ∀ g ∈ sp.g0 :: sp.l, ∃ i j i' j', 0 ≤ i ∧ i < sp.S0 ∧ 0 ≤ j ∧ j < sp.S1 ∧ 0 ≤ i' ∧ i' < sp.S0 ∧ 0 ≤ j' ∧ j' < sp.S1 ∧
        g.m i j = true ∧ g.m i' j' = true ∧ (i ≠ i' ∨ j ≠ j')) :
    sp.WF := by
  have hcl := (C07.constructed_plane_covers sp.S0 sp.S1 (sp.l.map Seg.m) sp.S0 sp.S1 sp.l hl).2.2
  have hc0 := (C07.constructed_plane_covers sp.S0 sp.S1 [sp.g0.m] sp.S0 sp.S1 [sp.g0] h0).2.2
  have key : ∀ g : Seg, g.covers sp.S0 sp.S1 → (∃ i j i' j', 0 ≤ i ∧ i < sp.S0 ∧ 0 ≤ j ∧ j < sp.S1 ∧ 0 ≤ i' ∧ i' < sp.S0 ∧
      0 ≤ j' ∧ j' < sp.S1 ∧ g.m i j = true ∧ g.m i' j' = true ∧ (i ≠ i' ∨ j ≠ j')) →
      g.covers sp.S0 sp.S1 ∧ (g.s.r0 < g.s.r1 ∧ g.s.c0 < g.s.c1 ∧ ¬ (g.s.r1 - g.s.r0 = 1 ∧ g.s.c1 - g.s.c0 = 1)) := by
    intro g hc ⟨i, j, i', j', a1, a2, a3, a4, b1, b2, b3, b4, m1, m2, hne⟩
    have c1 := hc.2.2.2.2 i j a1 a2 a3 a4 m1
    have c2 := hc.2.2.2.2 i' j' b1 b2 b3 b4 m2
    exact ⟨hc, by omega, by omega, by omega⟩
  refine ⟨?_, ?_, hdis, hM⟩
  · intro g hg
    exact key g (hcl g hg) (htwo g (List.mem_cons_of_mem _ hg))
  · intro g hg
    simp only [List.mem_cons, List.not_mem_nil, or_false] at hg
    subst hg
    exact key sp.g0 (hc0 sp.g0 (List.mem_cons_self ..)) (htwo sp.g0 (List.mem_cons_self ..))

end constructed

/-! ## Tilt planes anywhere in the chain -/
section interleaved
variable {K R : Type} [MulZeroOneClass K]

/-- **Tilt planes interleaved with masked planes change nothing but the tilt lists**: for array fields that all carry the
list `t`, a chain of masked planes (`ok`, `ExtOK`) and Tilt planes in any order produces exactly the fields of the chain
with the Tilt planes removed, and every one of them carries `t ++` (the Tilt planes in order) — each exactly once, however
many segments the planes have -/
theorem interleaved_data (ph : R → K) (o : R) (hph : ph o = 1) (els : List (ChainEl K R)) (hps : ∀ p ∈ chainPlanes els, p.ok)
    (t : List (TiltEl R)) (d : List (TFld K R)) (hd : ∀ ft ∈ d, ft.1.size1 = false ∧ ft.1.extent.valid)
    (ht : ∀ ft ∈ d, ft.2 = t) (hE : ExtOK ((chainPlanes els).map PlaneM.boxes) ((d.map Prod.fst).map Fld.extent)) :
    (runChainT ph 1 o els d).map Prod.fst = chainMultiply ph (chainPlanes els) (d.map Prod.fst) ∧
    ∀ gt ∈ runChainT ph 1 o els d, gt.2 = t ++ chainTilts els := by
  induction els generalizing d t with
  | nil => exact ⟨rfl, by intro gt hgt; rw [ht gt hgt]; simp [chainTilts]⟩
  | cons el els ih =>
    cases el with
    | pl p =>
      have hp : p.ok := hps p (by simp [chainPlanes])
      have hdata := planeMultiplyT_data ph p [] d
      have hd' : ∀ f ∈ d.map Prod.fst, f.size1 = false ∧ f.extent.valid := by
        intro f hf; obtain ⟨ft, hft, rfl⟩ := List.mem_map.mp hf; exact hd ft hft
      obtain ⟨hout, hE2⟩ := step_ext_ok ph p hp (d.map Prod.fst) hd' _ hE
      have hd2 : ∀ ft ∈ planeMultiplyT ph p [] d, ft.1.size1 = false ∧ ft.1.extent.valid := by
        intro ft hft
        apply hout
        rw [← hdata]; exact List.mem_map_of_mem hft
      obtain ⟨h1, h2⟩ := ih (fun q hq => hps q (by simp [chainPlanes, hq])) t _ hd2
        (common_tilts_plane ph p t d ht) (by rw [hdata]; exact hE2)
      refine ⟨?_, h2⟩
      show (runChainT ph 1 o els (planeMultiplyT ph p [] d)).map Prod.fst = chainMultiply ph (chainPlanes els) (planeMultiply ph p (d.map Prod.fst))
      rw [h1, hdata]
    | tl e =>
      obtain ⟨hl, hdat⟩ := common_tilts_tilt ph 1 o e t d ht
      have hd' : ∀ f ∈ d.map Prod.fst, f.size1 = false ∧ f.extent.valid := by
        intro f hf; obtain ⟨ft, hft, rfl⟩ := List.mem_map.mp hf; exact hd ft hft
      have hid : (tiltMultiplyT ph 1 o e d).map Prod.fst = d.map Prod.fst := by
        rw [hdat, planeMultiply_default_id ph o hph _ hd']
      have hd2 : ∀ ft ∈ tiltMultiplyT ph 1 o e d, ft.1.size1 = false ∧ ft.1.extent.valid := by
        intro ft hft
        apply hd'
        rw [← hid]; exact List.mem_map_of_mem hft
      obtain ⟨h1, h2⟩ := ih (fun q hq => hps q (by simpa [chainPlanes] using hq)) (t ++ [e]) _ hd2 hl
        (by rw [hid]; exact hE)
      refine ⟨?_, ?_⟩
      · show (runChainT ph 1 o els (tiltMultiplyT ph 1 o e d)).map Prod.fst = chainMultiply ph (chainPlanes els) (d.map Prod.fst)
        rw [h1, hid]
      · intro gt hgt
        rw [h2 gt hgt]
        simp [chainTilts]

end interleaved


/-! ## Chains with the explicit exponential -/
section chainexp
attribute [local instance] PlaneC.realLikeReal PlaneC.cxLikeComplex

/-- **a chain of planes multiplies the field by the product of `amplitude · exp(+2πi·OPD/λ)` over the planes** (`K = ℂ`):
after any chain of array-mask planes (`ok`: covering slices, no one-pixel box; `ChainOK`) the total field at every pixel is
the total incoming field times, plane after plane, the sum over that plane's segments of `amplitude · exp(2πi·opd/λ)` on the
segment's mask and `0` off it — `chain_distrib` with the phase factor the code uses, made explicit by `C07.planePh_eq_exp` -/
theorem chain_exp (wavelength : ℝ) (ps : List (PlaneM ℂ ℝ)) (hps : ∀ p ∈ ps, p.ok) (data : List (Fld ℂ))
    (hok : ChainOK (planePh wavelength) ps data) (r c : Int) :
    sumList (chainMultiply (planePh wavelength) ps data) (fun g => g.sem r c)
      = ps.foldl (fun acc p => acc * PlaneC.planeExpT wavelength p r c) (sumList data (fun f => f.sem r c)) := by
  rw [chain_distrib (planePh wavelength) ps data hok r c]
  clear hok
  generalize sumList data (fun f => f.sem r c) = a
  have hph : (planePh wavelength : ℝ → ℂ) = fun o : ℝ => Complex.exp (2 * Real.pi * Complex.I * ((o : ℂ) / (wavelength : ℂ))) := by
    funext o; exact C07.planePh_eq_exp wavelength o
  induction ps generalizing a with
  | nil => rfl
  | cons p ps ih =>
    simp only [List.foldl_cons]
    have hp := hps p (List.mem_cons_self ..)
    have e : planeT (planePh wavelength) p r c = PlaneC.planeExpT wavelength p r c := by
      obtain ⟨amp, opd, mask⟩ := p
      cases mask with
      | scalar on => exact absurd hp (by simp [PlaneM.ok])
      | segs S0 S1 l =>
        rw [planeT_segs (planePh wavelength) amp opd S0 S1 l hp r c, hph]
        rfl
    rw [e]
    exact ih (fun x hx => hps x (List.mem_cons_of_mem _ hx)) _

end chainexp

/-! ## End to end -/
section endtoend
variable {K R : Type} [Add R] [Sub R] [Mul R] [Neg R] [RealLike R] [NonAssocSemiring K] [CxLike K R]

/-- every output field of the propagation has a positive shape (positive output and propagation shapes) -/
theorem propagate_pos (data : List (Fld K)) (αr αc : R) (shapeOut propOut : Int × Int)
    (hso : 0 < shapeOut.1 ∧ 0 < shapeOut.2) (hpo : 0 < propOut.1 ∧ 0 < propOut.2) :
    ∀ g ∈ propagateDftNoTilt data αr αc shapeOut propOut, 0 < g.arr.s0 ∧ 0 < g.arr.s1 := by
  intro g hg
  unfold propagateDftNoTilt at hg
  cases hw : propWindow shapeOut propOut with
  | none => rw [hw] at hg; simp at hg
  | some w =>
    obtain ⟨ish, isft, psh⟩ := w
    rw [hw] at hg
    simp only [List.mem_map] at hg
    obtain ⟨f, _, rfl⟩ := hg
    show 0 < ish.1 ∧ 0 < ish.2
    have hva : (arrayExtent shapeOut.1 shapeOut.2 0 0).rmin ≤ (arrayExtent shapeOut.1 shapeOut.2 0 0).rmax ∧
        (arrayExtent shapeOut.1 shapeOut.2 0 0).cmin ≤ (arrayExtent shapeOut.1 shapeOut.2 0 0).cmax := by
      rw [arrayExtent_eq]; simp only; omega
    have hvb : (propExtent propOut.1 propOut.2 0 0).rmin ≤ (propExtent propOut.1 propOut.2 0 0).rmax ∧
        (propExtent propOut.1 propOut.2 0 0).cmin ≤ (propExtent propOut.1 propOut.2 0 0).cmax := by
      unfold propExtent; rw [arrayExtent_eq]; simp only; omega
    unfold propWindow at hw
    by_cases hint : intersect (arrayExtent shapeOut.1 shapeOut.2 0 0) (propExtent propOut.1 propOut.2 0 0) = true
    · rw [dftWindow_some _ _ _ _ _ hva hpo hint, Option.some.injEq, Prod.mk.injEq] at hw
      obtain ⟨h1, _⟩ := hw
      rw [← h1]
      have hv := intersectionExtent_valid _ _ hva hvb hint
      simp only [Extent.nrow, Extent.ncol]; omega
    · rw [dftWindow_none _ _ _ _ _ (by simpa using hint)] at hw; exact absurd hw (by simp)

/-- the chain part of the end-to-end statement: after the same chain in both descriptions the total embedded field is the
same at every pixel, and all fields have positive shapes. Hypotheses on the input only (`WF`, `ExtOK`). -/
theorem chain_total_emb_eq {K R : Type} [NonAssocSemiring K] (ph : R → K) (w0 : Fld K) (h0 : w0.size1 = true)
    (s : SplitPlane K R) (ss : List (SplitPlane K R)) (hwf : ∀ x ∈ s :: ss, x.WF)
    (hEseg : ExtOK (ss.map fun x => x.seg.boxes) s.seg.boxes) (hEmono : ExtOK (ss.map fun x => x.mono.boxes) s.mono.boxes) :
    (∀ r c, sumList (chainMultiply ph ((s :: ss).map SplitPlane.seg) [w0]) (fun g => g.emb r c)
        = sumList (chainMultiply ph ((s :: ss).map SplitPlane.mono) [w0]) (fun g => g.emb r c)) ∧
    (∀ f ∈ chainMultiply ph ((s :: ss).map SplitPlane.seg) [w0], 0 < f.arr.s0 ∧ 0 < f.arr.s1) ∧
    (∀ f ∈ chainMultiply ph ((s :: ss).map SplitPlane.mono) [w0], 0 < f.arr.s0 ∧ 0 < f.arr.s1) := by
  have hsegok : ∀ x ∈ s :: ss, x.seg.ok := fun x hx => (hwf x hx).1
  have hmonook : ∀ x ∈ s :: ss, x.mono.ok := fun x hx => (hwf x hx).2.1
  -- side conditions of the chain theorem, from the input
  obtain ⟨okS, finS⟩ := chainOK_fresh ph w0 h0 s.seg (ss.map SplitPlane.seg) (hsegok s (List.mem_cons_self ..))
    (by intro x hx; obtain ⟨y, hy, rfl⟩ := List.mem_map.mp hx; exact hsegok y (List.mem_cons_of_mem _ hy))
    (by rw [List.map_map]; exact hEseg)
  obtain ⟨okM, finM⟩ := chainOK_fresh ph w0 h0 s.mono (ss.map SplitPlane.mono) (hmonook s (List.mem_cons_self ..))
    (by intro x hx; obtain ⟨y, hy, rfl⟩ := List.mem_map.mp hx; exact hmonook y (List.mem_cons_of_mem _ hy))
    (by rw [List.map_map]; exact hEmono)
  -- plane by plane the transmissions agree
  have hT : ((s :: ss).map SplitPlane.seg).map (planeT ph) = ((s :: ss).map SplitPlane.mono).map (planeT ph) := by
    rw [List.map_map, List.map_map]
    apply List.map_congr_left
    intro x hx
    obtain ⟨h1, h2, hdis, hM⟩ := hwf x hx
    funext r c
    show planeT ph x.seg r c = planeT ph x.mono r c
    unfold SplitPlane.seg SplitPlane.mono
    rw [planeT_segs ph x.amp x.opd x.S0 x.S1 x.l h1 r c, planeT_segs ph x.amp x.opd x.S0 x.S1 [x.g0] h2 r c,
        sumL_cons, sumL_nil, add_zero]
    have := segments_sum ph x.amp x.opd x.S0 x.S1 (x.l.map Seg.m) hdis r c
    rw [sumList_map] at this
    rw [this]
    exact (segFactor_congr ph x.amp x.opd x.S0 x.S1 _ _ r c (hM _ _)).symm
  have hsem := chain_segmented_eq ph _ _ [w0] okS okM hT
  -- no one-element field at the end: `sem` is `emb`
  have hemb : ∀ r c, sumList (chainMultiply ph ((s :: ss).map SplitPlane.seg) [w0]) (fun g => g.emb r c)
      = sumList (chainMultiply ph ((s :: ss).map SplitPlane.mono) [w0]) (fun g => g.emb r c) := by
    intro r c
    have e1 : sumList (chainMultiply ph ((s :: ss).map SplitPlane.seg) [w0]) (fun g => g.emb r c)
        = sumList (chainMultiply ph ((s :: ss).map SplitPlane.seg) [w0]) (fun g => g.sem r c) := by
      apply sumList_congr; intro g hg; simp only [Fld.sem, (finS g hg).1, Bool.false_eq_true, if_false]
    have e2 : sumList (chainMultiply ph ((s :: ss).map SplitPlane.mono) [w0]) (fun g => g.emb r c)
        = sumList (chainMultiply ph ((s :: ss).map SplitPlane.mono) [w0]) (fun g => g.sem r c) := by
      apply sumList_congr; intro g hg; simp only [Fld.sem, (finM g hg).1, Bool.false_eq_true, if_false]
    rw [e1, e2]; exact hsem r c
  have hposS : ∀ f ∈ chainMultiply ph ((s :: ss).map SplitPlane.seg) [w0], 0 < f.arr.s0 ∧ 0 < f.arr.s1 :=
    fun f hf => (pos_iff_valid f).mpr (finS f hf).2
  have hposM : ∀ f ∈ chainMultiply ph ((s :: ss).map SplitPlane.mono) [w0], 0 < f.arr.s0 ∧ 0 < f.arr.s1 :=
    fun f hf => (pos_iff_valid f).mpr (finM f hf).2
  exact ⟨hemb, hposS, hposM⟩

/-- **segmented = monolithic, end to end.** A fresh wavefront (one one-element field) passes a non-empty chain of planes;
every plane is given twice, with its mask split into segments `l` (pairwise disjoint supports, bounding slices that cover
them, possibly overlapping) and with the single union mask `g0` (`SplitPlane.WF`); then `propagate_dft` (tilt-free fields,
no output mask) with any sampling and any output / propagation shape. Then at every sample of the output the complex
`Wavefront.field` of the two descriptions agree, and so do the intensities (`Wavefront.intensity` always returns: C07 `intensity_defined`).
All hypotheses are on the *input*: `WF` per plane, and `ExtOK` — computed from the bounding slices and shapes alone — says
that no box and no intersection of boxes along the chain is a single pixel (the scope exclusion of the known finding
KF-C03-one-pixel-segment). Composes `segments_sum`, `chain_distrib`, `propagate_linear`, C07 `intensity_eq_normSq_field`
and C06 `reduce_total`/`reduce_pairwise_disjoint`. -/
theorem segmented_eq_monolithic_end_to_end (ph : R → K) (w0 : Fld K) (h0 : w0.size1 = true)
    (s : SplitPlane K R) (ss : List (SplitPlane K R)) (hwf : ∀ x ∈ s :: ss, x.WF)
    (hEseg : ExtOK (ss.map fun x => x.seg.boxes) s.seg.boxes) (hEmono : ExtOK (ss.map fun x => x.mono.boxes) s.mono.boxes)
    (αr αc : R) (shapeOut propOut : Int × Int) (hpo : 0 < propOut.1 ∧ 0 < propOut.2) (nsq : K → K) (hn : nsq 0 = 0) (i j : Int)
    (hi : 0 ≤ i ∧ i < shapeOut.1) (hj : 0 ≤ j ∧ j < shapeOut.2) :
    let A := propagateDftNoTilt (chainMultiply ph ((s :: ss).map SplitPlane.seg) [w0]) αr αc shapeOut propOut
    let B := propagateDftNoTilt (chainMultiply ph ((s :: ss).map SplitPlane.mono) [w0]) αr αc shapeOut propOut
    (wfField 1 shapeOut.1 shapeOut.2 A).get i j = (wfField 1 shapeOut.1 shapeOut.2 B).get i j ∧
    ∃ IA IB, wfIntensity 1 nsq shapeOut.1 shapeOut.2 A = some IA ∧ wfIntensity 1 nsq shapeOut.1 shapeOut.2 B = some IB ∧
      IA.get i j = IB.get i j := by
  intro A B
  obtain ⟨hemb, hposS, hposM⟩ := chain_total_emb_eq ph w0 h0 s ss hwf hEseg hEmono
  -- propagation is additive in the embedded field
  have htot : ∀ r c, sumList A (fun g => g.emb r c) = sumList B (fun g => g.emb r c) :=
    fun r c => propagate_linear_emb _ _ hposS hposM hemb αr αc shapeOut propOut r c
  refine ⟨?_, ?_⟩
  · rw [C07.field_eq_sum _ _ A i j hi hj, C07.field_eq_sum _ _ B i j hi hj, htot]
  · obtain ⟨IA, hIA⟩ := C07.intensity_defined nsq shapeOut.1 shapeOut.2 A
    obtain ⟨IB, hIB⟩ := C07.intensity_defined nsq shapeOut.1 shapeOut.2 B
    refine ⟨IA, IB, hIA, hIB, ?_⟩
    exact (views_depend_on_total nsq hn _ _ A B (propagate_pos _ αr αc shapeOut propOut ⟨by omega, by omega⟩ hpo) (propagate_pos _ αr αc shapeOut propOut ⟨by omega, by omega⟩ hpo)
      htot IA IB hIA hIB i j hi hj).2

/-- every output field of the common-shift propagation has a positive shape -/
theorem propagate_common_pos (data : List (Fld K)) (αr αc : R) (S0 S1 P0 P1 os : Int) (mask : Option Extent)
    (fix0 fix1 : Int) (sub0 sub1 : R)
    (hoe : (outExtent (S0 * os) (S1 * os) mask).rmin ≤ (outExtent (S0 * os) (S1 * os) mask).rmax ∧
           (outExtent (S0 * os) (S1 * os) mask).cmin ≤ (outExtent (S0 * os) (S1 * os) mask).cmax)
    (hP : 0 < P0 * os ∧ 0 < P1 * os) :
    ∀ g ∈ propagateDftCommon data αr αc S0 S1 P0 P1 os mask fix0 fix1 sub0 sub1, 0 < g.arr.s0 ∧ 0 < g.arr.s1 := by
  intro g hg
  rw [propagateDftCommon_eq] at hg
  by_cases hint : intersect (outExtent (S0 * os) (S1 * os) mask) (propExtent (P0 * os) (P1 * os) fix0 fix1) = true
  · rw [dftWindow_some _ _ _ _ _ hoe hP hint] at hg
    simp only [List.mem_map] at hg
    obtain ⟨f, _, rfl⟩ := hg
    have hvb : (propExtent (P0 * os) (P1 * os) fix0 fix1).rmin ≤ (propExtent (P0 * os) (P1 * os) fix0 fix1).rmax ∧
        (propExtent (P0 * os) (P1 * os) fix0 fix1).cmin ≤ (propExtent (P0 * os) (P1 * os) fix0 fix1).cmax := by
      unfold propExtent; rw [arrayExtent_eq]; simp only; omega
    have hv := intersectionExtent_valid _ _ hoe hvb hint
    show 0 < (intersectionExtent _ _).nrow ∧ 0 < (intersectionExtent _ _).ncol
    simp only [Extent.nrow, Extent.ncol]; omega
  · rw [dftWindow_none _ _ _ _ _ (by simpa using hint)] at hg; simp at hg

/-- **segmented = monolithic, end to end, through the propagation model the driver runs** (builderB's `propagateDft`:
generated window block `Gen.dftWindow`, generated output shapes): as `segmented_eq_monolithic_end_to_end`, but the fields may
carry a common tilt shift `fix + sub` of any size (Tilt planes shared by all segments, `Wavefront(tilt=…)`) and
`propagate_dft` may be given an output mask (its bounding box `mask`), any output shape, propagation shape and oversampling.
The two descriptions then give the same `Wavefront.field` and intensity at every output sample. -/
theorem segmented_eq_monolithic_propagateDft (ph : R → K) (w0 : Fld K) (h0 : w0.size1 = true)
    (s : SplitPlane K R) (ss : List (SplitPlane K R)) (hwf : ∀ x ∈ s :: ss, x.WF)
    (hEseg : ExtOK (ss.map fun x => x.seg.boxes) s.seg.boxes) (hEmono : ExtOK (ss.map fun x => x.mono.boxes) s.mono.boxes)
    (αr αc : R) (S0 S1 P0 P1 os : Int) (mask : Option Extent) (fix0 fix1 : Int) (sub0 sub1 : R)
    (hoe : (outExtent (S0 * os) (S1 * os) mask).rmin ≤ (outExtent (S0 * os) (S1 * os) mask).rmax ∧
           (outExtent (S0 * os) (S1 * os) mask).cmin ≤ (outExtent (S0 * os) (S1 * os) mask).cmax)
    (hP : 0 < P0 * os ∧ 0 < P1 * os) (nsq : K → K) (hn : nsq 0 = 0) (i j : Int)
    (hi : 0 ≤ i ∧ i < S0 * os) (hj : 0 ≤ j ∧ j < S1 * os) :
    let A := propagateDftCommon (chainMultiply ph ((s :: ss).map SplitPlane.seg) [w0]) αr αc S0 S1 P0 P1 os mask fix0 fix1 sub0 sub1
    let B := propagateDftCommon (chainMultiply ph ((s :: ss).map SplitPlane.mono) [w0]) αr αc S0 S1 P0 P1 os mask fix0 fix1 sub0 sub1
    (wfField 1 (S0 * os) (S1 * os) A).get i j = (wfField 1 (S0 * os) (S1 * os) B).get i j ∧
    ∃ IA IB, wfIntensity 1 nsq (S0 * os) (S1 * os) A = some IA ∧ wfIntensity 1 nsq (S0 * os) (S1 * os) B = some IB ∧
      IA.get i j = IB.get i j := by
  intro A B
  obtain ⟨hemb, hposS, hposM⟩ := chain_total_emb_eq ph w0 h0 s ss hwf hEseg hEmono
  have htot : ∀ r c, sumList A (fun g => g.emb r c) = sumList B (fun g => g.emb r c) :=
    fun r c => propagate_common_linear _ _ hposS hposM hemb αr αc S0 S1 P0 P1 os mask fix0 fix1 sub0 sub1 r c
  refine ⟨?_, ?_⟩
  · rw [C07.field_eq_sum _ _ A i j hi hj, C07.field_eq_sum _ _ B i j hi hj, htot]
  · obtain ⟨IA, hIA⟩ := C07.intensity_defined nsq (S0 * os) (S1 * os) A
    obtain ⟨IB, hIB⟩ := C07.intensity_defined nsq (S0 * os) (S1 * os) B
    refine ⟨IA, IB, hIA, hIB, ?_⟩
    exact (views_depend_on_total nsq hn _ _ A B
      (propagate_common_pos _ αr αc S0 S1 P0 P1 os mask fix0 fix1 sub0 sub1 hoe hP)
      (propagate_common_pos _ αr αc S0 S1 P0 P1 os mask fix0 fix1 sub0 sub1 hoe hP)
      htot IA IB hIA hIB i j hi hj).2

/-- non-vacuity: a chain of two planes, each split into the segments `g2`, `g3` (union `g23`), satisfies `WF` and `ExtOK` -/
example : (∀ x ∈ [Witness.sp, Witness.sp], x.WF) ∧
    ExtOK ([Witness.sp].map fun x => x.seg.boxes) Witness.sp.seg.boxes ∧
    ExtOK ([Witness.sp].map fun x => x.mono.boxes) Witness.sp.mono.boxes :=
  ⟨by intro x hx; simp only [List.mem_cons, List.not_mem_nil, or_false, or_self] at hx; subst hx; exact Witness.sp_wf,
   Witness.sp_ext.1, Witness.sp_ext.2⟩

end endtoend

section fft

/-- **segmented = monolithic through `propagate_fft`** (`K = ℂ`), composing C09 `fft_eq_propagate_dft` (the FFT path returns the
field of `propagate_dft` at the wavelength it reports) with `propagate_common_linear`: when `propagate_fft` answers for both
descriptions (same grid, output shape and reported wavelength — these depend on the sampling only), every sample of the two
`Wavefront.field`s agrees, for a fresh wavefront through any non-empty chain of partitioned planes (`WF`, `ExtOK`) -/
theorem segmented_eq_monolithic_propagate_fft (ph : ℝ → ℂ) (w0 : Fld ℂ) (h0 : w0.size1 = true)
    (s : SplitPlane ℂ ℝ) (ss : List (SplitPlane ℂ ℝ)) (hwf : ∀ x ∈ s :: ss, x.WF)
    (hEseg : ExtOK (ss.map fun x => x.seg.boxes) s.seg.boxes) (hEmono : ExtOK (ss.map fun x => x.mono.boxes) s.mono.boxes)
    (W0 W1 : Int) (dx0 dx1 du0 du1 wl z : ℝ) (os : Int) (shape : Option (Int × Int)) (scrA scrB : Option (Arr ℂ))
    (lam : ℝ) (S0 S1 : Int) (so : Int × Int) (gA gB : Fld ℂ)
    (hfA : propagateFft 1 (chainMultiply ph ((s :: ss).map SplitPlane.seg) [w0]) false W0 W1 dx0 dx1 du0 du1 wl z os shape scrA
      = FftOut.ok lam S0 S1 so gA)
    (hfB : propagateFft 1 (chainMultiply ph ((s :: ss).map SplitPlane.mono) [w0]) false W0 W1 dx0 dx1 du0 du1 wl z os shape scrB
      = FftOut.ok lam S0 S1 so gB)
    (hcons : dx0 * du0 = dx1 * du1 ∨ (S0 : ℝ) * (dx0 * du0) = (S1 : ℝ) * (dx1 * du1))
    (hp : dx0 * du0 ≠ 0) (hp1 : dx1 * du1 ≠ 0) (hz : z ≠ 0) (hos : 0 < os) (hS : 0 < S0 ∧ 0 < S1)
    (hW : 0 ≤ W0 ∧ W0 ≤ S0 ∧ 0 ≤ W1 ∧ W1 ≤ S1)
    (hfitA : ∀ f ∈ chainMultiply ph ((s :: ss).map SplitPlane.seg) [w0], f.within W0 W1)
    (hfitB : ∀ f ∈ chainMultiply ph ((s :: ss).map SplitPlane.mono) [w0], f.within W0 W1)
    (hso : 0 < so.1 ∧ 0 < so.2) (i j : Int) (hi : 0 ≤ i ∧ i < so.1) (hj : 0 ≤ j ∧ j < so.2) :
    (wavefrontField 1 [gA] so.1 so.2).get i j = (wavefrontField 1 [gB] so.1 so.2).get i j := by
  obtain ⟨hemb, hposS, hposM⟩ := chain_total_emb_eq ph w0 h0 s ss hwf hEseg hEmono
  rw [C09.fft_eq_propagate_dft _ W0 W1 dx0 dx1 du0 du1 wl z os shape scrA lam S0 S1 so gA hfA hcons hp hp1 hz hos hS hW hfitA hposS hso i j hi hj,
      C09.fft_eq_propagate_dft _ W0 W1 dx0 dx1 du0 du1 wl z os shape scrB lam S0 S1 so gB hfB hcons hp hp1 hz hos hS hW hfitB hposM hso i j hi hj]
  have key := fun r c => propagate_common_linear _ _ hposS hposM hemb
    (dftAlpha dx0 dx1 du0 du1 lam z os).1 (dftAlpha dx0 dx1 du0 du1 lam z os).2 so.1 so.2 so.1 so.2 1 none 0 0 (0 : ℝ) (0 : ℝ) r c
  have e : ∀ X : List (Fld ℂ), wavefrontField 1 X so.1 so.2 = wfField 1 so.1 so.2 X :=
    fun X => (wfField_eq 1 so.1 so.2 X).symm
  rw [e, e]
  show (wfField 1 so.1 so.2 (propagateDftCommon (chainMultiply ph ((s :: ss).map SplitPlane.seg) [w0]) _ _ so.1 so.2 so.1 so.2 1 none 0 0 (0 : ℝ) (0 : ℝ))).get i j
     = (wfField 1 so.1 so.2 (propagateDftCommon (chainMultiply ph ((s :: ss).map SplitPlane.mono) [w0]) _ _ so.1 so.2 so.1 so.2 1 none 0 0 (0 : ℝ) (0 : ℝ))).get i j
  rw [C07.field_eq_sum _ _ _ i j hi hj, C07.field_eq_sum _ _ _ i j hi hj, key]

/-- the intensity clause for `propagate_fft`: under the hypotheses of `segmented_eq_monolithic_propagate_fft` (and positive shapes of
the two returned fields) both intensities exist and agree at every sample -/
theorem segmented_eq_monolithic_propagate_fft_intensity (ph : ℝ → ℂ) (w0 : Fld ℂ) (h0 : w0.size1 = true)
    (s : SplitPlane ℂ ℝ) (ss : List (SplitPlane ℂ ℝ)) (hwf : ∀ x ∈ s :: ss, x.WF)
    (hEseg : ExtOK (ss.map fun x => x.seg.boxes) s.seg.boxes) (hEmono : ExtOK (ss.map fun x => x.mono.boxes) s.mono.boxes)
    (W0 W1 : Int) (dx0 dx1 du0 du1 wl z : ℝ) (os : Int) (shape : Option (Int × Int)) (scrA scrB : Option (Arr ℂ))
    (lam : ℝ) (S0 S1 : Int) (so : Int × Int) (gA gB : Fld ℂ)
    (hfA : propagateFft 1 (chainMultiply ph ((s :: ss).map SplitPlane.seg) [w0]) false W0 W1 dx0 dx1 du0 du1 wl z os shape scrA
      = FftOut.ok lam S0 S1 so gA)
    (hfB : propagateFft 1 (chainMultiply ph ((s :: ss).map SplitPlane.mono) [w0]) false W0 W1 dx0 dx1 du0 du1 wl z os shape scrB
      = FftOut.ok lam S0 S1 so gB)
    (hcons : dx0 * du0 = dx1 * du1 ∨ (S0 : ℝ) * (dx0 * du0) = (S1 : ℝ) * (dx1 * du1))
    (hp : dx0 * du0 ≠ 0) (hp1 : dx1 * du1 ≠ 0) (hz : z ≠ 0) (hos : 0 < os) (hS : 0 < S0 ∧ 0 < S1)
    (hW : 0 ≤ W0 ∧ W0 ≤ S0 ∧ 0 ≤ W1 ∧ W1 ≤ S1)
    (hfitA : ∀ f ∈ chainMultiply ph ((s :: ss).map SplitPlane.seg) [w0], f.within W0 W1)
    (hfitB : ∀ f ∈ chainMultiply ph ((s :: ss).map SplitPlane.mono) [w0], f.within W0 W1)
    (hgA : 0 < gA.arr.s0 ∧ 0 < gA.arr.s1) (hgB : 0 < gB.arr.s0 ∧ 0 < gB.arr.s1)
    (hso : 0 < so.1 ∧ 0 < so.2) (nsq : ℂ → ℂ) (hn : nsq 0 = 0) (i j : Int) (hi : 0 ≤ i ∧ i < so.1) (hj : 0 ≤ j ∧ j < so.2) :
    ∃ IA IB, wfIntensity 1 nsq so.1 so.2 [gA] = some IA ∧ wfIntensity 1 nsq so.1 so.2 [gB] = some IB ∧ IA.get i j = IB.get i j := by
  have hf := segmented_eq_monolithic_propagate_fft ph w0 h0 s ss hwf hEseg hEmono W0 W1 dx0 dx1 du0 du1 wl z os shape scrA scrB
    lam S0 S1 so gA gB hfA hfB hcons hp hp1 hz hos hS hW hfitA hfitB hso i j hi hj
  have e : ∀ X : List (Fld ℂ), wavefrontField 1 X so.1 so.2 = wfField 1 so.1 so.2 X := fun X => (wfField_eq 1 so.1 so.2 X).symm
  rw [e, e] at hf
  obtain ⟨IA, hIA, _, _, hgetA⟩ := C07.intensity_eq_normSq_field_total nsq hn so.1 so.2 [gA]
    (by intro f hf'; simp only [List.mem_cons, List.not_mem_nil, or_false] at hf'; subst hf'; exact hgA)
  obtain ⟨IB, hIB, _, _, hgetB⟩ := C07.intensity_eq_normSq_field_total nsq hn so.1 so.2 [gB]
    (by intro f hf'; simp only [List.mem_cons, List.not_mem_nil, or_false] at hf'; subst hf'; exact hgB)
  exact ⟨IA, IB, hIA, hIB, by rw [hgetA i j hi hj, hgetB i j hi hj, hf]⟩

end fft

section anywindow
variable {K R : Type} [Add R] [Sub R] [Mul R] [Neg R] [RealLike R] [NonUnitalNonAssocSemiring K] [CxLike K R]

/-- **additivity of the propagation of one field loop body, for any output window**: builderB's `propagateField` (the body of
`propagate_dft`'s loop) with a common shift, any output extent `oe` (whole array or mask box) and any propagation shape —
descriptions with the same total embedded field give the same summed output at every global coordinate (a dropped field
counts as zero, `embO`) -/
theorem propagateField_linear (A B : List (Fld K)) (hA : ∀ f ∈ A, 0 < f.arr.s0 ∧ 0 < f.arr.s1) (hB : ∀ f ∈ B, 0 < f.arr.s0 ∧ 0 < f.arr.s1)
    (htot : ∀ r c, sumList A (fun f => f.emb r c) = sumList B (fun f => f.emb r c))
    (αr αc : R) (oe : Extent) (P0 P1 fix0 fix1 : Int) (sub0 sub1 : R) (r c : Int) :
    sumList A (fun f => embO (propagateField ⟨f, fix0, fix1, sub0, sub1⟩ αr αc oe P0 P1) r c)
      = sumList B (fun f => embO (propagateField ⟨f, fix0, fix1, sub0, sub1⟩ αr αc oe P0 P1) r c) := by
  have hoe : outExtent 0 0 (some oe) = oe := by rw [outExtent_mask]; cases oe; simp
  have key : ∀ X : List (Fld K), sumList (propagateDftCommon X αr αc 0 0 P0 P1 1 (some oe) fix0 fix1 sub0 sub1) (fun g => g.emb r c)
      = sumList X (fun f => embO (propagateField ⟨f, fix0, fix1, sub0, sub1⟩ αr αc oe P0 P1) r c) := by
    intro X
    unfold propagateDftCommon propagateDft
    rw [List.filterMap_map, sumList_filterMap]
    apply sumList_congr
    intro f _
    simp only [Function.comp_def, Gen.dftShapeOut, Gen.dftPropShapeOut, Int.mul_one, Int.zero_mul, hoe]
    cases propagateField ⟨f, fix0, fix1, sub0, sub1⟩ αr αc oe P0 P1 <;> rfl
  rw [← key A, ← key B]
  exact propagate_common_linear A B hA hB htot αr αc 0 0 P0 P1 1 (some oe) fix0 fix1 sub0 sub1 r c

end anywindow

section afterprop
variable {K R : Type} [Add R] [Sub R] [Mul R] [Neg R] [RealLike R] [NonAssocSemiring K] [CxLike K R]

/-- **a plane after a propagation** (chains of planes AND propagations, one more link): two descriptions with the same total field are
propagated (common shift, any window) and then pass a masked plane (e.g. an image-plane mask given in segments `l`); if the
propagation window is not a single sample, the total field after the plane is again the same for both, at every pixel — the
propagated total times the plane's transmission (`C07.plane_multiply_pointwise` after `propagate_common_linear`) -/
theorem plane_after_propagation (ph : R → K) (amp : Attr K) (opd : Attr R) (T0 T1 : Int) (l : List Seg)
    (hc : ∀ g ∈ l, g.covers T0 T1)
    (hbig : ∀ g ∈ l, g.s.r0 < g.s.r1 ∧ g.s.c0 < g.s.c1 ∧ ¬ (g.s.r1 - g.s.r0 = 1 ∧ g.s.c1 - g.s.c0 = 1))
    (X Y : List (Fld K)) (hX : ∀ f ∈ X, 0 < f.arr.s0 ∧ 0 < f.arr.s1) (hY : ∀ f ∈ Y, 0 < f.arr.s0 ∧ 0 < f.arr.s1)
    (htot : ∀ r c, sumList X (fun f => f.emb r c) = sumList Y (fun f => f.emb r c))
    (αr αc : R) (S0 S1 P0 P1 os : Int) (mask : Option Extent) (fix0 fix1 : Int) (sub0 sub1 : R)
    (hoe : (outExtent (S0 * os) (S1 * os) mask).rmin ≤ (outExtent (S0 * os) (S1 * os) mask).rmax ∧
           (outExtent (S0 * os) (S1 * os) mask).cmin ≤ (outExtent (S0 * os) (S1 * os) mask).cmax)
    (hP : 0 < P0 * os ∧ 0 < P1 * os)
    (h1X : ∀ g ∈ propagateDftCommon X αr αc S0 S1 P0 P1 os mask fix0 fix1 sub0 sub1, g.size1 = false)
    (h1Y : ∀ g ∈ propagateDftCommon Y αr αc S0 S1 P0 P1 os mask fix0 fix1 sub0 sub1, g.size1 = false) (r c : Int) :
    sumList (planeMultiply ph ⟨amp, opd, .segs T0 T1 l⟩ (propagateDftCommon X αr αc S0 S1 P0 P1 os mask fix0 fix1 sub0 sub1)) (fun g => g.emb r c)
      = sumList (planeMultiply ph ⟨amp, opd, .segs T0 T1 l⟩ (propagateDftCommon Y αr αc S0 S1 P0 P1 os mask fix0 fix1 sub0 sub1)) (fun g => g.emb r c) := by
  rw [C07.plane_multiply_pointwise ph amp opd T0 T1 l hc hbig _ (propagate_common_pos X αr αc S0 S1 P0 P1 os mask fix0 fix1 sub0 sub1 hoe hP) r c,
      C07.plane_multiply_pointwise ph amp opd T0 T1 l hc hbig _ (propagate_common_pos Y αr αc S0 S1 P0 P1 os mask fix0 fix1 sub0 sub1 hoe hP) r c]
  congr 1
  have eX : sumList (propagateDftCommon X αr αc S0 S1 P0 P1 os mask fix0 fix1 sub0 sub1) (fun f => f.sem r c)
      = sumList (propagateDftCommon X αr αc S0 S1 P0 P1 os mask fix0 fix1 sub0 sub1) (fun f => f.emb r c) := by
    apply sumList_congr; intro g hg; simp only [Fld.sem, h1X g hg, Bool.false_eq_true, if_false]
  have eY : sumList (propagateDftCommon Y αr αc S0 S1 P0 P1 os mask fix0 fix1 sub0 sub1) (fun f => f.sem r c)
      = sumList (propagateDftCommon Y αr αc S0 S1 P0 P1 os mask fix0 fix1 sub0 sub1) (fun f => f.emb r c) := by
    apply sumList_congr; intro g hg; simp only [Fld.sem, h1Y g hg, Bool.false_eq_true, if_false]
  rw [eX, eY]
  exact propagate_common_linear X Y hX hY htot αr αc S0 S1 P0 P1 os mask fix0 fix1 sub0 sub1 r c

end afterprop

section e2e_example
/-- toy number system for the non-vacuity example below (the theorem is generic in `K`, `R`) -/
local instance : RealLike Int := ⟨id, 6, id, fun x => x.natAbs⟩
local instance : CxLike Int Int := ⟨fun t => t, id, id, fun z _ => z⟩

/-- non-vacuity of `segmented_eq_monolithic_propagateDft` as a whole: all its hypotheses hold together for the two-plane chain of the
split plane `Witness.sp` (two segments with overlapping row/column ranges and their union), a 4×4 oversampled output, the full
propagation window and a non-zero common shift (the instantiated conclusion — equality of field and intensity at sample (1, 2) — is the type Lean infers for this term) -/
example :=
  segmented_eq_monolithic_propagateDft Witness.ph1 Witness.w0 rfl Witness.sp [Witness.sp]
    (by intro x hx; simp only [List.mem_cons, List.not_mem_nil, or_false, or_self] at hx; subst hx; exact Witness.sp_wf)
    Witness.sp_ext.1 Witness.sp_ext.2 1 1 2 2 2 2 2 none 1 0 0 0
    (by rw [outExtent_nomask]; decide) (by decide) (fun z => z * z) (by simp) 1 2 (by decide) (by decide)

end e2e_example

section fitted

/-- **segments with their own fitted tilts against the monolithic aperture** (`K = ℂ`; composes C04 `segmented_tilt_equiv_complex`
with `propagateField_linear`): the fields of the segments, each carrying its own tilt as metadata (what `fit_tilt` on a segmented
plane produces: a different shift and window per field), sum — at every output coordinate that lies in every segment's window and
in the window of the tilt-free propagation — to the propagated field of ANY description `M` whose total embedded field equals that
of the segments with their ramps written back into the OPD (`htot`; e.g. the monolithic plane, by `segments_sum` /
`segmented_eq_monolithic`). Outside the common window the two computations crop differently and are not claimed equal. -/
theorem fitted_tilts_eq_monolithic (segs : List (SegTilt ℂ ℝ)) (M : List (Fld ℂ)) (dx0 dx1 du0 du1 wl z : ℝ) (os : Int)
    (hw : wl ≠ 0) (hz : z ≠ 0) (hos : os ≠ 0) (hdu : du0 ≠ 0 ∧ du1 ≠ 0)
    (hsplit : ∀ s ∈ segs, ((s.fix0 : ℝ) + s.sub0, (s.fix1 : ℝ) + s.sub1) = fieldShift [TiltEl.angular s.thx s.thy] z wl du0 du1 os true)
    (hpos : ∀ s ∈ segs, 0 < s.s0 ∧ 0 < s.s1) (hM : ∀ f ∈ M, 0 < f.arr.s0 ∧ 0 < f.arr.s1)
    (htot : ∀ r c, sumList segs (fun s => (phasorField s.amp (fun x y => s.opd0 x y + (s.thx * RealLike.ofInt (cc s.s0 x + s.o0) * dx0
          - s.thy * RealLike.ofInt (cc s.s1 y + s.o1) * dx1)) wl s.s0 s.s1 s.o0 s.o1 : Fld ℂ).emb r c) = sumList M (fun f => f.emb r c))
    (oe oe' : Extent) (P0 P1 P0' P1' : Int)
    (hoe : oe.rmin ≤ oe.rmax ∧ oe.cmin ≤ oe.cmax) (hP : 0 < P0 ∧ 0 < P1)
    (hoe' : oe'.rmin ≤ oe'.rmax ∧ oe'.cmin ≤ oe'.cmax) (hP' : 0 < P0' ∧ 0 < P1') (r c : Int)
    (hin : ∀ s ∈ segs, (oe.inb r c && (propExtent P0 P1 s.fix0 s.fix1).inb r c) = true)
    (hin' : (oe'.inb r c && (propExtent P0' P1' 0 0).inb r c) = true) :
    (segs.map fun s => embO (propagateField ⟨phasorField s.amp s.opd0 wl s.s0 s.s1 s.o0 s.o1, s.fix0, s.fix1, s.sub0, s.sub1⟩
        (dftAlpha dx0 dx1 du0 du1 wl z os).1 (dftAlpha dx0 dx1 du0 du1 wl z os).2 oe P0 P1) r c).sum
      = sumList M (fun f => embO (propagateField ⟨f, 0, 0, 0, 0⟩
          (dftAlpha dx0 dx1 du0 du1 wl z os).1 (dftAlpha dx0 dx1 du0 du1 wl z os).2 oe' P0' P1') r c) := by
  rw [C04.segmented_tilt_equiv_complex segs dx0 dx1 du0 du1 wl z os hw hz hos hdu hsplit oe oe' P0 P1 P0' P1' hoe hP hoe' hP' r c hin hin']
  have hA : ∀ f ∈ segs.map (fun s => (phasorField s.amp (fun x y => s.opd0 x y + (s.thx * RealLike.ofInt (cc s.s0 x + s.o0) * dx0
          - s.thy * RealLike.ofInt (cc s.s1 y + s.o1) * dx1)) wl s.s0 s.s1 s.o0 s.o1 : Fld ℂ)), 0 < f.arr.s0 ∧ 0 < f.arr.s1 := by
    intro f hf
    obtain ⟨s, hs, rfl⟩ := List.mem_map.mp hf
    exact hpos s hs
  have key := propagateField_linear _ M hA hM (by intro r c; rw [sumList_map]; exact htot r c)
    (dftAlpha dx0 dx1 du0 du1 wl z os).1 (dftAlpha dx0 dx1 du0 du1 wl z os).2 oe' P0' P1' 0 0 (0 : ℝ) (0 : ℝ) r c
  rw [← key, sumList_map, sumList_eq_sum]

end fitted

section interleaved_e2e
variable {K R : Type} [Add R] [Sub R] [Mul R] [Neg R] [RealLike R] [NonAssocSemiring K] [CxLike K R]

/-- **segmented = monolithic with Tilt planes anywhere in the chain, as one theorem.** A fresh wavefront carrying the tilt list
`t0` (`Wavefront(tilt=…)`, leading Tilt planes) passes a masked plane and then masked planes and Tilt planes in any order; every
masked plane is given segmented and monolithic (`WF`, `ExtOK` on the input). Then in BOTH descriptions every field carries
exactly `t0 ++` the Tilt planes in order — once each, whatever the number of segments — so all fields have one common shift,
and for that (any) shift `fix + sub`, any output mask, shapes and sampling, `propagate_dft` (builderB's model, generated
window) gives the same `Wavefront.field` and the same intensity at every sample. -/
theorem segmented_eq_monolithic_interleaved (ph : R → K) (o : R) (hph : ph o = 1) (w0 : Fld K) (h0 : w0.size1 = true)
    (t0 : List (TiltEl R)) (s : SplitPlane K R) (els : List (SplitPlane K R ⊕ TiltEl R))
    (hwf : ∀ x ∈ s :: splits els, x.WF)
    (hEseg : ExtOK ((splits els).map fun x => x.seg.boxes) s.seg.boxes)
    (hEmono : ExtOK ((splits els).map fun x => x.mono.boxes) s.mono.boxes)
    (αr αc : R) (S0 S1 P0 P1 os : Int) (mask : Option Extent) (fix0 fix1 : Int) (sub0 sub1 : R)
    (hoe : (outExtent (S0 * os) (S1 * os) mask).rmin ≤ (outExtent (S0 * os) (S1 * os) mask).rmax ∧
           (outExtent (S0 * os) (S1 * os) mask).cmin ≤ (outExtent (S0 * os) (S1 * os) mask).cmax)
    (hP : 0 < P0 * os ∧ 0 < P1 * os) (nsq : K → K) (hn : nsq 0 = 0) (i j : Int)
    (hi : 0 ≤ i ∧ i < S0 * os) (hj : 0 ≤ j ∧ j < S1 * os) :
    let DA := runChainT ph 1 o (descr true (.inl s :: els)) [(w0, t0)]
    let DB := runChainT ph 1 o (descr false (.inl s :: els)) [(w0, t0)]
    let A := propagateDftCommon (DA.map Prod.fst) αr αc S0 S1 P0 P1 os mask fix0 fix1 sub0 sub1
    let B := propagateDftCommon (DB.map Prod.fst) αr αc S0 S1 P0 P1 os mask fix0 fix1 sub0 sub1
    (∀ gt ∈ DA, gt.2 = t0 ++ chainTilts (descr true els)) ∧ (∀ gt ∈ DB, gt.2 = t0 ++ chainTilts (descr true els)) ∧
    (wfField 1 (S0 * os) (S1 * os) A).get i j = (wfField 1 (S0 * os) (S1 * os) B).get i j ∧
    ∃ IA IB, wfIntensity 1 nsq (S0 * os) (S1 * os) A = some IA ∧ wfIntensity 1 nsq (S0 * os) (S1 * os) B = some IB ∧
      IA.get i j = IB.get i j := by
  intro DA DB A B
  -- both descriptions: the data are those of the chain without the Tilt planes
  have side : ∀ (seg : Bool) (hE : ExtOK ((splits els).map fun x => (if seg then x.seg else x.mono).boxes) (if seg then s.seg else s.mono).boxes),
      (runChainT ph 1 o (descr seg (.inl s :: els)) [(w0, t0)]).map Prod.fst
        = chainMultiply ph ((s :: splits els).map fun x => if seg then x.seg else x.mono) [w0] ∧
      ∀ gt ∈ runChainT ph 1 o (descr seg (.inl s :: els)) [(w0, t0)], gt.2 = t0 ++ chainTilts (descr true els) := by
    intro seg hE
    have hpok : ∀ x ∈ s :: splits els, (if seg then x.seg else x.mono).ok := by
      intro x hx; cases seg
      · exact (hwf x hx).2.1
      · exact (hwf x hx).1
    obtain ⟨hout, hext⟩ := fresh_step_ok ph w0 h0 _ (hpok s (List.mem_cons_self ..))
    have hdata : (planeMultiplyT ph (if seg then s.seg else s.mono) [] [(w0, t0)]).map Prod.fst
        = planeMultiply ph (if seg then s.seg else s.mono) [w0] := planeMultiplyT_data ph (if seg then s.seg else s.mono) [] [(w0, t0)]
    have hd2 : ∀ ft ∈ planeMultiplyT ph (if seg then s.seg else s.mono) [] [(w0, t0)], ft.1.size1 = false ∧ ft.1.extent.valid := by
      intro ft hft; apply hout; rw [← hdata]; exact List.mem_map_of_mem hft
    have hps : ∀ p ∈ chainPlanes (descr seg els), p.ok := by
      rw [chainPlanes_descr]; intro p hp
      obtain ⟨x, hx, rfl⟩ := List.mem_map.mp hp
      exact hpok x (List.mem_cons_of_mem _ hx)
    obtain ⟨h1, h2⟩ := interleaved_data ph o hph (descr seg els) hps t0 _ hd2
      (common_tilts_plane ph _ t0 [(w0, t0)] (by intro ft hft; simp only [List.mem_cons, List.not_mem_nil, or_false] at hft; rw [hft]))
      (by rw [hdata, chainPlanes_descr, List.map_map, hext]; exact hE)
    refine ⟨?_, ?_⟩
    · show (runChainT ph 1 o (descr seg els) (planeMultiplyT ph (if seg then s.seg else s.mono) [] [(w0, t0)])).map Prod.fst = _
      rw [h1, hdata, chainPlanes_descr]; rfl
    · intro gt hgt
      rw [h2 gt hgt, chainTilts_descr]
  obtain ⟨hA, htA⟩ := side true (by simpa using hEseg)
  obtain ⟨hB, htB⟩ := side false (by simpa using hEmono)
  have key := segmented_eq_monolithic_propagateDft ph w0 h0 s (splits els) hwf hEseg hEmono αr αc S0 S1 P0 P1 os mask
    fix0 fix1 sub0 sub1 hoe hP nsq hn i j hi hj
  simp only [] at key
  have eA : DA.map Prod.fst = chainMultiply ph ((s :: splits els).map SplitPlane.seg) [w0] := by rw [hA]; simp
  have eB : DB.map Prod.fst = chainMultiply ph ((s :: splits els).map SplitPlane.mono) [w0] := by rw [hB]; simp
  refine ⟨htA, htB, ?_⟩
  have hAA : A = propagateDftCommon (chainMultiply ph ((s :: splits els).map SplitPlane.seg) [w0]) αr αc S0 S1 P0 P1 os mask fix0 fix1 sub0 sub1 := by
    show propagateDftCommon (DA.map Prod.fst) αr αc S0 S1 P0 P1 os mask fix0 fix1 sub0 sub1 = _
    rw [eA]
  have hBB : B = propagateDftCommon (chainMultiply ph ((s :: splits els).map SplitPlane.mono) [w0]) αr αc S0 S1 P0 P1 os mask fix0 fix1 sub0 sub1 := by
    show propagateDftCommon (DB.map Prod.fst) αr αc S0 S1 P0 P1 os mask fix0 fix1 sub0 sub1 = _
    rw [eB]
  rw [hAA, hBB]
  exact key

end interleaved_e2e

section interleaved_example
local instance : RealLike Int := ⟨id, 6, id, fun x => x.natAbs⟩
local instance : CxLike Int Int := ⟨fun t => t, id, id, fun z _ => z⟩

/-- non-vacuity of `segmented_eq_monolithic_interleaved`: plane, Tilt plane, plane — with `Witness.sp` for both planes, an initial tilt
list, a non-zero common shift and an output mask box; the instantiated conclusion is the inferred type of this term -/
example :=
  segmented_eq_monolithic_interleaved Witness.ph1 (0 : Int) rfl Witness.w0 rfl [TiltEl.angular 2 3] Witness.sp
    [.inr (TiltEl.angular 1 0), .inl Witness.sp]
    (by intro x hx; simp only [splits, List.mem_cons, List.not_mem_nil, or_false, or_self] at hx; subst hx; exact Witness.sp_wf)
    Witness.sp_ext.1 Witness.sp_ext.2 1 1 2 2 2 2 2 (some ⟨1, 2, 0, 3⟩) 1 0 0 0
    (by rw [outExtent_mask]; decide) (by decide) (fun z => z * z) (by simp) 1 2 (by decide) (by decide)

end interleaved_example

/-! ## `Plane._slice`: the per-segment bounding slices are the regenerated `boundary_slice` (wave 12) -/
section slices

/-- **every per-segment slice of a constructed plane is `helper.boundary_slice` of that segment's mask** (about the
*generated* `Gen.boundarySlice`, helper.py:27-62 read on every run, at the default `pad = (0, 0)` that `_plane_slice` uses):
for a plane whose mask `_plane_slice` accepted (`mkMask … = some`), the slice `plane._slice[n]` of every segment is
`np.s_[rmin:rmax+1, cmin:cmax+1]` computed by the source's clamping arithmetic from the first/last row and column
holding a set mask entry (what `lentil.util.boundary` returns), and the phasor of that segment sits at
`slice_offset(s, self.shape)` of exactly that slice (generated `Gen.planeLoopOffset` of `Plane.multiply`). A change of
the `+1`, of the clamping `min`/`max`, of the axis each bound is clamped against, or of the arguments handed to
`slice_offset` breaks this proof. -/
theorem segment_slices_are_boundary_slices (s0 s1 : Int) (ms : List (Int → Int → Bool)) (l : List Seg)
    (h : mkMask s0 s1 ms = some (.segs s0 s1 l)) (g : Seg) (hg : g ∈ l) :
    ∃ rmin rmax cmin cmax : Nat,
      firstTrueIdx (fun i => anyBelowIdx (fun j => g.m i j) s1.toNat) s0.toNat = some rmin ∧
      lastTrueIdx (fun i => anyBelowIdx (fun j => g.m i j) s1.toNat) s0.toNat = some rmax ∧
      firstTrueIdx (fun j => anyBelowIdx (fun i => g.m i j) s0.toNat) s1.toNat = some cmin ∧
      lastTrueIdx (fun j => anyBelowIdx (fun i => g.m i j) s0.toNat) s1.toNat = some cmax ∧
      Gen.boundarySlice rmin rmax cmin cmax s0 s1 0 0 = ((g.s.r0, g.s.r1), (g.s.c0, g.s.c1)) ∧
      ∀ {K R : Type} [Zero K] [Mul K] (ph : R → K) (amp : Attr K) (opd : Attr R),
        ((segPhasor ph amp opd s0 s1 g).o0, (segPhasor ph amp opd s0 s1 g).o1)
          = Gen.planeLoopOffset (Gen.boundarySlice rmin rmax cmin cmax s0 s1 0 0).1.1 (Gen.boundarySlice rmin rmax cmin cmax s0 s1 0 0).1.2
              (Gen.boundarySlice rmin rmax cmin cmax s0 s1 0 0).2.1 (Gen.boundarySlice rmin rmax cmin cmax s0 s1 0 0).2.2 s0 s1 := by
  unfold mkMask at h
  cases hm : ms.mapM (fun m => (bboxSlice s0 s1 m).map fun s => (⟨m, s⟩ : Seg)) with
  | none => simp [hm] at h
  | some l' =>
    rw [hm] at h
    simp only [Option.map_some, Option.some.injEq, MaskM.segs.injEq, true_and] at h
    subst h
    obtain ⟨rmin, rmax, cmin, cmax, h1, h2, h3, h4, hb⟩ := bboxSlice_eq_gen s0 s1 g.m g.s (mkMask_bbox s0 s1 ms l' hm g hg)
    refine ⟨rmin, rmax, cmin, cmax, h1, h2, h3, h4, hb, ?_⟩
    intro K R _ _ ph amp opd
    rw [hb]
    rfl

/-- non-vacuity: a 4×5 mask with set entries at (1,1) and (2,3): `_plane_slice` accepts it, the slice is `[1:3, 1:4]` -/
example : ∃ g, mkMask 4 5 [fun i j => decide ((i = 1 ∧ j = 1) ∨ (i = 2 ∧ j = 3))] = some (.segs 4 5 [g])
    ∧ g.s = ⟨1, 3, 1, 4⟩ ∧ Gen.boundarySlice 1 2 1 3 4 5 0 0 = ((1, 3), (1, 4)) :=
  ⟨⟨fun i j => decide ((i = 1 ∧ j = 1) ∨ (i = 2 ∧ j = 3)), ⟨1, 3, 1, 4⟩⟩, by rfl, rfl, by decide⟩

end slices

end Lentil.C03
