import LentilVerif.Model.PropSeg
import LentilVerif.Lemmas.Plane
import LentilVerif.Props.C06
/-! # C03 — splitting an aperture into segments never changes the result

Property theorems only. `Gen.sliceOffset` is regenerated from lentil/helper.py on every run. -/
namespace Lentil.C03
open Lentil

/-- **index lemma**: the sub-array `arr[r0:r1, c0:c1]` of an array of shape `(S0, S1)`, carried as a field at
`slice_offset(s, shape)`, embeds to `arr` restricted to the slice: pixel `(i, j)` of the array sits at the global
coordinate `(i - S0/2, j - S1/2)` whatever slice it was cut with -/
theorem slice_offset_embeds {K : Type} [Zero K] (g : Int → Int → K) (r0 r1 c0 c1 S0 S1 r c : Int) :
    (Fld.mk ⟨r1 - r0, c1 - c0, fun i j => g (i + r0) (j + c0)⟩
        (Gen.sliceOffset r0 r1 c0 c1 S0 S1).1 (Gen.sliceOffset r0 r1 c0 c1 S0 S1).2).emb r c
      = if r0 ≤ r + S0 / 2 ∧ r + S0 / 2 < r1 ∧ c0 ≤ c + S1 / 2 ∧ c + S1 / 2 < c1 then g (r + S0 / 2) (c + S1 / 2) else 0 := by
  rw [emb_mk, slice_extent]
  unfold embAt
  by_cases h : r0 ≤ r + S0 / 2 ∧ r + S0 / 2 < r1 ∧ c0 ≤ c + S1 / 2 ∧ c + S1 / 2 < c1
  · have hin : (Extent.mk (r0 - S0 / 2) (r1 - 1 - S0 / 2) (c0 - S1 / 2) (c1 - 1 - S1 / 2)).inb r c = true := by
      rw [Extent.inb_iff]; simp only; omega
    rw [if_pos hin, if_pos h]
    have e1 : r - (r0 - S0 / 2) + r0 = r + S0 / 2 := by omega
    have e2 : c - (c0 - S1 / 2) + c0 = c + S1 / 2 := by omega
    simp only [e1, e2]
  · have hin : ¬ (Extent.mk (r0 - S0 / 2) (r1 - 1 - S0 / 2) (c0 - S1 / 2) (c1 - 1 - S1 / 2)).inb r c = true := by
      rw [Extent.inb_iff]; simp only; omega
    rw [if_neg hin, if_neg h]

end Lentil.C03
