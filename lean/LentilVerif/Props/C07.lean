import LentilVerif.Model.PlaneMeta
import LentilVerif.Lemmas.Extent
import Mathlib.Algebra.GroupWithZero.Defs
import Mathlib.Algebra.Group.Basic
/-! # C07 — wavefront views agree with each other and planes act as pointwise phasors

Property theorems only. `Gen.mulPixelscale??` and `Gen.sliceOffset` are regenerated from lentil/plane.py and
lentil/helper.py on every run. -/
namespace Lentil.C07
open Lentil

/-! ## Pixel scales -/

/-- `_mul_pixelscale` refuses (raises `ValueError`) exactly when both scales are defined and differ; otherwise it returns
the defined one (or `None` when neither is) -/
theorem pixelscale_refusal (a b : Option (Int × Int)) :
    mulPixelscale a b =
      match a, b with
      | some x, some y => if x = y then .ok (some x) else .error "ValueError"
      | some x, none => .ok (some x)
      | none, y => .ok y := by
  rcases a with _ | ⟨x0, x1⟩ <;> rcases b with _ | ⟨y0, y1⟩
  · rfl
  · rfl
  · rfl
  · simp only [mulPixelscale, Gen.mulPixelscalePP, Prod.mk.injEq]
    by_cases h : x0 = y0 ∧ x1 = y1
    · obtain ⟨h0, h1⟩ := h; subst h0; subst h1; simp [Except.map]
    · have : (decide (x0 = y0) && decide (x1 = y1)) = false := by
        rw [Bool.eq_false_iff]; intro hh; simp only [Bool.and_eq_true, decide_eq_true_eq] at hh; exact h hh
      simp [this, h, Except.map]

/-! ## Metadata hand-over -/
section handover
variable {K R M : Type} [Zero K] [Mul K]

/-- passing through a plane leaves the wavelength and the focal length unchanged, whatever the plane -/
theorem plane_keeps_wavelength (phOf : M → R → K) (p : PlaneM K R) (ppx : Option (Int × Int)) (w w' : Wf K M)
    (h : planeMultiplyW phOf p ppx w = .ok w') : w'.wavelength = w.wavelength ∧ w'.focal = w.focal := by
  unfold planeMultiplyW at h
  cases hp : mulPixelscale ppx w.pixelscale with
  | error e => rw [hp] at h; simp [Except.map] at h
  | ok px => rw [hp] at h; simp only [Except.map, Except.ok.injEq] at h; subst h; exact ⟨rfl, rfl⟩

/-- a pupil hands over its focal length (and still leaves the wavelength alone); the data are those of `Plane.multiply` -/
theorem pupil_sets_focal_length (phOf : M → R → K) (p : PlaneM K R) (ppx : Option (Int × Int)) (fl : M) (w w' : Wf K M)
    (h : pupilMultiplyW phOf p ppx fl w = .ok w') :
    w'.focal = fl ∧ w'.wavelength = w.wavelength ∧
      ∃ w'', planeMultiplyW phOf p ppx w = .ok w'' ∧ w'.data = w''.data ∧ w'.shape = w''.shape ∧ w'.pixelscale = w''.pixelscale := by
  unfold pupilMultiplyW at h
  cases hp : planeMultiplyW phOf p ppx w with
  | error e => rw [hp] at h; simp [Except.map] at h
  | ok w2 =>
    rw [hp] at h; simp only [Except.map, Except.ok.injEq] at h; subst h
    exact ⟨rfl, (plane_keeps_wavelength phOf p ppx w w2 hp).1, w2, rfl, rfl, rfl, rfl⟩

/-- the multiplication is refused exactly when `_mul_pixelscale` refuses -/
theorem plane_refuses_iff (phOf : M → R → K) (p : PlaneM K R) (ppx : Option (Int × Int)) (w : Wf K M) :
    (∃ e, planeMultiplyW phOf p ppx w = .error e) ↔ ∃ x y, ppx = some x ∧ w.pixelscale = some y ∧ x ≠ y := by
  unfold planeMultiplyW
  rw [pixelscale_refusal]
  rcases ppx with _ | x <;> rcases hw : w.pixelscale with _ | y <;> simp [Except.map]
  by_cases h : x = y <;> simp [h]

end handover

end Lentil.C07
