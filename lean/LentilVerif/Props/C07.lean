import LentilVerif.Model.PlaneMeta
import LentilVerif.Lemmas.PlaneAlg
import LentilVerif.Props.C06
/-! # C07 — wavefront views agree with each other and planes act as pointwise phasors

Property theorems only. `Gen.mulPixelscale??` and `Gen.sliceOffset` are regenerated from lentil/plane.py and
lentil/helper.py on every run. -/
namespace Lentil.C07
open Lentil

/-! ## Pixel scales -/

/-- `_mul_pixelscale` refuses (raises `ValueError`) exactly when both scales are defined and differ; otherwise it returns
the defined one (or `None` when neither is) -/
theorem pixelscale_refusal (a b : Option (Int × Int)) :
    mulPixelscale a b =
      match a, b with
      | some x, some y => if x = y then .ok (some x) else .error "ValueError"
      | some x, none => .ok (some x)
      | none, y => .ok y := by
  rcases a with _ | ⟨x0, x1⟩ <;> rcases b with _ | ⟨y0, y1⟩
  · rfl
  · rfl
  · rfl
  · simp only [mulPixelscale, Gen.mulPixelscalePP, Prod.mk.injEq]
    by_cases h : x0 = y0 ∧ x1 = y1
    · obtain ⟨h0, h1⟩ := h; subst h0; subst h1; simp [Except.map]
    · have : (decide (x0 = y0) && decide (x1 = y1)) = false := by
        rw [Bool.eq_false_iff]; intro hh; simp only [Bool.and_eq_true, decide_eq_true_eq] at hh; exact h hh
      simp [this, h, Except.map]

/-! ## Metadata hand-over -/
section handover
variable {K R M : Type} [Zero K] [Mul K]

/-- passing through a plane leaves the wavelength and the focal length unchanged, whatever the plane -/
theorem plane_keeps_wavelength (phOf : M → R → K) (p : PlaneM K R) (ppx : Option (Int × Int)) (w w' : Wf K M)
    (h : planeMultiplyW phOf p ppx w = .ok w') : w'.wavelength = w.wavelength ∧ w'.focal = w.focal := by
  unfold planeMultiplyW at h
  cases hp : mulPixelscale ppx w.pixelscale with
  | error e => rw [hp] at h; simp [Except.map] at h
  | ok px => rw [hp] at h; simp only [Except.map, Except.ok.injEq] at h; subst h; exact ⟨rfl, rfl⟩

/-- a pupil hands over its focal length (and still leaves the wavelength alone); the data are those of `Plane.multiply` -/
theorem pupil_sets_focal_length (phOf : M → R → K) (p : PlaneM K R) (ppx : Option (Int × Int)) (fl : M) (w w' : Wf K M)
    (h : pupilMultiplyW phOf p ppx fl w = .ok w') :
    w'.focal = fl ∧ w'.wavelength = w.wavelength ∧
      ∃ w'', planeMultiplyW phOf p ppx w = .ok w'' ∧ w'.data = w''.data ∧ w'.shape = w''.shape ∧ w'.pixelscale = w''.pixelscale := by
  unfold pupilMultiplyW at h
  cases hp : planeMultiplyW phOf p ppx w with
  | error e => rw [hp] at h; simp [Except.map] at h
  | ok w2 =>
    rw [hp] at h; simp only [Except.map, Except.ok.injEq] at h; subst h
    exact ⟨rfl, (plane_keeps_wavelength phOf p ppx w w2 hp).1, w2, rfl, rfl, rfl, rfl⟩

/-- the multiplication is refused exactly when `_mul_pixelscale` refuses -/
theorem plane_refuses_iff (phOf : M → R → K) (p : PlaneM K R) (ppx : Option (Int × Int)) (w : Wf K M) :
    (∃ e, planeMultiplyW phOf p ppx w = .error e) ↔ ∃ x y, ppx = some x ∧ w.pixelscale = some y ∧ x ≠ y := by
  unfold planeMultiplyW
  rw [pixelscale_refusal]
  rcases ppx with _ | x <;> rcases hw : w.pixelscale with _ | y <;> simp [Except.map]
  by_cases h : x = y <;> simp [h]

end handover

/-! ## A plane multiplies the embedded field pointwise by its phasor -/
section phasor
variable {K R : Type} [NonUnitalNonAssocSemiring K]

/-- **`Plane.multiply` multiplies the total embedded field by the sum of the plane's phasors**, at every pixel of the
infinite plane, for any number of incoming fields and segments of any shapes and offsets (products that do not overlap
are dropped by the code and contribute 0 here). One-element operands act as constants (`Fld.sem`): this is how the
fresh wavefront (a single `1`) takes the shape of the first plane. Excluded: a pair in which *both* the field and the
phasor have one element (known finding KF-C07-one-pixel-segment). -/
theorem plane_multiply_total (ph : R → K) (p : PlaneM K R) (data : List (Fld K))
    (hd : ∀ f ∈ data, 0 < f.arr.s0 ∧ 0 < f.arr.s1) (hq : ∀ q ∈ planePhasors ph p, 0 < q.arr.s0 ∧ 0 < q.arr.s1)
    (h1 : ∀ f ∈ data, ∀ q ∈ planePhasors ph p, (f.size1 && q.size1) = false) (r c : Int) :
    sumList (planeMultiply ph p data) (fun g => g.emb r c)
      = sumList data (fun f => f.sem r c) * sumList (planePhasors ph p) (fun q => q.sem r c) := by
  unfold planeMultiply
  rw [sumList_flatMap, ← sumList_mul_right]
  apply sumList_congr
  intro f hf
  rw [sumList_filterMap, ← sumList_mul_left]
  apply sumList_congr
  intro q hq'
  have key := C06.mul_sem f q (h1 f hf q hq') (hd f hf) (hq q hq') r c
  cases hm : f.mul q with
  | none => simp only [hm] at key ⊢; exact key
  | some y => simp only [hm] at key ⊢; exact key

/-- **array mask**: the total field after the plane is the total field before it times
`amplitude * exp(2 pi i opd / wavelength)` where a segment's mask is set and times `0` everywhere else — for scalar or
array amplitude and OPD (`Attr`), one or many segments, any bounding slices that cover the masks (overlapping or not).
Hypothesis `hbig`: no segment's bounding box is a single pixel (known finding KF-C07-one-pixel-segment). -/
theorem plane_multiply_pointwise (ph : R → K) (amp : Attr K) (opd : Attr R) (S0 S1 : Int) (l : List Seg)
    (hc : ∀ g ∈ l, g.covers S0 S1)
    (hbig : ∀ g ∈ l, g.s.r0 < g.s.r1 ∧ g.s.c0 < g.s.c1 ∧ ¬ (g.s.r1 - g.s.r0 = 1 ∧ g.s.c1 - g.s.c0 = 1))
    (data : List (Fld K)) (hd : ∀ f ∈ data, 0 < f.arr.s0 ∧ 0 < f.arr.s1) (r c : Int) :
    sumList (planeMultiply ph ⟨amp, opd, .segs S0 S1 l⟩ data) (fun g => g.emb r c)
      = sumList data (fun f => f.sem r c) * sumList l (fun g => segFactor ph amp opd S0 S1 g.m r c) := by
  have hs1 : ∀ g ∈ l, (segPhasor ph amp opd S0 S1 g).size1 = false := by
    intro g hg
    obtain ⟨_, _, h3⟩ := hbig g hg
    rw [Bool.eq_false_iff]; intro hh
    simp only [Fld.size1, segPhasor, Bool.and_eq_true, decide_eq_true_eq] at hh
    exact h3 ⟨of_decide_eq_true hh.1, of_decide_eq_true hh.2⟩
  rw [plane_multiply_total ph _ data hd]
  · congr 1
    simp only [planePhasors]
    rw [sumList_map]
    apply sumList_congr
    intro g hg
    simp only [Fld.sem, hs1 g hg, Bool.false_eq_true, if_false]
    exact segPhasor_emb ph amp opd S0 S1 g (hc g hg) r c
  · intro q hq
    simp only [planePhasors, List.mem_map] at hq
    obtain ⟨g, hg, rfl⟩ := hq
    obtain ⟨h1, h2, _⟩ := hbig g hg
    simp only [segPhasor]; omega
  · intro f _ q hq
    simp only [planePhasors, List.mem_map] at hq
    obtain ⟨g, hg, rfl⟩ := hq
    rw [hs1 g hg, Bool.and_false]

/-- the literal statement for a monolithic plane (one mask): inside the mask the field is multiplied by
`amplitude * exp(2 pi i opd / wavelength)`, outside by `0` -/
theorem plane_multiply_monolithic (ph : R → K) (amp : Attr K) (opd : Attr R) (S0 S1 : Int) (g : Seg)
    (hc : g.covers S0 S1) (hbig : g.s.r0 < g.s.r1 ∧ g.s.c0 < g.s.c1 ∧ ¬ (g.s.r1 - g.s.r0 = 1 ∧ g.s.c1 - g.s.c0 = 1))
    (data : List (Fld K)) (hd : ∀ f ∈ data, 0 < f.arr.s0 ∧ 0 < f.arr.s1) (r c : Int) :
    sumList (planeMultiply ph ⟨amp, opd, .segs S0 S1 [g]⟩ data) (fun g => g.emb r c)
      = sumList data (fun f => f.sem r c) *
        (if 0 ≤ r + S0 / 2 ∧ r + S0 / 2 < S0 ∧ 0 ≤ c + S1 / 2 ∧ c + S1 / 2 < S1 ∧ g.m (r + S0 / 2) (c + S1 / 2) = true
         then amp.at (r + S0 / 2) (c + S1 / 2) * ph (opd.at (r + S0 / 2) (c + S1 / 2)) else 0) := by
  rw [plane_multiply_pointwise ph amp opd S0 S1 [g] (by simpa using hc) (by simpa using hbig) data hd r c]
  rw [sumList_cons, sumList_nil, add_zero]
  rfl

end phasor

end Lentil.C07
