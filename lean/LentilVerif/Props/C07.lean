import LentilVerif.Model.PlaneMeta
import LentilVerif.Lemmas.PlaneAlg
import LentilVerif.Lemmas.ChainExtents
import LentilVerif.Props.C06
import LentilVerif.Lemmas.PlaneComplex
import LentilVerif.Lemmas.PlaneLoop
/-! # C07 — wavefront views agree with each other and planes act as pointwise phasors

Property theorems only. `Gen.mulPixelscale??` and `Gen.sliceOffset` are regenerated from lentil/plane.py and
lentil/helper.py on every run. -/
namespace Lentil.C07
open Lentil

/-! ## Pixel scales -/

/-- `_mul_pixelscale` refuses (raises `ValueError`) exactly when both scales are defined and differ; otherwise it returns
the defined one (or `None` when neither is) -/
theorem pixelscale_refusal (a b : Option (Int × Int)) :
    mulPixelscale a b =
      match a, b with
      | some x, some y => if x = y then .ok (some x) else .error "ValueError"
      | some x, none => .ok (some x)
      | none, y => .ok y := by
  rcases a with _ | ⟨x0, x1⟩ <;> rcases b with _ | ⟨y0, y1⟩
  · rfl
  · rfl
  · rfl
  · simp only [mulPixelscale, Gen.mulPixelscalePP, Prod.mk.injEq]
    by_cases h : x0 = y0 ∧ x1 = y1
    · obtain ⟨h0, h1⟩ := h; subst h0; subst h1; simp [Except.map]
    · have : (decide (x0 = y0) && decide (x1 = y1)) = false := by
        rw [Bool.eq_false_iff]; intro hh; simp only [Bool.and_eq_true, decide_eq_true_eq] at hh; exact h hh
      simp [this, h, Except.map]

/-- **the refusal does not depend on the unit of length**: re-expressing both pixel scales through any injective map of the
scale values (e.g. metres → nanometres) refuses exactly the same pairs and returns the re-expressed result. In particular
no pair of *different* scales is ever accepted because it is small or nearly equal — what a tolerance-based comparison
(`np.allclose`, absolute 1e-8) would do at nanometre scales. -/
theorem pixelscale_refusal_unit_free (f : Int → Int) (hf : Function.Injective f) (a b : Option (Int × Int)) :
    mulPixelscale (a.map fun p => (f p.1, f p.2)) (b.map fun p => (f p.1, f p.2))
      = match mulPixelscale a b with
        | .ok r => .ok (r.map fun p => (f p.1, f p.2))
        | .error e => .error e := by
  rw [pixelscale_refusal, pixelscale_refusal]
  rcases a with _ | ⟨x0, x1⟩ <;> rcases b with _ | ⟨y0, y1⟩ <;> simp only [Option.map_none, Option.map_some]
  by_cases h : (x0, x1) = (y0, y1)
  · rw [if_pos h, if_pos (by rw [Prod.mk.injEq] at h ⊢; exact ⟨by rw [h.1], by rw [h.2]⟩)]
    rfl
  · rw [if_neg h, if_neg]
    intro hh
    rw [Prod.mk.injEq] at hh
    exact h (by rw [Prod.mk.injEq]; exact ⟨hf hh.1, hf hh.2⟩)

/-! ## Metadata hand-over -/
section handover
variable {K R M : Type} [Zero K] [Mul K] [FocalLike M]

/-- **what `Plane.multiply` hands over** (about the *generated* `Gen.planeMultiplyHandover`, `planeMultiplyPixelscaleArgs`,
`planeMultiplyShape`, and `Gen.wavefrontInitFocal` of `Wavefront.__init__`, read off the source on every run): the new wavefront
gets the incoming wavefront's wavelength, its focal length if that is truthy and `inf` otherwise, the reconciled pixel scale `_mul_pixelscale(plane, wavefront)`, the plane's shape unless that is `()`, and
the data of `planeMultiply` at the incoming wavelength -/
theorem plane_multiply_handover (phOf : M → R → K) (p : PlaneM K R) (ppx : Option (Int × Int)) (w : Wf K M) :
    planeMultiplyW phOf p ppx w = (mulPixelscale ppx w.pixelscale).map fun px =>
      { wavelength := w.wavelength, focal := (if FocalLike.truthy w.focal then w.focal else FocalLike.inf), pixelscale := px,
        shape := (match p.shape with | none => w.shape | some s => some s),
        data := planeMultiply (phOf w.wavelength) p w.data } := by
  unfold planeMultiplyW
  simp only [Gen.planeMultiplyPixelscaleArgs, Gen.planeMultiplyHandover, Gen.planeMultiplyShape, Gen.wavefrontInitFocal, Wf.ofHandover]
  congr 1
  funext px
  cases p.shape <;> rfl

/-- passing through a plane leaves the wavelength unchanged, whatever the plane; the focal length passes through unchanged when
it is truthy, and a falsy one (`None`, `0`) becomes `inf` (the constructor's "plane wave" default) -/
theorem plane_keeps_wavelength (phOf : M → R → K) (p : PlaneM K R) (ppx : Option (Int × Int)) (w w' : Wf K M)
    (h : planeMultiplyW phOf p ppx w = .ok w') :
    w'.wavelength = w.wavelength ∧ (FocalLike.truthy w.focal = true → w'.focal = w.focal) ∧
      (FocalLike.truthy w.focal = false → w'.focal = FocalLike.inf) := by
  rw [plane_multiply_handover] at h
  cases hp : mulPixelscale ppx w.pixelscale with
  | error e => rw [hp] at h; simp [Except.map] at h
  | ok px =>
    rw [hp] at h; simp only [Except.map, Except.ok.injEq] at h; subst h
    exact ⟨rfl, fun ht => by simp only [ht, if_true], fun hf => by simp only [hf, Bool.false_eq_true, if_false]⟩

/-- a pupil hands over its focal length (and still leaves the wavelength alone); the data are those of `Plane.multiply` -/
theorem pupil_sets_focal_length (phOf : M → R → K) (p : PlaneM K R) (ppx : Option (Int × Int)) (fl : M) (w w' : Wf K M)
    (h : pupilMultiplyW phOf p ppx fl w = .ok w') :
    w'.focal = fl ∧ w'.wavelength = w.wavelength ∧
      ∃ w'', planeMultiplyW phOf p ppx w = .ok w'' ∧ w'.data = w''.data ∧ w'.shape = w''.shape ∧ w'.pixelscale = w''.pixelscale := by
  unfold pupilMultiplyW at h
  cases hp : planeMultiplyW phOf p ppx w with
  | error e => rw [hp] at h; simp [Except.map] at h
  | ok w2 =>
    rw [hp] at h
    simp only [Except.map, Except.ok.injEq, Gen.pupilMultiplyHandover, Wf.ofHandover, Wf.handover] at h; subst h
    exact ⟨rfl, (plane_keeps_wavelength phOf p ppx w w2 hp).1, w2, rfl, rfl, rfl, rfl⟩

/-- **`Image.multiply` changes only the plane type** (about the *generated* `Gen.imageMultiplyHandover`, read off the
source on every run): wavelength, focal length, pixel scale and shape of `Plane.multiply`'s result pass through, the
plane type becomes the given value (`lentil.image`) — for every record and every type of plane-type values -/
theorem image_multiply_handover {M P S T : Type} (h : Gen.WfHandover M P S T) (img : T) :
    (Gen.imageMultiplyHandover h img).wavelength = h.wavelength ∧ (Gen.imageMultiplyHandover h img).focal_length = h.focal_length ∧
    (Gen.imageMultiplyHandover h img).pixelscale = h.pixelscale ∧ (Gen.imageMultiplyHandover h img).shape = h.shape ∧
    (Gen.imageMultiplyHandover h img).ptype = img := ⟨rfl, rfl, rfl, rfl, rfl⟩

/-- hence an image plane acts on the modelled state exactly like `Plane.multiply` -/
theorem image_multiply_eq_plane (phOf : M → R → K) (p : PlaneM K R) (ppx : Option (Int × Int)) (w : Wf K M) :
    imageMultiplyW phOf p ppx w = planeMultiplyW phOf p ppx w := by
  unfold imageMultiplyW
  cases planeMultiplyW phOf p ppx w with
  | error e => rfl
  | ok w' => rfl

/-- the plane with default attributes and no pixel scale leaves wavelength, (truthy) focal length, pixel scale and shape alone -/
theorem default_plane_keeps_metadata [One K] (phOf : M → R → K) (o : R) (w : Wf K M) (ht : FocalLike.truthy w.focal = true) :
    ∃ w', planeMultiplyW phOf ⟨.scalar 1, .scalar o, .scalar true⟩ none w = .ok w' ∧ w'.wavelength = w.wavelength ∧
      w'.focal = w.focal ∧ w'.pixelscale = w.pixelscale ∧ w'.shape = w.shape := by
  rw [plane_multiply_handover, pixelscale_refusal]
  exact ⟨_, rfl, rfl, by simp only [ht, if_true], rfl, rfl⟩

/-- every kind of step (Plane, Pupil, Image) keeps the wavelength and multiplies the data with phasors at the incoming wavelength -/
theorem step_keeps_wavelength (phOf : M → R → K) (s : WStep K R M) (w w' : Wf K M) (h : s.apply phOf w = .ok w') :
    w'.wavelength = w.wavelength ∧ w'.data = planeMultiply (phOf w.wavelength) s.planeM w.data := by
  have base : ∀ (p : PlaneM K R) (px : Option (Int × Int)) (w1 : Wf K M), planeMultiplyW phOf p px w = .ok w1 →
      w1.wavelength = w.wavelength ∧ w1.data = planeMultiply (phOf w.wavelength) p w.data := by
    intro p px w1 h1
    rw [plane_multiply_handover] at h1
    cases hp : mulPixelscale px w.pixelscale with
    | error e => rw [hp] at h1; simp [Except.map] at h1
    | ok q => rw [hp] at h1; simp only [Except.map, Except.ok.injEq] at h1; subst h1; exact ⟨rfl, rfl⟩
  cases s with
  | plane p px => exact base p px w' h
  | pupil p px fl =>
    obtain ⟨_, hwl, w'', hw'', hdat, _, _⟩ := pupil_sets_focal_length phOf p px fl w w' h
    exact ⟨hwl, by rw [hdat]; exact (base p px w'' hw'').2⟩
  | image p px =>
    have h2 : planeMultiplyW phOf p px w = .ok w' := by rw [← image_multiply_eq_plane]; exact h
    exact base p px w' h2

/-- **along any chain of planes the wavelength never changes, and every phasor is built with that one wavelength**: if the chain
`w * s1 * s2 * …` (Plane / Pupil / Image steps in any order) is not refused, the result has the initial wavelength and its fields
are those of `chainMultiply` with `exp(2πi·opd/λ)` at the INITIAL wavelength in every plane -/
theorem chain_keeps_wavelength (phOf : M → R → K) (steps : List (WStep K R M)) (w w' : Wf K M) (h : runW phOf steps w = .ok w') :
    w'.wavelength = w.wavelength ∧ w'.data = chainMultiply (phOf w.wavelength) (steps.map WStep.planeM) w.data := by
  induction steps generalizing w with
  | nil => simp only [runW, Except.ok.injEq] at h; subst h; exact ⟨rfl, rfl⟩
  | cons s r ih =>
    unfold runW at h
    cases hs : s.apply phOf w with
    | error e => rw [hs] at h; simp at h
    | ok w1 =>
      rw [hs] at h
      obtain ⟨h1, h2⟩ := step_keeps_wavelength phOf s w w1 hs
      obtain ⟨h3, h4⟩ := ih w1 h
      refine ⟨h3.trans h1, ?_⟩
      rw [h4, h1, h2]
      rfl

/-- the multiplication is refused exactly when `_mul_pixelscale` refuses -/
theorem plane_refuses_iff (phOf : M → R → K) (p : PlaneM K R) (ppx : Option (Int × Int)) (w : Wf K M) :
    (∃ e, planeMultiplyW phOf p ppx w = .error e) ↔ ∃ x y, ppx = some x ∧ w.pixelscale = some y ∧ x ≠ y := by
  rw [plane_multiply_handover, pixelscale_refusal]
  rcases ppx with _ | x <;> rcases hw : w.pixelscale with _ | y <;> simp [Except.map]
  by_cases h : x = y <;> simp [h]

end handover

/-! ## A plane multiplies the embedded field pointwise by its phasor -/
section phasor
variable {K R : Type} [NonUnitalNonAssocSemiring K]

/-- **`Plane.multiply` multiplies the total embedded field by the sum of the plane's phasors**, at every pixel of the
infinite plane, for any number of incoming fields and segments of any shapes and offsets (products that do not overlap
are dropped by the code and contribute 0 here). One-element operands act as constants (`Fld.sem`): this is how the
fresh wavefront (a single `1`) takes the shape of the first plane. Excluded: a pair in which *both* the field and the
phasor have one element (known finding KF-C07-one-pixel-segment). -/
theorem plane_multiply_total (ph : R → K) (p : PlaneM K R) (data : List (Fld K))
    (hd : ∀ f ∈ data, 0 < f.arr.s0 ∧ 0 < f.arr.s1) (hq : ∀ q ∈ planePhasors ph p, 0 < q.arr.s0 ∧ 0 < q.arr.s1)
    (h1 : ∀ f ∈ data, ∀ q ∈ planePhasors ph p, (f.size1 && q.size1) = false) (r c : Int) :
    sumList (planeMultiply ph p data) (fun g => g.emb r c)
      = sumList data (fun f => f.sem r c) * sumList (planePhasors ph p) (fun q => q.sem r c) := by
  unfold planeMultiply
  rw [sumList_flatMap, ← sumList_mul_right]
  apply sumList_congr
  intro f hf
  rw [sumList_filterMap, ← sumList_mul_left]
  apply sumList_congr
  intro q hq'
  have key := C06.mul_sem f q (h1 f hf q hq') (hd f hf) (hq q hq') r c
  cases hm : f.mul q with
  | none => simp only [hm] at key ⊢; exact key
  | some y => simp only [hm] at key ⊢; exact key

/-- **array mask**: the total field after the plane is the total field before it times
`amplitude * exp(2 pi i opd / wavelength)` where a segment's mask is set and times `0` everywhere else — for scalar or
array amplitude and OPD (`Attr`), one or many segments, any bounding slices that cover the masks (overlapping or not).
Hypothesis `hbig`: no segment's bounding box is a single pixel (known finding KF-C07-one-pixel-segment). -/
theorem plane_multiply_pointwise (ph : R → K) (amp : Attr K) (opd : Attr R) (S0 S1 : Int) (l : List Seg)
    (hc : ∀ g ∈ l, g.covers S0 S1)
    (hbig : ∀ g ∈ l, g.s.r0 < g.s.r1 ∧ g.s.c0 < g.s.c1 ∧ ¬ (g.s.r1 - g.s.r0 = 1 ∧ g.s.c1 - g.s.c0 = 1))
    (data : List (Fld K)) (hd : ∀ f ∈ data, 0 < f.arr.s0 ∧ 0 < f.arr.s1) (r c : Int) :
    sumList (planeMultiply ph ⟨amp, opd, .segs S0 S1 l⟩ data) (fun g => g.emb r c)
      = sumList data (fun f => f.sem r c) * sumList l (fun g => segFactor ph amp opd S0 S1 g.m r c) := by
  have hs1 : ∀ g ∈ l, (segPhasor ph amp opd S0 S1 g).size1 = false := by
    intro g hg
    obtain ⟨_, _, h3⟩ := hbig g hg
    rw [Bool.eq_false_iff]; intro hh
    simp only [Fld.size1, segPhasor, Bool.and_eq_true, decide_eq_true_eq] at hh
    exact h3 ⟨of_decide_eq_true hh.1, of_decide_eq_true hh.2⟩
  rw [plane_multiply_total ph _ data hd]
  · congr 1
    simp only [planePhasors]
    rw [sumList_map]
    apply sumList_congr
    intro g hg
    simp only [Fld.sem, hs1 g hg, Bool.false_eq_true, if_false]
    exact segPhasor_emb ph amp opd S0 S1 g (hc g hg) r c
  · intro q hq
    simp only [planePhasors, List.mem_map] at hq
    obtain ⟨g, hg, rfl⟩ := hq
    obtain ⟨h1, h2, _⟩ := hbig g hg
    simp only [segPhasor]; omega
  · intro f _ q hq
    simp only [planePhasors, List.mem_map] at hq
    obtain ⟨g, hg, rfl⟩ := hq
    rw [hs1 g hg, Bool.and_false]

/-- the hypothesis `covers` of `plane_multiply_pointwise` holds for every plane the constructor builds: the model of
`boundary_slice` (first/last row and column with a set entry) returns slices inside the array that contain the mask's
support — so for constructed planes the only remaining hypothesis is `hbig` (no one-pixel bounding box) -/
theorem constructed_plane_covers (s0 s1 : Int) (ms : List (Int → Int → Bool)) (S0 S1 : Int) (l : List Seg)
    (h : mkMask s0 s1 ms = some (.segs S0 S1 l)) : S0 = s0 ∧ S1 = s1 ∧ ∀ g ∈ l, g.covers s0 s1 := by
  unfold mkMask at h
  cases hm : ms.mapM (fun m => (bboxSlice s0 s1 m).map fun s => (⟨m, s⟩ : Seg)) with
  | none => rw [hm] at h; simp at h
  | some l' =>
    rw [hm] at h
    simp only [Option.map_some, Option.some.injEq, MaskM.segs.injEq] at h
    obtain ⟨rfl, rfl, rfl⟩ := h
    exact ⟨rfl, rfl, mkMask_covers _ _ ms _ hm⟩

/-- the literal statement for a monolithic plane (one mask): inside the mask the field is multiplied by
`amplitude * exp(2 pi i opd / wavelength)`, outside by `0` -/
theorem plane_multiply_monolithic (ph : R → K) (amp : Attr K) (opd : Attr R) (S0 S1 : Int) (g : Seg)
    (hc : g.covers S0 S1) (hbig : g.s.r0 < g.s.r1 ∧ g.s.c0 < g.s.c1 ∧ ¬ (g.s.r1 - g.s.r0 = 1 ∧ g.s.c1 - g.s.c0 = 1))
    (data : List (Fld K)) (hd : ∀ f ∈ data, 0 < f.arr.s0 ∧ 0 < f.arr.s1) (r c : Int) :
    sumList (planeMultiply ph ⟨amp, opd, .segs S0 S1 [g]⟩ data) (fun g => g.emb r c)
      = sumList data (fun f => f.sem r c) *
        (if 0 ≤ r + S0 / 2 ∧ r + S0 / 2 < S0 ∧ 0 ≤ c + S1 / 2 ∧ c + S1 / 2 < S1 ∧ g.m (r + S0 / 2) (c + S1 / 2) = true
         then amp.at (r + S0 / 2) (c + S1 / 2) * ph (opd.at (r + S0 / 2) (c + S1 / 2)) else 0) := by
  rw [plane_multiply_pointwise ph amp opd S0 S1 [g] (by simpa using hc) (by simpa using hbig) data hd r c]
  rw [sumL_cons, sumL_nil, add_zero]
  rfl

/-- non-vacuity: a 2×3 segment of a 5×5 plane satisfies `covers` and `hbig`, and on the fresh wavefront the theorem gives
amplitude 2 at a masked pixel -/
example : Witness.g2.covers 5 5 ∧ sumList (planeMultiply Witness.ph1 ⟨.scalar 2, .scalar 0, .segs 5 5 [Witness.g2]⟩ [Witness.w0])
    (fun g => g.emb 0 0) = 2 := ⟨Witness.g2_ok.1, by rfl⟩

/-- **known finding KF-C07-one-pixel-segment, on the model** (the negation of `plane_multiply_pointwise` without `hbig`):
a segment whose bounding box is the single pixel (1, 1) of a 5×5 plane — global coordinate (-1, -1) — has transmission 1
there and 0 at (1, 1); yet on the fresh wavefront the product is dropped altogether, and on a 5×5 field of ones the total
at (1, 1), outside the mask, is 1 instead of 0 (the 1×1 phasor is broadcast as a scalar by `Field.__mul__`). -/
theorem kf_one_pixel_segment :
    Witness.g1.covers 5 5 ∧
    segFactor Witness.ph1 (.scalar 1) (.scalar 0) 5 5 Witness.g1.m (-1) (-1) = 1 ∧
    segFactor Witness.ph1 (.scalar 1) (.scalar 0) 5 5 Witness.g1.m 1 1 = 0 ∧
    planeMultiply Witness.ph1 ⟨.scalar 1, .scalar 0, .segs 5 5 [Witness.g1]⟩ [Witness.w0] = [] ∧
    sumList (planeMultiply Witness.ph1 ⟨.scalar 1, .scalar 0, .segs 5 5 [Witness.g1]⟩ [Witness.ones55]) (fun q => q.emb 1 1) = 1 :=
  ⟨Witness.g1_covers, by rfl, by rfl, by rfl, by rfl⟩

/-- **scalar (0-d) mask, scalar or array amplitude / OPD**: the single phasor is
`amplitude * mask * exp(2 pi i opd / wavelength)` on the centred grid of the array attribute and `0` outside it; when
both attributes are scalars it is a constant on the whole plane. (Array attribute of shape `(1, 1)`: one-element scope
exclusion.) With `plane_multiply_total` this covers every scalar/array combination of amplitude, OPD and mask. -/
theorem scalar_mask_phasor (ph : R → K) (amp : Attr K) (opd : Attr R) (on : Bool) (r c : Int) :
    planePhasors ph ⟨amp, opd, .scalar on⟩ = [scalarPhasor ph amp opd on] ∧
    (scalarPhasor ph amp opd on).sem r c =
      if attrShape amp opd = (1, 1) then maskMul on (amp.at 0 0) * ph (opd.at 0 0)
      else if 0 ≤ r + (attrShape amp opd).1 / 2 ∧ r + (attrShape amp opd).1 / 2 < (attrShape amp opd).1 ∧
              0 ≤ c + (attrShape amp opd).2 / 2 ∧ c + (attrShape amp opd).2 / 2 < (attrShape amp opd).2
           then maskMul on (amp.at (r + (attrShape amp opd).1 / 2) (c + (attrShape amp opd).2 / 2))
                  * ph (opd.at (r + (attrShape amp opd).1 / 2) (c + (attrShape amp opd).2 / 2))
           else 0 := by
  refine ⟨rfl, ?_⟩
  generalize hsh : attrShape amp opd = sh
  obtain ⟨s0, s1⟩ := sh
  unfold Fld.sem Fld.size1 scalarPhasor
  simp only [hsh]
  by_cases h1 : s0 = 1 ∧ s1 = 1
  · obtain ⟨rfl, rfl⟩ := h1; simp
  · have hd : (decide (s0 = 1) && decide (s1 = 1)) = false := by
      rw [Bool.eq_false_iff]; intro hh; simp only [Bool.and_eq_true, decide_eq_true_eq] at hh; exact h1 hh
    have hne : ¬ ((s0, s1) = ((1 : Int), (1 : Int))) := by rw [Prod.mk.injEq]; exact h1
    rw [hd, if_neg hne]
    simp only [Bool.false_eq_true, if_false]
    rw [emb_mk, arrayExtent_eq]
    unfold embAt
    by_cases hin : 0 ≤ r + s0 / 2 ∧ r + s0 / 2 < s0 ∧ 0 ≤ c + s1 / 2 ∧ c + s1 / 2 < s1
    · have hb : (Extent.mk (-(s0 / 2) + 0) (-(s0 / 2) + 0 + s0 - 1) (-(s1 / 2) + 0) (-(s1 / 2) + 0 + s1 - 1)).inb r c = true := by
        rw [Extent.inb_iff]; simp only; omega
      rw [if_pos hb, if_pos hin]
      have e1 : r - (-(s0 / 2) + 0) = r + s0 / 2 := by omega
      have e2 : c - (-(s1 / 2) + 0) = c + s1 / 2 := by omega
      simp only [e1, e2]
    · have hb : ¬ (Extent.mk (-(s0 / 2) + 0) (-(s0 / 2) + 0 + s0 - 1) (-(s1 / 2) + 0) (-(s1 / 2) + 0 + s1 - 1)).inb r c = true := by
        rw [Extent.inb_iff]; simp only; omega
      rw [if_neg hb, if_neg hin]

end phasor

/-! ## The phase factor is `exp(+2πi·OPD/λ)` -/
section exponential
open Complex
attribute [local instance] PlaneC.realLikeReal PlaneC.cxLikeComplex

/-- the model's phase factor `planePh` (the definition the driver runs at `Float`), instantiated at `ℝ`/`ℂ`, **is**
`exp(+2πi · opd / wavelength)`: positive sign, full `2π`, division by the wavelength -/
theorem planePh_eq_exp (wavelength opd : ℝ) :
    (planePh wavelength opd : ℂ) = Complex.exp (2 * Real.pi * Complex.I * ((opd : ℂ) / (wavelength : ℂ))) := by
  show Complex.exp (((2 * Real.pi * opd / wavelength : ℝ) : ℂ) * Complex.I) = _
  congr 1
  push_cast
  ring

/-- **the phasor statement with the explicit exponential** (`K = ℂ`, OPD and wavelength real): after a plane with one
mask the total field at every pixel is the total incoming field times `amplitude · exp(+2πi·OPD/λ)` inside the mask and
times `0` outside — `λ` being the *wavefront's* wavelength (`planeMultiplyW` passes `w.wavelength` to `planePh`) -/
theorem plane_multiply_exp (wavelength : ℝ) (amp : Attr ℂ) (opd : Attr ℝ) (S0 S1 : Int) (g : Seg)
    (hc : g.covers S0 S1) (hbig : g.s.r0 < g.s.r1 ∧ g.s.c0 < g.s.c1 ∧ ¬ (g.s.r1 - g.s.r0 = 1 ∧ g.s.c1 - g.s.c0 = 1))
    (data : List (Fld ℂ)) (hd : ∀ f ∈ data, 0 < f.arr.s0 ∧ 0 < f.arr.s1) (r c : Int) :
    sumList (planeMultiply (planePh wavelength) ⟨amp, opd, .segs S0 S1 [g]⟩ data) (fun g => g.emb r c)
      = sumList data (fun f => f.sem r c) *
        (if 0 ≤ r + S0 / 2 ∧ r + S0 / 2 < S0 ∧ 0 ≤ c + S1 / 2 ∧ c + S1 / 2 < S1 ∧ g.m (r + S0 / 2) (c + S1 / 2) = true
         then amp.at (r + S0 / 2) (c + S1 / 2) *
              Complex.exp (2 * Real.pi * Complex.I * (((opd.at (r + S0 / 2) (c + S1 / 2) : ℝ) : ℂ) / (wavelength : ℂ)))
         else 0) := by
  rw [plane_multiply_monolithic (planePh wavelength) amp opd S0 S1 g hc hbig data hd r c, planePh_eq_exp]

/-- the same for any number of segments (scalar or array amplitude / OPD): every segment contributes
`amplitude · exp(+2πi·OPD/λ)` on its mask and `0` elsewhere -/
theorem plane_multiply_exp_segments (wavelength : ℝ) (amp : Attr ℂ) (opd : Attr ℝ) (S0 S1 : Int) (l : List Seg)
    (hc : ∀ g ∈ l, g.covers S0 S1)
    (hbig : ∀ g ∈ l, g.s.r0 < g.s.r1 ∧ g.s.c0 < g.s.c1 ∧ ¬ (g.s.r1 - g.s.r0 = 1 ∧ g.s.c1 - g.s.c0 = 1))
    (data : List (Fld ℂ)) (hd : ∀ f ∈ data, 0 < f.arr.s0 ∧ 0 < f.arr.s1) (r c : Int) :
    sumList (planeMultiply (planePh wavelength) ⟨amp, opd, .segs S0 S1 l⟩ data) (fun g => g.emb r c)
      = sumList data (fun f => f.sem r c) *
        sumList l (fun g => segFactor (fun o : ℝ => Complex.exp (2 * Real.pi * Complex.I * ((o : ℂ) / (wavelength : ℂ))))
          amp opd S0 S1 g.m r c) := by
  rw [plane_multiply_pointwise (planePh wavelength) amp opd S0 S1 l hc hbig data hd r c]
  have : (planePh wavelength : ℝ → ℂ) = fun o : ℝ => Complex.exp (2 * Real.pi * Complex.I * ((o : ℂ) / (wavelength : ℂ))) := by
    funext o; exact planePh_eq_exp wavelength o
  rw [this]

/-- and for a scalar (0-d) mask: the single phasor is `amplitude · mask · exp(+2πi·OPD/λ)` on the grid of the array attribute -/
theorem scalar_mask_phasor_exp (wavelength : ℝ) (amp : Attr ℂ) (opd : Attr ℝ) (on : Bool) (r c : Int)
    (hsh : attrShape amp opd ≠ (1, 1))
    (hin : 0 ≤ r + (attrShape amp opd).1 / 2 ∧ r + (attrShape amp opd).1 / 2 < (attrShape amp opd).1 ∧
           0 ≤ c + (attrShape amp opd).2 / 2 ∧ c + (attrShape amp opd).2 / 2 < (attrShape amp opd).2) :
    (scalarPhasor (planePh wavelength) amp opd on).sem r c
      = maskMul on (amp.at (r + (attrShape amp opd).1 / 2) (c + (attrShape amp opd).2 / 2)) *
        Complex.exp (2 * Real.pi * Complex.I *
          (((opd.at (r + (attrShape amp opd).1 / 2) (c + (attrShape amp opd).2 / 2) : ℝ) : ℂ) / (wavelength : ℂ))) := by
  rw [(scalar_mask_phasor (planePh wavelength) amp opd on r c).2, if_neg hsh, if_pos hin, planePh_eq_exp]

/-- **scale covariance of the phase factor**: OPD and wavelength enter only through their ratio — multiplying both by any
`k ≠ 0` (a change of the unit of length) leaves the factor unchanged. So an OPD of 5 nm at λ = 500 nm acts exactly like
5 mm at λ = 500 mm: no absolute OPD size is "flat". -/
theorem planePh_scale (k wavelength opd : ℝ) (hk : k ≠ 0) :
    (planePh (k * wavelength) (k * opd) : ℂ) = planePh wavelength opd := by
  show Complex.exp (((2 * Real.pi * (k * opd) / (k * wavelength) : ℝ) : ℂ) * Complex.I)
      = Complex.exp (((2 * Real.pi * opd / wavelength : ℝ) : ℂ) * Complex.I)
  have : 2 * Real.pi * (k * opd) / (k * wavelength) = 2 * Real.pi * opd / wavelength := by
    rw [show 2 * Real.pi * (k * opd) = k * (2 * Real.pi * opd) by ring, mul_div_mul_left _ _ hk]
  rw [this]

/-- hence the phasors of a plane are unchanged when every OPD value and the wavelength are multiplied by `k ≠ 0` -/
theorem plane_phasors_scale (k wavelength : ℝ) (hk : k ≠ 0) (amp : Attr ℂ) (opd : Attr ℝ) (mask : MaskM) (data : List (Fld ℂ)) :
    planeMultiply (fun o => (planePh (k * wavelength) (k * o) : ℂ)) ⟨amp, opd, mask⟩ data
      = planeMultiply (planePh wavelength) ⟨amp, opd, mask⟩ data := by
  have : (fun o => (planePh (k * wavelength) (k * o) : ℂ)) = planePh wavelength := by
    funext o; exact planePh_scale k wavelength o hk
  rw [this]

/-- and the wavefront-level multiplication uses exactly this factor with the wavefront's own wavelength -/
theorem plane_uses_wavefront_wavelength [FocalLike ℝ] (p : PlaneM ℂ ℝ) (ppx : Option (Int × Int)) (w w' : Wf ℂ ℝ)
    (h : planeMultiplyW (fun wl o => planePh wl o) p ppx w = .ok w') :
    w'.data = planeMultiply (planePh w.wavelength) p w.data := by
  rw [plane_multiply_handover] at h
  cases hp : mulPixelscale ppx w.pixelscale with
  | error e => rw [hp] at h; simp [Except.map] at h
  | ok px => rw [hp] at h; simp only [Except.map, Except.ok.injEq] at h; subst h; rfl

end exponential

/-! ## The default plane is the identity -/
section identity
variable {K R : Type} [MulZeroOneClass K]

/-- **a plane with default attributes changes nothing**: `Plane()` has amplitude 1, OPD 0 and a 0-d mask, its phasor is
the one-element field `1 * 1 * exp(0) = 1` (`hph`), and every field comes out with the same extent and the same samples.
(A one-element field must sit at offset (0, 0), as the fresh wavefront's does — one-element scope note.) -/
theorem default_plane_identity (ph : R → K) (o : R) (hph : ph o = 1) (f : Fld K)
    (hpos : 0 < f.arr.s0 ∧ 0 < f.arr.s1) (hsz : f.size1 = true → f.o0 = 0 ∧ f.o1 = 0) :
    ∃ p, planeMultiply ph ⟨.scalar 1, .scalar o, .scalar true⟩ [f] = [p] ∧ p.extent = f.extent ∧
      ∀ r c, p.emb r c = f.emb r c := by
  have hq1 : (scalarPhasor ph (.scalar (1 : K)) (.scalar o) true).size1 = true := rfl
  have hqv : (scalarPhasor ph (.scalar (1 : K)) (.scalar o) true).arr.get 0 0 = 1 := by
    simp [scalarPhasor, maskMul, Attr.at, hph]
  have hpm : planeMultiply ph ⟨.scalar 1, .scalar o, .scalar true⟩ [f]
      = (match f.mul (scalarPhasor ph (.scalar (1 : K)) (.scalar o) true) with | some p => [p] | none => []) := by
    simp only [planeMultiply, planePhasors, List.flatMap_cons, List.flatMap_nil, List.append_nil, List.filterMap_cons,
      List.filterMap_nil]
    cases f.mul (scalarPhasor ph (.scalar (1 : K)) (.scalar o) true) <;> rfl
  cases hf : f.size1 with
  | false =>
    obtain ⟨p, hp, hext⟩ := mul_const_some f _ hf hq1 hpos
    refine ⟨p, by rw [hpm, hp], hext, ?_⟩
    intro r c
    have key := C06.mul_sem f (scalarPhasor ph (.scalar (1 : K)) (.scalar o) true) (by rw [hf]; rfl) hpos
      (by simp [scalarPhasor, attrShape]) r c
    simp only [hp] at key
    rw [key]
    simp only [Fld.sem, hf, hq1, Bool.false_eq_true, if_false, if_true, hqv, mul_one]
  | true =>
    obtain ⟨h0, h1⟩ := hsz hf
    have hm := Fld.mul_scalar_scalar f (scalarPhasor ph (.scalar (1 : K)) (.scalar o) true) (by rw [hf, hq1]; rfl)
    have hoff : f.o0 = (scalarPhasor ph (.scalar (1 : K)) (.scalar o) true).o0 ∧ f.o1 = (scalarPhasor ph (.scalar (1 : K)) (.scalar o) true).o1 :=
      ⟨h0, h1⟩
    rw [if_pos hoff] at hm
    have hs : f.arr.s0 = 1 ∧ f.arr.s1 = 1 := by
      simp only [Fld.size1, Bool.and_eq_true, decide_eq_true_eq] at hf; exact hf
    refine ⟨_, by rw [hpm, hm], ?_, ?_⟩
    · simp only [Fld.extent, hs.1, hs.2]
    · intro r c
      simp only [Fld.emb, Fld.extent, hs.1, hs.2, hqv, mul_one, embAt]
      split
      · rename_i hin
        rw [Extent.inb_iff, arrayExtent_eq] at hin
        simp only at hin
        have e1 : r - (arrayExtent 1 1 f.o0 f.o1).rmin = 0 := by rw [arrayExtent_eq]; simp only; omega
        have e2 : c - (arrayExtent 1 1 f.o0 f.o1).cmin = 0 := by rw [arrayExtent_eq]; simp only; omega
        rw [e1, e2]
      · rfl

/-- the default plane on a whole list of array fields: the list comes back unchanged (literally: same shapes, offsets, samples) -/
theorem default_plane_identity_list (ph : R → K) (o : R) (hph : ph o = 1) (data : List (Fld K))
    (hd : ∀ f ∈ data, f.size1 = false ∧ (0 < f.arr.s0 ∧ 0 < f.arr.s1)) :
    planeMultiply ph ⟨.scalar 1, .scalar o, .scalar true⟩ data = data :=
  planeMultiply_default_id ph o hph data (fun f hf => ⟨(hd f hf).1, (pos_iff_valid f).mp (hd f hf).2⟩)

/-- **a plane with default attributes changes nothing — the whole wavefront**: `Wavefront * Plane()` (amplitude 1, flat OPD `o` with
phase factor 1, 0-d mask, no pixel scale) returns the wavefront itself — same wavelength, focal length (truthy), pixel scale, shape and
the very same list of fields — for any number of array fields (one-element fields: `default_plane_identity`) -/
theorem default_plane_changes_nothing {M : Type} [FocalLike M] (phOf : M → R → K) (o : R) (w : Wf K M)
    (hph : phOf w.wavelength o = 1) (ht : FocalLike.truthy w.focal = true)
    (hd : ∀ f ∈ w.data, f.size1 = false ∧ (0 < f.arr.s0 ∧ 0 < f.arr.s1)) :
    planeMultiplyW phOf ⟨.scalar 1, .scalar o, .scalar true⟩ none w = .ok w := by
  rw [plane_multiply_handover, pixelscale_refusal]
  simp only [ht, if_true, Except.map]
  rw [default_plane_identity_list (phOf w.wavelength) o hph w.data hd]
  obtain ⟨wl, fo, px, sh, dat⟩ := w
  cases px <;> rfl

/-- **the fresh wavefront through an all-scalar plane** (scalar amplitude, scalar OPD, 0-d mask — e.g. `Plane(amplitude=2)`): the
single one-element field at the origin is multiplied by `amplitude · mask · exp(2πi·opd/λ)` and stays where it is -/
theorem fresh_times_scalar_plane (ph : R → K) (a : K) (o : R) (on : Bool) (w0 : Fld K) (h0 : w0.size1 = true)
    (hoff : w0.o0 = 0 ∧ w0.o1 = 0) :
    planeMultiply ph ⟨.scalar a, .scalar o, .scalar on⟩ [w0]
      = [{ arr := { s0 := 1, s1 := 1, get := fun _ _ => w0.arr.get 0 0 * (maskMul on a * ph o) }, o0 := w0.o0, o1 := w0.o1 }] := by
  have hq1 : (scalarPhasor ph (.scalar a) (.scalar o) on).size1 = true := rfl
  have hm := Fld.mul_scalar_scalar w0 (scalarPhasor ph (.scalar a) (.scalar o) on) (by rw [h0, hq1]; rfl)
  have hoff' : w0.o0 = (scalarPhasor ph (.scalar a) (.scalar o) on).o0 ∧ w0.o1 = (scalarPhasor ph (.scalar a) (.scalar o) on).o1 := hoff
  rw [if_pos hoff'] at hm
  simp only [planeMultiply, planePhasors, List.flatMap_cons, List.flatMap_nil, List.append_nil, List.filterMap_cons,
    List.filterMap_nil, hm]
  rfl

end identity

/-! ## Views: `field`, `intensity`, `insert` -/
section views
variable {K : Type} [NonAssocSemiring K]

/-- `Wavefront.field` is the coherent sum of the embedded fields: sample `(i, j)` of an array of shape `(S0, S1)` is the
sum of all fields at the global coordinate `(i - S0/2, j - S1/2)` — any number of fields, overlapping or not, inside,
partly inside or outside the array -/
theorem field_eq_sum (S0 S1 : Int) (data : List (Fld K)) (i j : Int) (hi : 0 ≤ i ∧ i < S0) (hj : 0 ≤ j ∧ j < S1) :
    (wfField 1 S0 S1 data).get i j = sumList data (fun f => f.emb (i - S0 / 2) (j - S1 / 2)) := by
  rw [wfField_eq]
  suffices h : ∀ (out : Arr K), out.s0 = S0 → out.s1 = S1 →
      (data.foldl (fun out f => insertArr f out 1) out).get i j
        = out.get i j + sumList data (fun f => f.emb (i - S0 / 2) (j - S1 / 2)) by
    rw [h (zerosArr S0 S1) rfl rfl]; simp [zerosArr]
  induction data with
  | nil => intro out _ _; simp
  | cons f fs ih =>
    intro out h0 h1
    obtain ⟨e0, e1⟩ := C06.insert_shape f out 1 id
    rw [List.foldl_cons, ih _ (e0.trans h0) (e1.trans h1), sumL_cons,
        C06.insert_emb f out 1 id i j (by omega) (by omega), h0, h1, add_assoc]
    congr 2
    show _ = embAt f.extent f.arr.get _ _
    unfold embAt
    split <;> simp

/-- inserting a list of fields with pairwise non-overlapping extents as intensities adds `|sum of the fields|^2 * w`:
at most one of them is non-zero at any pixel, so the sum of squared moduli *is* the squared modulus of the sum -/
theorem insert_disjoint_normSq (nsq : K → K) (h0 : nsq 0 = 0) (gs : List (Fld K))
    (hdis : gs.Pairwise (fun a b => ∀ r c, ¬ (a.extent.inb r c = true ∧ b.extent.inb r c = true)))
    (out : Arr K) (w : K) (i j : Int) (hi : 0 ≤ i ∧ i < out.s0) (hj : 0 ≤ j ∧ j < out.s1) :
    (gs.foldl (fun o g => insertArr g o w nsq) out).get i j
      = out.get i j + nsq (sumList gs (fun g => g.emb (i - out.s0 / 2) (j - out.s1 / 2))) * w := by
  induction gs generalizing out with
  | nil => simp [h0]
  | cons g gs ih =>
    obtain ⟨e0, e1⟩ := C06.insert_shape g out w nsq
    have hrest := (List.pairwise_cons.mp hdis).1
    rw [List.foldl_cons, ih (List.Pairwise.of_cons hdis) _ (by omega) (by omega), e0, e1, sumL_cons,
        C06.insert_emb g out w nsq i j hi hj, add_assoc]
    congr 1
    have ge : g.emb (i - out.s0 / 2) (j - out.s1 / 2) = embAt g.extent g.arr.get (i - out.s0 / 2) (j - out.s1 / 2) := rfl
    by_cases hin : g.extent.inb (i - out.s0 / 2) (j - out.s1 / 2) = true
    · have hz : sumList gs (fun g => g.emb (i - out.s0 / 2) (j - out.s1 / 2)) = 0 := by
        apply sumList_all_zero
        intro b hb
        have hb' : ¬ b.extent.inb (i - out.s0 / 2) (j - out.s1 / 2) = true := fun hh => hrest b hb _ _ ⟨hin, hh⟩
        show embAt b.extent b.arr.get _ _ = 0
        unfold embAt; rw [if_neg hb']
      rw [hz, h0, zero_mul, add_zero, add_zero, ge]
      unfold embAt; rw [if_pos hin, if_pos hin]
    · rw [ge]; unfold embAt; rw [if_neg hin, if_neg hin, zero_add, zero_add]

/-- non-vacuity of the reduce hypotheses below: a single field reduces to itself -/
example : reduce [Witness.a55] = [Witness.a55].map some ∧
    [Witness.a55].Pairwise (fun a b => ∀ r c, ¬ (a.extent.inb r c = true ∧ b.extent.inb r c = true)) := ⟨by rfl, by simp⟩

/-- `Wavefront.insert(out, weight)` in terms of what `reduce` returns (`gs`) -/
theorem wfInsert_of_reduce (nsq : K → K) (data gs : List (Fld K)) (hred : reduce data = gs.map some) (out : Arr K) (w : K) :
    wfInsert 1 nsq data out w = some (gs.foldl (fun o g => insertArr g o w nsq) out) := by
  rw [wfInsert_eq, hred]; clear hred
  induction gs generalizing out with
  | nil => rfl
  | cons g gs ih =>
    rw [List.map_cons, List.foldl_cons, List.foldl_cons]
    exact ih _

/-- **`Wavefront.insert` hands the caller's weight on to `field.insert`** (about the *generated* `Gen.insertWiring`, read off
`wavefront.py:Wavefront.insert` on every run): the wiring passes `weight=weight`, so the result does not depend on
`field.insert`'s own default weight (`one`, any value) — only on `w`. A source that drops `weight=weight` regenerates
`weighted := false`; the model then inserts with the default and this statement (and `wavefront_insert_weight`, now stated
for the default 1) fails. -/
theorem wavefront_insert_uses_weight (one one' : K) (nsq : K → K) (data : List (Fld K)) (out : Arr K) (w : K) :
    Gen.insertWiring.weighted = true ∧ wfInsert one nsq data out w = wfInsert one' nsq data out w := by
  refine ⟨rfl, ?_⟩
  rw [wfInsert_eq, wfInsert_eq]

/-- when `wfInsert` returns, `reduce` returned fields only (it always does: `wavefront_insert_defined`) -/
theorem wfInsert_some (nsq : K → K) (data : List (Fld K)) (out out' : Arr K) (w : K)
    (h : wfInsert 1 nsq data out w = some out') : ∃ gs : List (Fld K), reduce data = gs.map some := by
  rw [wfInsert_eq] at h
  generalize reduce data = l at h
  have hnone : ∀ (l : List (Option (Fld K))), l.foldl (insertStep nsq w) none = none := by
    intro l; induction l with
    | nil => rfl
    | cons x xs ih => rw [List.foldl_cons]; exact ih
  induction l generalizing out with
  | nil => exact ⟨[], rfl⟩
  | cons x xs ih =>
    cases x with
    | none =>
      rw [List.foldl_cons] at h
      have : insertStep nsq w (some out) (none : Option (Fld K)) = none := rfl
      rw [this, hnone] at h; exact absurd h (by simp)
    | some g =>
      rw [List.foldl_cons] at h
      have : insertStep nsq w (some out) (some g) = some (insertArr g out w nsq) := rfl
      rw [this] at h
      obtain ⟨gs, hgs⟩ := ih _ h
      exact ⟨g :: gs, by rw [hgs]; rfl⟩

/-- **`Wavefront.insert` always returns** (C06 `reduce_defined`: since the repo fix of `_merge_shape` no merge of array
fields can raise), for every collection of fields, target and weight -/
theorem wavefront_insert_defined (nsq : K → K) (data : List (Fld K)) (out : Arr K) (w : K) :
    ∃ out', wfInsert 1 nsq data out w = some out' := by
  obtain ⟨gs, hred⟩ := C06.reduce_defined data
  exact ⟨_, wfInsert_of_reduce nsq data gs hred out w⟩

/-- and so does `Wavefront.intensity` -/
theorem intensity_defined (nsq : K → K) (S0 S1 : Int) (data : List (Fld K)) :
    ∃ I, wfIntensity 1 nsq S0 S1 data = some I := by
  rw [wfIntensity_eq]; exact wavefront_insert_defined nsq data _ 1

/-- **`Wavefront.insert(out, weight)` adds `weight * |field|^2` and nothing else**: whenever the call returns, every
sample of the target is its prior content plus `weight` times the squared modulus of the *coherent sum* of all fields at
that sample (`nsq z = |z^2|`, `nsq 0 = 0`), for any number of overlapping fields of any shapes and offsets, any target
shape, any weight; the target's shape is unchanged. (Uses `reduce_total` and `reduce_pairwise_disjoint` of C06.) -/
theorem wavefront_insert_weight (nsq : K → K) (h0 : nsq 0 = 0) (data : List (Fld K))
    (hpos : ∀ f ∈ data, 0 < f.arr.s0 ∧ 0 < f.arr.s1) (out out' : Arr K) (w : K)
    (h : wfInsert 1 nsq data out w = some out') :
    out'.s0 = out.s0 ∧ out'.s1 = out.s1 ∧
      ∀ i j, 0 ≤ i ∧ i < out.s0 → 0 ≤ j ∧ j < out.s1 →
        out'.get i j = out.get i j + nsq (sumList data (fun f => f.emb (i - out.s0 / 2) (j - out.s1 / 2))) * w := by
  obtain ⟨gs, hred⟩ := wfInsert_some nsq data out out' w h
  have hdis := C06.reduce_pairwise_disjoint data hpos gs hred
  have htot := C06.reduce_total data hpos gs hred
  rw [wfInsert_of_reduce nsq data gs hred out w, Option.some.injEq] at h
  subst h
  refine ⟨?_, ?_, ?_⟩
  · clear hdis htot hred
    induction gs generalizing out with
    | nil => rfl
    | cons g gs ih => rw [List.foldl_cons, ih, (C06.insert_shape g out w nsq).1]
  · clear hdis htot hred
    induction gs generalizing out with
    | nil => rfl
    | cons g gs ih => rw [List.foldl_cons, ih, (C06.insert_shape g out w nsq).2]
  · intro i j hi hj
    rw [insert_disjoint_normSq nsq h0 gs hdis out w i j hi hj, htot]

/-- the same with definedness as a conclusion: for every collection of positive-shape fields the call returns an array of
the target's shape whose every sample is the prior content plus `weight · |Σ fields|²` -/
theorem wavefront_insert_weight_total (nsq : K → K) (h0 : nsq 0 = 0) (data : List (Fld K))
    (hpos : ∀ f ∈ data, 0 < f.arr.s0 ∧ 0 < f.arr.s1) (out : Arr K) (w : K) :
    ∃ out', wfInsert 1 nsq data out w = some out' ∧ out'.s0 = out.s0 ∧ out'.s1 = out.s1 ∧
      ∀ i j, 0 ≤ i ∧ i < out.s0 → 0 ≤ j ∧ j < out.s1 →
        out'.get i j = out.get i j + nsq (sumList data (fun f => f.emb (i - out.s0 / 2) (j - out.s1 / 2))) * w := by
  obtain ⟨out', h⟩ := wavefront_insert_defined nsq data out w
  exact ⟨out', h, wavefront_insert_weight nsq h0 data hpos out out' w h⟩

/-- **`Wavefront.intensity` equals `|Wavefront.field|^2`, sample by sample**, for any number of fields, overlapping or
not: contributions landing on the same sample are added as complex amplitudes before the squared modulus, never as
intensities -/
theorem intensity_eq_normSq_field (nsq : K → K) (h0 : nsq 0 = 0) (S0 S1 : Int) (data : List (Fld K))
    (hpos : ∀ f ∈ data, 0 < f.arr.s0 ∧ 0 < f.arr.s1) (I : Arr K) (h : wfIntensity 1 nsq S0 S1 data = some I) :
    I.s0 = S0 ∧ I.s1 = S1 ∧
      ∀ i j, 0 ≤ i ∧ i < S0 → 0 ≤ j ∧ j < S1 → I.get i j = nsq ((wfField 1 S0 S1 data).get i j) := by
  obtain ⟨e0, e1, hget⟩ := wavefront_insert_weight nsq h0 data hpos (zerosArr S0 S1) I 1 h
  refine ⟨e0, e1, ?_⟩
  intro i j hi hj
  rw [hget i j hi hj, field_eq_sum S0 S1 data i j hi hj]
  simp [zerosArr]

/-- unconditional form: the intensity exists and equals `|field|²` at every sample -/
theorem intensity_eq_normSq_field_total (nsq : K → K) (h0 : nsq 0 = 0) (S0 S1 : Int) (data : List (Fld K))
    (hpos : ∀ f ∈ data, 0 < f.arr.s0 ∧ 0 < f.arr.s1) :
    ∃ I, wfIntensity 1 nsq S0 S1 data = some I ∧ I.s0 = S0 ∧ I.s1 = S1 ∧
      ∀ i j, 0 ≤ i ∧ i < S0 → 0 ≤ j ∧ j < S1 → I.get i j = nsq ((wfField 1 S0 S1 data).get i j) := by
  obtain ⟨I, h⟩ := intensity_defined nsq S0 S1 data
  exact ⟨I, h, intensity_eq_normSq_field nsq h0 S0 S1 data hpos I h⟩

/-- **the intensity is the complex squared modulus**: the views theorem at `K = ℂ` with `nsq z = |z|²` (`Complex.normSq`):
`Wavefront.intensity` at a sample is `|Σ fields|²` -/
theorem intensity_is_complex_normSq (S0 S1 : Int) (data : List (Fld ℂ)) (hpos : ∀ f ∈ data, 0 < f.arr.s0 ∧ 0 < f.arr.s1)
    (I : Arr ℂ) (h : wfIntensity 1 (fun z => (Complex.normSq z : ℂ)) S0 S1 data = some I)
    (i j : Int) (hi : 0 ≤ i ∧ i < S0) (hj : 0 ≤ j ∧ j < S1) :
    I.get i j = (Complex.normSq (sumList data (fun f => f.emb (i - S0 / 2) (j - S1 / 2))) : ℂ) := by
  obtain ⟨_, _, hget⟩ := intensity_eq_normSq_field (fun z => (Complex.normSq z : ℂ)) (by simp) S0 S1 data hpos I h
  rw [hget i j hi hj, field_eq_sum S0 S1 data i j hi hj]

end views

/-! ## The loop body of `Plane.multiply`, regenerated from the source (wave 12) -/
section loop
variable {K R : Type}

/-- **the per-segment phasor of the model is the loop body of `Plane.multiply` as the source has it** (about the
*generated* `Gen.planeLoopAmp`, `Gen.planeLoopOpd`, `Gen.planeLoopData`, `Gen.planeLoopOffset`, read off plane.py:457-463 on
every run): at every sample `(i, j)` of the slice `s`, the data of `segPhasor` is `amp * np.exp(..)` with
`amp = self.amplitude * mask[s] if self.amplitude.size == 1 else self.amplitude[s] * mask[s]` and
`opd = self.opd if self.opd.size == 1 else self.opd[s]`, the 0/1 mask entry being `1`/`0` of `K`, and its offset is
`slice_offset(s, self.shape)`. Hypotheses: an *array* attribute does not have exactly one element (NumPy would then
broadcast it; the harness ASSUMPTION "attribute arrays have the shape of the mask" with the one-element exclusion). A
source change that drops `* mask[s]` from either branch, slices the wrong attribute, swaps the branches, changes the
`size == 1` tests or the arguments of `slice_offset` changes the generated definitions and breaks this proof. -/
theorem loop_body_is_segPhasor [MulZeroOneClass K] (ph : R → K) (amp : Attr K) (opd : Attr R) (s0 s1 : Int) (g : Seg)
    (ha : ∀ x, amp = .array x → x.s0 * x.s1 ≠ 1) (ho : ∀ x, opd = .array x → x.s0 * x.s1 ≠ 1) (i j : Int) :
    (segPhasor ph amp opd s0 s1 g).arr.get i j
      = Gen.planeLoopData
          (Gen.planeLoopAmp amp.npSize amp.whole (amp.at (i + g.s.r0) (j + g.s.c0)) (if g.m (i + g.s.r0) (j + g.s.c0) then 1 else 0))
          (ph (Gen.planeLoopOpd opd.npSize opd.whole (opd.at (i + g.s.r0) (j + g.s.c0))))
    ∧ ((segPhasor ph amp opd s0 s1 g).o0, (segPhasor ph amp opd s0 s1 g).o1)
        = Gen.planeLoopOffset g.s.r0 g.s.r1 g.s.c0 g.s.c1 s0 s1
    ∧ ((segPhasor ph amp opd s0 s1 g).arr.s0, (segPhasor ph amp opd s0 s1 g).arr.s1) = (g.s.r1 - g.s.r0, g.s.c1 - g.s.c0) := by
  refine ⟨?_, rfl, rfl⟩
  have hA : Gen.planeLoopAmp amp.npSize amp.whole (amp.at (i + g.s.r0) (j + g.s.c0)) (if g.m (i + g.s.r0) (j + g.s.c0) then (1 : K) else 0)
      = maskMul (g.m (i + g.s.r0) (j + g.s.c0)) (amp.at (i + g.s.r0) (j + g.s.c0)) := by
    unfold Gen.planeLoopAmp maskMul
    cases amp with
    | scalar v => cases g.m (i + g.s.r0) (j + g.s.c0) <;> simp [Attr.npSize, Attr.whole, Attr.at]
    | array x =>
      have := ha x rfl
      cases g.m (i + g.s.r0) (j + g.s.c0) <;> simp [Attr.npSize, Attr.at, this]
  have hO : Gen.planeLoopOpd opd.npSize opd.whole (opd.at (i + g.s.r0) (j + g.s.c0)) = opd.at (i + g.s.r0) (j + g.s.c0) := by
    unfold Gen.planeLoopOpd
    cases opd with
    | scalar v => simp [Attr.npSize, Attr.whole, Attr.at]
    | array x =>
      have := ho x rfl
      simp [Attr.npSize, this]
  rw [hA, hO]
  rfl

/-- the hypotheses of `loop_body_is_segPhasor` hold for a 2×3 amplitude array and a scalar OPD, and the generated body
evaluates: outside the mask the phasor is 0 whatever the amplitude, inside it is `amplitude[s] * exp-factor` -/
example : (∀ x, (Attr.array (⟨2, 3, fun i j => i + j + 5⟩ : Arr Int)) = .array x → x.s0 * x.s1 ≠ 1)
    ∧ Gen.planeLoopData (Gen.planeLoopAmp (6 : Int) (5 : Int) 7 0) 3 = 0
    ∧ Gen.planeLoopData (Gen.planeLoopAmp (6 : Int) (5 : Int) 7 1) 3 = 21
    ∧ Gen.planeLoopData (Gen.planeLoopAmp (1 : Int) (5 : Int) 7 1) 3 = 15
    ∧ Gen.planeLoopData (Gen.planeLoopAmp (1 : Int) (5 : Int) 7 0) 3 = 0 := by
  refine ⟨?_, by decide, by decide, by decide, by decide⟩
  intro x hx
  cases hx
  decide

/-- **which mask the loop reads, and which products it keeps** (generated `Gen.planeLoopMaskLayer` from
`mask = self.mask if self.mask.ndim < 3 else self.mask[n]`, `Gen.planeLoopKeep` from `if res.size > 0:`): layer `n` exactly for
masks of three or more dimensions — the model's `MaskM.segs` gives each segment its own layer and a 2-D mask one segment
with the whole mask — and a product is appended exactly when it has at least one element (the model's `filterMap`
drops the empty ones and nothing else) -/
theorem loop_mask_and_keep (ndim n : Int) :
    (Gen.planeLoopMaskLayer ndim = true ↔ 3 ≤ ndim) ∧ (Gen.planeLoopKeep n = true ↔ 0 < n) := by
  unfold Gen.planeLoopMaskLayer Gen.planeLoopKeep
  refine ⟨?_, by simp⟩
  by_cases h : ndim < 3
  · simp only [h, decide_true, if_true]
    constructor
    · intro hh; cases hh
    · intro hh; omega
  · simp only [h, decide_false]
    constructor
    · intro _; omega
    · intro _; rfl

/-- **the model's description of a mask is what `Plane.shape`, `Plane.size`, `_plane_slice` and the loop's mask selection
make of it** (about the *generated* `Gen.planeShape`, `Gen.planeSize`, `Gen.planeSliceKind`, `Gen.planeLoopMaskLayer`, read off
plane.py:186-214, 528-562, 456 on every run). A plane `.segs s0 s1 l` of the model stands for a 3-D mask of shape
`(l.length, s0, s1)` with **any** number of layers — including a single layer — and, when `l` has one segment, also for the
2-D mask of shape `(s0, s1)`; `.scalar` for a 0-d mask. In each reading: `plane.shape` is the model's `PlaneM.shape`,
`plane.size` (the stride of `tilt[n::size]`) is the number of model segments, `_slice` has one `boundary_slice` per layer
(resp. one for the whole mask, resp. `Ellipsis`), and the loop reads `mask[n]` (resp. the whole mask). A source change that
makes a one-layer 3-D mask report a 3-tuple shape (the defect repaired in the repository: `if self.size == 1` in
`Plane.shape`) or take the whole 3-D array as the layer breaks this proof. -/
theorem plane_geometry_matches_model [Zero K] (p : PlaneM K R) :
    match p.mask with
    | .segs s0 s1 l =>
        (Gen.planeShape [(l.length : Int), s0, s1] = [s0, s1] ∧ p.shape = some (s0, s1)
          ∧ (1 ≤ l.length → Gen.planeSize [(l.length : Int), s0, s1] = l.length)
          ∧ Gen.planeSliceKind [(l.length : Int), s0, s1] = .ok .perLayer
          ∧ Gen.planeLoopMaskLayer (([(l.length : Int), s0, s1] : List Int).length) = true)
        ∧ (Gen.planeShape [s0, s1] = [s0, s1] ∧ Gen.planeSize [s0, s1] = 1
          ∧ Gen.planeSliceKind [s0, s1] = .ok .whole ∧ Gen.planeLoopMaskLayer (([s0, s1] : List Int).length) = false)
    | .scalar _ =>
        Gen.planeShape [] = [] ∧ p.shape = none ∧ Gen.planeSize [] = 1 ∧ Gen.planeSliceKind [] = .ok .ellipsis := by
  cases hm : p.mask with
  | scalar on =>
    refine ⟨by decide, ?_, by decide, by decide⟩
    simp only [PlaneM.shape, hm]
  | segs s0 s1 l =>
    refine ⟨⟨?_, ?_, ?_, ?_, ?_⟩, ?_, ?_, ?_, ?_⟩
    · simp [Gen.planeShape]
    · simp only [PlaneM.shape, hm]
    · intro _; simp [Gen.planeSize]
    · simp [Gen.planeSliceKind]
    · simp [Gen.planeLoopMaskLayer]
    · simp [Gen.planeShape]
    · simp [Gen.planeSize]
    · simp [Gen.planeSliceKind]
    · simp [Gen.planeLoopMaskLayer]

/-- **the `res.size > 0` guard keeps exactly what the model keeps** (about the *generated* `Gen.planeLoopKeep`, read off
`if res.size > 0:` in `Plane.multiply` on every run): the model writes an empty product as `none` and `planeMultiply`
drops those with `filterMap`; every product it keeps (`f.mul q = some r`, both operands of positive shape) has
`res.size > 0` in the sense of the source's guard — also a one-element product — and an empty product (`size = 0`) is
not kept. A guard `res.size > 1` or `res.size >= 0` breaks this proof. -/
theorem loop_keep_matches_filterMap [Mul K] (f q r : Fld K) (hf : 0 < f.arr.s0 ∧ 0 < f.arr.s1) (hq : 0 < q.arr.s0 ∧ 0 < q.arr.s1)
    (h : f.mul q = some r) : Gen.planeLoopKeep r.size = true ∧ Gen.planeLoopKeep 0 = false := by
  obtain ⟨h0, h1⟩ := Fld.mul_pos_shape f q r hf hq h
  have a0 : 0 < r.arr.s0.toNat := by omega
  have a1 : 0 < r.arr.s1.toNat := by omega
  have hp : 0 < r.arr.s0.toNat * r.arr.s1.toNat := Nat.mul_pos a0 a1
  refine ⟨?_, by decide⟩
  unfold Gen.planeLoopKeep Fld.size
  simp only [gt_iff_lt, decide_eq_true_eq]
  omega

/-- the same along the whole loop: every field `planeMultiply` returns passed the source's guard -/
theorem plane_multiply_keeps_nonempty [Zero K] [Mul K] (ph : R → K) (p : PlaneM K R) (data : List (Fld K))
    (hd : ∀ f ∈ data, 0 < f.arr.s0 ∧ 0 < f.arr.s1) (hp : ∀ q ∈ planePhasors ph p, 0 < q.arr.s0 ∧ 0 < q.arr.s1) :
    ∀ r ∈ planeMultiply ph p data, Gen.planeLoopKeep r.size = true := by
  intro r hr
  unfold planeMultiply at hr
  obtain ⟨f, hfm, hr⟩ := List.mem_flatMap.mp hr
  obtain ⟨q, hqm, hr⟩ := List.mem_filterMap.mp hr
  exact (loop_keep_matches_filterMap f q r (hd f hfm) (hp q hqm) hr).1

/-- non-vacuity: a one-element product passes the guard -/
example : Gen.planeLoopKeep 1 = true := by decide

end loop

end Lentil.C07
