import LentilVerif.Lemmas.Fft
import LentilVerif.Lemmas.FftDft
import LentilVerif.Lemmas.Pad
import LentilVerif.Lemmas.FftBridge
import LentilVerif.Lemmas.FftGuards
import LentilVerif.Props.C02
import Mathlib.Analysis.Real.Sqrt
import LentilVerif.Lemmas.FftComplex
import Mathlib.Tactic.FieldSimp
import Mathlib.Tactic.Ring
import Mathlib.Algebra.Order.Field.Rat
/-! # C09 — FFT propagation agrees with DFT propagation at the reported wavelength; scratch space is transparent

Property theorems only, about the model `Lentil.propagateFft` (Model/PropagateFft.lean; tied to
`lentil.propagate_fft` by the correspondence harness). `np.fft` enters through its documented contracts. -/
namespace Lentil.C09
open Lentil

section generic
set_option linter.unusedSectionVars false
variable {K R : Type} [Add R] [Sub R] [Mul R] [Neg R] [Div R] [RealLike R] [FftLike R] [Add K] [Mul K] [Zero K] [CxLike K R]

/-- **Wavefronts carrying tilt metadata are refused** (never propagated without their tilt), whatever else is asked -/
theorem refuses_tilted_wavefront (one : K) (fs : List (Fld K)) (W0 W1 : Int) (dx0 dx1 du0 du1 wl z : R) (os : Int)
    (shape : Option (Int × Int)) (scratch : Option (Arr K)) :
    propagateFft one fs true W0 W1 dx0 dx1 du0 du1 wl z os shape scratch = FftOut.notImplemented := by
  simp [propagateFft]

/-- **A wavefront in which ANY field carries tilt metadata is refused** — not only the first field, not only when all do:
`_has_tilt` (generated) is true as soon as one entry of the per-field tilt counts is non-zero -/
theorem refuses_any_tilted_field (one : K) (fs : List (Fld K)) (ntilt : List Int) (n : Int) (hn : n ∈ ntilt) (hpos : n ≠ 0)
    (W0 W1 : Int) (dx0 dx1 du0 du1 wl z : R) (os : Int) (shape : Option (Int × Int)) (scratch : Option (Arr K)) :
    propagateFft one fs (Gen.hasTilt ntilt) W0 W1 dx0 dx1 du0 du1 wl z os shape scratch = FftOut.notImplemented := by
  have h : Gen.hasTilt ntilt = true := hasTilt_true_of_mem ntilt n hn hpos
  rw [h]; exact refuses_tilted_wavefront one fs W0 W1 dx0 dx1 du0 du1 wl z os shape scratch

/-- and a wavefront none of whose fields carries tilt is not refused on that account -/
theorem untilted_not_refused (ntilt : List Int) (h : ∀ n ∈ ntilt, n = 0) : Gen.hasTilt ntilt = false :=
  hasTilt_false_of_all_zero ntilt h

/-- **The call on a wavefront of ANY plane type refuses tilt first**: also a wavefront that has met no pupil/image plane (type
`none`, e.g. `Wavefront(wl, tilt=…)` through a plain `Plane`) is refused as tilted (NotImplementedError), the tilt guard
precedes the plane-type guard in the regenerated guard table `Gen.codePropagateFft` -/
theorem call_refuses_tilted_any_type (w : Gen.WType) (one : K) (fs : List (Fld K)) (W0 W1 : Int) (dx0 dx1 du0 du1 wl z : R) (os : Int)
    (shape : Option (Int × Int)) (scratch : Option (Arr K)) :
    propagateFftCall w one fs true W0 W1 dx0 dx1 du0 du1 wl z os shape scratch = FftCallOut.refusedBy .notImplementedError := by
  cases w <;> rfl

/-- **No outcome of the call carries a field of a tilted wavefront**: whatever the plane type, shape and scratch, if the call
returns a propagated field then no field of the wavefront carried tilt -/
theorem call_result_implies_untilted (w t : Gen.WType) (one : K) (fs : List (Fld K)) (ht : Bool) (W0 W1 : Int)
    (dx0 dx1 du0 du1 wl z : R) (os : Int) (shape : Option (Int × Int)) (scratch : Option (Arr K)) (lam : R) (S0 S1 : Int)
    (so : Int × Int) (g : Fld K)
    (h : propagateFftCall w one fs ht W0 W1 dx0 dx1 du0 du1 wl z os shape scratch = FftCallOut.done t (FftOut.ok lam S0 S1 so g)) :
    ht = false := by
  cases ht
  · rfl
  · rw [call_refuses_tilted_any_type] at h; cases h

/-- **An untilted wavefront without a plane type is refused (TypeError), never propagated; on a pupil / image wavefront the
call IS the body `propagateFft`** every other theorem of this file is about, with the plane type flipped -/
theorem call_untilted (w : Gen.WType) (one : K) (fs : List (Fld K)) (W0 W1 : Int) (dx0 dx1 du0 du1 wl z : R) (os : Int)
    (shape : Option (Int × Int)) (scratch : Option (Arr K)) :
    propagateFftCall w one fs false W0 W1 dx0 dx1 du0 du1 wl z os shape scratch =
      match w with
      | .none => FftCallOut.refusedBy .typeError
      | .pupil => FftCallOut.done .image (propagateFft one fs false W0 W1 dx0 dx1 du0 du1 wl z os shape scratch)
      | .image => FftCallOut.done .pupil (propagateFft one fs false W0 W1 dx0 dx1 du0 du1 wl z os shape scratch) := by
  cases w <;> rfl

/-- **The grid and the reported wavelength of the model are the regenerated arithmetic of `_fft_shape`**: `fftShape` (and the advertised
`scratchShape`) is `Gen.fftShapeOfAlpha` — the composition read from `fft_shape = np.round(np.reciprocal(alpha)).astype(int)` — with
round-half-even and `1/·` whatever `floor` / `ceil` are, and `propWavelength` is the regenerated reduction (`np.min`) of the two
regenerated per-axis wavelengths. Another rounding, a dropped reciprocal or another reduction in the source changes these
definitions and this proof stops checking. -/
theorem fft_shape_is_generated (fl ce : R → Int) (mx mean : R → R → R) (dx0 dx1 du0 du1 z wl : R) (os S0 S1 : Int) :
    fftShape dx0 dx1 du0 du1 z wl os
      = Gen.fftShapeOfAlpha FftLike.roundEven fl ce (fun a => RealLike.ofInt 1 / a)
          (Gen.fftShapeAlpha dx0 dx1 du0 du1 z wl (RealLike.ofInt os)).1 (Gen.fftShapeAlpha dx0 dx1 du0 du1 z wl (RealLike.ofInt os)).2 ∧
    scratchShape wl dx0 dx1 du0 du1 z os
      = Gen.fftShapeOfAlpha FftLike.roundEven fl ce (fun a => RealLike.ofInt 1 / a)
          (Gen.scratchShapeAlpha dx0 dx1 du0 du1 z wl (RealLike.ofInt os)).1 (Gen.scratchShapeAlpha dx0 dx1 du0 du1 z wl (RealLike.ofInt os)).2 ∧
    propWavelength S0 S1 dx0 dx1 du0 du1 z wl os
      = Gen.fftWavelengthReduce FftLike.min mx mean
          (Gen.fftReportedWavelengths (RealLike.ofInt S0) (RealLike.ofInt S1) dx0 dx1 du0 du1 z wl (RealLike.ofInt os)).1
          (Gen.fftReportedWavelengths (RealLike.ofInt S0) (RealLike.ofInt S1) dx0 dx1 du0 du1 z wl (RealLike.ofInt os)).2 :=
  ⟨rfl, rfl, rfl⟩

/-- **A scratch buffer of exactly the advertised `scratch_shape` (= `fft_shape`) is sufficient**, and so is any larger
one: a call that is accepted without scratch is accepted with it -/
theorem scratch_shape_sufficient (one : K) (fs : List (Fld K)) (W0 W1 : Int) (dx0 dx1 du0 du1 wl z : R) (os : Int)
    (shape : Option (Int × Int)) (scr : Arr K)
    (hs : scr.s0 ≥ (fftShape dx0 dx1 du0 du1 z wl os).1 ∧ scr.s1 ≥ (fftShape dx0 dx1 du0 du1 z wl os).2)
    (hno : propagateFft one fs false W0 W1 dx0 dx1 du0 du1 wl z os shape none ≠ FftOut.valueError) :
    propagateFft one fs false W0 W1 dx0 dx1 du0 du1 wl z os shape (some scr) ≠ FftOut.valueError := by
  have hsm : scratchTooSmall (some scr) (fftShape dx0 dx1 du0 du1 z wl os) = false := (scratchTooSmall_false_iff _ _).mpr hs
  by_cases hb : shapeTooBig (R := R) shape (fftShape dx0 dx1 du0 du1 z wl os) os = true
  · simp only [propagateFft, Bool.false_eq_true, if_false, hb, if_true, ne_eq, not_true_eq_false] at hno
  · simp only [propagateFft, Bool.false_eq_true, if_false, hb, hsm]; intro h; cases h

/-- a buffer smaller than the grid on some axis is refused -/
theorem refuses_small_scratch (one : K) (fs : List (Fld K)) (W0 W1 : Int) (dx0 dx1 du0 du1 wl z : R) (os : Int)
    (shape : Option (Int × Int)) (scr : Arr K)
    (hs : scr.s0 < (fftShape dx0 dx1 du0 du1 z wl os).1 ∨ scr.s1 < (fftShape dx0 dx1 du0 du1 z wl os).2) :
    propagateFft one fs false W0 W1 dx0 dx1 du0 du1 wl z os shape (some scr) = FftOut.valueError := by
  have hsm : scratchTooSmall (some scr) (fftShape dx0 dx1 du0 du1 z wl os) = true := (scratchTooSmall_true_iff _ _).mpr hs
  by_cases hb : shapeTooBig (R := R) shape (fftShape dx0 dx1 du0 du1 z wl os) os = true
  · simp only [propagateFft, Bool.false_eq_true, if_false, hb, if_true]
  · simp only [propagateFft, Bool.false_eq_true, if_false, hb, hsm, if_true]

/-- the views of the scratch buffer that receive the inserted fields and that are transformed are exactly the
`S0 x S1` corner `scratch[0:S0, 0:S1]`, and so is the region zeroed beforehand (generated from the source) -/
theorem scratch_views_are_corner (S0 S1 : Int) :
    Gen.scratchZero S0 S1 = ((0, S0), (0, S1)) ∧ Gen.scratchInsertTarget S0 S1 = ((0, S0), (0, S1)) ∧
    Gen.scratchInsertView S0 S1 = ((0, S0), (0, S1)) ∧ Gen.scratchFftView S0 S1 = ((0, S0), (0, S1)) :=
  ⟨rfl, rfl, rfl, rfl⟩

/-- **Scratch is transparent.** For two scratch buffers of any sufficient sizes and any prior contents, the padded grid
handed to the FFT is the same at every grid index, hence so is every sample of the result. -/
theorem scratch_transparent_grid (one : K) (fs : List (Fld K)) (W0 W1 S0 S1 : Int) (scr scr' : Arr K) (i j : Int)
    (hi : 0 ≤ i ∧ i < S0) (hj : 0 ≤ j ∧ j < S1) :
    (fftGrid one fs W0 W1 S0 S1 (some scr)).get i j = (fftGrid one fs W0 W1 S0 S1 (some scr')).get i j := by
  unfold fftGrid
  apply foldInsert_get_congr <;> try rfl
  rw [zeroedCorner_get scr S0 S1 i j hi hj, zeroedCorner_get scr' S0 S1 i j hi hj]

theorem scratch_transparent (one : K) (fs : List (Fld K)) (W0 W1 S0 S1 : Int) (scr scr' : Arr K) (hS : 0 < S0 ∧ 0 < S1)
    (u v : Int) :
    (fft2c (R := R) (fftGrid one fs W0 W1 S0 S1 (some scr))).get u v =
    (fft2c (R := R) (fftGrid one fs W0 W1 S0 S1 (some scr'))).get u v := by
  have hsh : ∀ s : Arr K, (fftGrid one fs W0 W1 S0 S1 (some s)).s0 = S0 ∧ (fftGrid one fs W0 W1 S0 S1 (some s)).s1 = S1 := by
    intro s; unfold fftGrid; exact foldInsert_shape fs (zeroedCorner s S0 S1) one
  simp only [fft2c, fft2Ortho, (hsh scr).1, (hsh scr).2, (hsh scr').1, (hsh scr').2]
  congr 1
  apply sumRange_congr; intro b _
  congr 1
  apply sumRange_congr; intro a _
  congr 1
  exact scratch_transparent_grid one fs W0 W1 S0 S1 scr scr' _ _ (emod_rangeB _ _ hS.1) (emod_rangeB _ _ hS.2)

end generic

/-- **A scratch buffer does not change the result.** For a wavefront no larger than the grid (whose fields lie on its
canvas), the call with a sufficient scratch buffer — of any size, with any prior content — returns the same reported
wavelength, grid and output shape as the call without scratch, and the same value at every sample of the output field. -/
theorem scratch_equals_no_scratch {K R : Type} [Add R] [Sub R] [Mul R] [Neg R] [Div R] [RealLike R] [FftLike R]
    [Semiring K] [CxLike K R]
    (fs : List (Fld K)) (W0 W1 : Int) (dx0 dx1 du0 du1 wl z : R) (os : Int) (shape : Option (Int × Int)) (scr : Arr K)
    (hs : scr.s0 ≥ (fftShape dx0 dx1 du0 du1 z wl os).1 ∧ scr.s1 ≥ (fftShape dx0 dx1 du0 du1 z wl os).2)
    (hW : 0 ≤ W0 ∧ W0 ≤ (fftShape dx0 dx1 du0 du1 z wl os).1 ∧ 0 ≤ W1 ∧ W1 ≤ (fftShape dx0 dx1 du0 du1 z wl os).2)
    (hfit : ∀ f ∈ fs, f.within W0 W1)
    (lam : R) (S0 S1 : Int) (so : Int × Int) (g : Fld K)
    (h : propagateFft 1 fs false W0 W1 dx0 dx1 du0 du1 wl z os shape none = FftOut.ok lam S0 S1 so g) :
    ∃ g' : Fld K, propagateFft 1 fs false W0 W1 dx0 dx1 du0 du1 wl z os shape (some scr) = FftOut.ok lam S0 S1 so g' ∧
      g'.o0 = g.o0 ∧ g'.o1 = g.o1 ∧ ∀ u v, g'.arr.get u v = g.arr.get u v := by
  have hsm : scratchTooSmall (some scr) (fftShape dx0 dx1 du0 du1 z wl os) = false := (scratchTooSmall_false_iff _ _).mpr hs
  have hsn : scratchTooSmall (none : Option (Arr K)) (fftShape dx0 dx1 du0 du1 z wl os) = false := rfl
  by_cases hb : shapeTooBig (R := R) shape (fftShape dx0 dx1 du0 du1 z wl os) os = true
  · simp only [propagateFft, Bool.false_eq_true, if_false, hb, if_true] at h; cases h
  simp only [propagateFft, Bool.false_eq_true, if_false, hb, hsn, FftOut.ok.injEq] at h
  obtain ⟨hl, h0, h1, hso, hg⟩ := h
  refine ⟨_, by simp only [propagateFft, Bool.false_eq_true, if_false, hb, hsm, FftOut.ok.injEq]; exact ⟨hl, h0, h1, hso, rfl⟩, ?_, ?_, ?_⟩
  · rw [← hg]
  · rw [← hg]
  · intro u v
    rw [← hg]
    by_cases hS : 0 < (fftShape dx0 dx1 du0 du1 z wl os).1 ∧ 0 < (fftShape dx0 dx1 du0 du1 z wl os).2
    · have hsh : ∀ s : Option (Arr K), (fftGrid 1 fs W0 W1 (fftShape dx0 dx1 du0 du1 z wl os).1 (fftShape dx0 dx1 du0 du1 z wl os).2 s).s0
            = (fftShape dx0 dx1 du0 du1 z wl os).1 ∧
          (fftGrid 1 fs W0 W1 (fftShape dx0 dx1 du0 du1 z wl os).1 (fftShape dx0 dx1 du0 du1 z wl os).2 s).s1
            = (fftShape dx0 dx1 du0 du1 z wl os).2 := by
        intro s; cases s with
        | none => exact ⟨rfl, rfl⟩
        | some s => exact foldInsert_shape fs (zeroedCorner s _ _) 1
      simp only [fft2c, fft2Ortho, (hsh none).1, (hsh none).2, (hsh (some scr)).1, (hsh (some scr)).2]
      congr 1
      apply sumRange_congr; intro b _
      congr 1
      apply sumRange_congr; intro a _
      congr 1
      exact scratch_eq_pad fs W0 W1 _ _ scr hW hfit _ _ (emod_rangeB _ _ hS.1) (emod_rangeB _ _ hS.2)
    · -- an empty grid: both transforms are empty sums
      have hsh : ∀ s : Option (Arr K), (fftGrid 1 fs W0 W1 (fftShape dx0 dx1 du0 du1 z wl os).1 (fftShape dx0 dx1 du0 du1 z wl os).2 s).s0
            = (fftShape dx0 dx1 du0 du1 z wl os).1 ∧
          (fftGrid 1 fs W0 W1 (fftShape dx0 dx1 du0 du1 z wl os).1 (fftShape dx0 dx1 du0 du1 z wl os).2 s).s1
            = (fftShape dx0 dx1 du0 du1 z wl os).2 := by
        intro s; cases s with
        | none => exact ⟨rfl, rfl⟩
        | some s => exact foldInsert_shape fs (zeroedCorner s _ _) 1
      simp only [fft2c, fft2Ortho, (hsh none).1, (hsh none).2, (hsh (some scr)).1, (hsh (some scr)).2]
      congr 1
      apply sumRange_congr; intro b hb'
      congr 1
      apply sumRange_congr; intro a ha'
      exfalso; apply hS; constructor <;> omega

/-! ## The shape guard: the float comparison `shape > fft_shape/oversample` (generated) is the integer criterion -/
section ordered
variable {K R : Type} [Field R] [LinearOrder R] [IsStrictOrderedRing R] [RealLike R] [FftLike R] [Add K] [Mul K] [Zero K] [CxLike K R]

/-- **Shapes larger than the grid are refused**: `shape·oversample > fft_shape` on some axis gives `ValueError` (the code
compares `shape > fft_shape/oversample` in floats — generated `Gen.fftShapeTooBig`; `hgt`: `FftLike.gt` is `>`) -/
theorem refuses_larger_shape (hcast : ∀ n : Int, (RealLike.ofInt n : R) = (n : R)) (hgt : ∀ a b : R, FftLike.gt a b = true ↔ b < a)
    (one : K) (fs : List (Fld K)) (W0 W1 : Int) (dx0 dx1 du0 du1 wl z : R) (os : Int) (hos : 0 < os)
    (sh : Int × Int) (scratch : Option (Arr K))
    (hbig : sh.1 * os > (fftShape dx0 dx1 du0 du1 z wl os).1 ∨ sh.2 * os > (fftShape dx0 dx1 du0 du1 z wl os).2) :
    propagateFft one fs false W0 W1 dx0 dx1 du0 du1 wl z os (some sh) scratch = FftOut.valueError := by
  have : shapeTooBig (R := R) (some sh) (fftShape dx0 dx1 du0 du1 z wl os) os = true :=
    (shapeTooBig_iff hcast hgt sh _ os hos).mpr hbig
  simp only [propagateFft, Bool.false_eq_true, if_false, this, if_true]

/-- every accepted shape fits the grid: the output is `shape·oversample` and never larger than `fft_shape` -/
theorem accepted_shape_fits (hcast : ∀ n : Int, (RealLike.ofInt n : R) = (n : R)) (hgt : ∀ a b : R, FftLike.gt a b = true ↔ b < a)
    (one : K) (fs : List (Fld K)) (W0 W1 : Int) (dx0 dx1 du0 du1 wl z : R) (os : Int) (hos : 0 < os)
    (sh : Int × Int) (scratch : Option (Arr K)) (lam : R) (S0 S1 : Int) (so : Int × Int) (g : Fld K)
    (h : propagateFft one fs false W0 W1 dx0 dx1 du0 du1 wl z os (some sh) scratch = FftOut.ok lam S0 S1 so g) :
    so = (sh.1 * os, sh.2 * os) ∧ so.1 ≤ S0 ∧ so.2 ≤ S1 ∧ (S0, S1) = fftShape dx0 dx1 du0 du1 z wl os := by
  by_cases hb : shapeTooBig (R := R) (some sh) (fftShape dx0 dx1 du0 du1 z wl os) os = true
  · simp only [propagateFft, Bool.false_eq_true, if_false, hb, if_true] at h; cases h
  · by_cases ht : scratchTooSmall scratch (fftShape dx0 dx1 du0 du1 z wl os) = true
    · simp only [propagateFft, Bool.false_eq_true, if_false, hb, ht, if_true] at h; cases h
    · simp only [propagateFft, Bool.false_eq_true, if_false, hb, ht, FftOut.ok.injEq] at h
      rw [shapeTooBig_iff hcast hgt sh _ os hos] at hb
      simp only [not_or, not_lt, gt_iff_lt] at hb
      obtain ⟨_, h0, h1, hso, _⟩ := h
      subst h0 h1 hso
      exact ⟨rfl, hb.1, hb.2, rfl⟩
end ordered

/-- **Isotropic sampling: at the reported wavelength, alpha = 1/S on both axes.** If `dx0·du0 = dx1·du1` and the grid is
`S x S`, the DFT sampling ratio computed with the reported propagation wavelength is exactly `1/S` per axis. -/
theorem reported_wavelength_isotropic {R : Type} [Field R] [RealLike R] [FftLike R]
    (hcast : ∀ n : Int, (RealLike.ofInt n : R) = (n : R)) (hmin : ∀ a : R, FftLike.min a a = a)
    (dx0 dx1 du0 du1 z wl : R) (os S : Int) (hiso : dx0 * du0 = dx1 * du1)
    (hp : dx0 * du0 ≠ 0) (hz : z ≠ 0) (hos : (os : R) ≠ 0) (hS : (S : R) ≠ 0) :
    dftAlpha dx0 dx1 du0 du1 (propWavelength S S dx0 dx1 du0 du1 z wl os) z os = (1 / (S : R), 1 / (S : R)) := by
  have hp1 : dx1 * du1 ≠ 0 := hiso ▸ hp
  unfold dftAlpha propWavelength
  simp only [Gen.dftAlphaCall, Gen.dftAlpha, Gen.fftReportedWavelengths, Gen.fftWavelengths]
  rw [hcast, hcast]
  have e : ((S : R) / (os : R) * dx1 * du1) / z = ((S : R) / (os : R) * dx0 * du0) / z := by
    rw [mul_assoc, mul_assoc, hiso]
  rw [e, hmin]
  have h0 : dx0 ≠ 0 := left_ne_zero_of_mul hp
  have h1 : du0 ≠ 0 := right_ne_zero_of_mul hp
  refine Prod.ext ?_ ?_
  · simp only; field_simp
  · simp only; rw [← hiso]; field_simp

/-- **Per-axis sampling with consistent grids: alpha = (1/S0, 1/S1) at the reported wavelength.** Anisotropic `dx·du` is fine as
long as both axes lead to the same wavelength, `S0·dx0·du0 = S1·dx1·du1` (e.g. `1/alpha` integral on each axis: a 20×40
grid from pixelscale (5 µm, 2.5 µm)): the single reported wavelength then describes both axes. (The open known finding
is the complementary case, where the per-axis wavelengths differ.) -/
theorem reported_wavelength_consistent {R : Type} [Field R] [RealLike R] [FftLike R]
    (hcast : ∀ n : Int, (RealLike.ofInt n : R) = (n : R)) (hmin : ∀ a : R, FftLike.min a a = a)
    (dx0 dx1 du0 du1 z wl : R) (os S0 S1 : Int) (hcons : (S0 : R) * (dx0 * du0) = (S1 : R) * (dx1 * du1))
    (hp0 : dx0 * du0 ≠ 0) (hp1 : dx1 * du1 ≠ 0) (hz : z ≠ 0) (hos : (os : R) ≠ 0) (hS0 : (S0 : R) ≠ 0) (hS1 : (S1 : R) ≠ 0) :
    dftAlpha dx0 dx1 du0 du1 (propWavelength S0 S1 dx0 dx1 du0 du1 z wl os) z os = (1 / (S0 : R), 1 / (S1 : R)) := by
  unfold dftAlpha propWavelength
  simp only [Gen.dftAlphaCall, Gen.dftAlpha, Gen.fftReportedWavelengths, Gen.fftWavelengths]
  rw [hcast, hcast, hcast]
  have e : ((S1 : R) / (os : R) * dx1 * du1) / z = ((S0 : R) / (os : R) * dx0 * du0) / z := by
    have : (S1 : R) / (os : R) * dx1 * du1 = (S0 : R) / (os : R) * dx0 * du0 := by
      field_simp; linear_combination -hcons
    rw [this]
  rw [e, hmin]
  have h0 : dx0 ≠ 0 := left_ne_zero_of_mul hp0
  have h1 : du0 ≠ 0 := right_ne_zero_of_mul hp0
  refine Prod.ext ?_ ?_
  · simp only; field_simp
  · simp only
    have h2 : dx1 ≠ 0 := left_ne_zero_of_mul hp1
    have h3 : du1 ≠ 0 := right_ne_zero_of_mul hp1
    field_simp
    linear_combination -hcons

/-- **Scale invariance.** Multiplying every length (pixel scales, wavelength, focal length) by `k > 0` leaves the FFT grid
unchanged and multiplies the reported wavelength by `k`: grid, refusals and field do not depend on the length unit.
`hmin` only says that the class operation `FftLike.min` (`np.min`) is the order's `min` (`rfl` at ℝ and ℚ); the law
`min (k a) (k b) = k min a b` is proved from `0 < k`. Instantiated without hypotheses at ℝ in `fft_scale_invariant_real`. -/
theorem fft_scale_invariant {R : Type} [Field R] [LinearOrder R] [IsStrictOrderedRing R] [RealLike R] [FftLike R]
    (hmin : ∀ a b : R, FftLike.min a b = min a b)
    (k dx0 dx1 du0 du1 z wl : R) (os S0 S1 : Int) (hk : 0 < k) :
    fftShape (k * dx0) (k * dx1) (k * du0) (k * du1) (k * z) (k * wl) os = fftShape dx0 dx1 du0 du1 z wl os ∧
    propWavelength S0 S1 (k * dx0) (k * dx1) (k * du0) (k * du1) (k * z) (k * wl) os = k * propWavelength S0 S1 dx0 dx1 du0 du1 z wl os := by
  have hk0 : k ≠ 0 := ne_of_gt hk
  constructor
  · simp only [fftShape, Gen.fftShapeAlpha, Gen.fftAlphaCall, Gen.dftAlpha]
    have e0 : k * dx0 * (k * du0) / (k * z * (k * wl) * RealLike.ofInt os) = dx0 * du0 / (z * wl * RealLike.ofInt os) := by field_simp
    have e1 : k * dx1 * (k * du1) / (k * z * (k * wl) * RealLike.ofInt os) = dx1 * du1 / (z * wl * RealLike.ofInt os) := by field_simp
    rw [e0, e1]
  · simp only [propWavelength, Gen.fftReportedWavelengths, Gen.fftWavelengths, hmin]
    rw [mul_min_of_nonneg _ _ hk.le]
    congr 1 <;> field_simp

/-- **Metadata of the result** (generated hand-over `Gen.fftOutMeta`, `Gen.fftFieldPixelscale`): the output carries the reported
wavelength, the input focal length and the sampling `pixelscale/oversample` per axis, on the wavefront and on its Field. -/
theorem fft_metadata_carried {R : Type} [Field R] [RealLike R] [FftLike R] (lam dx0 dx1 du0 du1 z wl : R) (os : Int) :
    fftMeta lam dx0 dx1 du0 du1 z wl os = (lam, (du0 / RealLike.ofInt os, du1 / RealLike.ofInt os), z) ∧
    Gen.fftFieldPixelscale dx0 dx1 du0 du1 z wl (RealLike.ofInt os : R) = (du0 / RealLike.ofInt os, du1 / RealLike.ofInt os) :=
  ⟨rfl, rfl⟩

/-- **`scratch_shape` advertises the grid of the propagation at the largest wavelength** (generated call wiring
`Gen.scratchShapeAlpha`): with `maxWl = np.max(wavelength)`, `scratch_shape(wavelength, dx, du, z, oversample)` is exactly
`fft_shape` of `propagate_fft` for a wavefront of that wavelength — so by `scratch_shape_sufficient` a buffer of exactly
the advertised shape is accepted. -/
theorem scratch_shape_is_fft_shape {R : Type} [Field R] [RealLike R] [FftLike R] (maxWl dx0 dx1 du0 du1 z : R) (os : Int) :
    scratchShape maxWl dx0 dx1 du0 du1 z os = fftShape dx0 dx1 du0 du1 z maxWl os := rfl

/-- **A buffer advertised for a list of wavelengths suffices for each of them**: the grid grows with the wavelength
(`hmono`: the rounding is monotone — proved for the real round-half-even in `roundEven_real_mono`; `scratch_shape_monotone_real` has no
such hypothesis), so the grid at `np.max(wavelength)` dominates the grid at
every smaller wavelength, per axis (positive pixel scales, focal length, oversampling). -/
theorem scratch_shape_monotone {R : Type} [Field R] [LinearOrder R] [IsStrictOrderedRing R] [RealLike R] [FftLike R]
    (hcast : ∀ n : Int, (RealLike.ofInt n : R) = (n : R))
    (hmono : ∀ a b : R, a ≤ b → FftLike.roundEven a ≤ FftLike.roundEven b)
    (wl wl' dx0 dx1 du0 du1 z : R) (os : Int) (hwl : wl ≤ wl') (hpos : 0 < dx0 ∧ 0 < dx1 ∧ 0 < du0 ∧ 0 < du1 ∧ 0 < z ∧ 0 < wl)
    (hos : 0 < os) :
    (fftShape dx0 dx1 du0 du1 z wl os).1 ≤ (scratchShape wl' dx0 dx1 du0 du1 z os).1 ∧
    (fftShape dx0 dx1 du0 du1 z wl os).2 ≤ (scratchShape wl' dx0 dx1 du0 du1 z os).2 := by
  obtain ⟨h0, h1, h2, h3, hz, hw⟩ := hpos
  have hosR : (0 : R) < (os : R) := by exact_mod_cast hos
  have hw' : 0 < wl' := lt_of_lt_of_le hw hwl
  simp only [scratchShape, fftShape, Gen.scratchShapeAlpha, Gen.fftShapeAlpha, Gen.fftAlphaCall, Gen.dftAlpha, hcast]
  constructor <;> apply hmono
  · rw [Int.cast_one, one_div_div, one_div_div]
    apply div_le_div_of_nonneg_right _ (le_of_lt (mul_pos h0 h2))
    exact mul_le_mul_of_nonneg_right (mul_le_mul_of_nonneg_left hwl hz.le) hosR.le
  · rw [Int.cast_one, one_div_div, one_div_div]
    apply div_le_div_of_nonneg_right _ (le_of_lt (mul_pos h1 h3))
    exact mul_le_mul_of_nonneg_right (mul_le_mul_of_nonneg_left hwl hz.le) hosR.le

/-- **The whole outcome is scale covariant.** Multiplying every length by `k > 0` changes nothing but the reported wavelength,
which is multiplied by `k`: same refusal or acceptance, same grid, same output shape, same field. -/
theorem propagateFft_scale_covariant {K R : Type} [Field R] [LinearOrder R] [IsStrictOrderedRing R] [RealLike R] [FftLike R] [Add K] [Mul K] [Zero K] [CxLike K R]
    (hmin : ∀ a b : R, FftLike.min a b = min a b)
    (one : K) (fs : List (Fld K)) (ht : Bool) (W0 W1 : Int) (k dx0 dx1 du0 du1 wl z : R) (os : Int)
    (shape : Option (Int × Int)) (scratch : Option (Arr K)) (hk : 0 < k) :
    (∀ lam S0 S1 so g, propagateFft one fs ht W0 W1 dx0 dx1 du0 du1 wl z os shape scratch = FftOut.ok lam S0 S1 so g →
      propagateFft one fs ht W0 W1 (k * dx0) (k * dx1) (k * du0) (k * du1) (k * wl) (k * z) os shape scratch = FftOut.ok (k * lam) S0 S1 so g) ∧
    (propagateFft one fs ht W0 W1 dx0 dx1 du0 du1 wl z os shape scratch = FftOut.valueError →
      propagateFft one fs ht W0 W1 (k * dx0) (k * dx1) (k * du0) (k * du1) (k * wl) (k * z) os shape scratch = FftOut.valueError) ∧
    (propagateFft one fs ht W0 W1 dx0 dx1 du0 du1 wl z os shape scratch = FftOut.notImplemented →
      propagateFft one fs ht W0 W1 (k * dx0) (k * dx1) (k * du0) (k * du1) (k * wl) (k * z) os shape scratch = FftOut.notImplemented) := by
  have hS := (fft_scale_invariant hmin k dx0 dx1 du0 du1 z wl os 0 0 hk).1
  have hW := fun S0 S1 => (fft_scale_invariant hmin k dx0 dx1 du0 du1 z wl os S0 S1 hk).2
  unfold propagateFft
  cases ht with
  | true => simp
  | false =>
    simp only [Bool.false_eq_true, if_false, hS, hW]
    cases hb : shapeTooBig (R := R) shape (fftShape dx0 dx1 du0 du1 z wl os) os with
    | true => simp
    | false =>
      cases hs : scratchTooSmall scratch (fftShape dx0 dx1 du0 du1 z wl os) with
      | true => simp
      | false =>
        simp only [Bool.false_eq_true, if_false]
        refine ⟨?_, (fun h => by cases h), (fun h => by cases h)⟩
        intro lam S0 S1 so g h
        simp only [FftOut.ok.injEq] at h ⊢
        obtain ⟨h1, h2, h3, h4, h5⟩ := h
        exact ⟨by rw [h1], h2, h3, h4, h5⟩

/-! ## The FFT path is the unitary DFT with alpha = 1/S, centred at floor(S/2), for even and odd grids -/
section fftdft
set_option linter.unusedSectionVars false
variable {K R : Type} [Field R] [CharZero R] [RealLike R] [CommRing K] [CxLike K R]

/-- **`_fft2` is `dft2` with `alpha = (1/S0, 1/S1)`.** `fftshift(fft2(ifftshift(x), norm='ortho'))` (NumPy contracts:
unitary DFT with origin at index 0; rotations by `±floor(n/2)`) equals, at every output index and for grids of either
parity, the unitary `dft2` of `x` with `alpha = 1/S` per axis, `S0 x S1` output samples, zero shift and offset — both
origins at `floor(S/2)`. Hypotheses: `ofInt` is the integer cast, `exp(-2 pi i t/n)` is `n`-periodic in the integer `t`,
and `1/sqrt(S0 S1) = sqrt|1/S0 · 1/S1|` for the model's `sqrt`/`abs` (all true of the real/complex functions). -/
theorem fft_path_is_unitary_dft (hcast : ∀ n : Int, (RealLike.ofInt n : R) = (n : R)) (hper : RootPeriodic K R)
    (x : Arr K) (hS0 : 0 < x.s0) (hS1 : 0 < x.s1)
    (hnorm : (RealLike.ofInt 1 : R) / RealLike.sqrt (RealLike.ofInt (x.s0 * x.s1)) =
      RealLike.sqrt (RealLike.abs (1 / (x.s0 : R) * (1 / (x.s1 : R))))) (u v : Int) :
    (fft2c (R := R) x).get u v = (dft2 x (1 / (x.s0 : R)) (1 / (x.s1 : R)) x.s0 x.s1 0 0 0 0 true).get u v := by
  simp only [fft2c, fft2Ortho, dft2, if_true, (fft2_composition _ _).1, (fft2_composition _ _).2.1, (fft2_composition 0 0).2.2, fft2Scale]
  rw [hnorm, fft_sum_eq_dft_sum hcast hper x hS0 hS1 u v]

variable [FftLike R]

/-- **`_fft2 ∘ pad` = unitary `dft2` of the padded grid at the reported wavelength** (isotropic `dx·du`). Whenever
`propagate_fft` answers, every sample of its grid-sized output field equals the unitary `dft2` of the same padded input
grid evaluated with the sampling ratio `alpha = dx·du/(lambda' z os)` computed from the wavelength `lambda'` it reports
(grid-sized output, zero shift). The step from here to the `propagate_dft` model is `fft_eq_propagate_dft` below. -/
theorem fft_eq_dft_at_reported_wavelength (hcast : ∀ n : Int, (RealLike.ofInt n : R) = (n : R))
    (hper : RootPeriodic K R) (hmin : ∀ a : R, FftLike.min a a = a)
    (one : K) (fs : List (Fld K)) (W0 W1 : Int) (dx0 dx1 du0 du1 wl z : R) (os : Int)
    (shape : Option (Int × Int)) (scratch : Option (Arr K)) (lam : R) (S0 S1 : Int) (so : Int × Int) (g : Fld K)
    (h : propagateFft one fs false W0 W1 dx0 dx1 du0 du1 wl z os shape scratch = FftOut.ok lam S0 S1 so g)
    (hcons : dx0 * du0 = dx1 * du1 ∨ (S0 : R) * (dx0 * du0) = (S1 : R) * (dx1 * du1))
    (hp : dx0 * du0 ≠ 0) (hp1 : dx1 * du1 ≠ 0) (hz : z ≠ 0) (hos : (os : R) ≠ 0) (hS : 0 < S0) (hS1 : 0 < S1)
    (hnorm : (RealLike.ofInt 1 : R) / RealLike.sqrt (RealLike.ofInt (S0 * S1)) =
      RealLike.sqrt (RealLike.abs (1 / (S0 : R) * (1 / (S1 : R))))) (u v : Int) :
    g.arr.get u v =
      (dft2 (fftGrid one fs W0 W1 S0 S1 scratch) (dftAlpha dx0 dx1 du0 du1 lam z os).1 (dftAlpha dx0 dx1 du0 du1 lam z os).2
        S0 S1 0 0 0 0 true).get u v := by
  -- unpack the accepted call
  by_cases hb : shapeTooBig (R := R) shape (fftShape dx0 dx1 du0 du1 z wl os) os = true
  · simp only [propagateFft, Bool.false_eq_true, if_false, hb, if_true] at h; cases h
  by_cases ht : scratchTooSmall scratch (fftShape dx0 dx1 du0 du1 z wl os) = true
  · simp only [propagateFft, Bool.false_eq_true, if_false, hb, ht, if_true] at h; cases h
  simp only [propagateFft, Bool.false_eq_true, if_false, hb, ht, FftOut.ok.injEq] at h
  obtain ⟨hl, h0, h1, _, hg⟩ := h
  -- isotropic sampling gives a square grid; in either case both axes lead to the same wavelength
  have hc : (S0 : R) * (dx0 * du0) = (S1 : R) * (dx1 * du1) := by
    rcases hcons with hiso | hc
    · have hsq : S0 = S1 := by
        rw [← h0, ← h1]; simp only [fftShape, Gen.fftShapeAlpha, Gen.fftAlphaCall, Gen.dftAlpha, hiso]
      rw [hsq, hiso]
    · exact hc
  have hSR : (S0 : R) ≠ 0 := Int.cast_ne_zero.mpr (by omega)
  have hSR1 : (S1 : R) ≠ 0 := Int.cast_ne_zero.mpr (by omega)
  rw [h0, h1] at hl hg
  have hα := reported_wavelength_consistent hcast hmin dx0 dx1 du0 du1 z wl os S0 S1 hc hp hp1 hz hos hSR hSR1
  rw [hl] at hα
  have hsh : (fftGrid one fs W0 W1 S0 S1 scratch).s0 = S0 ∧ (fftGrid one fs W0 W1 S0 S1 scratch).s1 = S1 := by
    cases scratch with
    | none => exact ⟨rfl, rfl⟩
    | some scr => exact foldInsert_shape fs (zeroedCorner scr S0 S1) one
  have key := fft_path_is_unitary_dft hcast hper (fftGrid one fs W0 W1 S0 S1 scratch)
    (by rw [hsh.1]; exact hS) (by rw [hsh.2]; exact hS1) (by rw [hsh.1, hsh.2]; exact hnorm) u v
  rw [hsh.1, hsh.2] at key
  rw [← hg, hα]
  exact key

end fftdft

/-! ### The same at `K = ℂ`, `R = ℝ`: the hypotheses hold for the real square root and the complex exponential -/
section complex
open Complex

/-- **`_fft2` = unitary `dft2` with `alpha = 1/S` over ℂ**, no hypotheses beyond a non-empty grid: for every complex
array, every grid parity and every output index. -/
theorem fft_path_is_unitary_dft_complex (x : Arr ℂ) (hS0 : 0 < x.s0) (hS1 : 0 < x.s1) (u v : Int) :
    (fft2c (R := ℝ) x).get u v = (dft2 x (1 / (x.s0 : ℝ)) (1 / (x.s1 : ℝ)) x.s0 x.s1 0 0 0 0 true).get u v :=
  fft_path_is_unitary_dft (fun _ => rfl) rootPeriodic_complex x hS0 hS1
    (norm_complex x.s0 x.s1 hS0 hS1) u v

/-- **FFT propagation returns the same complex field as DFT propagation at the wavelength it reports** (isotropic `dx·du`, or
per-axis sampling whose two axes lead to the same wavelength `S0·dx0·du0 = S1·dx1·du1`, e.g. non-square grids 20×40),
at `K = ℂ`, `R = ℝ`, for every output shape it accepts and with or without scratch: whenever `propagate_fft` answers
(grid `S0 x S1`, output shape `so`, reported wavelength `lam`), every sample `[i][j]` of its `Wavefront.field` equals the
sample of `Wavefront.field` of `propagate_dft` applied to the same fields with `alpha = dx·du/(lam·z·os)` and the same
output samples (`propagateDft`, the model proved against the Fraunhofer sum in C02). Wavefront no larger than the grid,
fields on its canvas (the regime `propagate_fft` supports). -/
theorem fft_eq_propagate_dft (fs : List (Fld ℂ)) (W0 W1 : Int) (dx0 dx1 du0 du1 wl z : ℝ) (os : Int)
    (shape : Option (Int × Int)) (scratch : Option (Arr ℂ)) (lam : ℝ) (S0 S1 : Int) (so : Int × Int) (g : Fld ℂ)
    (h : propagateFft 1 fs false W0 W1 dx0 dx1 du0 du1 wl z os shape scratch = FftOut.ok lam S0 S1 so g)
    (hcons : dx0 * du0 = dx1 * du1 ∨ (S0 : ℝ) * (dx0 * du0) = (S1 : ℝ) * (dx1 * du1))
    (hp : dx0 * du0 ≠ 0) (hp1 : dx1 * du1 ≠ 0) (hz : z ≠ 0) (hos : 0 < os) (hS : 0 < S0 ∧ 0 < S1)
    (hW : 0 ≤ W0 ∧ W0 ≤ S0 ∧ 0 ≤ W1 ∧ W1 ≤ S1) (hfit : ∀ f ∈ fs, f.within W0 W1)
    (hpos : ∀ f ∈ fs, 0 < f.arr.s0 ∧ 0 < f.arr.s1) (hso : 0 < so.1 ∧ 0 < so.2)
    (i j : Int) (hi : 0 ≤ i ∧ i < so.1) (hj : 0 ≤ j ∧ j < so.2) :
    (wavefrontField 1 [g] so.1 so.2).get i j =
      (wavefrontField 1 (propagateDft (fs.map fun f => (⟨f, 0, 0, 0, 0⟩ : TField ℂ ℝ))
          (dftAlpha dx0 dx1 du0 du1 lam z os).1 (dftAlpha dx0 dx1 du0 du1 lam z os).2 so.1 so.2 so.1 so.2 1 none)
        so.1 so.2).get i j := by
  have hosR : ((os : ℤ) : ℝ) ≠ 0 := Int.cast_ne_zero.mpr (by omega)
  -- the FFT output is dft2 of the padded grid at the reported wavelength
  have hfft := fft_eq_dft_at_reported_wavelength (K := ℂ) (R := ℝ) (fun _ => rfl) rootPeriodic_complex (fun a => min_self a)
    1 fs W0 W1 dx0 dx1 du0 du1 wl z os shape scratch lam S0 S1 so g h hcons hp hp1 hz hosR hS.1 hS.2 (norm_complex S0 S1 hS.1 hS.2)
  -- unpack the accepted call: offsets 0, output shape fits the grid
  have hg : g.o0 = 0 ∧ g.o1 = 0 ∧ g.arr.s0 = S0 ∧ g.arr.s1 = S1 ∧ so.1 ≤ S0 ∧ so.2 ≤ S1 := by
    by_cases hb : shapeTooBig (R := ℝ) shape (fftShape dx0 dx1 du0 du1 z wl os) os = true
    · simp only [propagateFft, Bool.false_eq_true, if_false, hb, if_true] at h; cases h
    by_cases ht : scratchTooSmall scratch (fftShape dx0 dx1 du0 du1 z wl os) = true
    · simp only [propagateFft, Bool.false_eq_true, if_false, hb, ht, if_true] at h; cases h
    simp only [propagateFft, Bool.false_eq_true, if_false, hb, ht, FftOut.ok.injEq] at h
    obtain ⟨_, h0, h1, hso', hg'⟩ := h
    have hsh := fftGrid_shape fs W0 W1 (fftShape dx0 dx1 du0 du1 z wl os).1 (fftShape dx0 dx1 du0 du1 z wl os).2 scratch
    refine ⟨by rw [← hg'], by rw [← hg'], ?_, ?_, ?_, ?_⟩
    · rw [← hg', ← h0]; simp only [fft2c]; exact hsh.1
    · rw [← hg', ← h1]; simp only [fft2c]; exact hsh.2
    · rw [← hso', ← h0]; cases shape with
      | none => simp [fftShapeOut, Gen.fftShapeOutNone]
      | some sh =>
        rw [shapeTooBig_iff (fun _ => rfl) gt_real sh _ os hos] at hb
        simp only [not_or, not_lt, gt_iff_lt] at hb
        rw [fftShapeOut_some]; exact hb.1
    · rw [← hso', ← h1]; cases shape with
      | none => simp [fftShapeOut, Gen.fftShapeOutNone]
      | some sh =>
        rw [shapeTooBig_iff (fun _ => rfl) gt_real sh _ os hos] at hb
        simp only [not_or, not_lt, gt_iff_lt] at hb
        rw [fftShapeOut_some]; exact hb.2
  obtain ⟨ho0, ho1, hs0, hs1, hle0, hle1⟩ := hg
  -- left-hand side: the crop of the grid-sized output field
  rw [wavefrontField_get [g] so.1 so.2 i j hi hj]
  simp only [List.map_cons, List.map_nil, List.sum_cons, List.sum_nil, add_zero]
  have hin : g.extent.inb (i - so.1 / 2) (j - so.2 / 2) = true := by
    rw [Extent.inb_iff, Fld.extent, arrayExtent_eq, hs0, hs1, ho0, ho1]; simp only; omega
  have hemb : g.emb (i - so.1 / 2) (j - so.2 / 2) = g.arr.get (i - so.1 / 2 + S0 / 2) (j - so.2 / 2 + S1 / 2) := by
    unfold Fld.emb embAt; simp only [hin, if_true]
    rw [Fld.extent, arrayExtent_eq, hs0, hs1, ho0, ho1]; simp only
    congr 1 <;> omega
  rw [hemb, hfft, dft2_fftGrid fs W0 W1 S0 S1 scratch hS hW hfit hpos]
  -- right-hand side: propagate_dft model, every field evaluates every requested sample
  have hR := C02.propagateDft_sample (K := ℂ) (R := ℝ) (fun _ => rfl) (fs.map fun f => (⟨f, 0, 0, 0, 0⟩ : TField ℂ ℝ))
    (dftAlpha dx0 dx1 du0 du1 lam z os).1 (dftAlpha dx0 dx1 du0 du1 lam z os).2 so.1 so.2 so.1 so.2 1 none
    (by simp only [mul_one]; rw [outExtent_nomask]; simp only; omega) (by simp only [mul_one]; exact hso) i j
    (by simp only [mul_one]; exact hi) (by simp only [mul_one]; exact hj)
  simp only [mul_one] at hR
  rw [hR, List.map_map]
  congr 1
  apply List.map_congr_left; intro f _
  have hw : ((outExtent so.1 so.2 none).inb (i - so.1 / 2) (j - so.2 / 2) &&
      (propExtent so.1 so.2 0 0).inb (i - so.1 / 2) (j - so.2 / 2)) = true := by
    rw [Bool.and_eq_true, (C02.whole_array so.1 so.2 _ _), (C02.prop_window so.1 so.2 0 0 _ _)]; omega
  simp only [Function.comp, hw, if_true]
  unfold fraunhoferAt
  apply dft2_get_congr <;> (simp only [cc, RealLike.ofInt]; push_cast; ring)

/-- **Scale covariance at ℝ, no hypothesis but `0 < k`** (instances of `fft_scale_invariant`, `propagateFft_scale_covariant`). -/
theorem fft_scale_invariant_real (k dx0 dx1 du0 du1 z wl : ℝ) (os S0 S1 : Int) (hk : 0 < k) :
    fftShape (k * dx0) (k * dx1) (k * du0) (k * du1) (k * z) (k * wl) os = fftShape dx0 dx1 du0 du1 z wl os ∧
    propWavelength S0 S1 (k * dx0) (k * dx1) (k * du0) (k * du1) (k * z) (k * wl) os = k * propWavelength S0 S1 dx0 dx1 du0 du1 z wl os :=
  fft_scale_invariant min_real k dx0 dx1 du0 du1 z wl os S0 S1 hk

theorem propagateFft_scale_covariant_real (fs : List (Fld ℂ)) (ht : Bool) (W0 W1 : Int) (k dx0 dx1 du0 du1 wl z : ℝ) (os : Int)
    (shape : Option (Int × Int)) (scratch : Option (Arr ℂ)) (hk : 0 < k) :
    (∀ lam S0 S1 so g, propagateFft 1 fs ht W0 W1 dx0 dx1 du0 du1 wl z os shape scratch = FftOut.ok lam S0 S1 so g →
      propagateFft 1 fs ht W0 W1 (k * dx0) (k * dx1) (k * du0) (k * du1) (k * wl) (k * z) os shape scratch = FftOut.ok (k * lam) S0 S1 so g) ∧
    (propagateFft 1 fs ht W0 W1 dx0 dx1 du0 du1 wl z os shape scratch = FftOut.valueError →
      propagateFft 1 fs ht W0 W1 (k * dx0) (k * dx1) (k * du0) (k * du1) (k * wl) (k * z) os shape scratch = FftOut.valueError) ∧
    (propagateFft 1 fs ht W0 W1 dx0 dx1 du0 du1 wl z os shape scratch = FftOut.notImplemented →
      propagateFft 1 fs ht W0 W1 (k * dx0) (k * dx1) (k * du0) (k * du1) (k * wl) (k * z) os shape scratch = FftOut.notImplemented) :=
  propagateFft_scale_covariant min_real 1 fs ht W0 W1 k dx0 dx1 du0 du1 wl z os shape scratch hk

/-- **A buffer advertised for a list of wavelengths suffices for each of them, at ℝ, unconditionally**: `hmono` of
`scratch_shape_monotone` is discharged by `roundEven_real_mono`. -/
theorem scratch_shape_monotone_real (wl wl' dx0 dx1 du0 du1 z : ℝ) (os : Int) (hwl : wl ≤ wl')
    (hpos : 0 < dx0 ∧ 0 < dx1 ∧ 0 < du0 ∧ 0 < du1 ∧ 0 < z ∧ 0 < wl) (hos : 0 < os) :
    (fftShape dx0 dx1 du0 du1 z wl os).1 ≤ (scratchShape wl' dx0 dx1 du0 du1 z os).1 ∧
    (fftShape dx0 dx1 du0 du1 z wl os).2 ≤ (scratchShape wl' dx0 dx1 du0 du1 z os).2 :=
  scratch_shape_monotone (fun _ => rfl) roundEven_real_mono wl wl' dx0 dx1 du0 du1 z os hwl hpos hos

/-- **The advertised scratch shape does not depend on the length unit**: `scratch_shape` with every length (wavelengths, pixel scales,
focal length) multiplied by `k > 0` is the same shape — a buffer sized in one unit system fits in any other. -/
theorem scratch_shape_scale_invariant_real (k maxWl dx0 dx1 du0 du1 z : ℝ) (os : Int) (hk : 0 < k) :
    scratchShape (k * maxWl) (k * dx0) (k * dx1) (k * du0) (k * du1) (k * z) os = scratchShape maxWl dx0 dx1 du0 du1 z os :=
  (fft_scale_invariant_real k dx0 dx1 du0 du1 z maxWl os 0 0 hk).1

/-- **Refusal of too large shapes at ℝ** (instances of `refuses_larger_shape` / `accepted_shape_fits` with the real `>`) -/
theorem shape_guard_real (sh S : Int × Int) (os : Int) (hos : 0 < os) :
    shapeTooBig (R := ℝ) (some sh) S os = true ↔ sh.1 * os > S.1 ∨ sh.2 * os > S.2 :=
  shapeTooBig_iff (fun _ => rfl) gt_real sh S os hos

/-- **FFT propagation computes the Fraunhofer sum at the reported wavelength.** Composition of `fft_eq_propagate_dft` with C02/C01: every
sample `[i][j]` of `Wavefront.field` of an accepted `propagate_fft` call (any accepted shape, with or without scratch) is the sum over the
input fields of `√|α₀α₁| · Σ_x Σ_y f(x, y) · exp(-2πi(α₀·X·g_r + α₁·Y·g_c))` with `α = dx·du/(λ_reported · z · oversample)` per axis,
`X, Y` the input coordinates relative to `⌊n/2⌋` plus the field offset and `g = (i − ⌊so₀/2⌋, j − ⌊so₁/2⌋)` — the defining double sum,
no FFT, padding or scratch left in the statement. -/
theorem fft_eq_fraunhofer_sum (fs : List (Fld ℂ)) (W0 W1 : Int) (dx0 dx1 du0 du1 wl z : ℝ) (os : Int)
    (shape : Option (Int × Int)) (scratch : Option (Arr ℂ)) (lam : ℝ) (S0 S1 : Int) (so : Int × Int) (g : Fld ℂ)
    (h : propagateFft 1 fs false W0 W1 dx0 dx1 du0 du1 wl z os shape scratch = FftOut.ok lam S0 S1 so g)
    (hcons : dx0 * du0 = dx1 * du1 ∨ (S0 : ℝ) * (dx0 * du0) = (S1 : ℝ) * (dx1 * du1))
    (hp : dx0 * du0 ≠ 0) (hp1 : dx1 * du1 ≠ 0) (hz : z ≠ 0) (hos : 0 < os) (hS : 0 < S0 ∧ 0 < S1)
    (hW : 0 ≤ W0 ∧ W0 ≤ S0 ∧ 0 ≤ W1 ∧ W1 ≤ S1) (hfit : ∀ f ∈ fs, f.within W0 W1)
    (hpos : ∀ f ∈ fs, 0 < f.arr.s0 ∧ 0 < f.arr.s1) (hso : 0 < so.1 ∧ 0 < so.2)
    (i j : Int) (hi : 0 ≤ i ∧ i < so.1) (hj : 0 ≤ j ∧ j < so.2) :
    (wavefrontField 1 [g] so.1 so.2).get i j =
      (fs.map fun f =>
        ((Real.sqrt |(dftAlpha dx0 dx1 du0 du1 lam z os).1 * (dftAlpha dx0 dx1 du0 du1 lam z os).2| : ℝ) : ℂ) *
        ∑ x ∈ Finset.range f.arr.s0.toNat, ∑ y ∈ Finset.range f.arr.s1.toNat, f.arr.get x y *
          Complex.exp (-(2 * Real.pi * Complex.I) *
            (((dftAlpha dx0 dx1 du0 du1 lam z os).1 * (((x : ℤ) - f.arr.s0 / 2 + f.o0 : ℤ) : ℝ) * (((i - so.1 / 2 : ℤ) : ℝ))
              + (dftAlpha dx0 dx1 du0 du1 lam z os).2 * (((y : ℤ) - f.arr.s1 / 2 + f.o1 : ℤ) : ℝ) * (((j - so.2 / 2 : ℤ) : ℝ)) : ℝ) : ℂ))).sum := by
  rw [fft_eq_propagate_dft fs W0 W1 dx0 dx1 du0 du1 wl z os shape scratch lam S0 S1 so g h hcons hp hp1 hz hos hS hW hfit hpos hso i j hi hj]
  have hR := C02.propagateDft_sample (K := ℂ) (R := ℝ) (fun _ => rfl) (fs.map fun f => (⟨f, 0, 0, 0, 0⟩ : TField ℂ ℝ))
    (dftAlpha dx0 dx1 du0 du1 lam z os).1 (dftAlpha dx0 dx1 du0 du1 lam z os).2 so.1 so.2 so.1 so.2 1 none
    (by simp only [mul_one]; rw [outExtent_nomask]; simp only; omega) (by simp only [mul_one]; exact hso) i j
    (by simp only [mul_one]; exact hi) (by simp only [mul_one]; exact hj)
  simp only [mul_one] at hR
  rw [hR, List.map_map]
  congr 1
  apply List.map_congr_left; intro f _
  have hw : ((outExtent so.1 so.2 none).inb (i - so.1 / 2) (j - so.2 / 2) &&
      (propExtent so.1 so.2 0 0).inb (i - so.1 / 2) (j - so.2 / 2)) = true := by
    rw [Bool.and_eq_true, (C02.whole_array so.1 so.2 _ _), (C02.prop_window so.1 so.2 0 0 _ _)]; omega
  simp only [Function.comp, hw, if_true]
  rw [C02.fraunhoferAt_eq_sum]
  simp only [RealLike.ofInt, sub_zero]

/-- **Too large shapes are refused, accepted ones fit — at ℂ/ℝ with the real `>`, no hypothesis about the comparison left**
(instances of `refuses_larger_shape`, `accepted_shape_fits`). -/
theorem refuses_larger_shape_real (fs : List (Fld ℂ)) (W0 W1 : Int) (dx0 dx1 du0 du1 wl z : ℝ) (os : Int) (hos : 0 < os)
    (sh : Int × Int) (scratch : Option (Arr ℂ))
    (hbig : sh.1 * os > (fftShape dx0 dx1 du0 du1 z wl os).1 ∨ sh.2 * os > (fftShape dx0 dx1 du0 du1 z wl os).2) :
    propagateFft 1 fs false W0 W1 dx0 dx1 du0 du1 wl z os (some sh) scratch = FftOut.valueError :=
  refuses_larger_shape (fun _ => rfl) gt_real 1 fs W0 W1 dx0 dx1 du0 du1 wl z os hos sh scratch hbig

theorem accepted_shape_fits_real (fs : List (Fld ℂ)) (W0 W1 : Int) (dx0 dx1 du0 du1 wl z : ℝ) (os : Int) (hos : 0 < os)
    (sh : Int × Int) (scratch : Option (Arr ℂ)) (lam : ℝ) (S0 S1 : Int) (so : Int × Int) (g : Fld ℂ)
    (h : propagateFft 1 fs false W0 W1 dx0 dx1 du0 du1 wl z os (some sh) scratch = FftOut.ok lam S0 S1 so g) :
    so = (sh.1 * os, sh.2 * os) ∧ so.1 ≤ S0 ∧ so.2 ≤ S1 ∧ (S0, S1) = fftShape dx0 dx1 du0 du1 z wl os :=
  accepted_shape_fits (fun _ => rfl) gt_real 1 fs W0 W1 dx0 dx1 du0 du1 wl z os hos sh scratch lam S0 S1 so g h

/-- non-vacuity of `fft_eq_propagate_dft`: a 2x2 field on a 4x4 grid (`dx = du = 1/2`, `z = lambda = 1`, `os = 1`) is accepted -/
example : ∃ lam g, propagateFft (K := ℂ) (R := ℝ) 1 [⟨⟨2, 2, fun i j => (i + 2 * j + 1 : ℤ)⟩, 0, 0⟩] false 2 2 (1/2) (1/2) (1/2) (1/2) 1 1 1
    none none = FftOut.ok lam 4 4 (4, 4) g := by
  simp only [propagateFft, Bool.false_eq_true, if_false, shapeTooBig, scratchTooSmall, fftShapeOut, Gen.fftShapeOutNone, fftShape_half_example,
    FftOut.ok.injEq, true_and]
  exact ⟨_, _, rfl, rfl⟩

/-- non-vacuity beyond the trivial call: explicit `shape=(1, 2)`, a dirty 5x9 scratch buffer and per-axis sampling whose axes agree on the
wavelength (`du = (1/2, 1/4)`: grid 4 x 8, `S0·dx0·du0 = S1·dx1·du1 = 1` while `dx0·du0 ≠ dx1·du1`) — the call is accepted, so `h`, the
second branch of `hcons`, `hW`, `hfit`, `hpos`, `hso` of `fft_eq_propagate_dft` hold together -/
example : (∃ lam g, propagateFft (K := ℂ) (R := ℝ) 1 [⟨⟨2, 2, fun i j => (i + 2 * j + 1 : ℤ)⟩, 0, 0⟩] false 2 2 (1/2) (1/2) (1/2) (1/4) 1 1 1
      (some (1, 2)) (some ⟨5, 9, fun _ _ => 3⟩) = FftOut.ok lam 4 8 (1, 2) g) ∧
    ((4 : ℤ) : ℝ) * ((1/2 : ℝ) * (1/2)) = ((8 : ℤ) : ℝ) * ((1/2 : ℝ) * (1/4)) ∧ (1/2 : ℝ) * (1/2) ≠ (1/2) * (1/4) ∧
    (⟨⟨2, 2, fun i j => ((i + 2 * j + 1 : ℤ) : ℂ)⟩, 0, 0⟩ : Fld ℂ).within 2 2 := by
  have hb : shapeTooBig (R := ℝ) (some (1, 2)) (4, 8) 1 = false := by
    rw [← Bool.not_eq_true, shape_guard_real _ _ _ (by decide)]; decide
  have hs : scratchTooSmall (some (⟨5, 9, fun _ _ => 3⟩ : Arr ℂ)) (4, 8) = false := by
    rw [scratchTooSmall_false_iff]; decide
  refine ⟨?_, by norm_num, by norm_num, ?_⟩
  · simp only [propagateFft, Bool.false_eq_true, if_false, fftShape_aniso_example, hb, hs, fftShapeOut_some, FftOut.ok.injEq, true_and]
    exact ⟨_, _, rfl, by decide, rfl⟩
  · simp only [Fld.within, Fld.extent, arrayExtent_eq]; decide
/-- the headline theorem applied to that instance: every hypothesis of `fft_eq_propagate_dft` (accepted call with explicit shape and a
dirty scratch buffer, second branch of `hcons`, positivity, `hW`, `hfit`, `hpos`, `hso`) is discharged, for both output samples -/
example (lam : ℝ) (g : Fld ℂ)
    (h : propagateFft (K := ℂ) (R := ℝ) 1 [⟨⟨2, 2, fun i j => (i + 2 * j + 1 : ℤ)⟩, 0, 0⟩] false 2 2 (1/2) (1/2) (1/2) (1/4) 1 1 1
      (some (1, 2)) (some ⟨5, 9, fun _ _ => 3⟩) = FftOut.ok lam 4 8 (1, 2) g)
    (i j : Int) (hi : 0 ≤ i ∧ i < 1) (hj : 0 ≤ j ∧ j < 2) :=
  fft_eq_propagate_dft [⟨⟨2, 2, fun i j => (i + 2 * j + 1 : ℤ)⟩, 0, 0⟩] 2 2 (1/2) (1/2) (1/2) (1/4) 1 1 1 (some (1, 2))
    (some ⟨5, 9, fun _ _ => 3⟩) lam 4 8 (1, 2) g h (Or.inr (by norm_num)) (by norm_num) (by norm_num) (by norm_num) (by decide)
    (by decide) (by decide)
    (by intro f hf; simp only [List.mem_singleton] at hf; subst hf; simp only [Fld.within, Fld.extent, arrayExtent_eq]; decide)
    (by intro f hf; simp only [List.mem_singleton] at hf; subst hf; decide)
    (by decide) i j hi hj
end complex

/-! ## Known finding (open): anisotropic sampling

Full-strength statement (does NOT hold): "for every sampling, at the reported wavelength alpha = 1/S on both axes".
`reported_wavelength_isotropic` is the proved part (hypothesis `dx0·du0 = dx1·du1`); the witness below shows that
without it a single reported wavelength cannot describe the two per-axis grids. -/
section witness
def roundEvenQ (q : ℚ) : Int :=
  let f := q.floor
  let d := q - f
  if d < 1 / 2 then f else if d > 1 / 2 then f + 1 else if f % 2 = 0 then f else f + 1
local instance : RealLike ℚ := ⟨fun n => (n : ℚ), 6, id, fun x => |x|⟩
local instance : FftLike ℚ := ⟨roundEvenQ, min, fun a b => decide (b < a)⟩

/-- witness on the model: `1/alpha = (4.3, 8.6)` gives the grid `4 x 9`; the reported wavelength is the row axis' one,
and the column sampling ratio at that wavelength is `1/8`, not `1/9` -/
theorem kf_fft_anisotropic_wavelength :
    fftShape (1 : ℚ) 1 (10 / 43) (10 / 86) 1 1 1 = (4, 9) ∧
    (dftAlpha (1 : ℚ) 1 (10 / 43) (10 / 86) (propWavelength 4 9 (1 : ℚ) 1 (10 / 43) (10 / 86) 1 1 1) 1 1).2 = 1 / 8 := by
  constructor
  · decide +kernel
  · decide +kernel

/-- non-vacuity of `reported_wavelength_isotropic`: `dx·du = 1/5` on both axes, grid 5, oversample 2 -/
example := reported_wavelength_isotropic (R := ℚ) (fun _ => rfl) (fun a => min_self a) (1 / 2) (1 / 4) (2 / 5) (4 / 5) 3 7 2 5
  (by norm_num) (by norm_num) (by norm_num) (by norm_num) (by norm_num)
end witness

/-! ## Non-vacuity of the refusal / acceptance theorems -/
section
local instance : RealLike Int := ⟨id, 6, id, fun x => x.natAbs⟩
local instance : CxLike Int Int := ⟨fun t => t, id, id, fun z _ => z⟩
local instance : FftLike Int := ⟨fun x => x, min, fun a b => decide (b < a)⟩
-- dx·du = 1, z·wl·os = 1: alpha = 1, grid 1x1; shape (2,1) is too large
example : propagateFft (K := Int) (R := Int) 1 [] false 1 1 1 1 1 1 1 1 1 (some (2, 1)) none = FftOut.valueError := rfl
example : ∃ lam S0 S1 so g, propagateFft (K := Int) (R := Int) 1 [] false 1 1 1 1 1 1 1 1 1 (some (1, 1))
    (some ⟨1, 1, fun _ _ => 7⟩) = FftOut.ok lam S0 S1 so g := ⟨_, _, _, _, _, rfl⟩
end

end Lentil.C09
