import LentilVerif.Lemmas.Fourier
/-! # C01 — the matrix-triple-product DFT equals the defining Fourier sum and is invertible

Property theorems only. `dft2`/`idft2` are the executable model of `lentil/fourier.py` (Model/Fourier.lean) instantiated
at `K = ℂ`, `R = ℝ` (`Lemmas/Fourier.lean`); the same definitions run at complex doubles in the correspondence. -/
namespace Lentil.C01
open Lentil Finset

/-- **defining sum.** For every input array, real samplings `αr`, `αc` (independent), output shape, real shifts, integer
offsets, both flags and every output index `(u, v)`: the triple product `E1·f·E2` is the double sum over input samples of
`f x y · exp(-2πi(αr·X·U + αc·Y·V))` with `X = x - ⌊m/2⌋ + off_r`, `U = u - ⌊M/2⌋ - shift_r` (origins at index `⌊n/2⌋`),
multiplied by `√|αr αc|` exactly when `unitary`. -/
theorem dft2_eq_defining_sum (f : Arr ℂ) (αr αc : ℝ) (M N : ℤ) (shr shc : ℝ) (offr offc : ℤ) (unitary : Bool) (u v : ℤ) :
    (dft2 f αr αc M N shr shc offr offc unitary).get u v =
      (if unitary then ((Real.sqrt |αr * αc| : ℝ) : ℂ) else 1) *
      ∑ x ∈ range f.s0.toNat, ∑ y ∈ range f.s1.toNat, f.get x y *
        Complex.exp (-(2 * Real.pi * Complex.I) *
          ((αr * (((x : ℤ) - f.s0 / 2 + offr : ℤ) : ℝ) * (((u - M / 2 : ℤ) : ℝ) - shr)
            + αc * (((y : ℤ) - f.s1 / 2 + offc : ℤ) : ℝ) * (((v - N / 2 : ℤ) : ℝ) - shc) : ℝ) : ℂ)) := by
  rw [dft2_get_eq]
  have : (dft2Sum f αr αc M N shr shc offr offc u v) =
      ∑ x ∈ range f.s0.toNat, ∑ y ∈ range f.s1.toNat, f.get x y *
        Complex.exp (-(2 * Real.pi * Complex.I) *
          ((αr * (((x : ℤ) - f.s0 / 2 + offr : ℤ) : ℝ) * (((u - M / 2 : ℤ) : ℝ) - shr)
            + αc * (((y : ℤ) - f.s1 / 2 + offc : ℤ) : ℝ) * (((v - N / 2 : ℤ) : ℝ) - shc) : ℝ) : ℂ)) := by
    unfold dft2Sum
    rw [sum_comm]
    refine sum_congr rfl fun y _ => ?_
    rw [sum_mul]
    refine sum_congr rfl fun x _ => ?_
    unfold ker cc
    rw [mul_comm (Complex.exp _) (f.get _ _), mul_assoc, ← Complex.exp_add]
    congr 2
    push_cast
    ring
  rw [this]

/-- **linearity (sum).** The transform of a pointwise sum of two arrays of one shape is the sum of the transforms. -/
theorem dft2_add (f g : Arr ℂ) (h0 : g.s0 = f.s0) (h1 : g.s1 = f.s1) (αr αc : ℝ) (M N : ℤ) (shr shc : ℝ)
    (offr offc : ℤ) (unitary : Bool) (u v : ℤ) :
    (dft2 { f with get := fun i j => f.get i j + g.get i j } αr αc M N shr shc offr offc unitary).get u v =
      (dft2 f αr αc M N shr shc offr offc unitary).get u v + (dft2 g αr αc M N shr shc offr offc unitary).get u v := by
  simp only [dft2_get_eq, dft2Sum, h0, h1, mul_add, add_mul, sum_add_distrib]

/-- **linearity (scalar).** The transform of `c · f` is `c ·` the transform of `f`. -/
theorem dft2_smul (f : Arr ℂ) (c : ℂ) (αr αc : ℝ) (M N : ℤ) (shr shc : ℝ) (offr offc : ℤ) (unitary : Bool) (u v : ℤ) :
    (dft2 { f with get := fun i j => c * f.get i j } αr αc M N shr shc offr offc unitary).get u v =
      c * (dft2 f αr αc M N shr shc offr offc unitary).get u v := by
  simp only [dft2_get_eq, dft2Sum, mul_sum, sum_mul]
  refine sum_congr rfl fun y _ => sum_congr rfl fun x _ => ?_
  ring

end Lentil.C01
