import LentilVerif.Lemmas.FourierPad
import LentilVerif.Lemmas.FourierWiring
import LentilVerif.Model.FourierOut
/-! # C01 — the matrix-triple-product DFT equals the defining Fourier sum and is invertible

Property theorems only. `dft2`/`idft2` are the executable model of `lentil/fourier.py` (Model/Fourier.lean) instantiated
at `K = ℂ`, `R = ℝ` (`Lemmas/Fourier.lean`); the same definitions run at complex doubles in the correspondence. -/
namespace Lentil.C01
open Lentil Finset

/-- **the model is the source's wiring.** `Gen/FourierWiring.lean` is regenerated from `fourier.py` on every run: the centring
`arange(n) − floor(n/2)`, which coordinate vector / offset / shift / sampling feeds which factor of `E1`, `E2`, the `.T`, the
product `np.dot(E1.dot(f), E2)` with its contraction lengths, the `broadcast_to(·, (2,))` unpackings and the expression
applied under `if unitary:`. The hand model `dft2` equals those generated definitions entry by entry (and has the generated
output shape), so an edit of any of these in the source breaks this theorem. -/
theorem dft2_follows_source_wiring (f : Arr ℂ) (αr αc : ℝ) (M N : ℤ) (shr shc : ℝ) (offr offc : ℤ) (unitary : Bool) (u v : ℤ) :
    (dft2 f αr αc M N shr shc offr offc unitary).get u v =
      (if unitary then
        Gen.fwDft2Prod sumRange
          (fun row col => srcExp (Gen.fwExpPhase1 (fun i : ℤ => (i : ℝ)) Real.pi (Gen.fwDft2E1Arg (fun i : ℤ => (i : ℝ)) f.s0 f.s1 αr αc M N shr shc offr offc row col)))
          (fun row col => srcExp (Gen.fwExpPhase2 (fun i : ℤ => (i : ℝ)) Real.pi (Gen.fwDft2E2Arg (fun i : ℤ => (i : ℝ)) f.s0 f.s1 αr αc M N shr shc offr offc row col)))
          f.get f.s0 f.s1 M N u v
        * ((Gen.fwDft2Scale (fun i : ℤ => (i : ℝ)) Real.sqrt (fun x => |x|) f.s0 f.s1 αr αc M N shr shc offr offc : ℝ) : ℂ)
      else
        Gen.fwDft2Prod sumRange
          (fun row col => srcExp (Gen.fwExpPhase1 (fun i : ℤ => (i : ℝ)) Real.pi (Gen.fwDft2E1Arg (fun i : ℤ => (i : ℝ)) f.s0 f.s1 αr αc M N shr shc offr offc row col)))
          (fun row col => srcExp (Gen.fwExpPhase2 (fun i : ℤ => (i : ℝ)) Real.pi (Gen.fwDft2E2Arg (fun i : ℤ => (i : ℝ)) f.s0 f.s1 αr αc M N shr shc offr offc row col)))
          f.get f.s0 f.s1 M N u v) ∧
    ((dft2 f αr αc M N shr shc offr offc unitary).s0, (dft2 f αr αc M N shr shc offr offc unitary).s1)
      = Gen.fwDft2OutShape f.s0 f.s1 M N ∧
    Gen.fwDft2ShapeDefault f.s0 f.s1 = (f.s0, f.s1) := by
  refine ⟨?_, rfl, rfl⟩
  unfold dft2
  simp only [dftKernel_wired1 f.s0 f.s1 αr αc M N shr shc offr offc, dftKernel_wired2 f.s0 f.s1 αr αc M N shr shc offr offc,
    Gen.fwDft2Prod, Gen.fwDft2Scale, Int.ofNat_eq_natCast, CxLike.ofReal, RealLike.sqrt, RealLike.abs]

open ComplexConjugate in
/-- **`idft2` is the source's plumbing.** `Gen.fwIdft2` is obtained by evaluating `idft2`'s body symbolically (which array is
conjugated, which parameter feeds which parameter of `dft2`, the divisor `F.size`, the condition on `unitary`, the default
offset); the hand model equals it, so conjugating the wrong array, dividing unconditionally or by another size, or passing
`shift` for `shape` changes the generated definition and breaks this theorem. -/
theorem idft2_follows_source_wiring (F : Arr ℂ) (αr αc : ℝ) (M N : ℤ) (shr shc : ℝ) (unitary : Bool) (i j : ℤ) :
    (idft2 F αr αc M N shr shc unitary).get i j =
      Gen.fwIdft2 (starRingEnd ℂ) (fun z n => z / (n : ℂ))
        (fun G (al : ℝ × ℝ) (sh : ℤ × ℤ) (sf : ℝ × ℝ) un a b =>
          (dft2 { F with get := G } al.1 al.2 sh.1 sh.2 sf.1 sf.2 Gen.fwIdft2Offset.1 Gen.fwIdft2Offset.2 un).get a b)
        F.get F.s0 F.s1 (αr, αc) (M, N) (shr, shc) unitary i j := by
  unfold idft2 Gen.fwIdft2
  simp only [Gen.fwIdft2Offset, CxLike.conj, CxLike.divInt]

/-- **writing into a caller-supplied buffer.** In the buffer model of the `out=` path (`Model/FourierOut.lean`): `dft2`'s own dtype
guard (regenerated from the source) comes first and refuses with `TypeError` a buffer whose dtype cannot hold complex values; a
buffer passing it that `np.dot(out=)` does not accept (`dotAccepts`: exactly complex128, shape `(M, N)`, C-contiguous by its strides,
writeable — NumPy's contract written by hand, TRUSTED, compared with the real outcome by the op `c01.out` on every generated buffer) is
refused with `ValueError`; a buffer passing both — whatever it held before — ends up holding exactly the values of a fresh
allocation and is the returned object. *Outside the model, no theorem:* the in-place call `out=f` (buffer aliasing the input: the
input is read as a snapshot here; that `E1.dot(f)` is evaluated before the buffer is written is NumPy's evaluation order),
alignment, and `idft2(out=)` — observed by the correspondence and the oracle only. -/
theorem dft2_out_buffer (f : Arr ℂ) (αr αc : ℝ) (M N : ℤ) (shr shc : ℝ) (offr offc : ℤ) (unitary : Bool) (b : OutBuf ℂ) :
    (b.dtype.canCastComplex = false → dft2Out f αr αc M N shr shc offr offc unitary (some b) = OutCall.typeError) ∧
    (b.dtype.canCastComplex = true → dotAccepts b M N = false →
      dft2Out f αr αc M N shr shc offr offc unitary (some b) = OutCall.valueError) ∧
    (b.dtype.canCastComplex = true → dotAccepts b M N = true → dft2Out f αr αc M N shr shc offr offc unitary (some b)
      = OutCall.ok (dft2 f αr αc M N shr shc offr offc unitary) (some (dft2 f αr αc M N shr shc offr offc unitary)) true) ∧
    dft2Out f αr αc M N shr shc offr offc unitary none = OutCall.ok (dft2 f αr αc M N shr shc offr offc unitary) none false := by
  refine ⟨fun h => ?_, fun h h' => ?_, fun h h' => ?_, rfl⟩
  · simp [dft2Out, Gen.fwOutRefused, h]
  · simp [dft2Out, Gen.fwOutRefused, h, h']
  · simp [dft2Out, Gen.fwOutRefused, Gen.fwOutResultIsBuffer, h, h']

/-- **which buffers are written.** The call with `out=b` returns normally exactly when `b` is a writeable complex128 array of shape
`(M, N)` whose strides `(s, t)` (in elements) are C-contiguous in NumPy's sense: `t = 1` unless `N = 1`, and `s = N` unless `M = 1`.
So Fortran-ordered, strided, read-only, complex64, clongdouble, object, real and wrongly shaped buffers are all refused, while a
Fortran-ordered single row or a 1×1 buffer is accepted. -/
theorem dft2_out_accepted_iff (f : Arr ℂ) (αr αc : ℝ) (M N : ℤ) (shr shc : ℝ) (offr offc : ℤ) (unitary : Bool) (b : OutBuf ℂ) :
    (∃ r a t, dft2Out f αr αc M N shr shc offr offc unitary (some b) = OutCall.ok r a t) ↔
      b.dtype = BufDtype.complex128 ∧ b.writeable = true ∧
        ∃ s t, b.shape = [M, N] ∧ b.strides = [s, t] ∧ (N = 1 ∨ t = 1) ∧ (M = 1 ∨ s = N) := by
  have key : dotAccepts b M N = true ↔ b.dtype = BufDtype.complex128 ∧ b.writeable = true ∧
        ∃ s t, b.shape = [M, N] ∧ b.strides = [s, t] ∧ (N = 1 ∨ t = 1) ∧ (M = 1 ∨ s = N) := by
    unfold dotAccepts
    rcases hs : b.shape with _ | ⟨a, _ | ⟨c, _ | _⟩⟩ <;> rcases ht : b.strides with _ | ⟨s, _ | ⟨t, _ | _⟩⟩ <;>
      simp [cContiguous2]
    constructor
    · rintro ⟨⟨hd, hw⟩, ⟨rfl, rfl⟩, h1, h2⟩; exact ⟨hd, hw, ⟨rfl, rfl⟩, h1, h2⟩
    · rintro ⟨hd, hw, ⟨rfl, rfl⟩, h1, h2⟩; exact ⟨⟨hd, hw⟩, ⟨rfl, rfl⟩, h1, h2⟩
  rw [← key]
  constructor
  · rintro ⟨r, a, t, h⟩
    by_contra hn
    have hn' : dotAccepts b M N = false := by simpa using hn
    by_cases hc : b.dtype.canCastComplex = true
    · simp [dft2Out, Gen.fwOutRefused, hc, hn'] at h
    · simp [dft2Out, Gen.fwOutRefused, hc] at h
  · intro h
    have hc : b.dtype.canCastComplex = true := by
      have : b.dtype = BufDtype.complex128 := (key.mp h).1
      rw [this]; rfl
    exact ⟨_, _, _, ((dft2_out_buffer f αr αc M N shr shc offr offc unitary b).2.2.1 hc h)⟩

/-- non-vacuity of both directions: a Fortran-ordered 2×5 complex128 buffer (strides 1, 2) is refused with `ValueError`, a
Fortran-ordered 1×5 one (strides 1, 1) is written, a clongdouble buffer passes `dft2`'s guard and is refused by `np.dot`, a
complex64 buffer is refused by the guard whatever its shape -/
example (f : Arr ℂ) (x : Arr ℂ) :
    dft2Out f (0.2 : ℝ) 0.2 2 5 0 0 0 0 true (some ⟨.complex128, [2, 5], [1, 2], true, x⟩) = OutCall.valueError ∧
    (∃ r a t, dft2Out f (0.2 : ℝ) 0.2 1 5 0 0 0 0 true (some ⟨.complex128, [1, 5], [1, 1], true, x⟩) = OutCall.ok r a t) ∧
    dft2Out f (0.2 : ℝ) 0.2 2 5 0 0 0 0 true (some ⟨.clongdouble, [2, 5], [5, 1], true, x⟩) = OutCall.valueError ∧
    dft2Out f (0.2 : ℝ) 0.2 2 5 0 0 0 0 true (some ⟨.complex64, [3, 5], [5, 1], true, x⟩) = OutCall.typeError := by
  refine ⟨by simp [dft2Out, Gen.fwOutRefused, BufDtype.canCastComplex, dotAccepts, cContiguous2], ?_,
    by simp [dft2Out, Gen.fwOutRefused, BufDtype.canCastComplex, dotAccepts],
    by simp [dft2Out, Gen.fwOutRefused, BufDtype.canCastComplex]⟩
  exact (dft2_out_accepted_iff ..).mpr ⟨rfl, rfl, 1, 1, rfl, rfl, Or.inr rfl, Or.inl rfl⟩

/-- **defining sum of the inverse transform.** For every array, real samplings, output shape, real shifts and both flags:
`idft2` is the double sum `Σ_u Σ_v F[u,v]·exp(+2πi(αr·U·X + αc·V·Y))` with `U = u − ⌊m/2⌋` (input origin at `⌊n/2⌋`, no
offset), `X = i − ⌊M/2⌋ − shift_r`, multiplied by `√|αr αc|` when unitary and by `1/F.size` otherwise. -/
theorem idft2_eq_defining_sum (F : Arr ℂ) (αr αc : ℝ) (M N : ℤ) (shr shc : ℝ) (unitary : Bool) (i j : ℤ) :
    (idft2 F αr αc M N shr shc unitary).get i j =
      (if unitary then ((Real.sqrt |αr * αc| : ℝ) : ℂ) else 1 / ((F.s0 * F.s1 : ℤ) : ℂ)) *
      ∑ u ∈ range F.s0.toNat, ∑ v ∈ range F.s1.toNat, F.get u v *
        Complex.exp ((2 * Real.pi * Complex.I) *
          ((αr * (((u : ℤ) - F.s0 / 2 : ℤ) : ℝ) * (((i - M / 2 : ℤ) : ℝ) - shr)
            + αc * (((v : ℤ) - F.s1 / 2 : ℤ) : ℝ) * (((j - N / 2 : ℤ) : ℝ) - shc) : ℝ) : ℂ)) := by
  rw [idft2_get_eq]
  congr 1
  rw [sum_comm]
  refine sum_congr rfl fun v _ => ?_
  rw [sum_mul]
  refine sum_congr rfl fun u _ => ?_
  rw [conj_ker, conj_ker, mul_comm (Complex.exp _) (F.get _ _), mul_assoc, ← Complex.exp_add]
  congr 2
  simp only [cc]
  push_cast
  ring

/-- **defining sum.** For every input array, real samplings `αr`, `αc` (independent), output shape, real shifts, integer
offsets, both flags and every output index `(u, v)`: the triple product `E1·f·E2` is the double sum over input samples of
`f x y · exp(-2πi(αr·X·U + αc·Y·V))` with `X = x - ⌊m/2⌋ + off_r`, `U = u - ⌊M/2⌋ - shift_r` (origins at index `⌊n/2⌋`),
multiplied by `√|αr αc|` exactly when `unitary`. -/
theorem dft2_eq_defining_sum (f : Arr ℂ) (αr αc : ℝ) (M N : ℤ) (shr shc : ℝ) (offr offc : ℤ) (unitary : Bool) (u v : ℤ) :
    (dft2 f αr αc M N shr shc offr offc unitary).get u v =
      (if unitary then ((Real.sqrt |αr * αc| : ℝ) : ℂ) else 1) *
      ∑ x ∈ range f.s0.toNat, ∑ y ∈ range f.s1.toNat, f.get x y *
        Complex.exp (-(2 * Real.pi * Complex.I) *
          ((αr * (((x : ℤ) - f.s0 / 2 + offr : ℤ) : ℝ) * (((u - M / 2 : ℤ) : ℝ) - shr)
            + αc * (((y : ℤ) - f.s1 / 2 + offc : ℤ) : ℝ) * (((v - N / 2 : ℤ) : ℝ) - shc) : ℝ) : ℂ)) := by
  rw [dft2_get_eq]
  have : (dft2Sum f αr αc M N shr shc offr offc u v) =
      ∑ x ∈ range f.s0.toNat, ∑ y ∈ range f.s1.toNat, f.get x y *
        Complex.exp (-(2 * Real.pi * Complex.I) *
          ((αr * (((x : ℤ) - f.s0 / 2 + offr : ℤ) : ℝ) * (((u - M / 2 : ℤ) : ℝ) - shr)
            + αc * (((y : ℤ) - f.s1 / 2 + offc : ℤ) : ℝ) * (((v - N / 2 : ℤ) : ℝ) - shc) : ℝ) : ℂ)) := by
    unfold dft2Sum
    rw [sum_comm]
    refine sum_congr rfl fun y _ => ?_
    rw [sum_mul]
    refine sum_congr rfl fun x _ => ?_
    unfold ker cc
    rw [mul_comm (Complex.exp _) (f.get _ _), mul_assoc, ← Complex.exp_add]
    congr 2
    push_cast
    ring
  rw [this]

/-- **an accepted buffer ends up holding the defining sum.** Composition of the `out=` clause with the defining-sum clause: for a
buffer `dft2`'s guard and `np.dot(out=)` accept (`dft2_out_accepted_iff`), whatever it held before, the call returns the buffer
and its sample `[u, v]` afterwards is `Σ_x Σ_y f[x,y]·exp(−2πi(αr·X·U + αc·Y·V))` times `√|αr αc|` when unitary — the same
value a fresh allocation gets, for every shape, sampling, shift, offset and flag. -/
theorem dft2_out_buffer_holds_defining_sum (f : Arr ℂ) (αr αc : ℝ) (M N : ℤ) (shr shc : ℝ) (offr offc : ℤ) (unitary : Bool)
    (b : OutBuf ℂ) (hc : b.dtype.canCastComplex = true) (ha : dotAccepts b M N = true) :
    ∃ F : Arr ℂ, dft2Out f αr αc M N shr shc offr offc unitary (some b) = OutCall.ok F (some F) true ∧
      ∀ u v : ℤ, F.get u v =
        (if unitary then ((Real.sqrt |αr * αc| : ℝ) : ℂ) else 1) *
        ∑ x ∈ range f.s0.toNat, ∑ y ∈ range f.s1.toNat, f.get x y *
          Complex.exp (-(2 * Real.pi * Complex.I) *
            ((αr * (((x : ℤ) - f.s0 / 2 + offr : ℤ) : ℝ) * (((u - M / 2 : ℤ) : ℝ) - shr)
              + αc * (((y : ℤ) - f.s1 / 2 + offc : ℤ) : ℝ) * (((v - N / 2 : ℤ) : ℝ) - shc) : ℝ) : ℂ)) :=
  ⟨dft2 f αr αc M N shr shc offr offc unitary, (dft2_out_buffer f αr αc M N shr shc offr offc unitary b).2.2.1 hc ha,
    fun u v => dft2_eq_defining_sum f αr αc M N shr shc offr offc unitary u v⟩

/-- **`idft2` writing into a caller-supplied buffer.** `idft2(F, …, out=b)` hands `b` to `dft2` (regenerated: `Gen.fwIdft2PassesOut`),
so the same two checks decide — `TypeError` for a dtype that cannot hold complex values, `ValueError` for a buffer `np.dot(out=)` does
not accept (`dotAccepts`, NumPy's contract by hand, TRUSTED, compared with the real outcome by the op `c01.iout`) — and a buffer passing
both, whatever it held, ends up holding exactly the values `idft2` returns without `out=` **after** the in-place conjugation and the
in-place division (`np.conj(X, out=X)`, `np.divide(X, n, out=X)`: regenerated flags `Gen.fwIdft2ConjInPlace`,
`Gen.fwIdft2DivideInPlace`), for both normalisation flags, and is the returned object. A source that divides into a fresh array
(`np.divide(F, N)` / `F / N`) or does not pass `out` on changes a regenerated flag and this proof stops checking. -/
theorem idft2_out_buffer (F : Arr ℂ) (αr αc : ℝ) (M N : ℤ) (shr shc : ℝ) (unitary : Bool) (b : OutBuf ℂ) :
    (b.dtype.canCastComplex = false → idft2Out F αr αc M N shr shc unitary (some b) = OutCall.typeError) ∧
    (b.dtype.canCastComplex = true → dotAccepts b M N = false →
      idft2Out F αr αc M N shr shc unitary (some b) = OutCall.valueError) ∧
    (b.dtype.canCastComplex = true → dotAccepts b M N = true → idft2Out F αr αc M N shr shc unitary (some b)
      = OutCall.ok (idft2 F αr αc M N shr shc unitary) (some (idft2 F αr αc M N shr shc unitary)) true) ∧
    idft2Out F αr αc M N shr shc unitary none = OutCall.ok (idft2 F αr αc M N shr shc unitary) none false := by
  refine ⟨fun h => ?_, fun h h' => ?_, fun h h' => ?_, ?_⟩
  · simp [idft2Out, dft2Out, Gen.fwIdft2PassesOut, Gen.fwOutRefused, h]
  · simp [idft2Out, dft2Out, Gen.fwIdft2PassesOut, Gen.fwOutRefused, h, h']
  · cases unitary <;>
      simp [idft2Out, dft2Out, idft2, Gen.fwIdft2PassesOut, Gen.fwIdft2ConjInPlace, Gen.fwIdft2DivideInPlace, Gen.fwIdft2Offset,
        Gen.fwOutRefused, Gen.fwOutResultIsBuffer, h, h']
  · cases unitary <;>
      simp [idft2Out, dft2Out, idft2, Gen.fwIdft2PassesOut, Gen.fwIdft2ConjInPlace, Gen.fwIdft2DivideInPlace, Gen.fwIdft2Offset]

/-- the same set of buffers as for `dft2` is written: `idft2(out=b)` returns normally exactly when `dft2(out=b)` does -/
theorem idft2_out_accepted_iff (F : Arr ℂ) (αr αc : ℝ) (M N : ℤ) (shr shc : ℝ) (unitary : Bool) (b : OutBuf ℂ) :
    (∃ r a t, idft2Out F αr αc M N shr shc unitary (some b) = OutCall.ok r a t) ↔
      b.dtype = BufDtype.complex128 ∧ b.writeable = true ∧
        ∃ s t, b.shape = [M, N] ∧ b.strides = [s, t] ∧ (N = 1 ∨ t = 1) ∧ (M = 1 ∨ s = N) := by
  rw [← dft2_out_accepted_iff F αr αc M N shr shc 0 0 unitary b]
  obtain ⟨h1, h2, h3, -⟩ := idft2_out_buffer F αr αc M N shr shc unitary b
  obtain ⟨g1, g2, g3, -⟩ := dft2_out_buffer F αr αc M N shr shc 0 0 unitary b
  by_cases hc : b.dtype.canCastComplex = true
  · by_cases ha : dotAccepts b M N = true
    · rw [h3 hc ha, g3 hc ha]; simp
    · have ha' : dotAccepts b M N = false := by simpa using ha
      rw [h2 hc ha', g2 hc ha']
  · have hc' : b.dtype.canCastComplex = false := by simpa using hc
    rw [h1 hc', g1 hc']

/-- … and the accepted buffer then holds the defining inverse sum (`idft2_eq_defining_sum`), factor `√|α_r α_c|` under the unitary
flag and `1/(rows·cols of the input)` otherwise -/
theorem idft2_out_buffer_holds_defining_sum (F : Arr ℂ) (αr αc : ℝ) (M N : ℤ) (shr shc : ℝ) (unitary : Bool)
    (b : OutBuf ℂ) (hc : b.dtype.canCastComplex = true) (ha : dotAccepts b M N = true) :
    ∃ g : Arr ℂ, idft2Out F αr αc M N shr shc unitary (some b) = OutCall.ok g (some g) true ∧
      ∀ i j : ℤ, g.get i j =
        (if unitary then ((Real.sqrt |αr * αc| : ℝ) : ℂ) else 1 / ((F.s0 * F.s1 : ℤ) : ℂ)) *
        ∑ u ∈ range F.s0.toNat, ∑ v ∈ range F.s1.toNat, F.get u v *
          Complex.exp ((2 * Real.pi * Complex.I) *
            ((αr * (((u : ℤ) - F.s0 / 2 : ℤ) : ℝ) * (((i - M / 2 : ℤ) : ℝ) - shr)
              + αc * (((v : ℤ) - F.s1 / 2 : ℤ) : ℝ) * (((j - N / 2 : ℤ) : ℝ) - shc) : ℝ) : ℂ)) :=
  ⟨idft2 F αr αc M N shr shc unitary, (idft2_out_buffer F αr αc M N shr shc unitary b).2.2.1 hc ha,
    fun i j => idft2_eq_defining_sum F αr αc M N shr shc unitary i j⟩

/-- **linearity (sum).** The transform of a pointwise sum of two arrays of one shape is the sum of the transforms. -/
theorem dft2_add (f g : Arr ℂ) (h0 : g.s0 = f.s0) (h1 : g.s1 = f.s1) (αr αc : ℝ) (M N : ℤ) (shr shc : ℝ)
    (offr offc : ℤ) (unitary : Bool) (u v : ℤ) :
    (dft2 { f with get := fun i j => f.get i j + g.get i j } αr αc M N shr shc offr offc unitary).get u v =
      (dft2 f αr αc M N shr shc offr offc unitary).get u v + (dft2 g αr αc M N shr shc offr offc unitary).get u v := by
  simp only [dft2_get_eq, dft2Sum, h0, h1, mul_add, add_mul, sum_add_distrib]

/-- **linearity (scalar).** The transform of `c · f` is `c ·` the transform of `f`. -/
theorem dft2_smul (f : Arr ℂ) (c : ℂ) (αr αc : ℝ) (M N : ℤ) (shr shc : ℝ) (offr offc : ℤ) (unitary : Bool) (u v : ℤ) :
    (dft2 { f with get := fun i j => c * f.get i j } αr αc M N shr shc offr offc unitary).get u v =
      c * (dft2 f αr αc M N shr shc offr offc unitary).get u v := by
  simp only [dft2_get_eq, dft2Sum, mul_sum, sum_mul]
  refine sum_congr rfl fun y _ => sum_congr rfl fun x _ => ?_
  ring

/-- **sub-array with offset = zero-padded embedding** (reused by C03). Placing an `m × n` array with integer offset
`(o0, o1)` on any canvas `S0 × S1` of zeros that contains it (both origins at index `⌊n/2⌋`, `padded`) and transforming
with zero offset gives exactly the transform of the array itself with `offset = (o0, o1)` — for all samplings, output
shapes, shifts and both flags. -/
theorem dft2_subarray_offset (f : Arr ℂ) (m n S0 S1 : ℕ) (hm : f.s0 = m) (hn : f.s1 = n) (o0 o1 : ℤ)
    (hr : 0 ≤ (S0 : ℤ) / 2 - (m : ℤ) / 2 + o0 ∧ (S0 : ℤ) / 2 - (m : ℤ) / 2 + o0 + m ≤ S0)
    (hc : 0 ≤ (S1 : ℤ) / 2 - (n : ℤ) / 2 + o1 ∧ (S1 : ℤ) / 2 - (n : ℤ) / 2 + o1 + n ≤ S1)
    (αr αc : ℝ) (M N : ℤ) (shr shc : ℝ) (unitary : Bool) (u v : ℤ) :
    (dft2 (padded f o0 o1 S0 S1) αr αc M N shr shc 0 0 unitary).get u v
      = (dft2 f αr αc M N shr shc o0 o1 unitary).get u v :=
  dft2_padded f m n S0 S1 hm hn o0 o1 hr hc αr αc M N shr shc unitary u v

example : ∃ (m S0 : ℕ) (o0 : ℤ), o0 ≠ 0 ∧ 0 ≤ (S0 : ℤ) / 2 - (m : ℤ) / 2 + o0 ∧ (S0 : ℤ) / 2 - (m : ℤ) / 2 + o0 + m ≤ S0 :=
  ⟨3, 8, -2, by norm_num, by norm_num, by norm_num⟩

/-- **a shift is a phase ramp on the input** (reused by C04). Transforming with output shift `(shr, shc)` equals transforming,
with zero shift, the input multiplied by `exp(2πi(αr·X·shr + αc·Y·shc))`, `X = x - ⌊m/2⌋ + off_r`, `Y = y - ⌊n/2⌋ + off_c`. -/
theorem dft2_phase_ramp_eq_shift (f : Arr ℂ) (αr αc : ℝ) (M N : ℤ) (shr shc : ℝ) (offr offc : ℤ) (unitary : Bool) (u v : ℤ) :
    (dft2 f αr αc M N shr shc offr offc unitary).get u v =
      (dft2 { f with get := fun x y => f.get x y * Complex.exp ((2 * Real.pi * Complex.I) *
          ((αr * ((x - f.s0 / 2 + offr : ℤ) : ℝ) * shr + αc * ((y - f.s1 / 2 + offc : ℤ) : ℝ) * shc : ℝ) : ℂ)) }
        αr αc M N 0 0 offr offc unitary).get u v := by
  rw [dft2_eq_defining_sum, dft2_eq_defining_sum]
  congr 1
  refine sum_congr rfl fun x _ => sum_congr rfl fun y _ => ?_
  dsimp only
  rw [mul_assoc (f.get _ _), ← Complex.exp_add]
  congr 2
  push_cast
  ring

/-- **on a full period an integer shift is a circular roll of the output.** With `α = (1/m, 1/n)`, output shape = input shape and
integer shifts `(sr, sc)`: sample `[u, v]` of the shifted transform is sample `[(u − sr) mod m, (v − sc) mod n]` of the unshifted one
(any offsets, both flags). This is why Parseval holds for every shift while the round trip `idft2 ∘ dft2` with a non-zero shift
returns a rolled copy, not `f`. -/
theorem dft2_integer_shift_full_period (f : Arr ℂ) (m n : ℕ) (hm : f.s0 = m) (hn : f.s1 = n) (hm0 : 0 < m) (hn0 : 0 < n)
    (sr sc offr offc : ℤ) (unitary : Bool) (u v : ℤ) :
    (dft2 f (1 / (m : ℝ)) (1 / (n : ℝ)) m n ((sr : ℤ) : ℝ) ((sc : ℤ) : ℝ) offr offc unitary).get u v
      = (dft2 f (1 / (m : ℝ)) (1 / (n : ℝ)) m n 0 0 offr offc unitary).get ((u - sr) % m) ((v - sc) % n) := by
  rw [dft2_get_eq, dft2_get_eq]
  congr 1
  unfold dft2Sum
  simp only [hm, hn, ker_int_shift_roll m hm0, ker_int_shift_roll n hn0]

example : ∃ sr sc : ℤ, sr < 0 ∧ 0 < sc := ⟨-2, 3, by norm_num, by norm_num⟩

open ComplexConjugate in
/-- **inversion on a full period.** With `α = (1/m, 1/n)`, output shape = input shape, zero shift and offset and the
*same* normalisation flag on both sides (either value), `idft2 (dft2 f) = f` at every sample. -/
theorem idft2_dft2_full_period (f : Arr ℂ) (m n : ℕ) (hm : f.s0 = m) (hn : f.s1 = n) (hm0 : 0 < m) (hn0 : 0 < n)
    (unitary : Bool) (x y : ℕ) (hx : x < m) (hy : y < n) :
    (idft2 (dft2 f (1 / (m : ℝ)) (1 / (n : ℝ)) m n 0 0 0 0 unitary) (1 / (m : ℝ)) (1 / (n : ℝ)) m n 0 0 unitary).get x y
      = f.get x y := by
  rw [idft2_get_eq]
  simp only [dft2C_s0, dft2C_s1, Int.toNat_natCast, dft2_get_eq]
  rw [pull_const]
  unfold dft2Sum
  simp only [hm, hn, Int.toNat_natCast]
  simp only [ker_symm _ _ _ (x : ℤ), ker_symm _ _ _ (y : ℤ)]
  rw [inv2 m n m n (fun x u => ker (1 / m) m m 0 0 x u) (fun y v => ker (1 / n) n n 0 0 y v)
    (orth_ker m m hm0 le_rfl m 0 0) (orth_ker n n hn0 le_rfl n 0 0) (fun x y => f.get x y) x y hx hy]
  have hm' : (m : ℂ) ≠ 0 := by exact_mod_cast hm0.ne'
  have hn' : (n : ℂ) ≠ 0 := by exact_mod_cast hn0.ne'
  cases unitary
  · simp only [Bool.false_eq_true, if_false]; push_cast; field_simp
  · simp only [if_true]
    rw [← mul_assoc, ← Complex.ofReal_mul, sqrt_abs_inv_mul_self m n hm0 hn0]
    push_cast; field_simp

/-- **the plain calls invert each other.** `dft2(f, α)` and `idft2(F, α)` — nothing passed but the sampling, every other argument at
the default regenerated from the signatures (shape = input shape, zero shift and offset, and the *same* normalisation flag on both
sides: `Gen.fwDft2DefaultUnitary`, `Gen.fwIdft2DefaultUnitary`) — satisfy `idft2(dft2(f, α), α) = f` at `α = (1/m, 1/n)`, and the plain
forward call is the unitary, centred, unshifted transform. A default changed on one side only (say `idft2(…, unitary=False)`) makes
this false and the proof stops. -/
theorem default_calls_roundtrip (f : Arr ℂ) (m n : ℕ) (hm : f.s0 = m) (hn : f.s1 = n) (hm0 : 0 < m) (hn0 : 0 < n)
    (x y : ℕ) (hx : x < m) (hy : y < n) :
    (idft2Default (R := ℝ) (dft2Default f (1 / (m : ℝ)) (1 / (n : ℝ))) (1 / (m : ℝ)) (1 / (n : ℝ))).get x y = f.get x y ∧
    dft2Default f (1 / (m : ℝ)) (1 / (n : ℝ)) = dft2 f (1 / (m : ℝ)) (1 / (n : ℝ)) m n 0 0 0 0 true := by
  have h := idft2_dft2_full_period f m n hm hn hm0 hn0 true x y hx hy
  have e : dft2Default f (1 / (m : ℝ)) (1 / (n : ℝ)) = dft2 f (1 / (m : ℝ)) (1 / (n : ℝ)) m n 0 0 0 0 true := by
    simp [dft2Default, Gen.fwDft2ShapeDefault, Gen.fwDft2DefaultShift, Gen.fwDft2DefaultOffset, Gen.fwDft2DefaultUnitary,
      RealLike.ofInt, hm, hn]
  refine ⟨?_, e⟩
  rw [e]
  simpa [idft2Default, Gen.fwDft2ShapeDefault, Gen.fwIdft2DefaultShift, Gen.fwIdft2DefaultUnitary, RealLike.ofInt, dft2C_s0, dft2C_s1]
    using h

open ComplexConjugate in
/-- **the round trip with shifts and offsets is a rolled, phased copy.** Full period (`α = (1/m, 1/n)`, output shape = input
shape, same flag on both sides), forward transform with any real shift `(shr, shc)` and integer offset `(offr, offc)`, inverse
transform with an integer shift `(tr, tc)`: sample `[i, j]` of `idft2 (dft2 f)` is input sample
`[x, y] = [(i − tr − offr) mod m, (j − tc − offc) mod n]` times the phase ramp the forward shift puts on that sample,
`exp(2πi((x − ⌊m/2⌋ + offr)·shr/m + (y − ⌊n/2⌋ + offc)·shc/n))`. (All zero: `idft2_dft2_full_period`.) -/
theorem idft2_dft2_full_period_rolled (f : Arr ℂ) (m n : ℕ) (hm : f.s0 = m) (hn : f.s1 = n) (hm0 : 0 < m) (hn0 : 0 < n)
    (shr shc : ℝ) (offr offc tr tc : ℤ) (unitary : Bool) (i j : ℤ) :
    (idft2 (dft2 f (1 / (m : ℝ)) (1 / (n : ℝ)) m n shr shc offr offc unitary) (1 / (m : ℝ)) (1 / (n : ℝ)) m n
        ((tr : ℤ) : ℝ) ((tc : ℤ) : ℝ) unitary).get i j
      = Complex.exp ((2 * Real.pi * Complex.I) *
          ((1 / (m : ℝ) * (((i - tr - offr) % m - (m : ℤ) / 2 + offr : ℤ) : ℝ) * shr : ℝ) : ℂ))
        * Complex.exp ((2 * Real.pi * Complex.I) *
          ((1 / (n : ℝ) * (((j - tc - offc) % n - (n : ℤ) / 2 + offc : ℤ) : ℝ) * shc : ℝ) : ℂ))
        * f.get ((i - tr - offr) % m) ((j - tc - offc) % n) := by
  show _ = ramp m offr shr ((i - tr - offr) % m) * ramp n offc shc ((j - tc - offc) % n) * _
  obtain ⟨x', hx', hxm⟩ : ∃ x' : ℕ, (x' : ℤ) = (i - tr - offr) % m ∧ x' < m :=
    ⟨((i - tr - offr) % m).toNat, Int.toNat_of_nonneg (Int.emod_nonneg _ (by exact_mod_cast hm0.ne')),
      by have := Int.emod_lt_of_pos (i - tr - offr) (show (0 : ℤ) < m by exact_mod_cast hm0)
         have := Int.emod_nonneg (i - tr - offr) (show (m : ℤ) ≠ 0 by exact_mod_cast hm0.ne'); omega⟩
  obtain ⟨y', hy', hyn⟩ : ∃ y' : ℕ, (y' : ℤ) = (j - tc - offc) % n ∧ y' < n :=
    ⟨((j - tc - offc) % n).toNat, Int.toNat_of_nonneg (Int.emod_nonneg _ (by exact_mod_cast hn0.ne')),
      by have := Int.emod_lt_of_pos (j - tc - offc) (show (0 : ℤ) < n by exact_mod_cast hn0)
         have := Int.emod_nonneg (j - tc - offc) (show (n : ℤ) ≠ 0 by exact_mod_cast hn0.ne'); omega⟩
  rw [idft2_get_eq]
  simp only [dft2C_s0, dft2C_s1, Int.toNat_natCast, dft2_get_eq]
  rw [pull_const]
  unfold dft2Sum
  simp only [hm, hn, Int.toNat_natCast]
  simp only [ker_inv_roll m hm0 offr tr shr, ker_inv_roll n hn0 offc tc shc, ← hx', ← hy']
  have hpull : ∀ (a b : ℕ → ℂ) (S : ℕ → ℕ → ℂ) (p q : ℂ),
      ∑ v ∈ range n, (∑ u ∈ range m, (p * a u) * S u v) * (q * b v)
        = p * q * ∑ v ∈ range n, (∑ u ∈ range m, a u * S u v) * b v := by
    intro a b S p q
    simp only [mul_sum, sum_mul]
    exact sum_congr rfl fun v _ => sum_congr rfl fun u _ => by ring
  rw [hpull]
  rw [inv2 m n m n (fun x u => ker (1 / m) m m offr shr x u) (fun y v => ker (1 / n) n n offc shc y v)
    (orth_ker m m hm0 le_rfl m offr shr) (orth_ker n n hn0 le_rfl n offc shc) (fun x y => f.get x y) x' y' hxm hyn]
  have hm' : (m : ℂ) ≠ 0 := by exact_mod_cast hm0.ne'
  have hn' : (n : ℂ) ≠ 0 := by exact_mod_cast hn0.ne'
  cases unitary
  · simp only [Bool.false_eq_true, if_false]; push_cast; field_simp
  · simp only [if_true]
    rw [← mul_assoc, ← Complex.ofReal_mul, sqrt_abs_inv_mul_self m n hm0 hn0]
    push_cast; field_simp

/-- **with no forward shift the round trip is a circular roll.** Integer offsets on the way forward and an integer shift on the
way back move the samples circularly and change nothing else: `idft2 (dft2 f)[i, j] = f[(i − tr − offr) mod m, (j − tc − offc) mod n]`. -/
theorem idft2_dft2_full_period_roll (f : Arr ℂ) (m n : ℕ) (hm : f.s0 = m) (hn : f.s1 = n) (hm0 : 0 < m) (hn0 : 0 < n)
    (offr offc tr tc : ℤ) (unitary : Bool) (i j : ℤ) :
    (idft2 (dft2 f (1 / (m : ℝ)) (1 / (n : ℝ)) m n 0 0 offr offc unitary) (1 / (m : ℝ)) (1 / (n : ℝ)) m n
        ((tr : ℤ) : ℝ) ((tc : ℤ) : ℝ) unitary).get i j
      = f.get ((i - tr - offr) % m) ((j - tc - offc) % n) := by
  rw [idft2_dft2_full_period_rolled f m n hm hn hm0 hn0 0 0 offr offc tr tc unitary i j]
  simp

open ComplexConjugate in
/-- **inversion of an oversampled period.** Forward transform with `α = (1/K, 1/L)` onto `K × L` samples, `K ≥ m`, `L ≥ n` (the
input zero-padded to one period in effect), inverse transform with the same sampling and flag back onto the input shape
`m × n`: `idft2 (dft2 f) = f` at every sample. (`K = m`, `L = n` is `idft2_dft2_full_period`.) -/
theorem idft2_dft2_oversampled (f : Arr ℂ) (m n K L : ℕ) (hm : f.s0 = m) (hn : f.s1 = n) (hK : 0 < K) (hL : 0 < L)
    (hmK : m ≤ K) (hnL : n ≤ L) (unitary : Bool) (x y : ℕ) (hx : x < m) (hy : y < n) :
    (idft2 (dft2 f (1 / (K : ℝ)) (1 / (L : ℝ)) K L 0 0 0 0 unitary) (1 / (K : ℝ)) (1 / (L : ℝ)) m n 0 0 unitary).get x y
      = f.get x y := by
  rw [idft2_get_eq]
  simp only [dft2C_s0, dft2C_s1, Int.toNat_natCast, dft2_get_eq]
  rw [pull_const]
  unfold dft2Sum
  simp only [hm, hn, Int.toNat_natCast]
  simp only [ker_swap]
  rw [inv2 m n K L (fun x u => ker (1 / K) m K 0 0 x u) (fun y v => ker (1 / L) n L 0 0 y v)
    (orth_ker m K hK hmK m 0 0) (orth_ker n L hL hnL n 0 0) (fun x y => f.get x y) x y hx hy]
  have hK' : (K : ℂ) ≠ 0 := by exact_mod_cast hK.ne'
  have hL' : (L : ℂ) ≠ 0 := by exact_mod_cast hL.ne'
  cases unitary
  · simp only [Bool.false_eq_true, if_false]; push_cast; field_simp
  · simp only [if_true]
    rw [← mul_assoc, ← Complex.ofReal_mul, sqrt_abs_inv_mul_self K L hK hL]
    push_cast; field_simp

open ComplexConjugate in
/-- **an oversampled round trip with a forward shift returns a phased copy.** Forward transform with `α = (1/K, 1/L)` onto `K × L`
samples, `K ≥ m`, `L ≥ n`, with any real output shift `(shr, shc)`; inverse with the same sampling and flag (zero shift) back onto
the input shape: sample `[x, y]` is `f[x, y]` times the shift's phase ramp `exp(2πi((x − ⌊m/2⌋)·shr/K + (y − ⌊n/2⌋)·shc/L))` —
modulus 1, so the round trip keeps every `|f[x, y]|`. (`shr = shc = 0`: `idft2_dft2_oversampled`.) -/
theorem idft2_dft2_oversampled_shifted (f : Arr ℂ) (m n K L : ℕ) (hm : f.s0 = m) (hn : f.s1 = n) (hK : 0 < K) (hL : 0 < L)
    (hmK : m ≤ K) (hnL : n ≤ L) (shr shc : ℝ) (unitary : Bool) (x y : ℕ) (hx : x < m) (hy : y < n) :
    (idft2 (dft2 f (1 / (K : ℝ)) (1 / (L : ℝ)) K L shr shc 0 0 unitary) (1 / (K : ℝ)) (1 / (L : ℝ)) m n 0 0 unitary).get x y
      = Complex.exp ((2 * Real.pi * Complex.I) * ((1 / (K : ℝ) * (((x : ℤ) - (m : ℤ) / 2 : ℤ) : ℝ) * shr : ℝ) : ℂ))
        * Complex.exp ((2 * Real.pi * Complex.I) * ((1 / (L : ℝ) * (((y : ℤ) - (n : ℤ) / 2 : ℤ) : ℝ) * shc : ℝ) : ℂ))
        * f.get x y := by
  have hker : ∀ (m K : ℕ) (s : ℝ) (u i : ℤ), conj (ker (1 / K) K m 0 0 u i)
      = Complex.exp ((2 * Real.pi * Complex.I) * ((1 / (K : ℝ) * ((i - (m : ℤ) / 2 : ℤ) : ℝ) * s : ℝ) : ℂ))
        * conj (ker (1 / K) m K 0 s i u) := by
    intro m K s u i
    rw [conj_ker, conj_ker, ← Complex.exp_add]
    congr 1
    unfold cc
    push_cast
    ring
  rw [idft2_get_eq]
  simp only [dft2C_s0, dft2C_s1, Int.toNat_natCast, dft2_get_eq]
  rw [pull_const]
  unfold dft2Sum
  simp only [hm, hn, Int.toNat_natCast]
  simp only [hker m K shr, hker n L shc]
  have hpull : ∀ (a b : ℕ → ℂ) (S : ℕ → ℕ → ℂ) (p q : ℂ),
      ∑ v ∈ range L, (∑ u ∈ range K, (p * a u) * S u v) * (q * b v)
        = p * q * ∑ v ∈ range L, (∑ u ∈ range K, a u * S u v) * b v := by
    intro a b S p q
    simp only [mul_sum, sum_mul]
    exact sum_congr rfl fun v _ => sum_congr rfl fun u _ => by ring
  rw [hpull]
  rw [inv2 m n K L (fun x u => ker (1 / K) m K 0 shr x u) (fun y v => ker (1 / L) n L 0 shc y v)
    (orth_ker m K hK hmK m 0 shr) (orth_ker n L hL hnL n 0 shc) (fun x y => f.get x y) x y hx hy]
  have hK' : (K : ℂ) ≠ 0 := by exact_mod_cast hK.ne'
  have hL' : (L : ℂ) ≠ 0 := by exact_mod_cast hL.ne'
  cases unitary
  · simp only [Bool.false_eq_true, if_false]; push_cast; field_simp
  · simp only [if_true]
    rw [← mul_assoc, ← Complex.ofReal_mul, sqrt_abs_inv_mul_self K L hK hL]
    push_cast; field_simp

/-- **Parseval, forward.** Under the unitary flag, over one full period (`α = (1/m, 1/n)`, output shape = input shape; any
integer offsets and real shifts) `Σ|dft2 f|² = Σ|f|²`. -/
theorem dft2_parseval_full_period (f : Arr ℂ) (m n : ℕ) (hm : f.s0 = m) (hn : f.s1 = n) (hm0 : 0 < m) (hn0 : 0 < n)
    (shr shc : ℝ) (offr offc : ℤ) :
    ∑ u ∈ range m, ∑ v ∈ range n,
        Complex.normSq ((dft2 f (1 / (m : ℝ)) (1 / (n : ℝ)) m n shr shc offr offc true).get u v)
      = ∑ x ∈ range m, ∑ y ∈ range n, Complex.normSq (f.get x y) :=
  dft2_energy f m n hm hn m n hm0 hn0 le_rfl le_rfl shr shc offr offc

open ComplexConjugate in
/-- **Parseval, inverse.** Under the unitary flag the inverse transform over one full period conserves energy just as the
forward transform does: `Σ|idft2 F|² = Σ|F|²` (any real shifts). -/
theorem idft2_parseval_full_period (F : Arr ℂ) (m n : ℕ) (hm : F.s0 = m) (hn : F.s1 = n) (hm0 : 0 < m) (hn0 : 0 < n)
    (shr shc : ℝ) :
    ∑ x ∈ range m, ∑ y ∈ range n,
        Complex.normSq ((idft2 F (1 / (m : ℝ)) (1 / (n : ℝ)) m n shr shc true).get x y)
      = ∑ u ∈ range m, ∑ v ∈ range n, Complex.normSq (F.get u v) := by
  simp only [idft2_get_eq, if_true, Complex.normSq_mul, Complex.normSq_ofReal, sqrt_abs_inv_mul_self m n hm0 hn0, ← mul_sum]
  simp only [hm, hn, Int.toNat_natCast]
  have h := parseval2 m n m n (fun u i => conj (ker (1 / m) m m 0 shr u i)) (fun v j => conj (ker (1 / n) n n 0 shc v j))
    (orth_ker m m hm0 le_rfl m 0 shr).conj (orth_ker n n hn0 le_rfl n 0 shc).conj (fun u v => F.get u v)
  rw [h]
  have hm' : (m : ℝ) ≠ 0 := by exact_mod_cast hm0.ne'
  have hn' : (n : ℝ) ≠ 0 := by exact_mod_cast hn0.ne'
  field_simp

/-- the hypotheses of the full-period theorems are satisfiable by a non-trivial array -/
example : ∃ (f : Arr ℂ) (m n : ℕ), f.s0 = m ∧ f.s1 = n ∧ 0 < m ∧ 0 < n ∧ m ≠ n ∧ f.get 1 2 ≠ f.get 0 0 :=
  ⟨⟨2, 3, fun i j => (i + 2 * j : ℂ)⟩, 2, 3, rfl, rfl, by norm_num, by norm_num, by norm_num, by norm_num⟩

end Lentil.C01
