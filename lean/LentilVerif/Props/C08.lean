import LentilVerif.Model.PlaneType
/-! C08 — the plane-type state machine follows the documented table.
Every definition named `Gen.*` below is regenerated from /repo on each run: `codeMul`/`codePropagate`/`classPtype`/… from
the Python sources, `docMul`/`docPropagate`/`docClassPtype` from the RST tables. -/
namespace Lentil.C08
open Gen Lentil.PT

/-- all 15 cells: the product either has the documented type or is refused with TypeError exactly where the
documentation says "Not allowed" -/
theorem mul_table_eq_doc : ∀ w p, codeMul w p = docMul w p := by
  intro w p; cases w <;> cases p <;> rfl

/-- a refused product is refused with TypeError, never anything else -/
theorem mul_refusal_is_TypeError : ∀ w p e, codeMul w p = .refused e → e = .typeError := by
  intro w p e h; cases w <;> cases p <;> simp [codeMul] at h <;> exact h.symm

/-- far-field propagation is permitted exactly from a pupil or an image and turns one into the other; from `none` it is
refused with TypeError; and this is what the documentation tabulates -/
theorem propagate_typing :
    codePropagate .pupil = .ok .image ∧ codePropagate .image = .ok .pupil ∧ codePropagate .none = .refused .typeError
    ∧ (∀ w w', codePropagate w = .ok w' → (w = .pupil ∧ w' = .image) ∨ (w = .image ∧ w' = .pupil))
    ∧ (∀ w, codePropagate w = docPropagate w) := by
  refine ⟨rfl, rfl, rfl, ?_, ?_⟩
  · intro w w'; cases w <;> cases w' <;> simp [codePropagate]
  · intro w; cases w <;> rfl

theorem step_eq_doc : ∀ w op, codeStep w op = docStep w op := by
  intro w op
  cases op with
  | mul p => exact mul_table_eq_doc w p
  | prop => exact propagate_typing.2.2.2.2 w

/-- for EVERY program (any length) from every start type, the code machine and the documented machine produce the same
trace of types and refusals -/
theorem run_eq_doc : ∀ (prog : List Op) (w : WType), codeRun w prog = docRun w prog := by
  intro prog
  induction prog with
  | nil => intro w; rfl
  | cons op rest ih =>
    intro w
    have h : stepWith codeMul codePropagate w op = stepWith docMul docPropagate w op := step_eq_doc w op
    simp only [codeRun, docRun, runWith, h] at ih ⊢
    exact congrArg _ (ih _)

/-- … and end in the same type -/
theorem final_eq_doc : ∀ (prog : List Op) (w : WType),
    finalWith codeMul codePropagate w prog = finalWith docMul docPropagate w prog := by
  intro prog
  induction prog with
  | nil => intro w; rfl
  | cons op rest ih =>
    intro w
    have h : stepWith codeMul codePropagate w op = stepWith docMul docPropagate w op := step_eq_doc w op
    simp only [finalWith, h]
    exact ih _

/-- a refused operation leaves the wavefront type unchanged, and a program consisting only of refused operations ends
where it started (the value-level part — both operands' arrays untouched — is checked by the correspondence snapshots) -/
theorem refusal_preserves_state :
    (∀ w op e, codeStep w op = .refused e → next w (codeStep w op) = w)
    ∧ (∀ (prog : List Op) (w : WType), (∀ r ∈ codeRun w prog, ∃ e, r = .refused e) →
        finalWith codeMul codePropagate w prog = w) := by
  refine ⟨fun w op e h => by rw [h]; rfl, ?_⟩
  intro prog
  induction prog with
  | nil => intro w _; rfl
  | cons op rest ih =>
    intro w h
    have h0 := h (stepWith codeMul codePropagate w op) (by simp [codeRun, runWith])
    obtain ⟨e, he⟩ := h0
    have hn : next w (stepWith codeMul codePropagate w op) = w := by rw [he]; rfl
    simp only [finalWith, hn]
    apply ih
    intro r hr
    apply h
    simp only [codeRun, runWith, hn, List.mem_cons]
    exact Or.inr hr

/-- the wavefront type reached by any program is always one of none/pupil/image and, once pupil or image, the wavefront
never returns to `none` -/
theorem typed_wavefront_stays_typed : ∀ w op w', w ≠ .none → codeStep w op = .ok w' → w' ≠ .none := by
  intro w op w'
  cases op with
  | mul p => cases w <;> cases p <;> cases w' <;> simp [codeStep, stepWith, codeMul]
  | prop => cases w <;> cases w' <;> simp [codeStep, stepWith, codePropagate]

/- Full-strength statement (FALSE on the current tree, known finding KF-C08-rotate-flip):
   `∀ c p, docClassPtype c = some p → classPtype c = p ∧ ∀ w, classMul c w = docMul w p`
   i.e. every documented class has its documented ptype and acts as the documented table says. -/

/-- every documented plane class other than Rotate/Flip has its documented ptype, acts exactly as the documented table
says for that ptype, and can be applied to some compatible wavefront -/
theorem all_documented_classes_apply_partial :
    ∀ c p, c ≠ .Rotate → c ≠ .Flip → docClassPtype c = some p →
      classPtype c = p ∧ (∀ w, classMul c w = docMul w p) ∧ (∃ w w', classMul c w = .ok w') := by
  intro c p hR hF
  cases c <;> simp [docClassPtype] at hR hF ⊢ <;> intro hp <;> subst hp <;>
    refine ⟨rfl, fun w => by cases w <;> rfl, ?_⟩
  · exact ⟨.none, .none, rfl⟩
  · exact ⟨.pupil, .pupil, rfl⟩
  · exact ⟨.image, .image, rfl⟩
  · exact ⟨.pupil, .pupil, rfl⟩
  · exact ⟨.pupil, .pupil, rfl⟩

/-- the undocumented public classes (Grism, LensletArray) behave as their documented base classes -/
theorem undocumented_classes_follow_base :
    (∀ w, classMul .Grism w = classMul .DispersiveTilt w) ∧ (∀ w, classMul .LensletArray w = classMul .Plane w) := by
  constructor <;> intro w <;> cases w <;> rfl

/-- class-level programs: for every program over the usable classes, the trace is the documented one -/
theorem class_run_eq_doc_partial : ∀ (prog : List COp) (w : WType),
    (∀ op ∈ prog, op ≠ .mul .Rotate ∧ op ≠ .mul .Flip) →
    classRun w prog = docRun w (prog.map COp.toOp) := by
  intro prog
  induction prog with
  | nil => intro w _; rfl
  | cons op rest ih =>
    intro w h
    have hop := h op (by simp)
    have hs : classStep w op = stepWith docMul docPropagate w op.toOp := by
      cases op with
      | prop => exact propagate_typing.2.2.2.2 w
      | mul c =>
        cases c <;> simp at hop <;> cases w <;> rfl
    simp only [classRun, docRun, runWith, List.map_cons, hs]
    refine congrArg _ ?_
    exact ih _ (fun o ho => h o (by simp [ho]))

/-- KNOWN FINDING witness (KF-C08-rotate-flip): `lentil.Rotate` and `lentil.Flip` are documented with ptype `transform`
but are constructed with ptype `none`, and their `multiply` references names that do not exist, so every application
is refused with AttributeError — they cannot be applied to any wavefront -/
theorem kf_rotate_flip_unusable :
    docClassPtype .Rotate = some .transform ∧ classPtype .Rotate = .none ∧
    docClassPtype .Flip = some .transform ∧ classPtype .Flip = .none ∧
    (∀ w, classMul .Rotate w = .refused .attributeError ∧ classMul .Flip w = .refused .attributeError) ∧
    ¬ (∀ c p, docClassPtype c = some p → classPtype c = p ∧ ∀ w, classMul c w = docMul w p) := by
  refine ⟨rfl, rfl, rfl, rfl, fun w => by cases w <;> exact ⟨rfl, rfl⟩, ?_⟩
  intro h
  have := (h .Rotate .transform rfl).1
  cases this

/-- non-vacuity: a concrete mixed program with accepted and refused steps -/
example : codeRun .none [.mul .pupil, .mul .tilt, .prop, .mul .pupil, .mul .transform, .prop, .mul .none]
    = [.ok .pupil, .ok .pupil, .ok .image, .refused .typeError, .ok .image, .ok .pupil, .refused .typeError] := rfl

example : classRun .none [.mul .Pupil, .mul .Tilt, .mul .Flip, .prop, .mul .Image]
    = [.ok .pupil, .ok .pupil, .refused .attributeError, .ok .image, .ok .image] := rfl

end Lentil.C08
