import LentilVerif.Lemmas.PlaneType
/-! C08 — the plane-type state machine follows the documented table.
Every definition named `Gen.*` below is regenerated from /repo on each run: `codeMul`/`codePropagate`/`classPtype`/… from
the Python sources, `docMul`/`docPropagate`/`docClassPtype` from the RST tables. -/
namespace Lentil.C08
open Gen Lentil.PT

/-- all 15 cells: the product either has the documented type or is refused with TypeError exactly where the
documentation says "Not allowed" -/
theorem mul_table_eq_doc : ∀ w p, codeMul w p = docMul w p := by
  intro w p; cases w <;> cases p <;> rfl

/-- a refused product is refused with TypeError, never anything else -/
theorem mul_refusal_is_TypeError : ∀ w p e, codeMul w p = .refused e → e = .typeError := by
  intro w p e h; cases w <;> cases p <;> simp [codeMul] at h <;> exact h.symm

/-- far-field propagation is permitted exactly from a pupil or an image and turns one into the other; from `none` it is
refused with TypeError; and this is what the documentation tabulates -/
theorem propagate_typing :
    codePropagate .pupil = .ok .image ∧ codePropagate .image = .ok .pupil ∧ codePropagate .none = .refused .typeError
    ∧ (∀ w w', codePropagate w = .ok w' → (w = .pupil ∧ w' = .image) ∨ (w = .image ∧ w' = .pupil))
    ∧ (∀ w, codePropagate w = docPropagate w) := by
  refine ⟨rfl, rfl, rfl, ?_, ?_⟩
  · intro w w'; cases w <;> cases w' <;> simp [codePropagate]
  · intro w; cases w <;> rfl

theorem step_eq_doc : ∀ w op, codeStep w op = docStep w op := by
  intro w op
  cases op with
  | mul p => exact mul_table_eq_doc w p
  | prop => exact propagate_typing.2.2.2.2 w

/-- for EVERY program (any length) from every start type, the code machine and the documented machine produce the same
trace of types and refusals -/
theorem run_eq_doc : ∀ (prog : List Op) (w : WType), codeRun w prog = docRun w prog := by
  intro prog
  induction prog with
  | nil => intro w; rfl
  | cons op rest ih =>
    intro w
    have h : stepWith codeMul codePropagate w op = stepWith docMul docPropagate w op := step_eq_doc w op
    simp only [codeRun, docRun, runWith, h] at ih ⊢
    exact congrArg _ (ih _)

/-- … and end in the same type -/
theorem final_eq_doc : ∀ (prog : List Op) (w : WType),
    finalWith codeMul codePropagate w prog = finalWith docMul docPropagate w prog := by
  intro prog
  induction prog with
  | nil => intro w; rfl
  | cons op rest ih =>
    intro w
    have h : stepWith codeMul codePropagate w op = stepWith docMul docPropagate w op := step_eq_doc w op
    simp only [finalWith, h]
    exact ih _


/-- the wavefront type reached by any program is always one of none/pupil/image and, once pupil or image, the wavefront
never returns to `none` -/
theorem typed_wavefront_stays_typed : ∀ w op w', w ≠ .none → codeStep w op = .ok w' → w' ≠ .none := by
  intro w op w'
  cases op with
  | mul p => cases w <;> cases p <;> cases w' <;> simp [codeStep, stepWith, codeMul]
  | prop => cases w <;> cases w' <;> simp [codeStep, stepWith, codePropagate]



/- Full-strength statement (FALSE on the current tree, known finding KF-C08-rotate-flip): `∀ c, classConforms c = true`,
   i.e. every documented class has its documented ptype, acts as the documented table says and is applicable. -/

/-- every public plane class conforms to the documentation, except possibly Rotate and Flip (known finding).
Proved by evaluation over the generated class table, whatever classes it lists: it keeps holding when Rotate/Flip are
fixed upstream or when a (conforming) class is added or documented. -/
theorem all_documented_classes_apply_partial :
    ∀ c, classConforms c = true ∨ c = .Rotate ∨ c = .Flip := by
  intro c
  cases c <;> first | exact Or.inl rfl | exact Or.inr (Or.inl rfl) | exact Or.inr (Or.inr rfl)

/-- the undocumented public classes (Grism, LensletArray) behave as their documented base classes -/
theorem undocumented_classes_follow_base :
    (∀ w, classMul .Grism w = classMul .DispersiveTilt w) ∧ (∀ w, classMul .LensletArray w = classMul .Plane w) := by
  constructor <;> intro w <;> cases w <;> rfl

/-- class-level programs: for every program whose planes are table-driven (decidable per class on the generated table; see
`table_driven_all_but_rotate_flip`: today all public classes but the broken Rotate/Flip; Image's forced `image` coincides with the table), the trace is the documented one -/
theorem class_run_eq_doc_partial : ∀ (prog : List COp) (w : WType),
    (∀ c, COp.mul c ∈ prog → classTableDriven c = true) →
    classRun w prog = docRun w (prog.map COp.toOp) := by
  intro prog
  induction prog with
  | nil => intro w _; rfl
  | cons op rest ih =>
    intro w h
    have hs : classStep w op = stepWith docMul docPropagate w op.toOp := by
      cases op with
      | prop => exact propagate_typing.2.2.2.2 w
      | mul c =>
        have hc := h c (by simp)
        simp only [classTableDriven, List.all_eq_true, beq_iff_eq] at hc
        exact hc w (mem_WType_all w)
    simp only [classRun, docRun, runWith, List.map_cons, hs]
    refine congrArg _ ?_
    exact ih _ (fun c hc => h c (by simp [hc]))

/-- which classes go through the documented table unchanged: every public class except (today) Rotate and Flip —
by evaluation over the generated class table -/
theorem table_driven_all_but_rotate_flip : ∀ c, classTableDriven c = true ∨ c = .Rotate ∨ c = .Flip := by
  intro c
  cases c <;> first | exact Or.inl rfl | exact Or.inr (Or.inl rfl) | exact Or.inr (Or.inr rfl)

/-- class-level programs without Rotate/Flip: the trace is the documented one, for every program and start type -/
theorem class_run_eq_doc : ∀ (prog : List COp) (w : WType),
    (∀ c, COp.mul c ∈ prog → c ≠ .Rotate ∧ c ≠ .Flip) →
    classRun w prog = docRun w (prog.map COp.toOp) := by
  intro prog w h
  apply class_run_eq_doc_partial
  intro c hc
  rcases table_driven_all_but_rotate_flip c with h1 | h1 | h1
  · exact h1
  · exact absurd h1 (h c hc).1
  · exact absurd h1 (h c hc).2

/-- "a refused operation leaves both operands unchanged", structural part: no `multiply` of a public class writes an
attribute of the plane or of the wavefront argument before it delegates to `Plane.multiply` (whose first statement is the
ptype check — enforced by the generator). `Gen.classWritesBeforeSuper` is regenerated from the override bodies. -/
theorem no_write_before_guard : ∀ c, classWritesBeforeSuper c = [] := by
  intro c; cases c <;> rfl

/-- a plane type supplied by the CALLER (`C(…, ptype=p)`, table `Gen.classPtypeWith` regenerated from the constructor chain
`C.__init__ → … → Plane.__init__`): a class either refuses the keyword for every `p` (TypeError at construction: Pupil and
Image fix their type and would hand `ptype` to `Plane.__init__` twice, Rotate and Flip take no such keyword) or takes EXACTLY
the type it is given (Plane, LensletArray and the tilt family Tilt/DispersiveTilt/Grism, whose default `tilt` applies only
when none is given) — no constructor turns a supplied type into another one, so the plane then behaves as the row `p` of the
table (`mul_refused_iff`, `mul_result_type`), and the documented default of every accepting class is among the types it accepts -/
theorem caller_ptype_table :
    (∀ c p q, classPtypeWith c p = some q → q = p) ∧
    (∀ p, classPtypeWith .Plane p = some p ∧ classPtypeWith .LensletArray p = some p ∧ classPtypeWith .Tilt p = some p ∧
          classPtypeWith .DispersiveTilt p = some p ∧ classPtypeWith .Grism p = some p) ∧
    (∀ p, classPtypeWith .Pupil p = none ∧ classPtypeWith .Image p = none ∧ classPtypeWith .Rotate p = none ∧
          classPtypeWith .Flip p = none) ∧
    (∀ c p, (classPtypeWith c p).isSome → classPtypeWith c (classPtype c) = some (classPtype c)) := by
  refine ⟨?_, ?_, ?_, ?_⟩
  · intro c p q h; cases c <;> cases p <;> simp [classPtypeWith] at h <;> exact h.symm
  · intro p; cases p <;> exact ⟨rfl, rfl, rfl, rfl, rfl⟩
  · intro p; cases p <;> exact ⟨rfl, rfl, rfl, rfl⟩
  · intro c p h; cases c <;> cases p <;> first | rfl | (simp [classPtypeWith] at h)

/-- "a refused operation leaves both operands unchanged", structural part for PROPAGATION: neither `propagate_dft` nor
`propagate_fft` writes an attribute or item of its `wavefront` operand, calls an in-place mutator on it, or hands it to a
helper that does (followed into `_has_tilt`), up to and including the `_propagate_ptype` call that raises the TypeError of a
refused propagation — so a refusal by type happens before anything was done to the wavefront. The two lists are regenerated
from the statements of lentil/propagate.py that precede the type check (also through a local alias `x = wavefront`). -/
theorem propagate_no_write_before_guard :
    propDftEffectsBeforeTypeCheck = [] ∧ propFftEffectsBeforeTypeCheck = [] := ⟨rfl, rfl⟩

/-- `propagate_fft` types exactly like `propagate_dft` on a wavefront without fitted tilt, and refuses a tilt-carrying
wavefront of every type with NotImplementedError (checked before the type) — the "dft or fft" of diffraction.rst -/
theorem fft_typing :
    (∀ w, codePropagateFft false w = codePropagate w) ∧ (∀ w, codePropagateFft true w = .refused .notImplementedError) := by
  constructor <;> intro w <;> cases w <;> rfl

/-- KNOWN FINDING witness (KF-C08-rotate-flip), stated so that it stays true when the defect is fixed upstream: IF
`lentil.Rotate` / `lentil.Flip` do not conform, THEN it is because they are not constructed with their documented ptype
or because every application is refused (today: ptype `none` instead of `transform`, and AttributeError on every
wavefront type; today's facts are in the generated `classPtype`/`classMissing` tables and replayed on the real code by
the harness's `replay_finding`) -/
theorem kf_rotate_flip_unusable : ∀ c, (c = .Rotate ∨ c = .Flip) → classConforms c = false →
    docClassPtype c ≠ some (classPtype c) ∨ ∀ w, (classMul c w).isOk = false := by
  intro c hc
  rcases hc with rfl | rfl <;> intro h <;>
    first
    | (left; decide)
    | (right; intro w; cases w <;> rfl)
    | (exfalso; revert h; decide)

/-! ### structure of the generated table (each fact is evaluated on `Gen.codeMul` / `Gen.codePropagate`: an edit of
`_mul_ptype_table` or `_propagate_ptype` that changes it stops the proof) -/

/-- the plane type as a wavefront type, for the two plane types that set one -/
def PType.sets : PType → Option WType
  | .pupil => some .pupil
  | .image => some .image
  | _ => none

/-- "Not allowed", characterised: a product is refused exactly when the wavefront already has a type (pupil or image) and the
plane is an untyped `none` plane or a plane of the OTHER type; an untyped wavefront accepts every plane, and tilt / transform
planes are accepted by every wavefront — whatever ptype the caller constructs the plane with, only this pair matters -/
theorem mul_refused_iff : ∀ w p, (∃ e, codeMul w p = .refused e) ↔
    w ≠ .none ∧ (p = .none ∨ ∃ t, PType.sets p = some t ∧ t ≠ w) := by
  intro w p; cases w <;> cases p <;> simp [codeMul, PType.sets]

/-- the type after an accepted product: a typed wavefront keeps its type; an untyped wavefront takes the type of a pupil or
image plane and stays untyped under every other plane -/
theorem mul_result_type : ∀ w p w', codeMul w p = .ok w' →
    w' = (if w = .none then (PType.sets p).getD .none else w) := by
  intro w p w'; cases w <;> cases p <;> simp [codeMul, PType.sets] <;> exact fun h => h.symm

/-- tilt and transform planes never change the type and are never refused -/
theorem tilt_transform_neutral : ∀ w, codeMul w .tilt = .ok w ∧ codeMul w .transform = .ok w := by
  intro w; cases w <;> exact ⟨rfl, rfl⟩

/-- applying an accepted plane type a second time is accepted and changes nothing more -/
theorem mul_idempotent : ∀ w p w', codeMul w p = .ok w' → codeMul w' p = .ok w' := by
  intro w p w'; cases w <;> cases p <;> cases w' <;> simp [codeMul]

/-- far-field propagation is an involution on the types it accepts: pupil → image → pupil -/
theorem propagate_involutive : ∀ w w', codePropagate w = .ok w' → codePropagate w' = .ok w := by
  intro w w'; cases w <;> cases w' <;> simp [codePropagate]

/-- tilt / transform multiplications can be dropped from ANY program without changing the type it ends in (they are neutral
and never refused): the type bookkeeping of a system does not depend on where its tilts, rotations and flips stand -/
theorem neutral_planes_can_be_dropped : ∀ (prog : List Op) (w : WType),
    finalWith codeMul codePropagate w prog
      = finalWith codeMul codePropagate w (prog.filter fun op => op ≠ .mul .tilt ∧ op ≠ .mul .transform) := by
  intro prog
  induction prog with
  | nil => intro w; rfl
  | cons op rest ih =>
    intro w
    by_cases h : op = .mul .tilt ∨ op = .mul .transform
    · have hn : next w (stepWith codeMul codePropagate w op) = w := by
        rcases h with rfl | rfl
        · simp only [stepWith, (tilt_transform_neutral w).1, next]
        · simp only [stepWith, (tilt_transform_neutral w).2, next]
      have hf : (decide (op ≠ .mul .tilt ∧ op ≠ .mul .transform)) = false := by
        rcases h with rfl | rfl <;> simp
      simp only [finalWith, hn, List.filter_cons, hf]
      exact ih w
    · have hf : (decide (op ≠ .mul .tilt ∧ op ≠ .mul .transform)) = true := by
        simp only [not_or] at h; simp [h.1, h.2]
      simp only [finalWith, List.filter_cons, hf, if_true]
      exact ih _

/-- the documented way to build a system is accepted, for ANY number of tilt-type planes (Tilt, DispersiveTilt, Grism) in the
pupil and in the image space: Pupil, tilts…, propagate, tilts…, Image — every step is accepted from an untyped wavefront and the
wavefront ends as an image -/
theorem standard_system_accepted (t₁ t₂ : List PlaneClass) (h₁ : ∀ c ∈ t₁, classPtype c = .tilt ∧ classCustomMul c = false ∧ classForce c = none)
    (h₂ : ∀ c ∈ t₂, classPtype c = .tilt ∧ classCustomMul c = false ∧ classForce c = none) :
    classRun .none ([.mul .Pupil] ++ t₁.map .mul ++ [.prop] ++ t₂.map .mul ++ [.mul .Image])
      = [.ok .pupil] ++ t₁.map (fun _ => .ok .pupil) ++ [.ok .image] ++ t₂.map (fun _ => .ok .image) ++ [.ok .image] := by
  have tilts : ∀ (w : WType) (t : List PlaneClass) (rest : List COp),
      (∀ c ∈ t, classPtype c = .tilt ∧ classCustomMul c = false ∧ classForce c = none) →
      classRun w (t.map .mul ++ rest) = t.map (fun _ => .ok w) ++ classRun w rest := by
    intro w t rest
    induction t with
    | nil => intro _; rfl
    | cons c t ih =>
      intro h
      obtain ⟨hp, hc, hf⟩ := h c (by simp)
      have hm : classMul c w = .ok w := by
        simp only [classMul, hc, hp, (tilt_transform_neutral w).1, hf]; rfl
      simp only [List.map_cons, List.cons_append, classRun, classStep, hm, next]
      rw [ih (fun c' hc' => h c' (by simp [hc']))]
  have e : [COp.mul .Pupil] ++ t₁.map .mul ++ [.prop] ++ t₂.map .mul ++ [.mul .Image]
      = .mul .Pupil :: (t₁.map .mul ++ (.prop :: (t₂.map .mul ++ [.mul .Image]))) := by simp
  rw [e]
  have hP : classMul .Pupil .none = .ok .pupil := rfl
  simp only [classRun, classStep, hP, next]
  rw [tilts .pupil t₁ _ h₁]
  have hpr : codePropagate .pupil = .ok .image := rfl
  simp only [classRun, classStep, hpr, next]
  rw [tilts .image t₂ _ h₂]
  have hI : classMul .Image .image = .ok .image := rfl
  simp [classRun, classStep, hI]

/-- the three tilt-type classes of today's table satisfy the hypotheses of `standard_system_accepted` -/
example : ∀ c ∈ [PlaneClass.Tilt, .DispersiveTilt, .Grism], classPtype c = .tilt ∧ classCustomMul c = false ∧ classForce c = none := by
  decide

/-- a refused step leaves the wavefront TYPE where it was, and a program of refused steps only ends where it started. A fact
about how the MODEL threads the state through a program (`next`), listed so that the texts can point at it; that the
implementation leaves both operands unchanged on a refusal is carried by `no_write_before_guard` (structure) and the snapshot
oracle (values), not by this theorem. -/
theorem refused_steps_keep_type :
    (∀ w op e, codeStep w op = .refused e → next w (codeStep w op) = w)
    ∧ (∀ (prog : List Op) (w : WType), (∀ r ∈ codeRun w prog, ∃ e, r = .refused e) →
        finalWith codeMul codePropagate w prog = w) := refusal_preserves_state

/-- non-vacuity: a concrete mixed program with accepted and refused steps -/
example : codeRun .none [.mul .pupil, .mul .tilt, .prop, .mul .pupil, .mul .transform, .prop, .mul .none]
    = [.ok .pupil, .ok .pupil, .ok .image, .refused .typeError, .ok .image, .ok .pupil, .refused .typeError] := rfl

example : classRun .none [.mul .Pupil, .mul .Tilt, .mul .Plane, .prop, .mul .Image]
    = [.ok .pupil, .ok .pupil, .refused .typeError, .ok .image, .ok .image] := rfl

end Lentil.C08
