import LentilVerif.Lemmas.Units
import LentilVerif.Lemmas.Spectrum
/-! C14 — unit conversions are consistent; `Spectrum.to` preserves integrals/values; Planck's law is unit-independent.
`Gen.waveTo`, `Gen.fluxTo` are regenerated from lentil/radiometry.py on every run (decimal literals as exact rationals).
Statements over an arbitrary field of characteristic 0 hold in particular over ℚ (what the driver runs) and ℝ. -/
namespace Lentil.C14
open Gen Lentil.Units Lentil.Spec

/-- all 64 triples: converting A→B→C equals converting A→C -/
theorem wave_cocycle {K : Type} [Field K] [CharZero K] :
    ∀ a b c : WUnit, (waveTo a b : K) * waveTo b c = waveTo a c := waveTo_cocycle

/-- A→A is the identity -/
theorem wave_id {K : Type} [Field K] [CharZero K] : ∀ a : WUnit, (waveTo a a : K) = 1 := waveTo_self

/-- every round trip returns the original wavelength -/
theorem wave_round_trip {K : Type} [Field K] [CharZero K] :
    ∀ (a b : WUnit) (x : K), x * waveTo a b * waveTo b a = x := by
  intro a b x; rw [mul_assoc, waveTo_cocycle, waveTo_self, mul_one]

/-- the factors are positive (so conversion keeps a wavelength grid positive and strictly increasing) -/
theorem wave_factor_pos : ∀ a b : WUnit, (0 : ℚ) < waveTo a b := waveTo_pos

/-- all 27 flux triples, as identities of rational functions in flux, wave, H, C -/
theorem flux_cocycle {K : Type} [Field K] [CharZero K] (f w H C : K) (hw : w ≠ 0) (hH : H ≠ 0) (hC : C ≠ 0) :
    ∀ a b c : FUnit, fluxTo b c (fluxTo a b f w H C) w H C = fluxTo a c f w H C := by
  intro a b c; cases a <;> cases b <;> cases c <;> simp only [fluxTo] <;> field_simp <;> ring

theorem flux_id {K : Type} [Field K] (f w H C : K) : ∀ a : FUnit, fluxTo a a f w H C = f := by
  intro a; cases a <;> rfl

theorem flux_round_trip {K : Type} [Field K] [CharZero K] (f w H C : K) (hw : w ≠ 0) (hH : H ≠ 0) (hC : C ≠ 0) :
    ∀ a b : FUnit, fluxTo b a (fluxTo a b f w H C) w H C = f := by
  intro a b; rw [flux_cocycle f w H C hw hH hC, flux_id]

/-- flux conversion is homogeneous of degree one in the flux (used for exitance = π·radiance) -/
theorem flux_homogeneous {K : Type} [Field K] [CharZero K] (p f w H C : K) :
    ∀ a b : FUnit, fluxTo a b (p * f) w H C = p * fluxTo a b f w H C := by
  intro a b; cases a <;> cases b <;> simp only [fluxTo] <;> ring

/-- `Spectrum.to(wave unit)` on a per-wavelength density: the trapezoid integral is unchanged -/
theorem spectrum_to_preserves_trapz_integral (s : USpec) (u : WUnit) (f : FUnit) (h : s.vu = some f) :
    trapz (toWave u s).wave (toWave u s).value = trapz s.wave s.value := by
  simp only [toWave_eq, h]
  exact trapz_scale _ (waveTo_ne_zero _ _) _ _

/-- `Spectrum.to(wave unit)` on a unitless spectrum: the values are unchanged, the wavelengths rescaled -/
theorem spectrum_to_preserves_values (s : USpec) (u : WUnit) (h : s.vu = none) :
    (toWave u s).value = s.value ∧ (toWave u s).wave = s.wave.map (· * waveTo s.wu u) ∧ (toWave u s).vu = none := by
  simp [toWave_eq, h]

/-- wavelength-unit conversions of a spectrum compose (A→B→C = A→C) and round trips restore it -/
theorem spectrum_to_wave_cocycle (s : USpec) (b c : WUnit) : toWave c (toWave b s) = toWave c s := by
  cases hv : s.vu <;>
    simp only [toWave_eq, hv, map_mul_mul, map_div_div, waveTo_cocycle]

theorem spectrum_to_wave_round_trip (s : USpec) (u : WUnit) : toWave s.wu (toWave u s) = s := by
  rw [spectrum_to_wave_cocycle]
  cases hv : s.vu <;> cases s <;> simp_all [toWave_eq, waveTo_self]

/-- converting the wavelength unit keeps a valid grid valid (positive, strictly increasing): the `wave` setter, which the
model does not re-run, cannot refuse the converted grid -/
theorem toWave_valid (s : USpec) (u : WUnit) (h : validWave s.wave = true) : validWave (toWave u s).wave = true := by
  have hk := waveTo_pos s.wu u
  cases hv : s.vu <;> simp only [toWave_eq, hv] <;> exact validWave_map_mul _ _ hk h

/-- flux-unit round trips restore the spectrum (well-formed, non-zero wavelengths) -/
theorem spectrum_to_flux_round_trip (s s' s'' : USpec) (f g : FUnit) (H C : ℚ) (hH : H ≠ 0) (hC : C ≠ 0)
    (hf : s.vu = some f) (hl : s.value.length = s.wave.length) (hw : ∀ w ∈ s.wave, w ≠ 0)
    (h1 : toFlux g H C s = some s') (h2 : toFlux f H C s' = some s'') : s'' = s := by
  simp only [toFlux_eq, hf, Option.some.injEq] at h1
  subst h1
  simp only [toFlux_eq, Option.some.injEq] at h2
  subst h2
  cases s with
  | mk wave value wu vu =>
    simp only at hf hl hw ⊢
    subst hf
    congr
    exact zipWith_round_trip _ _ (· ≠ 0)
      (fun v w hw' => flux_there_and_back v w H C _ _ hw' hH hC (waveTo_ne_zero _ _) (waveTo_ne_zero _ _)
        (by rw [waveTo_cocycle, waveTo_self]) f g) value wave hl hw

/-- flux-unit conversions of a spectrum compose: A→B→C = A→C at the level of `Spectrum.to` (non-zero wavelengths) -/
theorem spectrum_to_flux_cocycle (s s' : USpec) (f g h : FUnit) (H C : ℚ) (hH : H ≠ 0) (hC : C ≠ 0)
    (hf : s.vu = some f) (hw : ∀ w ∈ s.wave, w ≠ 0) (h1 : toFlux g H C s = some s') :
    toFlux h H C s' = toFlux h H C s := by
  simp only [toFlux_eq, hf, Option.some.injEq] at h1
  subst h1
  simp only [toFlux_eq, hf, Option.some.injEq]
  have hkm := waveTo_ne_zero (K := ℚ) s.wu .m
  have hb := waveTo_ne_zero (K := ℚ) .m s.wu
  have hkb : (waveTo .m s.wu : ℚ) * waveTo s.wu .m = 1 := by rw [waveTo_cocycle, waveTo_self]
  congr 1
  apply zipWith_comp _ _ _ (· ≠ 0) _ s.value s.wave hw
  intro v w hw'
  have hW : w * (waveTo s.wu .m : ℚ) ≠ 0 := mul_ne_zero hw' hkm
  have hx : ∀ X : ℚ, X / (waveTo .m s.wu : ℚ) / waveTo s.wu .m = X := by
    intro X; rw [div_div, hkb, div_one]
  simp only [hx]
  rw [flux_cocycle _ _ H C hW hH hC]

/-- multi-argument `Spectrum.to(*units)` (model `applyTo`): two wavelength units in a row act as the last one alone, and a
refused argument leaves the spectrum as the previous arguments left it -/
theorem applyTo_wave_last_wins (H C : ℚ) (s : USpec) (a b : WUnit) :
    applyTo H C s [a.name, b.name] = (toWave b s, none) := by
  have ha : WUnit.ofName? a.name = some a := by cases a <;> rfl
  have hb : WUnit.ofName? b.name = some b := by cases b <;> rfl
  simp only [applyTo, ha, hb, spectrum_to_wave_cocycle]

theorem applyTo_refusal_keeps_prefix (H C : ℚ) (s : USpec) (a : WUnit) (g : FUnit) (h : s.vu = none) :
    applyTo H C s [a.name, g.name] = (toWave a s, some "TypeError") := by
  have ha : WUnit.ofName? a.name = some a := by cases a <;> rfl
  have hg : WUnit.ofName? g.name = none := by cases g <;> rfl
  have hg' : FUnit.ofName? g.name = some g := by cases g <;> rfl
  have hv : (toWave a s).vu = none := by simp [toWave_eq, h]
  simp only [applyTo, ha, hg, hg', toFlux_eq, hv]

/-- a unitless spectrum cannot be given a flux unit: `toFlux` refuses (TypeError). (That the spectrum is left as the
previous arguments left it is `applyTo_refusal_keeps_prefix`; `toFlux` itself returns no state on refusal.) -/
theorem spectrum_to_flux_unitless_refused (s : USpec) (g : FUnit) (H C : ℚ) (h : s.vu = none) :
    toFlux g H C s = none := by simp [toFlux_eq, h]

/-- exitance = π × radiance in every wavelength and flux unit, between the two definitions translated separately from
`planck_exitance` and `planck_radiance` (`exp` uninterpreted): a slip in one of the two functions breaks this proof -/
theorem exitance_eq_pi_radiance {K : Type} [Field K] [CharZero K] (expf : K → K) (pi H C kB w T : K) :
    ∀ (wu : WUnit) (vu : FUnit),
      planckExitance expf pi H C kB w T wu vu = pi * planckRadiance expf pi H C kB w T wu vu := by
  intro wu vu
  cases vu <;> simp only [planckExitance, planckRadiance, fluxTo] <;> ring

/-- Planck's law describes the same physical quantity whichever wavelength unit is requested: the same physical
wavelength expressed in `u'` gives the density per `u'`, i.e. the density per `u` divided by the factor `u→u'` -/
theorem planck_unit_independent {K : Type} [Field K] [CharZero K] (expf : K → K) (pi H C kB w T : K) :
    ∀ (u u' : WUnit) (v : FUnit),
      planckRadiance expf pi H C kB (w * waveTo u u') T u' v = planckRadiance expf pi H C kB w T u v / waveTo u u' ∧
      planckExitance expf pi H C kB (w * waveTo u u') T u' v = planckExitance expf pi H C kB w T u v / waveTo u u' := by
  intro u u' v
  have hm : w * (waveTo u u' : K) * waveTo u' .m = w * waveTo u .m := by rw [mul_assoc, waveTo_cocycle]
  have hb : (waveTo .m u' : K) = waveTo .m u * waveTo u u' := (waveTo_cocycle _ _ _).symm
  have h1 := waveTo_ne_zero (K := K) .m u
  have h2 := waveTo_ne_zero (K := K) u u'
  constructor <;> cases v <;> simp only [planckRadiance, planckExitance, hm, hb] <;> field_simp

/-- … and whichever flux unit: converting the result in unit `v` back to `wlam` gives the `wlam` result -/
theorem planck_flux_unit_independent {K : Type} [Field K] [CharZero K] (expf : K → K) (pi H C kB w T : K)
    (hw : w ≠ 0) (hH : H ≠ 0) (hC : C ≠ 0) :
    ∀ (u : WUnit) (v : FUnit),
      fluxTo v .wlam (planckRadiance expf pi H C kB w T u v * waveTo .m u) (w * waveTo u .m) H C
        = planckRadiance expf pi H C kB w T u .wlam * waveTo .m u := by
  intro u v
  have h1 := waveTo_ne_zero (K := K) .m u
  have h2 := waveTo_ne_zero (K := K) u .m
  cases v <;> simp only [planckRadiance, fluxTo] <;> field_simp <;> simp

/-- `vegaflux` (translated from its own source lines: zero-point table, Jy → W m⁻² Hz⁻¹ → W m⁻² m⁻¹ → photons, unit split):
whatever (waveunit, valueunit) is requested, the flux is the (m, photlam) flux converted by the generated tables — per metre
to per `wu` and photlam to `vu` at the band's wavelength — and the wavelength is the band's wavelength in `wu` -/
theorem vegaflux_unit_consistent {K : Type} [Field K] [CharZero K] (H C : K) :
    ∀ (band : Band) (wu : WUnit) (vu : FUnit),
      (vegaflux H C band wu vu).1 = fluxTo .photlam vu (vegaflux H C band .m .photlam).1 (vegaWave band) H C / waveTo .m wu ∧
      (vegaflux H C band wu vu).2 = vegaWave band * waveTo .m wu := by
  intro band wu vu
  have h1 : (waveTo .m .m : K) = 1 := waveTo_self .m
  cases vu <;> simp only [vegaflux, fluxTo, h1, div_one, and_self, and_true]

/-! ### absolute anchors: the theorems above establish CONSISTENCY of the tables; these fix their absolute scale, so that a
self-consistently wrong table, constant or Planck formula breaks a theorem and not only the oracle -/

/-- metres per unit, written here by hand (the SI prefixes), independently of the generated table -/
def metresPer : WUnit → ℚ
  | .m => 1
  | .um => 1 / 1000000
  | .nm => 1 / 1000000000
  | .angstrom => 1 / 10000000000

/-- every wavelength factor is the ratio of the SI sizes of the two units (with the cocycle this pins all 16 cells) -/
theorem wave_factor_absolute : ∀ a b : WUnit, (waveTo a b : ℚ) = metresPer a / metresPer b := by
  intro a b; cases a <;> cases b <;> norm_num [waveTo, metresPer]

/-- the flux conversions against their physical definitions: a photon of wavelength w carries h·c/w joules; 1 W m⁻² = 10³ erg s⁻¹ cm⁻² -/
theorem flux_factor_absolute {K : Type} [Field K] [CharZero K] (f w H C : K) :
    fluxTo .photlam .wlam f w H C = f * (H * C) / w ∧ fluxTo .wlam .flam f w H C = f * 1000 ∧
    fluxTo .flam .wlam f w H C = f / 1000 := by
  refine ⟨rfl, ?_, ?_⟩ <;> simp only [fluxTo] <;> norm_num <;> ring

/-- the module constants against CODATA 2018 (h = 6.62607015e-34 J s, c = 299792458 m/s, k = 1.380649e-23 J/K): equal to
1e-6 relative or better (h, k are the CODATA 2010 values; c = 299792456 is a typo for …458, 6.7e-9 off — noted) -/
theorem constants_near_codata :
    |(constH : ℚ) - 662607015 / 10 ^ 42| < (662607015 / 10 ^ 42) / 10 ^ 6 ∧
    |(constC : ℚ) - 299792458| < 299792458 / 10 ^ 6 ∧
    |(constK : ℚ) - 1380649 / 10 ^ 29| < (1380649 / 10 ^ 29) / 10 ^ 6 := by
  refine ⟨?_, ?_, ?_⟩ <;> norm_num [constH, constC, constK, abs_lt]

/-- the translated functions ARE Planck's law: in SI units (wavelength in metres, W m⁻² m⁻¹) the radiance is
2hc²/(λ⁵(exp(hc/(λkT)) − 1)) and the exitance 2πhc²/(…) — an edited exponent or constant in both functions stops this proof -/
theorem planck_closed_form {K : Type} [Field K] [CharZero K] (expf : K → K) (pi H C kB w T : K) :
    planckRadiance expf pi H C kB w T .m .wlam = 2 * H * C ^ 2 / (w ^ 5 * (expf (H * C / (w * kB * T)) - 1)) ∧
    planckExitance expf pi H C kB w T .m .wlam = 2 * pi * H * C ^ 2 / (w ^ 5 * (expf (H * C / (w * kB * T)) - 1)) := by
  have h1 : (waveTo .m .m : K) = 1 := waveTo_self .m
  constructor <;> simp only [planckRadiance, planckExitance, h1, mul_one, div_one] <;> norm_num <;> ring

/-- non-vacuity: 700 nm → µm on a `wlam` density, concrete numbers -/
example : toWave .um ⟨[500, 700], [2, 4], .nm, some .wlam⟩ = ⟨[1/2, 7/10], [2000, 4000], .um, some .wlam⟩ := by
  simp [toWave_eq, waveTo]; norm_num

example : trapz [500, 700] [2, 4] = 600 ∧ trapz [1/2, 7/10] [2000, 4000] = (600 : ℚ) := by
  constructor <;> norm_num [trapz]

/-! ### `Spectrum.to(*units)` for ARBITRARY argument lists -/

/-- arguments compose: `to(*l₁, *l₂)` is `to(*l₁)` followed — when nothing was refused — by `to(*l₂)`; after a refusal in `l₁`
the remaining arguments are not looked at and the spectrum stays as the accepted prefix left it -/
theorem applyTo_append (H C : ℚ) (l₁ l₂ : List String) : ∀ s : USpec, applyTo H C s (l₁ ++ l₂) =
    (match applyTo H C s l₁ with
     | (s', none) => applyTo H C s' l₂
     | (s', some e) => (s', some e)) := by
  induction l₁ with
  | nil => intro s; simp [applyTo]
  | cons u rest ih =>
    intro s
    simp only [List.cons_append, applyTo]
    cases WUnit.ofName? u with
    | some w => exact ih _
    | none =>
      dsimp only
      cases FUnit.ofName? u with
      | none => rfl
      | some f =>
        dsimp only
        cases toFlux f H C s with
        | none => rfl
        | some s' => exact ih _

/-- any number of wavelength-unit arguments act as the last one alone (n-ary form of `applyTo_wave_last_wins`) -/
theorem applyTo_waves_last_wins (H C : ℚ) : ∀ (ws : List WUnit) (a : WUnit) (s : USpec),
    applyTo H C s ((a :: ws).map WUnit.name) = (toWave ((a :: ws).getLast (by simp)) s, none) := by
  intro ws
  induction ws with
  | nil => intro a s; have ha : WUnit.ofName? a.name = some a := by cases a <;> rfl
           simp [applyTo, ha]
  | cons b ws ih =>
    intro a s
    have ha : WUnit.ofName? a.name = some a := by cases a <;> rfl
    have := ih b (toWave a s)
    simp only [List.map_cons, applyTo, ha] at this ⊢
    rw [this, spectrum_to_wave_cocycle]
    simp [List.getLast_cons]

/-- an argument that names neither a wavelength unit nor a flux unit is a ValueError wherever it stands in the list; the
spectrum is left as the arguments before it left it and the arguments after it are ignored -/
theorem applyTo_unknown_stops (H C : ℚ) (s s' : USpec) (l₁ l₂ : List String) (u : String)
    (hw : WUnit.ofName? u = none) (hf : FUnit.ofName? u = none) (h : applyTo H C s l₁ = (s', none)) :
    applyTo H C s (l₁ ++ u :: l₂) = (s', some "ValueError") := by
  rw [applyTo_append, h]
  simp [applyTo, hw, hf]

/-- wavelength-unit and flux-unit conversion of a spectrum commute (no hypotheses: the flux conversion is carried out in
metres whatever the wavelength unit) -/
theorem spectrum_to_wave_flux_commute (s : USpec) (u : WUnit) (g : FUnit) (H C : ℚ) :
    toFlux g H C (toWave u s) = (toFlux g H C s).map (toWave u) := by
  cases hv : s.vu with
  | none => simp [toFlux_eq, toWave_eq, hv]
  | some f =>
    have h1 : (waveTo s.wu u : ℚ) * waveTo u .m = waveTo s.wu .m := waveTo_cocycle _ _ _
    have h2 : (waveTo .m s.wu : ℚ) * waveTo s.wu u = waveTo .m u := waveTo_cocycle _ _ _
    simp only [toFlux_eq, toWave_eq, hv, Option.map_some, Option.some.injEq, List.zipWith_map, List.map_zipWith]
    congr 1
    congr 1
    funext v w
    rw [div_div, mul_assoc, h1, ← h2, div_div]

/-- an argument of `Spectrum.to`: a wavelength unit or a flux unit -/
abbrev ToArg := WUnit ⊕ FUnit
def ToArg.name : ToArg → String
  | .inl w => w.name
  | .inr f => f.name
/-- the last wavelength unit among the arguments (`d` if there is none); likewise the last flux unit -/
def lastW : List ToArg → WUnit → WUnit
  | [], d => d
  | .inl w :: l, _ => lastW l w
  | .inr _ :: l, d => lastW l d
def lastF : List ToArg → FUnit → FUnit
  | [], d => d
  | .inl _ :: l, d => lastF l d
  | .inr f :: l, _ => lastF l f

/-- NORMAL FORM of `Spectrum.to(*units)` on a per-wavelength density for an arbitrary list of valid unit names, wavelength and flux
units in any order and number: nothing is refused, and the result is the spectrum converted ONCE to the last flux unit named
and ONCE to the last wavelength unit named (its own units where none is named) — the order of the arguments and all the
intermediate conversions do not matter. (Well-formed spectrum with non-zero wavelengths; h, c ≠ 0.) -/
theorem applyTo_normal_form (H C : ℚ) (hH : H ≠ 0) (hC : C ≠ 0) : ∀ (l : List ToArg) (s : USpec) (f : FUnit),
    s.vu = some f → s.value.length = s.wave.length → (∀ w ∈ s.wave, w ≠ 0) →
    ∃ s₁, toFlux (lastF l f) H C s = some s₁ ∧ applyTo H C s (l.map ToArg.name) = (toWave (lastW l s.wu) s₁, none) := by
  intro l
  induction l with
  | nil =>
    intro s f hf hl hw
    obtain ⟨s', h1⟩ : ∃ s', toFlux f H C s = some s' := by simp [toFlux_eq, hf]
    have h2 := spectrum_to_flux_cocycle s s' f f f H C hH hC hf hw h1
    have h3 := spectrum_to_flux_round_trip s s' s' f f H C hH hC hf hl hw h1 (by rw [h2, h1])
    refine ⟨s, by simp only [lastF]; rw [h1, h3], ?_⟩
    have : toWave s.wu s = s := by
      have := spectrum_to_wave_round_trip s s.wu
      rwa [spectrum_to_wave_cocycle] at this
    simp [applyTo, lastW, this]
  | cons a l ih =>
    intro s f hf hl hw
    cases a with
    | inl a =>
      have ha : WUnit.ofName? a.name = some a := by cases a <;> rfl
      have hf' : (toWave a s).vu = some f := by simp [toWave_eq, hf]
      have hl' : (toWave a s).value.length = (toWave a s).wave.length := by simp [toWave_eq, hf, hl]
      have hw' : ∀ w ∈ (toWave a s).wave, w ≠ 0 := by
        simp only [toWave_eq, hf, List.mem_map]
        rintro w ⟨x, hx, rfl⟩
        exact mul_ne_zero (hw x hx) (waveTo_ne_zero _ _)
      obtain ⟨s₁, e1, e2⟩ := ih (toWave a s) f hf' hl' hw'
      rw [spectrum_to_wave_flux_commute] at e1
      cases hs : toFlux (lastF l f) H C s with
      | none => rw [hs] at e1; simp at e1
      | some s₀ =>
        rw [hs] at e1
        simp only [Option.map_some, Option.some.injEq] at e1
        refine ⟨s₀, by simpa [lastF] using hs, ?_⟩
        simp only [List.map_cons, ToArg.name, applyTo, ha, lastW]
        rw [e2, ← e1, spectrum_to_wave_cocycle]
        simp [toWave_eq, hf]
    | inr g =>
      have hg : WUnit.ofName? g.name = none := by cases g <;> rfl
      have hg' : FUnit.ofName? g.name = some g := by cases g <;> rfl
      obtain ⟨s', h1⟩ : ∃ s', toFlux g H C s = some s' := by simp [toFlux_eq, hf]
      have hs' : s'.vu = some g ∧ s'.wave = s.wave ∧ s'.wu = s.wu ∧ s'.value.length = s'.wave.length := by
        simp only [toFlux_eq, hf, Option.some.injEq] at h1
        subst h1
        simp [hl]
      obtain ⟨s₁, e1, e2⟩ := ih s' g hs'.1 hs'.2.2.2 (by rw [hs'.2.1]; exact hw)
      rw [spectrum_to_flux_cocycle s s' f g _ H C hH hC hf hw h1] at e1
      refine ⟨s₁, by simpa [lastF] using e1, ?_⟩
      simp only [List.map_cons, ToArg.name, applyTo, hg, hg', h1, lastW]
      rw [e2, hs'.2.2.1]

/-- `Unit(name)` (regenerated dispatch `Gen.unitOfName`): the canonical name of every wavelength and flux unit — the names
the conversion tables `waveTo`/`fluxTo` are indexed by — resolves to the class carrying exactly that name, so a spectrum built
with unit `u` reports unit `u` and converts with `u`'s row of the table -/
theorem unit_canonical_names_fixed :
    (∀ u : WUnit, Gen.unitOfName u.name = some u.name) ∧ (∀ f : FUnit, Gen.unitOfName f.name = some f.name) := by
  refine ⟨fun u => ?_, fun f => ?_⟩
  · cases u <;> rfl
  · cases f <;> rfl

/-- the documented aliases (table in `Unit`'s docstring: ``m``/``meter``, ``um``/``micron``, ``nm``/``nanometer``) resolve to
the same unit as the canonical name, and every accepted name resolves to a unit of one of the two tables (nothing else is
accepted by `Unit`): wavelength and flux names do not collide -/
theorem unit_aliases_resolve :
    Gen.unitOfName "meter" = Gen.unitOfName "m" ∧ Gen.unitOfName "micron" = Gen.unitOfName "um" ∧
    Gen.unitOfName "nanometer" = Gen.unitOfName "nm" ∧
    (∀ n ∈ Gen.unitNames, ∃ c, Gen.unitOfName n = some c ∧ Gen.unitOfName c = some c ∧
        ((WUnit.ofName? c).isSome ≠ (FUnit.ofName? c).isSome)) ∧
    (∀ n, n ∉ Gen.unitNames → Gen.unitOfName n = none) := by
  refine ⟨rfl, rfl, rfl, by decide, ?_⟩
  intro n hn
  simp only [Gen.unitNames, List.mem_cons, List.not_mem_nil, or_false, not_or] at hn
  unfold Gen.unitOfName
  split <;> simp_all

/-- the unit a spectrum REPORTS is always a name `Spectrum.to` converts to: whatever accepted spelling a spectrum was built
with (`Gen.reportedUnit`, from the `waveunit`/`valueunit` setters and getters: `Unit(name).name`), the reported name is one
of the names `to` dispatches on (`Gen.toWaveNames`/`toFluxNames`, read from `Spectrum.to`), which are exactly the canonical
names of the two conversion tables — so `s.to(t.waveunit)` / `s.to(t.valueunit)` is never refused for a unit some spectrum
carries; the aliases `Unit` accepts are NOT among `to`'s names (the documented discrepancy, as a fact about today's code) -/
theorem reported_units_are_to_targets :
    (∀ n ∈ Gen.unitNames, ∃ c, Gen.reportedUnit n = some c ∧ c ∈ Gen.toWaveNames ++ Gen.toFluxNames) ∧
    Gen.toWaveNames = WUnit.all.map WUnit.name ∧ Gen.toFluxNames = FUnit.all.map FUnit.name ∧
    (∀ u : WUnit, Gen.reportedUnit u.name = some u.name) ∧ (∀ f : FUnit, Gen.reportedUnit f.name = some f.name) ∧
    Gen.reportedUnit "micron" = some "um" ∧ ("micron" ∈ Gen.unitNames ∧ "micron" ∉ Gen.toWaveNames ++ Gen.toFluxNames) := by
  refine ⟨by decide, rfl, rfl, fun u => by cases u <;> decide, fun f => by cases f <;> decide, by decide, by decide⟩

/-- non-vacuity / instance: `to('um', 'flam', 'nm', 'wlam', 'angstrom')` = flux → wlam once, wavelengths → angstrom once -/
example (H C : ℚ) (hH : H ≠ 0) (hC : C ≠ 0) (s : USpec) (f : FUnit) (hf : s.vu = some f) (hl : s.value.length = s.wave.length)
    (hw : ∀ w ∈ s.wave, w ≠ 0) : ∃ s₁, toFlux .wlam H C s = some s₁ ∧
      applyTo H C s ["um", "flam", "nm", "wlam", "angstrom"] = (toWave .angstrom s₁, none) :=
  applyTo_normal_form H C hH hC [.inl .um, .inr .flam, .inl .nm, .inr .wlam, .inl .angstrom] s f hf hl hw

end Lentil.C14
