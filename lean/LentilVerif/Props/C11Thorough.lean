import LentilVerif.Props.C11
import LentilVerif.Lemmas.ZernikeGramLink
import LentilVerif.Lemmas.ZernikeTables40
/-! # C11, thorough tier — orthonormality for every mode the implementation can evaluate (n ≤ 40, j ≤ 861)

Built and audited only by the thorough tier of tools/harness/c11.py (the integer Gram table takes minutes). -/
namespace Lentil.C11
open Lentil

/-- the radial Gram table for all n, n' ≤ 40 -/
theorem gramUpTo_40 : GramUpTo 40 :=
  fun n n' m hn hn' hm hm' h h' => gramQ_of_allGram 40 allGram_40 n n' m hn hn' hm hm' h h'

/-- **orthonormality of the model's modes, all pairs among the first 861 modes (n ≤ 40)** -/
theorem zernike_orthonormal_40 (j j' : Nat) (hj : 1 ≤ j) (hj' : 1 ≤ j') (hn : nollN j ≤ 40) (hn' : nollN j' ≤ 40) :
    diskMean (fun ρ θ => zReal j ρ θ * zReal j' ρ θ) = if j = j' then 1 else 0 :=
  zernike_orthonormal_of 40 gramUpTo_40 j j' hj hj' hn hn'

/-- … and as an area mean over the unit disk -/
theorem zernike_orthonormal_area_40 (j j' : Nat) (hj : 1 ≤ j) (hj' : 1 ≤ j') (hn : nollN j ≤ 40) (hn' : nollN j' ≤ 40) :
    (1 / Real.pi) * ∫ q in unitDisk, zReal j (polarCoord q).1 (polarCoord q).2 * zReal j' (polarCoord q).1 (polarCoord q).2
      = if j = j' then 1 else 0 := zernike_orthonormal_area_of 40 gramUpTo_40 j j' hj hj' hn hn'

/-- **|R_n^m| ≤ 1 on [−1, 1] for every valid (n, m) with n ≤ 40** — every mode the implementation can evaluate -/
theorem radial_abs_le_one_40 (n m : Nat) (hn : n ≤ 40) (hm : m ≤ n) (h : (n - m) % 2 = 0) (x : ℝ) (h0 : -1 ≤ x) (h1 : x ≤ 1) :
    |radialEval n m x| ≤ 1 :=
  radialCheb_sound n m h (radialCheb_of_all 40 allCheb_40 n m hn hm h) x h0 h1

/-- … hence `|Z_j| ≤ 1` without normalisation on the unit disk for all 861 modes -/
theorem raw_mode_abs_le_one_40 (j : Nat) (hj : 1 ≤ j) (hn : nollN j ≤ 40) (ρ θ : ℝ) (h0 : 0 ≤ ρ) (h1 : ρ ≤ 1) :
    |zernAt (fun k => Real.sqrt k) Real.cos Real.sin j false ρ θ true| ≤ 1 := by
  obtain ⟨v1, v2, -⟩ := noll_valid j hj
  exact le_trans (raw_mode_le_radial j ρ θ) (radial_abs_le_one_40 _ _ hn v1 v2 ρ (by linarith) h1)

end Lentil.C11
