import LentilVerif.Props.C11
import LentilVerif.Lemmas.ZernikeGramLink
import LentilVerif.Lemmas.ZernikeTables40
/-! # C11, thorough tier — orthonormality for every mode the implementation can evaluate (n ≤ 40, j ≤ 861)

Built and audited only by the thorough tier of tools/harness/c11.py (the integer Gram table takes minutes). -/
namespace Lentil.C11
open Lentil

/-- the radial Gram table for all n, n' ≤ 40 -/
theorem gramUpTo_40 : GramUpTo 40 :=
  fun n n' m hn hn' hm hm' h h' => gramQ_of_allGram 40 allGram_40 n n' m hn hn' hm hm' h h'

/-- **orthonormality of the model's modes, all pairs among the first 861 modes (n ≤ 40)** -/
theorem zernike_orthonormal_40 (j j' : Nat) (hj : 1 ≤ j) (hj' : 1 ≤ j') (hn : nollN j ≤ 40) (hn' : nollN j' ≤ 40) :
    diskMean (fun ρ θ => zReal j ρ θ * zReal j' ρ θ) = if j = j' then 1 else 0 :=
  zernike_orthonormal_of 40 gramUpTo_40 j j' hj hj' hn hn'

/-- … and as an area mean over the unit disk -/
theorem zernike_orthonormal_area_40 (j j' : Nat) (hj : 1 ≤ j) (hj' : 1 ≤ j') (hn : nollN j ≤ 40) (hn' : nollN j' ≤ 40) :
    (1 / Real.pi) * ∫ q in unitDisk, zReal j (polarCoord q).1 (polarCoord q).2 * zReal j' (polarCoord q).1 (polarCoord q).2
      = if j = j' then 1 else 0 := zernike_orthonormal_area_of 40 gramUpTo_40 j j' hj hj' hn hn'

end Lentil.C11
