import LentilVerif.Lemmas.Spectrum
import LentilVerif.Lemmas.Units
import LentilVerif.Lemmas.SpecArith
import LentilVerif.Lemmas.SpecScale
import LentilVerif.Lemmas.SpecValueScale
/-! C13 — spectrum arithmetic is pointwise, commutative, unit-agnostic. Statements about `Model/SpecArith.lean`
(tied to `Spectrum._ufunc` / `_interp_common` by the correspondence), for every binary operator `op`. -/
namespace Lentil.C13
open Lentil.Spec Lentil.Units Gen

/-- (structural, close to the model's definition) the result's values are `op(S₁(g), S₂(g))` at every point `g` of the common
grid, where `Sᵢ = operandAt sᵢ …`; what `Sᵢ` *is* — the mathematical linear interpolant inside the operand's range, the fill
value outside — is `operand_is_interpolant` below. For every operator. -/
theorem ufunc_pointwise (op : ℚ → ℚ → ℚ) (s1 s2 : Spectrum) (m : Sampling) (fill : ℚ) (r : Spectrum)
    (h : ufunc op s1 s2 m fill = .ok r) :
    ∃ lo1 hi1 lo2 hi2 dw, minL s1.wave = some lo1 ∧ maxL s1.wave = some hi1 ∧ minL s2.wave = some lo2 ∧
      maxL s2.wave = some hi2 ∧ samplingOf m s1.wave s2.wave = some dw ∧
      r.wave = commonGrid (min lo1 lo2) (max hi1 hi2) dw ∧
      r.value = r.wave.map (fun g => op (operandAt s1 lo1 hi1 (gridTol dw) fill g) (operandAt s2 lo2 hi2 (gridTol dw) fill g)) := by
  simp only [ufunc, interpCommon] at h
  split at h
  · cases h
  · rename_i g v1 v2 hg
    split at hg
    · rename_i lo1 hi1 lo2 hi2 h1 h2 h3 h4
      split at hg
      · cases hg
      · rename_i dw hdw
        simp only [Except.ok.injEq, Prod.mk.injEq] at hg h
        obtain ⟨rfl, rfl, rfl⟩ := hg
        subst h
        refine ⟨lo1, hi1, lo2, hi2, dw, h1, h2, h3, h4, hdw, rfl, ?_⟩
        simp [List.zipWith_map_left, List.zipWith_map_right, List.zipWith_self]
    · cases hg

/-- inside the operand's own range `Sᵢ(g)` is its linear interpolant at `g` … -/
theorem operand_inside (s : Spectrum) (lo hi tol fill g : ℚ) (ht : 0 ≤ tol) (h1 : lo ≤ g) (h2 : g ≤ hi) :
    operandAt s lo hi tol fill g = interpAt s.wave s.value fill fill g := by
  have a : lo - tol ≤ g := by linarith
  have b : g ≤ hi + tol := by linarith
  have c1 : ¬ g < lo := not_lt.mpr h1
  have c2 : ¬ hi < g := not_lt.mpr h2
  simp [operandAt, a, b, clip, c1, c2]

/-- … and outside it (beyond the `1e-9·Δ` guard) the fill value -/
theorem operand_outside (s : Spectrum) (lo hi tol fill g : ℚ) (h : g < lo - tol ∨ hi + tol < g) :
    operandAt s lo hi tol fill g = fill := by
  rcases h with h | h
  · have : ¬ lo - tol ≤ g := not_le.mpr h
    simp [operandAt, this]
  · have : ¬ g ≤ hi + tol := not_le.mpr h
    simp [operandAt, this]

/-- "the result is a new *spectrum*": the common grid is a valid wavelength grid (positive, strictly increasing — the
`Spectrum` constructor cannot refuse it) and carries one value per wavelength -/
theorem ufunc_result_valid (op : ℚ → ℚ → ℚ) (s1 s2 : Spectrum) (m : Sampling) (fill : ℚ) (r : Spectrum)
    (h : ufunc op s1 s2 m fill = .ok r) (lo1 hi1 lo2 hi2 dw : ℚ)
    (h1 : minL s1.wave = some lo1) (h2 : maxL s1.wave = some hi1) (h3 : minL s2.wave = some lo2) (h4 : maxL s2.wave = some hi2)
    (hs : samplingOf m s1.wave s2.wave = some dw) (hdw : 0 < dw) (hpos : 0 < min lo1 lo2)
    (hspan : gridTol dw < max hi1 hi2 - min lo1 lo2) :
    validWave r.wave = true ∧ r.wave.length = r.value.length := by
  obtain ⟨a1, b1, a2, b2, d, e1, e2, e3, e4, e5, hw, hv⟩ := ufunc_pointwise op s1 s2 m fill r h
  rw [h1] at e1; rw [h2] at e2; rw [h3] at e3; rw [h4] at e4; rw [hs] at e5
  cases e1; cases e2; cases e3; cases e4; cases e5
  have hN := gridNum_pos _ _ _ hdw hspan
  constructor
  · rw [hw, commonGrid_eq _ _ _ (by omega)]
    have htol : 0 ≤ gridTol dw := by rw [gridTol_eq]; exact div_nonneg (le_of_lt hdw) (by norm_num)
    exact linspace_valid _ _ _ hpos (by linarith) (by omega)
  · rw [hv]; simp


/-- the operands seen from a grid point, against the *mathematical* interpolant (`IsLinInterp`, defined in
Lemmas/SpecArith.lean by the segment formula, without reference to the model's `seg`/`interpAt`/`operandAt`): inside the
operand's own range `Sᵢ(g)` is the value at `g` of the piecewise-linear function through its samples; beyond the
`1e-9·Δ` guard it is the fill value. With `ufunc_pointwise` (result = op(S₁(g), S₂(g)) on the grid) this is the
property's "operation applied to each operand's interpolated value, fill where an operand is not defined" -/
theorem operand_is_interpolant (s : Spectrum) (hwf : WF s) (h2 : 2 ≤ s.wave.length) (lo hi tol fill g : ℚ)
    (hlo : minL s.wave = some lo) (hhi : maxL s.wave = some hi) (ht : 0 ≤ tol) :
    (lo ≤ g → g ≤ hi → IsLinInterp s.wave s.value g (operandAt s lo hi tol fill g)) ∧
    (g < lo - tol ∨ hi + tol < g → operandAt s lo hi tol fill g = fill) := by
  constructor
  · intro h1 h3
    have a : lo - tol ≤ g := by linarith
    have b : g ≤ hi + tol := by linarith
    have c1 : ¬ g < lo := not_lt.mpr h1
    have c2 : ¬ hi < g := not_lt.mpr h3
    rw [minL_eq_head _ hwf.1] at hlo
    rw [maxL_eq_getLast _ hwf.1] at hhi
    have : operandAt s lo hi tol fill g = seg s.wave s.value g := by
      simp [operandAt, a, b, clip, c1, c2, interpAt, hlo, hhi]
    rw [this]
    exact seg_spec s.wave s.value g lo hi hwf.2 h2 hwf.1 hlo hhi h1 h3
  · intro h
    rcases h with h | h
    · have : ¬ lo - tol ≤ g := not_le.mpr h
      simp [operandAt, this]
    · have : ¬ g ≤ hi + tol := not_le.mpr h
      simp [operandAt, this]

/-- the grid is uniform with step (max−min)/N, and the step does not exceed the requested sampling Δ (up to the guard's
1e-9·Δ/N): consecutive grid points are `mn + i·h`, `h = (mx−mn)/N ≤ Δ + tol/N` -/
theorem grid_step_le_requested (mn mx dw : ℚ) (hdw : 0 < dw) (hN : 1 ≤ (gridNum mn mx dw).toNat) :
    (∀ i, i < (gridNum mn mx dw).toNat →
        (commonGrid mn mx dw)[i]? = some (mn + (i : ℚ) * ((mx - mn) / ((gridNum mn mx dw).toNat : ℚ))) ∧
        (commonGrid mn mx dw)[i + 1]? = some (mn + ((i + 1 : ℕ) : ℚ) * ((mx - mn) / ((gridNum mn mx dw).toNat : ℚ)))) ∧
    (mx - mn) / ((gridNum mn mx dw).toNat : ℚ) ≤ dw + gridTol dw / ((gridNum mn mx dw).toNat : ℚ) := by
  set N := (gridNum mn mx dw).toNat with hNdef
  have hn : ¬ (N + 1 = 1) := by omega
  constructor
  · intro i hi
    rw [commonGrid_eq mn mx dw (by omega)]
    unfold linspace
    rw [← hNdef, if_neg hn]
    simp only [List.getElem?_map, Nat.add_sub_cancel]
    constructor
    · rw [List.getElem?_range (by omega)]; simp
    · rw [List.getElem?_range (by omega)]; simp
  · have hNpos : (0 : ℚ) < (N : ℚ) := by exact_mod_cast (by omega : 0 < N)
    have hceil : (mx - mn - gridTol dw) / dw ≤ ((gridNum mn mx dw : Int) : ℚ) := by
      rw [gridNum_eq]; exact Rat.le_ceil
    have hcast : ((gridNum mn mx dw : Int) : ℚ) = (N : ℚ) := by
      have : (gridNum mn mx dw) = (N : Int) := by
        rw [hNdef]; exact (Int.toNat_of_nonneg (by omega)).symm
      rw [this]; simp
    rw [hcast] at hceil
    rw [div_le_iff₀ hdw] at hceil
    rw [div_le_iff₀ hNpos, add_mul, div_mul_cancel₀ _ (ne_of_gt hNpos)]
    linarith


/-- the size of the common grid does not depend on the unit the wavelengths are expressed in: scaling both ends and the
sampling by k > 0 leaves the number of intervals unchanged (so no absolute cap or tolerance can enter) -/
theorem grid_size_scale_invariant (mn mx dw k : ℚ) (hk : 0 < k) (hdw : dw ≠ 0) :
    gridNum (mn * k) (mx * k) (dw * k) = gridNum mn mx dw := gridNum_scale mn mx dw k hk hdw

/-- the grid starts at the smaller of the two minima, has `ceil((max−min−tol)/Δ)+1` points … -/
theorem grid_spans_union_start (mn mx dw : ℚ) (h0 : 0 ≤ gridNum mn mx dw) :
    (commonGrid mn mx dw).head? = some mn ∧ (commonGrid mn mx dw).length = (gridNum mn mx dw).toNat + 1 := by
  rw [commonGrid_eq mn mx dw h0]
  unfold linspace
  split
  · simp_all
  · rename_i hn
    constructor
    · cases hN : (gridNum mn mx dw).toNat with
      | zero => simp [hN] at hn
      | succ k => simp [List.range_succ_eq_map]
    · simp

/-- … and ends at the larger of the two maxima -/
theorem grid_spans_union_end (mn mx dw : ℚ) (h : 1 ≤ (gridNum mn mx dw).toNat) :
    (commonGrid mn mx dw).getLast? = some mx := by
  rw [commonGrid_eq mn mx dw (by omega)]
  unfold linspace
  have hn : ¬ ((gridNum mn mx dw).toNat + 1 = 1) := by omega
  rw [if_neg hn, List.getLast?_map, List.getLast?_range]
  rw [if_neg (by omega)]
  simp only [Option.map_some]
  have hk : (((gridNum mn mx dw).toNat + 1 - 1 : ℕ) : ℚ) ≠ 0 := by
    have : (gridNum mn mx dw).toNat + 1 - 1 ≠ 0 := by omega
    exact_mod_cast this
  congr 1
  field_simp
  ring

/-- commutativity: for every commutative operator (addition, multiplication) `a ∘ b = b ∘ a`, with `left`↔`right`
sampling swapped accordingly -/
theorem op_comm (op : ℚ → ℚ → ℚ) (hc : ∀ a b, op a b = op b a) (s1 s2 : Spectrum) (m : Sampling) (fill : ℚ) :
    ufunc op s2 s1 m.swap fill = ufunc op s1 s2 m fill := by
  simp only [ufunc, interpCommon, samplingOf_swap]
  cases minL s1.wave <;> cases maxL s1.wave <;> cases minL s2.wave <;> cases maxL s2.wave <;> try rfl
  rename_i lo1 hi1 lo2 hi2
  simp only []
  cases samplingOf m s1.wave s2.wave with
  | none => rfl
  | some dw =>
    simp only [interpMin_eq, interpMax_eq, min_comm lo2 lo1, max_comm hi2 hi1]
    congr 1
    congr 1
    exact List.zipWith_comm_of_comm hc

theorem add_comm (s1 s2 : Spectrum) (m : Sampling) (fill : ℚ) :
    ufunc (· + ·) s2 s1 m.swap fill = ufunc (· + ·) s1 s2 m fill := op_comm _ (fun a b => _root_.add_comm a b) s1 s2 m fill

theorem mul_comm (s1 s2 : Spectrum) (m : Sampling) (fill : ℚ) :
    ufunc (· * ·) s2 s1 m.swap fill = ufunc (· * ·) s1 s2 m fill := op_comm _ (fun a b => _root_.mul_comm a b) s1 s2 m fill

/-- unit invariance of spectrum arithmetic, core statement: expressing both operands' wavelengths (and a numeric sampling)
in another unit — a factor k > 0 — rescales the result's grid by k and leaves its values unchanged, for every operator -/
theorem ufunc_scale (op : ℚ → ℚ → ℚ) (k : ℚ) (hk : 0 < k) (s1 s2 : Spectrum) (m : Sampling) (fill : ℚ)
    (hdw : ∀ dw, samplingOf m s1.wave s2.wave = some dw → dw ≠ 0) :
    ufunc op (scaleS k s1) (scaleS k s2) (m.scale k) fill = (ufunc op s1 s2 m fill).map (scaleS k) := by
  simp only [ufunc, interpCommon_scale k hk s1 s2 m fill hdw]
  cases interpCommon s1 s2 m fill with
  | error e => rfl
  | ok r => obtain ⟨g, v1, v2⟩ := r; rfl


/-- unit invariance for unitless spectra at the level the driver runs (`ufuncU`, each operand in its own wavelength unit):
re-expressing BOTH operands in any unit `u` (a numeric sampling re-expressed with them) gives the same result re-expressed
in `u` — same values, grid rescaled by the unit factor. (For density spectra a numeric fill value is a number per the left
operand's unit, so the clause is claimed for fill 0 only — see ASSUMPTIONS — and is checked by the oracle.) -/
theorem unit_invariance_unitless (op : ℚ → ℚ → ℚ) (s1 s2 : USpec) (h1 : s1.vu = none) (h2 : s2.vu = none) (u : WUnit)
    (m : Sampling) (fill : ℚ)
    (hdw : ∀ dw, samplingOf m s1.wave (if s2.wu = s1.wu then s2 else toWave s1.wu s2).wave = some dw → dw ≠ 0) :
    ufuncU op (toWave u s1) (toWave u s2) (m.scale (waveTo s1.wu u)) fill = (ufuncU op s1 s2 m fill).map (toWave u) := by
  have hk := waveTo_pos s1.wu u
  -- the right operand as the operation sees it, before and after re-expressing
  have hs2 : ∀ t : USpec, t.vu = none → ∀ a : WUnit, (toWave a t).wave = t.wave.map (· * waveTo t.wu a) ∧ (toWave a t).value = t.value
      ∧ (toWave a t).wu = a ∧ (toWave a t).vu = none := by
    intro t ht a; simp [toWave_eq, ht]
  obtain ⟨w1, v1, _, _⟩ := hs2 s1 h1 u
  set s2' := (if s2.wu = s1.wu then s2 else toWave s1.wu s2) with hs2'
  have hs2'w : s2'.wave = s2.wave.map (· * waveTo s2.wu s1.wu) ∧ s2'.value = s2.value := by
    by_cases h : s2.wu = s1.wu
    · simp only [hs2', h, if_true]; rw [← h, waveTo_self]; simp
    · simp only [hs2', h, if_false]; exact ⟨(hs2 s2 h2 s1.wu).1, (hs2 s2 h2 s1.wu).2.1⟩
  -- after re-expressing both in u the two units coincide, so no further conversion happens
  have e2 : (if (toWave u s2).wu = (toWave u s1).wu then toWave u s2 else toWave (toWave u s1).wu (toWave u s2)) = toWave u s2 := by
    simp [(hs2 s1 h1 u).2.2.1, (hs2 s2 h2 u).2.2.1]
  have hwave2 : (toWave u s2).wave = s2'.wave.map (· * waveTo s1.wu u) := by
    rw [(hs2 s2 h2 u).1, hs2'w.1, map_mul_mul, waveTo_cocycle]
  simp only [ufuncU, e2]
  have key := ufunc_scale op (waveTo s1.wu u) hk ⟨s1.wave, s1.value⟩ ⟨s2'.wave, s2'.value⟩ m fill hdw
  simp only [scaleS] at key
  rw [w1, v1, hwave2, (hs2 s2 h2 u).2.1, ← hs2'w.2, key]
  cases ufunc op ⟨s1.wave, s1.value⟩ ⟨s2'.wave, s2'.value⟩ m fill with
  | error e => rfl
  | ok r => simp [Except.map, toWave_eq, h1, (hs2 s1 h1 u).2.2.1, (hs2 s1 h1 u).2.2.2, scaleS, Gen.ufuncResultWaveUnitFromSelf, Gen.ufuncResultValueUnitFromSelf]

/-- "both operands still describe the same physical spectrum afterwards", structural part (regenerated from `Spectrum._ufunc`):
the right operand is brought to the left operand's unit on a COPY, `_ufunc` assigns no attribute of `self`, and the result
carries the left operand's wavelength and value units. (That nothing else touches the operands is the snapshot oracle.) -/
theorem operands_unchanged_structural :
    Gen.ufuncConvertsCopy = true ∧ Gen.ufuncWritesSelf = false ∧
    Gen.ufuncResultWaveUnitFromSelf = true ∧ Gen.ufuncResultValueUnitFromSelf = true := ⟨rfl, rfl, rfl, rfl⟩

/-- which operand kinds `Spectrum._ufunc` combines element-wise on the unchanged grid (regenerated from its `isinstance` tuple):
Python numbers, NumPy scalars of every type (`np.generic`), lists/tuples and arrays -/
theorem scalar_kinds_include_numpy :
    "int" ∈ Gen.ufuncElementwiseTypes ∧ "float" ∈ Gen.ufuncElementwiseTypes ∧ "np.generic" ∈ Gen.ufuncElementwiseTypes ∧
    "np.ndarray" ∈ Gen.ufuncElementwiseTypes ∧ "list" ∈ Gen.ufuncElementwiseTypes := by decide

/-- scalar and equal-length vector operands act element-wise on the unchanged wavelength grid -/
theorem scalar_vector_elementwise (op : ℚ → ℚ → ℚ) (s : Spectrum) (c : ℚ) (v : List ℚ) (hv : v.length = s.value.length) :
    (ufuncScalar op s c).wave = s.wave ∧ (ufuncScalar op s c).value = s.value.map (op · c) ∧
    ufuncVector op s v = .ok ⟨s.wave, List.zipWith op s.value v⟩ := by
  refine ⟨rfl, rfl, ?_⟩
  simp [ufuncVector, hv]

/-- Tᵖ (unit hand-over): the operation sees the right operand in the left operand's unit — giving it in any unit is the
same as giving it already converted — and the result carries the left operand's units. Gap (oracle only): the full
`unit_invariance`, i.e. that re-expressing *both* operands in another unit rescales the result's grid by the unit
factor and leaves its values unchanged. -/
theorem unit_handover_partial (op : ℚ → ℚ → ℚ) (s1 s2 : USpec) (m : Sampling) (fill : ℚ) :
    ufuncU op s1 s2 m fill = ufuncU op s1 (toWave s1.wu s2) m fill ∧
    ∀ r, ufuncU op s1 s2 m fill = .ok r → r.wu = s1.wu ∧ r.vu = s1.vu := by
  constructor
  · have h2 : (toWave s1.wu s2).wu = s1.wu := by cases hv : s2.vu <;> simp [toWave_eq, hv]
    by_cases h : s2.wu = s1.wu
    · have : toWave s1.wu s2 = s2 := by rw [← h]; exact toWave_self s2
      rw [this]
    · simp only [ufuncU, h, if_false, h2, if_true]
  · intro r hr
    simp only [ufuncU] at hr
    split at hr
    · cases hr
    · cases hr; exact ⟨rfl, rfl⟩

/-- END TO END, from valid operands: two well-formed spectra with valid (positive, strictly increasing) grids of at least two
samples, any of the named sampling options ⇒ the operation succeeds; its grid is a valid wavelength grid (so the result IS
a spectrum) with one value per wavelength, starts at the smaller minimum and ends at the larger maximum, has the positive
step of `grid_step_le_requested`, and its values are `op(S₁(g), S₂(g))` (what `Sᵢ` is: `operand_is_interpolant`,
`operand_guard_band`). All side conditions of the component theorems (0 < Δ, 0 < min, tol < span, 1 ≤ N) are derived here. -/
theorem ufunc_of_valid (op : ℚ → ℚ → ℚ) (s1 s2 : Spectrum) (h1 : WF s1) (h2 : WF s2)
    (v1 : validWave s1.wave = true) (v2 : validWave s2.wave = true) (l1 : 2 ≤ s1.wave.length) (l2 : 2 ≤ s2.wave.length)
    (m : Sampling) (hm : ∀ d, m ≠ .step d) (fill : ℚ) :
    ∃ r lo1 hi1 lo2 hi2 dw, ufunc op s1 s2 m fill = .ok r ∧
      minL s1.wave = some lo1 ∧ maxL s1.wave = some hi1 ∧ minL s2.wave = some lo2 ∧ maxL s2.wave = some hi2 ∧
      samplingOf m s1.wave s2.wave = some dw ∧ 0 < dw ∧ 1 ≤ (gridNum (min lo1 lo2) (max hi1 hi2) dw).toNat ∧
      validWave r.wave = true ∧ r.wave.length = r.value.length ∧
      r.wave.head? = some (min lo1 lo2) ∧ r.wave.getLast? = some (max hi1 hi2) ∧
      r.value = r.wave.map (fun g => op (operandAt s1 lo1 hi1 (gridTol dw) fill g) (operandAt s2 lo2 hi2 (gridTol dw) fill g)) := by
  obtain ⟨lo1, hi1, d1, _, _, hmin1, hmax1, hd1, hp1, hs1, hpos1⟩ := ends_of_valid s1 h1 v1 l1
  obtain ⟨lo2, hi2, d2, _, _, hmin2, hmax2, hd2, hp2, hs2, hpos2⟩ := ends_of_valid s2 h2 v2 l2
  -- the sampling, positive and not larger than the union span
  have hspan1 : hi1 - lo1 ≤ max hi1 hi2 - min lo1 lo2 := by
    have := le_max_left hi1 hi2; have := min_le_left lo1 lo2; linarith
  have hspan2 : hi2 - lo2 ≤ max hi1 hi2 - min lo1 lo2 := by
    have := le_max_right hi1 hi2; have := min_le_right lo1 lo2; linarith
  obtain ⟨dw, hdw, hdwpos, hdwle⟩ : ∃ dw, samplingOf m s1.wave s2.wave = some dw ∧ 0 < dw ∧ dw ≤ max hi1 hi2 - min lo1 lo2 := by
    cases m with
    | min => exact ⟨min d1 d2, by simp [samplingOf_eq, hd1, hd2], lt_min hp1 hp2, le_trans (min_le_left _ _) (le_trans hs1 hspan1)⟩
    | left => exact ⟨d1, by simp [samplingOf_eq, hd1], hp1, le_trans hs1 hspan1⟩
    | right => exact ⟨d2, by simp [samplingOf_eq, hd2], hp2, le_trans hs2 hspan2⟩
    | step d => exact absurd rfl (hm d)
  have htol : gridTol dw < max hi1 hi2 - min lo1 lo2 := by
    rw [gridTol_eq]
    have : dw / 1000000000 < dw := by
      rw [div_lt_iff₀ (by norm_num)]; linarith
    linarith
  have hposmin : 0 < min lo1 lo2 := lt_min hpos1 hpos2
  -- the operation succeeds
  have hok : ∃ r, ufunc op s1 s2 m fill = .ok r := by
    simp [ufunc, interpCommon, hmin1, hmax1, hmin2, hmax2, hdw]
  obtain ⟨r, hr⟩ := hok
  obtain ⟨a1, b1, a2, b2, d, e1, e2, e3, e4, e5, hw, hv⟩ := ufunc_pointwise op s1 s2 m fill r hr
  rw [hmin1] at e1; rw [hmax1] at e2; rw [hmin2] at e3; rw [hmax2] at e4; rw [hdw] at e5
  cases e1; cases e2; cases e3; cases e4; cases e5
  have hN := gridNum_pos _ _ _ hdwpos htol
  have hvalid := ufunc_result_valid op s1 s2 m fill r hr lo1 hi1 lo2 hi2 dw hmin1 hmax1 hmin2 hmax2 hdw hdwpos hposmin htol
  refine ⟨r, lo1, hi1, lo2, hi2, dw, hr, hmin1, hmax1, hmin2, hmax2, hdw, hdwpos, by omega, hvalid.1, hvalid.2, ?_, ?_, hv⟩
  · rw [hw]; exact (grid_spans_union_start _ _ _ (by omega)).1
  · rw [hw]; exact grid_spans_union_end _ _ _ (by omega)

/-- the guard band of `_interp_common`: a grid point within `tol` below (above) an operand's range is treated as its first
(last) wavelength — the interpolant evaluated at the clipped abscissa, neither the fill value nor an extrapolation -/
theorem operand_guard_band (s : Spectrum) (lo hi tol fill g : ℚ) (ht : 0 ≤ tol) (hlh : lo ≤ hi) :
    (lo - tol ≤ g → g < lo → operandAt s lo hi tol fill g = interpAt s.wave s.value fill fill lo) ∧
    (hi < g → g ≤ hi + tol → operandAt s lo hi tol fill g = interpAt s.wave s.value fill fill hi) := by
  constructor
  · intro h1 h2
    have b : g ≤ hi + tol := by linarith
    simp [operandAt, h1, b, clip, h2]
  · intro h1 h2
    have a : lo - tol ≤ g := by linarith
    have c1 : ¬ g < lo := by linarith
    simp [operandAt, a, h2, clip, c1, h1]

/-- commutativity at the level the driver runs, operands in the same units: a∘b = b∘a (with left↔right sampling swapped) -/
theorem ufuncU_comm_same_units (op : ℚ → ℚ → ℚ) (hc : ∀ a b, op a b = op b a) (s1 s2 : USpec) (hw : s1.wu = s2.wu) (hv : s1.vu = s2.vu)
    (m : Sampling) (fill : ℚ) : ufuncU op s2 s1 m.swap fill = ufuncU op s1 s2 m fill := by
  simp only [ufuncU, hw, hv, if_true, op_comm op hc ⟨s1.wave, s1.value⟩ ⟨s2.wave, s2.value⟩ m fill]


/-- commutativity ACROSS units (unitless spectra, any commutative operator): b∘a, computed in b's unit with the sampling
re-expressed in that unit and left↔right swapped, is a∘b re-expressed in b's unit -/
theorem ufuncU_comm_across_units (op : ℚ → ℚ → ℚ) (hc : ∀ a b, op a b = op b a) (s1 s2 : USpec)
    (h1 : s1.vu = none) (h2 : s2.vu = none) (m : Sampling) (fill : ℚ)
    (hdw : ∀ dw, samplingOf m s1.wave (if s2.wu = s1.wu then s2 else toWave s1.wu s2).wave = some dw → dw ≠ 0) :
    ufuncU op s2 s1 ((m.scale (waveTo s1.wu s2.wu)).swap) fill = (ufuncU op s1 s2 m fill).map (toWave s2.wu) := by
  have hinv := unit_invariance_unitless op s1 s2 h1 h2 s2.wu m fill hdw
  rw [toWave_self s2] at hinv
  have hA_wu : (toWave s2.wu s1).wu = s2.wu := by simp [toWave_eq, h1]
  have hA_vu : (toWave s2.wu s1).vu = s2.vu := by simp [toWave_eq, h1, h2]
  rw [← hinv, (unit_handover_partial op s2 s1 _ fill).1]
  exact ufuncU_comm_same_units op hc (toWave s2.wu s1) s2 hA_wu hA_vu _ fill


/-- value homogeneity: dividing BOTH operands' values (and the fill value) by the same number divides the result's values by it,
for every operator that is homogeneous of degree one — addition, subtraction, maximum … (not multiplication: a product of two
densities is not a density). The interpolation, the guard band and the fill are all linear in the values. -/
theorem ufunc_value_scale (op : ℚ → ℚ → ℚ) (k : ℚ) (hop : ∀ a b, op (a / k) (b / k) = op a b / k) (s1 s2 : Spectrum)
    (m : Sampling) (fill : ℚ) :
    ufunc op (vscaleS k s1) (vscaleS k s2) m (fill / k) = (ufunc op s1 s2 m fill).map (vscaleS k) := by
  simp only [ufunc, interpCommon_vscale]
  cases interpCommon s1 s2 m fill with
  | error e => rfl
  | ok r =>
    obtain ⟨g, v1, v2⟩ := r
    simp only [Except.map, vscaleS, List.zipWith_map, List.map_zipWith, hop]

/-- unit invariance for per-wavelength DENSITY spectra (`ufuncU`, each operand in its own wavelength unit), operators homogeneous
of degree one (addition, subtraction): re-expressing both operands in any unit `u` — wavelengths × k, densities ÷ k — with the
sampling and the fill value re-expressed alike (fill ÷ k: a fill value is a density in the left operand's unit; in particular
fill 0 stays 0) gives the same result re-expressed in `u`. -/
theorem unit_invariance_density (op : ℚ → ℚ → ℚ) (hop : ∀ k a b : ℚ, op (a / k) (b / k) = op a b / k) (s1 s2 : USpec) (f1 f2 : FUnit)
    (h1 : s1.vu = some f1) (h2 : s2.vu = some f2) (u : WUnit) (m : Sampling) (fill : ℚ)
    (hdw : ∀ dw, samplingOf m s1.wave (if s2.wu = s1.wu then s2 else toWave s1.wu s2).wave = some dw → dw ≠ 0) :
    ufuncU op (toWave u s1) (toWave u s2) (m.scale (waveTo s1.wu u)) (fill / waveTo s1.wu u)
      = (ufuncU op s1 s2 m fill).map (toWave u) := by
  have hk := waveTo_pos s1.wu u
  have hs2 : ∀ (t : USpec) (f : FUnit), t.vu = some f → ∀ a : WUnit, (toWave a t).wave = t.wave.map (· * waveTo t.wu a) ∧
      (toWave a t).value = t.value.map (· / waveTo t.wu a) ∧ (toWave a t).wu = a ∧ (toWave a t).vu = some f := by
    intro t f ht a; simp [toWave_eq, ht]
  obtain ⟨w1, v1, _, _⟩ := hs2 s1 f1 h1 u
  set s2' := (if s2.wu = s1.wu then s2 else toWave s1.wu s2) with hs2'
  have hs2'w : s2'.wave = s2.wave.map (· * waveTo s2.wu s1.wu) ∧ s2'.value = s2.value.map (· / waveTo s2.wu s1.wu) := by
    by_cases h : s2.wu = s1.wu
    · simp only [hs2', h, if_true]; rw [← h, waveTo_self]; simp
    · simp only [hs2', h, if_false]; exact ⟨(hs2 s2 f2 h2 s1.wu).1, (hs2 s2 f2 h2 s1.wu).2.1⟩
  have e2 : (if (toWave u s2).wu = (toWave u s1).wu then toWave u s2 else toWave (toWave u s1).wu (toWave u s2)) = toWave u s2 := by
    simp [(hs2 s1 f1 h1 u).2.2.1, (hs2 s2 f2 h2 u).2.2.1]
  have hwave2 : (toWave u s2).wave = s2'.wave.map (· * waveTo s1.wu u) := by
    rw [(hs2 s2 f2 h2 u).1, hs2'w.1, map_mul_mul, waveTo_cocycle]
  have hval2 : (toWave u s2).value = s2'.value.map (· / waveTo s1.wu u) := by
    rw [(hs2 s2 f2 h2 u).2.1, hs2'w.2, map_div_div, waveTo_cocycle]
  simp only [ufuncU, e2]
  have key := ufunc_scale op (waveTo s1.wu u) hk (vscaleS (waveTo s1.wu u) ⟨s1.wave, s1.value⟩)
    (vscaleS (waveTo s1.wu u) ⟨s2'.wave, s2'.value⟩) m (fill / waveTo s1.wu u) hdw
  rw [ufunc_value_scale op _ (hop _)] at key
  simp only [scaleS, vscaleS] at key
  rw [w1, v1, hwave2, hval2, key]
  cases ufunc op ⟨s1.wave, s1.value⟩ ⟨s2'.wave, s2'.value⟩ m fill with
  | error e => rfl
  | ok r => simp [Except.map, toWave_eq, h1, (hs2 s1 f1 h1 u).2.2.1, (hs2 s1 f1 h1 u).2.2.2, scaleS, vscaleS, Gen.ufuncResultWaveUnitFromSelf, Gen.ufuncResultValueUnitFromSelf]

/-- commutativity ACROSS units for per-wavelength density spectra of the same flux unit, fill 0, any commutative operator that is
homogeneous of degree one (addition): b∘a, computed in b's wavelength unit with the sampling re-expressed in that unit and
left↔right swapped, is a∘b re-expressed in b's unit (wavelengths × k, densities ÷ k) -/
theorem ufuncU_comm_across_units_density (op : ℚ → ℚ → ℚ) (hc : ∀ a b, op a b = op b a)
    (hop : ∀ k a b : ℚ, op (a / k) (b / k) = op a b / k) (s1 s2 : USpec) (f : FUnit)
    (h1 : s1.vu = some f) (h2 : s2.vu = some f) (m : Sampling)
    (hdw : ∀ dw, samplingOf m s1.wave (if s2.wu = s1.wu then s2 else toWave s1.wu s2).wave = some dw → dw ≠ 0) :
    ufuncU op s2 s1 ((m.scale (waveTo s1.wu s2.wu)).swap) 0 = (ufuncU op s1 s2 m 0).map (toWave s2.wu) := by
  have hinv := unit_invariance_density op hop s1 s2 f f h1 h2 s2.wu m 0 hdw
  rw [toWave_self s2, zero_div] at hinv
  have hA_wu : (toWave s2.wu s1).wu = s2.wu := by simp [toWave_eq, h1]
  have hA_vu : (toWave s2.wu s1).vu = s2.vu := by simp [toWave_eq, h1, h2]
  rw [← hinv, (unit_handover_partial op s2 s1 _ 0).1]
  exact ufuncU_comm_same_units op hc (toWave s2.wu s1) s2 hA_wu hA_vu _ 0

/-- addition is an instance of both hypotheses -/
theorem add_comm_across_units_density (s1 s2 : USpec) (f : FUnit) (h1 : s1.vu = some f) (h2 : s2.vu = some f) (m : Sampling)
    (hdw : ∀ dw, samplingOf m s1.wave (if s2.wu = s1.wu then s2 else toWave s1.wu s2).wave = some dw → dw ≠ 0) :
    ufuncU (· + ·) s2 s1 ((m.scale (waveTo s1.wu s2.wu)).swap) 0 = (ufuncU (· + ·) s1 s2 m 0).map (toWave s2.wu) :=
  ufuncU_comm_across_units_density _ (fun a b => _root_.add_comm a b) (fun k a b => (add_div a b k).symm) s1 s2 f h1 h2 m hdw

/-- addition and subtraction are instances of `unit_invariance_density` (every fill value, re-expressed as a density) -/
theorem add_sub_unit_invariance_density (s1 s2 : USpec) (f1 f2 : FUnit) (h1 : s1.vu = some f1) (h2 : s2.vu = some f2) (u : WUnit)
    (m : Sampling) (fill : ℚ)
    (hdw : ∀ dw, samplingOf m s1.wave (if s2.wu = s1.wu then s2 else toWave s1.wu s2).wave = some dw → dw ≠ 0) :
    ufuncU (· + ·) (toWave u s1) (toWave u s2) (m.scale (waveTo s1.wu u)) (fill / waveTo s1.wu u)
        = (ufuncU (· + ·) s1 s2 m fill).map (toWave u) ∧
    ufuncU (· - ·) (toWave u s1) (toWave u s2) (m.scale (waveTo s1.wu u)) (fill / waveTo s1.wu u)
        = (ufuncU (· - ·) s1 s2 m fill).map (toWave u) :=
  ⟨unit_invariance_density _ (fun k a b => (add_div a b k).symm) s1 s2 f1 f2 h1 h2 u m fill hdw,
   unit_invariance_density _ (fun k a b => (sub_div a b k).symm) s1 s2 f1 f2 h1 h2 u m fill hdw⟩

/-- which grid points belong to an operand: the model's range test (with the guard band `tol`) is the test regenerated from
`_intersect` (`Gen.intersectKeeps`: `(superset >= subset.min() - tol) & (superset <= subset.max() + tol)`), and the value there
is the interpolant at the grid point clipped into the operand's range (`np.clip(commonwave[index], min, max)`, checked
structurally by the generator), the fill value everywhere else — for every operand, range, tolerance and grid point -/
theorem operand_membership_is_code (s : Spectrum) (lo hi tol fill g : ℚ) :
    operandAt s lo hi tol fill g =
      if Gen.intersectKeeps lo hi tol g then interpAt s.wave s.value fill fill (clip lo hi g) else fill := rfl

/-- the regenerated `_intersect` test keeps exactly the closed range widened by the guard band on both sides -/
theorem intersect_keeps_iff (lo hi tol w : ℚ) :
    Gen.intersectKeeps lo hi tol w = true ↔ lo - tol ≤ w ∧ w ≤ hi + tol := by
  simp [Gen.intersectKeeps]

/-- … so both end points of an operand's own range are always kept (tol ≥ 0) and, with no guard band, nothing outside is -/
theorem intersect_keeps_ends (lo hi tol : ℚ) (h : lo ≤ hi) (ht : 0 ≤ tol) :
    Gen.intersectKeeps lo hi tol lo = true ∧ Gen.intersectKeeps lo hi tol hi = true ∧
    ∀ w, Gen.intersectKeeps lo hi 0 w = true → lo ≤ w ∧ w ≤ hi := by
  refine ⟨?_, ?_, ?_⟩
  · rw [intersect_keeps_iff]; constructor <;> linarith
  · rw [intersect_keeps_iff]; constructor <;> linarith
  · intro w hw; rw [intersect_keeps_iff] at hw; constructor <;> linarith [hw.1, hw.2]

/-- the five operators of the property are wired as the source spells them: `a + b`, `a - b`, `a * b`, `a / b`, `a ** b` end —
through `Spectrum.add/subtract/multiply/divide/power`, whose bodies hand `other, sampling, method, fill_value` on unchanged
(checked by the generator) — in the NumPy ufunc of that arithmetic (`Gen.operatorOp`, `Gen.methodOp`, regenerated from
`__add__ … __pow__` and the five methods), the operator form and the method form of each agree, and the only reflected
operator is `__rmul__`, an alias of `__mul__` -/
theorem operators_dispatch :
    (Gen.operatorOp "__add__").bind arithFn = some (· + ·) ∧ (Gen.operatorOp "__sub__").bind arithFn = some (· - ·) ∧
    (Gen.operatorOp "__mul__").bind arithFn = some (· * ·) ∧ (Gen.operatorOp "__truediv__").bind arithFn = some (· / ·) ∧
    Gen.operatorOp "__pow__" = some .power ∧
    (∀ d ∈ ["__add__", "__sub__", "__mul__", "__truediv__", "__pow__"],
        (Gen.operatorMethod d).bind Gen.methodOp = Gen.operatorOp d ∧ (Gen.operatorOp d).isSome) ∧
    Gen.reflectedAliases = [("__rmul__", "__mul__")] := by
  refine ⟨rfl, rfl, rfl, rfl, rfl, by decide, rfl⟩

/-- "addition and multiplication are commutative", from the operator symbol down: whatever arithmetic the source wires `+` and
`*` (and the reflected `*`, an alias) to, `b ∘ a = a ∘ b` on every pair of spectra, with left/right sampling swapped -/
theorem add_mul_operators_commute (d : String) (hd : d = "__add__" ∨ d = "__mul__") (f : ℚ → ℚ → ℚ)
    (hf : (Gen.operatorOp d).bind arithFn = some f) (s1 s2 : Spectrum) (m : Sampling) (fill : ℚ) :
    ufunc f s2 s1 m.swap fill = ufunc f s1 s2 m fill := by
  rcases hd with rfl | rfl
  · have : f = (· + ·) := (Option.some.inj hf).symm
    subst this; exact op_comm _ (fun a b => _root_.add_comm a b) s1 s2 m fill
  · have : f = (· * ·) := (Option.some.inj hf).symm
    subst this; exact op_comm _ (fun a b => _root_.mul_comm a b) s1 s2 m fill

/-- "the result is a new spectrum": the grid test of the model (`validWave`, which every result, conversion and resampled grid
goes through) is the three refusals of the `Spectrum.wave` setter as the source spells them (`Gen.waveRejectsSample`:
`value <= 0`; sortedness; `Gen.waveRejectsStep`: `value[1:] - value[:-1] == 0`): no sample of an accepted grid is rejected
by the first, and on two adjacent samples acceptance is exactly "both pass the first test, in order, step not rejected" -/
theorem wave_setter_is_code :
    (∀ w : List ℚ, validWave w = true → ∀ x ∈ w, Gen.waveRejectsSample x = false) ∧
    (∀ a b : ℚ, validWave [a, b] = true ↔
      Gen.waveRejectsSample a = false ∧ Gen.waveRejectsSample b = false ∧ a ≤ b ∧ Gen.waveRejectsStep a b = false) := by
  refine ⟨?_, ?_⟩
  · intro w h x hx
    have := validWave_pos w h x hx
    simp only [Gen.waveRejectsSample, decide_eq_false_iff_not, not_le]; exact this
  · intro a b
    simp only [validWave, strictIncB, Gen.waveRejectsSample, Gen.waveRejectsStep, List.all_cons, List.all_nil, Bool.and_true,
      Bool.and_eq_true, decide_eq_true_eq, decide_eq_false_iff_not, not_le]
    constructor
    · rintro ⟨⟨ha, hb⟩, hab⟩
      exact ⟨ha, hb, le_of_lt hab, fun h => by linarith⟩
    · rintro ⟨ha, hb, hle, hne⟩
      refine ⟨⟨ha, hb⟩, lt_of_le_of_ne hle (fun h => hne (by rw [h]; ring))⟩

/-- non-vacuity: nested ranges, fill 0 -/
example : ufunc (· + ·) ⟨[1, 2, 3], [10, 20, 30]⟩ ⟨[2, 3, 4, 5], [1, 1, 1, 1]⟩ .min 0
    = .ok ⟨[1, 2, 3, 4, 5], [10, 21, 31, 1, 1]⟩ := by decide +kernel

end Lentil.C13
