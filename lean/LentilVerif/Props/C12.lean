import LentilVerif.Lemmas.ZernikeFit
import Mathlib.Tactic.NormNum
import Mathlib.LinearAlgebra.Matrix.Notation
import Mathlib.LinearAlgebra.Matrix.Determinant.Basic
import Mathlib.Algebra.Order.Field.Basic
import Mathlib.Algebra.Order.BigOperators.Ring.Finset
import Mathlib.Tactic.Ring
import Mathlib.Tactic.Linarith
/-! # C12 — Zernike fit, compose and remove are mutually inverse for any mode set

Property theorems only; the model (`zfit`, `zcompose`, `zremove` over a basis matrix `B` whose columns are the requested modes in
the requested order) is `Lemmas/ZernikeFit.lean`. Hypothesis everywhere: the requested modes are linearly independent on the
mask, `IsUnit (Bᵀ * B).det`. Trusted contract: `np.linalg.pinv(basis)` is then `(BᵀB)⁻¹Bᵀ` (checked numerically on every run
through the normal equations by tools/harness/c12.py). Subset, ordering, normalisation and caller coordinates only change `B`,
and every theorem holds for every `B`. -/
namespace Lentil.C12
open Lentil Matrix

variable {P M R : Type} [Fintype P] [Fintype M] [DecidableEq M] [CommRing R]

/-- **fit ∘ compose = id**: fitting an OPD composed from coefficients `c` returns `c`, for every mode set and ordering -/
theorem fit_compose (B : Matrix P M R) (h : IsUnit (Bᵀ * B).det) (c : M → R) : zfit B (zcompose B c) = c := by
  unfold zfit zcompose
  rw [Matrix.mulVec_mulVec, pinvFR_mul B h, Matrix.one_mulVec]

/-- the residual's fitted coefficients vanish -/
theorem remove_fit_zero (B : Matrix P M R) (h : IsUnit (Bᵀ * B).det) (opd : P → R) : zfit B (zremove B opd) = 0 := by
  have e : zfit B (zremove B opd) = zfit B opd - zfit B (zcompose B (zfit B opd)) := by
    unfold zremove zfit; rw [Matrix.mulVec_sub]
  rw [e, fit_compose B h, sub_self]

/-- removal is idempotent -/
theorem remove_idempotent (B : Matrix P M R) (h : IsUnit (Bᵀ * B).det) (opd : P → R) :
    zremove B (zremove B opd) = zremove B opd := by
  have e : zremove B (zremove B opd) = zremove B opd - zcompose B (zfit B (zremove B opd)) := rfl
  rw [e, remove_fit_zero B h]
  unfold zcompose; rw [Matrix.mulVec_zero, sub_zero]

/-- an OPD made only of the removed modes is reduced to zero -/
theorem remove_span_zero (B : Matrix P M R) (h : IsUnit (Bᵀ * B).det) (c : M → R) : zremove B (zcompose B c) = 0 := by
  unfold zremove; rw [fit_compose B h, sub_self]

/-- removal subtracts exactly the least-squares component: the residual is orthogonal to every removed mode (normal
equations `Bᵀ(opd − B·fit) = 0`) -/
theorem remove_orthogonal_to_modes (B : Matrix P M R) (h : IsUnit (Bᵀ * B).det) (opd : P → R) :
    Bᵀ *ᵥ zremove B opd = 0 := by
  unfold zremove zcompose zfit pinvFR
  rw [Matrix.mulVec_sub, Matrix.mulVec_mulVec, Matrix.mulVec_mulVec, ← Matrix.mul_assoc]
  rw [Matrix.mul_nonsing_inv _ h, Matrix.one_mul, sub_self]

/-- the fitted coefficients are the least-squares solution: no coefficient vector leaves a smaller residual
(sum of squares over the samples) than `zernike_remove` does -/
theorem fit_is_least_squares {F : Type} [Field F] [LinearOrder F] [IsStrictOrderedRing F] (B : Matrix P M F) (h : IsUnit (Bᵀ * B).det)
    (opd : P → F) (c : M → F) :
    zremove B opd ⬝ᵥ zremove B opd ≤ (opd - B *ᵥ c) ⬝ᵥ (opd - B *ᵥ c) := by
  have e : opd - B *ᵥ c = zremove B opd + B *ᵥ (zfit B opd - c) := by
    unfold zremove zcompose; rw [Matrix.mulVec_sub]; abel
  have orth : zremove B opd ⬝ᵥ (B *ᵥ (zfit B opd - c)) = 0 := by
    rw [dotProduct_mulVec, ← Matrix.mulVec_transpose, remove_orthogonal_to_modes B h opd, zero_dotProduct]
  have orth' : (B *ᵥ (zfit B opd - c)) ⬝ᵥ zremove B opd = 0 := by rw [dotProduct_comm]; exact orth
  have sq : 0 ≤ (B *ᵥ (zfit B opd - c)) ⬝ᵥ (B *ᵥ (zfit B opd - c)) := by
    unfold dotProduct; exact Finset.sum_nonneg fun i _ => mul_self_nonneg _
  rw [e, add_dotProduct, dotProduct_add, dotProduct_add, orth, orth']
  linarith

/-- the statements for Zernike bases: any list of modes in any order, either normalisation, any caller coordinates -/
theorem fit_compose_zernike {K : Type} [Field K] (sqrtN : Nat → K) (cos sin : K → K) {k : Nat} (modes : Fin k → Nat)
    (normalize : Bool) (rho theta : P → K) (mask : P → Bool)
    (h : IsUnit ((zBasis sqrtN cos sin modes normalize rho theta mask)ᵀ * zBasis sqrtN cos sin modes normalize rho theta mask).det)
    (c : Fin k → K) (opd : P → K) :
    let B := zBasis sqrtN cos sin modes normalize rho theta mask
    zfit B (zcompose B c) = c ∧ zfit B (zremove B opd) = 0 ∧ zremove B (zremove B opd) = zremove B opd ∧
      zremove B (zcompose B c) = 0 :=
  ⟨fit_compose _ h c, remove_fit_zero _ h opd, remove_idempotent _ h opd, remove_span_zero _ h c⟩

/-- non-vacuity: piston and tilt sampled at three points are linearly independent (`det BᵀB = 6`) -/
def exB : Matrix (Fin 3) (Fin 2) ℚ := !![1, 0; 1, 1; 1, 2]
example : IsUnit (exBᵀ * exB).det := by
  rw [isUnit_iff_ne_zero, Matrix.det_fin_two]
  simp [exB, Matrix.mul_apply, Fin.sum_univ_three]
  norm_num

end Lentil.C12
