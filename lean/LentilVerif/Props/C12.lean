import LentilVerif.Lemmas.ZernikeFit
import LentilVerif.Lemmas.ZernikeFitX
import Mathlib.Tactic.NormNum
import Mathlib.LinearAlgebra.Matrix.Notation
import Mathlib.LinearAlgebra.Matrix.Determinant.Basic
import Mathlib.Algebra.Order.Field.Basic
import Mathlib.Algebra.Order.BigOperators.Ring.Finset
import Mathlib.Tactic.Ring
import Mathlib.Tactic.Linarith
/-! # C12 — Zernike fit, compose and remove are mutually inverse for any mode set

Property theorems only; the model (`zfit`, `zcompose`, `zremove` over a basis matrix `B` whose columns are the requested modes in
the requested order) is `Lemmas/ZernikeFit.lean`. Hypothesis everywhere: the requested modes are linearly independent on the
mask, `IsUnit (Bᵀ * B).det`. Trusted contract: `np.linalg.pinv(basis)` is then `(BᵀB)⁻¹Bᵀ` (compared on every call of every
generated history with the executable model `fitX`, which `exec_model_is_abstract` proves equal to `zfit`). Subset, ordering,
normalisation and caller coordinates only change `B`, and every theorem holds for every `B`. -/
namespace Lentil.C12
open Lentil Matrix

variable {P M R : Type} [Fintype P] [Fintype M] [DecidableEq M] [CommRing R]

/-- **fit ∘ compose = id**: fitting an OPD composed from coefficients `c` returns `c`, for every mode set and ordering -/
theorem fit_compose (B : Matrix P M R) (h : IsUnit (Bᵀ * B).det) (c : M → R) : zfit B (zcompose B c) = c := by
  unfold zfit zcompose
  rw [Matrix.mulVec_mulVec, pinvFR_mul B h, Matrix.one_mulVec]

/-- the residual's fitted coefficients vanish -/
theorem remove_fit_zero (B : Matrix P M R) (h : IsUnit (Bᵀ * B).det) (opd : P → R) : zfit B (zremove B opd) = 0 := by
  have e : zfit B (zremove B opd) = zfit B opd - zfit B (zcompose B (zfit B opd)) := by
    unfold zremove zfit; rw [Matrix.mulVec_sub]
  rw [e, fit_compose B h, sub_self]

/-- removal is idempotent -/
theorem remove_idempotent (B : Matrix P M R) (h : IsUnit (Bᵀ * B).det) (opd : P → R) :
    zremove B (zremove B opd) = zremove B opd := by
  have e : zremove B (zremove B opd) = zremove B opd - zcompose B (zfit B (zremove B opd)) := rfl
  rw [e, remove_fit_zero B h]
  unfold zcompose; rw [Matrix.mulVec_zero, sub_zero]

/-- an OPD made only of the removed modes is reduced to zero -/
theorem remove_span_zero (B : Matrix P M R) (h : IsUnit (Bᵀ * B).det) (c : M → R) : zremove B (zcompose B c) = 0 := by
  unfold zremove; rw [fit_compose B h, sub_self]

/-- removal subtracts exactly the least-squares component: the residual is orthogonal to every removed mode (normal
equations `Bᵀ(opd − B·fit) = 0`) -/
theorem remove_orthogonal_to_modes (B : Matrix P M R) (h : IsUnit (Bᵀ * B).det) (opd : P → R) :
    Bᵀ *ᵥ zremove B opd = 0 := by
  unfold zremove zcompose zfit pinvFR
  rw [Matrix.mulVec_sub, Matrix.mulVec_mulVec, Matrix.mulVec_mulVec, ← Matrix.mul_assoc]
  rw [Matrix.mul_nonsing_inv _ h, Matrix.one_mul, sub_self]

/-- the fitted coefficients are the least-squares solution: no coefficient vector leaves a smaller residual
(sum of squares over the samples) than `zernike_remove` does -/
theorem fit_is_least_squares {F : Type} [Field F] [LinearOrder F] [IsStrictOrderedRing F] (B : Matrix P M F) (h : IsUnit (Bᵀ * B).det)
    (opd : P → F) (c : M → F) :
    zremove B opd ⬝ᵥ zremove B opd ≤ (opd - B *ᵥ c) ⬝ᵥ (opd - B *ᵥ c) := by
  have e : opd - B *ᵥ c = zremove B opd + B *ᵥ (zfit B opd - c) := by
    unfold zremove zcompose; rw [Matrix.mulVec_sub]; abel
  have orth : zremove B opd ⬝ᵥ (B *ᵥ (zfit B opd - c)) = 0 := by
    rw [dotProduct_mulVec, ← Matrix.mulVec_transpose, remove_orthogonal_to_modes B h opd, zero_dotProduct]
  have orth' : (B *ᵥ (zfit B opd - c)) ⬝ᵥ zremove B opd = 0 := by rw [dotProduct_comm]; exact orth
  have sq : 0 ≤ (B *ᵥ (zfit B opd - c)) ⬝ᵥ (B *ᵥ (zfit B opd - c)) := by
    unfold dotProduct; exact Finset.sum_nonneg fun i _ => mul_self_nonneg _
  rw [e, add_dotProduct, dotProduct_add, dotProduct_add, orth, orth']
  linarith

/-- the statements for Zernike bases: any list of modes in any order, either normalisation, any caller coordinates -/
theorem fit_compose_zernike {K : Type} [Field K] (sqrtN : Nat → K) (cos sin : K → K) {k : Nat} (modes : Fin k → Nat)
    (normalize : Bool) (rho theta : P → K) (mask : P → Bool)
    (h : IsUnit ((zBasis sqrtN cos sin modes normalize rho theta mask)ᵀ * zBasis sqrtN cos sin modes normalize rho theta mask).det)
    (c : Fin k → K) (opd : P → K) :
    let B := zBasis sqrtN cos sin modes normalize rho theta mask
    zfit B (zcompose B c) = c ∧ zfit B (zremove B opd) = 0 ∧ zremove B (zremove B opd) = zremove B opd ∧
      zremove B (zcompose B c) = 0 :=
  ⟨fit_compose _ h c, remove_fit_zero _ h opd, remove_idempotent _ h opd, remove_span_zero _ h c⟩

/-- **order clause**: permuting the requested modes permutes the fitted coefficients (for any basis, invertible or not) -/
theorem fit_order_independent {F : Type} [Field F] (B : Matrix P M F) (σ : M ≃ M) (opd : P → F) :
    zfit (B.submatrix id σ) opd = zfit B opd ∘ σ := zfit_perm B σ opd

/-! ## the executable model (`Model/ZernikeFit.lean`, run by the driver against the implementation) is the abstract model -/

/-- the executable `fitX` (Cramer / Laplace solution of the normal equations `BᵀB·x = Bᵀ·opd`, `p` samples, `k` requested modes),
`composeX` and `removeX` are `zfit`, `zcompose`, `zremove` of the basis matrix `blockOf p k B` -/
theorem exec_model_is_abstract {F : Type} [Field F] (p k : ℕ) (B : ℕ → ℕ → F) (opd c : ℕ → F)
    (h : IsUnit ((blockOf p k B)ᵀ * blockOf p k B).det) :
    (fun a : Fin k => fitX p k B opd a) = zfit (blockOf p k B) (fun s : Fin p => opd s) ∧
    (fun s : Fin p => composeX k B c s) = zcompose (blockOf p k B) (fun a : Fin k => c a) ∧
    (fun s : Fin p => removeX p k B opd s) = zremove (blockOf p k B) (fun s : Fin p => opd s) :=
  ⟨fitX_eq_zfit p k B opd h, composeX_eq_zcompose p k B c, removeX_eq_zremove p k B opd h⟩

/-- hence the property holds of the executable definitions themselves, for the basis built from the C11 mode model
(`zBasisX`: entry (sample s, requested mode a) = `zernAt … (modes a) normalize (rho s) (theta s) (mask s)`), any list of modes in any
order, either normalisation, any coordinates: fit∘compose = id, fit∘remove = 0, remove idempotent, remove∘compose = 0 -/
theorem exec_fit_compose_remove {F : Type} [Field F] (sqrtN : ℕ → F) (cos sin : F → F) (p k : ℕ) (modes : ℕ → ℕ) (normalize : Bool)
    (rho theta : ℕ → F) (mask : ℕ → Bool) (opd c : ℕ → F)
    (h : IsUnit ((blockOf p k (zBasisX sqrtN cos sin modes normalize rho theta mask))ᵀ *
      blockOf p k (zBasisX sqrtN cos sin modes normalize rho theta mask)).det) :
    let B := zBasisX sqrtN cos sin modes normalize rho theta mask
    (∀ a, a < k → fitX p k B (composeX k B c) a = c a) ∧
    (∀ a, a < k → fitX p k B (removeX p k B opd) a = 0) ∧
    (∀ s, s < p → removeX p k B (removeX p k B opd) s = removeX p k B opd s) ∧
    (∀ s, s < p → removeX p k B (composeX k B c) s = 0) := by
  intro B
  have ef := fun o => fitX_eq_zfit p k B o h
  have er := fun o => removeX_eq_zremove p k B o h
  have ec := composeX_eq_zcompose p k B c
  refine ⟨?_, ?_, ?_, ?_⟩
  · intro a ha
    have e := congrFun (ef (composeX k B c)) ⟨a, ha⟩
    rw [ec, fit_compose _ h] at e
    exact e
  · intro a ha
    have e := congrFun (ef (removeX p k B opd)) ⟨a, ha⟩
    rw [er opd, remove_fit_zero _ h] at e
    exact e
  · intro s hs
    have e := congrFun (er (removeX p k B opd)) ⟨s, hs⟩
    rw [er opd, remove_idempotent _ h] at e
    exact e.trans (congrFun (er opd) ⟨s, hs⟩).symm
  · intro s hs
    have e := congrFun (er (composeX k B c)) ⟨s, hs⟩
    rw [ec, remove_span_zero _ h] at e
    exact e

/-- **the hypothesis is the property's "linearly independent"**: over a linearly ordered field (ℝ, ℚ) `BᵀB` is invertible iff `c ↦ B·c` is
injective iff the columns of `B` — the requested modes sampled on the array — are linearly independent -/
theorem independence_hypothesis_iff {F : Type} [Field F] [LinearOrder F] [IsStrictOrderedRing F] (B : Matrix P M F) :
    (IsUnit (Bᵀ * B).det ↔ Function.Injective B.mulVec) ∧ (IsUnit (Bᵀ * B).det ↔ LinearIndependent F B.col) := gram_unit_iff B

/-- **the call wiring of the code** (`Gen.fitBasisArgs`, `Gen.removeFitArgs`, `Gen.removeBasisArgs` are re-translated from the call sites
in `zernike_fit` / `zernike_remove` on every run): with it, `zernike_fit` is the fit over the basis of *its own* modes, normalisation and
coordinates, and `zernike_remove` fits and subtracts over one and the same normalised basis of the caller's modes and coordinates — the
statement whose failure was defect D15. An edit to the argument lists changes the generated projections and breaks this theorem. -/
theorem remove_wiring {F : Type} [Field F] (sqrtN : ℕ → F) (cos sin : F → F) (p k : ℕ)
    (a : Gen.RemoveArgs (ℕ → F) (ℕ → Bool) (ℕ → ℕ) (ℕ → F)) (fa : Gen.FitArgs (ℕ → F) (ℕ → Bool) (ℕ → ℕ) (ℕ → F)) :
    fitA sqrtN cos sin p k fa = fitX p k (zBasisX sqrtN cos sin fa.modes fa.normalize fa.rho fa.theta fa.mask) fa.opd ∧
    removeA sqrtN cos sin p k a = removeX p k (zBasisX sqrtN cos sin a.modes true a.rho a.theta a.mask) a.opd := by
  -- the model's fit first selects the OPD with the mask (`Gen.fitSelect`); over a field that changes nothing (the basis rows vanish outside)
  have key : ∀ (modes : ℕ → ℕ) (nz : Bool) (rho theta : ℕ → F) (mask : ℕ → Bool) (opd : ℕ → F),
      fitX p k (zBasisX sqrtN cos sin modes nz rho theta mask) (fun s => Gen.fitSelect (mask s) (opd s))
        = fitX p k (zBasisX sqrtN cos sin modes nz rho theta mask) opd := by
    intro modes nz rho theta mask opd
    funext b
    refine (remove_outside_mask sqrtN cos sin p k modes nz rho theta mask _ opd).2 ?_ b
    intro s _ hm
    simp [Gen.fitSelect, hm]
  refine ⟨key _ _ _ _ _ _, ?_⟩
  funext s
  show a.opd s - composeX k _ (fitX p k _ _) s = _
  rw [show (Gen.removeFitArgs a).mask = a.mask from rfl] at *
  exact congrArg (fun f => a.opd s - composeX k (zBasisX sqrtN cos sin a.modes true a.rho a.theta a.mask) f s) (key a.modes true a.rho a.theta a.mask a.opd)

/-- **`zernike_remove` subtracts exactly the composed fit** — the returned expression of the source (`Gen.removeResidual`, re-translated on every
run together with the data flow `coeffs = zernike_fit(…)`, `basis = zernike_basis(…)`, `fit_opd = einsum(basis, coeffs)`): per sample the result is the
input OPD minus the regenerated contraction of the basis (requested with `Gen.removeBasisArgs`) with the coefficients fitted with
`Gen.removeFitArgs` — no other term, sign or operand order. This holds over any scalar type with the model's operations (also the `Float` run of the
driver). A change of `residual = opd - fit_opd` changes `Gen.removeResidual` and breaks this theorem and `remove_wiring`. -/
theorem remove_subtracts_composed_fit {K : Type} [Add K] [Sub K] [Mul K] [Div K] [Neg K] [Zero K] [One K] [IntCast K]
    (sqrtN : ℕ → K) (cos sin : K → K) (p k : ℕ) (a : Gen.RemoveArgs (ℕ → K) (ℕ → Bool) (ℕ → ℕ) (ℕ → K)) (s : ℕ) :
    (∀ x y : K, Gen.removeResidual x y = x - y) ∧
    removeA sqrtN cos sin p k a s =
      a.opd s - composeX k (basisOfArgs sqrtN cos sin (Gen.removeBasisArgs a)) (fitA sqrtN cos sin p k (Gen.removeFitArgs a)) s :=
  ⟨fun _ _ => rfl, rfl⟩

/-- **samples outside the mask do not influence `zernike_fit`** — by the regenerated selection `Gen.fitSelect` (`np.where(mask != 0, opd, 0)`)
itself, with no arithmetic: two OPDs that agree on the mask give the same argument to the contraction. This is the clause the repair of
KF-C12-nonfinite-outside-mask restored; it holds for ANY scalar type with the model's operations (no `0 · x = 0` is used), in particular
for the `Float` run of the model with NaN / ±inf outside the mask. Removing the statement from the source turns `Gen.fitSelect` into the identity
and breaks this theorem. -/
theorem fit_ignores_outside_mask {K : Type} [Add K] [Sub K] [Mul K] [Div K] [Neg K] [Zero K] [One K] [IntCast K]
    (sqrtN : ℕ → K) (cos sin : K → K) (p k : ℕ) (a a' : Gen.FitArgs (ℕ → K) (ℕ → Bool) (ℕ → ℕ) (ℕ → K))
    (hm : a'.mask = a.mask) (hmo : a'.modes = a.modes) (hn : a'.normalize = a.normalize) (hr : a'.rho = a.rho) (ht : a'.theta = a.theta)
    (hag : ∀ s, a.mask s = true → a'.opd s = a.opd s) :
    fitA sqrtN cos sin p k a' = fitA sqrtN cos sin p k a := by
  have hsel : (fun s => Gen.fitSelect (a'.mask s) (a'.opd s)) = (fun s => Gen.fitSelect (a.mask s) (a.opd s)) := by
    funext s
    rw [hm]
    by_cases h : a.mask s = true
    · simp [Gen.fitSelect, h, hag s h]
    · simp [Gen.fitSelect, h]
  unfold fitA
  rw [hsel]
  simp only [Gen.fitBasisArgs, hm, hmo, hn, hr, ht]

/-- outside the mask `zernike_remove` leaves the OPD untouched (the basis rows vanish there), and the fit does not depend on the OPD
there -/
theorem remove_keeps_outside_mask {F : Type} [Field F] (sqrtN : ℕ → F) (cos sin : F → F) (p k : ℕ) (modes : ℕ → ℕ) (normalize : Bool)
    (rho theta : ℕ → F) (mask : ℕ → Bool) (opd opd' : ℕ → F) :
    (∀ s, mask s = false → removeX p k (zBasisX sqrtN cos sin modes normalize rho theta mask) opd s = opd s) ∧
    ((∀ s, s < p → mask s = true → opd s = opd' s) →
      ∀ a, fitX p k (zBasisX sqrtN cos sin modes normalize rho theta mask) opd a
         = fitX p k (zBasisX sqrtN cos sin modes normalize rho theta mask) opd' a) :=
  remove_outside_mask sqrtN cos sin p k modes normalize rho theta mask opd opd'

/-- `zernike_compose` takes a coefficient vector indexed by Noll index − 1 (`Gen.composeNoll`, regenerated from the source): with the
coefficients of the requested modes at their positions it composes `B·c` -/
theorem compose_positions {F : Type} [Field F] (sqrtN : ℕ → F) (cos sin : F → F) (k L : ℕ) (modes : ℕ → ℕ) (c : ℕ → F) (normalize : Bool)
    (rho theta : ℕ → F) (mask : ℕ → Bool) (s : ℕ) (hm : ∀ a, a < k → 1 ≤ modes a ∧ modes a ≤ L) :
    composeFullX sqrtN cos sin (fun i => (Gen.composeNoll i).toNat) L
        (fun i => ∑ a ∈ Finset.range k, if modes a = i + 1 then c a else 0) normalize rho theta mask s
      = composeX k (zBasisX sqrtN cos sin modes normalize rho theta mask) c s :=
  composeFull_positions sqrtN cos sin k L modes c normalize rho theta mask s hm

/-- **the independence hypothesis is satisfiable by a Zernike basis**: modes [1, 4, 2] (piston, defocus, x-tilt), unnormalised,
sampled at ρ = 0, 1/2, 1 on the ray θ = 0, over ℚ: the model's basis matrix is `[[1,−1,0],[1,−1/2,1/2],[1,1,1]]`, `det(BᵀB) = 1/4` -/
theorem zernike_basis_independent_instance :
    blockOf 3 3 exBasis = !![1, -1, 0; 1, -1/2, 1/2; 1, 1, 1] ∧ IsUnit ((blockOf 3 3 exBasis)ᵀ * blockOf 3 3 exBasis).det :=
  ⟨exBasis_entries, exBasis_independent⟩

/-- … and by a 2 × 2 array with a cosine, a sine and a radial mode: modes [2, 3, 4] (x-tilt, y-tilt with m = −1, defocus), unnormalised,
samples (ρ, θ) = (1, 0), (1, π/2), (1/2, π), (0, 0) with cos/sin as exact tables at multiples of π/2: the model's basis matrix is
`[[1,0,1],[0,−1,1],[−1/2,0,−1/2],[0,0,−1]]` and `det(BᵀB) = 5/4` -/
theorem zernike_basis_independent_instance_2d :
    blockOf 4 3 ex2Basis = !![1, 0, 1; 0, -1, 1; -1/2, 0, -1/2; 0, 0, -1] ∧ IsUnit ((blockOf 4 3 ex2Basis)ᵀ * blockOf 4 3 ex2Basis).det :=
  ⟨ex2Basis_entries, ex2Basis_independent⟩

/-- … and by the basis of the DEFAULT call on a PARTIAL mask: modes [1, 2, 3] with `normalize = true` (Noll's constants through the real square
root: √2·√(1+1) = 2 for the tilts), a 2 × 2 array whose last sample is outside the mask: the model's basis matrix is
`[[1,2,0],[1,0,−2],[1,−1,0],[0,0,0]]` (the masked-out sample is a zero row) and `det(BᵀB) = 36` -/
theorem zernike_basis_independent_instance_normalised :
    blockOf 4 3 ex3Basis = !![1, 2, 0; 1, 0, -2; 1, -1, 0; 0, 0, 0] ∧ IsUnit ((blockOf 4 3 ex3Basis)ᵀ * blockOf 4 3 ex3Basis).det :=
  ⟨ex3Basis_entries, ex3Basis_independent⟩

/-- **fit, compose and remove are linear** — the clauses hold "for all coefficient vectors" and all OPDs because the three maps are linear:
`fit(a·x + y) = a·fit x + fit y`, `compose(a·c + d) = a·compose c + compose d`, `remove(a·x + y) = a·remove x + remove y` (no independence
hypothesis needed) -/
theorem fit_compose_remove_linear {F : Type} [Field F] (B : Matrix P M F) (a : F) (x y : P → F) (c d : M → F) :
    zfit B (a • x + y) = a • zfit B x + zfit B y ∧ zcompose B (a • c + d) = a • zcompose B c + zcompose B d ∧
    zremove B (a • x + y) = a • zremove B x + zremove B y := by
  have h1 : zfit B (a • x + y) = a • zfit B x + zfit B y := by
    unfold zfit; rw [Matrix.mulVec_add, Matrix.mulVec_smul]
  have h2 : ∀ c d : M → F, zcompose B (a • c + d) = a • zcompose B c + zcompose B d := by
    intro c d; unfold zcompose; rw [Matrix.mulVec_add, Matrix.mulVec_smul]
  refine ⟨h1, h2 c d, ?_⟩
  unfold zremove
  rw [h1, h2]
  ext p
  simp only [Pi.sub_apply, Pi.add_apply, Pi.smul_apply, smul_eq_mul]
  ring

/-- **the formula the theorems use for `np.linalg.pinv(basis)` is the Moore–Penrose inverse, and the only one**: under the independence hypothesis
`P = (BᵀB)⁻¹Bᵀ` satisfies the four Penrose equations `B P B = B`, `P B P = P`, `(B P)ᵀ = B P`, `(P B)ᵀ = P B`, and ANY matrix `X` with
`B X B = B` and `(B X)ᵀ = B X` equals it. So the trusted contract is exactly NumPy's documented one — "`pinv` returns the Moore–Penrose
pseudo-inverse" — not an ad-hoc formula. -/
theorem pinv_formula_is_moore_penrose {F : Type} [Field F] (B : Matrix P M F) (h : IsUnit (Bᵀ * B).det) :
    (B * pinvFR B * B = B ∧ pinvFR B * B * pinvFR B = pinvFR B ∧ (B * pinvFR B)ᵀ = B * pinvFR B ∧ (pinvFR B * B)ᵀ = pinvFR B * B) ∧
    ∀ X : Matrix M P F, B * X * B = B → (B * X)ᵀ = B * X → X = pinvFR B :=
  ⟨pinvFR_penrose B h, fun X h1 h3 => pinvFR_unique B X h h1 h3⟩

/-- **the two contractions of the code are the REGENERATED `Gen.fitContract` / `Gen.removeContract`** (translated from the einsum subscript
strings `'ij,i->j'` and `'ijk,i->jk'`): each sums its first index against the vector; the executable model's `B·c` IS the generated
contraction of `zernike_remove`. Changing a subscript string changes these definitions (or their argument order) and breaks this theorem and
the model built on it. -/
theorem einsum_contractions {F : Type} [Field F] (n : ℕ) (a : ℕ → ℕ → F) (b : ℕ → F) (s : ℕ) :
    Gen.fitContract sumRange n a b s = ∑ i ∈ Finset.range n, a i s * b i ∧
    Gen.removeContract sumRange n a b s = ∑ i ∈ Finset.range n, a i s * b i ∧
    composeX n (fun s i => a i s) b s = Gen.removeContract sumRange n a b s := by
  refine ⟨?_, ?_, rfl⟩ <;> simp only [Gen.fitContract, Gen.removeContract, sumRange_eq_sum]

/-- **`einsum('ij,i->j', pinv(basis), opd.ravel())` is `(BᵀB)⁻¹Bᵀ·opd`**: the generated contraction applied to the entries of the transposed
pseudo-inverse (`pinv(basis)` is samples × modes) is the abstract fit of the theorems above -/
theorem fit_einsum_is_pinv_apply {F : Type} [Field F] (p k : ℕ) (B : Matrix (Fin p) (Fin k) F) (opd : Fin p → F) (j : Fin k) :
    Gen.fitContract (fun n f => ∑ i ∈ Finset.range n, f i) p
        (fun i (j : Fin k) => if h : i < p then (Matrix.transpose (pinvFR B)) ⟨i, h⟩ j else 0) (fun i => if h : i < p then opd ⟨i, h⟩ else 0) j
      = zfit B opd j := by
  unfold Gen.fitContract zfit
  beta_reduce
  rw [Finset.sum_range]
  simp only [Fin.is_lt, dite_true, Matrix.transpose_apply, Matrix.mulVec, dotProduct, Fin.eta]

/-- **the OPD and the basis number their samples alike**: pixel (r, c) of an `nr × nc` array is sample `r·nc + c` both in `opd.ravel()`
(`Gen.ravelIndex`, regenerated from the call and its `order`) and in `basis.reshape(k, -1)` (`Gen.reshapeIndex`) — C order on both sides, so the
fit pairs every OPD sample with the basis values of the same pixel; distinct pixels get distinct numbers below `nr·nc` -/
theorem sample_numbering_agrees (nr nc r c : ℕ) :
    opdSample nr nc r c = basisSample nr nc r c ∧ opdSample nr nc r c = r * nc + c ∧
    (r < nr → c < nc → opdSample nr nc r c < nr * nc ∧ opdSample nr nc r c / nc = r ∧ opdSample nr nc r c % nc = c) := by
  refine ⟨rfl, rfl, ?_⟩
  intro hr hc
  have e : opdSample nr nc r c = r * nc + c := rfl
  rw [e]
  refine ⟨?_, ?_, ?_⟩
  · calc r * nc + c < r * nc + nc := by omega
      _ = (r + 1) * nc := by ring
      _ ≤ nr * nc := Nat.mul_le_mul_right _ (by omega)
  · rw [Nat.mul_comm, Nat.mul_add_div (by omega), Nat.div_eq_of_lt hc]; rfl
  · rw [Nat.mul_comm, Nat.mul_add_mod, Nat.mod_eq_of_lt hc]

end Lentil.C12
