import LentilVerif.Model.Field
import LentilVerif.Lemmas.Extent
import LentilVerif.Lemmas.Field
import Mathlib.Algebra.Ring.Defs
import Mathlib.Algebra.GroupWithZero.Defs
import Mathlib.Algebra.Group.Basic
/-! # C06 — field and extent bookkeeping equals arithmetic on an infinite zero-padded plane

Property theorems only (helper lemmas live in `Lemmas/`). Index arithmetic is the *generated* kernel
(`Gen.*`, re-translated from lentil/extent.py and lentil/field.py on every run). -/
namespace Lentil.C06
open Lentil

/-! ## Extent queries agree with sets of integer pixel coordinates -/

/-- a coordinate lies in `array_extent(shape, shift)` iff it is the global position `(i - s0//2 + o0, j - s1//2 + o1)`
of a local index of the array: the origin sample is at index `floor(n/2)` -/
theorem arrayExtent_mem (s0 s1 o0 o1 r c : Int) :
    (arrayExtent s0 s1 o0 o1).mem r c ↔
      ∃ i j, 0 ≤ i ∧ i < s0 ∧ 0 ≤ j ∧ j < s1 ∧ (i - s0 / 2 + o0 = r ∧ j - s1 / 2 + o1 = c) := by
  rw [arrayExtent_eq]; unfold Extent.mem
  constructor
  · intro h
    exact ⟨r + s0 / 2 - o0, c + s1 / 2 - o1, by simp only at h; omega, by simp only at h; omega,
      by simp only at h; omega, by simp only at h; omega, by omega, by omega⟩
  · rintro ⟨i, j, hi0, hi1, hj0, hj1, h1, h2⟩; simp only; omega

/-- the overlap test is true iff the two extents have a common pixel -/
theorem intersect_iff (a b : Extent) (ha : a.rmin ≤ a.rmax ∧ a.cmin ≤ a.cmax) (hb : b.rmin ≤ b.rmax ∧ b.cmin ≤ b.cmax) :
    intersect a b = true ↔ ∃ r c, a.mem r c ∧ b.mem r c := by
  rw [intersect_iff']; unfold Extent.mem
  constructor
  · intro h; exact ⟨max a.rmin b.rmin, max a.cmin b.cmin, by omega, by omega⟩
  · rintro ⟨r, c, h1, h2⟩; omega

/-- the intersection extent is exactly the set of common pixels -/
theorem intersection_mem (a b : Extent) (r c : Int) :
    (intersectionExtent a b).mem r c ↔ a.mem r c ∧ b.mem r c := by
  rw [intersectionExtent_eq]; unfold Extent.mem; simp only; omega

/-- `intersection_shape` is the (rows, cols) of the common pixel set, and empty exactly when there is none -/
theorem intersection_shape_spec (a b : Extent)
    (ha : a.rmin ≤ a.rmax ∧ a.cmin ≤ a.cmax) (hb : b.rmin ≤ b.rmax ∧ b.cmin ≤ b.cmax) :
    intersectionShape a b =
      if intersect a b then some ((intersectionExtent a b).nrow, (intersectionExtent a b).ncol) else none := by
  rw [intersectionShape_eq, intersect_eq, intersectionExtent_eq]
  simp only [Extent.nrow, Extent.ncol]
  split <;> split
  · rename_i h1 h2; exfalso
    simp only [Bool.or_eq_true, Bool.and_eq_true, decide_eq_true_eq, ge_iff_le] at h1 h2; omega
  · rfl
  · rfl
  · rename_i h1 h2; exfalso
    simp only [Bool.or_eq_true, Bool.and_eq_true, decide_eq_true_eq, ge_iff_le] at h1 h2; omega

/-- the extent rebuilt from intersection shape and intersection shift is the intersection extent -/
theorem intersection_shift_roundtrip (a b : Extent) (h : intersect a b = true) :
    arrayExtent (intersectionExtent a b).nrow (intersectionExtent a b).ncol (intersectionShift a b).1 (intersectionShift a b).2
      = intersectionExtent a b := by
  rw [intersect_iff'] at h
  rw [arrayExtent_eq, intersectionExtent_eq, intersectionShift_eq]
  simp only [Extent.nrow, Extent.ncol, Extent.mk.injEq]
  omega

/-- the intersection slices address, in each operand's own index space, exactly the common pixels -/
theorem intersection_slices_address (a b : Extent) :
    let sl := intersectionSlices a b
    let e := intersectionExtent a b
    a.rmin + sl.1.1.1 = e.rmin ∧ a.rmin + sl.1.1.2 - 1 = e.rmax ∧ a.cmin + sl.1.2.1 = e.cmin ∧ a.cmin + sl.1.2.2 - 1 = e.cmax ∧
    b.rmin + sl.2.1.1 = e.rmin ∧ b.rmin + sl.2.1.2 - 1 = e.rmax ∧ b.cmin + sl.2.2.1 = e.cmin ∧ b.cmin + sl.2.2.2 - 1 = e.cmax := by
  rw [intersectionSlices_eq, intersectionExtent_eq]; simp only; omega

/-- the centre of an extent is the shift that rebuilds it: `array_extent(shape(e), array_center(e)) = e` -/
theorem array_center_roundtrip (e : Extent) :
    arrayExtent e.nrow e.ncol (arrayCenter e).1 (arrayCenter e).2 = e := by
  rw [arrayExtent_eq, arrayCenter_eq]; cases e; simp only [Extent.nrow, Extent.ncol, Extent.mk.injEq]; omega

/-- and the centre of `array_extent(shape, shift)` is `shift` -/
theorem array_center_of_arrayExtent (s0 s1 o0 o1 : Int) :
    arrayCenter (arrayExtent s0 s1 o0 o1) = (o0, o1) := by
  rw [arrayExtent_eq, arrayCenter_eq]; simp only [Prod.mk.injEq]; omega

/-! ## Products -/
section mul
variable {K : Type} [MulZeroClass K]

/-- **product = pointwise product of the embeddings** (array × array): for every pair of shapes and offsets and every
pixel of the infinite plane; the product is empty (`none`) exactly when nothing overlaps, and then the pointwise product is 0 -/
theorem mul_emb (a b : Fld K) (r c : Int) :
    (match a.mulArr b with | some p => p.emb r c | none => 0) = a.emb r c * b.emb r c := by
  have ra : a.emb r c = embAt a.extent a.arr.get r c := rfl
  have rb : b.emb r c = embAt b.extent b.arr.get r c := rfl
  rw [ra, rb]
  unfold Fld.mulArr
  generalize a.extent = ea
  generalize b.extent = eb
  by_cases h : intersect ea eb = true
  · obtain ⟨s1, s2, s3, s4⟩ := slices_start ea eb
    simp only [h, if_true, emb_mk, mulArr_extent ea eb h]
    simp only [embAt, inter_inb, s1, s2, s3, s4]
    have hx : ∀ (x m i : Int), x - m + (m - i) = x - i := by intros; omega
    cases ea.inb r c <;> cases eb.inb r c <;> simp [hx]
  · have hf : intersect ea eb = false := by simpa using h
    have := not_intersect_inb ea eb hf r c
    simp only [hf, embAt]
    cases h1 : ea.inb r c <;> cases h2 : eb.inb r c <;> simp_all

/-- `Field.__mul__` when at most one operand is a one-element field: the one-element operand acts as an infinite
constant (`Fld.sem`), whatever its own offset -/
theorem mul_sem (a b : Fld K) (hab : (a.size1 && b.size1) = false)
    (ha : 0 < a.arr.s0 ∧ 0 < a.arr.s1) (hb : 0 < b.arr.s0 ∧ 0 < b.arr.s1) (r c : Int) :
    (match a.mul b with | some p => p.emb r c | none => 0) = a.sem r c * b.sem r c := by
  unfold Fld.mul
  simp only [hab, Bool.false_eq_true, if_false]
  rw [mul_emb]
  unfold Fld.sem
  cases h1 : a.size1 <;> cases h2 : b.size1
  · simp
  · -- b is the constant
    simp only [Bool.false_eq_true, if_false, if_true]
    have : (b.broadcastTo a).emb r c = embAt a.extent (fun _ _ => b.arr.get 0 0) r c := rfl
    rw [this]
    have ra : a.emb r c = embAt a.extent a.arr.get r c := rfl
    rw [ra]; unfold embAt
    cases a.extent.inb r c <;> simp
  · simp only [Bool.false_eq_true, if_false, if_true]
    have : (a.broadcastTo b).emb r c = embAt b.extent (fun _ _ => a.arr.get 0 0) r c := rfl
    rw [this]
    have rb : b.emb r c = embAt b.extent b.arr.get r c := rfl
    rw [rb]; unfold embAt
    cases b.extent.inb r c <;> simp
  · simp [h1, h2] at hab

/-- two one-element fields: the documented rule — the constants multiply when the offsets agree, and the product is
empty otherwise -/
theorem mul_scalar_scalar (a b : Fld K) (hab : (a.size1 && b.size1) = true) :
    a.mul b = if a.o0 = b.o0 ∧ a.o1 = b.o1
      then some { arr := { s0 := 1, s1 := 1, get := fun _ _ => a.arr.get 0 0 * b.arr.get 0 0 }, o0 := a.o0, o1 := a.o1 }
      else none := by
  unfold Fld.mul
  simp only [hab, if_true]
  by_cases h : a.o0 = b.o0 ∧ a.o1 = b.o1
  · simp [h]
  · have : (decide (a.o0 = b.o0) && decide (a.o1 = b.o1)) = false := by
      rw [Bool.eq_false_iff]; intro hh; simp only [Bool.and_eq_true, decide_eq_true_eq] at hh; exact h hh
    simp [this, h]

end mul

/-! ## Merging -/

/-- **a merge is the sum of the embeddings**, for any number of fields of any shapes and offsets — also wholly
negative extents, where `boundary`'s `rmax = 0` start only enlarges the box with zeros. (`mergeL fs = some p` excludes only
the corner in which the bounding box is the single origin pixel, where NumPy raises.) -/
theorem merge_emb {K : Type} [AddZeroClass K] (fs : List (Fld K)) (hne : fs ≠ [])
    (hpos : ∀ f ∈ fs, 0 < f.arr.s0 ∧ 0 < f.arr.s1) (p : Fld K) (h : mergeL fs = some p) (r c : Int) :
    p.emb r c = sumList fs (fun f => f.emb r c) := by
  unfold mergeL at h
  simp only [] at h
  generalize hb : boundaryL (fs.map Fld.extent) = b at h
  have hcont : ∀ f ∈ fs, b.rmin ≤ f.extent.rmin ∧ f.extent.rmax ≤ b.rmax ∧ b.cmin ≤ f.extent.cmin ∧ f.extent.cmax ≤ b.cmax := by
    intro f hf; have := boundary_contains fs f hf; simp only [hb] at this; exact this
  have hv : b.rmin ≤ b.rmax ∧ b.cmin ≤ b.cmax := by
    obtain ⟨f, hf⟩ := List.exists_mem_of_ne_nil fs hne
    have h1 := hcont f hf
    have h2 := f.extent_valid (hpos f hf)
    omega
  cases hs : Gen.mergeShape b.rmin b.rmax b.cmin b.cmax with
  | none => simp [hs] at h
  | some shp =>
    simp only [hs, Option.some.injEq] at h
    subst h
    rw [emb_mk, merge_box b shp hs hv]
    unfold embAt
    by_cases hin : b.inb r c = true
    · rw [if_pos hin]
      apply sumList_congr
      intro f hf
      have hc := hcont f hf
      have fe : f.emb r c = embAt f.extent f.arr.get r c := rfl
      rw [fe]; unfold embAt
      have hg : (decide (f.extent.rmin - b.rmin ≤ r - b.rmin) && decide (r - b.rmin < f.extent.rmax - b.rmin + 1) &&
          decide (f.extent.cmin - b.cmin ≤ c - b.cmin) && decide (c - b.cmin < f.extent.cmax - b.cmin + 1)) = f.extent.inb r c := by
        rw [Bool.eq_iff_iff, Extent.inb_iff]; simp only [Bool.and_eq_true, decide_eq_true_eq]; omega
      have hx : ∀ (x m i : Int), x - m - (i - m) = x - i := by intros; omega
      simp only [hg, hx]
    · rw [if_neg hin]
      have : sumList fs (fun f => f.emb r c) = sumList fs (fun _ => (0 : K)) := by
        apply sumList_congr
        intro f hf
        have hc := hcont f hf
        have fe : f.emb r c = embAt f.extent f.arr.get r c := rfl
        rw [fe]; unfold embAt
        have : f.extent.inb r c = false := by
          rw [Bool.eq_false_iff]; intro hh; rw [Extent.inb_iff] at hh
          apply hin; rw [Extent.inb_iff]; omega
        simp [this]
      rw [this, sumList_zero]

/-! ## Insertion -/
section insert
variable {K : Type} [NonUnitalNonAssocSemiring K]

/-- **insert adds exactly the part of the embedding that falls inside the array** — all, some or none of it — for every
target shape, field shape and offset of either sign: `out'[i][j] = out[i][j] + post(emb(i − S0/2, j − S1/2))·w`, where the
target's origin sample is at index `(S0/2, S1/2)` (`post = id` for the complex field, `|·|²` for intensity) -/
theorem insert_emb (f : Fld K) (out : Arr K) (w : K) (post : K → K) (i j : Int)
    (hi : 0 ≤ i ∧ i < out.s0) (hj : 0 ≤ j ∧ j < out.s1) :
    (insertArr f out w post).get i j =
      out.get i j + (if f.extent.inb (i - out.s0 / 2) (j - out.s1 / 2)
                     then post (f.arr.get (i - out.s0 / 2 - f.extent.rmin) (j - out.s1 / 2 - f.extent.cmin)) * w else 0) := by
  unfold insertArr
  cases h : Gen.insertIdx f.arr.s0 f.arr.s1 f.o0 f.o1 out.s0 out.s1 with
  | none =>
    have := insertIdx_none _ _ _ _ _ _ h i j hi hj
    simp only [Fld.extent, this, Bool.false_eq_true, if_false, add_zero]
  | some v =>
    obtain ⟨⟨orow, ocol⟩, ⟨frow, fcol⟩⟩ := v
    obtain ⟨g, e1, e2⟩ := insertIdx_some _ _ _ _ _ _ orow ocol frow fcol h i j hi hj
    simp only [g, e1, e2]
    show (if (arrayExtent f.arr.s0 f.arr.s1 f.o0 f.o1).inb (i - out.s0 / 2) (j - out.s1 / 2) = true then _ else _) =
      out.get i j + (if (arrayExtent f.arr.s0 f.arr.s1 f.o0 f.o1).inb (i - out.s0 / 2) (j - out.s1 / 2) = true then _ else _)
    by_cases hb : (arrayExtent f.arr.s0 f.arr.s1 f.o0 f.o1).inb (i - out.s0 / 2) (j - out.s1 / 2) = true
    · rw [if_pos hb, if_pos hb]; rfl
    · rw [if_neg hb, if_neg hb, add_zero]

/-- the shape of the target never changes -/
theorem insert_shape (f : Fld K) (out : Arr K) (w : K) (post : K → K) :
    (insertArr f out w post).s0 = out.s0 ∧ (insertArr f out w post).s1 = out.s1 := by
  unfold insertArr; split <;> simp

end insert

end Lentil.C06
