import LentilVerif.Model.Field
import LentilVerif.Lemmas.Extent
import Mathlib.Algebra.GroupWithZero.Defs
import Mathlib.Algebra.Group.Basic
/-! # C06 — field and extent bookkeeping equals arithmetic on an infinite zero-padded plane

Property theorems only (helper lemmas live in `Lemmas/`). Index arithmetic is the *generated* kernel
(`Gen.*`, re-translated from lentil/extent.py and lentil/field.py on every run). -/
namespace Lentil.C06
open Lentil

/-! ## Extent queries agree with sets of integer pixel coordinates -/

/-- a coordinate lies in `array_extent(shape, shift)` iff it is the global position `(i - s0//2 + o0, j - s1//2 + o1)`
of a local index of the array: the origin sample is at index `floor(n/2)` -/
theorem arrayExtent_mem (s0 s1 o0 o1 r c : Int) :
    (arrayExtent s0 s1 o0 o1).mem r c ↔
      ∃ i j, 0 ≤ i ∧ i < s0 ∧ 0 ≤ j ∧ j < s1 ∧ (i - s0 / 2 + o0 = r ∧ j - s1 / 2 + o1 = c) := by
  rw [arrayExtent_eq]; unfold Extent.mem
  constructor
  · intro h
    exact ⟨r + s0 / 2 - o0, c + s1 / 2 - o1, by simp only at h; omega, by simp only at h; omega,
      by simp only at h; omega, by simp only at h; omega, by omega, by omega⟩
  · rintro ⟨i, j, hi0, hi1, hj0, hj1, h1, h2⟩; simp only; omega

/-- the overlap test is true iff the two extents have a common pixel -/
theorem intersect_iff (a b : Extent) (ha : a.rmin ≤ a.rmax ∧ a.cmin ≤ a.cmax) (hb : b.rmin ≤ b.rmax ∧ b.cmin ≤ b.cmax) :
    intersect a b = true ↔ ∃ r c, a.mem r c ∧ b.mem r c := by
  rw [intersect_iff']; unfold Extent.mem
  constructor
  · intro h; exact ⟨max a.rmin b.rmin, max a.cmin b.cmin, by omega, by omega⟩
  · rintro ⟨r, c, h1, h2⟩; omega

/-- the intersection extent is exactly the set of common pixels -/
theorem intersection_mem (a b : Extent) (r c : Int) :
    (intersectionExtent a b).mem r c ↔ a.mem r c ∧ b.mem r c := by
  rw [intersectionExtent_eq]; unfold Extent.mem; simp only; omega

/-- `intersection_shape` is the (rows, cols) of the common pixel set, and empty exactly when there is none -/
theorem intersection_shape_spec (a b : Extent)
    (ha : a.rmin ≤ a.rmax ∧ a.cmin ≤ a.cmax) (hb : b.rmin ≤ b.rmax ∧ b.cmin ≤ b.cmax) :
    intersectionShape a b =
      if intersect a b then some ((intersectionExtent a b).nrow, (intersectionExtent a b).ncol) else none := by
  rw [intersectionShape_eq, intersect_eq, intersectionExtent_eq]
  simp only [Extent.nrow, Extent.ncol]
  split <;> split
  · rename_i h1 h2; exfalso
    simp only [Bool.or_eq_true, Bool.and_eq_true, decide_eq_true_eq, ge_iff_le] at h1 h2; omega
  · rfl
  · rfl
  · rename_i h1 h2; exfalso
    simp only [Bool.or_eq_true, Bool.and_eq_true, decide_eq_true_eq, ge_iff_le] at h1 h2; omega

/-- the extent rebuilt from intersection shape and intersection shift is the intersection extent -/
theorem intersection_shift_roundtrip (a b : Extent) (h : intersect a b = true) :
    arrayExtent (intersectionExtent a b).nrow (intersectionExtent a b).ncol (intersectionShift a b).1 (intersectionShift a b).2
      = intersectionExtent a b := by
  rw [intersect_iff'] at h
  rw [arrayExtent_eq, intersectionExtent_eq, intersectionShift_eq]
  simp only [Extent.nrow, Extent.ncol, Extent.mk.injEq]
  omega

/-- the intersection slices address, in each operand's own index space, exactly the common pixels -/
theorem intersection_slices_address (a b : Extent) :
    let sl := intersectionSlices a b
    let e := intersectionExtent a b
    a.rmin + sl.1.1.1 = e.rmin ∧ a.rmin + sl.1.1.2 - 1 = e.rmax ∧ a.cmin + sl.1.2.1 = e.cmin ∧ a.cmin + sl.1.2.2 - 1 = e.cmax ∧
    b.rmin + sl.2.1.1 = e.rmin ∧ b.rmin + sl.2.1.2 - 1 = e.rmax ∧ b.cmin + sl.2.2.1 = e.cmin ∧ b.cmin + sl.2.2.2 - 1 = e.cmax := by
  rw [intersectionSlices_eq, intersectionExtent_eq]; simp only; omega

/-- the centre of an extent is the shift that rebuilds it: `array_extent(shape(e), array_center(e)) = e` -/
theorem array_center_roundtrip (e : Extent) :
    arrayExtent e.nrow e.ncol (arrayCenter e).1 (arrayCenter e).2 = e := by
  rw [arrayExtent_eq, arrayCenter_eq]; cases e; simp only [Extent.nrow, Extent.ncol, Extent.mk.injEq]; omega

/-- and the centre of `array_extent(shape, shift)` is `shift` -/
theorem array_center_of_arrayExtent (s0 s1 o0 o1 : Int) :
    arrayCenter (arrayExtent s0 s1 o0 o1) = (o0, o1) := by
  rw [arrayExtent_eq, arrayCenter_eq]; simp only [Prod.mk.injEq]; omega

end Lentil.C06
