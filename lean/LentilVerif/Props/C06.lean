import LentilVerif.Model.Field
import LentilVerif.Lemmas.Extent
import LentilVerif.Lemmas.Field
import LentilVerif.Lemmas.Reduce
import LentilVerif.Lemmas.ReduceZ
import LentilVerif.Gen.FieldMerge
import LentilVerif.Gen.FieldDispatch
import LentilVerif.Lemmas.FieldBroadcast
import LentilVerif.Gen.FieldMulArray
import LentilVerif.Gen.FieldInit
import LentilVerif.Lemmas.FieldMergeFlow
import LentilVerif.Gen.FieldOverlapPair
import LentilVerif.Gen.FieldMergeOrigin
import LentilVerif.Lemmas.FieldPublicFlow
import Mathlib.Algebra.Ring.Defs
import Mathlib.Tactic.SplitIfs
import Mathlib.Algebra.GroupWithZero.Defs
import Mathlib.Algebra.Group.Basic
/-! # C06 — field and extent bookkeeping equals arithmetic on an infinite zero-padded plane

Property theorems only (helper lemmas live in `Lemmas/`). Index arithmetic is the *generated* kernel
(`Gen.*`, re-translated from lentil/extent.py and lentil/field.py on every run). -/
namespace Lentil.C06
open Lentil

/-! ## Extent queries agree with sets of integer pixel coordinates -/

/-- a coordinate lies in `array_extent(shape, shift)` iff it is the global position `(i - s0//2 + o0, j - s1//2 + o1)`
of a local index of the array: the origin sample is at index `floor(n/2)` -/
theorem arrayExtent_mem (s0 s1 o0 o1 r c : Int) :
    (arrayExtent s0 s1 o0 o1).mem r c ↔
      ∃ i j, 0 ≤ i ∧ i < s0 ∧ 0 ≤ j ∧ j < s1 ∧ (i - s0 / 2 + o0 = r ∧ j - s1 / 2 + o1 = c) := by
  rw [arrayExtent_eq]; unfold Extent.mem
  constructor
  · intro h
    exact ⟨r + s0 / 2 - o0, c + s1 / 2 - o1, by simp only at h; omega, by simp only at h; omega,
      by simp only at h; omega, by simp only at h; omega, by omega, by omega⟩
  · rintro ⟨i, j, hi0, hi1, hj0, hj1, h1, h2⟩; simp only; omega

/-- **`Field.__init__`, regenerated from the source (`Gen.fieldInit`: `self.offset = offset if offset is not None else [0, 0]`,
`self.extent = lentil.extent.array_extent(self.shape, self.offset)`): the extent a `Field` caches at construction is the
model's `Fld.extent`, i.e. exactly the set of global pixel positions of its data** (origin sample at index `floor(n/2)`,
shifted by the offset the field keeps); every theorem of this file that speaks about `f.extent` / `f.emb` speaks about that
cached value. Building the extent from another shape/offset, or keeping another offset than the one given, changes
`Gen.fieldInit` and breaks this proof. -/
theorem field_init_extent_spec {K : Type} (f : Fld K) (r c : Int) :
    (Gen.fieldInit f.arr.s0 f.arr.s1 f.o0 f.o1).1 = (f.o0, f.o1) ∧
    f.extent = .ofT (Gen.fieldInit f.arr.s0 f.arr.s1 f.o0 f.o1).2 ∧
    ((Extent.ofT (Gen.fieldInit f.arr.s0 f.arr.s1 f.o0 f.o1).2).mem r c ↔
      ∃ i j, 0 ≤ i ∧ i < f.arr.s0 ∧ 0 ≤ j ∧ j < f.arr.s1 ∧ (i - f.arr.s0 / 2 + f.o0 = r ∧ j - f.arr.s1 / 2 + f.o1 = c)) :=
  ⟨rfl, rfl, arrayExtent_mem f.arr.s0 f.arr.s1 f.o0 f.o1 r c⟩

/-- **the default of `Field.__init__` (`offset=None`)**: the field is centred on the origin — offset `[0, 0]` and the extent
of an unshifted array (what `Wavefront.__init__` and `Plane` rely on when they build fields without an offset) -/
theorem field_init_default_spec (s0 s1 r c : Int) :
    Gen.fieldInitDefault s0 s1 = Gen.fieldInit s0 s1 0 0 ∧
    ((Extent.ofT (Gen.fieldInitDefault s0 s1).2).mem r c ↔
      ∃ i j, 0 ≤ i ∧ i < s0 ∧ 0 ≤ j ∧ j < s1 ∧ (i - s0 / 2 = r ∧ j - s1 / 2 = c)) := by
  refine ⟨rfl, ?_⟩
  have h := arrayExtent_mem s0 s1 0 0 r c
  simp only [Int.add_zero] at h
  exact h
example : Gen.fieldInit 2 3 1 1 = ((1, 1), (0, 1, 0, 2)) ∧ Gen.fieldInitDefault 2 3 = ((0, 0), (-1, 0, -1, 1)) ∧
    Gen.fieldInitDefault 1 1 = ((0, 0), (0, 0, 0, 0)) := ⟨rfl, rfl, rfl⟩

/-- the overlap test is true iff the two extents have a common pixel -/
theorem intersect_iff (a b : Extent) (ha : a.rmin ≤ a.rmax ∧ a.cmin ≤ a.cmax) (hb : b.rmin ≤ b.rmax ∧ b.cmin ≤ b.cmax) :
    intersect a b = true ↔ ∃ r c, a.mem r c ∧ b.mem r c := by
  rw [intersect_iff']; unfold Extent.mem
  constructor
  · intro h; exact ⟨max a.rmin b.rmin, max a.cmin b.cmin, by omega, by omega⟩
  · rintro ⟨r, c, h1, h2⟩; omega

/-- the intersection extent is exactly the set of common pixels -/
theorem intersection_mem (a b : Extent) (r c : Int) :
    (intersectionExtent a b).mem r c ↔ a.mem r c ∧ b.mem r c := by
  rw [intersectionExtent_eq]; unfold Extent.mem; simp only; omega

/-- `intersection_shape` is the (rows, cols) of the common pixel set, and empty exactly when there is none -/
theorem intersection_shape_spec (a b : Extent)
    (ha : a.rmin ≤ a.rmax ∧ a.cmin ≤ a.cmax) (hb : b.rmin ≤ b.rmax ∧ b.cmin ≤ b.cmax) :
    intersectionShape a b =
      if intersect a b then some ((intersectionExtent a b).nrow, (intersectionExtent a b).ncol) else none := by
  rw [intersectionShape_eq, intersect_eq, intersectionExtent_eq]
  simp only [Extent.nrow, Extent.ncol]
  split <;> split
  · rename_i h1 h2; exfalso
    simp only [Bool.or_eq_true, Bool.and_eq_true, decide_eq_true_eq, ge_iff_le] at h1 h2; omega
  · rfl
  · rfl
  · rename_i h1 h2; exfalso
    simp only [Bool.or_eq_true, Bool.and_eq_true, decide_eq_true_eq, ge_iff_le] at h1 h2; omega

/-- the extent rebuilt from intersection shape and intersection shift is the intersection extent -/
theorem intersection_shift_roundtrip (a b : Extent) (h : intersect a b = true) :
    arrayExtent (intersectionExtent a b).nrow (intersectionExtent a b).ncol (intersectionShift a b).1 (intersectionShift a b).2
      = intersectionExtent a b := by
  rw [intersect_iff'] at h
  rw [arrayExtent_eq, intersectionExtent_eq, intersectionShift_eq]
  simp only [Extent.nrow, Extent.ncol, Extent.mk.injEq]
  omega

/-- the intersection slices address, in each operand's own index space, exactly the common pixels -/
theorem intersection_slices_address (a b : Extent) :
    let sl := intersectionSlices a b
    let e := intersectionExtent a b
    a.rmin + sl.1.1.1 = e.rmin ∧ a.rmin + sl.1.1.2 - 1 = e.rmax ∧ a.cmin + sl.1.2.1 = e.cmin ∧ a.cmin + sl.1.2.2 - 1 = e.cmax ∧
    b.rmin + sl.2.1.1 = e.rmin ∧ b.rmin + sl.2.1.2 - 1 = e.rmax ∧ b.cmin + sl.2.2.1 = e.cmin ∧ b.cmin + sl.2.2.2 - 1 = e.cmax := by
  rw [intersectionSlices_eq, intersectionExtent_eq]; simp only; omega

/-- the overlap test is symmetric -/
theorem intersect_comm (a b : Extent) : intersect a b = intersect b a := by
  rw [Bool.eq_iff_iff, intersect_iff', intersect_iff']; omega

/-- the intersection extent does not depend on the order of the operands either -/
theorem intersection_extent_comm (a b : Extent) (r c : Int) :
    (intersectionExtent a b).mem r c ↔ (intersectionExtent b a).mem r c := by
  rw [intersection_mem, intersection_mem]; exact And.comm

/-- the centre of an extent is the shift that rebuilds it: `array_extent(shape(e), array_center(e)) = e` -/
theorem array_center_roundtrip (e : Extent) :
    arrayExtent e.nrow e.ncol (arrayCenter e).1 (arrayCenter e).2 = e := by
  rw [arrayExtent_eq, arrayCenter_eq]; cases e; simp only [Extent.nrow, Extent.ncol, Extent.mk.injEq]; omega

/-- and the centre of `array_extent(shape, shift)` is `shift` -/
theorem array_center_of_arrayExtent (s0 s1 o0 o1 : Int) :
    arrayCenter (arrayExtent s0 s1 o0 o1) = (o0, o1) := by
  rw [arrayExtent_eq, arrayCenter_eq]; simp only [Prod.mk.injEq]; omega

/-- the NumPy statement `self.data[self_slice] * other.data[other_slice]` is well-formed whenever the (valid) extents intersect:
both slices are non-empty, inside their arrays, and of equal shape (the model reads the shape from the first slice and only
the start of the second, so this is stated separately) -/
theorem mul_slices_wellformed (a b : Extent) (ha : a.rmin ≤ a.rmax ∧ a.cmin ≤ a.cmax) (hb : b.rmin ≤ b.rmax ∧ b.cmin ≤ b.cmax)
    (h : intersect a b = true) :
    (0 ≤ (intersectionSlices a b).1.1.1 ∧ (intersectionSlices a b).1.1.1 < (intersectionSlices a b).1.1.2 ∧
      (intersectionSlices a b).1.1.2 ≤ a.nrow) ∧
    (0 ≤ (intersectionSlices a b).1.2.1 ∧ (intersectionSlices a b).1.2.1 < (intersectionSlices a b).1.2.2 ∧
      (intersectionSlices a b).1.2.2 ≤ a.ncol) ∧
    (0 ≤ (intersectionSlices a b).2.1.1 ∧ (intersectionSlices a b).2.1.1 < (intersectionSlices a b).2.1.2 ∧
      (intersectionSlices a b).2.1.2 ≤ b.nrow) ∧
    (0 ≤ (intersectionSlices a b).2.2.1 ∧ (intersectionSlices a b).2.2.1 < (intersectionSlices a b).2.2.2 ∧
      (intersectionSlices a b).2.2.2 ≤ b.ncol) ∧
    (intersectionSlices a b).1.1.2 - (intersectionSlices a b).1.1.1 = (intersectionSlices a b).2.1.2 - (intersectionSlices a b).2.1.1 ∧
    (intersectionSlices a b).1.2.2 - (intersectionSlices a b).1.2.1 = (intersectionSlices a b).2.2.2 - (intersectionSlices a b).2.2.1 :=
  slices_wellformed a b ha hb h
example : intersect ⟨-1, 0, -1, 0⟩ ⟨0, 1, 0, 2⟩ = true ∧
    intersectionSlices ⟨-1, 0, -1, 0⟩ ⟨0, 1, 0, 2⟩ = (((1, 2), (1, 2)), ((0, 1), (0, 1))) := by decide

/-! ## Products -/
section mul
variable {K : Type} [MulZeroClass K]

/-- **product = pointwise product of the embeddings** (array × array): for every pair of shapes and offsets and every
pixel of the infinite plane; the product is empty (`none`) exactly when nothing overlaps, and then the pointwise product is 0 -/
theorem mul_emb (a b : Fld K) (r c : Int) :
    (match a.mulArr b with | some p => p.emb r c | none => 0) = a.emb r c * b.emb r c := by
  have ra : a.emb r c = embAt a.extent a.arr.get r c := rfl
  have rb : b.emb r c = embAt b.extent b.arr.get r c := rfl
  rw [ra, rb]
  unfold Fld.mulArr
  generalize a.extent = ea
  generalize b.extent = eb
  by_cases h : intersect ea eb = true
  · obtain ⟨s1, s2, s3, s4⟩ := slices_start ea eb
    simp only [h, if_true, emb_mk, mulArr_extent ea eb h]
    simp only [embAt, inter_inb, s1, s2, s3, s4]
    have hx : ∀ (x m i : Int), x - m + (m - i) = x - i := by intros; omega
    cases ea.inb r c <;> cases eb.inb r c <;> simp [hx]
  · have hf : intersect ea eb = false := by simpa using h
    have := not_intersect_inb ea eb hf r c
    simp only [hf, embAt]
    cases h1 : ea.inb r c <;> cases h2 : eb.inb r c <;> simp_all

/-- `Field.__mul__` when at most one operand is a one-element field: the one-element operand acts as an infinite
constant (`Fld.sem`), whatever its own offset -/
theorem mul_sem (a b : Fld K) (hab : (a.size1 && b.size1) = false)
    (ha : 0 < a.arr.s0 ∧ 0 < a.arr.s1) (hb : 0 < b.arr.s0 ∧ 0 < b.arr.s1) (r c : Int) :
    (match a.mul b with | some p => p.emb r c | none => 0) = a.sem r c * b.sem r c := by
  rw [Fld.mul_closed]
  simp only [hab, Bool.false_eq_true, if_false]
  rw [mul_emb]
  unfold Fld.sem
  cases h1 : a.size1 <;> cases h2 : b.size1
  · simp
  · -- b is the constant
    simp only [Bool.false_eq_true, if_false, if_true]
    have : (b.broadcastTo a).emb r c = embAt a.extent (fun _ _ => b.arr.get 0 0) r c := rfl
    rw [this]
    have ra : a.emb r c = embAt a.extent a.arr.get r c := rfl
    rw [ra]; unfold embAt
    cases a.extent.inb r c <;> simp
  · simp only [Bool.false_eq_true, if_false, if_true]
    have : (a.broadcastTo b).emb r c = embAt b.extent (fun _ _ => a.arr.get 0 0) r c := rfl
    rw [this]
    have rb : b.emb r c = embAt b.extent b.arr.get r c := rfl
    rw [rb]; unfold embAt
    cases b.extent.inb r c <;> simp
  · simp [h1, h2] at hab

/-- non-vacuity of `mul_sem` (one one-element operand, far away: it still acts as a constant) and of
the documented rule for two one-element operands (equal / different offsets; `Fld.mul_scalar_scalar` in Lemmas/Field.lean) -/
example : ((⟨⟨1, 1, fun _ _ => (3 : Int)⟩, 7, -7⟩ : Fld Int).size1 && Ex.B.size1) = false ∧
    ((⟨⟨1, 1, fun _ _ => (3 : Int)⟩, 7, -7⟩ : Fld Int).mul Ex.B).map (fun p => (p.extent, p.emb 0 0)) =
      some (Ex.B.extent, 3 * Ex.B.emb 0 0) := by decide
example : ((⟨⟨1, 1, fun _ _ => (3 : Int)⟩, 2, 2⟩ : Fld Int).mul ⟨⟨1, 1, fun _ _ => 5⟩, 2, 2⟩).map (fun p => p.emb 2 2) = some 15 ∧
    ((⟨⟨1, 1, fun _ _ => (3 : Int)⟩, 2, 2⟩ : Fld Int).mul ⟨⟨1, 1, fun _ _ => 5⟩, 2, 3⟩).isNone = true := by decide
/-- array × array on a partial overlap: `A` and `B` share exactly the pixel (0, 0) -/
example : (Ex.A.mul Ex.B).map (fun p => (p.extent, p.emb 0 0)) = some (⟨0, 0, 0, 0⟩, 4 * 10) := by decide

/-- **the product is empty exactly when the operands have no common pixel**, and otherwise it occupies exactly the set of
common pixels (array × array, positive shapes) — `none` and "a field of zeros" are distinguished -/
theorem mul_empty_iff (a b : Fld K) (ha : 0 < a.arr.s0 ∧ 0 < a.arr.s1) (hb : 0 < b.arr.s0 ∧ 0 < b.arr.s1) :
    a.mulArr b = none ↔ ¬ ∃ r c, a.extent.mem r c ∧ b.extent.mem r c := by
  rw [← intersect_iff a.extent b.extent (a.extent_valid ha) (b.extent_valid hb)]
  unfold Fld.mulArr
  by_cases h : intersect a.extent b.extent = true
  · simp [h]
  · simp [h]

theorem mul_extent (a b p : Fld K) (h : a.mulArr b = some p) (r c : Int) :
    p.extent.mem r c ↔ a.extent.mem r c ∧ b.extent.mem r c := by
  unfold Fld.mulArr at h
  by_cases hi : intersect a.extent b.extent = true
  · simp only [hi, if_true, Option.some.injEq] at h
    subst h
    rw [← intersection_mem]
    show (arrayExtent _ _ _ _).mem r c ↔ _
    rw [mulArr_extent a.extent b.extent hi]
  · simp [hi] at h

/-- `A` and `B` share exactly the pixel (0, 0); `A` and `C` share none -/
example : (Ex.A.mulArr Ex.B).map (fun p => p.extent) = some ⟨0, 0, 0, 0⟩ ∧ (Ex.A.mulArr Ex.C).isNone = true := by decide

/-- **a product is empty in one order iff it is empty in the other**, and the two non-empty products occupy the same pixels
(with a commutative multiplication they embed identically, by `mul_emb`) -/
theorem mul_empty_comm (a b : Fld K) : a.mulArr b = none ↔ b.mulArr a = none := by
  have hc := intersect_comm b.extent a.extent
  unfold Fld.mulArr
  by_cases h : intersect a.extent b.extent = true
  · simp [h, hc]
  · simp [h, hc]

theorem mul_extent_comm (a b p q : Fld K) (hp : a.mulArr b = some p) (hq : b.mulArr a = some q) (r c : Int) :
    p.extent.mem r c ↔ q.extent.mem r c := by
  rw [mul_extent a b p hp, mul_extent b a q hq]; exact And.comm

/-- two one-element fields **read as infinite constants** (`Fld.sem`), the property's literal reading: proved only for
equal offsets, where the product is the one-element field holding the product of the constants.
GAP (named in the harness `UNPROVEN`): for different offsets the code returns the empty product (`Fld.mul_scalar_scalar`,
the rule documented in `Field.__mul__`), whose embedding is 0 and not the constant `a·b` — the documented rule is a scope
cut of the statement there, not a consequence of it. -/
theorem mul_scalar_scalar_sem_partial (a b : Fld K) (hab : (a.size1 && b.size1) = true)
    (ho : a.o0 = b.o0 ∧ a.o1 = b.o1) (r c : Int) :
    ∃ p, a.mul b = some p ∧ p.sem r c = a.sem r c * b.sem r c := by
  rw [Fld.mul_scalar_scalar a b hab, if_pos ho]
  refine ⟨_, rfl, ?_⟩
  rw [Bool.and_eq_true] at hab
  have h3 : (Fld.mk (Arr.mk 1 1 fun _ _ => a.arr.get 0 0 * b.arr.get 0 0) a.o0 a.o1).size1 = true := rfl
  simp only [Fld.sem, hab.1, hab.2, h3, if_true]

/-- **two one-element fields, the documented rule in full** (`Field.__mul__`: "if both operands are scalars, the result
is 0 unless the operands share the same offset"): read as infinite constants (`Fld.sem`), the product is the constant
`a·b` when the offsets are equal — exactly, in both components — and the empty field (0 everywhere) otherwise -/
theorem mul_scalar_scalar_rule (a b : Fld K) (hab : (a.size1 && b.size1) = true) (r c : Int) :
    (match a.mul b with | some p => p.sem r c | none => 0) =
      if a.o0 = b.o0 ∧ a.o1 = b.o1 then a.sem r c * b.sem r c else 0 := by
  rw [Fld.mul_scalar_scalar a b hab]
  by_cases ho : a.o0 = b.o0 ∧ a.o1 = b.o1
  · rw [if_pos ho, if_pos ho]
    rw [Bool.and_eq_true] at hab
    have h3 : (Fld.mk (Arr.mk 1 1 fun _ _ => a.arr.get 0 0 * b.arr.get 0 0) a.o0 a.o1).size1 = true := rfl
    simp only [Fld.sem, hab.1, hab.2, h3, if_true]
  · rw [if_neg ho, if_neg ho]
/-- what keeps `mul_scalar_scalar_sem_partial` partial is not a missing proof: the literal reading ("a one-element field is
an infinite constant", so the product of two of them is the constant `a·b` wherever they sit) is FALSE of the code for
different offsets — witness: constants 3 and 5 one pixel apart multiply to the empty field, not to 15 -/
example : ((⟨⟨1, 1, fun _ _ => (3 : Int)⟩, 2, 2⟩ : Fld Int).mul ⟨⟨1, 1, fun _ _ => 5⟩, 2, 3⟩).isNone = true ∧
    (⟨⟨1, 1, fun _ _ => (3 : Int)⟩, 2, 2⟩ : Fld Int).sem 0 0 * (⟨⟨1, 1, fun _ _ => (5 : Int)⟩, 2, 3⟩ : Fld Int).sem 0 0 = 15 := by
  decide

end mul

/-! ### position independence -/
section translate
variable {K : Type} [Mul K]

/-- **the product does not depend on the absolute position**: moving both operands by the same (d0, d1) — of any size,
1 or 10⁵ or 2⁴⁰ pixels — moves the product by (d0, d1) and changes nothing else; in particular two one-element fields
multiply iff their offsets are *exactly* equal, at every distance from the origin (a tolerance-based offset comparison
violates this), and the product is empty before iff it is empty after -/
theorem mul_translate (a b : Fld K) (d0 d1 : Int) :
    (a.translate d0 d1).mul (b.translate d0 d1) = (a.mul b).map fun p => p.translate d0 d1 := by
  rw [Fld.mul_closed, Fld.mul_closed]
  have h1 : (a.translate d0 d1).size1 = a.size1 := rfl
  have h2 : (b.translate d0 d1).size1 = b.size1 := rfl
  have e0 : decide ((a.translate d0 d1).o0 = (b.translate d0 d1).o0) = decide (a.o0 = b.o0) := by
    show decide (a.o0 + d0 = b.o0 + d0) = decide (a.o0 = b.o0)
    rw [Bool.eq_iff_iff]; simp only [decide_eq_true_eq]; omega
  have e1 : decide ((a.translate d0 d1).o1 = (b.translate d0 d1).o1) = decide (a.o1 = b.o1) := by
    show decide (a.o1 + d1 = b.o1 + d1) = decide (a.o1 = b.o1)
    rw [Bool.eq_iff_iff]; simp only [decide_eq_true_eq]; omega
  simp only [h1, h2, e0, e1]
  cases ha : a.size1 <;> cases hb : b.size1
  · simp only [Bool.false_eq_true, Bool.and_false, if_false]; exact mulArr_translate a b d0 d1
  · simp only [Bool.false_eq_true, Bool.and_true, if_false, if_true]
    exact mulArr_translate a (b.broadcastTo a) d0 d1
  · simp only [Bool.false_eq_true, Bool.and_false, if_false, if_true]
    exact mulArr_translate (a.broadcastTo b) b d0 d1
  · simp only [Bool.and_self, if_true]
    split <;> rfl

/-- two one-element fields 10⁵ pixels out, one pixel apart: empty product; at equal offsets: the product of the values -/
example : ((⟨⟨1, 1, fun _ _ => (3 : Int)⟩, 100000, 100000⟩ : Fld Int).mul ⟨⟨1, 1, fun _ _ => 5⟩, 100000, 100001⟩).isNone = true ∧
    ((⟨⟨1, 1, fun _ _ => (3 : Int)⟩, 100000, 100000⟩ : Fld Int).mul ⟨⟨1, 1, fun _ _ => 5⟩, 100000, 100000⟩).map
      (fun p => (p.extent, p.emb 100000 100000)) = some (⟨100000, 100000, 100000, 100000⟩, 15) := by decide

/-- **the dispatch of `Field.__mul__` / `_mul_scalar`, as generated from the source and consumed by `Fld.mul`**
(`Gen.mulBothOne` from `self.size == 1 and other.size == 1`, `Gen.mulScalarSame` from
`np.array_equal(self.offset, other.offset)`): both operands one-element, and offsets equal **exactly** in both components
**whatever the container types of the two offsets** (list, tuple, ndarray … enter the translation as the `_kind`
parameters: `np.array_equal` ignores them, Python's `==` on sequences would not) — an edit of either test in the source
changes the generated definition and breaks this theorem and `Fld.mul_closed` -/
theorem mul_dispatch_spec (a b : Fld K) :
    Gen.mulBothOne a.size b.size = (a.size1 && b.size1) ∧
    ∀ ka kb : Int, Gen.mulScalarSame a.o0 a.o1 ka b.o0 b.o1 kb = (decide (a.o0 = b.o0) && decide (a.o1 = b.o1)) :=
  ⟨Fld.mulBothOne_eq a b, fun _ _ => rfl⟩
/-- `data.size` of a field of positive shape is the product of its dimensions -/
example : (Ex.B.size, Ex.A.size, (⟨⟨1, 1, fun _ _ => (3 : Int)⟩, 7, -7⟩ : Fld Int).size) = (6, 4, 1) := by decide
example : Gen.mulBothOne 1 1 = true ∧ Gen.mulBothOne 1 6 = false ∧ Gen.mulScalarSame 100000 7 0 100000 7 1 = true ∧
    Gen.mulScalarSame 100000 7 0 100001 7 0 = false := by decide

/-- **`lentil.field._mul_broadcast`, regenerated from the source (`Gen.mulBroadcast`), is the broadcast step of the hand model
`Fld.mul`** — for all fields that `Field.__mul__` sends to `_mul_array` (not both one-element): the operands the generated
function returns (`Fld.genBroadcast`: flag "data is `np.broadcast_to` of the single sample", shape, offset of each) are
exactly the model's `a' = if a.size1 then a.broadcastTo b else a`, `b' = if b.size1 then b.broadcastTo a' else b` — data,
shape and **inherited offset** alike. An edit of the shape test, of either `size == 1` test, of a `broadcast_to` target or of
an `X_offset = Y_offset` line of `_mul_broadcast` changes `Gen.mulBroadcast` and breaks this proof. -/
theorem mul_broadcast_spec (a b : Fld K) (h : Gen.mulBothOne a.size b.size = false) :
    a.genBroadcast b =
      (let a' := if a.size1 then a.broadcastTo b else a
       let b' := if b.size1 then b.broadcastTo a' else b
       (a', b')) := by
  rw [Fld.mulBothOne_eq] at h
  have ea : decide (a.size = 1) = a.size1 := by
    rw [Bool.eq_iff_iff, decide_eq_true_eq]; exact Fld.size_eq_one_iff_size1 a
  have eb : decide (b.size = 1) = b.size1 := by
    rw [Bool.eq_iff_iff, decide_eq_true_eq]; exact Fld.size_eq_one_iff_size1 b
  obtain ⟨⟨a0, a1, ag⟩, ao0, ao1⟩ := a
  obtain ⟨⟨b0, b1, bg⟩, bo0, bo1⟩ := b
  simp only [Fld.genBroadcast, Gen.mulBroadcast, ea, eb]
  simp only [Fld.size1] at h ⊢
  by_cases ha : (decide (a0 = 1) && decide (a1 = 1)) = true <;> by_cases hb : (decide (b0 = 1) && decide (b1 = 1)) = true
  · simp [ha, hb] at h
  · have hs : (decide (a0 = b0) && decide (a1 = b1)) = false := by
      simp only [Bool.and_eq_true, decide_eq_true_eq, Bool.and_eq_false_iff, decide_eq_false_iff_not] at ha hb ⊢
      omega
    simp [ha, hb, hs, Fld.ofBroadcast, Fld.broadcastTo]
  · have hs : (decide (a0 = b0) && decide (a1 = b1)) = false := by
      simp only [Bool.and_eq_true, decide_eq_true_eq, Bool.and_eq_false_iff, decide_eq_false_iff_not] at ha hb ⊢
      omega
    simp [ha, hb, hs, Fld.ofBroadcast, Fld.broadcastTo]
  · by_cases hs : (decide (a0 = b0) && decide (a1 = b1)) = true <;> simp [ha, hb, hs, Fld.ofBroadcast]

/-- **the branch bodies of `Field._mul_scalar`, regenerated (`data = self.data * other.data`, `offset = self.offset`: which
operands are multiplied and whose offset is kept; else the empty product)**: for two one-element fields the model product
`Fld.mul` is `mulScalarFlow`, the generated test selecting the generated product — squaring one operand or dropping a factor
changes `Gen.mulScalarFactors` and breaks this -/
theorem mul_scalar_flow_spec (a b : Fld K) (h : Gen.mulBothOne a.size b.size = true) : a.mul b = mulScalarFlow a b := by
  simp only [Fld.mul, h, if_true, mulScalarFlow]; rfl
example : ((mulScalarFlow (⟨⟨1, 1, fun _ _ => (3 : Int)⟩, 2, 2⟩ : Fld Int) ⟨⟨1, 1, fun _ _ => 5⟩, 2, 2⟩).map
    fun p => (p.arr.get 0 0, p.o0, p.o1)) = some (15, 2, 2) ∧ Gen.mulBothOne 1 1 = true := ⟨rfl, rfl⟩

/-- **the 0-d operand path of `_mul_broadcast`, regenerated with shapes that may be `()` (`Gen.mulBroadcastZ`: a shape is the
triple (ndim, d0, d1), `()` = (0, 1, 1))**: whenever `Field.__mul__` sends the product to `_mul_array` (not both one-element), a
0-d operand (one sample, what `Wavefront.__init__` creates) differs in shape from the other operand, is broadcast to its 2-D
shape and inherits its offset — after `_mul_broadcast` **both operands are 2-D arrays, and they are exactly the operands the
2-D translation `Gen.mulBroadcast` (hence the model `Fld.mul`: `mul_broadcast_spec`) computes from the 1×1 reading of the 0-d
data**. This is why `ZFld.mul` may run `Fld.mul` on the 1×1 readings. -/
theorem mul_broadcast_zd_spec (a b : ZFld K) (ha : a.zd = true → a.fld.size1 = true) (hb : b.zd = true → b.fld.size1 = true)
    (h : Gen.mulBothOne a.fld.size b.fld.size = false) :
    Gen.mulBroadcastZ (if a.zd then 0 else 2) a.fld.arr.s0 a.fld.arr.s1 a.fld.size a.fld.o0 a.fld.o1
        (if b.zd then 0 else 2) b.fld.arr.s0 b.fld.arr.s1 b.fld.size b.fld.o0 b.fld.o1 =
      (let g := Gen.mulBroadcast a.fld.arr.s0 a.fld.arr.s1 a.fld.size a.fld.o0 a.fld.o1
          b.fld.arr.s0 b.fld.arr.s1 b.fld.size b.fld.o0 b.fld.o1
       (g.1, (2, g.2.1.1, g.2.1.2), g.2.2.1, g.2.2.2.1, (2, g.2.2.2.2.1.1, g.2.2.2.2.1.2), g.2.2.2.2.2)) := by
  rw [Fld.mulBothOne_eq] at h
  have ea : decide (a.fld.size = 1) = a.fld.size1 := by
    rw [Bool.eq_iff_iff, decide_eq_true_eq]; exact Fld.size_eq_one_iff_size1 a.fld
  have eb : decide (b.fld.size = 1) = b.fld.size1 := by
    rw [Bool.eq_iff_iff, decide_eq_true_eq]; exact Fld.size_eq_one_iff_size1 b.fld
  obtain ⟨⟨⟨a0, a1, ag⟩, ao0, ao1⟩, az⟩ := a
  obtain ⟨⟨⟨b0, b1, bg⟩, bo0, bo1⟩, bz⟩ := b
  simp only [Gen.mulBroadcastZ, Gen.mulBroadcast, ea, eb]
  simp only [Fld.size1] at h ha hb ⊢
  clear ea eb
  by_cases h1 : (decide (a0 = 1) && decide (a1 = 1)) = true <;> by_cases h2 : (decide (b0 = 1) && decide (b1 = 1)) = true
  · simp [h1, h2] at h
  · have hs : (decide (a0 = b0) && decide (a1 = b1)) = false := by
      simp only [Bool.and_eq_true, decide_eq_true_eq, Bool.and_eq_false_iff, decide_eq_false_iff_not] at h1 h2 ⊢
      omega
    have hbz : bz = false := by
      cases bz
      · rfl
      · exact absurd (hb rfl) h2
    subst hbz
    cases az <;> simp [h1, h2, hs]
  · have hs : (decide (a0 = b0) && decide (a1 = b1)) = false := by
      simp only [Bool.and_eq_true, decide_eq_true_eq, Bool.and_eq_false_iff, decide_eq_false_iff_not] at h1 h2 ⊢
      omega
    have haz : az = false := by
      cases az
      · rfl
      · exact absurd (ha rfl) h1
    subst haz
    cases bz <;> simp [h1, h2, hs]
  · have haz : az = false := by
      cases az
      · rfl
      · exact absurd (ha rfl) h1
    have hbz : bz = false := by
      cases bz
      · rfl
      · exact absurd (hb rfl) h2
    subst haz hbz
    by_cases hs : (decide (a0 = b0) && decide (a1 = b1)) = true <;> simp [h1, h2, hs]
/-- a 0-d operand against a 2×3 array: broadcast to (2, 2, 3) at the array's offset; the array is left alone -/
example : Gen.mulBroadcastZ 0 1 1 1 0 0 2 2 3 6 (-1) 4 = (1, (2, 2, 3), (-1, 4), 0, (2, 2, 3), (-1, 4)) ∧
    Gen.mulBroadcastZ 2 2 3 6 (-1) 4 0 1 1 1 0 0 = (0, (2, 2, 3), (-1, 4), 1, (2, 2, 3), (-1, 4)) := ⟨rfl, rfl⟩

/-- **`Field.__mul__` through the regenerated `_mul_broadcast`**: whenever the generated dispatch test sends the product to
`_mul_array`, the model product is `_mul_array`'s overlap product of the two operands the generated `_mul_broadcast` returns
(so `mul_emb` / `mul_sem` / `mul_empty_iff` speak about the operands the source computes) -/
theorem mul_via_gen_broadcast (a b : Fld K) (h : Gen.mulBothOne a.size b.size = false) :
    a.mul b = (a.genBroadcast b).1.mulArr (a.genBroadcast b).2 := by
  rw [mul_broadcast_spec a b h]; simp only [Fld.mul, h]; rfl
/-- the hypothesis is satisfiable, with and without a broadcast: a (1,1) field against a 2×3 field inherits its shape and
offset (flag 1); two arrays of different shape are left alone; two arrays of EQUAL shape are left alone too;
a one-element SECOND operand inherits from the first -/
example : Gen.mulBothOne 1 6 = false ∧
    Gen.mulBroadcast 1 1 1 7 (-7) 2 3 6 (-1) 4 = (1, (2, 3), (-1, 4), 0, (2, 3), (-1, 4)) ∧
    Gen.mulBroadcast 2 2 4 7 (-7) 2 3 6 (-1) 4 = (0, (2, 2), (7, -7), 0, (2, 3), (-1, 4)) ∧
    Gen.mulBroadcast 2 3 6 7 (-7) 2 3 6 (-1) 4 = (0, (2, 3), (7, -7), 0, (2, 3), (-1, 4)) ∧
    Gen.mulBroadcast 2 3 6 7 (-7) 1 1 1 (-1) 4 = (0, (2, 3), (7, -7), 1, (2, 3), (7, -7)) := ⟨rfl, rfl, rfl, rfl, rfl⟩

/-- **`Field._mul_array` after its `_mul_broadcast` call, regenerated from the source (`Gen.mulArrayIdx`: the two
`array_extent` calls, the `intersect` test, `intersection_slices`, `intersection_shift`), is the index flow of the hand model
`Fld.mulArr`** — for all fields: the model product is empty exactly when the generated function returns `none`, and otherwise
reads both operands through the generated slices (`self_data[self_slice] * other_data[other_slice]`) and carries the generated
offset. Swapping the operands of a call, taking the slices or the shift from another extent, or building an extent from the
wrong shape/offset changes `Gen.mulArrayIdx` and breaks this proof. -/
theorem mul_array_spec (a b : Fld K) :
    a.mulArr b = (Gen.mulArrayIdx a.arr.s0 a.arr.s1 a.o0 a.o1 b.arr.s0 b.arr.s1 b.o0 b.o1).map fun t =>
      { arr := { s0 := t.1.1.2 - t.1.1.1, s1 := t.1.2.2 - t.1.2.1,
                 get := fun i j => a.arr.get (i + t.1.1.1) (j + t.1.2.1) * b.arr.get (i + t.2.1.1.1) (j + t.2.1.2.1) },
        o0 := t.2.2.1, o1 := t.2.2.2 } := by
  have key : Gen.mulArrayIdx a.arr.s0 a.arr.s1 a.o0 a.o1 b.arr.s0 b.arr.s1 b.o0 b.o1 =
      if intersect a.extent b.extent then
        some ((intersectionSlices a.extent b.extent).1, (intersectionSlices a.extent b.extent).2,
          intersectionShift a.extent b.extent)
      else none := rfl
  rw [key]; dsimp only [Fld.mulArr]
  cases intersect a.extent b.extent <;> rfl

/-- **`Field.__mul__` → `_mul_array` end to end on generated definitions**: dispatch test (`Gen.mulBothOne`), broadcast
(`Gen.mulBroadcast` through `Fld.genBroadcast`) and index flow (`Gen.mulArrayIdx`) -/
theorem mul_via_gen (a b : Fld K) (h : Gen.mulBothOne a.size b.size = false) :
    a.mul b =
      let a' := (a.genBroadcast b).1
      let b' := (a.genBroadcast b).2
      (Gen.mulArrayIdx a'.arr.s0 a'.arr.s1 a'.o0 a'.o1 b'.arr.s0 b'.arr.s1 b'.o0 b'.o1).map fun t =>
        { arr := { s0 := t.1.1.2 - t.1.1.1, s1 := t.1.2.2 - t.1.2.1,
                   get := fun i j => a'.arr.get (i + t.1.1.1) (j + t.1.2.1) * b'.arr.get (i + t.2.1.1.1) (j + t.2.1.2.1) },
          o0 := t.2.2.1, o1 := t.2.2.2 } := by
  rw [mul_via_gen_broadcast a b h, mul_array_spec]
/-- a 2×2 array at the origin against a 2×3 array one row down, one column right: rows 1..2 / columns 1..2 of the first,
rows 0..1 / columns 0..1 of the second, product centred at (0, 0) … ; wholly separate arrays: `none` -/
example : Gen.mulArrayIdx 2 2 0 0 2 3 1 1 = some (((1, 2), (1, 2)), ((0, 1), (0, 1)), (0, 0)) ∧
    Gen.mulArrayIdx 2 2 0 0 2 3 5 5 = none := ⟨rfl, rfl⟩

end translate

/-! ## Merging -/

/-- **a merge is the sum of the embeddings**, for any number of fields of any shapes and offsets — also wholly
negative extents (the merged box is the exact bounding box there too: `boundary_is_bbox`). (`_merge` of array fields always answers: `merge_spec`.) -/
theorem merge_emb {K : Type} [AddZeroClass K] (fs : List (Fld K)) (hne : fs ≠ [])
    (hpos : ∀ f ∈ fs, 0 < f.arr.s0 ∧ 0 < f.arr.s1) (p : Fld K) (h : mergeL fs = some p) (r c : Int) :
    p.emb r c = sumList fs (fun f => f.emb r c) :=
  mergeL_emb fs hne hpos p h r c

/-- non-vacuity of `merge_emb` on **wholly negative extents**: the merge exists, its box is the bounding box of the two
extents (it no longer reaches up to row/column 0), and it embeds as the sum -/
example : (∀ f ∈ [Ex.N1, Ex.N2], 0 < f.arr.s0 ∧ 0 < f.arr.s1) ∧
    Ex.N1.extent = ⟨-6, -5, -6, -5⟩ ∧ Ex.N2.extent = ⟨-8, -8, -4, -2⟩ ∧
    (mergeL [Ex.N1, Ex.N2]).map (fun p => (p.extent, p.emb (-5) (-5), p.emb (-8) (-3), p.emb 0 0)) =
      some (⟨-8, -5, -6, -2⟩, Ex.N1.emb (-5) (-5) + Ex.N2.emb (-5) (-5), Ex.N1.emb (-8) (-3) + Ex.N2.emb (-8) (-3), 0) := by
  decide
/-- **`_merge` of array fields is total and is the sum**: for every non-empty collection of positive-shape fields there is a
merged field, it occupies the `boundary` box and embeds as the sum of its members — including (1, 1) arrays on the origin
pixel (the corner where, before the /repo fix of `_merge_shape`, NumPy raised) -/
theorem merge_spec {K : Type} [AddZeroClass K] (fs : List (Fld K)) (hne : fs ≠ [])
    (hpos : ∀ f ∈ fs, 0 < f.arr.s0 ∧ 0 < f.arr.s1) :
    ∃ p, mergeL fs = some p ∧ p.extent = boundaryL (fs.map Fld.extent) ∧
      ∀ r c, p.emb r c = sumList fs (fun f => f.emb r c) := by
  have hs := mergeL_isSome fs
  cases h : mergeL fs with
  | none => rw [h] at hs; cases hs
  | some p => exact ⟨p, rfl, mergeL_extent fs hne hpos p h, fun r c => mergeL_emb fs hne hpos p h r c⟩
/-- the former corner: (1, 1) arrays on the origin pixel merge to a (1, 1) array holding their sum (witness of the fixed
defect: `reduce([Field([[2.]]), Field([[3j]])])` used to raise ValueError) -/
example : (mergeL [(⟨⟨1, 1, fun _ _ => (5 : Int)⟩, 0, 0⟩ : Fld Int)]).map (fun p => (p.arr.s0, p.arr.s1, p.extent, p.emb 0 0)) =
      some (1, 1, ⟨0, 0, 0, 0⟩, 5) ∧
    (mergeL [(⟨⟨1, 1, fun _ _ => (2 : Int)⟩, 0, 0⟩ : Fld Int), ⟨⟨1, 1, fun _ _ => 3⟩, 0, 0⟩]).map
      (fun p => (p.arr.s0, p.arr.s1, p.extent, p.emb 0 0)) = some (1, 1, ⟨0, 0, 0, 0⟩, 5) := by decide

/-- **a merge does not depend on the absolute position**: merging the fields moved by (d0, d1) gives the merge moved by
(d0, d1) — the same values at the shifted pixels of the plane, at any distance from the origin and on either side of it -/
theorem merge_translate {K : Type} [AddZeroClass K] (fs : List (Fld K)) (hne : fs ≠ [])
    (hpos : ∀ f ∈ fs, 0 < f.arr.s0 ∧ 0 < f.arr.s1) (d0 d1 : Int) (p p' : Fld K) (hp : mergeL fs = some p)
    (hp' : mergeL (fs.map fun f => f.translate d0 d1) = some p') (r c : Int) :
    p'.emb r c = p.emb (r - d0) (c - d1) := by
  rw [merge_emb fs hne hpos p hp (r - d0) (c - d1)]
  rw [merge_emb (fs.map fun f => f.translate d0 d1) (by simpa using hne) (by
    intro f hf; obtain ⟨f0, hf0, rfl⟩ := List.mem_map.mp hf; exact hpos f0 hf0) p' hp' r c]
  rw [sumList_map_comp]
  exact sumList_congr fs _ _ (fun f _ => Fld.translate_emb f d0 d1 r c)

/-- **a merge does not depend on the order of the fields**: any reordering merges to the same embedding -/
theorem merge_order_independent {K : Type} [AddCommMonoid K] (fs fs' : List (Fld K)) (hperm : fs.Perm fs') (hne : fs ≠ [])
    (hpos : ∀ f ∈ fs, 0 < f.arr.s0 ∧ 0 < f.arr.s1) (p p' : Fld K) (hp : mergeL fs = some p) (hp' : mergeL fs' = some p')
    (r c : Int) : p.emb r c = p'.emb r c := by
  have hne' : fs' ≠ [] := by
    intro h0; rw [h0] at hperm; exact hne hperm.eq_nil
  rw [merge_emb fs hne hpos p hp r c,
    merge_emb fs' hne' (fun f hf => hpos f (hperm.mem_iff.mpr hf)) p' hp' r c]
  exact sumList_perm hperm _
/-- non-vacuity: `N1`, `N2` moved by (+20, +30) and swapped -/
example : (mergeL ([Ex.N1, Ex.N2].map fun f => f.translate 20 30)).map (fun p => (p.extent, p.emb 15 25)) =
      (mergeL [Ex.N1, Ex.N2]).map (fun p => (p.extent.shift 20 30, p.emb (-5) (-5))) ∧
    (mergeL [Ex.N2, Ex.N1]).map (fun p => p.emb (-8) (-3)) = (mergeL [Ex.N1, Ex.N2]).map (fun p => p.emb (-8) (-3)) := by decide

/-- the per-field slice of `_merge_slices` (generated `Gen.mergeSlice`, general branch) is the closed form the hand model
`mergeL` writes in its guard (`e.rmin − b.rmin ≤ i < e.rmax − b.rmin + 1`, same for columns); and for a member extent
contained in the box it is in range of the merged array (`_merge_shape`) and has exactly the member's shape, so
`out[slc] += field.data` is well-formed -/
theorem merge_slices_spec (b e : Extent) :
    Gen.mergeSlice b.rmin b.rmax b.cmin b.cmax e.rmin e.rmax e.cmin e.cmax =
      ((e.rmin - b.rmin, e.rmax - b.rmin + 1), (e.cmin - b.cmin, e.cmax - b.cmin + 1)) ∧
    ((b.rmin ≤ e.rmin ∧ e.rmax ≤ b.rmax ∧ b.cmin ≤ e.cmin ∧ e.cmax ≤ b.cmax) →
      (0 ≤ e.rmin - b.rmin ∧ e.rmax - b.rmin + 1 ≤ b.nrow ∧ 0 ≤ e.cmin - b.cmin ∧ e.cmax - b.cmin + 1 ≤ b.ncol) ∧
      (e.rmax - b.rmin + 1 - (e.rmin - b.rmin) = e.nrow ∧ e.cmax - b.cmin + 1 - (e.cmin - b.cmin) = e.ncol)) := by
  refine ⟨by simp [Gen.mergeSlice], fun h => ?_⟩
  simp only [Extent.nrow, Extent.ncol]; omega
example : Gen.mergeSlice (-8) 0 (-6) 0 (-6) (-5) (-6) (-5) = ((2, 4), (0, 2)) := by decide

/-- **the origin branch of `_merge_slices`, regenerated (`Gen.mergeSlicesOrigin`: `rmin == 0 and rmax == 0 and cmin == 0 and
cmax == 0` → every slice is `Ellipsis`, the whole array)** agrees with the general slice formula the model `mergeL` uses
everywhere: the test holds exactly on the single-origin-pixel box, there the canvas of `_merge_shape` is (1, 1) (members not all
0-d) and the general slice of every non-empty member extent inside the box is `0:1, 0:1` — the whole array. So ignoring the
branch in `mergeL` loses nothing; a change of the branch test breaks this. -/
theorem merge_slices_origin_spec (b e : Extent) :
    (Gen.mergeSlicesOrigin b.rmin b.rmax b.cmin b.cmax = true ↔ b = ⟨0, 0, 0, 0⟩) ∧
    (Gen.mergeSlicesOrigin b.rmin b.rmax b.cmin b.cmax = true → e.rmin ≤ e.rmax ∧ e.cmin ≤ e.cmax →
      b.rmin ≤ e.rmin ∧ e.rmax ≤ b.rmax ∧ b.cmin ≤ e.cmin ∧ e.cmax ≤ b.cmax →
      Gen.mergeShape b.rmin b.rmax b.cmin b.cmax 0 = some (1, 1) ∧
      Gen.mergeSlice b.rmin b.rmax b.cmin b.cmax e.rmin e.rmax e.cmin e.cmax = ((0, 1), (0, 1))) := by
  obtain ⟨b0, b1, b2, b3⟩ := b
  constructor
  · simp only [Gen.mergeSlicesOrigin, Bool.and_eq_true, decide_eq_true_eq, Extent.mk.injEq]
    constructor
    · rintro ⟨⟨⟨h1, h2⟩, h3⟩, h4⟩; exact ⟨h1, h2, h3, h4⟩
    · rintro ⟨h1, h2, h3, h4⟩; exact ⟨⟨⟨h1, h2⟩, h3⟩, h4⟩
  · intro ho he hin
    simp only [Gen.mergeSlicesOrigin, Bool.and_eq_true, decide_eq_true_eq] at ho
    obtain ⟨⟨⟨h1, h2⟩, h3⟩, h4⟩ := ho
    simp only at h1 h2 h3 h4 hin
    subst h1 h2 h3 h4
    have e1 : e.rmin = 0 := by omega
    have e2 : e.rmax = 0 := by omega
    have e3 : e.cmin = 0 := by omega
    have e4 : e.cmax = 0 := by omega
    refine ⟨by decide, ?_⟩
    simp [Gen.mergeSlice, e1, e2, e3, e4]
example : Gen.mergeSlicesOrigin 0 0 0 0 = true ∧ Gen.mergeSlicesOrigin 0 1 0 0 = false ∧ Gen.mergeSlicesOrigin (-1) 0 0 0 = false := by decide

/-! ### the statements of `_merge`, regenerated -/
section merge_flow
variable {K : Type} [AddMonoid K]

/-- **`lentil.field._merge`, run statement by statement from its regenerated description (`Gen.FieldMergeFlow`: zero canvas of
`_merge_shape`, `slices = _merge_slices(fields)`, `out[slc] += field.data` for each field in order, result offset
`_merge_offset`), is the closed-form model `mergeL`** every merge / reduce theorem of this file is about — for all lists of
fields (whatever the `np.ones` reading `one` would put on the canvas). Overwriting instead of accumulating, starting from a
canvas that is not zero, or taking the shape / slices / offset from another helper changes the generated definitions and
breaks this proof. -/
theorem merge_flow_spec (one : K) (fs : List (Fld K)) : mergeFlowL one fs = mergeL fs := by
  dsimp only [mergeFlowL, mergeL, Gen.mergeCanvasShape]
  cases Gen.mergeShape (boundaryL (fs.map Fld.extent)).rmin (boundaryL (fs.map Fld.extent)).rmax
      (boundaryL (fs.map Fld.extent)).cmin (boundaryL (fs.map Fld.extent)).cmax 0 with
  | none => rfl
  | some shp =>
    simp only [Gen.mergeCanvasFill, Gen.mergeLoopInPlace, Gen.mergeFieldSlice, Gen.mergeResultOffset, if_true, sumList]
    simp only [foldl_guarded_add (K := K)]
    rfl

/-- two overlapping 2×2 fields of ones: the canvas run statement by statement holds 2 on the common pixel -/
example : ((mergeFlowL (7 : Int) [⟨⟨2, 2, fun _ _ => 1⟩, 0, 0⟩, ⟨⟨2, 2, fun _ _ => 1⟩, 1, 1⟩]).map
    fun p => (p.arr.s0, p.arr.s1, p.o0, p.o1, p.arr.get 1 1, p.arr.get 0 0, p.arr.get 2 0)) = some (3, 3, 0, 0, 2, 1, 0) := rfl

end merge_flow

/-! ## Bounding box (`lentil.field.boundary`) -/

/-- `boundary` for any list of extents: the box contains every extent, and each side is either attained by a member or still at
its initial value (`Gen.boundaryInit` = `(sys.maxsize, −sys.maxsize, sys.maxsize, −sys.maxsize)`, `sys.maxsize = 2^63 − 1`) —
which happens only for the empty list or for extents beyond ±`sys.maxsize` -/
theorem boundary_is_bbox_general (es : List Extent) :
    (∀ e ∈ es, (boundaryL es).rmin ≤ e.rmin ∧ e.rmax ≤ (boundaryL es).rmax ∧
               (boundaryL es).cmin ≤ e.cmin ∧ e.cmax ≤ (boundaryL es).cmax) ∧
    ((boundaryL es).rmin ≤ 9223372036854775807 ∧ -9223372036854775807 ≤ (boundaryL es).rmax ∧
     (boundaryL es).cmin ≤ 9223372036854775807 ∧ -9223372036854775807 ≤ (boundaryL es).cmax) ∧
    ((boundaryL es).rmin = 9223372036854775807 ∨ ∃ e ∈ es, e.rmin = (boundaryL es).rmin) ∧
    ((boundaryL es).rmax = -9223372036854775807 ∨ ∃ e ∈ es, e.rmax = (boundaryL es).rmax) ∧
    ((boundaryL es).cmin = 9223372036854775807 ∨ ∃ e ∈ es, e.cmin = (boundaryL es).cmin) ∧
    ((boundaryL es).cmax = -9223372036854775807 ∨ ∃ e ∈ es, e.cmax = (boundaryL es).cmax) := by
  rw [boundaryL_eq, boundaryInit_eq]
  refine ⟨fun e he => fold_contains es _ e he, ?_, fold_attained es _⟩
  have := fold_mono es ⟨9223372036854775807, -9223372036854775807, 9223372036854775807, -9223372036854775807⟩
  simp only at this
  exact ⟨this.1, this.2.1, this.2.2.1, this.2.2.2⟩

/-- **`boundary` is exactly the bounding box of the pixel sets** `(min rmin, max rmax, min cmin, max cmax)` (`IsBBox`: contains
every member, every side attained by a member), for **every non-empty collection** of extents within ±`sys.maxsize` — wherever
the fields lie: straddling the origin, wholly positive, wholly negative (before the /repo fix of the initial value the max
sides never went below 0, so `overlap` could report fields that share no pixel as overlapping) -/
theorem boundary_is_bbox (es : List Extent) (hne : es ≠ [])
    (hM : ∀ e ∈ es, e.rmin ≤ 9223372036854775807 ∧ -9223372036854775807 ≤ e.rmax ∧
                    e.cmin ≤ 9223372036854775807 ∧ -9223372036854775807 ≤ e.cmax) :
    IsBBox (boundaryL es) es := by
  obtain ⟨hcont, _, a1, a2, a3, a4⟩ := boundary_is_bbox_general es
  obtain ⟨e, he⟩ := List.exists_mem_of_ne_nil es hne
  have hc := hcont e he
  have hm := hM e he
  refine ⟨hcont, ?_, ?_, ?_, ?_⟩
  · rcases a1 with h | h
    · exact ⟨e, he, by omega⟩
    · exact h
  · rcases a2 with h | h
    · exact ⟨e, he, by omega⟩
    · exact h
  · rcases a3 with h | h
    · exact ⟨e, he, by omega⟩
    · exact h
  · rcases a4 with h | h
    · exact ⟨e, he, by omega⟩
    · exact h

/-- non-vacuity: two extents straddling the origin; the box is their exact bounding box -/
example : boundaryL [⟨-3, 1, 2, 4⟩, ⟨0, 2, -5, 0⟩] = ⟨-3, 2, -5, 4⟩ := by decide
/-- wholly negative extents: the exact bounding box too (witness of the fixed defect: it used to be ⟨-9, 0, -8, 0⟩) -/
example : boundaryL [⟨-9, -7, -4, -3⟩, ⟨-6, -5, -8, -6⟩] = ⟨-9, -5, -8, -3⟩ := by decide

/-- **the bounding box does not depend on the order of the fields** (nor on repetitions): collections with the same
members have the same `boundary` -/
theorem boundary_order_independent (es es' : List Extent) (hne : es ≠ [])
    (hM : ∀ e ∈ es, e.rmin ≤ 9223372036854775807 ∧ -9223372036854775807 ≤ e.rmax ∧
                    e.cmin ≤ 9223372036854775807 ∧ -9223372036854775807 ≤ e.cmax)
    (hm : ∀ e, e ∈ es ↔ e ∈ es') : boundaryL es = boundaryL es' := by
  have hne' : es' ≠ [] := by
    obtain ⟨e, he⟩ := List.exists_mem_of_ne_nil es hne
    exact List.ne_nil_of_mem ((hm e).mp he)
  have h1 := (boundary_is_bbox es hne hM).of_mem_iff hm
  have h2 := boundary_is_bbox es' hne' (fun e he => hM e ((hm e).mpr he))
  exact h1.unique h2

/-- **the bounding box does not depend on the absolute position**: moving every extent by (d0, d1) moves `boundary` by
(d0, d1) — at any distance from the origin and on either side of it (false before the /repo fix of the initial value:
a wholly negative collection moved to positive coordinates lost the rows/columns up to 0) -/
theorem boundary_translate (es : List Extent) (hne : es ≠ []) (d0 d1 : Int)
    (hM : ∀ e ∈ es, e.rmin ≤ 9223372036854775807 ∧ -9223372036854775807 ≤ e.rmax ∧
                    e.cmin ≤ 9223372036854775807 ∧ -9223372036854775807 ≤ e.cmax)
    (hM' : ∀ e ∈ es, e.rmin + d0 ≤ 9223372036854775807 ∧ -9223372036854775807 ≤ e.rmax + d0 ∧
                     e.cmin + d1 ≤ 9223372036854775807 ∧ -9223372036854775807 ≤ e.cmax + d1) :
    boundaryL (es.map fun e => e.shift d0 d1) = (boundaryL es).shift d0 d1 := by
  have h1 := (boundary_is_bbox es hne hM).shift d0 d1
  have h2 := boundary_is_bbox (es.map fun e => e.shift d0 d1) (by simpa using hne) (by
    intro e he
    obtain ⟨e0, he0, rfl⟩ := List.mem_map.mp he
    exact hM' e0 he0)
  exact h2.unique h1
/-- non-vacuity: the wholly negative pair moved by (+20, +30) and listed in the other order -/
example : boundaryL (([⟨-9, -7, -4, -3⟩, ⟨-6, -5, -8, -6⟩] : List Extent).map fun e => e.shift 20 30) = ⟨11, 15, 22, 27⟩ ∧
    boundaryL [⟨-6, -5, -8, -6⟩, ⟨-9, -7, -4, -3⟩] = boundaryL [⟨-9, -7, -4, -3⟩, ⟨-6, -5, -8, -6⟩] := by decide

/-- the merged array of a moved collection (`merge_translate`) occupies the moved box (extents within ±(2^63 − 1) before and after the move) -/
theorem merge_translate_extent {K : Type} [AddZeroClass K] (fs : List (Fld K)) (hne : fs ≠ [])
    (hpos : ∀ f ∈ fs, 0 < f.arr.s0 ∧ 0 < f.arr.s1) (d0 d1 : Int) (p p' : Fld K) (hp : mergeL fs = some p)
    (hp' : mergeL (fs.map fun f => f.translate d0 d1) = some p')
    (hM : ∀ e ∈ fs.map Fld.extent, e.rmin ≤ 9223372036854775807 ∧ -9223372036854775807 ≤ e.rmax ∧
                    e.cmin ≤ 9223372036854775807 ∧ -9223372036854775807 ≤ e.cmax)
    (hM' : ∀ e ∈ fs.map Fld.extent, e.rmin + d0 ≤ 9223372036854775807 ∧ -9223372036854775807 ≤ e.rmax + d0 ∧
                     e.cmin + d1 ≤ 9223372036854775807 ∧ -9223372036854775807 ≤ e.cmax + d1) :
    p'.extent = p.extent.shift d0 d1 := by
  rw [mergeL_extent fs hne hpos p hp]
  rw [mergeL_extent (fs.map fun f => f.translate d0 d1) (by simpa using hne) (by
    intro f hf; obtain ⟨f0, hf0, rfl⟩ := List.mem_map.mp hf; exact hpos f0 hf0) p' hp']
  have hmap : (fs.map fun f => f.translate d0 d1).map Fld.extent = (fs.map Fld.extent).map fun e => e.shift d0 d1 := by
    rw [List.map_map, List.map_map]; apply List.map_congr_left; intro f _; exact Fld.translate_extent f d0 d1
  rw [hmap]
  exact boundary_translate (fs.map Fld.extent) (by simpa using hne) d0 d1 hM hM'

/-! ## Reduce -/
section reduce
variable {K : Type}

/-- **`_disjoint` terminates within as many merge steps as there are groups** (every step removes one group; the Python
function is a `while` loop around the pair scan — one model step per iteration, `disjoint_succ_some` — so it needs no stack
and has no bound on the number of fields): with fuel = number of groups the result is a fixed
point — no pair of groups with intersecting cached extents is left -/
theorem reduce_terminates (fuel : Nat) (gs : List (Group K)) (h : gs.length ≤ fuel) :
    firstPair (disjoint fuel gs) = none :=
  disjoint_fixed fuel gs h

/-- a fixed point of `_disjoint` has pairwise non-intersecting cached extents -/
theorem reduce_fixed_point_disjoint (gs : List (Group K)) (h : firstPair gs = none)
    (m k : Nat) (hmk : m < k) (hk : k < gs.length) :
    intersect (gs[m]'(by omega)).extent gs[k].extent = false :=
  firstPair_none gs h m k hmk hk

/-- the fixed point of `_disjoint` is characterised exactly, for **any number of groups**: nothing is found iff no two cached
extents intersect — with the inclusive test, so groups sharing a single pixel row or column are still merged -/
theorem reduce_fixed_point_iff (gs : List (Group K)) :
    firstPair gs = none ↔
      ∀ (m k : Nat) (_ : m < k) (hk : k < gs.length), intersect (gs[m]'(by omega)).extent gs[k].extent = false :=
  firstPair_none_iff gs
/-- extents that share exactly one pixel row (row 2) intersect; abutting ones (rows 0..2 and 3..5) do not -/
example : intersect ⟨0, 2, 0, 2⟩ ⟨2, 4, 0, 2⟩ = true ∧ intersect ⟨0, 2, 0, 2⟩ ⟨3, 5, 0, 2⟩ = false ∧
    intersect ⟨0, 2, 0, 2⟩ ⟨2, 4, 2, 4⟩ = true := by decide

/-- **`_disjoint`, as recognised in the source** (`Gen.disjointStep`; the recogniser accepts exactly the loop
`merged = True; while merged: merged = False; for m, n in combinations(range(len(fields)), 2): if <extents intersect>:
<step>; merged = True; break` followed by `return fields`): scan the pairs in `combinations` order, apply the step to the
first intersecting pair, rescan the shortened list, stop when a scan finds none. The step constants say which group of the
pair `(m, n)` is kept, whose fields are appended, whose extent is recomputed with `boundary`, which is popped (m = 0, n = 1):
keep `m`, append `n`'s fields, recompute `m`, pop `n` — the step of the model (`disjoint_succ_some`); the loop's iterations
are the model's fuel steps (`reduce_terminates`: at most one per group) and its exit test is `reduce_fixed_point_iff` -/
theorem disjoint_step_spec : Gen.disjointStep = (0, 1, 0, 1) := rfl

/-- the group invariant (`Group.wf`: member fields of positive shape; a singleton group caches its field's extent; a
group of ≥ 2 fields caches `boundary` of its members) holds initially and is preserved by every step of `_disjoint` -/
theorem reduce_group_invariant (fs : List (Fld K)) (hpos : ∀ f ∈ fs, 0 < f.arr.s0 ∧ 0 < f.arr.s1) (fuel : Nat) :
    ∀ g ∈ disjoint fuel (fs.map Group.single), g.wf := by
  apply disjoint_wf
  intro g hg
  obtain ⟨f, hf, rfl⟩ := List.mem_map.mp hg
  exact Group.single_wf f (hpos f hf)

/-- the step itself: merging two well-formed groups gives a well-formed group of ≥ 2 fields (so `Group.wf` pins its cached extent to `boundary` of the members) -/
theorem reduce_step_invariant (a b : Group K) (ha : a.wf) (hb : b.wf) :
    (mergeGroups a b).wf ∧ 2 ≤ (mergeGroups a b).fields.length := by
  have h := mergeGroups_wf a b ha hb
  refine ⟨h, ?_⟩
  rcases h.ext with ⟨f, hf, _⟩ | ⟨hl, _⟩
  · have h1 := List.length_pos_of_ne_nil ha.ne_nil
    have h2 := List.length_pos_of_ne_nil hb.ne_nil
    have := congrArg List.length hf
    simp only [mergeGroups, List.length_append, List.length_singleton] at this
    omega
  · exact hl

/-- non-vacuity of the group invariant: it holds for the groups of the example collection, whose merged group has two
members and caches `boundary` of them -/
example : (∀ f ∈ [Ex.A, Ex.C, Ex.B], 0 < f.arr.s0 ∧ 0 < f.arr.s1) ∧
    (disjoint 3 ([Ex.A, Ex.C, Ex.B].map Group.single)).map (fun g => (g.fields.length, g.extent)) =
      [(2, ⟨-1, 1, -1, 2⟩), (1, ⟨5, 5, -6, -5⟩)] := by decide

end reduce

section reduce_out
variable {K : Type} [AddCommMonoid K]

/-- **the reduced fields are pairwise non-overlapping**: for positive-shape inputs for which no merge hits the
single-origin-pixel corner (every element of `reduce fs` is a field: `reduce fs = out.map some`), the extents of any two
output fields do not intersect -/
theorem reduce_disjoint (fs : List (Fld K)) (hpos : ∀ f ∈ fs, 0 < f.arr.s0 ∧ 0 < f.arr.s1)
    (out : List (Fld K)) (hout : reduce fs = out.map some) (i j : Nat) (hij : i < j) (hj : j < out.length) :
    intersect (out[i]'(by omega)).extent out[j].extent = false := by
  rw [reduce_eq] at hout
  have hwf := reduce_group_invariant fs hpos fs.length
  obtain ⟨hext, _⟩ := map_out_spec _ out hwf hout
  have hfix := disjoint_fixed fs.length (fs.map Group.single) (by rw [List.length_map]; exact Nat.le_refl _)
  have hlen : out.length = (disjoint fs.length (fs.map Group.single)).length := by
    have := congrArg List.length hext; simpa using this
  have := firstPair_none _ hfix i j hij (by omega)
  have e1 := List.getElem_of_eq hext (i := i) (by rw [List.length_map]; omega)
  have e2 := List.getElem_of_eq hext (i := j) (by rw [List.length_map]; omega)
  simp only [List.getElem_map] at e1 e2
  rw [e1, e2]; exact this

/-- … hence no pixel of the plane lies in two output fields -/
theorem reduce_no_common_pixel (fs : List (Fld K)) (hpos : ∀ f ∈ fs, 0 < f.arr.s0 ∧ 0 < f.arr.s1)
    (out : List (Fld K)) (hout : reduce fs = out.map some) (i j : Nat) (hij : i < j) (hj : j < out.length) (r c : Int) :
    ¬ ((out[i]'(by omega)).extent.mem r c ∧ out[j].extent.mem r c) := by
  have h := not_intersect_inb _ _ (reduce_disjoint fs hpos out hout i j hij hj) r c
  rw [Bool.eq_false_iff] at h
  intro hh; apply h
  rw [Bool.and_eq_true, Extent.inb_iff_mem, Extent.inb_iff_mem]; exact hh

/-- `reduce_disjoint` in `List.Pairwise` / `Extent.inb` form (the form consumed by C07/C03): no pixel of the plane lies in
two of the reduced fields -/
theorem reduce_pairwise_disjoint (data : List (Fld K)) (hpos : ∀ f ∈ data, 0 < f.arr.s0 ∧ 0 < f.arr.s1)
    (gs : List (Fld K)) (hred : reduce data = gs.map some) :
    gs.Pairwise (fun a b => ∀ r c, ¬(a.extent.inb r c = true ∧ b.extent.inb r c = true)) := by
  rw [List.pairwise_iff_getElem]
  intro i j hi hj hij r c hh
  have h := not_intersect_inb _ _ (reduce_disjoint data hpos gs hred i j hij hj) r c
  rw [Bool.eq_false_iff] at h
  apply h
  rw [Bool.and_eq_true]; exact hh

/-- **reduce preserves the total**: at every pixel of the infinite plane the sum of the embeddings of the output fields
equals the sum of the embeddings of the input fields (same hypotheses) -/
theorem reduce_total (fs : List (Fld K)) (hpos : ∀ f ∈ fs, 0 < f.arr.s0 ∧ 0 < f.arr.s1)
    (out : List (Fld K)) (hout : reduce fs = out.map some) (r c : Int) :
    sumList out (fun f => f.emb r c) = sumList fs (fun f => f.emb r c) := by
  rw [reduce_eq] at hout
  have hwf := reduce_group_invariant fs hpos fs.length
  obtain ⟨_, hemb⟩ := map_out_spec _ out hwf hout
  rw [sumList_eq_sum, sumList_eq_sum, hemb r c]
  exact (disjoint_total (fun f => f.emb r c) fs.length _).trans (single_total _ fs)

/-- **totality of `reduce`**: every element of `reduce fs` is a field, for every collection of array fields of any size (since
the /repo fixes no merge can raise and `_disjoint` is a loop: no recursion limit applies) -/
theorem reduce_defined (fs : List (Fld K)) : ∃ out : List (Fld K), reduce fs = out.map some :=
  exists_eq_map_some _ (reduce_isSome fs)

/-- **reduce, unconditionally**: for every collection of positive-shape array fields the result is a list of fields,
pairwise sharing no pixel, whose embeddings sum to the sum of the inputs at every pixel of the plane — no hypothesis on
the output, none on where the fields lie -/
theorem reduce_spec (fs : List (Fld K)) (hpos : ∀ f ∈ fs, 0 < f.arr.s0 ∧ 0 < f.arr.s1) :
    ∃ out : List (Fld K), reduce fs = out.map some ∧
      out.Pairwise (fun a b => ∀ r c, ¬(a.extent.inb r c = true ∧ b.extent.inb r c = true)) ∧
      ∀ r c, sumList out (fun f => f.emb r c) = sumList fs (fun f => f.emb r c) := by
  obtain ⟨out, hout⟩ := reduce_defined fs
  exact ⟨out, hout, reduce_pairwise_disjoint fs hpos out hout, fun r c => reduce_total fs hpos out hout r c⟩

/-- the class every wavefront built from array planes is in (all fields have more than one element); kept for its users —
since the fix it is `reduce_spec`, which needs no such hypothesis -/
theorem reduce_arrays (fs : List (Fld K)) (hpos : ∀ f ∈ fs, 0 < f.arr.s0 ∧ 0 < f.arr.s1)
    (_hmulti : ∀ f ∈ fs, f.size1 = false) :
    ∃ out : List (Fld K), reduce fs = out.map some ∧
      out.Pairwise (fun a b => ∀ r c, ¬(a.extent.inb r c = true ∧ b.extent.inb r c = true)) ∧
      ∀ r c, sumList out (fun f => f.emb r c) = sumList fs (fun f => f.emb r c) :=
  reduce_spec fs hpos
/-- the former corner inside `reduce`: two (1, 1) arrays on the origin pixel and a bystander -/
example : (reduce [(⟨⟨1, 1, fun _ _ => (2 : Int)⟩, 0, 0⟩ : Fld Int), Ex.C, ⟨⟨1, 1, fun _ _ => 3⟩, 0, 0⟩]).map
      (fun o => o.map fun p => (p.extent, p.emb 0 0)) = [some (⟨0, 0, 0, 0⟩, 5), some (Ex.C.extent, 0)] := by decide
/-- non-vacuity: the example collection consists of multi-element fields -/
example : ∀ f ∈ [Ex.A, Ex.C, Ex.B], (0 < f.arr.s0 ∧ 0 < f.arr.s1) ∧ f.size1 = false := by decide

/-- **the reduced total does not depend on the absolute position**: reducing the collection moved by (d0, d1) yields fields
whose total is the original reduced total read at (r − d0, c − d1) -/
theorem reduce_translate_total (fs : List (Fld K)) (hpos : ∀ f ∈ fs, 0 < f.arr.s0 ∧ 0 < f.arr.s1) (d0 d1 : Int)
    (out out' : List (Fld K)) (hout : reduce fs = out.map some)
    (hout' : reduce (fs.map fun f => f.translate d0 d1) = out'.map some) (r c : Int) :
    sumList out' (fun f => f.emb r c) = sumList out (fun f => f.emb (r - d0) (c - d1)) := by
  rw [reduce_total fs hpos out hout (r - d0) (c - d1)]
  rw [reduce_total (fs.map fun f => f.translate d0 d1) (by
    intro f hf; obtain ⟨f0, hf0, rfl⟩ := List.mem_map.mp hf; exact hpos f0 hf0) out' hout' r c]
  rw [sumList_map_comp]
  exact sumList_congr fs _ _ (fun f _ => Fld.translate_emb f d0 d1 r c)

/-- **the reduced total does not depend on the order of the fields** -/
theorem reduce_order_total (fs fs' : List (Fld K)) (hperm : fs.Perm fs') (hpos : ∀ f ∈ fs, 0 < f.arr.s0 ∧ 0 < f.arr.s1)
    (out out' : List (Fld K)) (hout : reduce fs = out.map some) (hout' : reduce fs' = out'.map some) (r c : Int) :
    sumList out (fun f => f.emb r c) = sumList out' (fun f => f.emb r c) := by
  rw [reduce_total fs hpos out hout r c,
    reduce_total fs' (fun f hf => hpos f (hperm.mem_iff.mpr hf)) out' hout' r c]
  exact sumList_perm hperm _
/-- the unconditional statements instantiated on the example collection (three multi-element fields, one merge) -/
example : ∃ out : List (Fld Int), reduce [Ex.A, Ex.C, Ex.B] = out.map some ∧
    out.Pairwise (fun a b => ∀ r c, ¬(a.extent.inb r c = true ∧ b.extent.inb r c = true)) ∧
    ∀ r c, sumList out (fun f => f.emb r c) = sumList [Ex.A, Ex.C, Ex.B] (fun f => f.emb r c) :=
  reduce_spec [Ex.A, Ex.C, Ex.B] (by decide)
example : ∃ p, mergeL [Ex.N1, Ex.N2] = some p ∧ p.extent = boundaryL ([Ex.N1, Ex.N2].map Fld.extent) ∧
    ∀ r c, p.emb r c = sumList [Ex.N1, Ex.N2] (fun f => f.emb r c) :=
  merge_spec [Ex.N1, Ex.N2] (by decide) (by decide)

/-- `reduce` never returns more fields than it was given, and returns one field per final group -/
theorem reduce_length_le (fs : List (Fld K)) : (reduce fs).length ≤ fs.length := by
  rw [reduce_eq, List.length_map]
  have := disjoint_induction (K := K) (fun gs => gs.length ≤ fs.length)
    (fun gs m k _ hk _ hP => by rw [step_length gs m k _ hk]; omega) fs.length (fs.map Group.single)
    (by rw [List.length_map]; exact Nat.le_refl _)
  exact this

/-! non-vacuity of the `reduce` theorems: `A` and `B` share a pixel, `C` is far away (`Lentil.Ex` in Lemmas/Reduce.lean) -/
example : Ex.A.extent = ⟨-1, 0, -1, 0⟩ ∧ Ex.B.extent = ⟨0, 1, 0, 2⟩ ∧ Ex.C.extent = ⟨5, 5, -6, -5⟩ ∧
    Ex.D.extent = ⟨-1, -1, 1, 2⟩ := by decide
/-- the hypotheses of `reduce_disjoint`/`reduce_total` are satisfiable by a non-trivial collection: three fields, one
merge, two output fields -/
example : (∀ f ∈ [Ex.A, Ex.C, Ex.B], 0 < f.arr.s0 ∧ 0 < f.arr.s1) ∧
    ∃ out : List (Fld Int), reduce [Ex.A, Ex.C, Ex.B] = out.map some ∧ out.length = 2 := by
  refine ⟨by decide, ?_⟩
  obtain ⟨out, h⟩ := exists_eq_map_some (reduce [Ex.A, Ex.C, Ex.B]) (by decide)
  refine ⟨out, h, ?_⟩
  have := congrArg List.length h
  rw [List.length_map] at this
  rw [← this]; decide
/-- … and what comes out: the merged box of `A ∪ B` with `A(0,0) + B(0,0) = 4 + 10` at the shared pixel, and `C` untouched -/
example : (reduce [Ex.A, Ex.C, Ex.B]).map (fun o => o.map fun p => (p.extent, p.emb 0 0, p.emb 5 (-5))) =
    [some (⟨-1, 1, -1, 2⟩, 14, 0), some (⟨5, 5, -6, -5⟩, 0, 8)] := by decide
/-- the bounding box of a merged group can swallow a field that met neither member: `D` joins `A ∪ B` in a second step -/
example : (reduce [Ex.A, Ex.B, Ex.D]).map (fun o => o.map fun p => (p.extent, p.emb (-1) 1)) =
    [some (⟨-1, 1, -1, 2⟩, 100)] := by decide
/-- fixed point / termination on the same collection, with the minimal fuel -/
example : firstPair (disjoint 3 ([Ex.A, Ex.C, Ex.B].map Group.single)) = none ∧
    firstPair ([Ex.A, Ex.C, Ex.B].map Group.single) = some (0, 2) := by decide

/-- **reducing a collection that is already pairwise non-overlapping changes nothing**: every field comes back as it is, in
order (no merge, no copy of the data) -/
theorem reduce_of_disjoint (fs : List (Fld K))
    (hdis : ∀ (i j : Nat) (_ : i < j) (hj : j < fs.length), intersect (fs[i]'(by omega)).extent fs[j].extent = false) :
    reduce fs = fs.map some := by
  rw [reduce_eq]
  have hfp : firstPair (fs.map Group.single) = none := by
    rw [firstPair_none_iff]
    intro m k hmk hk
    rw [List.length_map] at hk
    simp only [List.getElem_map]
    exact hdis m k hmk hk
  have hd : disjoint fs.length (fs.map Group.single) = fs.map Group.single := by
    cases fs.length with
    | zero => rfl
    | succ n => exact disjoint_succ_none n _ hfp
  rw [hd, List.map_map]
  apply List.map_congr_left
  intro f _
  rfl
/-- non-vacuity: `A` and `C` share no pixel -/
example : intersect Ex.A.extent Ex.C.extent = false ∧
    (reduce [Ex.A, Ex.C]).map (fun o => o.map Fld.extent) = [some Ex.A.extent, some Ex.C.extent] := by decide

/-- … and `reduce` is idempotent: reducing its own output returns it unchanged -/
theorem reduce_idempotent (fs : List (Fld K)) (hpos : ∀ f ∈ fs, 0 < f.arr.s0 ∧ 0 < f.arr.s1)
    (out : List (Fld K)) (hout : reduce fs = out.map some) : reduce out = out.map some :=
  reduce_of_disjoint out (fun i j hij hj => reduce_disjoint fs hpos out hout i j hij hj)

end reduce_out

/-! ## 0-d data (what `Wavefront.__init__` creates): merge / reduce / public `merge` and `overlap`, 0-d aware

`ZFld` = field + flag "data is a 0-d array" (`Model/FieldZ.lean`). A 0-d field is a 1×1 array everywhere except in
`_merge` on a collection whose bounding box is the single origin pixel: there the result is 0-d iff every member is, and
a (1, 1) array otherwise. (Two fixed defects: before /repo fix 5cccd0c only the first member was kept —
`reduce([Field(2), Field(3)])` returned 2; before the `_merge_shape` fix a (1, 1) array member made NumPy raise. Corpus
cases `tools/corpus/C06/kf_merge_0d_origin*.json`, `kf_merge_1x1_origin*.json`.) -/
section zerod
variable {K : Type}

/-- **a 0-d aware merge is the sum of the embeddings and occupies the `boundary` box**, for every non-empty collection
(`_merge` always answers: `mergeZ_total`) — including 0-d fields and (1, 1) arrays at the origin -/
theorem mergeZ_emb [AddZeroClass K] (zs : List (ZFld K)) (hne : zs ≠ [])
    (hpos : ∀ z ∈ zs, 0 < z.fld.arr.s0 ∧ 0 < z.fld.arr.s1) (p : ZFld K) (h : mergeZ zs = some p) :
    p.fld.extent = boundaryL (zs.map fun z => z.fld.extent) ∧
    ∀ r c, p.fld.emb r c = sumList zs (fun z => z.fld.emb r c) :=
  mergeZ_spec zs hne hpos p h

/-- **`_merge` never raises** (0-d members, (1, 1) arrays, any mix, anywhere) -/
theorem mergeZ_total [Add K] [Zero K] (zs : List (ZFld K)) : ∃ p, mergeZ zs = some p := by
  have hs := mergeZ_isSome zs
  cases h : mergeZ zs with
  | none => rw [h] at hs; cases hs
  | some p => exact ⟨p, rfl⟩

/-- the merged data is 0-d exactly when the box is the single origin pixel and every member is 0-d -/
theorem mergeZ_zero_d_iff [Add K] [Zero K] (zs : List (ZFld K)) (p : ZFld K) (h : mergeZ zs = some p) :
    p.zd = true ↔ (boundaryL (zs.map fun z => z.fld.extent) = ⟨0, 0, 0, 0⟩ ∧ (zs.all fun z => z.zd) = true) :=
  mergeZ_zd zs p h

/-- the 0-d aware model refines the plain-array one: unless the collection is all-0-d on the origin pixel (where the
result is 0-d), `mergeZ` gives the field `mergeL` gives -/
theorem mergeZ_refines_merge [Add K] [Zero K] (zs : List (ZFld K)) (p : Fld K)
    (hz : (zs.all fun z => z.zd) = false ∨ boundaryL (zs.map fun z => z.fld.extent) ≠ ⟨0, 0, 0, 0⟩)
    (h : mergeL (zs.map fun z => z.fld) = some p) : mergeZ zs = some { fld := p, zd := false } :=
  mergeZ_of_mergeL zs p hz h

/-- the witnesses of the two fixed defects now add up: two 0-d fields at the origin merge to their 0-d sum; a 0-d field and a
(1, 1) array at the origin merge to a (1, 1) array holding the sum -/
example : (mergeZ [(⟨⟨⟨1, 1, fun _ _ => (2 : Int)⟩, 0, 0⟩, true⟩ : ZFld Int), ⟨⟨⟨1, 1, fun _ _ => 3⟩, 0, 0⟩, true⟩]).map
      (fun p => (p.fld.extent, p.fld.emb 0 0, p.zd)) = some (⟨0, 0, 0, 0⟩, 5, true) ∧
    (mergeZ [(⟨⟨⟨1, 1, fun _ _ => (2 : Int)⟩, 0, 0⟩, true⟩ : ZFld Int), ⟨⟨⟨1, 1, fun _ _ => 3⟩, 0, 0⟩, false⟩]).map
      (fun p => (p.fld.extent, p.fld.emb 0 0, p.zd)) = some (⟨0, 0, 0, 0⟩, 5, false) := by
  decide

/-- **public `merge(a, b, enforce_overlap)`**, in terms of pixels and embeddings (positive shapes): an accepted merge is the
sum of the two embeddings and — when overlap is enforced — the operands do share a pixel; it is refused when overlap is
enforced and no pixel is shared — and only then (`_merge` itself never refuses: `mergeZ_total`). -/
theorem merge_public_emb [AddZeroClass K] (a b : ZFld K) (enforce : Bool)
    (ha : 0 < a.fld.arr.s0 ∧ 0 < a.fld.arr.s1) (hb : 0 < b.fld.arr.s0 ∧ 0 < b.fld.arr.s1) :
    (∀ p, mergePublic a b enforce = some p →
      (enforce = true → ∃ r c, a.fld.extent.mem r c ∧ b.fld.extent.mem r c) ∧
      ∀ r c, p.fld.emb r c = a.fld.emb r c + b.fld.emb r c) ∧
    ((enforce = true ∧ ¬ ∃ r c, a.fld.extent.mem r c ∧ b.fld.extent.mem r c) → mergePublic a b enforce = none) := by
  have hiff := intersect_iff a.fld.extent b.fld.extent (a.fld.extent_valid ha) (b.fld.extent_valid hb)
  rw [mergePublic_eq]
  constructor
  · intro p hp
    by_cases hc : enforce = true ∧ intersect a.fld.extent b.fld.extent = false
    · rw [if_pos hc] at hp; cases hp
    · rw [if_neg hc] at hp
      refine ⟨fun he => ?_, fun r c => ?_⟩
      · rw [← hiff]
        cases hi : intersect a.fld.extent b.fld.extent with
        | true => rfl
        | false => exact absurd ⟨he, hi⟩ hc
      · have := (mergeZ_spec [a, b] (by simp) (by
          intro z hz; simp only [List.mem_cons, List.not_mem_nil, or_false] at hz
          rcases hz with rfl | rfl
          · exact ha
          · exact hb) p hp).2 r c
        rw [this]; simp [sumList]
  · rintro ⟨he, hno⟩
    rw [← hiff] at hno
    have : intersect a.fld.extent b.fld.extent = false := by simpa using hno
    rw [if_pos ⟨he, this⟩]

/-- **public `overlap` of exactly two fields**: true iff they share a pixel of the plane -/
theorem overlap_two_iff (a b : Fld K) (ha : 0 < a.arr.s0 ∧ 0 < a.arr.s1) (hb : 0 < b.arr.s0 ∧ 0 < b.arr.s1) :
    overlapL [a, b] = true ↔ ∃ r c, a.extent.mem r c ∧ b.extent.mem r c := by
  rw [overlapL_two]; exact intersect_iff a.extent b.extent (a.extent_valid ha) (b.extent_valid hb)

/-- **public `overlap` of any other number of fields**: when it says `True`, `reduce` returns at most one field and that
field carries the whole collection (its embedding is the sum of all inputs at every pixel); when it says `False`,
`reduce` returns at least two fields, no two of which share a pixel (`reduce_pairwise_disjoint`) -/
theorem overlap_many_spec [AddCommMonoid K] (fs : List (Fld K)) (hn : fs.length ≠ 2)
    (hpos : ∀ f ∈ fs, 0 < f.arr.s0 ∧ 0 < f.arr.s1) (out : List (Fld K)) (hout : reduce fs = out.map some) :
    (overlapL fs = true → out.length ≤ 1 ∧ ∀ p ∈ out, ∀ r c, p.emb r c = sumList fs (fun f => f.emb r c)) ∧
    (overlapL fs = false → 2 ≤ out.length) := by
  have hlen : out.length = (reduce fs).length := by rw [hout, List.length_map]
  rw [overlapL_many fs hn]
  constructor
  · intro h
    have h1 : out.length ≤ 1 := by rw [hlen]; simpa using h
    refine ⟨h1, fun p hp r c => ?_⟩
    have ht := reduce_total fs hpos out hout r c
    match out, h1, hp with
    | [q], _, hp =>
      simp only [List.mem_singleton] at hp; subst hp
      rw [← ht]; simp [sumList]
  · intro h
    rw [hlen]; simp only [decide_eq_false_iff_not, not_le] at h; omega

/-- witness of the fixed `boundary` defect: two overlapping fields with wholly negative extents and a one-element field at
(−1, −1) that shares no pixel with them — `overlap` is False and `reduce` keeps two fields (the merged box used to reach up
to row/column 0 and swallow the third) -/
example : overlapL [Ex.N1, (⟨⟨2, 2, fun _ _ => (1 : Int)⟩, -6, -6⟩ : Fld Int), ⟨⟨1, 1, fun _ _ => 1⟩, -1, -1⟩] = false ∧
    (reduce [Ex.N1, (⟨⟨2, 2, fun _ _ => (1 : Int)⟩, -6, -6⟩ : Fld Int), ⟨⟨1, 1, fun _ _ => 1⟩, -1, -1⟩]).length = 2 := by decide

example : overlapL [Ex.A, Ex.B] = true ∧ overlapL [Ex.A, Ex.C] = false ∧ overlapL [Ex.A, Ex.B, Ex.D] = true ∧
    overlapL [Ex.A, Ex.C, Ex.B] = false ∧ overlapL [Ex.A] = true := by decide

end zerod

section zerod_reduce
variable {K : Type} [AddCommMonoid K]

/-- **0-d aware reduce: outputs pairwise non-overlapping** (every output a field: `reduceZ zs = out.map some`) -/
theorem reduceZ_disjoint (zs : List (ZFld K)) (hpos : ∀ z ∈ zs, 0 < z.fld.arr.s0 ∧ 0 < z.fld.arr.s1)
    (out : List (ZFld K)) (hout : reduceZ zs = out.map some) (i j : Nat) (hij : i < j) (hj : j < out.length) :
    intersect (out[i]'(by omega)).fld.extent out[j].fld.extent = false := by
  rw [reduceZ_eq] at hout
  obtain ⟨hext, _⟩ := map_outZ_spec _ out (reduceZ_groups_wf zs hpos) hout
  have hfix := disjoint_fixed (zs.map fun z => z.fld).length ((zs.map fun z => z.fld).map Group.single)
    (by rw [List.length_map]; exact Nat.le_refl _)
  rw [← reduceZ_groups_toG] at hfix
  have hlen : out.length = (disjointZ zs.length (zs.map GroupZ.single)).length := by
    have := congrArg List.length hext; simpa using this
  have := firstPair_none _ hfix i j hij (by rw [List.length_map]; omega)
  simp only [List.getElem_map] at this
  have e1 := List.getElem_of_eq hext (i := i) (by rw [List.length_map]; omega)
  have e2 := List.getElem_of_eq hext (i := j) (by rw [List.length_map]; omega)
  simp only [List.getElem_map] at e1 e2
  rw [e1, e2]; exact this

/-- **0-d aware reduce preserves the total** at every pixel of the plane (a 0-d field embeds as one pixel at its offset) -/
theorem reduceZ_total (zs : List (ZFld K)) (hpos : ∀ z ∈ zs, 0 < z.fld.arr.s0 ∧ 0 < z.fld.arr.s1)
    (out : List (ZFld K)) (hout : reduceZ zs = out.map some) (r c : Int) :
    sumList out (fun z => z.fld.emb r c) = sumList zs (fun z => z.fld.emb r c) := by
  rw [reduceZ_eq] at hout
  obtain ⟨_, hemb⟩ := map_outZ_spec _ out (reduceZ_groups_wf zs hpos) hout
  rw [sumList_eq_sum, sumList_eq_sum, hemb r c]
  have h1 : ((disjointZ zs.length (zs.map GroupZ.single)).map fun g => (g.toG.fields.map fun f => f.emb r c).sum) =
      ((disjointZ zs.length (zs.map GroupZ.single)).map GroupZ.toG).map (Group.weight fun f => f.emb r c) := by
    rw [List.map_map]; rfl
  rw [h1, reduceZ_groups_toG, disjoint_total, single_total, List.map_map]
  rfl

/-- **the 0-d aware reduce never raises**: every element of `reduceZ zs` is a field -/
theorem reduceZ_defined (zs : List (ZFld K)) : ∃ out : List (ZFld K), reduceZ zs = out.map some :=
  exists_eq_map_some _ (reduceZ_isSome zs)

/-- **0-d aware reduce, unconditionally**: for every collection of positive-shape fields — 0-d data, (1, 1) arrays and
larger arrays in any mix, any number of them on the origin pixel — the result is a list of fields, pairwise
non-overlapping, with the total preserved at every pixel (the clause the old `_merge_slices` and `_merge_shape` violated) -/
theorem reduceZ_spec (zs : List (ZFld K)) (hpos : ∀ z ∈ zs, 0 < z.fld.arr.s0 ∧ 0 < z.fld.arr.s1) :
    ∃ out : List (ZFld K), reduceZ zs = out.map some ∧
      (∀ r c, sumList out (fun z => z.fld.emb r c) = sumList zs (fun z => z.fld.emb r c)) ∧
      (∀ i j (hij : i < j) (hj : j < out.length), intersect (out[i]'(by omega)).fld.extent out[j].fld.extent = false) := by
  obtain ⟨out, hout⟩ := reduceZ_defined zs
  exact ⟨out, hout, fun r c => reduceZ_total zs hpos out hout r c,
    fun i j hij hj => reduceZ_disjoint zs hpos out hout i j hij hj⟩

/-- the 0-d aware reduce refines the plain-array one: for a collection without 0-d members `reduceZ` returns the fields
`reduce` returns -/
theorem reduceZ_refines_reduce (zs : List (ZFld K)) (hz : ∀ z ∈ zs, z.zd = false) (out : List (Fld K))
    (h : reduce (zs.map fun z => z.fld) = out.map some) :
    (reduceZ zs).map (fun o => o.map fun z => z.fld) = out.map some := by
  rw [reduce_eq, ← reduceZ_groups_toG, List.map_map] at h
  rw [reduceZ_eq, List.map_map]
  refine map_out_of_out _ ?_ out h
  refine disjointZ_members zs.length (zs.map GroupZ.single) (fun z => z.zd = false) ?_
  intro g' hg' z hz'
  obtain ⟨z0, hz0, rfl⟩ := List.mem_map.mp hg'
  simp only [GroupZ.single, List.mem_singleton] at hz'
  subst hz'; exact hz z hz0

/-- non-vacuity: three 0-d fields, two of them at the origin (the old witness) and one elsewhere: two output fields, total kept -/
example : (reduceZ [(⟨⟨⟨1, 1, fun _ _ => (2 : Int)⟩, 0, 0⟩, true⟩ : ZFld Int), ⟨⟨⟨1, 1, fun _ _ => 7⟩, 3, -1⟩, true⟩,
      ⟨⟨⟨1, 1, fun _ _ => 3⟩, 0, 0⟩, true⟩]).map (fun o => o.map fun p => (p.fld.extent, p.fld.emb 0 0, p.fld.emb 3 (-1))) =
    [some (⟨0, 0, 0, 0⟩, 5, 0), some (⟨3, 3, -1, -1⟩, 0, 7)] := by decide

end zerod_reduce

/-! ### the loop body of `reduce` and the pair branch of `overlap`, regenerated -/
section reduce_flow
variable {K : Type}

/-- **the loop body of `lentil.field.reduce`, regenerated (`Gen.reduceMerges` for the test, `Gen.reduceThenOut` /
`Gen.reduceElseOut` for `out.append(_merge(f['field']))` / `out.append(f['field'][0])`), is what the models do with a group**:
for every non-empty group (groups are never empty) a single member goes out as it is and two or more members go out merged —
the `match` of `Lentil.reduce`. Appending another member, merging in the wrong branch or changing the size test breaks this. -/
theorem reduce_group_out_spec {α : Type} (merge : List α → Option α) (l : List α) (h : l ≠ []) :
    groupOutFlow merge l = (match l with | [f] => some f | l => merge l) := by
  match l, h with
  | [a], _ => rfl
  | a :: b :: t, _ =>
    have hm : Gen.reduceMerges (((a :: b :: t).length : Nat) : Int) = true := by
      simp only [Gen.reduceMerges, List.length_cons, decide_eq_true_eq]; omega
    simp only [groupOutFlow, hm, if_true]; rfl

/-- the same for the 0-d aware model: `GroupZ.out` is the regenerated loop body with `mergeZ` -/
theorem reduceZ_group_out_spec [Add K] [Zero K] (g : GroupZ K) (h : g.fields ≠ []) :
    g.out = groupOutFlow mergeZ g.fields := by
  rw [reduce_group_out_spec mergeZ g.fields h]
  unfold GroupZ.out
  match hg : g.fields, h with
  | [a], _ => rfl
  | a :: b :: t, _ =>
    have hm : Gen.reduceMerges (((a :: b :: t).length : Nat) : Int) = true := by
      simp only [Gen.reduceMerges, List.length_cons, decide_eq_true_eq]; omega
    simp only [hm, if_true]

/-- **the pair branch of public `overlap`, regenerated (`Gen.overlapPairValue` from
`return lentil.extent.intersect(fields[0].extent, fields[1].extent)`)**: for two fields `overlapL` is that value on the two
cached extents -/
theorem overlap_pair_value_spec (a b : Fld K) :
    overlapL [a, b] = Gen.overlapPairValue a.extent.rmin a.extent.rmax a.extent.cmin a.extent.cmax
      b.extent.rmin b.extent.rmax b.extent.cmin b.extent.cmax := rfl
example : groupOutFlow (fun _ => none) [(5 : Int)] = some 5 ∧ groupOutFlow (fun l => some l.sum) [(5 : Int), 6, 7] = some 18 ∧
    Gen.overlapPairValue 0 1 0 1 1 2 1 2 = true ∧ Gen.overlapPairValue 0 1 0 1 2 3 0 1 = false := ⟨rfl, rfl, rfl, rfl⟩

end reduce_flow

/-! ### `_reduce`, public `overlap`, public `merge` from their regenerated pieces -/
section public_flow
variable {K : Type}

/-- **the group construction of `_reduce`, regenerated** (`[{'field': [f], 'extent': f.extent} for f in fields]`: one copy of
`f`, the member's cached extent): the groups `reduce` / `overlap` start `_disjoint` from are the model's singletons -/
theorem reduce_init_flow_spec (fs : List (Fld K)) :
    reduceInitFlow fs = fs.map fun f => ({ fields := [f], extent := f.extent } : Group K) := rfl

/-- **public `overlap`, every value-carrying piece regenerated** (tests `len(fields) == 2` / `len(fields) > 1`, the pair value,
the group construction of `_reduce`, the constants `return False` / `return True` of the many-branch) **is the model
`overlapL`**, for all lists of fields. Swapping the two constants, the operands of the pair test or the construction breaks
this. -/
theorem overlap_flow_spec (fs : List (Fld K)) : overlapFlow fs = overlapL fs := by
  unfold overlapFlow overlapL
  rw [reduce_init_flow_spec]
  split
  · rfl
  · cases Gen.overlapManyFalse _ <;> rfl

/-- **public `merge(a, b, enforce_overlap)` from its regenerated pieces** (refusal test, `return _merge((a, b))`: which
operands and in which order) **is the model `mergePublic`**, and the default `enforce_overlap=True` is the enforcing call -/
theorem merge_public_flow_spec [Add K] [Zero K] (a b : ZFld K) (enforce : Bool) :
    mergePublicFlow a b enforce = mergePublic a b enforce ∧
    mergePublic a b Gen.mergeEnforceDefault = mergePublic a b true := by
  refine ⟨?_, rfl⟩
  unfold mergePublicFlow mergePublic
  rw [overlap_flow_spec]; rfl
/-- **the pair scan of `_disjoint`, regenerated (`for m, n in combinations(range(len(fields)), 2)`: `Gen.disjointScanR`, with
`itertools.combinations` as `Lentil.combos`, the r-element sublists in lexicographic order of positions)**, is the index list
the model `firstPair` searches: all (m, k) with m < k < n, m ascending, then k ascending — for every n; so `firstPair` finds
the first intersecting pair in the order the loop visits them -/
theorem disjoint_scan_spec (n : Nat) :
    disjointScan n = (List.range n).flatMap fun m => ((List.range n).filter fun k => m < k).map fun k => (m, k) := by
  rw [scan_pairs (List.range n) List.pairwise_lt_range]
  exact combos_two_pairs (List.range n)

theorem disjoint_first_pair_spec (gs : List (Group K)) :
    firstPair gs = (disjointScan gs.length).find? fun (m, k) => match gs[m]?, gs[k]? with
      | some gm, some gk => intersect gm.extent gk.extent
      | _, _ => false := by
  rw [disjoint_scan_spec]; rfl
example : disjointScan 4 = [(0, 1), (0, 2), (0, 3), (1, 2), (1, 3), (2, 3)] := by decide
example : overlapFlow ([] : List (Fld Int)) = true ∧ overlapFlow [Ex.A, Ex.B, Ex.A] = overlapL [Ex.A, Ex.B, Ex.A] := ⟨rfl, rfl⟩

end public_flow

/-! ## Compositions: a product fed into a merge / reduce (what `Plane.multiply` followed by `Wavefront.intensity` does) -/
section compose
variable {K : Type} [NonUnitalNonAssocSemiring K]

/-- the data of a product is 0-d exactly when both operands' data are (NumPy: `() * ()` is `()`; anything else is an array) -/
theorem mulZ_zero_d (a b p : ZFld K) (h : a.mul b = some p) : p.zd = (a.zd && b.zd) ∧ a.fld.mul b.fld = some p.fld := by
  unfold ZFld.mul at h
  cases hm : a.fld.mul b.fld with
  | none => simp [hm] at h
  | some q => simp only [hm, Option.map_some, Option.some.injEq] at h; subst h; exact ⟨rfl, rfl⟩

/-- **product → merge in one statement**: if `a * b` (at most one of them one-element, read as an infinite constant) is not
empty and is then merged with `c`, the result embeds as `emb a · emb b + emb c` at every pixel — 0-d data included -/
theorem product_then_merge (a b c : ZFld K) (hab : (a.fld.size1 && b.fld.size1) = false)
    (ha : 0 < a.fld.arr.s0 ∧ 0 < a.fld.arr.s1) (hb : 0 < b.fld.arr.s0 ∧ 0 < b.fld.arr.s1)
    (hc : 0 < c.fld.arr.s0 ∧ 0 < c.fld.arr.s1) (p q : ZFld K) (hp : a.mul b = some p) (hq : mergeZ [p, c] = some q)
    (r s : Int) : q.fld.emb r s = a.fld.sem r s * b.fld.sem r s + c.fld.emb r s := by
  obtain ⟨_, hp'⟩ := mulZ_zero_d a b p hp
  have hsem := mul_sem a.fld b.fld hab ha hb r s
  rw [hp'] at hsem
  simp only at hsem
  have hpp := Fld.mul_pos_shape a.fld b.fld p.fld ha hb hp'
  have hm := (mergeZ_spec [p, c] (by simp) (by
    intro z hz; simp only [List.mem_cons, List.not_mem_nil, or_false] at hz
    rcases hz with rfl | rfl
    · exact hpp
    · exact hc) q hq).2 r s
  rw [hm, ← hsem]; simp [sumList]

/-- **product → reduce in one statement**: the product (when not empty) together with further fields reduces to pairwise
non-overlapping fields whose total is `emb a · emb b + Σ emb cs` at every pixel -/
theorem product_then_reduce (a b : ZFld K) (cs : List (ZFld K)) (hab : (a.fld.size1 && b.fld.size1) = false)
    (ha : 0 < a.fld.arr.s0 ∧ 0 < a.fld.arr.s1) (hb : 0 < b.fld.arr.s0 ∧ 0 < b.fld.arr.s1)
    (hcs : ∀ z ∈ cs, 0 < z.fld.arr.s0 ∧ 0 < z.fld.arr.s1) (p : ZFld K) (hp : a.mul b = some p) :
    ∃ out : List (ZFld K), reduceZ (p :: cs) = out.map some ∧
      (∀ r s, sumList out (fun z => z.fld.emb r s) =
        a.fld.sem r s * b.fld.sem r s + sumList cs (fun z => z.fld.emb r s)) ∧
      (∀ i j (hij : i < j) (hj : j < out.length), intersect (out[i]'(by omega)).fld.extent out[j].fld.extent = false) := by
  obtain ⟨_, hp'⟩ := mulZ_zero_d a b p hp
  have hpp := Fld.mul_pos_shape a.fld b.fld p.fld ha hb hp'
  obtain ⟨out, hout, htot, hdis⟩ := reduceZ_spec (p :: cs) (by
    intro z hz; rcases List.mem_cons.mp hz with rfl | h
    · exact hpp
    · exact hcs z h)
  refine ⟨out, hout, fun r s => ?_, hdis⟩
  have hsem := mul_sem a.fld b.fld hab ha hb r s
  rw [hp'] at hsem
  simp only at hsem
  rw [htot r s, ← hsem, sumList_eq_sum, sumList_eq_sum, List.map_cons, List.sum_cons]

/-- non-vacuity: `A * B` (one shared pixel, value 40) merged with `D`, and a 0-d product of two 0-d fields -/
example : ((((⟨Ex.A, false⟩ : ZFld Int).mul ⟨Ex.B, false⟩).bind (fun p => mergeZ [p, ⟨Ex.D, false⟩])).map
      (fun q => (q.fld.emb 0 0, q.fld.emb (-1) 1, q.zd))) = some (40, 100, false) ∧
    ((⟨⟨⟨1, 1, fun _ _ => (2 : Int)⟩, 0, 0⟩, true⟩ : ZFld Int).mul ⟨⟨⟨1, 1, fun _ _ => 3⟩, 0, 0⟩, true⟩).map
      (fun p => (p.fld.emb 0 0, p.zd)) = some (6, true) := by decide

end compose

/-! ## Insertion -/
section insert
variable {K : Type} [NonUnitalNonAssocSemiring K]

/-- **insert adds exactly the part of the embedding that falls inside the array** — all, some or none of it — for every
target shape, field shape and offset of either sign: `out'[i][j] = out[i][j] + post(emb(i − S0/2, j − S1/2))·w`, where the
target's origin sample is at index `(S0/2, S1/2)` (`post = id` for the complex field, `|·|²` for intensity) -/
theorem insert_emb (f : Fld K) (out : Arr K) (w : K) (post : K → K) (i j : Int)
    (hi : 0 ≤ i ∧ i < out.s0) (hj : 0 ≤ j ∧ j < out.s1) :
    (insertArr f out w post).get i j =
      out.get i j + (if f.extent.inb (i - out.s0 / 2) (j - out.s1 / 2)
                     then post (f.arr.get (i - out.s0 / 2 - f.extent.rmin) (j - out.s1 / 2 - f.extent.cmin)) * w else 0) := by
  unfold insertArr
  simp only [insertTerm_eq]
  cases h : Gen.insertIdx f.arr.s0 f.arr.s1 f.o0 f.o1 out.s0 out.s1 with
  | none =>
    have := insertIdx_none _ _ _ _ _ _ h i j hi hj
    simp only [Fld.extent, this, Bool.false_eq_true, if_false, add_zero]
  | some v =>
    obtain ⟨⟨orow, ocol⟩, ⟨frow, fcol⟩⟩ := v
    obtain ⟨g, e1, e2⟩ := insertIdx_some _ _ _ _ _ _ orow ocol frow fcol h i j hi hj
    simp only [g, e1, e2]
    show (if (arrayExtent f.arr.s0 f.arr.s1 f.o0 f.o1).inb (i - out.s0 / 2) (j - out.s1 / 2) = true then _ else _) =
      out.get i j + (if (arrayExtent f.arr.s0 f.arr.s1 f.o0 f.o1).inb (i - out.s0 / 2) (j - out.s1 / 2) = true then _ else _)
    by_cases hb : (arrayExtent f.arr.s0 f.arr.s1 f.o0 f.o1).inb (i - out.s0 / 2) (j - out.s1 / 2) = true
    · rw [if_pos hb, if_pos hb]; rfl
    · rw [if_neg hb, if_neg hb, add_zero]

/-- the NumPy statement `out[out_slice] += field.data[field_slice]` is well-formed whenever `insert` reaches it: both
slices are non-empty, inside their arrays and of equal shape — for every field shape, offset and target shape (the model
`insertArr` reads only the slice starts, so the slice *stops* of the source are pinned down here) -/
theorem insert_slices_wellformed (s0 s1 o0 o1 S0 S1 : Int) (orow ocol frow fcol : Int × Int)
    (h : Gen.insertIdx s0 s1 o0 o1 S0 S1 = some ((orow, ocol), (frow, fcol))) :
    (0 ≤ orow.1 ∧ orow.1 < orow.2 ∧ orow.2 ≤ S0) ∧ (0 ≤ ocol.1 ∧ ocol.1 < ocol.2 ∧ ocol.2 ≤ S1) ∧
    (0 ≤ frow.1 ∧ frow.2 ≤ s0) ∧ (0 ≤ fcol.1 ∧ fcol.2 ≤ s1) ∧
    frow.2 - frow.1 = orow.2 - orow.1 ∧ fcol.2 - fcol.1 = ocol.2 - ocol.1 :=
  insertIdx_wellformed s0 s1 o0 o1 S0 S1 orow ocol frow fcol h
/-- non-vacuity: a 4×3 field at (−2, 2) in a 3×4 target is clipped at the top and on the right -/
example : Gen.insertIdx 4 3 (-2) 2 3 4 = some (((0, 1), (3, 4)), ((3, 4), (0, 1))) := by decide

/-- the whole-array fast path of `insert` (`out += field.data`, taken when the translated test `Gen.insertFast` holds:
equal shapes and zero offset) does exactly what the general index arithmetic would do: both address the whole target
and the whole field -/
theorem insert_fast_path (s0 s1 o0 o1 S0 S1 : Int) (hs : 0 < s0 ∧ 0 < s1)
    (h : Gen.insertFast s0 s1 o0 o1 S0 S1 = true) :
    Gen.insertIdx s0 s1 o0 o1 S0 S1 = some (((0, S0), (0, S1)), ((0, s0), (0, s1))) := by
  unfold Gen.insertFast at h
  simp only [Bool.and_eq_true, decide_eq_true_eq] at h
  obtain ⟨⟨h1, h2⟩, h3, h4⟩ := h
  subst h1 h2 h3 h4
  unfold Gen.insertIdx
  simp only []
  split_ifs <;> simp_all <;> omega

/-- and the fast path is taken only then -/
theorem insert_fast_iff (s0 s1 o0 o1 S0 S1 : Int) :
    Gen.insertFast s0 s1 o0 o1 S0 S1 = true ↔ (s0 = S0 ∧ s1 = S1) ∧ (o0 = 0 ∧ o1 = 0) := by
  unfold Gen.insertFast; simp only [Bool.and_eq_true, decide_eq_true_eq]

/-- **the accumulation statements of `insert`, as generated from the source** (`Gen.insertAccumIntensity` from
`out[out_slice] += np.abs(field.data[field_slice]**2) * weight`, `Gen.insertAccumField` from
`out[out_slice] += field.data[field_slice] * weight`, `Gen.insertAccumInPlace` from the two `+=`): the intensity branch adds
`|data|²·weight`, the field branch `data·weight`, both **in place**. `insertArr` evaluates the generated term
(`insertTerm`), so dropping the weight, taking `|·|` instead of `|·|²`, or overwriting instead of accumulating changes a
definition `insert_emb` depends on. -/
theorem insert_accum_spec (nsq : K → K) (d w : K) :
    Gen.insertAccumIntensity.eval nsq d w = nsq d * w ∧ Gen.insertAccumField.eval nsq d w = d * w ∧
    Gen.insertAccumInPlace = (true, true) := ⟨rfl, rfl, rfl⟩

/-- `insert` with the branch chosen by `intensity` as in the source (`insertArrMode`, what the correspondence driver runs) is
`insertArr` with `post = |·|²` resp. `post = id`, so `insert_emb` covers both branches -/
theorem insert_mode_eq (intensity : Bool) (nsq : K → K) (f : Fld K) (out : Arr K) (w : K) :
    insertArrMode intensity nsq f out w = insertArr f out w (if intensity then nsq else id) := by
  unfold insertArrMode insertArr
  cases Gen.insertIdx f.arr.s0 f.arr.s1 f.o0 f.o1 out.s0 out.s1 with
  | none => rfl
  | some v => cases intensity <;> rfl

/-- **the defaults of `insert(field, out, intensity=False, weight=1)`, regenerated**: a call without keywords adds the field
itself (not its intensity), with weight one -/
theorem insert_defaults_spec (nsq : K → K) (f : Fld K) (out : Arr K) (w : K) :
    insertArrMode Gen.insertDefaultIntensity nsq f out w = insertArr f out w ∧ Gen.insertDefaultWeight = 1 := by
  refine ⟨?_, rfl⟩
  rw [insert_mode_eq]; rfl

/-- the shape of the target never changes -/
theorem insert_shape (f : Fld K) (out : Arr K) (w : K) (post : K → K) :
    (insertArr f out w post).s0 = out.s0 ∧ (insertArr f out w post).s1 = out.s1 := by
  unfold insertArr; split <;> simp

/-- non-vacuity of `insert_emb` with a field **wholly outside** the target (the D20 witness: this used to raise):
the generated index block returns "nothing to add" and every sample of the target is unchanged -/
example : Gen.insertIdx 2 2 9 9 3 3 = none ∧
    (∀ i ∈ [0, 1, 2], ∀ j ∈ [0, 1, 2], (insertArr Ex.O Ex.T 2 id).get i j = Ex.T.get i j) ∧
    Ex.O.extent.inb (1 - Ex.T.s0 / 2) (1 - Ex.T.s1 / 2) = false := by decide
/-- … and a clipped one: a 2×2 field at (−1, 1) in a 3×3 target — only its lower row (values 2, 4) lands, at (0, 1), (0, 2) -/
example : (insertArr (⟨⟨2, 2, fun i j => 1 + i + 2 * j⟩, -1, 1⟩ : Fld Int) Ex.T 10 id).get 0 1 = Ex.T.get 0 1 + 2 * 10 ∧
    (insertArr (⟨⟨2, 2, fun i j => 1 + i + 2 * j⟩, -1, 1⟩ : Fld Int) Ex.T 10 id).get 0 2 = Ex.T.get 0 2 + 4 * 10 ∧
    (insertArr (⟨⟨2, 2, fun i j => 1 + i + 2 * j⟩, -1, 1⟩ : Fld Int) Ex.T 10 id).get 1 2 = Ex.T.get 1 2 := by decide

/-- **insert in embedding form**: with `post 0 = 0` (true of `id` and of `|·|²`) the sample `(i, j)` of the target receives
`post (emb f (i − S0/2, j − S1/2)) · w` — the field's embedding on the infinite plane read at the target's own coordinates;
nothing is added where the embedding is zero because the field does not reach there -/
theorem insert_emb_plane (f : Fld K) (out : Arr K) (w : K) (post : K → K) (hpost : post 0 = 0) (i j : Int)
    (hi : 0 ≤ i ∧ i < out.s0) (hj : 0 ≤ j ∧ j < out.s1) :
    (insertArr f out w post).get i j = out.get i j + post (f.emb (i - out.s0 / 2) (j - out.s1 / 2)) * w := by
  rw [insert_emb f out w post i j hi hj]
  have fe : f.emb (i - out.s0 / 2) (j - out.s1 / 2) =
      embAt f.extent f.arr.get (i - out.s0 / 2) (j - out.s1 / 2) := rfl
  rw [fe]; unfold embAt
  by_cases hb : f.extent.inb (i - out.s0 / 2) (j - out.s1 / 2) = true
  · rw [if_pos hb, if_pos hb]
  · rw [if_neg hb, if_neg hb, hpost, zero_mul]

/-- the complex-field branch (`post = id`): `out' = out + emb f · w` on the target's window of the plane -/
theorem insert_field_plane (f : Fld K) (out : Arr K) (w : K) (i j : Int)
    (hi : 0 ≤ i ∧ i < out.s0) (hj : 0 ≤ j ∧ j < out.s1) :
    (insertArr f out w id).get i j = out.get i j + f.emb (i - out.s0 / 2) (j - out.s1 / 2) * w :=
  insert_emb_plane f out w id rfl i j hi hj

/-- **product → insert in one statement** (what `Plane.multiply` followed by `Wavefront.field`/`intensity` does with one
field): if `a * b` (at most one of them one-element, read as an infinite constant) is not empty, inserting it adds
`post (emb a · emb b) · w` at every sample of the target -/
theorem product_then_insert (a b p : Fld K) (hab : (a.size1 && b.size1) = false)
    (ha : 0 < a.arr.s0 ∧ 0 < a.arr.s1) (hb : 0 < b.arr.s0 ∧ 0 < b.arr.s1) (hp : a.mul b = some p)
    (out : Arr K) (w : K) (post : K → K) (hpost : post 0 = 0) (i j : Int)
    (hi : 0 ≤ i ∧ i < out.s0) (hj : 0 ≤ j ∧ j < out.s1) :
    (insertArr p out w post).get i j =
      out.get i j + post (a.sem (i - out.s0 / 2) (j - out.s1 / 2) * b.sem (i - out.s0 / 2) (j - out.s1 / 2)) * w := by
  rw [insert_emb_plane p out w post hpost i j hi hj]
  have hsem := mul_sem a b hab ha hb (i - out.s0 / 2) (j - out.s1 / 2)
  rw [hp] at hsem
  simp only at hsem
  rw [hsem]

/-- an empty product inserts nothing, and then the pointwise product of the embeddings is zero on the whole plane -/
theorem empty_product_is_zero (a b : Fld K) (hab : (a.size1 && b.size1) = false)
    (ha : 0 < a.arr.s0 ∧ 0 < a.arr.s1) (hb : 0 < b.arr.s0 ∧ 0 < b.arr.s1) (hp : a.mul b = none) (r c : Int) :
    a.sem r c * b.sem r c = 0 := by
  have hsem := mul_sem a b hab ha hb r c
  rw [hp] at hsem
  exact hsem.symm

/-- non-vacuity: `A * B` (one shared pixel, value 40) inserted with weight 2 into the 3×3 target `T` lands on the centre sample -/
example : (Ex.A.mul Ex.B).map (fun p => ((insertArr p Ex.T 2 id).get 1 1, (insertArr p Ex.T 2 id).get 0 1)) =
    some (Ex.T.get 1 1 + 40 * 2, Ex.T.get 0 1) := by decide

/-- **insertions commute**: accumulating `f` and then `g` into a target gives, sample by sample, what accumulating `g` and
then `f` gives (each with its own weight and `post`) — the composite image does not depend on the order of the fields -/
theorem insert_comm (f g : Fld K) (out : Arr K) (w w' : K) (post post' : K → K) (i j : Int)
    (hi : 0 ≤ i ∧ i < out.s0) (hj : 0 ≤ j ∧ j < out.s1) :
    (insertArr g (insertArr f out w post) w' post').get i j = (insertArr f (insertArr g out w' post') w post).get i j := by
  have s1 := insert_shape f out w post
  have s2 := insert_shape g out w' post'
  rw [insert_emb g _ w' post' i j (by rw [s1.1]; exact hi) (by rw [s1.2]; exact hj),
      insert_emb f out w post i j hi hj,
      insert_emb f _ w post i j (by rw [s2.1]; exact hi) (by rw [s2.2]; exact hj),
      insert_emb g out w' post' i j hi hj, s1.1, s1.2, s2.1, s2.2]
  exact add_right_comm _ _ _

/-- **inserting the same field twice adds up the weights**: `insert(f, insert(f, out, w₁), w₂) = insert(f, out, w₁ + w₂)` -/
theorem insert_weights_add (f : Fld K) (out : Arr K) (w₁ w₂ : K) (post : K → K) (i j : Int)
    (hi : 0 ≤ i ∧ i < out.s0) (hj : 0 ≤ j ∧ j < out.s1) :
    (insertArr f (insertArr f out w₁ post) w₂ post).get i j = (insertArr f out (w₁ + w₂) post).get i j := by
  have s1 := insert_shape f out w₁ post
  rw [insert_emb f _ w₂ post i j (by rw [s1.1]; exact hi) (by rw [s1.2]; exact hj),
      insert_emb f out w₁ post i j hi hj, insert_emb f out (w₁ + w₂) post i j hi hj, s1.1, s1.2]
  by_cases hb : f.extent.inb (i - out.s0 / 2) (j - out.s1 / 2) = true
  · simp only [hb, if_true]; rw [add_assoc, ← mul_add]
  · simp only [hb, Bool.false_eq_true, if_false, add_zero]
/-- non-vacuity on the 3×3 target `T`: `A` then `B` = `B` then `A`; weight 2 then 3 = weight 5 -/
example : (insertArr Ex.B (insertArr Ex.A Ex.T 2 id) 3 id).get 1 1 = (insertArr Ex.A (insertArr Ex.B Ex.T 3 id) 2 id).get 1 1 ∧
    (insertArr Ex.A (insertArr Ex.A Ex.T 2 id) 3 id).get 1 1 = (insertArr Ex.A Ex.T 5 id).get 1 1 := by decide

end insert

end Lentil.C06
