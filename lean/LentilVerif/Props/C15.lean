import LentilVerif.Lemmas.Spectrum
import LentilVerif.Lemmas.SimpsExact
import LentilVerif.Lemmas.SimpsInside
import LentilVerif.Lemmas.Units
/-! C15 — integration, binning, crop/trim/pad/append/resample keep the spectrum well-formed.
All statements are about `Model/Spectrum.lean` (tied to lentil.radiometry.Spectrum by the per-step correspondence). -/
namespace Lentil.C15
open Lentil.Spec

theorem wf_crop (lo hi : ℚ) (s : Spectrum) (h : WF s) : WF (crop lo hi s).1 := by
  simp only [crop]
  repeat' split
  all_goals first
    | exact h
    | exact wf_keepMask _ _ h
    | exact wf_keepMask _ _ (wf_keepMask _ _ h)

theorem wf_trim (tol : ℚ) (s : Spectrum) (h : WF s) : WF (trim tol s).1 := by
  simp only [trim]
  repeat' split
  all_goals first
    | exact h
    | exact ⟨h.1.sublist (slice_sublist _ _ _), slice_length_eq _ _ _ _ h.2⟩

theorem wf_append (o s : Spectrum) (ho : o.wave.length = o.value.length) (h : WF s) : WF (append o s).1 := by
  simp only [append]
  repeat' split
  all_goals first
    | exact h
    | (rename_i hv; exact ⟨validWave_strictInc _ hv, by simp [h.2, ho]⟩)

theorem wf_pad (e0 e1 : ℚ) (sm : Option ℚ) (edge : Bool) (vL vR : ℚ) (s : Spectrum) (h : WF s) :
    WF (pad e0 e1 sm edge vL vR s).1 := by
  simp only [pad]
  repeat' split
  all_goals first
    | exact h
    | (rename_i hv; exact ⟨validWave_strictInc _ hv, by simp [h.2]⟩)

theorem wf_resample (xs : List ℚ) (fl fr : ℚ) (s : Spectrum) (h : WF s) : WF (resample xs fl fr s).1 := by
  simp only [resample]
  split
  · exact h
  · rename_i v hv
    split
    · rename_i hx
      exact ⟨validWave_strictInc _ hx, (sample_length s fl fr xs v hv).symm⟩
    · exact h

/-- an appended spectrum is itself a `Spectrum` object, hence has one value per wavelength -/
def OpOK : Op → Prop
  | .append o => o.wave.length = o.value.length
  | _ => True

/-- every operation keeps the invariant — whether it is accepted or refused (`(step s op).2` is the exception) -/
theorem wf_step (s : Spectrum) (op : Op) (hop : OpOK op) (h : WF s) : WF (step s op).1 := by
  cases op with
  | crop lo hi => exact wf_crop lo hi s h
  | trim tol => exact wf_trim tol s h
  | append o => exact wf_append o s hop h
  | pad e0 e1 sm ed vl vr => exact wf_pad e0 e1 sm ed vl vr s h
  | resample xs fl fr => exact wf_resample xs fl fr s h

/-- … hence every history of crop/trim/pad/append/resample, of any length, with refusals anywhere, leaves a strictly
increasing wavelength grid with one value per wavelength -/
theorem wf_history : ∀ (ops : List Op) (s : Spectrum), (∀ op ∈ ops, OpOK op) → WF s → WF (run s ops) := by
  intro ops
  induction ops with
  | nil => intro s _ h; exact h
  | cons op rest ih =>
    intro s hop h
    exact ih _ (fun o ho => hop o (by simp [ho])) (wf_step s op (hop op (by simp)) h)

/-- crop and trim never alter the samples they retain: the (wavelength, value) pairs afterwards are a sub-sequence of
the pairs before (same order, values copied) -/
theorem crop_retained_samples_unaltered (lo hi : ℚ) (s : Spectrum) :
    (List.zip (crop lo hi s).1.wave (crop lo hi s).1.value).Sublist (List.zip s.wave s.value) := by
  simp only [crop]
  repeat' split
  all_goals first
    | exact List.Sublist.refl _
    | exact keepMask_zip_sublist _ _ _
    | exact (keepMask_zip_sublist _ _ _).trans (keepMask_zip_sublist _ _ _)

theorem trim_retained_samples_unaltered (tol : ℚ) (s : Spectrum) :
    (List.zip (trim tol s).1.wave (trim tol s).1.value).Sublist (List.zip s.wave s.value) := by
  simp only [trim]
  repeat' split
  all_goals first
    | exact List.Sublist.refl _
    | exact slice_zip_sublist _ _ _ _

/-- pad and append keep the old samples as one contiguous block of the new spectrum -/
theorem append_retained_samples_unaltered (o s : Spectrum) (h : s.wave.length = s.value.length) :
    List.zip s.wave s.value <+: List.zip (append o s).1.wave (append o s).1.value := by
  simp only [append]
  repeat' split
  all_goals first
    | exact List.prefix_refl _
    | (rw [List.zip_append h]; exact List.prefix_append _ _)

theorem pad_retained_samples_unaltered (e0 e1 : ℚ) (sm : Option ℚ) (edge : Bool) (vL vR : ℚ) (s : Spectrum)
    (h : s.wave.length = s.value.length) :
    List.zip s.wave s.value <:+: List.zip (pad e0 e1 sm edge vL vR s).1.wave (pad e0 e1 sm edge vL vR s).1.value := by
  simp only [pad]
  repeat' split
  all_goals first
    | exact List.infix_refl _
    | (rw [List.zip_append (by simp [h]), List.zip_append (by simp)]
       exact ⟨_, _, rfl⟩)

/-- a refused pad/append/resample leaves the spectrum exactly as it was (crop can refuse only on an empty grid) -/
theorem refusal_leaves_spectrum (s : Spectrum) :
    (∀ o e, (append o s).2 = some e → (append o s).1 = s) ∧
    (∀ xs fl fr e, (resample xs fl fr s).2 = some e → (resample xs fl fr s).1 = s) ∧
    (∀ tol e, (trim tol s).2 = some e → (trim tol s).1 = s) := by
  refine ⟨?_, ?_, ?_⟩
  · intro o e; simp only [append]; repeat' split
    all_goals simp
  · intro xs fl fr e; simp only [resample]; repeat' split
    all_goals simp
  · intro tol e; simp only [trim]; repeat' split
    all_goals simp

/-- … the same for pad; and crop: when crop raises (IndexError on an empty or emptied grid) the spectrum it leaves is the
input cropped at the lower limit — in particular still a selection of the input's samples (`crop_retained_samples_unaltered`)
— and crop on an already empty spectrum leaves it as it was -/
theorem refusal_leaves_spectrum_pad_crop (s : Spectrum) :
    (∀ e0 e1 sm ed vl vr e, (pad e0 e1 sm ed vl vr s).2 = some e → (pad e0 e1 sm ed vl vr s).1 = s) ∧
    (∀ lo hi, s.wave = [] → crop lo hi s = (s, some .indexError)) ∧
    (∀ lo hi e, (crop lo hi s).2 = some e → e = .indexError ∧ (crop lo hi s).1.wave = []) := by
  refine ⟨?_, ?_, ?_⟩
  · intro e0 e1 sm ed vl vr e; simp only [pad]; repeat' split
    all_goals simp
  · intro lo hi h; simp [crop, h]
  · intro lo hi e
    rw [crop_eq_stages]
    cases hw : s.wave.head? with
    | none =>
      have : s.wave = [] := by simpa using hw
      simp [this]; exact fun h => h.symm
    | some w0 =>
      simp only [cropStage2]
      cases hl : (cropStage1 lo w0 s).wave.getLast? with
      | none =>
        have : (cropStage1 lo w0 s).wave = [] := by simpa using hl
        simp [this]; exact fun h => h.symm
      | some wl =>
        simp only []
        split <;> simp


/-! ### integration -/

/-- integration (trapezoid rule) is linear in the values -/
theorem trapz_linear (ca cb : ℚ) : ∀ (w v1 v2 : List ℚ), v1.length = v2.length →
    trapz w (List.zipWith (fun a b => ca * a + cb * b) v1 v2) = ca * trapz w v1 + cb * trapz w v2 := by
  intro w
  induction w with
  | nil => intro v1 v2 _; simp [trapz]
  | cons x0 w ih =>
    intro v1 v2 h
    cases w with
    | nil => simp [trapz]
    | cons x1 xs =>
      cases v1 with
      | nil => cases v2 with
        | nil => simp [trapz]
        | cons b0 bs => simp at h
      | cons a0 as => cases v2 with
        | nil => simp at h
        | cons b0 bs =>
          have h' : as.length = bs.length := by simpa using h
          cases as with
          | nil => cases bs with
            | nil => simp [trapz]
            | cons b1 bs => simp at h'
          | cons a1 as => cases bs with
            | nil => simp at h'
            | cons b1 bs =>
              have := ih (a1 :: as) (b1 :: bs) h'
              simp only [List.zipWith_cons_cons, trapz] at this ⊢
              rw [this]; ring

/-- … additive over adjacent intervals that meet at a sample point -/
theorem trapz_additive_at_sample (m y : ℚ) (w2 v2 : List ℚ) : ∀ (w1 v1 : List ℚ), w1.length = v1.length →
    trapz (w1 ++ m :: w2) (v1 ++ y :: v2) = trapz (w1 ++ [m]) (v1 ++ [y]) + trapz (m :: w2) (y :: v2) := by
  intro w1
  induction w1 with
  | nil => intro v1 h; cases v1 with
    | nil => simp [trapz]
    | cons b bs => simp at h
  | cons a w1 ih =>
    intro v1 h
    cases v1 with
    | nil => simp at h
    | cons b v1 =>
      have h' : w1.length = v1.length := by simpa using h
      have := ih v1 h'
      cases w1 with
      | nil => cases v1 with
        | nil => simp [trapz]
        | cons c cs => simp at h'
      | cons a' w1 => cases v1 with
        | nil => simp at h'
        | cons b' v1 =>
          simp only [List.cons_append, trapz] at this ⊢
          rw [this]; ring

/-- … and exact for data that is linear in the wavelength: ∫(aλ+b) = a(λ_end²−λ_0²)/2 + b(λ_end−λ_0) -/
theorem trapz_exact_linear_segment (a b : ℚ) : ∀ (xs : List ℚ) (x0 : ℚ),
    trapz (x0 :: xs) ((x0 :: xs).map fun x => a * x + b)
      = a * (((x0 :: xs).getLast (by simp)) ^ 2 - x0 ^ 2) / 2 + b * ((x0 :: xs).getLast (by simp) - x0) := by
  intro xs
  induction xs with
  | nil => intro x0; simp [trapz]
  | cons x1 xs ih =>
    intro x0
    have := ih x1
    simp only [List.map_cons, trapz, List.getLast_cons_cons] at this ⊢
    rw [this]; ring

/-- `integrate` is linear in the values (same wavelengths, same limits) -/
theorem integrate_linear (ca cb a b : ℚ) (w v1 v2 : List ℚ) (h1 : w.length = v1.length) (h2 : w.length = v2.length) :
    integrate ⟨w, List.zipWith (fun x y => ca * x + cb * y) v1 v2⟩ a b
      = ca * integrate ⟨w, v1⟩ a b + cb * integrate ⟨w, v2⟩ a b := by
  simp only [integrate, keepMask_zipWith]
  apply trapz_linear
  rw [← keepMask_length_eq _ w v1 h1, ← keepMask_length_eq _ w v2 h2]

/-- integration is additive over adjacent intervals that meet at a sample point: for a well-formed spectrum whose grid is
`w1 ++ m :: w2` (values `v1 ++ y :: v2`), `integrate s a m + integrate s m b = integrate s a b` whenever a ≤ m ≤ b -/
theorem integrate_additive_at_sample (w1 w2 v1 v2 : List ℚ) (m y a b : ℚ)
    (hs : StrictInc (w1 ++ m :: w2)) (hl1 : w1.length = v1.length) (hl2 : w2.length = v2.length) (ham : a ≤ m) (hmb : m ≤ b) :
    integrate ⟨w1 ++ m :: w2, v1 ++ y :: v2⟩ a m + integrate ⟨w1 ++ m :: w2, v1 ++ y :: v2⟩ m b
      = integrate ⟨w1 ++ m :: w2, v1 ++ y :: v2⟩ a b := by
  have hsp := List.pairwise_append.mp hs
  have h1lt : ∀ x ∈ w1, x < m := fun x hx => hsp.2.2 x hx m (by simp)
  have h2gt : ∀ x ∈ w2, m < x := fun x hx => (List.pairwise_cons.mp hsp.2.1).1 x hx
  simp only [integrate, List.map_append, List.map_cons]
  have e1 : ∀ (p : ℚ → Bool) (l : List ℚ), (p m :: w2.map p) = ([p m] ++ w2.map p) := fun _ _ => rfl
  -- the three masks on the three blocks
  have kA : ∀ (p : ℚ → Bool) (vv1 : List ℚ) (z : ℚ) (vv2 : List ℚ), w1.length = vv1.length →
      keepMask (w1.map p ++ p m :: w2.map p) (vv1 ++ z :: vv2)
        = keepMask (w1.map p) vv1 ++ (if p m then [z] else []) ++ keepMask (w2.map p) vv2 := by
    intro p vv1 z vv2 hlen
    rw [keepMask_append _ _ _ _ (by simpa using hlen)]
    cases hp : p m <;> simp [keepMask, hp]
  rw [kA _ w1 m w2 rfl, kA _ v1 y v2 hl1, kA _ w1 m w2 rfl, kA _ v1 y v2 hl1, kA _ w1 m w2 rfl, kA _ v1 y v2 hl1]
  have pam : Gen.integrateKeeps a m m = true := by simp [Gen.integrateKeeps, ham]
  have pmb : Gen.integrateKeeps m b m = true := by simp [Gen.integrateKeeps, hmb]
  have pab : Gen.integrateKeeps a b m = true := by simp [Gen.integrateKeeps, ham, hmb]
  simp only [pam, pmb, pab, if_true]
  -- [a, m]: nothing of w2; [m, b]: nothing of w1
  have d2 : ∀ vv : List ℚ, vv.length = w2.length → keepMask (w2.map (Gen.integrateKeeps a m)) vv = [] := fun vv hv =>
    keepMask_all_false w2 vv _ (fun x hx => by have := h2gt x hx; simp [Gen.integrateKeeps]; intro _; linarith) hv
  have d1 : ∀ vv : List ℚ, vv.length = w1.length → keepMask (w1.map (Gen.integrateKeeps m b)) vv = [] := fun vv hv =>
    keepMask_all_false w1 vv _ (fun x hx => by have := h1lt x hx; simp [Gen.integrateKeeps]; intro h; linarith) hv
  rw [d2 w2 rfl, d2 v2 hl2.symm, d1 w1 rfl, d1 v1 hl1.symm]
  -- on w1 the [a,m] and [a,b] masks agree; on w2 the [m,b] and [a,b] masks agree
  have c1 : ∀ vv : List ℚ, keepMask (w1.map (Gen.integrateKeeps a m)) vv = keepMask (w1.map (Gen.integrateKeeps a b)) vv := fun vv =>
    keepMask_congr w1 vv _ _ (fun x hx => by
      have := h1lt x hx
      have e1 : decide (x ≤ m) = true := by simp; linarith
      have e2 : decide (x ≤ b) = true := by simp; linarith
      simp [Gen.integrateKeeps, e1, e2])
  have c2 : ∀ vv : List ℚ, keepMask (w2.map (Gen.integrateKeeps m b)) vv = keepMask (w2.map (Gen.integrateKeeps a b)) vv := fun vv =>
    keepMask_congr w2 vv _ _ (fun x hx => by
      have := h2gt x hx
      have e1 : decide (x ≥ m) = true := by simp; linarith
      have e2 : decide (x ≥ a) = true := by simp; linarith
      simp [Gen.integrateKeeps, e1, e2])
  rw [c1, c1, c2, c2]
  simp only [List.append_nil, List.nil_append, List.append_assoc, List.singleton_append]
  have hlen : (keepMask (w1.map (Gen.integrateKeeps a b)) w1).length = (keepMask (w1.map (Gen.integrateKeeps a b)) v1).length :=
    keepMask_length_eq _ _ _ hl1
  exact (trapz_additive_at_sample m y _ _ _ _ hlen).symm

/-! exactness for piecewise-linear data: the line through two consecutive samples, a primitive of it, and the sum over the
segments of the primitive's increments — the exact integral of the piecewise-linear interpolant -/


theorem linePrim_is_primitive (x0 y0 x1 y1 x h : ℚ) :
    linePrim x0 y0 x1 y1 (x + h) - linePrim x0 y0 x1 y1 x = h * lineThrough x0 y0 x1 y1 x + (y1 - y0) / (x1 - x0) * h ^ 2 / 2 := by
  simp only [linePrim, lineThrough]; ring

/-- exact integral of the piecewise-linear interpolant through the samples: Σ over segments of ∫ line -/
def pwLinearIntegral : List ℚ → List ℚ → ℚ
  | x0 :: x1 :: xs, y0 :: y1 :: ys =>
      (linePrim x0 y0 x1 y1 x1 - linePrim x0 y0 x1 y1 x0) + pwLinearIntegral (x1 :: xs) (y1 :: ys)
  | _, _ => 0

/-- the trapezoid rule is exact for piecewise-linear data: on a strictly increasing grid it equals the exact integral of
the piecewise-linear function through the samples (segment by segment, via a primitive of each segment's line) -/
theorem trapz_exact_piecewise_linear : ∀ (w v : List ℚ), StrictInc w → trapz w v = pwLinearIntegral w v := by
  intro w
  induction w with
  | nil => intro v _; simp [trapz, pwLinearIntegral]
  | cons x0 w ih =>
    intro v hs
    cases w with
    | nil => simp [trapz, pwLinearIntegral]
    | cons x1 xs => cases v with
      | nil => simp [trapz, pwLinearIntegral]
      | cons y0 v => cases v with
        | nil => simp [trapz, pwLinearIntegral]
        | cons y1 ys =>
          have h01 : x0 < x1 := (List.pairwise_cons.mp hs).1 x1 (by simp)
          have hd : x1 - x0 ≠ 0 := by linarith
          simp only [trapz, pwLinearIntegral, ih (y1 :: ys) (List.pairwise_cons.mp hs).2, linePrim]
          congr 1
          field_simp
          ring

/-- … hence `integrate s a b` is the exact integral of the piecewise-linear interpolant through the samples it keeps -/
theorem integrate_exact_piecewise_linear (s : Spectrum) (h : WF s) (a b : ℚ) :
    integrate s a b = pwLinearIntegral (keepMask (s.wave.map (Gen.integrateKeeps a b)) s.wave)
      (keepMask (s.wave.map (Gen.integrateKeeps a b)) s.value) := by
  simp only [integrate]
  exact trapz_exact_piecewise_linear _ _ (h.1.sublist (keepMask_sublist _ _))

/-! ### binning -/

theorem binRaw_length_trapz (s : Spectrum) (sym : Bool) (fl fr : ℚ) (c bins : List ℚ)
    (h : binRaw s false sym fl fr c = .ok bins) : bins.length = c.length := by
  simp only [binRaw, Bool.false_eq_true, if_false] at h
  split at h
  · cases h
  · rename_i hc
    split at h
    · cases h
    · rename_i f hf
      have hl := sample_length _ _ _ _ _ hf
      have he : (trapzEdges sym c).length = c.length + 1 := by
        match c, hc with
        | c0 :: c1 :: cs, _ =>
          have hm := midpoints_length (c0 :: c1 :: cs)
          cases hcs : (c1 :: cs).getLast? with
          | none => simp at hcs
          | some l =>
            simp only [trapzEdges, List.getLast?_cons_cons, hcs]
            cases hd : ((c0 :: c1 :: cs).dropLast).getLast? with
            | none => simp at hd
            | some p => simp [hm]
        | [], h' => simp at h'
        | [c0], h' => simp at h'
      have hb := trapzBins_length _ _ (hl.trans rfl).symm
      cases h; simp [hb, he]

/-- trapezoid binning returns one value per requested centre (both end treatments, with or without power preservation) -/
theorem bin_length_trapz (s : Spectrum) (sym : Bool) (fl fr : ℚ) (pp : Option (Option ℚ)) (c bins : List ℚ)
    (h : bin s false sym fl fr pp c = .ok bins) : bins.length = c.length := by
  simp only [bin] at h
  split at h
  · cases h
  · rename_i raw hraw
    have := binRaw_length_trapz s sym fl fr c raw hraw
    split at h
    · cases h; simp [this]
    · split at h <;> cases h <;> simp [this]

/-- Simpson binning (symmetric ends, float centres, no power preservation) of a non-negative spectrum is non-negative: the
weights (x₂−x₀)/6·(1, 4, 1) of the chained rule are positive on increasing sample points — for any increasing centres, in
particular the uniform ones of the property's Simpson clause. (`ends='inside'`, integer-dtype centres and the scipy
normalisation under preserve_power are not covered: oracle only.) -/
theorem bin_simps_nonneg_symmetric (s : Spectrum) (hwf : WF s) (hv : ∀ v ∈ s.value, 0 ≤ v) (fl fr : ℚ)
    (hfl : 0 ≤ fl) (hfr : 0 ≤ fr) (c : List ℚ) (hc : StrictInc c) (bins : List ℚ)
    (h : bin s true true fl fr none c = .ok bins) : ∀ b ∈ bins, 0 ≤ b := by
  simp only [bin, binRaw, if_true, sample] at h
  split at h
  · cases h
  · rename_i raw hraw
    split at hraw
    · cases hraw
    · split at hraw
      · cases hraw
      · rename_i f hf
        split at hf
        · cases hf
        · cases hf; cases hraw; cases h
          apply simpsBins_nonneg_adj _ _ (adjLe_simpsPoints_symmetric c hc)
          intro v hv'
          obtain ⟨x, _, rfl⟩ := List.mem_map.mp hv'
          exact interpAt_nonneg _ _ _ _ _ hwf.1 hv hfl hfr

/-- … and with `ends='inside'` (float centres, no power preservation): the two quarter points the code inserts after the first
and before the last centre keep the sample points non-decreasing, so the weights stay positive and the bins of a non-negative
spectrum non-negative — Simpson non-negativity holds for BOTH end treatments (`bin_simps_nonneg`) -/
theorem bin_simps_nonneg_inside (s : Spectrum) (hwf : WF s) (hv : ∀ v ∈ s.value, 0 ≤ v) (fl fr : ℚ)
    (hfl : 0 ≤ fl) (hfr : 0 ≤ fr) (c : List ℚ) (hc : StrictInc c) (bins : List ℚ)
    (h : bin s true false fl fr none c = .ok bins) : ∀ b ∈ bins, 0 ≤ b := by
  simp only [bin, binRaw, if_true, sample] at h
  split at h
  · cases h
  · rename_i raw hraw
    split at hraw
    · cases hraw
    · split at hraw
      · cases hraw
      · rename_i f hf
        split at hf
        · cases hf
        · cases hf; cases hraw; cases h
          apply simpsBins_nonneg_adj _ _ (adjLe_simpsPoints_inside c hc)
          intro v hv'
          obtain ⟨x, _, rfl⟩ := List.mem_map.mp hv'
          exact interpAt_nonneg _ _ _ _ _ hwf.1 hv hfl hfr

theorem bin_simps_nonneg (s : Spectrum) (hwf : WF s) (hv : ∀ v ∈ s.value, 0 ≤ v) (sym : Bool) (fl fr : ℚ)
    (hfl : 0 ≤ fl) (hfr : 0 ≤ fr) (c : List ℚ) (hc : StrictInc c) (bins : List ℚ)
    (h : bin s true sym fl fr none c = .ok bins) : ∀ b ∈ bins, 0 ≤ b := by
  cases sym
  · exact bin_simps_nonneg_inside s hwf hv fl fr hfl hfr c hc bins h
  · exact bin_simps_nonneg_symmetric s hwf hv fl fr hfl hfr c hc bins h

/-- Simpson binning also returns one value per requested centre (both end treatments, float or integer-dtype centres) -/
theorem binRaw_length_simps (s : Spectrum) (sym intC : Bool) (fl fr : ℚ) (c bins : List ℚ)
    (h : binRaw s true sym fl fr c intC = .ok bins) : bins.length = c.length := by
  simp only [binRaw, if_true] at h
  split at h
  · cases h
  · rename_i hc
    have hc2 : 2 ≤ c.length := by omega
    split at h
    · cases h
    · rename_i f hf
      have hl := sample_length _ _ _ _ _ hf
      have hx := simpsPoints_length sym intC c hc2
      cases h
      exact simpsBins_length c.length _ _ hl.symm hx

/-- one bin per centre for both rules, with or without power preservation -/
theorem bin_length (s : Spectrum) (simps sym intC : Bool) (fl fr : ℚ) (pp : Option (Option ℚ)) (c bins : List ℚ)
    (h : bin s simps sym fl fr pp c intC = .ok bins) : bins.length = c.length := by
  simp only [bin] at h
  split at h
  · cases h
  · rename_i raw hraw
    have hr : raw.length = c.length := by
      cases simps
      · have hraw' : binRaw s false sym fl fr c = .ok raw := by
          simpa [binRaw] using hraw
        exact binRaw_length_trapz s sym fl fr c raw hraw'
      · exact binRaw_length_simps s sym intC fl fr c raw hraw
    split at h
    · cases h; simp [hr]
    · split at h <;> cases h <;> simp [hr]

/-- trapezoid binning is exact for a spectrum that is linear across every bin: if the samples lie on the line a·λ + b and
all bin edges lie inside the sampled range, bin k is the exact integral ∫ (a·λ + b) dλ over [e_k, e_{k+1}]
(`exactBins a b edges`: a(e_{k+1}² − e_k²)/2 + b(e_{k+1} − e_k)) — both end treatments -/
theorem bin_trapz_exact_linear (s : Spectrum) (a b lo hi : ℚ) (hval : s.value = s.wave.map fun t => a * t + b)
    (hs : StrictInc s.wave) (h2 : 2 ≤ s.wave.length) (hlo : s.wave.head? = some lo) (hhi : s.wave.getLast? = some hi)
    (sym : Bool) (fl fr : ℚ) (c : List ℚ) (hedges : ∀ e ∈ trapzEdges sym c, lo ≤ e ∧ e ≤ hi) (bins : List ℚ)
    (h : bin s false sym fl fr none c = .ok bins) : bins = exactBins a b (trapzEdges sym c) := by
  simp only [bin, binRaw, Bool.false_eq_true, if_false, sample] at h
  split at h
  · cases h
  · rename_i raw hraw
    split at hraw
    · cases hraw
    · split at hraw
      · cases hraw
      · rename_i f hf
        split at hf
        · cases hf
        · cases hf; cases hraw; cases h
          have : (trapzEdges sym c).map (interpAt s.wave s.value fl fr) = (trapzEdges sym c).map fun t => a * t + b := by
            apply List.map_congr_left
            intro e he
            rw [hval]
            exact interpAt_linear a b fl fr s.wave e lo hi hs h2 hlo hhi (hedges e he).1 (hedges e he).2
          rw [this, trapzBins_linear]

/-- Simpson binning is exact for linear spectra on UNIFORM centres (symmetric ends, float centres, no power preservation): if
the samples lie on the line a·λ + b, the centres have a constant step h and every sample point of the rule lies inside the
sampled range, bin k is the exact integral ∫ (a·λ + b) dλ over the k-th bin [e_k, e_{k+1}] — the same `exactBins` over the same
edges as the trapezoid rule (`bin_trapz_exact_linear`). Uniformity is what makes each centre the mid-point of its bin. -/
theorem bin_simps_exact_linear_uniform (s : Spectrum) (a b lo hi : ℚ) (hval : s.value = s.wave.map fun t => a * t + b)
    (hs : StrictInc s.wave) (h2 : 2 ≤ s.wave.length) (hlo : s.wave.head? = some lo) (hhi : s.wave.getLast? = some hi)
    (fl fr h : ℚ) (c : List ℚ) (hu : UniformStep h c) (hpts : ∀ e ∈ simpsPoints true c, lo ≤ e ∧ e ≤ hi) (bins : List ℚ)
    (hb : bin s true true fl fr none c = .ok bins) : bins = exactBins a b (trapzEdges true c) := by
  simp only [bin, binRaw, if_true, sample] at hb
  split at hb
  · cases hb
  · rename_i raw hraw
    split at hraw
    · cases hraw
    · split at hraw
      · cases hraw
      · rename_i f hf
        split at hf
        · cases hf
        · cases hf; cases hraw; cases hb
          have : (simpsPoints true c).map (interpAt s.wave s.value fl fr) = (simpsPoints true c).map fun t => a * t + b := by
            apply List.map_congr_left
            intro e he
            rw [hval]
            exact interpAt_linear a b fl fr s.wave e lo hi hs h2 hlo hhi (hpts e he).1 (hpts e he).2
          obtain ⟨hm, he⟩ := simpsPoints_uniform h c hu
          rw [this, simpsBins_linear a b _ hm, he]

/-- non-vacuity of `bin_simps_exact_linear_uniform`: 2λ+1 on [500, 520], centres 503, 506, 509, 512 (step 3) -/
example : UniformStep 3 [503, 506, 509, 512] ∧ (∀ e ∈ simpsPoints true [503, 506, 509, 512], (500 : ℚ) ≤ e ∧ e ≤ 520) ∧
    bin ⟨[500, 520], [1001, 1041]⟩ true true 0 0 none [503, 506, 509, 512] = .ok (exactBins 2 1 (trapzEdges true [503, 506, 509, 512])) := by
  refine ⟨by simp [UniformStep]; norm_num, by decide +kernel, by decide +kernel⟩

/-- exactness PER BIN (the clause "exact for spectra that are linear across each bin"): when the two edges of bin k lie in one
data segment [x_i, x_{i+1}] of a well-formed spectrum — the interpolant is affine across the bin, whatever the spectrum does
elsewhere — the trapezoid bin is the exact integral of that segment's line over the bin (increment of its primitive) -/
theorem bin_trapz_exact_per_bin (s : Spectrum) (hwf : WF s) (sym : Bool) (fl fr : ℚ) (c bins : List ℚ)
    (h : bin s false sym fl fr none c = .ok bins) (k i : ℕ) (e0 e1 a b ya yb : ℚ)
    (he0 : (trapzEdges sym c)[k]? = some e0) (he1 : (trapzEdges sym c)[k + 1]? = some e1)
    (ha : s.wave[i]? = some a) (hb : s.wave[i + 1]? = some b) (hya : s.value[i]? = some ya) (hyb : s.value[i + 1]? = some yb)
    (h0 : a ≤ e0) (h01 : e0 ≤ e1) (h1 : e1 ≤ b) :
    bins[k]? = some (linePrim a ya b yb e1 - linePrim a ya b yb e0) := by
  have hab : a < b := by
    have := List.pairwise_iff_getElem.mp hwf.1
    obtain ⟨hi0, rfl⟩ := List.getElem?_eq_some_iff.mp ha
    obtain ⟨hi1, rfl⟩ := List.getElem?_eq_some_iff.mp hb
    exact this i (i + 1) hi0 hi1 (Nat.lt_succ_self i)
  -- inside the sampled range the model's sample is the segment's line
  have hval : ∀ e, a ≤ e → e ≤ b → interpAt s.wave s.value fl fr e = lineThrough a ya b yb e := by
    intro e hae heb
    unfold interpAt
    cases hh : s.wave.head? with
    | none => have : s.wave = [] := by simpa using hh
              rw [this] at ha; simp at ha
    | some lo =>
      cases hl : s.wave.getLast? with
      | none => have : s.wave = [] := by simpa using hl
                rw [this] at ha; simp at ha
      | some hi =>
        have hlo : lo ≤ a := head_le_of_strictInc _ _ hwf.1 hh a (List.mem_of_getElem? ha)
        have hhi : b ≤ hi := le_getLast_of_strictInc _ _ hwf.1 hl b (List.mem_of_getElem? hb)
        have c1 : ¬ e < lo := by linarith
        have c2 : ¬ hi < e := by linarith
        simp only [c1, c2, if_false]
        exact seg_on_segment s.wave s.value e i a b ya yb hwf.1 ha hb hya hyb hae heb
  simp only [bin, binRaw, Bool.false_eq_true, if_false, sample] at h
  split at h
  · cases h
  · rename_i raw hraw
    split at hraw
    · cases hraw
    · split at hraw
      · cases hraw
      · rename_i f hf
        split at hf
        · cases hf
        · cases hf; cases hraw; cases h
          rw [trapzBins_getElem _ _ k e0 e1 (lineThrough a ya b yb e0) (lineThrough a ya b yb e1) he0 he1
            (by rw [List.getElem?_map, he0]; simp [hval e0 h0 (le_trans h01 h1)])
            (by rw [List.getElem?_map, he1]; simp [hval e1 (le_trans h0 h01) h1])]
          congr 1
          have hd : b - a ≠ 0 := by linarith
          simp only [Gen.trapzTerm, lineThrough, linePrim]
          field_simp
          ring


/-- non-negativity of `bin` itself (trapezoid rule): a well-formed spectrum with non-negative values and non-negative
fill, strictly increasing centres ⇒ every bin is non-negative — without power preservation, and with it (the
normalisation integral `integrate s (min c) (max c)` and the raw sum are both non-negative). The zero-raw-sum case (dark
spectrum, or every edge outside the data with fill 0) is covered: the code's guard leaves the raw (all-zero) bins as they are. -/
theorem bin_trapz_nonneg (s : Spectrum) (hwf : WF s) (hv : ∀ v ∈ s.value, 0 ≤ v) (sym : Bool) (fl fr : ℚ)
    (hfl : 0 ≤ fl) (hfr : 0 ≤ fr) (c : List ℚ) (hc : StrictInc c) (pp : Bool) (bins : List ℚ)
    (h : bin s false sym fl fr (if pp then some none else none) c = .ok bins) : ∀ b ∈ bins, 0 ≤ b := by
  simp only [bin, binRaw, Bool.false_eq_true, if_false] at h
  split at h
  · cases h
  · rename_i raw hraw
    split at hraw
    · cases hraw
    · split at hraw
      · cases hraw
      · rename_i f hf
        simp only [sample] at hf
        split at hf
        · cases hf
        · cases hf; cases hraw
          have hf0 : ∀ v ∈ (trapzEdges sym c).map (interpAt s.wave s.value fl fr), 0 ≤ v := by
            intro v hv'
            obtain ⟨x, _, rfl⟩ := List.mem_map.mp hv'
            exact interpAt_nonneg _ _ _ _ _ hwf.1 hv hfl hfr
          have hraw0 := trapzBins_nonneg_adj _ _ (adjLe_trapzEdges sym c hc) hf0
          cases pp
          · simp only [Bool.false_eq_true, if_false] at h
            cases h; exact hraw0
          · simp only [if_true] at h
            split at h
            case isFalse => cases h; exact hraw0
            cases h
            intro b hb
            obtain ⟨r, hr, rfl⟩ := List.mem_map.mp hb
            simp only [Gen.binRescaleFactor]
            have hS := sumL_nonneg _ hraw0
            have hI : 0 ≤ binNorm s c none := by
              simp only [binNorm]
              split
              · simp only [integrate]
                apply trapz_nonneg
                · exact adjLe_of_strictInc _ (hwf.1.sublist (keepMask_sublist _ _))
                · intro y hy; exact hv y (mem_keepMask _ _ _ hy)
              · exact le_refl _
            exact mul_nonneg (hraw0 r hr) (div_nonneg hI hS)


/-- with power preservation the trapezoid bins sum to the spectrum's (trapezoid) integral over the span of the centres,
`integrate s (min centres) (max centres)`, whenever the un-normalised bins do not sum to zero; when they do (dark spectrum,
every edge outside the data) the bins returned are the un-normalised ones, unchanged (and so still sum to zero) -/
theorem bin_preserve_power_sum (s : Spectrum) (sym : Bool) (fl fr : ℚ) (c raw : List ℚ) (a b : ℚ)
    (hraw : binRaw s false sym fl fr c = .ok raw) (ha : minL c = some a) (hb : maxL c = some b) :
    ∃ bins, bin s false sym fl fr (some none) c = .ok bins ∧
      (sumL raw ≠ 0 → sumL bins = integrate s a b) ∧ (sumL raw = 0 → bins = raw) := by
  by_cases h : sumL raw = 0
  · exact ⟨raw, by simp [bin, hraw, Gen.binRescaleGuard, h], fun h' => absurd h h', fun _ => rfl⟩
  · refine ⟨raw.map (· * (integrate s a b / sumL raw)), ?_, fun _ => ?_, fun h' => absurd h' h⟩
    · simp [bin, hraw, binNorm, ha, hb, Gen.binRescaleGuard, Gen.binRescaleFactor, h]
    · have hm : ∀ (l : List ℚ) (k : ℚ), (l.map (· * k)).sum = l.sum * k := by
        intro l k; induction l with
        | nil => simp
        | cons x l ih => simp [ih, add_mul]
      rw [sumL_eq_sum, hm, ← sumL_eq_sum]
      field_simp

/-- power preservation with a supplied integral `I` (the Simpson case: `I` comes from `scipy.integrate.simpson`, not
modelled): the normalised bins of either rule sum to `I` whenever the un-normalised bins do not sum to zero; when they do,
the un-normalised bins are returned unchanged -/
theorem bin_preserve_power_sum_given (s : Spectrum) (simps sym intC : Bool) (fl fr I : ℚ) (c raw : List ℚ)
    (hraw : binRaw s simps sym fl fr c intC = .ok raw) :
    ∃ bins, bin s simps sym fl fr (some (some I)) c intC = .ok bins ∧
      (sumL raw ≠ 0 → sumL bins = I) ∧ (sumL raw = 0 → bins = raw) := by
  by_cases h : sumL raw = 0
  · exact ⟨raw, by simp [bin, hraw, Gen.binRescaleGuard, h], fun h' => absurd h h', fun _ => rfl⟩
  · refine ⟨raw.map (· * (I / sumL raw)), ?_, fun _ => ?_, fun h' => absurd h' h⟩
    · simp [bin, hraw, binNorm, Gen.binRescaleGuard, Gen.binRescaleFactor, h]
    · have hm : ∀ (l : List ℚ) (k : ℚ), (l.map (· * k)).sum = l.sum * k := by
        intro l k; induction l with
        | nil => simp
        | cons x l ih => simp [ih, add_mul]
      rw [sumL_eq_sum, hm, ← sumL_eq_sum]
      field_simp

/-! ### crop keeps exactly the closed range -/

/-- crop keeps exactly the samples inside the closed requested range (whether or not it then raises on an emptied grid) -/
theorem crop_keeps_exactly_closed_range (lo hi : ℚ) (s : Spectrum) (h : WF s) :
    ∀ x, x ∈ (crop lo hi s).1.wave ↔ x ∈ s.wave ∧ lo ≤ x ∧ x ≤ hi := by
  intro x
  rw [crop_eq_stages]
  cases hw0 : s.wave.head? with
  | none =>
    have : s.wave = [] := by simpa using hw0
    simp [this]
  | some w0 =>
    simp only []
    -- stage 1 (generated guard `Gen.cropLowGuard`, generated drop test `Gen.cropDropLow`)
    have st1 : ∀ y, y ∈ (cropStage1 lo w0 s).wave ↔ y ∈ s.wave ∧ lo ≤ y := by
      intro y
      unfold cropStage1
      by_cases hg : Gen.cropLowGuard lo w0 = true
      · simp only [hg, if_true]
        rw [mem_keepMask_map]; simp [Gen.cropDropLow]
      · have hg' : Gen.cropLowGuard lo w0 = false := by simpa using hg
        simp only [hg', Bool.false_eq_true, if_false]
        have hlo : ¬ lo > w0 := by simpa [Gen.cropLowGuard] using hg
        constructor
        · intro hy; exact ⟨hy, le_trans (not_lt.mp hlo) (head_le_of_strictInc _ _ h.1 hw0 y hy)⟩
        · intro hy; exact hy.1
    have wf1 : WF (cropStage1 lo w0 s) := by
      unfold cropStage1
      split
      · exact wf_keepMask _ _ h
      · exact h
    generalize cropStage1 lo w0 s = s1 at st1 wf1 ⊢
    unfold cropStage2
    cases hwl : s1.wave.getLast? with
    | none =>
      have he : s1.wave = [] := by simpa using hwl
      have := st1 x
      simp only [he, List.not_mem_nil, false_iff] at this ⊢
      intro hx
      exact this ⟨hx.1, hx.2.1⟩
    | some wl =>
      simp only []
      by_cases hg : Gen.cropHighGuard hi wl = true
      · simp only [hg, if_true]
        rw [mem_keepMask_map, st1]; simp [Gen.cropDropHigh]; tauto
      · have hg' : Gen.cropHighGuard hi wl = false := by simpa using hg
        have hhi : ¬ hi < wl := by simpa [Gen.cropHighGuard] using hg
        simp only [hg', Bool.false_eq_true, if_false]
        rw [st1]
        constructor
        · rintro ⟨h1, h2⟩
          exact ⟨h1, h2, le_trans (le_getLast_of_strictInc _ _ wf1.1 hwl x ((st1 x).mpr ⟨h1, h2⟩)) (not_lt.mp hhi)⟩
        · rintro ⟨h1, h2, _⟩; exact ⟨h1, h2⟩

/-- trim keeps exactly the samples from the first to the last one whose value, relative to the maximum, exceeds the
tolerance; when no sample does, the call raises IndexError and the spectrum is left as it was -/
theorem trim_first_to_last_above_tol (tol : ℚ) (s : Spectrum) (m : ℚ)
    (hz : s.value.all (· == 0) = false) (hm : maxL s.value = some m) (hpos : 0 < m) :
    (∃ a b, trim tol s = (⟨slice a b s.wave, slice a b s.value⟩, none) ∧
       (∃ v, s.value[a]? = some v ∧ v / m > tol) ∧ (∀ j, j < a → ∀ v, s.value[j]? = some v → ¬ v / m > tol) ∧
       (∃ v, s.value[b]? = some v ∧ v / m > tol) ∧ (∀ j, b < j → ∀ v, s.value[j]? = some v → ¬ v / m > tol))
    ∨ (trim tol s = (s, some .indexError) ∧ ∀ v ∈ s.value, ¬ v / m > tol) := by
  have hnp : Gen.trimRefuses m = false := by simp [Gen.trimRefuses, hpos]
  simp only [trim, hz, hm, hnp, Bool.false_eq_true, if_false]
  cases hf : firstIdx (fun v : ℚ => Gen.trimAbove v m tol) s.value with
  | none =>
    right
    refine ⟨rfl, fun v hv => ?_⟩
    simpa [Gen.trimAbove] using firstIdx_none _ _ hf v hv
  | some a =>
    cases hl : lastIdx (fun v : ℚ => Gen.trimAbove v m tol) s.value with
    | none =>
      right
      refine ⟨rfl, fun v hv => ?_⟩
      simpa [Gen.trimAbove] using lastIdx_none _ _ hl v hv
    | some b =>
      left
      obtain ⟨⟨va, hva, hpa⟩, hlta⟩ := firstIdx_spec _ _ _ hf
      obtain ⟨⟨vb, hvb, hpb⟩, hltb⟩ := lastIdx_spec _ _ _ hl
      refine ⟨a, b, rfl, ⟨va, hva, by simpa [Gen.trimAbove] using hpa⟩, ?_, ⟨vb, hvb, by simpa [Gen.trimAbove] using hpb⟩, ?_⟩
      · intro j hj v hv; simpa [Gen.trimAbove] using hlta j hj v hv
      · intro j hj v hv; simpa [Gen.trimAbove] using hltb j hj v hv

/-- crop does not depend on the absolute size of the wavelength numbers: rescaling the grid and both limits by k > 0
(a change of unit, metres instead of nanometres) rescales the kept wavelengths, keeps the same samples and raises in the
same cases — no absolute tolerance can enter -/
theorem crop_scale_covariant (k lo hi : ℚ) (hk : 0 < k) (s : Spectrum) :
    crop (lo * k) (hi * k) (scaleS k s) = (scaleS k (crop lo hi s).1, (crop lo hi s).2) := by
  rw [crop_eq_stages, crop_eq_stages]
  cases hw : s.wave with
  | nil => simp [scaleS, hw]
  | cons w0 ws =>
    have : (scaleS k s).wave.head? = some (w0 * k) := by simp [scaleS, hw]
    simp only [this, List.head?_cons]
    rw [cropStage1_scale k lo w0 hk, cropStage2_scale k hi hk]


/-- KNOWN FINDING witness (KF-C15-bin-integer-centres): with centres given as an integer-dtype array the Simpson grid
is an integer array and its mid-points are truncated; for the linear spectrum 2λ+1 on [500, 520] and centres
503, 506, 509, 512 the bins are not the exact integrals 3021, 3039, 3057, 3075 (which float centres give) -/
theorem kf_bin_integer_centres :
    bin ⟨[500, 520], [1001, 1041]⟩ true true 0 0 none [503, 506, 509, 512] (intC := false) = .ok [3021, 3039, 3057, 3075] ∧
    bin ⟨[500, 520], [1001, 1041]⟩ true true 0 0 none [503, 506, 509, 512] (intC := true) ≠ .ok [3021, 3039, 3057, 3075] := by
  constructor <;> decide +kernel

/-- KNOWN FINDING witness (KF-C15-bin-raw-sum-zero-nonzero-integral): the trapezoid rule samples the spectrum only at the bin
edges; for the values 1, 0, 1, 0, 1 on 0..4 and centres 0, 2, 4 the edges −1, 1, 3, 5 fall on zeros of the spectrum or outside
the data: the un-normalised bins are [0, 0, 0], so (guarded rescaling, `bin_preserve_power_sum`: raw sum = 0 → bins = raw) the
power-preserving bins are [0, 0, 0] too — although the spectrum's integral over the span of the centres is 2. No rescaling can
preserve the power here. -/
theorem kf_bin_raw_sum_zero_nonzero_integral :
    binRaw ⟨[0, 1, 2, 3, 4], [1, 0, 1, 0, 1]⟩ false true 0 0 [0, 2, 4] = .ok [0, 0, 0] ∧
    bin ⟨[0, 1, 2, 3, 4], [1, 0, 1, 0, 1]⟩ false true 0 0 (some none) [0, 2, 4] = .ok [0, 0, 0] ∧
    integrate ⟨[0, 1, 2, 3, 4], [1, 0, 1, 0, 1]⟩ 0 4 = 2 := by
  refine ⟨?_, ?_, ?_⟩ <;> decide +kernel

/-- `append`'s overlap guard in the model is the comparison regenerated from the source line
`if np.any(other.wave <= self.wave): raise ValueError()` (`Gen.appendRefusesAt`), in every NumPy broadcasting case -/
theorem append_guard_is_code (o w : List ℚ) :
    anyLeBroadcast o w =
      if o.length = w.length then some ((List.zipWith Gen.appendRefusesAt o w).any id)
      else if o.length = 1 then some (w.any (fun b => Gen.appendRefusesAt o.head! b))
      else if w.length = 1 then some (o.any (fun a => Gen.appendRefusesAt a w.head!))
      else none := rfl

/-- the regenerated element test refuses a wavelength that merely TOUCHES the paired one (closed comparison): an
accepted append never repeats a wavelength -/
theorem append_guard_refuses_touching (ow sw : ℚ) : Gen.appendRefusesAt ow sw = true ↔ ow ≤ sw := by
  simp [Gen.appendRefusesAt]

/-- a single appended sample (`other.wave` of length 1, broadcast against the whole grid) is refused as soon as it does
not lie strictly beyond EVERY wavelength of the spectrum — stated on the regenerated comparison through the model -/
theorem append_single_refused (x v : ℚ) (s : Spectrum) (hl : s.wave.length ≠ 1) (b : ℚ) (hb : b ∈ s.wave) (hx : x ≤ b) :
    append ⟨[x], [v]⟩ s = (s, some .valueError) := by
  have hany : (s.wave.any fun b => Gen.appendRefusesAt x b) = true :=
    List.any_eq_true.mpr ⟨b, hb, (append_guard_refuses_touching x b).mpr hx⟩
  have hl' : ¬ (1 = s.wave.length) := fun h => hl h.symm
  simp only [append, append_guard_is_code, List.length_singleton, hl', if_false, if_true, List.head!_cons, hany]

/-- `trim` keeps the slice `[index_min : index_max + 1]` of the source (`Gen.trimSliceStart/Stop`, regenerated from the two
slice assignments of `Spectrum.trim`): the model's `slice a b` is Python's `l[start:stop]` for those bounds -/
theorem trim_slice_is_code (a b : Nat) (l : List ℚ) :
    slice a b l = (l.drop (Gen.trimSliceStart a b).toNat).take
      ((Gen.trimSliceStop a b).toNat - (Gen.trimSliceStart a b).toNat) := by
  have h1 : (Gen.trimSliceStart a b).toNat = a := by simp only [Gen.trimSliceStart]; omega
  have h2 : (Gen.trimSliceStop a b).toNat = b + 1 := by simp only [Gen.trimSliceStop]; omega
  rw [h1, h2]; rfl

/-- `bin` with ends="inside": the edges / sample points the model uses are those of the source. Trapezoid: first and last edge
are the first and last centre (`Gen.binInsideEdgeLo/Hi`); Simpson: one quarter point is inserted after the first and one
before the last point (`Gen.binInsideLo/Hi`, regenerated from the two `np.insert` statements, positions 1 and -1) — shown on
two and three centres with arbitrary values -/
theorem bin_inside_points_are_code (c0 c1 c2 : ℚ) :
    trapzEdges false [c0, c1] = [Gen.binInsideEdgeLo c0, Gen.binMid c0 c1, Gen.binInsideEdgeHi c1] ∧
    trapzEdges false [c0, c1, c2] = [Gen.binInsideEdgeLo c0, Gen.binMid c0 c1, Gen.binMid c1 c2, Gen.binInsideEdgeHi c2] ∧
    simpsPoints false [c0, c1] =
      [c0, Gen.binInsideLo c0 (Gen.binMid c0 c1), Gen.binMid c0 c1, Gen.binInsideHi c1 (Gen.binMid c0 c1), c1] ∧
    simpsPoints false [c0, c1, c2] =
      [c0, Gen.binInsideLo c0 (Gen.binMid c0 c1), Gen.binMid c0 c1, c1, Gen.binMid c1 c2,
       Gen.binInsideHi c2 (Gen.binMid c1 c2), c2] := ⟨rfl, rfl, rfl, rfl⟩

/-- the two inserted Simpson points lie strictly inside the half-interval they split, so the sample grid of ends="inside"
stays strictly increasing and inside the span of the centres -/
theorem bin_inside_quarter_points (x0 x1 xl xp : ℚ) (h0 : x0 < x1) (hl : xp < xl) :
    x0 < Gen.binInsideLo x0 x1 ∧ Gen.binInsideLo x0 x1 < x1 ∧ xp < Gen.binInsideHi xl xp ∧ Gen.binInsideHi xl xp < xl := by
  simp only [Gen.binInsideLo, Gen.binInsideHi]
  refine ⟨by linarith, by linarith, by linarith, by linarith⟩

/-- `pad` places its new samples as the source does: the left block is `np.linspace(ends[0], minwave, nleft)` without its LAST
point, the right block `np.linspace(maxwave, ends[1], nright)` without its FIRST (`Gen.padLeft*/padRight*`), and the point
removed from each block is exactly the spectrum's own end sample — so no wavelength is duplicated and none of the new
points is lost -/
theorem pad_placement_is_code (e0 e1 mn mx : ℚ) (n : ℕ) (hn : 2 ≤ n) :
    Gen.padLeftDeleted = -1 ∧ Gen.padRightDeleted = 0 ∧
    (linspace (Gen.padRightStart e0 e1 mn mx) (Gen.padRightStop e0 e1 mn mx) n).head? = some mx ∧
    (linspace (Gen.padLeftStart e0 e1 mn mx) (Gen.padLeftStop e0 e1 mn mx) n).getLast? = some mn ∧
    (linspace (Gen.padLeftStart e0 e1 mn mx) (Gen.padLeftStop e0 e1 mn mx) n).head? = some e0 ∧
    (linspace (Gen.padRightStart e0 e1 mn mx) (Gen.padRightStop e0 e1 mn mx) n).getLast? = some e1 := by
  obtain ⟨k, rfl⟩ : ∃ k, n = k + 2 := ⟨n - 2, by omega⟩
  have hk : ((k + 2 - 1 : ℕ) : ℚ) ≠ 0 := by
    have : (k + 2 - 1 : ℕ) = k + 1 := by omega
    rw [this]; exact_mod_cast Nat.succ_ne_zero k
  have hlast : ∀ a b : ℚ, (linspace a b (k + 2)).getLast? = some b := by
    intro a b
    have h1 : ¬ (k + 2 = 1) := by omega
    simp only [linspace, h1, if_false, List.range_succ, List.map_append, List.map_cons, List.map_nil, List.getLast?_append,
      List.getLast?_singleton, Option.some_or]
    congr 1
    have : ((k + 1 : ℕ) : ℚ) = ((k + 2 - 1 : ℕ) : ℚ) := by congr 1
    rw [this]; field_simp; ring
  have hhead : ∀ a b : ℚ, (linspace a b (k + 2)).head? = some a := by
    intro a b
    have h1 : ¬ (k + 2 = 1) := by omega
    simp [linspace, h1, List.range_succ_eq_map]
  exact ⟨rfl, rfl, hhead _ _, hlast _ _, hhead _ _, hlast _ _⟩

/-- `integrate()` with its DEFAULT bounds (`start=None`, `end=None`: `Gen.integrateDefaultStart/End`, regenerated from the two
`if … is None` statements) keeps every sample of a well-formed spectrum, i.e. is the trapezoid sum over the whole grid —
the integral the clause "the bins sum to the spectrum's integral" and the additivity/linearity theorems refer to -/
theorem integrate_default_is_whole (s : Spectrum) (h : WF s) (a b : ℚ) (ha : s.wave.head? = some a)
    (hb : s.wave.getLast? = some b) :
    integrate s (Gen.integrateDefaultStart a b) (Gen.integrateDefaultEnd a b) = trapz s.wave s.value := by
  have hall : ∀ (l m : List ℚ) (p : ℚ → Bool), (∀ x ∈ l, p x = true) → m.length = l.length → keepMask (l.map p) m = m := by
    intro l
    induction l with
    | nil => intro m p _ hm; cases m with
      | nil => rfl
      | cons y ys => simp at hm
    | cons x xs ih =>
      intro m p hp hm
      cases m with
      | nil => simp at hm
      | cons y ys =>
        have hx : p x = true := hp x (by simp)
        simp only [List.map_cons, keepMask, hx, if_true]
        rw [ih ys p (fun z hz => hp z (by simp [hz])) (by simpa using hm)]
  have hk : ∀ w ∈ s.wave, Gen.integrateKeeps (Gen.integrateDefaultStart a b) (Gen.integrateDefaultEnd a b) w = true := by
    intro w hw
    have h1 := head_le_of_strictInc s.wave a h.1 ha w hw
    have h2 := le_getLast_of_strictInc s.wave b h.1 hb w hw
    simp [Gen.integrateKeeps, Gen.integrateDefaultStart, Gen.integrateDefaultEnd, h1, h2]
  simp only [integrate]
  rw [hall s.wave s.wave _ hk rfl, hall s.wave s.value _ hk h.2.symm]

/-- instance: four samples, no bounds given -/
example : integrate ⟨[1, 2, 4, 8], [5, 6, 7, 8]⟩ (Gen.integrateDefaultStart 1 8) (Gen.integrateDefaultEnd 1 8)
    = trapz [1, 2, 4, 8] [5, 6, 7, 8] := by decide +kernel

/-- non-vacuity of `append_single_refused`, and the accepted counterpart -/
example : append ⟨[4], [1]⟩ ⟨[1, 2, 4], [5, 6, 7]⟩ = (⟨[1, 2, 4], [5, 6, 7]⟩, some .valueError) ∧
    append ⟨[5], [1]⟩ ⟨[1, 2, 4], [5, 6, 7]⟩ = (⟨[1, 2, 4, 5], [5, 6, 7, 1]⟩, none) := by
  refine ⟨?_, ?_⟩ <;> decide +kernel

/-- non-vacuity: a history with an accepted crop, a refused append and an accepted pad -/
example : run ⟨[1, 2, 4, 8], [5, 6, 7, 8]⟩ [.crop 2 5, .append ⟨[3, 9], [1, 1]⟩, .pad 1 6 none false 0 0]
    = ⟨[1, 2, 4, 6], [0, 6, 7, 0]⟩ := by decide +kernel

end Lentil.C15
