import LentilVerif.Lemmas.Propagate
import LentilVerif.Lemmas.Canvas
import LentilVerif.Lemmas.FftBridge
import LentilVerif.Props.C01
import LentilVerif.Gen.PlaneType
import LentilVerif.Props.C20
import Mathlib.Algebra.Order.Floor.Ring
/-! # C02 — far-field propagation puts the Fraunhofer field on the right output samples

Property theorems only. The integer window logic is the *generated* kernel (`Gen.dftWindow`, `Gen.maskShape`,
`Gen.maskShift`, re-translated from lentil/propagate.py on every run, on top of `Gen` extent.py); `dft2` is the model of
`lentil.fourier.dft2` (Model/Fourier.lean; its reduction to the defining double sum is C01's `dft2_eq_defining_sum`).
Theorems are generic in the scalar ring `R` (with `RealLike.ofInt` the integer cast) and the value type `K`. -/
namespace Lentil.C02
open Lentil

variable {K R : Type} [CommRing R] [RealLike R] [Add K] [Mul K] [Zero K] [CxLike K R]

/-- **Every sample of an output field is the Fraunhofer sum at its own global coordinate, and the field is exactly zero
outside `out_extent ∩ prop_extent`.** For one input field with shift `fix + sub` (any integer split), any output
extent (whole array or mask box) and any propagation shape: on the infinite zero-padded output plane the field produced
by the loop body of `propagate_dft` has, at global coordinate `(r, c)`, the value of the unitary `dft2` sum of the input
field evaluated at the real coordinate `(r - fix0 - sub0, c - fix1 - sub1)` — i.e. relative to the shifted centre — when
`(r, c)` lies in both extents, and `0` otherwise (also when no field is produced at all). -/
theorem propagateField_sample (hcast : ∀ n : Int, (RealLike.ofInt n : R) = (n : R))
    (t : TField K R) (αr αc : R) (oe : Extent) (P0 P1 : Int)
    (hoe : oe.rmin ≤ oe.rmax ∧ oe.cmin ≤ oe.cmax) (hP : 0 < P0 ∧ 0 < P1) (r c : Int) :
    embO (propagateField t αr αc oe P0 P1) r c =
      if oe.inb r c && (propExtent P0 P1 t.fix0 t.fix1).inb r c
      then fraunhoferAt t.fld αr αc (RealLike.ofInt (r - t.fix0) - t.sub0) (RealLike.ofInt (c - t.fix1) - t.sub1)
      else 0 := by
  by_cases hi : intersect oe (propExtent P0 P1 t.fix0 t.fix1) = true
  · -- a field is produced; its extent is the intersection extent
    unfold propagateField
    rw [dftWindow_some oe P0 P1 t.fix0 t.fix1 hoe hP hi]
    simp only [embO, Fld.emb, Fld.extent, dft2_shape0, dft2_shape1, Gen.dftCallShape, Gen.dftCallShift, Gen.dftCallOffset, Gen.dftFieldOffset]
    rw [inter_roundtrip _ _ hi]
    unfold embAt
    by_cases hin : (intersectionExtent oe (propExtent P0 P1 t.fix0 t.fix1)).inb r c = true
    · have hb := (inter_inb_iff _ _ r c).mp hin
      simp only [hin, hb.1, hb.2, Bool.and_self, if_true]
      unfold fraunhoferAt
      have hw := window_coord oe (propExtent P0 P1 t.fix0 t.fix1)
      exact dft2_get_congr _ _ _ _ _ _ _ _ _ _ _ _ _ _ _ _ _ _
        (coord_eq hcast _ _ _ _ (hw t.fix0 r).1) (coord_eq hcast _ _ _ _ (hw t.fix1 c).2)
    · have hb : (oe.inb r c && (propExtent P0 P1 t.fix0 t.fix1).inb r c) = false := by
        cases h1 : oe.inb r c <;> cases h2 : (propExtent P0 P1 t.fix0 t.fix1).inb r c <;> simp
        exact hin ((inter_inb_iff _ _ r c).mpr ⟨h1, h2⟩)
      simp only [hin, hb, Bool.false_eq_true, if_false]
  · -- no overlap: no field, and no coordinate lies in both extents
    have hn : intersect oe (propExtent P0 P1 t.fix0 t.fix1) = false := by
      cases h : intersect oe (propExtent P0 P1 t.fix0 t.fix1) <;> simp_all
    unfold propagateField
    rw [dftWindow_none oe P0 P1 t.fix0 t.fix1 hn]
    simp only [embO]
    have hb : (oe.inb r c && (propExtent P0 P1 t.fix0 t.fix1).inb r c) = false := by
      cases h1 : oe.inb r c <;> cases h2 : (propExtent P0 P1 t.fix0 t.fix1).inb r c <;> simp
      exact hi (inter_inb_imp_intersect _ _ r c ((inter_inb_iff _ _ r c).mpr ⟨h1, h2⟩))
    simp only [hb, Bool.false_eq_true, if_false]

/-- **Output shape, propagation shape and mask only choose which samples are evaluated.** Two calls that differ in the
output extent (any output shape, or any mask box) and in the propagation shape give the same value at every global
coordinate that both evaluate, for the same sampling ratios `α` and the same shift. (Oversampling: `oversample_only_scales`.) -/
theorem window_only_selects (hcast : ∀ n : Int, (RealLike.ofInt n : R) = (n : R))
    (t : TField K R) (αr αc : R) (oe oe' : Extent) (P0 P1 P0' P1' : Int)
    (hoe : oe.rmin ≤ oe.rmax ∧ oe.cmin ≤ oe.cmax) (hP : 0 < P0 ∧ 0 < P1)
    (hoe' : oe'.rmin ≤ oe'.rmax ∧ oe'.cmin ≤ oe'.cmax) (hP' : 0 < P0' ∧ 0 < P1') (r c : Int)
    (hin : (oe.inb r c && (propExtent P0 P1 t.fix0 t.fix1).inb r c) = true)
    (hin' : (oe'.inb r c && (propExtent P0' P1' t.fix0 t.fix1).inb r c) = true) :
    embO (propagateField t αr αc oe P0 P1) r c =
    embO (propagateField t αr αc oe' P0' P1') r c := by
  rw [propagateField_sample hcast t αr αc oe P0 P1 hoe hP r c,
      propagateField_sample hcast t αr αc oe' P0' P1' hoe' hP' r c]
  simp only [hin, hin', if_true]

/-- the value of an evaluated sample does not depend on how the shift is split into integer and sub-pixel part -/
theorem split_irrelevant (hcast : ∀ n : Int, (RealLike.ofInt n : R) = (n : R))
    (f : Fld K) (fix0 fix1 k0 k1 : Int) (sub0 sub1 : R) (αr αc : R) (r c : Int) :
    fraunhoferAt f αr αc (RealLike.ofInt (r - fix0) - sub0) (RealLike.ofInt (c - fix1) - sub1) =
    fraunhoferAt f αr αc (RealLike.ofInt (r - (fix0 + k0)) - (sub0 - RealLike.ofInt k0))
      (RealLike.ofInt (c - (fix1 + k1)) - (sub1 - RealLike.ofInt k1)) := by
  congr 1 <;> (simp only [hcast]; push_cast; ring)

/-- **Mask box.** With a mask whose support has bounding rows `b.rmin..b.rmax` and columns `b.cmin..b.cmax` (array
indices in the `S0 x S1` output), the evaluated output extent is exactly the set of global coordinates of those
rows/columns, the origin being sample `floor(S/2)`: `_mask_shape`/`_mask_shift` (generated) re-centre the box. -/
theorem mask_bbox (S0 S1 : Int) (b : Extent) (r c : Int) :
    (outExtent S0 S1 (some b)).inb r c = true ↔
      b.rmin ≤ r + S0 / 2 ∧ r + S0 / 2 ≤ b.rmax ∧ b.cmin ≤ c + S1 / 2 ∧ c + S1 / 2 ≤ b.cmax := by
  rw [outExtent_mask, Extent.inb_iff]; simp only; omega

/-- **Whole array.** Without a mask the output extent is the whole output array: the global coordinates of indices
`0 ≤ i < S0`, `0 ≤ j < S1` with the optical axis at sample `floor(S/2)` -/
theorem whole_array (S0 S1 r c : Int) :
    (outExtent S0 S1 none).inb r c = true ↔ 0 ≤ r + S0 / 2 ∧ r + S0 / 2 < S0 ∧ 0 ≤ c + S1 / 2 ∧ c + S1 / 2 < S1 := by
  rw [outExtent_nomask, Extent.inb_iff]; simp only; omega

/-- the propagation window is `P0 x P1` samples whose centre sample `floor(P/2)` sits at the integer part of the shift -/
theorem prop_window (P0 P1 fix0 fix1 r c : Int) :
    (propExtent P0 P1 fix0 fix1).inb r c = true ↔
      0 ≤ r - fix0 + P0 / 2 ∧ r - fix0 + P0 / 2 < P0 ∧ 0 ≤ c - fix1 + P1 / 2 ∧ c - fix1 + P1 / 2 < P1 := by
  unfold propExtent; rw [arrayExtent_eq, Extent.inb_iff]; simp only; omega

/-- every output field of `propagate_dft` lies inside the output extent, hence (without mask) inside the output array:
nothing is ever written outside the evaluated window -/
theorem propagateField_extent (t : TField K R) (αr αc : R) (oe : Extent) (P0 P1 : Int)
    (hoe : oe.rmin ≤ oe.rmax ∧ oe.cmin ≤ oe.cmax) (hP : 0 < P0 ∧ 0 < P1) (g : Fld K)
    (hg : propagateField t αr αc oe P0 P1 = some g) :
    g.extent = intersectionExtent oe (propExtent P0 P1 t.fix0 t.fix1) := by
  by_cases hi : intersect oe (propExtent P0 P1 t.fix0 t.fix1) = true
  · unfold propagateField at hg
    rw [dftWindow_some oe P0 P1 t.fix0 t.fix1 hoe hP hi] at hg
    simp only [Option.some.injEq] at hg
    subst hg
    simp only [Fld.extent, dft2_shape0, dft2_shape1, Gen.dftCallShape, Gen.dftFieldOffset]
    exact inter_roundtrip _ _ hi
  · have hn : intersect oe (propExtent P0 P1 t.fix0 t.fix1) = false := by
      cases h : intersect oe (propExtent P0 P1 t.fix0 t.fix1) <;> simp_all
    unfold propagateField at hg
    rw [dftWindow_none oe P0 P1 t.fix0 t.fix1 hn] at hg
    cases hg

/-- **`Wavefront.field` of the propagated wavefront, sample by sample.** For any list of input fields (each with its own
shift `fix + sub`), any sampling ratios, output shape `S`, propagation shape `P`, oversampling `os` and mask box: the
sample `[i][j]` of the output array (`0 ≤ i < S0·os`, `0 ≤ j < S1·os`) is the sum over the input fields of the unitary
`dft2` sum of that field evaluated at the sample's global coordinate `g = (i - ⌊S0·os/2⌋, j - ⌊S1·os/2⌋)` relative to
the field's shifted centre, restricted to the fields whose window `out_extent ∩ prop_extent` contains `g` — in particular
**exactly zero** where no field evaluates it. -/
theorem propagateDft_sample {K R : Type} [CommRing R] [RealLike R] [Semiring K] [CxLike K R]
    (hcast : ∀ n : Int, (RealLike.ofInt n : R) = (n : R))
    (fs : List (TField K R)) (αr αc : R) (S0 S1 P0 P1 os : Int) (mask : Option Extent)
    (hoe : (outExtent (S0 * os) (S1 * os) mask).rmin ≤ (outExtent (S0 * os) (S1 * os) mask).rmax ∧
           (outExtent (S0 * os) (S1 * os) mask).cmin ≤ (outExtent (S0 * os) (S1 * os) mask).cmax)
    (hP : 0 < P0 * os ∧ 0 < P1 * os) (i j : Int) (hi : 0 ≤ i ∧ i < S0 * os) (hj : 0 ≤ j ∧ j < S1 * os) :
    (wavefrontField 1 (propagateDft fs αr αc S0 S1 P0 P1 os mask) (S0 * os) (S1 * os)).get i j =
      (fs.map fun t =>
        if (outExtent (S0 * os) (S1 * os) mask).inb (i - S0 * os / 2) (j - S1 * os / 2) &&
           (propExtent (P0 * os) (P1 * os) t.fix0 t.fix1).inb (i - S0 * os / 2) (j - S1 * os / 2)
        then fraunhoferAt t.fld αr αc (RealLike.ofInt (i - S0 * os / 2 - t.fix0) - t.sub0)
               (RealLike.ofInt (j - S1 * os / 2 - t.fix1) - t.sub1)
        else 0).sum := by
  rw [wavefrontField_get _ _ _ i j hi hj]
  unfold propagateDft
  rw [sum_filterMap_embO]
  congr 1
  apply List.map_congr_left
  intro t _
  exact propagateField_sample hcast t αr αc _ _ _ hoe hP _ _

/-! ## The sampling ratio, oversampling and the metadata (generated wiring: `Gen.dftAlpha`, `Gen.dftAlphaCall`, `Gen.dftOutMeta`,
`Gen.dftShapeOut`, re-translated from `_dft_alpha` and `propagate_dft` on every run) -/

/-- **alpha = dx·du/(wavelength·focal_length·oversample) on each axis**, with the wavefront's own pixelscale, wavelength
and focal length and the requested output pixelscale — row axis from index 0, column axis from index 1 -/
theorem alpha_formula {R : Type} [Field R] [RealLike R] (dx0 dx1 du0 du1 wl z : R) (os : Int) :
    dftAlpha dx0 dx1 du0 du1 wl z os =
      (dx0 * du0 / (wl * z * RealLike.ofInt os), dx1 * du1 / (wl * z * RealLike.ofInt os)) := rfl

/-- **The result carries the input wavelength and focal length and a sampling of du/oversample** (wavefront and every
output Field), has shape `shape·oversample`, and the plane type is flipped pupil ↔ image (`_propagate_ptype`, generated
for C08); an untyped wavefront is refused. -/
theorem metadata_carried {R : Type} [Field R] [RealLike R] (dx0 dx1 du0 du1 wl z : R) (os S0 S1 : Int) :
    dftMeta dx0 dx1 du0 du1 wl z os = (wl, (du0 / RealLike.ofInt os, du1 / RealLike.ofInt os), z) ∧
    Gen.dftFieldPixelscale du0 du1 (RealLike.ofInt os : R) = (du0 / RealLike.ofInt os, du1 / RealLike.ofInt os) ∧
    Gen.dftShapeOut S0 S1 os = (S0 * os, S1 * os) ∧
    Gen.codePropagate .pupil = .ok .image ∧ Gen.codePropagate .image = .ok .pupil ∧
    Gen.codePropagate .none = .refused .typeError := ⟨rfl, rfl, rfl, rfl, rfl, rfl⟩

/-- **Oversampling enters only through alpha and the sample grid.** Propagating with `oversample = os` onto `shape`,
`prop_shape` is the same computation as propagating with `oversample = 1` onto `shape·os`, `prop_shape·os` with the same
sampling ratios; and the sampling ratio for `os` is that for `os = 1` divided by `os`. So sample `k` of the oversampled
grid is the Fraunhofer sum at `k/os` output pixels — nothing else depends on `os`. -/
theorem oversample_only_scales {K R : Type} [Field R] [RealLike R] [Add K] [Mul K] [Zero K] [CxLike K R]
    (h1 : (RealLike.ofInt 1 : R) = 1)
    (fs : List (TField K R)) (αr αc : R) (S0 S1 P0 P1 os : Int) (mask : Option Extent) (dx0 dx1 du0 du1 wl z : R) :
    propagateDft fs αr αc S0 S1 P0 P1 os mask = propagateDft fs αr αc (S0 * os) (S1 * os) (P0 * os) (P1 * os) 1 mask ∧
    dftAlpha dx0 dx1 du0 du1 wl z os =
      ((dftAlpha dx0 dx1 du0 du1 wl z 1).1 / RealLike.ofInt os, (dftAlpha dx0 dx1 du0 du1 wl z 1).2 / RealLike.ofInt os) := by
  constructor
  · simp only [propagateDft, Gen.dftShapeOut, Gen.dftPropShapeOut, mul_one]
  · simp only [dftAlpha, Gen.dftAlphaCall, Gen.dftAlpha, h1, mul_one]
    refine Prod.ext ?_ ?_ <;> simp only [div_div]

/-- **Scale invariance.** Multiplying every length — input and output pixel scales, wavelength, focal length — by the same
factor `k ≠ 0` leaves the sampling ratios unchanged: nothing in the propagation may depend on the absolute size of the
physical units (metres, microns, nanometres). Each axis' ratio depends on that axis' pixel scales only. -/
theorem alpha_scale_invariant {R : Type} [Field R] [RealLike R] (k dx0 dx1 du0 du1 wl z : R) (os : Int) (hk : k ≠ 0)
    (dx0' du0' dx1' du1' : R) :
    dftAlpha (k * dx0) (k * dx1) (k * du0) (k * du1) (k * wl) (k * z) os = dftAlpha dx0 dx1 du0 du1 wl z os ∧
    (dftAlpha dx0' dx1 du0' du1 wl z os).2 = (dftAlpha dx0 dx1 du0 du1 wl z os).2 ∧
    (dftAlpha dx0 dx1 du0 du1 wl z os).1 = (dftAlpha dx0 dx1' du0 du1' wl z os).1 := by
  refine ⟨?_, rfl, rfl⟩
  simp only [dftAlpha, Gen.dftAlphaCall, Gen.dftAlpha]
  refine Prod.ext ?_ ?_ <;> simp only <;> field_simp

/-! ## The value is the Fraunhofer sum (composition with C01 at `K = ℂ`, `R = ℝ`) -/

/-- the model's point evaluation is the unitary Fraunhofer double sum over the field's samples, `X`, `Y` the global input
coordinates (array index minus `floor(n/2)` plus the field's offset), `(p, q)` the real output coordinate -/
theorem fraunhoferAt_eq_sum (f : Fld ℂ) (αr αc p q : ℝ) :
    fraunhoferAt f αr αc p q =
      ((Real.sqrt |αr * αc| : ℝ) : ℂ) *
      ∑ x ∈ Finset.range f.arr.s0.toNat, ∑ y ∈ Finset.range f.arr.s1.toNat, f.arr.get x y *
        Complex.exp (-(2 * Real.pi * Complex.I) *
          ((αr * (((x : ℤ) - f.arr.s0 / 2 + f.o0 : ℤ) : ℝ) * p + αc * (((y : ℤ) - f.arr.s1 / 2 + f.o1 : ℤ) : ℝ) * q : ℝ) : ℂ)) := by
  unfold fraunhoferAt
  rw [C01.dft2_eq_defining_sum]
  simp only [if_true]
  congr 1
  refine Finset.sum_congr rfl fun x _ => Finset.sum_congr rfl fun y _ => ?_
  congr 4
  norm_num

/-- **`Wavefront.field` of the propagated wavefront is the Fraunhofer sum.** With `alpha = dx·du/(λ z os)` per axis
(`alpha_formula`), sample `[i][j]` of the output array equals the sum, over the input fields whose window
`out_extent ∩ prop_extent` contains the sample's global coordinate `g = (i - ⌊S0·os/2⌋, j - ⌊S1·os/2⌋)`, of
`√|αr αc| · Σ_x Σ_y f(x, y) · exp(-2πi(αr·X·(g_r - s_r) + αc·Y·(g_c - s_c)))` with `s = fix + sub` the field's shift — and is
exactly zero where no field evaluates it. -/
theorem propagateDft_sample_fraunhofer (fs : List (TField ℂ ℝ)) (dx0 dx1 du0 du1 wl z : ℝ)
    (S0 S1 P0 P1 os : Int) (mask : Option Extent)
    (hoe : (outExtent (S0 * os) (S1 * os) mask).rmin ≤ (outExtent (S0 * os) (S1 * os) mask).rmax ∧
           (outExtent (S0 * os) (S1 * os) mask).cmin ≤ (outExtent (S0 * os) (S1 * os) mask).cmax)
    (hP : 0 < P0 * os ∧ 0 < P1 * os) (i j : Int) (hi : 0 ≤ i ∧ i < S0 * os) (hj : 0 ≤ j ∧ j < S1 * os) :
    (wavefrontField 1 (propagateDft fs (dftAlpha dx0 dx1 du0 du1 wl z os).1 (dftAlpha dx0 dx1 du0 du1 wl z os).2
        S0 S1 P0 P1 os mask) (S0 * os) (S1 * os)).get i j =
      (fs.map fun t =>
        if (outExtent (S0 * os) (S1 * os) mask).inb (i - S0 * os / 2) (j - S1 * os / 2) &&
           (propExtent (P0 * os) (P1 * os) t.fix0 t.fix1).inb (i - S0 * os / 2) (j - S1 * os / 2)
        then
          ((Real.sqrt |dx0 * du0 / (wl * z * os) * (dx1 * du1 / (wl * z * os))| : ℝ) : ℂ) *
          ∑ x ∈ Finset.range t.fld.arr.s0.toNat, ∑ y ∈ Finset.range t.fld.arr.s1.toNat, t.fld.arr.get x y *
            Complex.exp (-(2 * Real.pi * Complex.I) *
              ((dx0 * du0 / (wl * z * os) * (((x : ℤ) - t.fld.arr.s0 / 2 + t.fld.o0 : ℤ) : ℝ) * (((i - S0 * os / 2 - t.fix0 : ℤ) : ℝ) - t.sub0)
                + dx1 * du1 / (wl * z * os) * (((y : ℤ) - t.fld.arr.s1 / 2 + t.fld.o1 : ℤ) : ℝ) * (((j - S1 * os / 2 - t.fix1 : ℤ) : ℝ) - t.sub1) : ℝ) : ℂ))
        else 0).sum := by
  rw [propagateDft_sample (fun _ => rfl) fs _ _ S0 S1 P0 P1 os mask hoe hP i j hi hj]
  congr 1
  apply List.map_congr_left
  intro t _
  split
  · rw [fraunhoferAt_eq_sum]; rfl
  · rfl

/-- **The Fraunhofer sum of the input-plane field.** When all fields of the wavefront carry the same shift (no tilt, a
common Tilt plane, `Wavefront(tilt=…)`), the per-field sums merge: sample `[i][j]` of the output is the unitary `dft2` sum of
`Wavefront.field` of the INPUT wavefront (all its fields inserted into its `W0 x W1` array), evaluated at the sample's
global coordinate relative to the shifted centre, inside the common window — and zero outside. (Fields on the canvas,
non-empty; additivity of the transform in the embedded field, C03.) -/
theorem propagateDft_common_shift {K R : Type} [CommRing R] [RealLike R] [CommRing K] [CxLike K R]
    (hcast : ∀ n : Int, (RealLike.ofInt n : R) = (n : R))
    (fs : List (Fld K)) (fix0 fix1 : Int) (sub0 sub1 : R) (W0 W1 : Int) (hWp : 0 < W0 ∧ 0 < W1)
    (hfit : ∀ f ∈ fs, f.within W0 W1) (hpos : ∀ f ∈ fs, 0 < f.arr.s0 ∧ 0 < f.arr.s1)
    (αr αc : R) (S0 S1 P0 P1 os : Int) (mask : Option Extent)
    (hoe : (outExtent (S0 * os) (S1 * os) mask).rmin ≤ (outExtent (S0 * os) (S1 * os) mask).rmax ∧
           (outExtent (S0 * os) (S1 * os) mask).cmin ≤ (outExtent (S0 * os) (S1 * os) mask).cmax)
    (hP : 0 < P0 * os ∧ 0 < P1 * os) (i j : Int) (hi : 0 ≤ i ∧ i < S0 * os) (hj : 0 ≤ j ∧ j < S1 * os) :
    (wavefrontField 1 (propagateDft (fs.map fun f => (⟨f, fix0, fix1, sub0, sub1⟩ : TField K R)) αr αc S0 S1 P0 P1 os mask)
        (S0 * os) (S1 * os)).get i j =
      if (outExtent (S0 * os) (S1 * os) mask).inb (i - S0 * os / 2) (j - S1 * os / 2) &&
         (propExtent (P0 * os) (P1 * os) fix0 fix1).inb (i - S0 * os / 2) (j - S1 * os / 2)
      then fraunhoferAt ⟨wavefrontField 1 fs W0 W1, 0, 0⟩ αr αc (RealLike.ofInt (i - S0 * os / 2 - fix0) - sub0)
             (RealLike.ofInt (j - S1 * os / 2 - fix1) - sub1)
      else 0 := by
  rw [propagateDft_sample hcast _ αr αc S0 S1 P0 P1 os mask hoe hP i j hi hj, List.map_map]
  by_cases hw : ((outExtent (S0 * os) (S1 * os) mask).inb (i - S0 * os / 2) (j - S1 * os / 2) &&
      (propExtent (P0 * os) (P1 * os) fix0 fix1).inb (i - S0 * os / 2) (j - S1 * os / 2)) = true
  · have hterm : ∀ f ∈ fs, ((fun t : TField K R =>
          if ((outExtent (S0 * os) (S1 * os) mask).inb (i - S0 * os / 2) (j - S1 * os / 2) &&
              (propExtent (P0 * os) (P1 * os) t.fix0 t.fix1).inb (i - S0 * os / 2) (j - S1 * os / 2)) = true
          then fraunhoferAt t.fld αr αc (RealLike.ofInt (i - S0 * os / 2 - t.fix0) - t.sub0) (RealLike.ofInt (j - S1 * os / 2 - t.fix1) - t.sub1)
          else 0) ∘ fun f => (⟨f, fix0, fix1, sub0, sub1⟩ : TField K R)) f =
        (dft2 f.arr αr αc 1 1 (-(RealLike.ofInt (i - S0 * os / 2 - fix0) - sub0)) (-(RealLike.ofInt (j - S1 * os / 2 - fix1) - sub1))
          f.o0 f.o1 true).get 0 0 := by
      intro f _; simp only [Function.comp, hw, if_true]; rfl
    rw [List.map_congr_left hterm, hw]
    simp only [if_true]
    unfold fraunhoferAt
    exact (dft2_canvas fs W0 W1 hWp hfit hpos αr αc 1 1 _ _ true 0 0).symm
  · have hterm : ∀ f ∈ fs, ((fun t : TField K R =>
          if ((outExtent (S0 * os) (S1 * os) mask).inb (i - S0 * os / 2) (j - S1 * os / 2) &&
              (propExtent (P0 * os) (P1 * os) t.fix0 t.fix1).inb (i - S0 * os / 2) (j - S1 * os / 2)) = true
          then fraunhoferAt t.fld αr αc (RealLike.ofInt (i - S0 * os / 2 - t.fix0) - t.sub0) (RealLike.ofInt (j - S1 * os / 2 - t.fix1) - t.sub1)
          else 0) ∘ fun f => (⟨f, fix0, fix1, sub0, sub1⟩ : TField K R)) f = 0 := by
      intro f _; simp only [Function.comp, hw, Bool.false_eq_true, if_false]
    rw [List.map_congr_left hterm]
    simp only [hw, Bool.false_eq_true, if_false]
    simp

/-! ## The split of the shift is `np.fix`, and the mask box is the bounding box of the mask's support -/

/-- **With the shift split by `np.fix`** (`tfieldOfShift`: `fix = trunc(shift)`, `sub = shift - fix`), the value at a global output
coordinate is the Fraunhofer sum at that coordinate minus the field's real-valued shift, and the propagation window is the
`P0 x P1` window whose centre sample sits at `trunc(shift)`. -/
theorem propagateField_sample_shift {K R : Type} [CommRing R] [RealLike R] [TruncLike R] [Add K] [Mul K] [Zero K] [CxLike K R]
    (hcast : ∀ n : Int, (RealLike.ofInt n : R) = (n : R))
    (f : Fld K) (s0 s1 αr αc : R) (oe : Extent) (P0 P1 : Int)
    (hoe : oe.rmin ≤ oe.rmax ∧ oe.cmin ≤ oe.cmax) (hP : 0 < P0 ∧ 0 < P1) (r c : Int) :
    embO (propagateField (tfieldOfShift f s0 s1) αr αc oe P0 P1) r c =
      if oe.inb r c && (propExtent P0 P1 (TruncLike.trunc s0) (TruncLike.trunc s1)).inb r c
      then fraunhoferAt f αr αc (RealLike.ofInt r - s0) (RealLike.ofInt c - s1)
      else 0 := by
  rw [propagateField_sample hcast (tfieldOfShift f s0 s1) αr αc oe P0 P1 hoe hP r c]
  simp only [tfieldOfShift, fixSplit]
  have e0 : (RealLike.ofInt (r - TruncLike.trunc s0) : R) - (s0 - RealLike.ofInt (TruncLike.trunc s0)) = RealLike.ofInt r - s0 := by
    simp only [hcast]; push_cast; ring
  have e1 : (RealLike.ofInt (c - TruncLike.trunc s1) : R) - (s1 - RealLike.ofInt (TruncLike.trunc s1)) = RealLike.ofInt c - s1 := by
    simp only [hcast]; push_cast; ring
  rw [e0, e1]
  rfl

/-- **`Wavefront.field` of the propagated wavefront when every field's split is the code's `np.fix` split.** The input is a list of
fields with their real-valued shifts `(s0, s1)` (`Field.shift`, C04); the model splits each with `tfieldOfShift` — no free integer /
sub-pixel parameter is left. Sample `[i][j]` is the sum, over the fields whose `P·os` window **centred at `trunc(shift)`** and the output
extent contain its global coordinate `g`, of the Fraunhofer sum at `g − shift`; exactly zero where no field evaluates it. -/
theorem propagateDft_sample_of_shifts {K R : Type} [CommRing R] [RealLike R] [TruncLike R] [Semiring K] [CxLike K R]
    (hcast : ∀ n : Int, (RealLike.ofInt n : R) = (n : R))
    (fs : List (Fld K × R × R)) (αr αc : R) (S0 S1 P0 P1 os : Int) (mask : Option Extent)
    (hoe : (outExtent (S0 * os) (S1 * os) mask).rmin ≤ (outExtent (S0 * os) (S1 * os) mask).rmax ∧
           (outExtent (S0 * os) (S1 * os) mask).cmin ≤ (outExtent (S0 * os) (S1 * os) mask).cmax)
    (hP : 0 < P0 * os ∧ 0 < P1 * os) (i j : Int) (hi : 0 ≤ i ∧ i < S0 * os) (hj : 0 ≤ j ∧ j < S1 * os) :
    (wavefrontField 1 (propagateDft (fs.map fun p => tfieldOfShift p.1 p.2.1 p.2.2) αr αc S0 S1 P0 P1 os mask) (S0 * os) (S1 * os)).get i j =
      (fs.map fun p =>
        if (outExtent (S0 * os) (S1 * os) mask).inb (i - S0 * os / 2) (j - S1 * os / 2) &&
           (propExtent (P0 * os) (P1 * os) (TruncLike.trunc p.2.1) (TruncLike.trunc p.2.2)).inb (i - S0 * os / 2) (j - S1 * os / 2)
        then fraunhoferAt p.1 αr αc (RealLike.ofInt (i - S0 * os / 2) - p.2.1) (RealLike.ofInt (j - S1 * os / 2) - p.2.2)
        else 0).sum := by
  rw [propagateDft_sample hcast _ αr αc S0 S1 P0 P1 os mask hoe hP i j hi hj, List.map_map]
  congr 1
  apply List.map_congr_left
  intro p _
  simp only [Function.comp, tfieldOfShift, fixSplit]
  have e0 : (RealLike.ofInt (i - S0 * os / 2 - TruncLike.trunc p.2.1) : R) - (p.2.1 - RealLike.ofInt (TruncLike.trunc p.2.1)) =
      RealLike.ofInt (i - S0 * os / 2) - p.2.1 := by simp only [hcast]; push_cast; ring
  have e1 : (RealLike.ofInt (j - S1 * os / 2 - TruncLike.trunc p.2.2) : R) - (p.2.2 - RealLike.ofInt (TruncLike.trunc p.2.2)) =
      RealLike.ofInt (j - S1 * os / 2) - p.2.2 := by simp only [hcast]; push_cast; ring
  rw [e0, e1]
  rfl

/-- **One Fraunhofer sum of the input-plane field, for a common real shift.** When every field of the wavefront carries the same
real-valued shift `(s0, s1)` (no tilt, a common Tilt plane, `Wavefront(tilt=…)`) and the code splits it with `np.fix` (`tfieldOfShift`),
sample `[i][j]` of the output is the unitary transform of `Wavefront.field` of the INPUT wavefront evaluated at `g − shift`, inside the
window centred at `trunc(shift)`, and zero outside — `propagateDft_common_shift` with the split derived, not assumed. -/
theorem propagateDft_common_real_shift {K R : Type} [CommRing R] [RealLike R] [TruncLike R] [CommRing K] [CxLike K R]
    (hcast : ∀ n : Int, (RealLike.ofInt n : R) = (n : R))
    (fs : List (Fld K)) (s0 s1 : R) (W0 W1 : Int) (hWp : 0 < W0 ∧ 0 < W1)
    (hfit : ∀ f ∈ fs, f.within W0 W1) (hpos : ∀ f ∈ fs, 0 < f.arr.s0 ∧ 0 < f.arr.s1)
    (αr αc : R) (S0 S1 P0 P1 os : Int) (mask : Option Extent)
    (hoe : (outExtent (S0 * os) (S1 * os) mask).rmin ≤ (outExtent (S0 * os) (S1 * os) mask).rmax ∧
           (outExtent (S0 * os) (S1 * os) mask).cmin ≤ (outExtent (S0 * os) (S1 * os) mask).cmax)
    (hP : 0 < P0 * os ∧ 0 < P1 * os) (i j : Int) (hi : 0 ≤ i ∧ i < S0 * os) (hj : 0 ≤ j ∧ j < S1 * os) :
    (wavefrontField 1 (propagateDft (fs.map fun f => tfieldOfShift f s0 s1) αr αc S0 S1 P0 P1 os mask) (S0 * os) (S1 * os)).get i j =
      if (outExtent (S0 * os) (S1 * os) mask).inb (i - S0 * os / 2) (j - S1 * os / 2) &&
         (propExtent (P0 * os) (P1 * os) (TruncLike.trunc s0) (TruncLike.trunc s1)).inb (i - S0 * os / 2) (j - S1 * os / 2)
      then fraunhoferAt ⟨wavefrontField 1 fs W0 W1, 0, 0⟩ αr αc (RealLike.ofInt (i - S0 * os / 2) - s0) (RealLike.ofInt (j - S1 * os / 2) - s1)
      else 0 := by
  have h := propagateDft_common_shift hcast fs (TruncLike.trunc s0) (TruncLike.trunc s1) (s0 - RealLike.ofInt (TruncLike.trunc s0))
    (s1 - RealLike.ofInt (TruncLike.trunc s1)) W0 W1 hWp hfit hpos αr αc S0 S1 P0 P1 os mask hoe hP i j hi hj
  have e0 : (RealLike.ofInt (i - S0 * os / 2 - TruncLike.trunc s0) : R) - (s0 - RealLike.ofInt (TruncLike.trunc s0)) =
      RealLike.ofInt (i - S0 * os / 2) - s0 := by simp only [hcast]; push_cast; ring
  have e1 : (RealLike.ofInt (j - S1 * os / 2 - TruncLike.trunc s1) : R) - (s1 - RealLike.ofInt (TruncLike.trunc s1)) =
      RealLike.ofInt (j - S1 * os / 2) - s1 := by simp only [hcast]; push_cast; ring
  rw [e0, e1] at h
  exact h

/-- **The split of a field's shift in the model is the regenerated split of `propagate_dft`**: `tfieldOfShift` (integer part `trunc`,
sub-pixel part `shift − trunc`) is `Gen.dftShiftSplit` — read from `fix_shift = np.fix(shift)`, `subpx_shift = shift - fix_shift` — with
`np.fix` = truncation, whatever `floor` / `round` / `ceil` are; and the shift is asked from `Field.shift` at the wavefront's focal
length and wavelength, the call's `pixelscale` and `oversample`, in (row, column) order (`Gen.dftShiftArgs`). Another rounding in the
source (floor, round) changes `Gen.dftShiftSplit` and this proof stops checking. -/
theorem shift_split_is_generated {K R : Type} [Add R] [Sub R] [Mul R] [Div R] [RealLike R] [TruncLike R] (fl rd ce : R → R) (f : Fld K) (s0 s1 : R)
    (zf wlf du0 du1 os : R) :
    Gen.dftShiftSplit (fun s => RealLike.ofInt (TruncLike.trunc s)) fl rd ce s0 s1
      = ((RealLike.ofInt (tfieldOfShift f s0 s1).fix0, RealLike.ofInt (tfieldOfShift f s0 s1).fix1),
         ((tfieldOfShift f s0 s1).sub0, (tfieldOfShift f s0 s1).sub1)) ∧
    Gen.dftShiftArgs zf wlf du0 du1 os = ((zf, wlf, (du0, du1), os), true) := ⟨rfl, rfl⟩

/-- the real truncation toward zero (`np.fix`): `⌊s⌋` for `s ≥ 0`, `⌈s⌉` otherwise -/
noncomputable instance instTruncLikeReal : TruncLike ℝ := ⟨fun s => if 0 ≤ s then ⌊s⌋ else ⌈s⌉⟩

/-- **`np.fix` keeps the window within one sample of the shift**: the sub-pixel part has magnitude below one and the sign of the
shift, so the window centre `trunc(shift)` is the integer nearest to the shift on the side of zero. -/
theorem fix_split_spec (s : ℝ) :
    |(fixSplit s).2| < 1 ∧ (0 ≤ s → 0 ≤ (fixSplit s).2) ∧ (s ≤ 0 → (fixSplit s).2 ≤ 0) ∧
    (RealLike.ofInt (fixSplit s).1 : ℝ) + (fixSplit s).2 = s := by
  have hf := Int.floor_le s
  have hf' := Int.lt_floor_add_one s
  have hc := Int.le_ceil s
  have hc' := Int.ceil_lt_add_one s
  simp only [fixSplit, TruncLike.trunc, RealLike.ofInt]
  by_cases h : 0 ≤ s
  · simp only [h, if_true]
    refine ⟨by rw [abs_lt]; constructor <;> linarith, fun _ => by linarith, fun h0 => ?_, by ring⟩
    have : s = 0 := le_antisymm h0 h
    subst this; simp
  · have hlt : s < 0 := not_le.mp h
    simp only [h, if_false]
    refine ⟨by rw [abs_lt]; constructor <;> linarith, fun h0 => h0.elim, fun _ => by linarith, by ring⟩

/-- **The mask box is the bounding box of the mask's support.** With `lentil.boundary(mask, threshold=0)` modelled executably (C20's
`boundary ∘ gtMask`, proved to be the tight bounding box in `C20.boundary_is_bbox`), the output extent computed from the mask array
contains the global coordinate of every mask sample above the threshold, and each of its four sides holds one — so the evaluated window
is exactly the bounding box of the support, re-centred at `⌊S/2⌋`. -/
theorem mask_extent_is_support_bbox (S0 S1 : Int) (m : Arr Bool) (oe : Extent) (h : outExtentOfMask S0 S1 (some m) = some oe) :
    (∀ i j : Nat, (i : Int) < m.s0 → (j : Int) < m.s1 → m.get i j = true → oe.inb ((i : Int) - S0 / 2) ((j : Int) - S1 / 2) = true) ∧
    (∃ j : Nat, (j : Int) < m.s1 ∧ m.get (oe.rmin + S0 / 2) j = true) ∧ (∃ j : Nat, (j : Int) < m.s1 ∧ m.get (oe.rmax + S0 / 2) j = true) ∧
    (∃ i : Nat, (i : Int) < m.s0 ∧ m.get i (oe.cmin + S1 / 2) = true) ∧ (∃ i : Nat, (i : Int) < m.s0 ∧ m.get i (oe.cmax + S1 / 2) = true) := by
  unfold outExtentOfMask at h
  cases hb : boundary m with
  | none => simp [hb] at h
  | some b =>
    simp only [hb, Option.map_some, Option.some.injEq] at h
    subst h
    obtain ⟨_, hcont, e1, e2, e3, e4⟩ := C20.boundary_is_bbox m b hb
    rw [outExtent_mask]
    refine ⟨fun i j hi hj hm => ?_, ?_, ?_, ?_, ?_⟩
    · have := hcont i j hi hj hm
      rw [Extent.inb_iff]; simp only; omega
    · simpa using e1
    · simpa using e2
    · simpa using e3
    · simpa using e4

/-! ## The call as the caller writes it: defaults, broadcasting, the mask guard (all generated) -/

/-- **Defaults and broadcasting of `shape` / `prop_shape`** (generated from the two conditional assignments of `propagate_dft`):
`shape=None` is the wavefront's shape, `prop_shape=None` is `shape`, one int means a square, a pair is taken as is. -/
theorem shape_defaults (W0 W1 S0 S1 n a b : Int) :
    Gen.dftShapeDefault W0 W1 .none = (W0, W1) ∧ Gen.dftShapeDefault W0 W1 (.scalar n) = (n, n) ∧
    Gen.dftShapeDefault W0 W1 (.pair a b) = (a, b) ∧
    Gen.dftPropShapeDefault S0 S1 .none = (S0, S1) ∧ Gen.dftPropShapeDefault S0 S1 (.scalar n) = (n, n) ∧
    Gen.dftPropShapeDefault S0 S1 (.pair a b) = (a, b) := by
  refine ⟨rfl, rfl, rfl, rfl, rfl, rfl⟩

/-- **Without a mask the call is `propagateDft` at the resolved shapes** — so every theorem above (stated for explicit pairs) applies to
the call with `None` / int / pair arguments; in particular `propagate_dft(w, du)` evaluates the whole `wavefront.shape * oversample` array. -/
theorem call_no_mask (fs : List (TField K R)) (αr αc : R) (W0 W1 : Int) (shape propShape : Gen.ShapeArg) (os : Int) :
    propagateDftCall fs αr αc W0 W1 shape propShape os none =
      .ok (propagateDft fs αr αc (Gen.dftShapeDefault W0 W1 shape).1 (Gen.dftShapeDefault W0 W1 shape).2
            (Gen.dftPropShapeDefault (Gen.dftShapeDefault W0 W1 shape).1 (Gen.dftShapeDefault W0 W1 shape).2 propShape).1
            (Gen.dftPropShapeDefault (Gen.dftShapeDefault W0 W1 shape).1 (Gen.dftShapeDefault W0 W1 shape).2 propShape).2 os none)
          ((Gen.dftShapeDefault W0 W1 shape).1 * os) ((Gen.dftShapeDefault W0 W1 shape).2 * os) := by
  simp only [propagateDftCall, propagateDftResolved, propagateDft, noMaskOutExtent, Gen.dftOutExtentArgsNoMask, outExtent, Gen.dftShapeOut]

/-- the all-default call: `propagate_dft(w, du, oversample=os)` -/
theorem call_all_defaults (fs : List (TField K R)) (αr αc : R) (W0 W1 os : Int) :
    propagateDftCall fs αr αc W0 W1 .none .none os none = .ok (propagateDft fs αr αc W0 W1 W0 W1 os none) (W0 * os) (W1 * os) := by
  rw [call_no_mask]; rfl

/-- **The call as written, on fields carrying their real shifts**: `propagate_dft(w, du, shape, prop_shape, oversample)` (no mask; `None` /
int / pair arguments resolved by the generated defaults) answers, and sample `[i][j]` of `Wavefront.field` of the answer is the sum over the
fields whose window centred at `trunc(shift)` contains the sample of the Fraunhofer sum at `g − shift` — the `np.fix` split (`tfieldOfShift`)
is inside the statement, the driver adds nothing. -/
theorem call_sample_of_shifts {K R : Type} [CommRing R] [RealLike R] [TruncLike R] [Semiring K] [CxLike K R]
    (hcast : ∀ n : Int, (RealLike.ofInt n : R) = (n : R))
    (fs : List (Fld K × R × R)) (αr αc : R) (W0 W1 : Int) (shape propShape : Gen.ShapeArg) (os : Int)
    (S P : Int × Int) (hS : Gen.dftShapeDefault W0 W1 shape = S) (hPs : Gen.dftPropShapeDefault S.1 S.2 propShape = P)
    (hSpos : 0 < S.1 * os ∧ 0 < S.2 * os) (hP : 0 < P.1 * os ∧ 0 < P.2 * os) :
    ∃ out, propagateDftCall (fs.map fun p => tfieldOfShift p.1 p.2.1 p.2.2) αr αc W0 W1 shape propShape os none = .ok out (S.1 * os) (S.2 * os) ∧
      ∀ i j : Int, 0 ≤ i ∧ i < S.1 * os → 0 ≤ j ∧ j < S.2 * os →
        (wavefrontField 1 out (S.1 * os) (S.2 * os)).get i j =
          (fs.map fun p =>
            if (outExtent (S.1 * os) (S.2 * os) none).inb (i - S.1 * os / 2) (j - S.2 * os / 2) &&
               (propExtent (P.1 * os) (P.2 * os) (TruncLike.trunc p.2.1) (TruncLike.trunc p.2.2)).inb (i - S.1 * os / 2) (j - S.2 * os / 2)
            then fraunhoferAt p.1 αr αc (RealLike.ofInt (i - S.1 * os / 2) - p.2.1) (RealLike.ofInt (j - S.2 * os / 2) - p.2.2)
            else 0).sum := by
  refine ⟨propagateDft (fs.map fun p => tfieldOfShift p.1 p.2.1 p.2.2) αr αc S.1 S.2 P.1 P.2 os none, ?_, fun i j hi hj => ?_⟩
  · rw [call_no_mask, hS, hPs]
  · exact propagateDft_sample_of_shifts hcast fs αr αc S.1 S.2 P.1 P.2 os none
      (by rw [outExtent_nomask]; simp only; omega) hP i j hi hj

/-- the resolved body with a mask, by the value of the generated guard and of `boundary` -/
theorem resolved_mask (fs : List (TField K R)) (αr αc : R) (S0 S1 P0 P1 : Int) (m : Arr Bool) :
    (Gen.dftMaskMismatch m.s0 m.s1 S0 S1 = true → propagateDftResolved fs αr αc S0 S1 P0 P1 (some m) = .valueError) ∧
    (Gen.dftMaskMismatch m.s0 m.s1 S0 S1 = false → boundary m = none → propagateDftResolved fs αr αc S0 S1 P0 P1 (some m) = .indexError) ∧
    (Gen.dftMaskMismatch m.s0 m.s1 S0 S1 = false → ∀ b, boundary m = some b → propagateDftResolved fs αr αc S0 S1 P0 P1 (some m) =
      .ok (fs.filterMap fun t => propagateField t αr αc (maskOutExtent m.s0 m.s1 S0 S1 b) P0 P1) S0 S1) := by
  refine ⟨fun hg => ?_, fun hg hb => ?_, fun hg b hb => ?_⟩
  · simp only [propagateDftResolved, hg, if_true]
  · simp only [propagateDftResolved, hg, hb, Bool.false_eq_true, if_false]
  · simp only [propagateDftResolved, hg, hb, Bool.false_eq_true, if_false]

/-- **With a mask of the output shape the call is `propagateDft` on the mask's bounding box**; an all-zero mask is NumPy's IndexError. -/
theorem call_mask_matching (fs : List (TField K R)) (αr αc : R) (W0 W1 : Int) (shape propShape : Gen.ShapeArg) (os : Int) (m : Arr Bool)
    (h0 : m.s0 = (Gen.dftShapeDefault W0 W1 shape).1 * os) (h1 : m.s1 = (Gen.dftShapeDefault W0 W1 shape).2 * os) :
    (boundary m = none → propagateDftCall fs αr αc W0 W1 shape propShape os (some m) = .indexError) ∧
    (∀ b, boundary m = some b → propagateDftCall fs αr αc W0 W1 shape propShape os (some m) =
      .ok (propagateDft fs αr αc (Gen.dftShapeDefault W0 W1 shape).1 (Gen.dftShapeDefault W0 W1 shape).2
            (Gen.dftPropShapeDefault (Gen.dftShapeDefault W0 W1 shape).1 (Gen.dftShapeDefault W0 W1 shape).2 propShape).1
            (Gen.dftPropShapeDefault (Gen.dftShapeDefault W0 W1 shape).1 (Gen.dftShapeDefault W0 W1 shape).2 propShape).2 os (some b))
          ((Gen.dftShapeDefault W0 W1 shape).1 * os) ((Gen.dftShapeDefault W0 W1 shape).2 * os)) := by
  have hg : Gen.dftMaskMismatch m.s0 m.s1 (Gen.dftShapeOut (Gen.dftShapeDefault W0 W1 shape).1 (Gen.dftShapeDefault W0 W1 shape).2 os).1
      (Gen.dftShapeOut (Gen.dftShapeDefault W0 W1 shape).1 (Gen.dftShapeDefault W0 W1 shape).2 os).2 = false := by
    simp [Gen.dftMaskMismatch, Gen.dftShapeOut, h0, h1]
  refine ⟨fun hb => ?_, fun b hb => ?_⟩
  · unfold propagateDftCall; exact (resolved_mask fs αr αc _ _ _ _ m).2.1 hg hb
  · unfold propagateDftCall; rw [(resolved_mask fs αr αc _ _ _ _ m).2.2 hg b hb]
    simp only [propagateDft, maskOutExtent, Gen.dftOutExtentArgsMask, outExtent, Gen.dftShapeOut, h0, h1]

/-- **The call with a mask, on fields carrying their real shifts.** For a mask of the output shape with support (`boundary m = some b`):
the call answers, and sample `[i][j]` of `Wavefront.field` of the answer is the sum over the fields whose window centred at `trunc(shift)`
contains the sample — restricted to the bounding box of the mask's support — of the Fraunhofer sum at `g − shift`; exactly zero outside
the box. Composition of `call_mask_matching`, `C20.boundary_is_bbox` (the box is never empty) and `propagateDft_sample_of_shifts`. -/
theorem call_mask_sample_of_shifts {K R : Type} [CommRing R] [RealLike R] [TruncLike R] [Semiring K] [CxLike K R]
    (hcast : ∀ n : Int, (RealLike.ofInt n : R) = (n : R))
    (fs : List (Fld K × R × R)) (αr αc : R) (W0 W1 : Int) (shape propShape : Gen.ShapeArg) (os : Int) (m : Arr Bool) (b : Extent)
    (S P : Int × Int) (hS : Gen.dftShapeDefault W0 W1 shape = S) (hPs : Gen.dftPropShapeDefault S.1 S.2 propShape = P)
    (h0 : m.s0 = S.1 * os) (h1 : m.s1 = S.2 * os) (hb : boundary m = some b) (hP : 0 < P.1 * os ∧ 0 < P.2 * os) :
    ∃ out, propagateDftCall (fs.map fun p => tfieldOfShift p.1 p.2.1 p.2.2) αr αc W0 W1 shape propShape os (some m) = .ok out (S.1 * os) (S.2 * os) ∧
      ∀ i j : Int, 0 ≤ i ∧ i < S.1 * os → 0 ≤ j ∧ j < S.2 * os →
        (wavefrontField 1 out (S.1 * os) (S.2 * os)).get i j =
          (fs.map fun p =>
            if (outExtent (S.1 * os) (S.2 * os) (some b)).inb (i - S.1 * os / 2) (j - S.2 * os / 2) &&
               (propExtent (P.1 * os) (P.2 * os) (TruncLike.trunc p.2.1) (TruncLike.trunc p.2.2)).inb (i - S.1 * os / 2) (j - S.2 * os / 2)
            then fraunhoferAt p.1 αr αc (RealLike.ofInt (i - S.1 * os / 2) - p.2.1) (RealLike.ofInt (j - S.2 * os / 2) - p.2.2)
            else 0).sum := by
  obtain ⟨⟨_, hr, _, _, hc, _⟩, _⟩ := C20.boundary_is_bbox m b hb
  refine ⟨propagateDft (fs.map fun p => tfieldOfShift p.1 p.2.1 p.2.2) αr αc S.1 S.2 P.1 P.2 os (some b), ?_, fun i j hi hj => ?_⟩
  · have := (call_mask_matching (fs.map fun p => tfieldOfShift p.1 p.2.1 p.2.2) αr αc W0 W1 shape propShape os m
      (by rw [hS]; exact h0) (by rw [hS]; exact h1)).2 b hb
    rw [this, hS, hPs]
  · exact propagateDft_sample_of_shifts hcast fs αr αc S.1 S.2 P.1 P.2 os (some b)
      (by rw [outExtent_mask]; simp only; omega) hP i j hi hj

/-- **A mask of the wrong shape is refused**: the call ends in ValueError iff the mask differs from the output array
`shape * oversample` in EITHER dimension (generated guard `np.any(mask.shape != shape_out)`); so every mask that is accepted has exactly
the output shape and `call_mask_matching` applies to it. (Before fix c7b8eca the guard was `np.all`, which let a mask that was wrong in
one dimension through and centred its bounding box on the mask's own shape — former known finding `KF-C02-mask-shape-guard`.) -/
theorem call_mask_refused_iff (fs : List (TField K R)) (αr αc : R) (W0 W1 : Int) (shape propShape : Gen.ShapeArg) (os : Int) (m : Arr Bool) :
    propagateDftCall fs αr αc W0 W1 shape propShape os (some m) = .valueError ↔
      m.s0 ≠ (Gen.dftShapeDefault W0 W1 shape).1 * os ∨ m.s1 ≠ (Gen.dftShapeDefault W0 W1 shape).2 * os := by
  unfold propagateDftCall
  obtain ⟨ht, hn, hs⟩ := resolved_mask fs αr αc
    (Gen.dftShapeOut (Gen.dftShapeDefault W0 W1 shape).1 (Gen.dftShapeDefault W0 W1 shape).2 os).1
    (Gen.dftShapeOut (Gen.dftShapeDefault W0 W1 shape).1 (Gen.dftShapeDefault W0 W1 shape).2 os).2
    (Gen.dftPropShapeOut (Gen.dftPropShapeDefault (Gen.dftShapeDefault W0 W1 shape).1 (Gen.dftShapeDefault W0 W1 shape).2 propShape).1
      (Gen.dftPropShapeDefault (Gen.dftShapeDefault W0 W1 shape).1 (Gen.dftShapeDefault W0 W1 shape).2 propShape).2 os).1
    (Gen.dftPropShapeOut (Gen.dftPropShapeDefault (Gen.dftShapeDefault W0 W1 shape).1 (Gen.dftShapeDefault W0 W1 shape).2 propShape).1
      (Gen.dftPropShapeDefault (Gen.dftShapeDefault W0 W1 shape).1 (Gen.dftShapeDefault W0 W1 shape).2 propShape).2 os).2 m
  cases hg : Gen.dftMaskMismatch m.s0 m.s1 (Gen.dftShapeOut (Gen.dftShapeDefault W0 W1 shape).1 (Gen.dftShapeDefault W0 W1 shape).2 os).1
      (Gen.dftShapeOut (Gen.dftShapeDefault W0 W1 shape).1 (Gen.dftShapeDefault W0 W1 shape).2 os).2 with
  | true =>
    rw [ht hg]
    simp only [true_iff]
    simpa [Gen.dftMaskMismatch, Gen.dftShapeOut] using hg
  | false =>
    have hne : ¬ (m.s0 ≠ (Gen.dftShapeDefault W0 W1 shape).1 * os ∨ m.s1 ≠ (Gen.dftShapeDefault W0 W1 shape).2 * os) := by
      simpa [Gen.dftMaskMismatch, Gen.dftShapeOut] using hg
    simp only [hne, iff_false]
    cases hb : boundary m with
    | none => rw [hn hg hb]; exact fun h => by cases h
    | some b => rw [hs hg b hb]; exact fun h => by cases h

/-- **An accepted mask has the output shape**: whenever the call with a mask is not a ValueError, the mask's shape is `shape * oversample`. -/
theorem accepted_mask_has_output_shape (fs : List (TField K R)) (αr αc : R) (W0 W1 : Int) (shape propShape : Gen.ShapeArg) (os : Int) (m : Arr Bool)
    (h : propagateDftCall fs αr αc W0 W1 shape propShape os (some m) ≠ .valueError) :
    m.s0 = (Gen.dftShapeDefault W0 W1 shape).1 * os ∧ m.s1 = (Gen.dftShapeDefault W0 W1 shape).2 * os := by
  have := (not_congr (call_mask_refused_iff fs αr αc W0 W1 shape propShape os m)).mp h
  exact ⟨not_not.mp fun h0 => this (Or.inl h0), not_not.mp fun h1 => this (Or.inr h1)⟩

/-- **A wavefront without plane type is refused (TypeError) before anything else**, whatever shape, propagation shape, oversampling
and mask — also a mask of the wrong shape or without support, which on a typed wavefront raise ValueError / IndexError: the
plane-type check precedes the mask block in the source (`Gen.dftPtypeStmt < Gen.dftMaskGuardStmt`, regenerated positions) -/
theorem untyped_refused_before_mask_guard (fs : List (TField K R)) (αr αc : R) (W0 W1 : Int) (shape propShape : Gen.ShapeArg) (os : Int)
    (mask : Option (Arr Bool)) :
    propagateDftTyped .none fs αr αc W0 W1 shape propShape os mask = DftCallOut.refusedBy .typeError := by
  have h : Gen.dftPtypeStmt < Gen.dftMaskGuardStmt := by decide
  simp only [propagateDftTyped, Gen.codePropagate, h, if_true]

/-- **Both directions run the same call**: on a pupil-plane wavefront (pupil → image) and on an image-plane wavefront (image →
pupil, "or back") the typed call is `propagateDftCall` — the call every sample theorem of this file is about — with identical
arguments; only the plane type of the result differs (flipped, generated table `Gen.codePropagate`) -/
theorem both_directions_same_call (fs : List (TField K R)) (αr αc : R) (W0 W1 : Int) (shape propShape : Gen.ShapeArg) (os : Int)
    (mask : Option (Arr Bool)) :
    propagateDftTyped .pupil fs αr αc W0 W1 shape propShape os mask
      = DftCallOut.done .image (propagateDftCall fs αr αc W0 W1 shape propShape os mask) ∧
    propagateDftTyped .image fs αr αc W0 W1 shape propShape os mask
      = DftCallOut.done .pupil (propagateDftCall fs αr αc W0 W1 shape propShape os mask) := ⟨rfl, rfl⟩

/-- the witnesses of the former known finding are refused now: an 8x10 or a 10x8 mask for an 8x8 output array raises ValueError
(and the 8x8 mask is accepted) -/
theorem former_mask_witness_refused :
    Gen.dftMaskMismatch 8 10 8 8 = true ∧ Gen.dftMaskMismatch 10 8 8 8 = true ∧ Gen.dftMaskMismatch 8 8 8 8 = false := by decide

/-! ## Non-vacuity: the hypotheses are satisfiable by concrete, non-trivial instances -/
section
local instance : RealLike Int := ⟨id, 6, id, fun x => x.natAbs⟩
local instance : CxLike Int Int := ⟨fun t => t, id, id, fun z _ => z⟩

/-- a 3x2 field at offset (1,-1), shift split (2, -1) + (0, 0), a clipped 4x5 output extent and a 3x3 window -/
example : (match propagateField (K := Int) (R := Int) ⟨⟨⟨3, 2, fun i j => i + 2 * j + 1⟩, 1, -1⟩, 2, -1, 0, 0⟩ 1 1
      (outExtent 4 5 none) 3 3 with | some g => g.extent | none => ⟨0, 0, 0, 0⟩) = ⟨1, 1, -2, 0⟩ := by decide

example (r c : Int) := propagateField_sample (K := Int) (R := Int) (fun _ => rfl)
  ⟨⟨⟨3, 2, fun i j => i + 2 * j + 1⟩, 1, -1⟩, 2, -1, 0, 0⟩ 1 1 (outExtent 4 5 none) 3 3
  (by rw [outExtent_nomask]; decide) (by decide) r c

example : (outExtent 7 6 (some ⟨2, 4, 0, 3⟩)).inb (-1) 0 = true := by decide

/-- `propagateDft_common_shift`: two fields at non-zero offsets on a 4x4 canvas, common shift (1, -1) -/
example (i j : Int) (hi : 0 ≤ i ∧ i < 4 * 1) (hj : 0 ≤ j ∧ j < 4 * 1) :=
  propagateDft_common_shift (K := Int) (R := Int) (fun _ => rfl)
    [⟨⟨2, 2, fun i j => i + 2 * j + 1⟩, -1, -1⟩, ⟨⟨2, 1, fun i _ => i + 5⟩, 1, 0⟩] 1 (-1) 0 0 4 4 (by decide)
    (by intro f hf; simp only [List.mem_cons, List.not_mem_nil, or_false] at hf
        rcases hf with rfl | rfl <;> (simp only [Fld.within, Fld.extent, arrayExtent_eq]; decide))
    (by intro f hf; simp only [List.mem_cons, List.not_mem_nil, or_false] at hf
        rcases hf with rfl | rfl <;> decide)
    1 1 4 4 3 3 1 none (by rw [outExtent_nomask]; decide) (by decide) i j hi hj

/-- a 3x4 mask with holes (support at (0,1) and (2,3)): the mask branch answers with an extent, so the hypothesis of
`mask_extent_is_support_bbox` and `boundary m = some b` of `call_mask_matching` are reachable -/
example : ∃ oe, outExtentOfMask 3 4 (some ⟨3, 4, fun i j => (i == 0 && j == 1) || (i == 2 && j == 3)⟩) = some oe ∧ oe = ⟨-1, 1, -1, 1⟩ :=
  ⟨_, by decide, rfl⟩
example : boundary ⟨3, 4, fun i j => (i == 0 && j == 1) || (i == 2 && j == 3)⟩ = some ⟨0, 2, 1, 3⟩ := by decide

local instance : TruncLike Int := ⟨id⟩
/-- `call_sample_of_shifts` / `call_mask_sample_of_shifts`: a 2x2 wavefront, `shape=None`, `prop_shape=3`, `oversample=2`, one field shifted
by (1, -1); with the 4x4 mask whose support is the box rows 1..2, cols 0..3 -/
example := call_sample_of_shifts (K := Int) (R := Int) (fun _ => rfl) [(⟨⟨2, 2, fun i j => i + 2 * j + 1⟩, 0, 0⟩, 1, -1)] 1 1 2 2
  .none (.scalar 3) 2 (2, 2) (3, 3) rfl rfl (by decide) (by decide)
example := call_mask_sample_of_shifts (K := Int) (R := Int) (fun _ => rfl) [(⟨⟨2, 2, fun i j => i + 2 * j + 1⟩, 0, 0⟩, 1, -1)] 1 1 2 2
  .none (.scalar 3) 2 ⟨4, 4, fun i _ => i == 1 || i == 2⟩ ⟨1, 2, 0, 3⟩ (2, 2) (3, 3) rfl rfl rfl rfl (by decide) (by decide)
end

end Lentil.C02
