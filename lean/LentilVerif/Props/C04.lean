import LentilVerif.Lemmas.Tilt
import LentilVerif.Lemmas.Propagate
import LentilVerif.Props.C02
import LentilVerif.Lemmas.FftComplex
import LentilVerif.Model.Plane
import LentilVerif.Gen.Mesh
import Mathlib.Tactic.FieldSimp
import Mathlib.Tactic.Linarith
import Mathlib.Analysis.Real.Sqrt
import Mathlib.Analysis.Complex.Exponential
import Mathlib.MeasureTheory.Integral.IntervalIntegral.Basic
/-! # C04 — tilt carried as metadata is optically identical to tilt in the OPD

Property theorems only, about the models in Model/Tilt.lean (`Tilt.shift`, first-order `DispersiveTilt.shift`,
`Field.shift`, `ptt_vector`, the arithmetic of `fit_tilt`) and Model/Fourier.lean (`dft2`), tied to the implementation by
the correspondence harness tools/harness/c04.py. Generic in the scalar field `R` (`RealLike.ofInt` = integer cast). -/
namespace Lentil.C04
open Lentil

/-! ## Displacements from several tilt elements add and do not depend on their order -/
section shift
variable {R : Type} [Field R] [RealLike R]

/-- **The model's fold is the regenerated loop of `Field.shift`**: `foldShift` (the fold every shift theorem of this file is about) is
`Gen.fieldShiftFold` — initial accumulators, which accumulator feeds `xs` / `ys`, and which result is kept as `x` / `y` are read from
`field.py` — instantiated with the elements' own `shift` -/
theorem foldShift_is_generated (ts : List (TiltEl R)) (z wl : R) :
    foldShift ts z wl = Gen.fieldShiftFold (fun (e : TiltEl R) xs ys z' wl' => e.shift xs ys z' wl') (RealLike.ofInt 0) (RealLike.ofInt 1) ts z wl := rfl

/-- **Additivity.** The shift folded over any list of tilt elements (angular and first-order dispersive) is the sum of
the displacements each element produces on its own. -/
theorem shift_additive (h0 : (RealLike.ofInt 0 : R) = 0) (ts : List (TiltEl R)) (z wl : R) :
    foldShift ts z wl = ((ts.map fun e => (e.disp z wl).1).sum, (ts.map fun e => (e.disp z wl).2).sum) := by
  unfold foldShift; rw [foldl_shift, h0]; simp

/-- **Order independence.** Permuting the tilt elements (e.g. applying the planes in a different order) does not change
the shift. -/
theorem shift_perm_invariant (h0 : (RealLike.ofInt 0 : R) = 0) (ts ts' : List (TiltEl R)) (hp : ts.Perm ts') (z wl : R) :
    foldShift ts z wl = foldShift ts' z wl := by
  rw [shift_additive h0, shift_additive h0]
  exact Prod.ext ((hp.map _).sum_eq) ((hp.map _).sum_eq)

/-- and therefore the pixel shift handed to the propagation is order independent too -/
theorem fieldShift_perm_invariant (h0 : (RealLike.ofInt 0 : R) = 0) (ts ts' : List (TiltEl R)) (hp : ts.Perm ts')
    (z wl du0 du1 : R) (os : Int) (ij : Bool) :
    fieldShift ts z wl du0 du1 os ij = fieldShift ts' z wl du0 du1 os ij := by
  unfold fieldShift; rw [shift_perm_invariant h0 ts ts' hp]

/-- **Direction, magnitude and per-axis pixel size** (over the generated `Gen.tiltShift`, `Gen.fieldShiftOut`,
`Gen.fieldShiftIJ`: a sign flip, an axis swap or the wrong pixel size in `Tilt`/`Field.shift` breaks this). A tilt of `thx` about x and `thy` about y displaces the image by
`+z*thx/du0*os` output samples along the rows and `-z*thy/du1*os` along the columns: the row displacement is divided by
the *row* pixel size `du0` and the column displacement by the *column* pixel size `du1`. -/
theorem fieldShift_angular (h0 : (RealLike.ofInt 0 : R) = 0) (thx thy z wl du0 du1 : R) (os : Int) :
    fieldShift [TiltEl.angular thx thy] z wl du0 du1 os true =
      (z * thx / du0 * RealLike.ofInt os, -(z * thy / du1 * RealLike.ofInt os)) := by
  simp only [fieldShift, foldShift, List.foldl_cons, List.foldl_nil, TiltEl.shift, Gen.tiltShift, Gen.fieldShiftOut, Gen.fieldShiftIJ, h0, if_true]
  refine Prod.ext ?_ ?_ <;> simp only <;> ring

/-- **Scale invariance of the displacement.** Multiplying the focal length and the output pixel scales by the same factor
`k ≠ 0` (a change of length unit) leaves the displacement in output samples unchanged. -/
theorem fieldShift_scale_invariant (h0 : (RealLike.ofInt 0 : R) = 0) (k thx thy z wl du0 du1 : R) (os : Int) (hk : k ≠ 0) :
    fieldShift [TiltEl.angular thx thy] (k * z) wl (k * du0) (k * du1) os true =
      fieldShift [TiltEl.angular thx thy] z wl du0 du1 os true := by
  rw [fieldShift_angular h0, fieldShift_angular h0]
  refine Prod.ext ?_ ?_ <;> simp only <;> field_simp

/-- `Wavefront(tilt=[a, b])` and `Wavefront() * Tilt(a, b)` put the same element in the field's tilt list; with further
elements in between only the order differs, which does not matter -/
theorem wavefront_tilt_is_tilt_plane (h0 : (RealLike.ofInt 0 : R) = 0) (a b : R) (planes : List (TiltEl R)) (z wl : R) :
    foldShift (TiltEl.angular a b :: planes) z wl = foldShift (planes ++ [TiltEl.angular a b]) z wl :=
  shift_perm_invariant h0 _ _ (by simpa using (List.perm_append_singleton (TiltEl.angular a b) planes).symm) z wl

/-- **How the tilt lists are built** (generated wiring of `Wavefront.__init__`, `Field.__mul__`, `TiltInterface.multiply`): a
wavefront created with `tilt=(a, b)` and passed through planes carrying no recorded tilt and then nothing else carries
`[Tilt(a, b)]`; the same planes followed by a `Tilt(a, b)` plane on an untilted wavefront give `[Tilt(a, b)]` as well;
products never drop or duplicate elements: the list after planes with recorded tilts `pts` is the concatenation, in order. -/
theorem tilt_lists_built (a b : R) (pts : List (List (TiltEl R))) (init : List (TiltEl R)) (e : TiltEl R) :
    waveTilt a b = [TiltEl.angular a b] ∧
    tiltListAfterPlanes init pts = init ++ pts.flatten ∧
    tiltListAfterTiltPlane init e = init ++ [e] := by
  refine ⟨rfl, ?_, by simp [tiltListAfterTiltPlane, Gen.tiltInterfaceAppend, Gen.fieldMulTilt]⟩
  unfold tiltListAfterPlanes
  induction pts generalizing init with
  | nil => simp
  | cons p ps ih => simp only [List.foldl_cons, List.flatten_cons]; rw [ih]; simp [Gen.fieldMulTilt]

/-- hence `Wavefront(tilt=(a, b))` through untilted planes, and an untilted wavefront through the same planes and then a
`Tilt(a, b)` plane, hand the same shift to the propagation (derived from the generated list wiring, not assumed) -/
theorem wavefront_tilt_vs_tilt_plane (a b : R) (n : Nat) (z wl du0 du1 : R) (os : Int) (ij : Bool) :
    fieldShift (tiltListAfterPlanes (waveTilt a b) (List.replicate n [])) z wl du0 du1 os ij =
    fieldShift (tiltListAfterTiltPlane (tiltListAfterPlanes [] (List.replicate n [])) (TiltEl.angular a b)) z wl du0 du1 os ij := by
  have hflat : (List.replicate n ([] : List (TiltEl R))).flatten = [] := by
    induction n with
    | zero => rfl
    | succ n ih => simp [List.replicate_succ, ih]
  rw [(tilt_lists_built a b _ _ (TiltEl.angular a b)).2.1, (tilt_lists_built a b _ [] (TiltEl.angular a b)).2.1,
      (tilt_lists_built a b [] _ (TiltEl.angular a b)).2.2, hflat]
  simp [waveTilt, Gen.wavefrontInitTilt]
end shift

/-! ## A shift in the DFT kernel is a phase ramp on the input; for the propagation's alpha it is the OPD ramp -/
section ramp
variable {K R : Type} [Field R] [RealLike R] [CommRing K] [CxLike K R]

/-- kernel level: shifting the output origin by `s` multiplies the kernel by `exp(+2 pi i alpha X s)`, `X` the global
input coordinate -/
theorem kernel_shift_eq_ramp (hexp : ∀ a b : R, (CxLike.expI (a + b) : K) = CxLike.expI a * CxLike.expI b)
    (α : R) (m M off : Int) (s0 s : R) (x u : Int) :
    (dftKernel α m M off (s0 + s) x u : K) =
      dftKernel α m M off s0 x u * CxLike.expI (RealLike.twoPi * α * RealLike.ofInt (cc m x + off) * s) := by
  unfold dftKernel; rw [← hexp]; congr 1; ring

/-- **Tilt as metadata ≡ tilt in the OPD (transform level).** Multiplying the input field by the separable phase ramp
`exp(2 pi i (alpha_r X s_r + alpha_c Y s_c))` and transforming with shift `s0` gives, at every output sample, the same
value as transforming the original field with shift `s0 + s`. -/
theorem tilt_ramp_equiv (hexp : ∀ a b : R, (CxLike.expI (a + b) : K) = CxLike.expI a * CxLike.expI b)
    (f : Arr K) (αr αc : R) (M N : Int) (s0r s0c sr sc : R) (offr offc : Int) (un : Bool) (u v : Int) :
    (dft2 { f with get := fun x y => f.get x y *
              ((CxLike.expI (RealLike.twoPi * αr * RealLike.ofInt (cc f.s0 x + offr) * sr) : K) *
               CxLike.expI (RealLike.twoPi * αc * RealLike.ofInt (cc f.s1 y + offc) * sc)) }
        αr αc M N s0r s0c offr offc un).get u v =
    (dft2 f αr αc M N (s0r + sr) (s0c + sc) offr offc un).get u v := by
  simp only [dft2]
  have key : (sumRange f.s1.toNat fun y =>
        (sumRange f.s0.toNat fun x => (dftKernel αr f.s0 M offr s0r x u : K) *
          (f.get x y * ((CxLike.expI (RealLike.twoPi * αr * RealLike.ofInt (cc f.s0 x + offr) * sr) : K) *
               CxLike.expI (RealLike.twoPi * αc * RealLike.ofInt (cc f.s1 y + offc) * sc)))) *
          dftKernel αc f.s1 N offc s0c y v) =
      (sumRange f.s1.toNat fun y =>
        (sumRange f.s0.toNat fun x => (dftKernel αr f.s0 M offr (s0r + sr) x u : K) * f.get x y) *
          dftKernel αc f.s1 N offc (s0c + sc) y v) := by
    apply sumRange_congr; intro y _
    rw [kernel_shift_eq_ramp hexp αc f.s1 N offc s0c sc y v]
    have inner : (sumRange f.s0.toNat fun x => (dftKernel αr f.s0 M offr s0r x u : K) *
          (f.get x y * ((CxLike.expI (RealLike.twoPi * αr * RealLike.ofInt (cc f.s0 x + offr) * sr) : K) *
               CxLike.expI (RealLike.twoPi * αc * RealLike.ofInt (cc f.s1 y + offc) * sc)))) =
        (sumRange f.s0.toNat fun x => (dftKernel αr f.s0 M offr (s0r + sr) x u : K) * f.get x y) *
          CxLike.expI (RealLike.twoPi * αc * RealLike.ofInt (cc f.s1 y + offc) * sc) := by
      rw [← sumRange_mul_right]
      apply sumRange_congr; intro x _
      rw [kernel_shift_eq_ramp hexp αr f.s0 M offr s0r sr x u]; ring
    rw [inner]; ring
  rw [key]

/-- **The ramp is the OPD ramp.** With `alpha = dx*du/(lambda z os)` and the displacement `s = z*theta/du*os` of
`fieldShift_angular`, the phase `2 pi alpha X s` is `2 pi (theta X dx)/lambda`: the phase of the OPD ramp `theta * X * dx`
(X = row coordinate, theta = thx; for the columns X = column coordinate and theta = -thy). -/
theorem ramp_is_opd_ramp (dx du wl z th X : R) (os : R) (hw : wl ≠ 0) (hz : z ≠ 0) (hos : os ≠ 0) (hdu : du ≠ 0) :
    RealLike.twoPi * ((dx * du) / (wl * z * os)) * X * (z * th / du * os) = RealLike.twoPi * (th * X * dx) / wl := by
  field_simp

/-- **Tilt as metadata ≡ tilt in the OPD, sample for sample wherever both evaluate.** Propagating the field with the
tilt carried as metadata (shift `fix + sub` in output samples, any integer split, any output extent / propagation shape)
and propagating the field multiplied by the corresponding phase ramp with no metadata (any other output extent /
propagation shape) give the same complex value at every global output coordinate lying in both evaluated windows. -/
theorem tilt_metadata_equiv_opd_ramp (hcast : ∀ n : Int, (RealLike.ofInt n : R) = (n : R))
    (hexp : ∀ a b : R, (CxLike.expI (a + b) : K) = CxLike.expI a * CxLike.expI b)
    (f : Fld K) (fix0 fix1 : Int) (sub0 sub1 αr αc : R) (oe oe' : Extent) (P0 P1 P0' P1' : Int)
    (hoe : oe.rmin ≤ oe.rmax ∧ oe.cmin ≤ oe.cmax) (hP : 0 < P0 ∧ 0 < P1)
    (hoe' : oe'.rmin ≤ oe'.rmax ∧ oe'.cmin ≤ oe'.cmax) (hP' : 0 < P0' ∧ 0 < P1') (r c : Int)
    (hin : (oe.inb r c && (propExtent P0 P1 fix0 fix1).inb r c) = true)
    (hin' : (oe'.inb r c && (propExtent P0' P1' 0 0).inb r c) = true) :
    embO (propagateField ⟨f, fix0, fix1, sub0, sub1⟩ αr αc oe P0 P1) r c =
    embO (propagateField ⟨rampField f αr αc (RealLike.ofInt fix0 + sub0) (RealLike.ofInt fix1 + sub1), 0, 0, 0, 0⟩
        αr αc oe' P0' P1') r c := by
  rw [C02.propagateField_sample hcast _ αr αc oe P0 P1 hoe hP r c,
      C02.propagateField_sample hcast _ αr αc oe' P0' P1' hoe' hP' r c]
  simp only [hin, hin', if_true]
  unfold fraunhoferAt rampField
  simp only []
  rw [tilt_ramp_equiv hexp]
  apply dft2_get_congr <;> (simp only [hcast]; push_cast; ring)

/-- **An OPD ramp is the phase ramp of the corresponding displacement.** A plane whose OPD is `opd0` plus the ramp
`thx·X·dx0 - thy·Y·dx1` (X, Y the global pupil coordinates of the pixel) contributes exactly the field of the plane with
OPD `opd0`, multiplied by the phase ramp of the displacement `fieldShift [Tilt(thx, thy)]` for the propagation's own
`alpha = dx·du/(lambda z os)` — sample by sample. -/
theorem opd_ramp_is_rampField (hcast : ∀ n : Int, (RealLike.ofInt n : R) = (n : R))
    (hexp : ∀ a b : R, (CxLike.expI (a + b) : K) = CxLike.expI a * CxLike.expI b)
    (amp : Int → Int → K) (opd0 : Int → Int → R) (thx thy dx0 dx1 du0 du1 wl z : R) (os : Int) (s0 s1 o0 o1 : Int)
    (hw : wl ≠ 0) (hz : z ≠ 0) (hos : (os : R) ≠ 0) (hdu : du0 ≠ 0 ∧ du1 ≠ 0) (x y : Int) :
    (phasorField amp (fun x y => opd0 x y + (thx * RealLike.ofInt (cc s0 x + o0) * dx0 - thy * RealLike.ofInt (cc s1 y + o1) * dx1))
        wl s0 s1 o0 o1).arr.get x y =
    (rampField (phasorField amp opd0 wl s0 s1 o0 o1) (dftAlpha dx0 dx1 du0 du1 wl z os).1 (dftAlpha dx0 dx1 du0 du1 wl z os).2
        (fieldShift [TiltEl.angular thx thy] z wl du0 du1 os true).1
        (fieldShift [TiltEl.angular thx thy] z wl du0 du1 os true).2).arr.get x y := by
  have h0 : (RealLike.ofInt 0 : R) = 0 := by rw [hcast]; simp
  obtain ⟨hd0, hd1⟩ := hdu
  rw [fieldShift_angular h0]
  simp only [phasorField, rampField, dftAlpha, Gen.dftAlphaCall, Gen.dftAlpha, hcast]
  rw [← hexp, mul_assoc (amp x y), ← hexp]
  congr 2
  field_simp
  ring

/-- **The phasor does not depend on the length unit**: scaling OPD and wavelength by the same `k ≠ 0` gives the same field -/
theorem phasor_scale_invariant (amp : Int → Int → K) (opd : Int → Int → R) (wl k : R) (hk : k ≠ 0) (s0 s1 o0 o1 x y : Int) :
    (phasorField amp (fun x y => k * opd x y) (k * wl) s0 s1 o0 o1).arr.get x y = (phasorField amp opd wl s0 s1 o0 o1).arr.get x y := by
  simp only [phasorField]
  congr 2
  field_simp

/-- **Tilt plane ≡ Wavefront(tilt) ≡ fit_tilt as metadata.** The three ways of carrying a tilt `(a, b)` as metadata put the
same value in the field's tilt list up to position — `Wavefront(tilt=[a, b])` first, a `Tilt(a, b)` plane last, or the
element `fit_tilt` records for coefficients with `t[1] = a`, `t[2] = b` (generated `Gen.fitRecord`) — and the shift handed
to the propagation is the same for all three. -/
theorem metadata_representations_agree (h0 : (RealLike.ofInt 0 : R) = 0) (a b : R) (planes : List (TiltEl R)) (t : Int → R)
    (ht : t 1 = a ∧ t 2 = b) (z wl du0 du1 : R) (os : Int) (ij : Bool) :
    fieldShift (TiltEl.angular a b :: planes) z wl du0 du1 os ij = fieldShift (planes ++ [TiltEl.angular a b]) z wl du0 du1 os ij ∧
    fieldShift (planes ++ [fitTiltRecord t]) z wl du0 du1 os ij = fieldShift (planes ++ [TiltEl.angular a b]) z wl du0 du1 os ij := by
  constructor
  · exact fieldShift_perm_invariant h0 _ _ (by simpa using (List.perm_append_singleton (TiltEl.angular a b) planes).symm) z wl du0 du1 os ij
  · have : fitTiltRecord t = TiltEl.angular a b := by
      simp only [fitTiltRecord, fitRecordXY, Gen.fitRecord, ht.1, ht.2]
    rw [this]

/-- non-vacuity of `hexp`: the complex exponential `t ↦ exp(i t)` is additive -/
example : ∀ a b : ℝ, Complex.exp (((a + b : ℝ) : ℂ) * Complex.I) = Complex.exp ((a : ℂ) * Complex.I) * Complex.exp ((b : ℂ) * Complex.I) := by
  intro a b; rw [← Complex.exp_add]; congr 1; push_cast; ring

/-- **The four representations agree, sample for sample, wherever both evaluate (at `K = ℂ`, `R = ℝ`).** A plane with the
tilt written into its OPD as the ramp `thx·X·dx0 - thy·Y·dx1`, propagated without metadata, and the same plane without
the ramp carrying the tilt as metadata (Tilt plane, `Wavefront(tilt=…)` or `fit_tilt` record — the same shift by
`metadata_representations_agree`; any integer/sub-pixel split of it), give the same complex value at every global output
coordinate lying in both evaluated windows, for `alpha = dx·du/(λ z os)`, any output extents and propagation shapes. -/
theorem tilt_representations_equiv_complex (amp : Int → Int → ℂ) (opd0 : Int → Int → ℝ) (thx thy dx0 dx1 du0 du1 wl z : ℝ)
    (os : Int) (s0 s1 o0 o1 : Int) (hw : wl ≠ 0) (hz : z ≠ 0) (hos : os ≠ 0) (hdu : du0 ≠ 0 ∧ du1 ≠ 0)
    (fix0 fix1 : Int) (sub0 sub1 : ℝ)
    (hsplit : ((fix0 : ℝ) + sub0, (fix1 : ℝ) + sub1) = fieldShift [TiltEl.angular thx thy] z wl du0 du1 os true)
    (oe oe' : Extent) (P0 P1 P0' P1' : Int)
    (hoe : oe.rmin ≤ oe.rmax ∧ oe.cmin ≤ oe.cmax) (hP : 0 < P0 ∧ 0 < P1)
    (hoe' : oe'.rmin ≤ oe'.rmax ∧ oe'.cmin ≤ oe'.cmax) (hP' : 0 < P0' ∧ 0 < P1') (r c : Int)
    (hin : (oe.inb r c && (propExtent P0 P1 fix0 fix1).inb r c) = true)
    (hin' : (oe'.inb r c && (propExtent P0' P1' 0 0).inb r c) = true) :
    embO (propagateField ⟨phasorField amp opd0 wl s0 s1 o0 o1, fix0, fix1, sub0, sub1⟩
      (dftAlpha dx0 dx1 du0 du1 wl z os).1 (dftAlpha dx0 dx1 du0 du1 wl z os).2 oe P0 P1) r c =
    embO (propagateField ⟨phasorField amp (fun x y => opd0 x y + (thx * RealLike.ofInt (cc s0 x + o0) * dx0
        - thy * RealLike.ofInt (cc s1 y + o1) * dx1)) wl s0 s1 o0 o1, 0, 0, 0, 0⟩
      (dftAlpha dx0 dx1 du0 du1 wl z os).1 (dftAlpha dx0 dx1 du0 du1 wl z os).2 oe' P0' P1') r c := by
  have hosR : ((os : ℤ) : ℝ) ≠ 0 := Int.cast_ne_zero.mpr hos
  rw [tilt_metadata_equiv_opd_ramp (K := ℂ) (R := ℝ) (fun _ => rfl) expI_add_complex _ fix0 fix1 sub0 sub1 _ _ oe oe' P0 P1 P0' P1'
    hoe hP hoe' hP' r c hin hin']
  have e1 : (RealLike.ofInt fix0 : ℝ) + sub0 = (fieldShift [TiltEl.angular thx thy] z wl du0 du1 os true).1 := by
    rw [← hsplit]; rfl
  have e2 : (RealLike.ofInt fix1 : ℝ) + sub1 = (fieldShift [TiltEl.angular thx thy] z wl du0 du1 os true).2 := by
    rw [← hsplit]; rfl
  rw [e1, e2]
  -- the ramp field and the OPD-ramp plane are the same field
  have hf : rampField (phasorField amp opd0 wl s0 s1 o0 o1) (dftAlpha dx0 dx1 du0 du1 wl z os).1 (dftAlpha dx0 dx1 du0 du1 wl z os).2
      (fieldShift [TiltEl.angular thx thy] z wl du0 du1 os true).1 (fieldShift [TiltEl.angular thx thy] z wl du0 du1 os true).2 =
      phasorField amp (fun x y => opd0 x y + (thx * RealLike.ofInt (cc s0 x + o0) * dx0 - thy * RealLike.ofInt (cc s1 y + o1) * dx1))
        wl s0 s1 o0 o1 := by
    have hget : ∀ x y, _ = _ := fun x y => (opd_ramp_is_rampField (K := ℂ) (R := ℝ) (fun _ => rfl) expI_add_complex amp opd0 thx thy dx0 dx1 du0 du1
      wl z os s0 s1 o0 o1 hw hz hosR hdu x y).symm
    unfold rampField phasorField at hget ⊢
    simp only at hget ⊢
    congr 2
    funext x y
    exact hget x y
  rw [hf]

/-- non-vacuity of `tilt_representations_equiv_complex`: a tilt of 2.5 rows / 2 columns (`thx = 5/2`, `thy = -2`, unit lengths) split as
`(2 + 1/2, 2 + 0)` — `hsplit`, both window hypotheses `hin`, `hin'` and the extent hypotheses hold together at the sample (1, 1) -/
example := tilt_representations_equiv_complex (fun _ _ => 1) (fun x y => ((x + y : ℤ) : ℝ)) (5/2) (-2) 1 1 1 1 1 1 1 2 2 0 0
  one_ne_zero one_ne_zero one_ne_zero ⟨one_ne_zero, one_ne_zero⟩ 2 2 (1/2) 0
  (by rw [fieldShift_angular (by simp [RealLike.ofInt])]; simp only [RealLike.ofInt]; refine Prod.ext ?_ ?_ <;> norm_num)
  (outExtent 8 8 none) (outExtent 8 8 none) 4 4 4 4 (by rw [outExtent_nomask]; decide) (by decide) (by rw [outExtent_nomask]; decide) (by decide)
  1 1 (by decide) (by decide)

/-- **Several tilt elements.** The same for any list of angular tilt elements (Tilt planes, `Wavefront(tilt=…)`, fit records, in
any order): the metadata shift is that of the summed angles (`shift_additive`), so the equivalent OPD ramp is the ramp of
the sums. -/
theorem tilt_list_equiv_complex (amp : Int → Int → ℂ) (opd0 : Int → Int → ℝ) (ab : List (ℝ × ℝ)) (dx0 dx1 du0 du1 wl z : ℝ)
    (os : Int) (s0 s1 o0 o1 : Int) (hw : wl ≠ 0) (hz : z ≠ 0) (hos : os ≠ 0) (hdu : du0 ≠ 0 ∧ du1 ≠ 0)
    (fix0 fix1 : Int) (sub0 sub1 : ℝ)
    (hsplit : ((fix0 : ℝ) + sub0, (fix1 : ℝ) + sub1) = fieldShift (ab.map fun p => TiltEl.angular p.1 p.2) z wl du0 du1 os true)
    (oe oe' : Extent) (P0 P1 P0' P1' : Int)
    (hoe : oe.rmin ≤ oe.rmax ∧ oe.cmin ≤ oe.cmax) (hP : 0 < P0 ∧ 0 < P1)
    (hoe' : oe'.rmin ≤ oe'.rmax ∧ oe'.cmin ≤ oe'.cmax) (hP' : 0 < P0' ∧ 0 < P1') (r c : Int)
    (hin : (oe.inb r c && (propExtent P0 P1 fix0 fix1).inb r c) = true)
    (hin' : (oe'.inb r c && (propExtent P0' P1' 0 0).inb r c) = true) :
    embO (propagateField ⟨phasorField amp opd0 wl s0 s1 o0 o1, fix0, fix1, sub0, sub1⟩
      (dftAlpha dx0 dx1 du0 du1 wl z os).1 (dftAlpha dx0 dx1 du0 du1 wl z os).2 oe P0 P1) r c =
    embO (propagateField ⟨phasorField amp (fun x y => opd0 x y + ((ab.map Prod.fst).sum * RealLike.ofInt (cc s0 x + o0) * dx0
        - (ab.map Prod.snd).sum * RealLike.ofInt (cc s1 y + o1) * dx1)) wl s0 s1 o0 o1, 0, 0, 0, 0⟩
      (dftAlpha dx0 dx1 du0 du1 wl z os).1 (dftAlpha dx0 dx1 du0 du1 wl z os).2 oe' P0' P1') r c := by
  have hs : fieldShift (ab.map fun p => TiltEl.angular p.1 p.2) z wl du0 du1 os true =
      fieldShift [TiltEl.angular (ab.map Prod.fst).sum (ab.map Prod.snd).sum] z wl du0 du1 os true := by
    unfold fieldShift; rw [foldShift_angular_list (by simp [RealLike.ofInt])]
  exact tilt_representations_equiv_complex amp opd0 _ _ dx0 dx1 du0 du1 wl z os s0 s1 o0 o1 hw hz hos hdu fix0 fix1 sub0 sub1
    (hsplit.trans hs) oe oe' P0 P1 P0' P1' hoe hP hoe' hP' r c hin hin'


/-- **Segmented apertures with per-segment tilts.** For a wavefront whose fields (one per segment) each carry their own tilt as
metadata — what `fit_tilt` on a segmented plane produces — the sum over the segments of the propagated fields equals, at every
global output coordinate lying in every segment's window and in the window of the metadata-free propagation, the sum over the
segments of the propagated fields of the same plane with each segment's tilt written into its OPD as the ramp
`thx_k·X·dx0 - thy_k·Y·dx1` (the un-fitted plane): `Wavefront.field` agrees sample for sample on the common window. -/
theorem segmented_tilt_equiv_complex (segs : List (SegTilt ℂ ℝ)) (dx0 dx1 du0 du1 wl z : ℝ) (os : Int)
    (hw : wl ≠ 0) (hz : z ≠ 0) (hos : os ≠ 0) (hdu : du0 ≠ 0 ∧ du1 ≠ 0)
    (hsplit : ∀ s ∈ segs, ((s.fix0 : ℝ) + s.sub0, (s.fix1 : ℝ) + s.sub1) = fieldShift [TiltEl.angular s.thx s.thy] z wl du0 du1 os true)
    (oe oe' : Extent) (P0 P1 P0' P1' : Int)
    (hoe : oe.rmin ≤ oe.rmax ∧ oe.cmin ≤ oe.cmax) (hP : 0 < P0 ∧ 0 < P1)
    (hoe' : oe'.rmin ≤ oe'.rmax ∧ oe'.cmin ≤ oe'.cmax) (hP' : 0 < P0' ∧ 0 < P1') (r c : Int)
    (hin : ∀ s ∈ segs, (oe.inb r c && (propExtent P0 P1 s.fix0 s.fix1).inb r c) = true)
    (hin' : (oe'.inb r c && (propExtent P0' P1' 0 0).inb r c) = true) :
    (segs.map fun s => embO (propagateField ⟨phasorField s.amp s.opd0 wl s.s0 s.s1 s.o0 s.o1, s.fix0, s.fix1, s.sub0, s.sub1⟩
        (dftAlpha dx0 dx1 du0 du1 wl z os).1 (dftAlpha dx0 dx1 du0 du1 wl z os).2 oe P0 P1) r c).sum =
    (segs.map fun s => embO (propagateField ⟨phasorField s.amp (fun x y => s.opd0 x y + (s.thx * RealLike.ofInt (cc s.s0 x + s.o0) * dx0
          - s.thy * RealLike.ofInt (cc s.s1 y + s.o1) * dx1)) wl s.s0 s.s1 s.o0 s.o1, 0, 0, 0, 0⟩
        (dftAlpha dx0 dx1 du0 du1 wl z os).1 (dftAlpha dx0 dx1 du0 du1 wl z os).2 oe' P0' P1') r c).sum := by
  congr 1
  apply List.map_congr_left
  intro s hs
  exact tilt_representations_equiv_complex s.amp s.opd0 s.thx s.thy dx0 dx1 du0 du1 wl z os s.s0 s.s1 s.o0 s.o1 hw hz hos hdu
    s.fix0 s.fix1 s.sub0 s.sub1 (hsplit s hs) oe oe' P0 P1 P0' P1' hoe hP hoe' hP' r c (hin s hs) hin'

/-- **The field in these theorems is the plane model's.** `phasorField` is exactly the phasor `Plane.multiply` builds for one
segment in the plane model of C03/C07 (`segPhasor` with `planePh`: `amplitude[s]·mask[s]·exp(2πi·opd[s]/λ)` at
`slice_offset(s, shape)`), and the global coordinate of slice-local index `i` used by the ramp is the plane's own mesh
coordinate `(i + r0) - ⌊s0/2⌋` of that pixel (generated `Gen.sliceOffset`). -/
theorem phasorField_is_plane_phasor (amp : Attr ℂ) (opd : Attr ℝ) (wl : ℝ) (s0 s1 : Int) (g : Seg) :
    segPhasor (planePh (K := ℂ) wl) amp opd s0 s1 g =
      phasorField (fun i j => maskMul (g.m (i + g.s.r0) (j + g.s.c0)) (amp.at (i + g.s.r0) (j + g.s.c0)))
        (fun i j => opd.at (i + g.s.r0) (j + g.s.c0)) wl (g.s.r1 - g.s.r0) (g.s.c1 - g.s.c0)
        (Gen.sliceOffset g.s.r0 g.s.r1 g.s.c0 g.s.c1 s0 s1).1 (Gen.sliceOffset g.s.r0 g.s.r1 g.s.c0 g.s.c1 s0 s1).2 ∧
    ∀ i j : Int, cc (g.s.r1 - g.s.r0) i + (Gen.sliceOffset g.s.r0 g.s.r1 g.s.c0 g.s.c1 s0 s1).1 = (i + g.s.r0) - s0 / 2 ∧
                 cc (g.s.c1 - g.s.c0) j + (Gen.sliceOffset g.s.r0 g.s.r1 g.s.c0 g.s.c1 s0 s1).2 = (j + g.s.c0) - s1 / 2 := by
  refine ⟨rfl, fun i j => ?_⟩
  unfold Gen.sliceOffset cc
  simp only []
  split <;> (rename_i h; simp only [Bool.and_eq_true, decide_eq_true_eq] at h) <;> constructor <;> omega
end ramp

/-! ## fit_tilt removes exactly the least-squares tip and tilt, not the piston, and records what it removed

The wiring is *generated* from `Plane.ptt_vector` / `Plane.fit_tilt` (`Gen.pttRow`, `Gen.fitSubRows`, `Gen.fitSubCoefs`,
`Gen.fitRecord`, per-segment variants, `Gen.tiltStride`): subtracting the piston row, swapping the recorded angles, or a
different basis row changes these definitions and the theorems below stop checking. `tiltRamp` is the specification:
the OPD ramp `(thx·r·px0 - thy·c·px1)·mask` that `ramp_is_opd_ramp`/`fieldShift_angular` identify with `Tilt(x=thx, y=thy)`. -/
section fit
set_option linter.unusedSectionVars false
variable {R : Type} [Field R] [RealLike R]
local instance : RealLike ℚ := ⟨fun n => (n : ℚ), 6, id, fun x => |x|⟩

/-- **OPD plus the ramp of the recorded tilt is unchanged**, for ANY coefficient vector `t` the solver returns: what the
code subtracts (rows `Gen.fitSubRows` of the generated basis times `t[Gen.fitSubCoefs]`) is exactly the OPD ramp of the
element it records (`Tilt(x=t[Gen.fitRecord.1], y=t[Gen.fitRecord.2])`); the piston row is not among the subtracted rows. -/
theorem fit_tilt_total_unchanged (h1 : (RealLike.ofInt 1 : R) = 1) (s0 s1 : Int) (px0 px1 : R) (mask opd : Int → Int → R)
    (t : Int → R) (i j : Int) :
    fitTiltOpd s0 s1 px0 px1 mask opd t i j + tiltRamp s0 s1 px0 px1 mask (fitRecordXY t).1 (fitRecordXY t).2 i j = opd i j := by
  unfold fitTiltOpd; rw [fitSubtract_eq h1]
  simp only [tiltRamp, fitRecordXY, Gen.fitRecord]; ring

/-- **The call `fit_tilt()` leaves OPD + ramp of what it recorded unchanged in BOTH of its branches**: where the generated early-return
test holds (no basis: `shape == ()` / `None`; or a scalar / one-sample OPD) nothing is subtracted and nothing recorded, otherwise
`fit_tilt_total_unchanged` -/
theorem fit_tilt_call_total_unchanged (h1 : (RealLike.ofInt 1 : R) = 1) (se sn : Bool) (n s0 s1 : Int) (px0 px1 : R)
    (mask opd : Int → Int → R) (t : Int → R) (i j : Int) :
    (fitTiltCall se sn n s0 s1 px0 px1 mask opd t).1 i j +
      (match (fitTiltCall se sn n s0 s1 px0 px1 mask opd t).2 with
       | some xy => tiltRamp s0 s1 px0 px1 mask xy.1 xy.2 i j
       | none => 0) = opd i j := by
  unfold fitTiltCall
  by_cases h : Gen.fitTiltSkips (Gen.pttVectorNone se sn) n = true
  · rw [if_pos h]; simp
  · rw [if_neg h]; exact fit_tilt_total_unchanged h1 s0 s1 px0 px1 mask opd t i j

/-- **When nothing is fitted**: exactly when the plane has no shape (`()` or `None`: no basis) or its OPD has a single sample; then the
OPD is handed back as it was -/
theorem fit_tilt_call_skips_iff (se sn : Bool) (n s0 s1 : Int) (px0 px1 : R) (mask opd : Int → Int → R) (t : Int → R) :
    ((fitTiltCall se sn n s0 s1 px0 px1 mask opd t).2 = none ↔ (se = true ∨ sn = true ∨ n = 1)) ∧
    ((fitTiltCall se sn n s0 s1 px0 px1 mask opd t).2 = none → (fitTiltCall se sn n s0 s1 px0 px1 mask opd t).1 = opd) := by
  unfold fitTiltCall
  by_cases h : Gen.fitTiltSkips (Gen.pttVectorNone se sn) n = true
  · rw [if_pos h]
    refine ⟨⟨fun _ => ?_, fun _ => rfl⟩, fun _ => rfl⟩
    simpa [Gen.fitTiltSkips, Gen.pttVectorNone, or_assoc] using h
  · rw [if_neg h]
    refine ⟨⟨fun h' => (by simp at h'), fun h' => ?_⟩, fun h' => (by simp at h')⟩
    exact absurd (by simpa [Gen.fitTiltSkips, Gen.pttVectorNone, or_assoc] using h') h

/-- the generated rows subtracted for a segment lie inside that segment's own block of the stacked basis, and skip its
piston row; the stride handed to `multiply` starts at the segment index and steps by the number of segments -/
theorem fit_rows_wiring (seg n size : Int) :
    (Gen.pttSegRows seg).1 < (Gen.fitSegSubRows seg).1 ∧ (Gen.fitSegSubRows seg).2 ≤ (Gen.pttSegRows seg).2 ∧
    Gen.fitSegLstsqRows seg = Gen.pttSegRows seg ∧ 0 < Gen.fitSubRows.1 ∧ Gen.tiltStride n size = (n, size) := by
  refine ⟨by simp only [Gen.pttSegRows, Gen.fitSegSubRows]; omega, by simp only [Gen.pttSegRows, Gen.fitSegSubRows]; omega,
    rfl, by decide, rfl⟩

/-- **The mesh under `ptt_vector` is the regenerated `helper.mesh`.** `Plane.ptt_vector` calls `lentil.helper.mesh(self.shape)`
(defaults `shift=(0, 0)`, `angle=0`; `cos 0 = 1`, `sin 0 = 0`): the generated per-axis coordinate `Gen.meshCoord n · 0`
rotated by the generated `Gen.meshRot · · 1 0` is the centred index `cc n ·` = index minus `floor(n/2)` that `pttBasis`,
`tiltRamp` and `phasorField` are written with. A change of the centring in `helper.mesh` changes `Gen.meshCoord` and this
proof stops checking. -/
theorem ptt_mesh_is_generated (hcast : ∀ n : Int, (RealLike.ofInt n : R) = (n : R)) (s0 s1 i j : Int) :
    Gen.meshRot (Gen.meshCoord s0 i (0 : R)) (Gen.meshCoord s1 j (0 : R)) 1 0
      = ((RealLike.ofInt (cc s0 i) : R), (RealLike.ofInt (cc s1 j) : R)) := by
  simp [Gen.meshRot, Gen.meshCoord, cc, hcast]

/-- `ptt_vector` over generated definitions only: the generated basis row (`Gen.pttRow`) at the generated mesh coordinates
(`Gen.meshRot (Gen.meshCoord …) …`), times the mask -/
theorem pttBasis_over_generated_mesh (hcast : ∀ n : Int, (RealLike.ofInt n : R) = (n : R)) (s0 s1 : Int) (px0 px1 : R)
    (mask : Int → Int → R) (k i j : Int) :
    pttBasis s0 s1 px0 px1 mask k i j =
      tripleGet (Gen.pttRow (RealLike.ofInt 1)
        (Gen.meshRot (Gen.meshCoord s0 i (0 : R)) (Gen.meshCoord s1 j (0 : R)) 1 0).1
        (Gen.meshRot (Gen.meshCoord s0 i (0 : R)) (Gen.meshCoord s1 j (0 : R)) 1 0).2 px0 px1) k * mask i j := by
  rw [ptt_mesh_is_generated hcast]; rfl

/-- **The segmented OPD update of the model is the regenerated per-segment term of `fit_tilt`**: `fitTiltOpdSeg` sums, over the
segments, `Gen.fitSegOpdTerm` — read from `opd_no_tilt[seg] = (plane.opd - seg_tilt.reshape(…)) * self.mask[seg]` — of the old OPD,
the segment's subtracted ramp and the segment's mask value. A changed sign or a dropped mask factor in the source changes
`Gen.fitSegOpdTerm` and this proof (and `fit_tilt_total_unchanged_seg` through it) stops checking. -/
theorem fitTiltOpdSeg_is_generated (s0 s1 : Int) (px0 px1 : R) (segs : List (Int × (Int → Int → R) × (Int → R)))
    (opd : Int → Int → R) (i j : Int) :
    fitTiltOpdSeg s0 s1 px0 px1 segs opd i j =
      sumList segs fun s => Gen.fitSegOpdTerm (opd i j) (fitSegSubtract s0 s1 px0 px1 s.1 s.2.1 s.2.2 i j) (s.2.1 i j) := rfl

/-- segmented planes: on a pixel of segment `s` (binary, pairwise disjoint masks) the new OPD plus the ramp of that
segment's own recorded tilt is the old OPD -/
theorem fit_tilt_total_unchanged_seg (h1 : (RealLike.ofInt 1 : R) = 1) (s0 s1 : Int) (px0 px1 : R)
    (pre post : List (Int × (Int → Int → R) × (Int → R))) (s : Int × (Int → Int → R) × (Int → R)) (opd : Int → Int → R) (i j : Int)
    (hs : s.2.1 i j = 1) (hothers : ∀ s' ∈ pre ++ post, s'.2.1 i j = 0) :
    fitTiltOpdSeg s0 s1 px0 px1 (pre ++ s :: post) opd i j +
      tiltRamp s0 s1 px0 px1 s.2.1 (fitSegRecordXY s.2.2).1 (fitSegRecordXY s.2.2).2 i j = opd i j := by
  unfold fitTiltOpdSeg
  rw [sumListB_append, sumListB_cons,
    sumListB_zero pre _ (fun x hx => by rw [hothers x (List.mem_append_left _ hx)]; ring),
    sumListB_zero post _ (fun x hx => by rw [hothers x (List.mem_append_right _ hx)]; ring), fitSegSubtract_eq h1, hs]
  simp only [tiltRamp, fitSegRecordXY, Gen.fitSegRecord, hs]; ring

/-- **Exactly the least-squares tip and tilt, and not the piston.** Let `B k` be the model's masked basis rows
(`pttBasis`, generated) over the pixel set `pix`. If `t` satisfies the normal equations for the OPD — the contract of
`np.linalg.lstsq`, listed under TRUSTED — and the Gram matrix of the basis is non-singular (the segment has three
non-collinear pixels), then EVERY least-squares fit `t'` of the OPD left by `fit_tilt` has zero tip and tilt and the
original piston: `t' = (t 0, 0, 0)`. -/
theorem fit_tilt_is_least_squares (h1 : (RealLike.ofInt 1 : R) = 1) (pix : Finset (Int × Int)) (s0 s1 : Int) (px0 px1 : R)
    (mask opd : Int → Int → R) (t t' : Int → R)
    (hN : ∀ k ∈ [(0 : Int), 1, 2], ∑ p ∈ pix, pttBasis s0 s1 px0 px1 mask k p.1 p.2 *
        (opd p.1 p.2 - (t 0 * pttBasis s0 s1 px0 px1 mask 0 p.1 p.2 + t 1 * pttBasis s0 s1 px0 px1 mask 1 p.1 p.2
          + t 2 * pttBasis s0 s1 px0 px1 mask 2 p.1 p.2)) = 0)
    (hinj : ∀ d0 d1 d2 : R, (∀ k ∈ [(0 : Int), 1, 2], ∑ p ∈ pix, pttBasis s0 s1 px0 px1 mask k p.1 p.2 *
        (d0 * pttBasis s0 s1 px0 px1 mask 0 p.1 p.2 + d1 * pttBasis s0 s1 px0 px1 mask 1 p.1 p.2
          + d2 * pttBasis s0 s1 px0 px1 mask 2 p.1 p.2) = 0) → d0 = 0 ∧ d1 = 0 ∧ d2 = 0)
    (hN' : ∀ k ∈ [(0 : Int), 1, 2], ∑ p ∈ pix, pttBasis s0 s1 px0 px1 mask k p.1 p.2 *
        (fitTiltOpd s0 s1 px0 px1 mask opd t p.1 p.2 - (t' 0 * pttBasis s0 s1 px0 px1 mask 0 p.1 p.2
          + t' 1 * pttBasis s0 s1 px0 px1 mask 1 p.1 p.2 + t' 2 * pttBasis s0 s1 px0 px1 mask 2 p.1 p.2)) = 0) :
    t' 0 = t 0 ∧ t' 1 = 0 ∧ t' 2 = 0 := by
  have hafter : ∀ i j, fitTiltOpd s0 s1 px0 px1 mask opd t i j =
      opd i j - (pttBasis s0 s1 px0 px1 mask 1 i j * t 1 + pttBasis s0 s1 px0 px1 mask 2 i j * t 2) := by
    intro i j; unfold fitTiltOpd; rw [fitSubtract_eq h1]
    simp only [pttBasis, Gen.pttRow, tripleGet]; norm_num; ring
  have key := hinj (t' 0 - t 0) (t' 1) (t' 2) (by
    intro k hk
    have a := hN k hk; have b := hN' k hk
    rw [← sub_eq_zero_of_eq (a.trans b.symm), ← Finset.sum_sub_distrib]
    apply Finset.sum_congr rfl; intro p _
    rw [hafter]; ring)
  exact ⟨sub_eq_zero.mp key.1, key.2.1, key.2.2⟩

/-- **History.** After any sequence of OPD updates and `fit_tilt` calls (whatever coefficients the solver returned), the
current OPD plus the ramp of the *sum of all recorded tilts* equals the initial OPD plus the sum of the updates — nothing
is lost by a second fit, provided `multiply` hands every recorded tilt of the segment to its field (`Gen.tiltStride`:
`self.tilt[n::self.size]`, observed per field by the correspondence). -/
theorem fit_tilt_history (h1 : (RealLike.ofInt 1 : R) = 1) (s0 s1 : Int) (px0 px1 : R) (mask : Int → Int → R) (ops : List (TiltOp R))
    (opd : Int → Int → R) (ts : List (R × R)) (i j : Int) :
    (tiltRun s0 s1 px0 px1 mask ops (opd, ts)).1 i j +
      tiltRamp s0 s1 px0 px1 mask ((tiltRun s0 s1 px0 px1 mask ops (opd, ts)).2.map Prod.fst).sum
        ((tiltRun s0 s1 px0 px1 mask ops (opd, ts)).2.map Prod.snd).sum i j =
    opd i j + tiltRamp s0 s1 px0 px1 mask (ts.map Prod.fst).sum (ts.map Prod.snd).sum i j + tiltUpdatesSum ops i j := by
  induction ops generalizing opd ts with
  | nil => simp [tiltRun, tiltUpdatesSum]
  | cons op ops ih =>
    cases op with
    | update d => simp only [tiltRun, tiltUpdatesSum]; rw [ih]; ring
    | fit t =>
      simp only [tiltRun, tiltUpdatesSum]; rw [ih]
      have hstep := fit_tilt_total_unchanged h1 s0 s1 px0 px1 mask opd t i j
      simp only [List.map_append, List.sum_append, List.map_cons, List.map_nil, List.sum_cons, List.sum_nil, tiltRamp] at hstep ⊢
      linear_combination hstep

/-- non-vacuity: a 3x3 plane, full mask, an update between two fits with arbitrary coefficients -/
example (i j : Int) := fit_tilt_history (R := ℚ) rfl 3 3 (1/2) (1/4) (fun _ _ => 1)
  [TiltOp.fit (fun k => k + 3), TiltOp.update (fun i j => i + 2 * j), TiltOp.fit (fun k => 1 / 3 - k)] (fun i j => i * j) [] i j
example : fitSubtract (R := ℚ) 3 4 (1/2) (1/4) (fun _ _ => 1) (fun k => k) 0 1 = -(1/2) + 1/2 := by
  rw [fitSubtract_eq rfl]; simp [cc, RealLike.ofInt]; norm_num
/-- non-vacuity of `fit_tilt_is_least_squares`: a 2x2 plane at ℚ with three non-collinear pixels; the OPD is piston 2, tip 3, tilt 5, the
solver's answer `t = (2, 3, 5)` satisfies the normal equations (`hN`), the Gram matrix of the three pixels is non-singular (`hinj`), and
`t' = (2, 0, 0)` fits what is left (`hN'`) — so all three hypotheses hold together -/
example : (2 : ℚ) = 2 ∧ (0 : ℚ) = 0 ∧ (0 : ℚ) = 0 := by
  have hB : ∀ k i j, pttBasis (R := ℚ) 2 2 1 1 (fun _ _ => 1) k i j =
      (if k = 0 then 1 else if k = 1 then ((i - 1 : Int) : ℚ) else -((j - 1 : Int) : ℚ)) := by
    intro k i j
    simp only [pttBasis, Gen.pttRow, tripleGet, cc, RealLike.ofInt]
    split_ifs <;> (push_cast; ring)
  have key := fit_tilt_is_least_squares (R := ℚ) rfl {((0 : Int), (0 : Int)), (0, 1), (1, 0)} 2 2 1 1 (fun _ _ => 1)
    (fun i j => 2 + 3 * ((i - 1 : Int) : ℚ) - 5 * ((j - 1 : Int) : ℚ)) (fun k => if k = 0 then 2 else if k = 1 then 3 else 5)
    (fun k => if k = 0 then 2 else 0)
    (by
      intro k hk
      apply Finset.sum_eq_zero; intro p _
      simp only [hB]; norm_num; ring_nf; simp)
    (by
      intro d0 d1 d2 h
      have e0 := h 0 (by simp); have e1 := h 1 (by simp); have e2 := h 2 (by simp)
      simp only [hB] at e0 e1 e2
      norm_num [Finset.sum_insert, Finset.sum_singleton] at e0 e1 e2
      refine ⟨?_, ?_, ?_⟩ <;> linarith)
    (by
      intro k hk
      apply Finset.sum_eq_zero; intro p _
      unfold fitTiltOpd; rw [fitSubtract_eq rfl]
      simp only [hB, cc, RealLike.ofInt]
      norm_num <;> (split_ifs <;> (push_cast; ring)))
  simpa using key
end fit

/-! ## The fit clause composed with the propagation clause -/
section fitprop

/-- **The plane returned by `fit_tilt` propagates like the original plane.** For ANY coefficients `t` the solver returned: the plane
with the OPD `fit_tilt` leaves (`fitTiltOpd … t`) carrying the recorded element `Tilt(x=t[1], y=t[2])` as metadata (any integer/sub-pixel
split of its `Field.shift`), and the original plane with its original OPD and no metadata, give the same complex value at every global
output coordinate that both evaluate. Binary mask; the amplitude vanishes off the mask (what `Plane.multiply` hands over); the plane's
pixel scale is the wavefront's `dx`. Composition of `fit_tilt_total_unchanged` with `tilt_representations_equiv_complex`. -/
theorem fit_tilt_propagates_like_original (amp : Int → Int → ℂ) (mask opd : Int → Int → ℝ) (t : Int → ℝ)
    (hmask : ∀ x y, mask x y = 1 ∨ (mask x y = 0 ∧ amp x y = 0))
    (dx0 dx1 du0 du1 wl z : ℝ) (os : Int) (s0 s1 : Int) (hw : wl ≠ 0) (hz : z ≠ 0) (hos : os ≠ 0) (hdu : du0 ≠ 0 ∧ du1 ≠ 0)
    (fix0 fix1 : Int) (sub0 sub1 : ℝ)
    (hsplit : ((fix0 : ℝ) + sub0, (fix1 : ℝ) + sub1) = fieldShift [fitTiltRecord t] z wl du0 du1 os true)
    (oe oe' : Extent) (P0 P1 P0' P1' : Int)
    (hoe : oe.rmin ≤ oe.rmax ∧ oe.cmin ≤ oe.cmax) (hP : 0 < P0 ∧ 0 < P1)
    (hoe' : oe'.rmin ≤ oe'.rmax ∧ oe'.cmin ≤ oe'.cmax) (hP' : 0 < P0' ∧ 0 < P1') (r c : Int)
    (hin : (oe.inb r c && (propExtent P0 P1 fix0 fix1).inb r c) = true)
    (hin' : (oe'.inb r c && (propExtent P0' P1' 0 0).inb r c) = true) :
    embO (propagateField ⟨phasorField amp (fitTiltOpd s0 s1 dx0 dx1 mask opd t) wl s0 s1 0 0, fix0, fix1, sub0, sub1⟩
      (dftAlpha dx0 dx1 du0 du1 wl z os).1 (dftAlpha dx0 dx1 du0 du1 wl z os).2 oe P0 P1) r c =
    embO (propagateField ⟨phasorField amp opd wl s0 s1 0 0, 0, 0, 0, 0⟩
      (dftAlpha dx0 dx1 du0 du1 wl z os).1 (dftAlpha dx0 dx1 du0 du1 wl z os).2 oe' P0' P1') r c := by
  rw [tilt_representations_equiv_complex amp (fitTiltOpd s0 s1 dx0 dx1 mask opd t) (fitRecordXY t).1 (fitRecordXY t).2 dx0 dx1 du0 du1 wl z
    os s0 s1 0 0 hw hz hos hdu fix0 fix1 sub0 sub1 hsplit oe oe' P0 P1 P0' P1' hoe hP hoe' hP' r c hin hin']
  have hf : phasorField (K := ℂ) amp (fun x y => fitTiltOpd s0 s1 dx0 dx1 mask opd t x y +
        ((fitRecordXY t).1 * RealLike.ofInt (cc s0 x + 0) * dx0 - (fitRecordXY t).2 * RealLike.ofInt (cc s1 y + 0) * dx1)) wl s0 s1 0 0 =
      phasorField amp opd wl s0 s1 0 0 := by
    unfold phasorField
    congr 2
    funext x y
    rcases hmask x y with h1 | ⟨_, h0⟩
    · have hu := fit_tilt_total_unchanged (R := ℝ) (by simp [RealLike.ofInt]) s0 s1 dx0 dx1 mask opd t x y
      simp only [tiltRamp, h1, mul_one] at hu
      simp only [add_zero]
      rw [hu]
    · rw [h0, zero_mul, zero_mul]
  rw [hf]
/-- non-vacuity of `fit_tilt_propagates_like_original`: a fully illuminated 2x2 plane, solver coefficients `t = (7, 5/2, -2)` (recorded
`Tilt(x=5/2, y=-2)`: 2.5 rows, 2 columns at unit lengths) split as `(2 + 1/2, 2 + 0)`; all hypotheses hold at the sample (1, 1) -/
example := fit_tilt_propagates_like_original (fun _ _ => 1) (fun _ _ => 1) (fun x y => ((x + y : ℤ) : ℝ))
  (fun k => if k = 1 then 5/2 else if k = 2 then -2 else 7) (fun _ _ => Or.inl rfl) 1 1 1 1 1 1 1 2 2
  one_ne_zero one_ne_zero one_ne_zero ⟨one_ne_zero, one_ne_zero⟩ 2 2 (1/2) 0
  (by simp only [fitTiltRecord, fitRecordXY, Gen.fitRecord]
      rw [fieldShift_angular (by simp [RealLike.ofInt])]; simp only [RealLike.ofInt]; refine Prod.ext ?_ ?_ <;> norm_num)
  (outExtent 8 8 none) (outExtent 8 8 none) 4 4 4 4 (by rw [outExtent_nomask]; decide) (by decide) (by rw [outExtent_nomask]; decide) (by decide)
  1 1 (by decide) (by decide)

/-- **After `fit_tilt`, the image is the Fraunhofer transform of the ORIGINAL plane.** Composition of `fit_tilt_propagates_like_original`
with C02 `propagateField_sample`: every output sample the fitted plane evaluates (with its recorded Tilt as metadata, any split of the
shift, any solver coefficients) equals the unitary Fraunhofer sum of the original plane's field — amplitude and ORIGINAL OPD — at that
sample's own global coordinate, `alpha = dx·du/(λ z os)`. The fit changes where the window sits, never what is in it. -/
theorem fit_tilt_image_is_original_fraunhofer (amp : Int → Int → ℂ) (mask opd : Int → Int → ℝ) (t : Int → ℝ)
    (hmask : ∀ x y, mask x y = 1 ∨ (mask x y = 0 ∧ amp x y = 0))
    (dx0 dx1 du0 du1 wl z : ℝ) (os : Int) (s0 s1 : Int) (hw : wl ≠ 0) (hz : z ≠ 0) (hos : os ≠ 0) (hdu : du0 ≠ 0 ∧ du1 ≠ 0)
    (fix0 fix1 : Int) (sub0 sub1 : ℝ)
    (hsplit : ((fix0 : ℝ) + sub0, (fix1 : ℝ) + sub1) = fieldShift [fitTiltRecord t] z wl du0 du1 os true)
    (oe : Extent) (P0 P1 : Int) (hoe : oe.rmin ≤ oe.rmax ∧ oe.cmin ≤ oe.cmax) (hP : 0 < P0 ∧ 0 < P1) (r c : Int)
    (hin : (oe.inb r c && (propExtent P0 P1 fix0 fix1).inb r c) = true) :
    embO (propagateField ⟨phasorField amp (fitTiltOpd s0 s1 dx0 dx1 mask opd t) wl s0 s1 0 0, fix0, fix1, sub0, sub1⟩
      (dftAlpha dx0 dx1 du0 du1 wl z os).1 (dftAlpha dx0 dx1 du0 du1 wl z os).2 oe P0 P1) r c =
    fraunhoferAt (phasorField amp opd wl s0 s1 0 0) (dftAlpha dx0 dx1 du0 du1 wl z os).1 (dftAlpha dx0 dx1 du0 du1 wl z os).2
      (RealLike.ofInt r) (RealLike.ofInt c) := by
  have hin' : ((⟨r, r, c, c⟩ : Extent).inb r c && (propExtent (2 * (r.natAbs : Int) + 2) (2 * (c.natAbs : Int) + 2) 0 0).inb r c) = true := by
    rw [Bool.and_eq_true, Extent.inb_iff, Extent.inb_iff, propExtent, arrayExtent_eq]; simp only; omega
  rw [fit_tilt_propagates_like_original amp mask opd t hmask dx0 dx1 du0 du1 wl z os s0 s1 hw hz hos hdu fix0 fix1 sub0 sub1 hsplit oe
    ⟨r, r, c, c⟩ P0 P1 (2 * (r.natAbs : Int) + 2) (2 * (c.natAbs : Int) + 2) hoe hP ⟨le_refl _, le_refl _⟩ ⟨by omega, by omega⟩ r c hin hin']
  rw [C02.propagateField_sample (K := ℂ) (R := ℝ) (fun _ => rfl) _ _ _ ⟨r, r, c, c⟩ _ _ ⟨le_refl _, le_refl _⟩ ⟨by omega, by omega⟩ r c]
  simp only [hin', if_true, sub_zero]

/-- **Segmented planes: each segment's field after `fit_tilt` propagates like that segment of the original plane.** Segment `s` of a
segmented plane (binary, pairwise disjoint masks; the segment's amplitude vanishes off its own mask): its field with the OPD the segmented
branch of `fit_tilt` leaves (`fitTiltOpdSeg`, which also zeroes the OPD outside all segments) carrying the segment's own recorded element
`Tilt(x=t[seg,1], y=t[seg,2])` as metadata, and the same segment with the original OPD and no metadata, give the same complex value at
every output coordinate both evaluate — for ANY coefficients of every segment. Composition of `fit_tilt_total_unchanged_seg` with
`tilt_representations_equiv_complex`; summing over segments gives the whole aperture (`segmented_tilt_equiv_complex`). -/
theorem fit_tilt_seg_propagates_like_original (amp : Int → Int → ℂ) (opd : Int → Int → ℝ)
    (pre post : List (Int × (Int → Int → ℝ) × (Int → ℝ))) (sg : Int × (Int → Int → ℝ) × (Int → ℝ))
    (hmask : ∀ x y, (sg.2.1 x y = 1 ∧ ∀ s' ∈ pre ++ post, s'.2.1 x y = 0) ∨ amp x y = 0)
    (dx0 dx1 du0 du1 wl z : ℝ) (os : Int) (s0 s1 : Int) (hw : wl ≠ 0) (hz : z ≠ 0) (hos : os ≠ 0) (hdu : du0 ≠ 0 ∧ du1 ≠ 0)
    (fix0 fix1 : Int) (sub0 sub1 : ℝ)
    (hsplit : ((fix0 : ℝ) + sub0, (fix1 : ℝ) + sub1) =
      fieldShift [TiltEl.angular (fitSegRecordXY sg.2.2).1 (fitSegRecordXY sg.2.2).2] z wl du0 du1 os true)
    (oe oe' : Extent) (P0 P1 P0' P1' : Int)
    (hoe : oe.rmin ≤ oe.rmax ∧ oe.cmin ≤ oe.cmax) (hP : 0 < P0 ∧ 0 < P1)
    (hoe' : oe'.rmin ≤ oe'.rmax ∧ oe'.cmin ≤ oe'.cmax) (hP' : 0 < P0' ∧ 0 < P1') (r c : Int)
    (hin : (oe.inb r c && (propExtent P0 P1 fix0 fix1).inb r c) = true)
    (hin' : (oe'.inb r c && (propExtent P0' P1' 0 0).inb r c) = true) :
    embO (propagateField ⟨phasorField amp (fitTiltOpdSeg s0 s1 dx0 dx1 (pre ++ sg :: post) opd) wl s0 s1 0 0, fix0, fix1, sub0, sub1⟩
      (dftAlpha dx0 dx1 du0 du1 wl z os).1 (dftAlpha dx0 dx1 du0 du1 wl z os).2 oe P0 P1) r c =
    embO (propagateField ⟨phasorField amp opd wl s0 s1 0 0, 0, 0, 0, 0⟩
      (dftAlpha dx0 dx1 du0 du1 wl z os).1 (dftAlpha dx0 dx1 du0 du1 wl z os).2 oe' P0' P1') r c := by
  rw [tilt_representations_equiv_complex amp (fitTiltOpdSeg s0 s1 dx0 dx1 (pre ++ sg :: post) opd) (fitSegRecordXY sg.2.2).1
    (fitSegRecordXY sg.2.2).2 dx0 dx1 du0 du1 wl z os s0 s1 0 0 hw hz hos hdu fix0 fix1 sub0 sub1 hsplit oe oe' P0 P1 P0' P1' hoe hP hoe' hP'
    r c hin hin']
  have hf : phasorField (K := ℂ) amp (fun x y => fitTiltOpdSeg s0 s1 dx0 dx1 (pre ++ sg :: post) opd x y +
        ((fitSegRecordXY sg.2.2).1 * RealLike.ofInt (cc s0 x + 0) * dx0 - (fitSegRecordXY sg.2.2).2 * RealLike.ofInt (cc s1 y + 0) * dx1))
        wl s0 s1 0 0 = phasorField amp opd wl s0 s1 0 0 := by
    unfold phasorField
    congr 2
    funext x y
    rcases hmask x y with ⟨h1, hoth⟩ | h0
    · have hu := fit_tilt_total_unchanged_seg (R := ℝ) (by simp [RealLike.ofInt]) s0 s1 dx0 dx1 pre post sg opd x y h1 hoth
      simp only [tiltRamp, h1, mul_one] at hu
      simp only [add_zero]
      rw [hu]
    · rw [h0, zero_mul, zero_mul]
  rw [hf]
end fitprop

/-! ## A first-order dispersive element displaces along its trace by the arc length its dispersion maps to the wavelength -/
section dispersive
variable {R : Type} [Field R] [LinearOrder R] [IsStrictOrderedRing R] [RealLike R]

/-- **On the trace, at the right arc length.** For `DispersiveTilt(trace=[t0, t1], dispersion=[d0, d1])` the displacement
`(x, y)` satisfies `y = t0*x + t1` (it lies on the trace polynomial), its distance from the trace origin `(0, t1)` is
`|d|` with `d0*d + d1 = wavelength` (the arc length the dispersion polynomial maps to the wavelength; squared form), and it
points along increasing `x` for positive `d`. `hsqrt`: `RealLike.sqrt` is a square root on non-negatives. -/
theorem dispersive_on_trace (h1 : (RealLike.ofInt 1 : R) = 1)
    (hsqrt : ∀ a : R, 0 < a → 0 < RealLike.sqrt a ∧ RealLike.sqrt a * RealLike.sqrt a = a)
    (t0 t1 d0 d1 z wl : R) (hd0 : d0 ≠ 0) :
    let p := (TiltEl.dispersive1 t0 t1 d0 d1).disp z wl
    let d := (wl - d1) / d0
    p.2 = t0 * p.1 + t1 ∧ p.1 * p.1 + (p.2 - t1) * (p.2 - t1) = d * d ∧ d0 * d + d1 = wl ∧ 0 ≤ p.1 * d := by
  have hpos : (0 : R) < 1 + t0 * t0 := by nlinarith [mul_self_nonneg t0]
  obtain ⟨hs0, hs⟩ := hsqrt (1 + t0 * t0) hpos
  have hne : RealLike.sqrt (1 + t0 * t0) ≠ 0 := ne_of_gt hs0
  simp only [TiltEl.disp, TiltEl.shift, Gen.dispersiveShift1, h1]
  generalize RealLike.sqrt (1 + t0 * t0) = q at hs0 hs hne
  generalize hD : (wl - d1) / d0 = D
  have h2 : (D / q) * (D / q) * (q * q) = D * D := by field_simp
  refine ⟨by ring, ?_, by rw [← hD]; (field_simp; ring), ?_⟩
  · calc (D / q + 0) * (D / q + 0) + (t0 * (D / q) + t1 + 0 - t1) * (t0 * (D / q) + t1 + 0 - t1)
        = (D / q) * (D / q) * (1 + t0 * t0) := by ring
      _ = (D / q) * (D / q) * (q * q) := by rw [hs]
      _ = D * D := h2
  · have : (D / q + 0) * D = D * D / q := by ring
    rw [this]
    exact div_nonneg (mul_self_nonneg _) hs0.le

/-- **Contract of the numerical branches of `DispersiveTilt`** (trace and/or dispersion polynomial of order > 1): the two
`scipy.optimize.leastsq(…, x0=0)` calls return roots of the residuals the code hands them — both residual functions and the arc-length
integrand are *generated* from `_dist_cost_func`, `_trace_cost_func`, `_trace_dist_func` — with `scipy.integrate.quad` the integral.
This is the single trusted fact about the higher-order branches; the oracle checks it numerically on every generated element. -/
def DispersiveSolved (trace disp : List ℝ) (wl dist x : ℝ) : Prop :=
  Gen.dispDistResidual polyval disp dist wl = 0 ∧
  Gen.traceDistResidual (fun f a b => ∫ t in a..b, f t) (Gen.traceDistIntegrand Real.sqrt polyval polyder 1 trace) 0 x dist = 0

/-- **The solver contract, unfolded** (not a result about the solvers: the conclusion is `DispersiveSolved` read through the generated
residuals and tail). What it fixes is the FORM of what the code hands to scipy: if both residuals vanish, then the displacement (net of
the incoming shift) is `(x, polyval(trace, x))`, the dispersion polynomial maps `dist` to the wavelength, and `dist` is the arc length
`∫₀ˣ √(1 + T'²)` of the trace. A change of a residual, of the integrand or of the tail breaks this theorem. -/
theorem dispersive_general_spec (trace disp : List ℝ) (wl dist x xs ys : ℝ) (h : DispersiveSolved trace disp wl dist x) :
    (Gen.dispersiveTail polyval trace x xs ys).2 - ys = polyval trace ((Gen.dispersiveTail polyval trace x xs ys).1 - xs) ∧
    polyval disp dist = wl ∧
    (∫ t in (0 : ℝ)..((Gen.dispersiveTail polyval trace x xs ys).1 - xs), Real.sqrt (1 + polyval (polyder trace) t * polyval (polyder trace) t)) = dist := by
  obtain ⟨h1, h2⟩ := h
  simp only [Gen.dispDistResidual, Gen.traceDistResidual, Gen.traceDistIntegrand, sub_eq_zero] at h1 h2
  simp only [Gen.dispersiveTail, add_sub_cancel_right]
  exact ⟨trivial, h1.symm, h2.symm⟩

/-- **The first-order closed form is the solution of the general contract**: for `trace=[t0, t1]`, `dispersion=[d0, d1]` the generated
closed-form branch (`Gen.dispersiveShift1`) returns exactly the tail evaluated at values that make both generated residuals vanish —
so the analytic and the numerical branches of the code describe the same displacement. -/
theorem first_order_closed_form_is_solution (t0 t1 d0 d1 wl xs ys : ℝ) (hd0 : d0 ≠ 0) :
    DispersiveSolved [t0, t1] [d0, d1] wl ((wl - d1) / d0) ((wl - d1) / d0 / Real.sqrt (1 + t0 * t0)) ∧
    Gen.dispersiveTail polyval [t0, t1] ((wl - d1) / d0 / Real.sqrt (1 + t0 * t0)) xs ys =
      Gen.dispersiveShift1 Real.sqrt 1 t0 t1 d0 d1 wl xs ys := by
  have hpos : (0 : ℝ) < 1 + t0 * t0 := by nlinarith [mul_self_nonneg t0]
  have hq : Real.sqrt (1 + t0 * t0) ≠ 0 := ne_of_gt (Real.sqrt_pos.mpr hpos)
  refine ⟨⟨?_, ?_⟩, ?_⟩
  · simp only [Gen.dispDistResidual, polyval, List.foldl, RealLike.ofInt]
    field_simp; ring
  · simp only [Gen.traceDistResidual, Gen.traceDistIntegrand, polyval, polyder, List.foldl, List.length, RealLike.ofInt]
    have hc : ∀ t : ℝ, ((0 : ℤ) : ℝ) * t + (((0 + 1 : ℕ) : ℤ) : ℝ) * t0 = t0 := by intro t; push_cast; ring
    simp only [hc]
    rw [intervalIntegral.integral_const, smul_eq_mul, sub_zero]
    field_simp; ring
  · simp only [Gen.dispersiveTail, Gen.dispersiveShift1, polyval, List.foldl, RealLike.ofInt]
    simp

/-- **Mixed order: linear trace, dispersion of any order.** For `trace = [t0, t1]` the code takes the closed form `x = dist/√(1+t0²)`
whatever `dist` the (possibly numerical) dispersion branch returned: that `x` makes the generated trace residual vanish, i.e. it is the
abscissa at arc length `dist` — so only the dispersion root remains a contract in this case. -/
theorem linear_trace_arc_length (t0 t1 dist : ℝ) :
    Gen.traceDistResidual (fun f a b => ∫ t in a..b, f t) (Gen.traceDistIntegrand Real.sqrt polyval polyder 1 [t0, t1]) 0
      (dist / Real.sqrt (1 + t0 * t0)) dist = 0 := by
  have hpos : (0 : ℝ) < 1 + t0 * t0 := by nlinarith [mul_self_nonneg t0]
  have hq : Real.sqrt (1 + t0 * t0) ≠ 0 := ne_of_gt (Real.sqrt_pos.mpr hpos)
  simp only [Gen.traceDistResidual, Gen.traceDistIntegrand, polyval, polyder, List.foldl, List.length, RealLike.ofInt]
  have hc : ∀ t : ℝ, ((0 : ℤ) : ℝ) * t + (((0 + 1 : ℕ) : ℤ) : ℝ) * t0 = t0 := by intro t; push_cast; ring
  simp only [hc]
  rw [intervalIntegral.integral_const, smul_eq_mul, sub_zero]
  field_simp; ring

/-- **Lists with elements of any order add and do not depend on the order**: `shift_additive` / `shift_perm_invariant` quantify over
`TiltEl`, which has the constructor `dispersiveN trace x` (displacement = generated tail at the solver's abscissa); instance for a list
mixing all three kinds. -/
theorem any_order_lists_add (h0 : (RealLike.ofInt 0 : ℝ) = 0) (a b t0 t1 d0 d1 x : ℝ) (trace : List ℝ) (z wl : ℝ) :
    foldShift [TiltEl.angular a b, TiltEl.dispersiveN trace x, TiltEl.dispersive1 t0 t1 d0 d1] z wl =
      foldShift [TiltEl.dispersive1 t0 t1 d0 d1, TiltEl.angular a b, TiltEl.dispersiveN trace x] z wl :=
  shift_perm_invariant h0 _ _ (by
    have : [TiltEl.angular a b, TiltEl.dispersiveN trace x, TiltEl.dispersive1 t0 t1 d0 d1].Perm
        ([TiltEl.angular a b, TiltEl.dispersiveN trace x] ++ [TiltEl.dispersive1 t0 t1 d0 d1]) := List.Perm.refl _
    exact this.trans List.perm_append_comm) z wl

/-- non-vacuity of `hsqrt`: the real square root qualifies -/
example : ∀ a : ℝ, 0 < a → 0 < Real.sqrt a ∧ Real.sqrt a * Real.sqrt a = a :=
  fun _ h => ⟨Real.sqrt_pos.mpr h, Real.mul_self_sqrt h.le⟩
end dispersive

end Lentil.C04
