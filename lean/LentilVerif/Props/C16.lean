import LentilVerif.Model.Detector
import LentilVerif.Lemmas.Detector
import LentilVerif.Gen.Effects
/-! # C16 — detector chain: right quantum efficiency at every pixel, exact digitisation

Property theorems only (helpers in `Lemmas/Detector.lean`). The model (`Model/Detector.lean`) is the hand model of
`lentil/detector.py`, tied to the implementation by the exact correspondence of `tools/harness/c16.py`. -/
namespace Lentil.C16
open Lentil Lentil.Det Finset

/-! ## collect_charge -/

/-- collected charge is, at every pixel, the sum over wavelength slices of photons × QE -/
theorem collect_charge_sum {K} [Semiring K] (nw : Nat) (img : Nat → Int → Int → K) (qe : Nat → K) (i j : Int) :
    collectCharge nw img qe i j = ∑ l ∈ range nw, img l i j * qe l := by
  unfold collectCharge; rw [sumRange_eq_sum]

/-- linear in the photons and in the efficiency -/
theorem collect_charge_bilinear {K} [CommSemiring K] (nw : Nat) (img img' : Nat → Int → Int → K) (qe qe' : Nat → K) (a b : K) (i j : Int) :
    collectCharge nw (fun l r c => a * img l r c + b * img' l r c) qe i j
        = a * collectCharge nw img qe i j + b * collectCharge nw img' qe i j ∧
    collectCharge nw img (fun l => a * qe l + b * qe' l) i j
        = a * collectCharge nw img qe i j + b * collectCharge nw img qe' i j := by
  simp only [collect_charge_sum, Finset.mul_sum, ← Finset.sum_add_distrib]
  constructor <;> (apply Finset.sum_congr rfl; intro l _; ring)

/-- only the efficiency values at the `nw` wavelengths matter -/
theorem collect_charge_congr {K} [Semiring K] (nw : Nat) (img : Nat → Int → Int → K) (q q' : Nat → K)
    (h : ∀ l, l < nw → q l = q' l) (i j : Int) : collectCharge nw img q i j = collectCharge nw img q' i j := by
  simp only [collect_charge_sum]
  exact Finset.sum_congr rfl fun l hl => by rw [h l (Finset.mem_range.mp hl)]

/-- `Spectrum.sample` does not depend on the wavelength unit of the request: asking at the same physical wavelengths expressed
in another unit (`w · (wu → wu')`, factor regenerated from radiometry.py) returns the same values — for every pair of units -/
theorem spectrum_sample_unit_invariant {K} [Field K] [LinearOrder K] [IsStrictOrderedRing K] (grid : List (K × K))
    (su wu wu' : Gen.WUnit) (w : K) :
    spectrumSample grid su (w * Gen.waveTo wu wu') wu' = spectrumSample grid su w wu := by
  have hco : (Gen.waveTo su wu' : K) = Gen.waveTo su wu * Gen.waveTo wu wu' := by
    cases su <;> cases wu <;> cases wu' <;> norm_num [Gen.waveTo]
  have hpos : (0 : K) < Gen.waveTo wu wu' := by cases wu <;> cases wu' <;> norm_num [Gen.waveTo]
  unfold spectrumSample
  rw [← interpLin_scale (Gen.waveTo wu wu') hpos (grid.map fun p => (p.1 * Gen.waveTo su wu, p.2)) w, List.map_map]
  congr 1
  apply List.map_congr_left
  intro p _
  simp only [Function.comp, hco, mul_assoc]

/-- scalar, per-wavelength vector and `Spectrum` give the same electrons when they denote the same efficiency `q`: the vector
lists `q`, the spectrum is flat at `q` on a grid (in any unit `su`) whose band contains the requested wavelengths (given in any
unit `wu`). The spectrum branch is `qe_asarray`'s `Spectrum.sample(wave, waveunit)`: unit conversion by the regenerated factor
table followed by linear interpolation — derived here, not assumed. -/
theorem qe_representations_agree {K} [Field K] [LinearOrder K] [IsStrictOrderedRing K] (nw : Nat) (img : Nat → Int → Int → K) (q : K)
    (v : Nat → K) (grid : List (K × K)) (su wu : Gen.WUnit) (wave : Nat → K) (x0 xl : K)
    (hv : ∀ l, l < nw → v l = q)
    (hflat : ∀ p ∈ grid, p.2 = q) (hhead : grid.head? = some (x0, q)) (hlast : grid.getLast? = some (xl, q)) (hlen : 2 ≤ grid.length)
    (hband : ∀ l, l < nw → x0 * Gen.waveTo su wu ≤ wave l ∧ wave l ≤ xl * Gen.waveTo su wu) :
    ∃ a b c, (QE.scalar q).asArray nw = some a ∧ (QE.vector nw v).asArray nw = some b ∧
      (QE.spectrumObj grid su wave wu).asArray nw = some c ∧
      ∀ i j, collectCharge nw img a i j = collectCharge nw img b i j ∧ collectCharge nw img b i j = collectCharge nw img c i j := by
  refine ⟨fun _ => q, v, fun l => spectrumSample grid su (wave l) wu, rfl, by simp [QE.asArray], rfl, fun i j => ⟨?_, ?_⟩⟩
  · exact collect_charge_congr nw img _ _ (fun l hl => (hv l hl).symm) i j
  · apply collect_charge_congr nw img _ _ _ i j
    intro l hl
    rw [hv l hl]
    symm
    unfold spectrumSample
    apply interpLin_flat q _ _ _ (x0 * Gen.waveTo su wu) (xl * Gen.waveTo su wu)
    · simp [List.head?_map, hhead]
    · simp [List.getLast?_map, hlast]
    · simpa using hlen
    · exact (hband l hl).1
    · exact (hband l hl).2
    · intro p hp
      simp only [List.mem_map] at hp
      obtain ⟨p', hp', rfl⟩ := hp
      exact hflat p' hp'

/-- the same with the band condition stated in the GRID's own unit: it is enough that the requested wavelengths, converted to the
spectrum's unit `su` (`wave l · (wu → su)`, regenerated factor), lie in `[x0, xl]` — whatever unit `wu` the call uses -/
theorem qe_representations_agree_grid_unit {K} [Field K] [LinearOrder K] [IsStrictOrderedRing K] (nw : Nat) (img : Nat → Int → Int → K) (q : K)
    (v : Nat → K) (grid : List (K × K)) (su wu : Gen.WUnit) (wave : Nat → K) (x0 xl : K)
    (hv : ∀ l, l < nw → v l = q)
    (hflat : ∀ p ∈ grid, p.2 = q) (hhead : grid.head? = some (x0, q)) (hlast : grid.getLast? = some (xl, q)) (hlen : 2 ≤ grid.length)
    (hband : ∀ l, l < nw → x0 ≤ wave l * Gen.waveTo wu su ∧ wave l * Gen.waveTo wu su ≤ xl) :
    ∃ a b c, (QE.scalar q).asArray nw = some a ∧ (QE.vector nw v).asArray nw = some b ∧
      (QE.spectrumObj grid su wave wu).asArray nw = some c ∧
      ∀ i j, collectCharge nw img a i j = collectCharge nw img b i j ∧ collectCharge nw img b i j = collectCharge nw img c i j := by
  apply qe_representations_agree nw img q v grid su wu wave x0 xl hv hflat hhead hlast hlen
  intro l hl
  have hinv : (Gen.waveTo wu su : K) * Gen.waveTo su wu = 1 := by cases su <;> cases wu <;> norm_num [Gen.waveTo]
  have hpos : (0 : K) < Gen.waveTo su wu := by cases su <;> cases wu <;> norm_num [Gen.waveTo]
  obtain ⟨h1, h2⟩ := hband l hl
  have e : wave l = wave l * Gen.waveTo wu su * Gen.waveTo su wu := by rw [mul_assoc, hinv, mul_one]
  constructor
  · rw [e]; exact mul_le_mul_of_nonneg_right h1 hpos.le
  · rw [e]; exact mul_le_mul_of_nonneg_right h2 hpos.le

/-- non-vacuity of `qe_representations_agree_grid_unit`: a flat 1/2 spectrum tabulated in nanometres on [400, 800], asked at
0.5 and 0.7 micrometres -/
example : ∃ a b c, (QE.scalar (1 / 2 : ℚ)).asArray 2 = some a ∧ (QE.vector 2 fun _ => (1 / 2 : ℚ)).asArray 2 = some b ∧
    (QE.spectrumObj [(400, 1 / 2), (600, 1 / 2), (800, (1 / 2 : ℚ))] .nm (fun l => if l = 0 then 1 / 2 else 7 / 10) .um).asArray 2 = some c ∧
    ∀ i j, collectCharge 2 (fun _ _ _ => (3 : ℚ)) a i j = collectCharge 2 (fun _ _ _ => 3) b i j ∧
      collectCharge 2 (fun _ _ _ => (3 : ℚ)) b i j = collectCharge 2 (fun _ _ _ => 3) c i j :=
  qe_representations_agree_grid_unit (K := ℚ) 2 _ (1 / 2) _ _ .nm .um _ 400 800 (fun _ _ => rfl)
    (by simp) rfl rfl (by simp) (by
      intro l hl
      have : l = 0 ∨ l = 1 := by omega
      rcases this with rfl | rfl <;> norm_num [Gen.waveTo])

/-- a Spectrum efficiency, flat or not, gives exactly the electrons of the vector of its own samples at the call's wavelengths
(`qe_asarray` replaces the Spectrum by `Spectrum.sample(wave, waveunit)`), in every pair of units -/
theorem qe_spectrum_equals_its_samples {K} [Field K] [LinearOrder K] (nw : Nat) (img : Nat → Int → Int → K) (grid : List (K × K))
    (su wu : Gen.WUnit) (wave : Nat → K) (i j : Int) :
    ∃ a b, (QE.spectrumObj grid su wave wu).asArray nw = some a ∧
      (QE.vector nw fun l => spectrumSample grid su (wave l) wu).asArray nw = some b ∧
      collectCharge nw img a i j = collectCharge nw img b i j :=
  ⟨_, _, rfl, by simp [QE.asArray], rfl⟩

/-- non-vacuity: a flat spectrum at 1/2 given in nanometres on [400, 800] nm, asked at 0.5 and 0.7 micrometres -/
example : spectrumSample (K := ℚ) [(400, 1/2), (600, 1/2), (800, 1/2)] .nm (1/2) .um = 1/2 ∧
    spectrumSample (K := ℚ) [(400, 1/4), (600, 3/4)] .nm (1/2) .um = 1/2 ∧
    spectrumSample (K := ℚ) [(400, 1/4), (600, 3/4)] .nm (39999/100000) .um = 0 := by
  refine ⟨?_, ?_, ?_⟩ <;> norm_num [spectrumSample, interpLin, Gen.waveTo]

example : (QE.vector 3 (fun l => (l : Int))).asArray 4 = none := by decide

/-- slice-count mismatches: a cube whose number of slices differs from the number of wavelengths is refused, except for a
single slice, which the code broadcasts against all efficiencies (returns `photons · Σ qe`; reported as questionable) -/
theorem collect_charge_slice_mismatch {K} [Semiring K] (ns nw : Nat) (img : Nat → Int → Int → K) (qe : Nat → K) :
    (ns = nw → collectChargeChecked ns nw img qe = some (collectCharge nw img qe)) ∧
    (ns ≠ nw → ns ≠ 1 → collectChargeChecked ns nw img qe = none) ∧
    (ns ≠ nw → ns = 1 → ∃ f, collectChargeChecked ns nw img qe = some f ∧ ∀ i j, f i j = img 0 i j * ∑ l ∈ range nw, qe l) := by
  refine ⟨fun h => by simp [collectChargeChecked, h], fun h1 h2 => by simp [collectChargeChecked, h1, h2], ?_⟩
  intro h1 h2
  subst h2
  have h1' : ¬ (1 = nw) := h1
  refine ⟨collectCharge nw (fun _ => img 0) qe, by simp [collectChargeChecked, h1'], ?_⟩
  intro i j; rw [collect_charge_sum, Finset.mul_sum]

/-! ## Bayer mosaic -/

/-- the mosaic built by `np.tile` then `np.repeat` on both axes has exactly the image shape when the image size is a
multiple of pattern size × oversampling … -/
theorem mosaic_shape {K} (kern : Img K) (d os a b : Int) (hd : 0 < d) (hos : 0 < os) (h0 : kern.s0 = d) (h1 : kern.s1 = d) :
    (mosaic kern (d * os * a) (d * os * b) os).s0 = d * os * a ∧ (mosaic kern (d * os * a) (d * os * b) os).s1 = d * os * b := by
  have e1 : d * os * a / os = d * a := by
    rw [show d * os * a = os * (d * a) by ring]; exact Int.mul_ediv_cancel_left _ (ne_of_gt hos)
  have e2 : d * os * b / os = d * b := by
    rw [show d * os * b = os * (d * b) by ring]; exact Int.mul_ediv_cancel_left _ (ne_of_gt hos)
  simp only [mosaic, Gen.bayerTileReps, Gen.bayerRepeats, List.foldl, repeatAx, repeat1, repeat0, tile, h0, h1, e1, e2,
    Int.mul_ediv_cancel_left _ (ne_of_gt hd), if_true, show ¬ ((1 : Int) = 0) by decide, if_false]
  constructor <;> ring

/-- … and only then (otherwise NumPy raises a broadcast error, the model answers `none`) -/
theorem mosaic_shape_only_if_multiple {K} (kern : Img K) (d os R C : Int) (h0 : kern.s0 = d) (h1 : kern.s1 = d)
    (h : (mosaic kern R C os).s0 = R ∧ (mosaic kern R C os).s1 = C) : d * os ∣ R ∧ d * os ∣ C := by
  simp only [mosaic, Gen.bayerTileReps, Gen.bayerRepeats, List.foldl, repeatAx, repeat1, repeat0, tile, h0, h1, if_true,
    show ¬ ((1 : Int) = 0) by decide, if_false] at h
  exact ⟨⟨R / os / d, by rw [show d * os * (R / os / d) = os * (R / os / d * d) by ring]; exact h.1.symm⟩,
         ⟨C / os / d, by rw [show d * os * (C / os / d) = os * (C / os / d * d) by ring]; exact h.2.symm⟩⟩

/-- the pattern string is refused (ValueError) exactly when it contains a letter other than R, G, B (in either case) or its
length is not a perfect square; an accepted string of length `d²` is laid out row-major -/
theorem format_bayer_string_spec (s : String) :
    (formatBayer s = none ↔ (∃ c ∈ s.toList, colourOfChar c = none) ∨ ¬ ∃ d, d * d = s.toList.length) ∧
    (∀ d p, formatBayer s = some (d, p) → d * d = s.toList.length ∧
      ∀ a b : Nat, a * d + b < s.toList.length → some (p a b) = (s.toList[a * d + b]?).bind colourOfChar) := by
  unfold formatBayer
  by_cases hbad : (s.toList.map colourOfChar).any Option.isNone = true
  · have hex : ∃ c ∈ s.toList, colourOfChar c = none := by
      simp only [List.any_eq_true, List.mem_map, Option.isNone_iff_eq_none] at hbad
      obtain ⟨x, ⟨c, hc, rfl⟩, hx⟩ := hbad; exact ⟨c, hc, hx⟩
    simp [hbad, hex]
  · have hgood : ∀ c ∈ s.toList, colourOfChar c ≠ none := by
      intro c hc hn; apply hbad
      simp only [List.any_eq_true, List.mem_map, Option.isNone_iff_eq_none]; exact ⟨_, ⟨c, hc, rfl⟩, hn⟩
    simp only [hbad, Bool.false_eq_true, if_false, List.length_map]
    cases hf : (List.range (s.toList.length + 1)).find? (fun d => d * d == s.toList.length) with
    | none =>
      rw [List.find?_eq_none] at hf
      refine ⟨⟨fun _ => Or.inr ?_, fun _ => rfl⟩, by simp⟩
      rintro ⟨d, hd⟩
      have hle : d < s.toList.length + 1 := by
        have : d ≤ d * d := Nat.le_mul_self d
        omega
      exact hf d (List.mem_range.mpr hle) (by simp [hd])
    | some d =>
      have hd : d * d = s.toList.length := by simpa using List.find?_some hf
      refine ⟨⟨fun h => by simp at h, fun h => ?_⟩, ?_⟩
      · rcases h with ⟨c, hc, hn⟩ | h
        · exact absurd hn (hgood c hc)
        · exact absurd ⟨d, hd⟩ h
      · intro d' p hp
        simp only [Option.some.injEq, Prod.mk.injEq] at hp
        obtain ⟨rfl, rfl⟩ := hp
        refine ⟨hd, fun a b hab => ?_⟩
        have hidx : ((a : Int) * (d : Int) + (b : Int)).toNat = a * d + b := by omega
        simp only [hidx, List.getElem?_map]
        cases hc : s.toList[a * d + b]? with
        | none => exact absurd hc (by simp [List.getElem?_eq_none_iff]; omega)
        | some c =>
          have := hgood c (List.mem_of_getElem? hc)
          cases hcc : colourOfChar c with
          | none => exact absurd hcc this
          | some col => simp [hcc]

example : (formatBayer "rgGb").map (·.1) = some 2 ∧ formatBayer "RGB" = none ∧ formatBayer "RGGX" = none := by decide

/-- for image sizes that are multiples of pattern × oversampling the product `electrons * mosaic` has the image's shape -/
theorem bayer_shape_of_multiple (d os a b : Int) (hd : 0 < d) (hos : 0 < os) :
    bayerShape (d * os * a) (d * os * b) d os = some (d * os * a, d * os * b) := by
  have h := mosaic_shape (K := Int) { s0 := d, s1 := d, get := fun _ _ => 0 } d os a b hd hos rfl rfl
  simp only [bayerShape, h.1, h.2, bcast, if_true]

/-- refusal, exactly: for images of at least two rows and two columns the Bayer product is refused (broadcast error) if and only
if the image size is not a multiple of pattern × oversampling in both directions -/
theorem bayer_refused_iff (R C d os : Int) (hd : 0 < d) (hos : 0 < os) (hR : 1 < R) (hC : 1 < C) :
    bayerShape R C d os = none ↔ ¬ (d * os ∣ R ∧ d * os ∣ C) := by
  have key : ∀ n : Int, 1 < n → ((bcast n (os * (n / os / d * d))).isSome ↔ d * os ∣ n) := by
    intro n hn
    constructor
    · intro h
      simp only [bcast] at h
      by_cases e : n = os * (n / os / d * d)
      · exact ⟨n / os / d, by rw [show d * os * (n / os / d) = os * (n / os / d * d) by ring]; exact e⟩
      · have hn1 : ¬ n = 1 := by omega
        simp only [e, hn1, if_false] at h
        by_cases e1 : os * (n / os / d * d) = 1
        · exfalso
          have ho : os = 1 := Int.eq_one_of_mul_eq_one_right (le_of_lt hos) e1
          subst ho
          simp only [one_mul, Int.ediv_one] at e1 e
          have hd1 : d = 1 := Int.eq_one_of_mul_eq_one_left (le_of_lt hd) e1
          subst hd1
          simp at e1
          omega
        · simp [e1] at h
    · rintro ⟨k, hk⟩
      have e : n = os * (n / os / d * d) := by
        have h1 : n / os = d * k := by rw [hk, show d * os * k = os * (d * k) by ring]; exact Int.mul_ediv_cancel_left _ (ne_of_gt hos)
        rw [h1, Int.mul_ediv_cancel_left _ (ne_of_gt hd), hk]; ring
      simp only [bcast]
      rw [if_pos e]; rfl
  have hs0 : (mosaic (K := Int) { s0 := d, s1 := d, get := fun _ _ => 0 } R C os).s0 = os * (R / os / d * d) := by
    simp only [mosaic, Gen.bayerTileReps, Gen.bayerRepeats, List.foldl, repeatAx, repeat1, repeat0, tile, if_true,
      show ¬ ((1 : Int) = 0) by decide, if_false]
  have hs1 : (mosaic (K := Int) { s0 := d, s1 := d, get := fun _ _ => 0 } R C os).s1 = os * (C / os / d * d) := by
    simp only [mosaic, Gen.bayerTileReps, Gen.bayerRepeats, List.foldl, repeatAx, repeat1, repeat0, tile, if_true,
      show ¬ ((1 : Int) = 0) by decide, if_false]
  have kR := key R hR
  have kC := key C hC
  simp only [bayerShape, hs0, hs1]
  cases hr : bcast R (os * (R / os / d * d)) with
  | none =>
    have : ¬ d * os ∣ R := fun h => by have := kR.mpr h; simp [hr] at this
    simp [this]
  | some r =>
    have hRd : d * os ∣ R := kR.mp (by simp [hr])
    cases hc : bcast C (os * (C / os / d * d)) with
    | none =>
      have : ¬ d * os ∣ C := fun h => by have := kC.mpr h; simp [hc] at this
      simp [this]
    | some c =>
      have hCd : d * os ∣ C := kC.mp (by simp [hc])
      simp [hRd, hCd]

/-- what the code does outside the property's quantifier: a one-row image that is not a multiple of `d·os` is not refused —
NumPy broadcasts it against the empty mosaic and the result has **zero rows** (witness: `collect_charge_bayer(ones((1,1,4)), …,
'RGGB')` returns shape (0, 4)); with two or more rows a non-multiple is refused -/
theorem bayer_one_row_broadcasts_empty (C d os : Int) (hd : 0 < d) (hos : 0 < os) (h : 1 < d * os) :
    ∃ c, bcast 1 (mosaic (K := Int) { s0 := d, s1 := d, get := fun _ _ => 0 } 1 C os).s0 = some 0 ∧
      (bayerShape 1 C d os = none ∨ bayerShape 1 C d os = some (0, c)) := by
  have hz : (mosaic (K := Int) { s0 := d, s1 := d, get := fun _ _ => 0 } 1 C os).s0 = 0 := by
    simp only [mosaic, Gen.bayerTileReps, Gen.bayerRepeats, List.foldl, repeatAx, repeat1, repeat0, tile, if_true,
      show ¬ ((1 : Int) = 0) by decide, if_false]
    rcases lt_or_ge 1 os with h1 | h1
    · rw [Int.ediv_eq_zero_of_lt (by omega) h1]; simp
    · have : os = 1 := by omega
      subst this
      have hd1 : 1 < d := by simpa using h
      rw [Int.ediv_one, Int.ediv_eq_zero_of_lt (by omega) hd1]; simp
  simp only [bayerShape, hz, bcast]
  cases hc : (if C = (mosaic (K := Int) { s0 := d, s1 := d, get := fun _ _ => 0 } 1 C os).s1 then some C
      else if C = 1 then some (mosaic (K := Int) { s0 := d, s1 := d, get := fun _ _ => 0 } 1 C os).s1
      else if (mosaic (K := Int) { s0 := d, s1 := d, get := fun _ _ => 0 } 1 C os).s1 = 1 then some C else none) with
  | none => exact ⟨0, by simp, Or.inl (by simp [hc])⟩
  | some c => exact ⟨c, by simp, Or.inr (by simp [hc])⟩

/-- mosaic index theorem: entry `(i, j)` of the colour-`c` mosaic is the kernel entry `[(i / os) % d][(j / os) % d]` -/
theorem mosaic_eq_tiled_pattern {K} [Zero K] [One K] (pattern : Int → Int → Colour) (c : Colour) (d os R C i j : Int) :
    (mosaic (K := K) ⟨d, d, kernel pattern c⟩ R C os).get i j
      = if pattern ((i / os) % d) ((j / os) % d) = c then 1 else 0 := rfl

/-- every oversampled sub-pixel `(os·I + u, os·J + v)`, `0 ≤ u, v < os`, of native pixel `(I, J)` uses the colour that the tiled
pattern assigns to that native pixel, `pattern[I % d][J % d]` — for every pattern size and oversampling factor -/
theorem mosaic_subpixel {K} [Zero K] [One K] (pattern : Int → Int → Colour) (c : Colour) (d os R C I J u v : Int)
    (hu : 0 ≤ u ∧ u < os) (hv : 0 ≤ v ∧ v < os) :
    (mosaic (K := K) ⟨d, d, kernel pattern c⟩ R C os).get (os * I + u) (os * J + v)
      = if pattern (I % d) (J % d) = c then 1 else 0 := by
  have hos : os ≠ 0 := by omega
  have e1 : (os * I + u) / os = I := by
    rw [Int.add_comm, Int.add_mul_ediv_left _ _ hos, Int.ediv_eq_zero_of_lt hu.1 hu.2]; simp
  have e2 : (os * J + v) / os = J := by
    rw [Int.add_comm, Int.add_mul_ediv_left _ _ hos, Int.ediv_eq_zero_of_lt hv.1 hv.2]; simp
  rw [mosaic_eq_tiled_pattern, e1, e2]

/-- with a colour filter array every sub-pixel gets exactly the efficiency of the colour the tiled pattern assigns to it -/
theorem bayer_pixel_uses_pattern_colour {K} [Semiring K] (nw : Nat) (R C : Int) (img : Nat → Int → Int → K) (qe : Colour → Nat → K)
    (d : Int) (pattern : Int → Int → Colour) (os : Int) (f : Int → Int → K)
    (h : bayerFlat nw R C img qe d pattern os = some f) (i j : Int) :
    f i j = collectCharge nw img (qe (pattern ((i / os) % d) ((j / os) % d))) i j := by
  unfold bayerFlat bayerChannel at h
  by_cases hg : (decide ((mosaic (K := K) ⟨d, d, kernel pattern .R⟩ R C os).s0 = R) &&
      decide ((mosaic (K := K) ⟨d, d, kernel pattern .R⟩ R C os).s1 = C)) = true
  · have hs : ∀ c : Colour, (decide ((mosaic (K := K) ⟨d, d, kernel pattern c⟩ R C os).s0 = R) &&
        decide ((mosaic (K := K) ⟨d, d, kernel pattern c⟩ R C os).s1 = C)) = true := fun c => hg
    simp only [hs, if_true, Option.some.injEq] at h
    subst h
    simp only [mosaic_eq_tiled_pattern]
    cases hc : pattern ((i / os) % d) ((j / os) % d) <;> simp
  · have hs : (decide ((mosaic (K := K) ⟨d, d, kernel pattern .R⟩ R C os).s0 = R) &&
        decide ((mosaic (K := K) ⟨d, d, kernel pattern .R⟩ R C os).s1 = C)) = false := by simpa using hg
    simp [hs] at h

/-- equal efficiencies in all channels reproduce the monochrome result -/
theorem equal_qe_is_monochrome {K} [Semiring K] (nw : Nat) (R C : Int) (img : Nat → Int → Int → K) (q : Nat → K)
    (d : Int) (pattern : Int → Int → Colour) (os : Int) (f : Int → Int → K)
    (h : bayerFlat nw R C img (fun _ => q) d pattern os = some f) (i j : Int) :
    f i j = collectCharge nw img q i j :=
  bayer_pixel_uses_pattern_colour nw R C img (fun _ => q) d pattern os f h i j

/-- the separate channel images sum to the flattened one; each channel is the charge where the pattern has its colour, else 0 -/
theorem channels_sum_to_flat {K} [Semiring K] (nw : Nat) (R C : Int) (img : Nat → Int → Int → K) (qe : Colour → Nat → K)
    (d : Int) (pattern : Int → Int → Colour) (os : Int) (f : Int → Int → K)
    (h : bayerFlat nw R C img qe d pattern os = some f) :
    ∃ ch : Colour → Int → Int → K, (∀ c, bayerChannel nw R C img (qe c) d pattern os c = some (ch c)) ∧
      (∀ i j, f i j = ch .R i j + ch .G i j + ch .B i j) ∧
      ∀ c i j, ch c i j = if pattern ((i / os) % d) ((j / os) % d) = c then collectCharge nw img (qe c) i j else 0 := by
  unfold bayerFlat at h
  cases hr : bayerChannel nw R C img (qe .R) d pattern os .R with
  | none => simp [hr] at h
  | some r =>
    cases hg : bayerChannel nw R C img (qe .G) d pattern os .G with
    | none => simp [hr, hg] at h
    | some g =>
      cases hb : bayerChannel nw R C img (qe .B) d pattern os .B with
      | none => simp [hr, hg, hb] at h
      | some b =>
        simp only [hr, hg, hb, Option.some.injEq] at h
        refine ⟨fun c => match c with | .R => r | .G => g | .B => b, ?_, ?_, ?_⟩
        · intro c; cases c <;> assumption
        · intro i j; rw [← h]
        · intro c i j
          have key : ∀ (c : Colour) (x : Int → Int → K), bayerChannel nw R C img (qe c) d pattern os c = some x →
              x i j = if pattern ((i / os) % d) ((j / os) % d) = c then collectCharge nw img (qe c) i j else 0 := by
            intro c x hx
            simp only [bayerChannel] at hx
            split_ifs at hx with hh
            · simp only [Option.some.injEq] at hx; subst hx
              simp only [mosaic_eq_tiled_pattern]
              split_ifs <;> simp
          cases c
          · exact key .R r hr
          · exact key .G g hg
          · exact key .B b hb

/-- **tie to the source wiring**: the flattened Bayer image computed through the regenerated channel table of `collect_charge_bayer`
(`Gen.bayerChannels`: kernel letter, einsum subscripts and efficiency variable per channel; `Gen.bayerFlattenTerms`: the summed terms)
IS the model `bayerFlat` all theorems above are about — a channel given another colour's efficiency or letter, a changed contraction
or a dropped/duplicated term of the sum breaks this proof -/
theorem bayer_flat_follows_source {K} [Add K] [Mul K] [Zero K] [One K] (nw : Nat) (R C : Int) (img : Nat → Int → Int → K)
    (qe : Colour → Nat → K) (d : Int) (pattern : Int → Int → Colour) (os : Int) :
    bayerFlatFromSource nw R C img qe d pattern os = bayerFlat nw R C img qe d pattern os := by
  have hr : bayerChannelFromSource nw R C img qe d pattern os "red_e" = bayerChannel nw R C img (qe .R) d pattern os .R := by
    have h : colourOfChar 'R' = some .R := by decide
    simp [bayerChannelFromSource, Gen.bayerChannels, List.lookup, colourOfQeName, h]
  have hg : bayerChannelFromSource nw R C img qe d pattern os "green_e" = bayerChannel nw R C img (qe .G) d pattern os .G := by
    have h : colourOfChar 'G' = some .G := by decide
    simp [bayerChannelFromSource, Gen.bayerChannels, List.lookup, colourOfQeName, h]
  have hb : bayerChannelFromSource nw R C img qe d pattern os "blue_e" = bayerChannel nw R C img (qe .B) d pattern os .B := by
    have h : colourOfChar 'B' = some .B := by decide
    simp [bayerChannelFromSource, Gen.bayerChannels, List.lookup, colourOfQeName, h]
  simp only [bayerFlatFromSource, bayerFlat, Gen.bayerFlattenTerms, List.foldl, hr, hg, hb]
  cases bayerChannel nw R C img (qe .R) d pattern os .R <;> cases bayerChannel nw R C img (qe .G) d pattern os .G <;>
    cases bayerChannel nw R C img (qe .B) d pattern os .B <;> rfl

/-- `flatten=False` returns the channels in the order (R, G, B), each with its own letter and efficiency (regenerated tuple) -/
theorem bayer_separate_follows_source {K} [Add K] [Mul K] [Zero K] [One K] (nw : Nat) (R C : Int) (img : Nat → Int → Int → K)
    (qe : Colour → Nat → K) (d : Int) (pattern : Int → Int → Colour) (os : Int) :
    bayerSeparateFromSource nw R C img qe d pattern os =
      [bayerChannel nw R C img (qe .R) d pattern os .R, bayerChannel nw R C img (qe .G) d pattern os .G,
       bayerChannel nw R C img (qe .B) d pattern os .B] := by
  have hR : colourOfChar 'R' = some .R := by decide
  have hG : colourOfChar 'G' = some .G := by decide
  have hB : colourOfChar 'B' = some .B := by decide
  simp [bayerSeparateFromSource, Gen.bayerSeparateOrder, Gen.bayerChannels, bayerChannelFromSource, List.lookup,
    colourOfQeName, hR, hG, hB]

/-- non-vacuity: a 2×2 RGGB pattern on a 4×4 image at oversampling 2 is accepted -/
example : (bayerFlat (K := Int) 1 4 4 (fun _ _ _ => 1) (fun _ _ => 1) 2 (fun a b => if a = b then (if a = 0 then .R else .B) else .G) 1).isSome = true := by
  decide

/-! ## adc -/

section adc
variable {K : Type} [Field K] [LinearOrder K] [FloorRing K]

/-- DN = max 0 ⌊Σ_d coef_d · x^(n-d)⌋ at `x` = electrons clipped to the saturation capacity; `coef` = the gain coefficients
that apply at the pixel (highest power first, no constant term) -/
theorem adc_value (cap : Option K) (gain : Gain K) (img : Int → Int → K) (i j : Int) :
    adcFrame Int.floor cap gain img i j =
      max 0 ⌊∑ d ∈ range (gain.at i j).length, (gain.at i j).getD d 0 *
        (match cap with | none => img i j | some c => min (img i j) c) ^ ((gain.at i j).length - d)⌋ := by
  unfold adcFrame
  rw [adcValue_eq_max, polyGain_eq_sum]
  cases cap with
  | none => rfl
  | some c => simp only [clipSat_eq_min]

omit [LinearOrder K] [FloorRing K] in
/-- the model's digitisation follows the source, step by step (regenerated, tools/specs/c16.py): saturate with
`np.where(img > cap, cap, img)`, apply the gain through the power cube and `einsum`, `np.floor` of exactly that image (no added
guard), clamp negatives to 0, cast last; the order comes from `gain.shape[0]` for 1-D/3-D gains and is 1 for 0-D/2-D; the einsum
subscripts sum over the power axis, per pixel for 2-D/3-D gains -/
theorem adc_matches_source :
    Gen.adcSteps = [("saturate", "np.where(img > saturation_capacity, saturation_capacity, img)"), ("gain", "power cube + einsum"),
                    ("floor", "img"), ("clamp", "img < 0 -> 0"), ("cast", "img.astype(dtype)")] ∧
    Gen.adcOrderSource = [(0, "1"), (1, "gain.shape[0]"), (2, "1"), (3, "gain.shape[0]")] ∧
    Gen.adcEinsum = [(1, "ijk,i->jk"), (2, "ijk,jk->jk"), (3, "ijk,ijk->jk")] := by decide

/-- the digitisation, run step by step in the order the SOURCE performs the steps (`Gen.adcSteps`: saturate, gain, floor, clamp,
cast — regenerated), is the model's `adcValue`: a reordering in the source (clamp before the gain, cast before the clamp, floor
before the gain …) makes the run ill-typed or a different number and this theorem fails -/
theorem adc_follows_source_steps (cap : Option K) (g : List K) (x : K) :
    adcFromSteps Int.floor cap g x = some (.inr (adcValue Int.floor cap g x)) := by
  simp [adcFromSteps, Gen.adcSteps, List.foldlM, adcStep, adcValue]

/-- the power cube built by the source's loop raises slice `d` of an order-`n` model to `n − d` (highest power first, the last
slice stays linear, there is no constant term) — about the regenerated loop bounds and exponent -/
theorem power_cube_exponent (n d : Int) (h0 : 0 ≤ d) (h1 : d < n) : Gen.adcCubeExponent n d = n - d := by
  unfold Gen.adcCubeExponent
  by_cases h : 1 < n - d
  · have h2 : n - d ≤ n := by omega
    simp [h, h2]
  · have : n - d = 1 := by omega
    simp [h, this]

/-- hence the gain polynomial of the model is the source's `einsum` over that power cube -/
theorem adc_value_uses_source_exponents (g : List K) (x : K) :
    polyGain g x = ∑ d ∈ range g.length, g.getD d 0 * x ^ (Gen.adcCubeExponent g.length d).toNat := by
  rw [polyGain_eq_sum]
  apply Finset.sum_congr rfl
  intro d hd
  have hd' : d < g.length := Finset.mem_range.mp hd
  rw [power_cube_exponent (g.length : Int) (d : Int) (by omega) (by omega)]
  congr 2
  omega

/-- the gain step wired from the regenerated tables (order source and einsum subscripts per `gain.ndim`, power-cube exponents) is
the model's gain polynomial, for all four gain forms: the hand dispatch `Gain.at`/`polyGain` and the source's dispatch agree -/
theorem gain_dispatch_matches_model (gain : Gain K) (x : K) (i j : Int) :
    gainFromSource gain x i j = some (polyGain (gain.at i j) x) := by
  have hsum : ∀ g : List K, (sumRange g.length fun d => npow x (Gen.adcCubeExponent g.length d).toNat * g.getD d 0) = polyGain g x := by
    intro g
    rw [adc_value_uses_source_exponents, sumRange_eq_sum]
    apply Finset.sum_congr rfl
    intro d _
    rw [Det.npow_eq_pow, mul_comm]
  cases gain with
  | scalar g =>
    have h := hsum [g]
    simp only [List.length_singleton] at h
    simp only [gainFromSource, Gain.ndim, Gain.at, Gen.adcOrderSource, Gen.adcEinsum, List.lookup, einsumAt]
    simpa using congrArg some h
  | poly g =>
    have h := hsum g
    simp only [gainFromSource, Gain.ndim, Gain.at, Gen.adcOrderSource, Gen.adcEinsum, List.lookup, einsumAt]
    simpa using congrArg some h
  | perPixel g =>
    have h := hsum [g i j]
    simp only [List.length_singleton] at h
    simp only [gainFromSource, Gain.ndim, Gain.at, Gen.adcOrderSource, Gen.adcEinsum, List.lookup, einsumAt]
    simpa [sumRange] using congrArg some h
  | perPixelPoly n g =>
    have h := hsum ((List.range n).map fun d => g d i j)
    simp only [gainFromSource, Gain.ndim, Gain.at, Gen.adcOrderSource, Gen.adcEinsum, List.lookup, einsumAt]
    simpa using congrArg some h

/-- the regenerated gain dispatch of `adc` (`if gain.ndim in [0, 2] … elif gain.ndim in [1, 3] … else: raise ValueError`) knows exactly the
ranks 0..3 — the four documented gain forms; a gain array of any higher rank is refused -/
theorem adc_gain_rank_dispatch (n : Nat) : (Gen.adcOrderSource.lookup n).isSome = true ↔ n ≤ 3 := by
  rcases n with _ | _ | _ | _ | n
  · decide
  · decide
  · decide
  · decide
  · simp [Gen.adcOrderSource, List.lookup]

/-- the four gain forms: a scalar and a per-pixel gain multiply the (clipped) count; a coefficient vector and a per-pixel
coefficient cube are the polynomial `Σ_d g[d]·x^(n-d)` -/
theorem adc_gain_forms (g : K) (gl : List K) (gp : Int → Int → K) (n : Nat) (gc : Nat → Int → Int → K) (x : K) (i j : Int) :
    polyGain ((Gain.scalar g).at i j) x = g * x ∧
    polyGain ((Gain.poly gl).at i j) x = ∑ d ∈ range gl.length, gl.getD d 0 * x ^ (gl.length - d) ∧
    polyGain ((Gain.perPixel gp).at i j) x = gp i j * x ∧
    polyGain ((Gain.perPixelPoly n gc).at i j) x = ∑ d ∈ range n, gc d i j * x ^ (n - d) := by
  refine ⟨by simp [Gain.at, polyGain, npow], polyGain_eq_sum _ _, by simp [Gain.at, polyGain, npow], ?_⟩
  rw [polyGain_eq_sum]
  simp only [Gain.at, List.length_map, List.length_range]
  apply Finset.sum_congr rfl
  intro d hd
  have hd' : d < n := Finset.mem_range.mp hd
  simp [List.getD_eq_getElem?_getD, hd']

/-- never negative -/
theorem adc_nonneg (cap : Option K) (gain : Gain K) (img : Int → Int → K) (i j : Int) :
    0 ≤ adcFrame Int.floor cap gain img i j := by
  unfold adcFrame; rw [adcValue_eq_max]; exact le_max_left _ _

/-- digitisation never rounds up: a gain-polynomial value below a whole number `n > 0` of DN — by however little — gives fewer
than `n` DN, and the DN never exceed the value (no "round-off guard" can be part of the floor) -/
theorem adc_never_rounds_up (cap : Option K) (g : List K) (x : K) (n : Int) (hn : 0 < n)
    (h : polyGain g (clipSat cap x) < (n : K)) :
    adcValue Int.floor cap g x < n ∧ ((adcValue Int.floor cap g x : Int) : K) ≤ max 0 (polyGain g (clipSat cap x)) := by
  rw [adcValue_eq_max]
  constructor
  · exact max_lt hn (Int.floor_lt.mpr h)
  · rcases le_total 0 ⌊polyGain g (clipSat cap x)⌋ with h0 | h0
    · rw [max_eq_right h0]; exact le_trans (Int.floor_le _) (le_max_right _ _)
    · rw [max_eq_left h0]; simp

/-- non-decreasing in the input for every gain curve that is non-decreasing on the counts that can reach it — `[0, cap]`
with a saturation capacity, `[0, ∞)` without — whatever the signs of its coefficients (compressive curves with a negative
quadratic term included): hypothesis on the curve, not on the coefficients -/
theorem adc_monotone [IsStrictOrderedRing K] (cap : Option K) (g : List K)
    (hmono : ∀ a b, 0 ≤ a → a ≤ b → (∀ c, cap = some c → b ≤ c) → polyGain g a ≤ polyGain g b)
    (hcap : ∀ c, cap = some c → 0 ≤ c) {x y : K} (hx : 0 ≤ x) (hxy : x ≤ y) :
    adcValue Int.floor cap g x ≤ adcValue Int.floor cap g y := by
  rw [adcValue_eq_max, adcValue_eq_max]
  apply max_le_max (le_refl _)
  apply Int.floor_mono
  apply hmono _ _ _ (clipSat_mono cap hxy)
  · intro c hc; subst hc; rw [clipSat_eq_min]; exact min_le_right _ _
  · cases cap with
    | none => simpa [clipSat]
    | some c => rw [clipSat_eq_min]; exact le_min hx (hcap c rfl)

/-- the DN never exceed the digitised capacity: for a gain curve non-decreasing on `[0, c]` and non-negative counts,
`adc ≤ max 0 ⌊gain(c)⌋` — the bound that makes "representable in the requested output type" a checkable condition on the capacity -/
theorem adc_le_at_cap [IsStrictOrderedRing K] (c : K) (g : List K)
    (hmono : ∀ a b, 0 ≤ a → a ≤ b → b ≤ c → polyGain g a ≤ polyGain g b) (hc : 0 ≤ c) {x : K} (hx : 0 ≤ x) :
    adcValue Int.floor (some c) g x ≤ max 0 ⌊polyGain g c⌋ := by
  rw [adcValue_eq_max, clipSat_eq_min]
  apply max_le_max (le_refl _)
  apply Int.floor_mono
  exact hmono _ _ (le_min hx hc) (min_le_right _ _) (le_refl _)

/-- non-vacuity of `adc_le_at_cap`: the compressive curve `2x − x²/64` with capacity 64 never reads more than `⌊gain(64)⌋ = 64` DN -/
example (x : ℚ) (hx : 0 ≤ x) : adcValue Int.floor (some (64 : ℚ)) [-(1 / 64 : ℚ), 2] x ≤ 64 := by
  have h := adc_le_at_cap (K := ℚ) 64 [-(1 / 64 : ℚ), 2] (fun a b _ hab hb => by
    simp only [polyGain, npow, List.length_cons, List.length_nil]
    nlinarith [mul_nonneg (sub_nonneg.mpr hab) (sub_nonneg.mpr (by linarith : a + b ≤ 128))]) (by norm_num) hx
  have e : max 0 ⌊polyGain [-(1 / 64 : ℚ), 2] (64 : ℚ)⌋ = 64 := by norm_num [polyGain, npow]
  rw [e] at h; exact h

/-- in particular for gain curves with non-negative coefficients -/
theorem adc_monotone_nonneg_coeffs [IsStrictOrderedRing K] (cap : Option K) (g : List K) (hg : ∀ c ∈ g, 0 ≤ c) (hcap : ∀ c, cap = some c → 0 ≤ c)
    {x y : K} (hx : 0 ≤ x) (hxy : x ≤ y) :
    adcValue Int.floor cap g x ≤ adcValue Int.floor cap g y :=
  adc_monotone cap g (fun _ _ ha hab _ => polyGain_mono g hg ha hab) hcap hx hxy

/-- non-vacuity of `adc_monotone` beyond non-negative coefficients: the compressive curve `2x − x²/64` is non-decreasing on `[0, 64]` -/
example (a b : ℚ) (_ha : 0 ≤ a) (hab : a ≤ b) (hb : b ≤ 64) : polyGain [-(1 / 64 : ℚ), 2] a ≤ polyGain [-(1 / 64 : ℚ), 2] b := by
  simp only [polyGain, npow, List.length_cons, List.length_nil]
  nlinarith [mul_nonneg (sub_nonneg.mpr hab) (sub_nonneg.mpr (by linarith : a + b ≤ 128))]

/-- … and for a (scalar or per-pixel) linear gain `g ≥ 0` on all counts, negative ones included -/
theorem adc_monotone_linear [IsStrictOrderedRing K] (cap : Option K) (g : K) (hg : 0 ≤ g) {x y : K} (hxy : x ≤ y) :
    adcValue Int.floor cap [g] x ≤ adcValue Int.floor cap [g] y := by
  rw [adcValue_eq_max, adcValue_eq_max]
  apply max_le_max (le_refl _)
  apply Int.floor_mono
  simp only [polyGain, npow, List.length_nil, one_mul, add_zero]
  exact mul_le_mul_of_nonneg_left (clipSat_mono cap hxy) hg

/-- why `adc_monotone` needs `0 ≤ x`: a gain curve with an even power is not increasing on negative counts -/
example : adcValue (K := ℚ) Int.floor (some 10) [1, 0] (-3) > adcValue (K := ℚ) Int.floor (some 10) [1, 0] 0 := by
  norm_num [adcValue, polyGain, npow, clipSat]

/-- the driver runs the model with core `Rat.floor`; on ℚ that is `Int.floor` -/
theorem driver_floor_is_floor (q : ℚ) : Rat.floor q = ⌊q⌋ := rfl

/-- the saturation warning is emitted exactly when it was requested, a capacity is set and some pixel exceeds it -/
theorem adc_warns_iff_exceeds (warn : Bool) (cap : Option K) (img : Img K) :
    adcWarns warn cap img = true ↔
      warn = true ∧ ∃ c, cap = some c ∧ ∃ i j, 0 ≤ i ∧ i < img.s0 ∧ 0 ≤ j ∧ j < img.s1 ∧ c < img.get i j := by
  cases cap with
  | none => simp [adcWarns]
  | some c =>
    simp only [adcWarns, Bool.and_eq_true, List.any_eq_true, decide_eq_true_eq, Option.some.injEq, exists_eq_left']
    constructor
    · rintro ⟨hw, p, hp, hc⟩
      rw [mem_idx] at hp
      exact ⟨hw, p.1, p.2, hp.1, hp.2.1, hp.2.2.1, hp.2.2.2, hc⟩
    · rintro ⟨hw, i, j, h1, h2, h3, h4, hc⟩
      exact ⟨hw, (i, j), (mem_idx _ _ _).mpr ⟨h1, h2, h3, h4⟩, hc⟩

/-- a pixel that does not exceed the capacity is digitised as if there were no capacity; one that does, as the capacity -/
theorem adc_clip_cases (c : K) (g : List K) (x : K) :
    adcValue Int.floor (some c) g x = if c < x then adcValue Int.floor none g c else adcValue Int.floor none g x := by
  by_cases h : c < x <;> simp only [adcValue, clipSat, h, if_true, if_false] <;> rfl

/-- saturation: every count above the capacity is digitised like the capacity itself — all saturated pixels read the same DN -/
theorem adc_saturated_pixels_agree (c : K) (g : List K) {x y : K} (hx : c < x) (hy : c < y) :
    adcValue Int.floor (some c) g x = adcValue Int.floor (some c) g y ∧
    adcValue Int.floor (some c) g x = adcValue Int.floor none g c := by
  rw [adc_clip_cases c g x, adc_clip_cases c g y, if_pos hx, if_pos hy]; exact ⟨rfl, rfl⟩

end adc

/-- input frame untouched (regenerated part): the effect-site scan of the current source (Gen/Effects.lean, see C10) finds no
in-place write site on any parameter of `adc`, `collect_charge`, `collect_charge_bayer`, `qe_asarray`, and no use of shared state.
(That NumPy really leaves the frame alone is observed by the correspondence: read-only, byte-snapshotted frames.) -/
theorem adc_has_no_write_site :
    (Gen.effTable.filter fun r => ["detector.adc", "detector.collect_charge", "detector.collect_charge_bayer", "detector.qe_asarray"].contains r.fn).map
        (fun r => (r.fn, r.writes, r.cacheWrites, r.globalWrites, r.globalRng)) =
      [("detector.adc", [], [], [], false), ("detector.collect_charge", [], [], [], false),
       ("detector.collect_charge_bayer", [], [], [], false), ("detector.qe_asarray", [], [], [], false)] := by decide +kernel

end Lentil.C16
