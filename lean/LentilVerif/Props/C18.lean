import LentilVerif.Model.Stochastic
import LentilVerif.Lemmas.Detector
import LentilVerif.Gen.Effects
import LentilVerif.Gen.PowerSpectrum
import LentilVerif.Gen.ShotDark
import Mathlib.Tactic.FieldSimp
/-! # C18 — stochastic models are reproducible from their seed and physically bounded

**Partial by nature.** Each function is modelled as a deterministic wrapper around an *uninterpreted sampler* (contract:
NumPy's `Generator.poisson/normal/lognormal` are pure functions of the generator state and their parameters; Poisson draws
are non-negative integers). The theorems are about the wrappers. Distributional clauses (means, variances, "different
seeds give different draws") are facts about NumPy's generators: they have no theorem and are sampled as assumption
checks by tools/harness/c18.py. -/
set_option linter.unusedSectionVars false
namespace Lentil.C18
open Lentil Lentil.Stoch Finset

section
variable {K : Type} [Field K] [LinearOrder K] [IsStrictOrderedRing K]

/-- Poisson shot noise is a non-negative integer at every pixel (integer by type; non-negative by the sampler's contract) -/
theorem shot_noise_support (lamMax : K) (draw : Int → Nat → K → Int) (hdraw : ∀ s i lam, 0 ≤ draw s i lam)
    (seed : Int) (n : Nat) (img : Nat → K) (v : Nat → Int) (h : shotPoisson lamMax draw seed n img = some v) (i : Nat) : 0 ≤ v i := by
  unfold shotPoisson at h
  split_ifs at h
  simp only [Option.some.injEq] at h
  rw [← h]; exact hdraw _ _ _

/-- both methods reject a frame exactly when it has a negative count or a count above the largest representable mean
(`ValueError`), and only then -/
theorem shot_noise_rejects_negative_and_huge (lamMax : K) (draw : Int → Nat → K → Int) (sqrt : K → K) (trunc : K → Int)
    (z : Int → Nat → K) (seed : Int) (n : Nat) (img : Nat → K) :
    (shotPoisson lamMax draw seed n img = none ↔ ∃ i, i < n ∧ (img i < 0 ∨ lamMax < img i)) ∧
    (shotGaussian lamMax sqrt trunc z seed n img = none ↔ ∃ i, i < n ∧ (img i < 0 ∨ lamMax < img i)) := by
  constructor
  · unfold shotPoisson
    split_ifs with h
    · simp only [List.any_eq_true, List.mem_range, Bool.or_eq_true, decide_eq_true_eq] at h
      simpa using h
    · simp only [List.any_eq_true, List.mem_range, Bool.or_eq_true, decide_eq_true_eq] at h
      simpa using h
  · unfold shotGaussian
    split_ifs with h
    · simp only [List.any_eq_true, List.mem_range, Bool.or_eq_true, decide_eq_true_eq] at h
      simpa using h
    · simp only [List.any_eq_true, List.mem_range, Bool.or_eq_true, decide_eq_true_eq] at h
      simpa using h

/-- **tie to the source guards** (regenerated from `shot_noise`: `Gen.shotGuardPoisson` = the tests of the `except ValueError` chain,
`Gen.shotGuardGaussian` = the tests before the draw, each on `np.min(img)` / `np.max(img)` with the literal bound of the source):
for a frame whose minimum is `mn` and maximum `mx`, the source refuses exactly when the model does, the model's largest
representable mean being the literal `9.223372006484771e18` of the source — a changed comparison, reduction or bound breaks this proof -/
theorem shot_guards_follow_source (lit : Nat → Bool → Nat → K) (draw : Int → Nat → K → Int) (sqrt : K → K) (trunc : K → Int)
    (z : Int → Nat → K) (seed : Int) (n : Nat) (img : Nat → K) (mn mx : K)
    (hmn : (∃ i, i < n ∧ img i = mn) ∧ ∀ i, i < n → mn ≤ img i) (hmx : (∃ i, i < n ∧ img i = mx) ∧ ∀ i, i < n → img i ≤ mx) :
    (Gen.shotGuardPoisson lit mn mx = true ↔ shotPoisson (lit 9223372006484771 false 3) draw seed n img = none) ∧
    (Gen.shotGuardGaussian lit mn mx = true ↔ shotGaussian (lit 9223372006484771 false 3) sqrt trunc z seed n img = none) := by
  have key : (decide (mn < 0) || decide (lit 9223372006484771 false 3 < mx)) = true ↔
      ∃ i, i < n ∧ (img i < 0 ∨ lit 9223372006484771 false 3 < img i) := by
    simp only [Bool.or_eq_true, decide_eq_true_eq]
    constructor
    · rintro (h | h)
      · obtain ⟨i, hi, e⟩ := hmn.1; exact ⟨i, hi, Or.inl (e ▸ h)⟩
      · obtain ⟨i, hi, e⟩ := hmx.1; exact ⟨i, hi, Or.inr (e ▸ h)⟩
    · rintro ⟨i, hi, h | h⟩
      · exact Or.inl (lt_of_le_of_lt (hmn.2 i hi) h)
      · exact Or.inr (lt_of_lt_of_le h (hmx.2 i hi))
  have h := shot_noise_rejects_negative_and_huge (lit 9223372006484771 false 3) draw sqrt trunc z seed n img
  exact ⟨by rw [h.1]; exact key, by rw [h.2]; exact key⟩

/-- non-vacuity, and the bound read as a number: at the rationals the regenerated Gaussian guard refuses a frame of maximum `mx`
(minimum 0) exactly when `mx` exceeds 9223372006484771000 (the largest mean NumPy's Poisson sampler accepts) -/
theorem shot_guard_bound_value (mx : ℚ) :
    Gen.shotGuardGaussian (fun m b e => (OfScientific.ofScientific m b e : ℚ)) 0 mx = decide ((9223372006484771000 : ℚ) < mx) := by
  simp only [Gen.shotGuardGaussian, lt_self_iff_false, decide_false, Bool.false_or]
  norm_num

/-- Gaussian shot noise is non-negative whenever the normal draw is not below `-sqrt(count)` (always, in the documented
large-count regime); `sqrt`/`trunc` contracts as hypotheses -/
theorem shot_gaussian_support (lamMax : K) (sqrt : K → K) (trunc : K → Int) (z : Int → Nat → K)
    (hsq : ∀ y, 0 ≤ y → sqrt y * sqrt y = y ∧ 0 ≤ sqrt y) (htr : ∀ y, 0 ≤ y → 0 ≤ trunc y)
    (seed : Int) (n : Nat) (img : Nat → K) (v : Nat → Int) (h : shotGaussian lamMax sqrt trunc z seed n img = some v)
    (i : Nat) (hi : i < n) (hz : -(sqrt (img i)) ≤ z seed i) : 0 ≤ v i := by
  unfold shotGaussian at h
  split_ifs at h with hg
  simp only [Option.some.injEq] at h
  rw [← h]
  apply htr
  have hpos : 0 ≤ img i := by
    by_contra hneg
    exact hg (List.any_eq_true.mpr ⟨i, List.mem_range.mpr hi, by simp [not_le.mp hneg]⟩)
  obtain ⟨h1, h2⟩ := hsq (img i) hpos
  nlinarith [mul_le_mul_of_nonneg_left hz h2]

/-- the documented regime, unconditionally: a normal draw within `k` standard deviations on a count of at least `k²` gives a
non-negative result (for the documented `count > 1000` that is every draw within 31 σ) -/
theorem shot_gaussian_nonneg_in_regime (lamMax : K) (sqrt : K → K) (trunc : K → Int) (z : Int → Nat → K)
    (hsq : ∀ y, 0 ≤ y → sqrt y * sqrt y = y ∧ 0 ≤ sqrt y) (htr : ∀ y, 0 ≤ y → 0 ≤ trunc y)
    (seed : Int) (n : Nat) (img : Nat → K) (v : Nat → Int) (h : shotGaussian lamMax sqrt trunc z seed n img = some v)
    (i : Nat) (hi : i < n) (k : K) (hk : 0 ≤ k) (hz : -k ≤ z seed i) (hreg : k * k ≤ img i) : 0 ≤ v i := by
  apply shot_gaussian_support lamMax sqrt trunc z hsq htr seed n img v h i hi
  have hpos : 0 ≤ img i := le_trans (mul_nonneg hk hk) hreg
  obtain ⟨h1, h2⟩ := hsq (img i) hpos
  have hks : k ≤ sqrt (img i) := by
    by_contra hlt
    have hlt' : sqrt (img i) < k := not_le.mp hlt
    have : sqrt (img i) * sqrt (img i) < k * k := mul_lt_mul'' hlt' hlt' h2 h2
    rw [h1] at this; exact absurd hreg (not_le.mpr this)
  linarith

example : shotGaussian (K := ℚ) 100 (fun y => y) (fun _ => 0) (fun _ _ => 0) 0 2 (fun i => if i = 0 then 4 else -1) = none := by
  decide +kernel

/-- **tie to the source line** (regenerated from `read_noise`: `Gen.readNoiseFrame` = `img + rng.normal(loc=0.0, scale=electrons,
size=img.shape)` with the draw written `loc + scale·z`): the model read noise is that expression at every pixel — a changed `loc`,
`scale` or sign of the sum breaks this proof -/
theorem read_noise_follows_source (lit : Nat → Bool → Nat → K) (z : Int → Nat → K) (e : K) (seed : Int) (img : Nat → K) (i : Nat) :
    readNoise z e seed img i = Gen.readNoiseFrame lit (img i) (z seed i) e := by
  simp [readNoise, Gen.readNoiseFrame]

/-- read noise is additive and independent of the signal; with zero read noise the frame is returned unchanged -/
theorem read_noise_additive (z : Int → Nat → K) (e : K) (seed : Int) (img : Nat → K) (i : Nat) :
    readNoise z e seed img i - img i = e * z seed i ∧ readNoise z 0 seed img i = img i := by
  unfold readNoise; constructor <;> ring

variable [FloorRing K]

/-- a dark frame without pattern noise equals `floor(rate)` at every pixel, whatever the seed -/
theorem dark_no_fpn_eq_floor_rate (fpn : Int → Nat → K) (rate f : K) (hf : ¬ 0 < f) (seed : Int) (i : Nat) :
    darkCurrent Int.floor fpn rate f seed i = ⌊rate⌋ := by
  simp [darkCurrent, hf]

/-- … and the floor is exact: the pattern-free dark level never exceeds the rate, however close the rate is to the next electron -/
theorem dark_never_rounds_up (fpn : Int → Nat → K) (rate f : K) (hf : ¬ 0 < f) (seed : Int) (i : Nat) (n : Int) (h : rate < (n : K)) :
    darkCurrent Int.floor fpn rate f seed i < n ∧ ((darkCurrent Int.floor fpn rate f seed i : Int) : K) ≤ rate := by
  rw [dark_no_fpn_eq_floor_rate fpn rate f hf]
  exact ⟨Int.floor_lt.mpr h, Int.floor_le _⟩

/-- **tie to the source frame** (regenerated from `dark_current`: `Gen.darkUsesFpn` = the test `fpn_factor > 0`, `Gen.darkFloorArg` =
the argument of `np.floor`): the model dark frame is the floor of the source expression with the draw, or the constant 1, as pattern -/
theorem dark_follows_source (fpn : Int → Nat → K) (rate f : K) (seed : Int) (i : Nat) :
    darkCurrent Int.floor fpn rate f seed i = ⌊Gen.darkFloorArg rate 1 (if Gen.darkUsesFpn f = true then fpn seed i else 1)⌋ := by
  by_cases h : 0 < f <;> simp [darkCurrent, Gen.darkUsesFpn, Gen.darkFloorArg, h]

/-- the Rule-07 rate as the source computes it (regenerated) is proportional to the pixel AREA: a pixel `c` times larger collects
`c²` times the dark current, at every temperature and cut-off wavelength (a statement about the translated expression, so an edit
of the area or unit-conversion factors in the source is seen here) -/
theorem rule07_rate_scales_with_pixel_area (exp : K → K) (pow : K → K → K) (lit : Nat → Bool → Nat → K) (T cw px c : K) :
    rule07Rate exp pow lit T cw (c * px) = c * c * rule07Rate exp pow lit T cw px := by
  simp only [rule07Rate, Gen.rule07Rate]
  ring

/-- composition: without pattern noise the Rule-07 dark frame is the floor of the rate **as the source computes it** (regenerated
`Gen.rule07Rate` through `rule07Rate`), at every pixel and for every seed -/
theorem rule07_no_fpn_is_floor_of_source_rate (exp : K → K) (pow : K → K → K) (lit : Nat → Bool → Nat → K) (fpn : Int → Nat → K)
    (T cw px f : K) (hf : ¬ 0 < f) (seed : Int) (i : Nat) :
    rule07Dark Int.floor fpn (rule07Rate exp pow lit T cw px) f seed i = ⌊Gen.rule07Rate exp pow lit T cw px⌋ := by
  simp [rule07Dark, darkCurrent, hf, rule07Rate]

/-- with pattern noise the frame is `floor(rate · fpn)`: non-negative for a non-negative rate (lognormal draws are positive) -/
theorem dark_fpn_nonneg (fpn : Int → Nat → K) (hfpn : ∀ s i, 0 < fpn s i) (rate f : K) (hr : 0 ≤ rate) (seed : Int) (i : Nat) :
    0 ≤ darkCurrent Int.floor fpn rate f seed i := by
  unfold darkCurrent
  split_ifs
  · exact Int.floor_nonneg.mpr (by have := hfpn seed i; positivity)
  · exact Int.floor_nonneg.mpr (by simpa using hr)
/-- the Rule-07 dark frame is the `dark_current` frame of its rate **for the same seed**: its fixed-pattern noise is the
lognormal draw of that seed (so two calls with equal arguments and seed agree), and without pattern noise it is `floor(rate)` -/
theorem rule07_forwards_seed (fpn : Int → Nat → K) (rate f : K) (seed : Int) (i : Nat) :
    -- regenerated call site: `rule07_dark_current` passes its own `seed` in `dark_current`'s seed position
    (Gen.effTable.filter fun r => r.fn == "detector.rule07_dark_current").map (·.seedForward) = [[("detector.dark_current", "seed")]] ∧
    rule07Dark Int.floor fpn rate f seed i = darkCurrent Int.floor fpn rate f seed i ∧
    (0 < f → rule07Dark Int.floor fpn rate f seed i = ⌊rate * fpn seed i⌋) ∧
    (¬ 0 < f → rule07Dark Int.floor fpn rate f seed i = ⌊rate⌋) := by
  refine ⟨by decide +kernel, rfl, fun h => by simp [rule07Dark, darkCurrent, h], fun h => by simp [rule07Dark, darkCurrent, h]⟩
end

/-! ## power_spectrum -/

section
variable {K : Type} [Field K] [DecidableEq K]

/-- a surface-error map is zero outside its mask -/
theorem power_spectrum_zero_outside_mask (sqrt : K → K) (rms : K) (mask : Nat → K) (x : Int → Nat → K) (seed : Int) (n i : Nat)
    (hm : mask i = 0) : powerSpectrum (fun y => decide (y ≠ 0)) sqrt (· / ·) (fun k => (k : K)) rms mask x seed n i = 0 := by
  simp [powerSpectrum, Gen.psMaskStep, Gen.psNormalise, hm]

/-- … with exactly the requested RMS over its non-zero pixels: the mean square over them is `rms²`, for every mask shape
(`rms(x·s) = target` for `s = target/rms(x)`). `sqrt` contract as hypothesis; `hS`: the masked noise is not identically 0. -/
theorem power_spectrum_rms_exact [LinearOrder K] [IsStrictOrderedRing K] (sqrt : K → K) (hsq : ∀ y, 0 ≤ y → sqrt y * sqrt y = y)
    (rms : K) (mask : Nat → K) (x : Int → Nat → K) (seed : Int) (n : Nat)
    (hS : (∑ i ∈ range n, (x seed i * mask i) * (x seed i * mask i)) ≠ 0) :
    (∑ i ∈ range n, powerSpectrum (fun y => decide (y ≠ 0)) sqrt (· / ·) (fun k => (k : K)) rms mask x seed n i ^ 2)
      = (countNonzero (fun y => decide (y ≠ 0)) n (fun i => x seed i * mask i) : K) * rms ^ 2 := by
  simp only [powerSpectrum, Gen.psMaskStep, Gen.psNormalise, sumRange_eq_sum]
  set S := ∑ i ∈ range n, (x seed i * mask i) * (x seed i * mask i) with hSdef
  set c : K := (countNonzero (fun y => decide (y ≠ 0)) n (fun i => x seed i * mask i) : K)
  have hSpos : 0 ≤ S := Finset.sum_nonneg fun i _ => mul_self_nonneg _
  have hc : 0 ≤ c := Nat.cast_nonneg _
  have hs := hsq (c / S) (div_nonneg hc hSpos)
  have : ∀ i, (x seed i * mask i * sqrt (c / S) * rms) ^ 2 = ((x seed i * mask i) * (x seed i * mask i)) * ((sqrt (c / S) * sqrt (c / S)) * rms ^ 2) := by
    intro i; ring
  simp only [this, ← Finset.sum_mul, hs]
  rw [← hSdef]
  field_simp

/-- … over the **mask**: for a binary mask and filtered noise that is non-zero on it (probability 1), the count the code uses
(`count_nonzero(opd)`) is the number of mask pixels, so the mean square of the surface over the mask is exactly `rms²` -/
theorem power_spectrum_rms_over_mask [LinearOrder K] [IsStrictOrderedRing K] (sqrt : K → K) (hsq : ∀ y, 0 ≤ y → sqrt y * sqrt y = y)
    (rms : K) (mask : Nat → K) (x : Int → Nat → K) (seed : Int) (n : Nat)
    (hbin : ∀ i, i < n → mask i = 0 ∨ mask i = 1) (hx : ∀ i, i < n → mask i = 1 → x seed i ≠ 0)
    (hne : ∃ i, i < n ∧ mask i = 1) :
    countNonzero (fun y => decide (y ≠ 0)) n (fun i => x seed i * mask i) = ((List.range n).filter fun i => decide (mask i = 1)).length ∧
    (∑ i ∈ range n, powerSpectrum (fun y => decide (y ≠ 0)) sqrt (· / ·) (fun k => (k : K)) rms mask x seed n i ^ 2)
      = (((List.range n).filter fun i => decide (mask i = 1)).length : K) * rms ^ 2 := by
  have hcount : countNonzero (fun y => decide (y ≠ 0)) n (fun i => x seed i * mask i)
      = ((List.range n).filter fun i => decide (mask i = 1)).length := by
    unfold countNonzero
    congr 1
    apply List.filter_congr
    intro i hi
    have hi' : i < n := List.mem_range.mp hi
    rcases hbin i hi' with h0 | h1
    · simp [h0]
    · simp [h1, hx i hi' h1]
  refine ⟨hcount, ?_⟩
  rw [← hcount]
  apply power_spectrum_rms_exact sqrt hsq
  obtain ⟨i, hi, hm⟩ := hne
  have hpos : 0 < (x seed i * mask i) * (x seed i * mask i) := by
    rw [hm, mul_one]; exact mul_self_pos.mpr (hx i hi hm)
  have hle : (x seed i * mask i) * (x seed i * mask i) ≤ ∑ j ∈ range n, (x seed j * mask j) * (x seed j * mask j) :=
    Finset.single_le_sum (f := fun j => (x seed j * mask j) * (x seed j * mask j)) (fun j _ => mul_self_nonneg _) (Finset.mem_range.mpr hi)
  exact ne_of_gt (lt_of_lt_of_le hpos hle)

/-- the surface scales linearly with the requested RMS (and nothing else depends on it) -/
theorem power_spectrum_homogeneous (sqrt : K → K) (rms k : K) (mask : Nat → K) (x : Int → Nat → K) (seed : Int) (n i : Nat) :
    powerSpectrum (fun y => decide (y ≠ 0)) sqrt (· / ·) (fun k => (k : K)) (k * rms) mask x seed n i
      = k * powerSpectrum (fun y => decide (y ≠ 0)) sqrt (· / ·) (fun k => (k : K)) rms mask x seed n i := by
  simp only [powerSpectrum, Gen.psMaskStep, Gen.psNormalise]; ring

/-- the normalisation of the noise filter cannot matter: multiplying the filtered noise by any `c > 0` (another PSD normalisation,
the `sqrt(m·n)` factor, a different FFT norm) returns the same surface — for a `sqrt` that is homogeneous on positive scales -/
theorem power_spectrum_invariant_under_noise_scale [LinearOrder K] [IsStrictOrderedRing K] (sqrt : K → K)
    (hsc : ∀ y c : K, 0 < c → sqrt (y / (c * c)) = sqrt y / c) (rms c : K) (hc : 0 < c) (mask : Nat → K) (x : Int → Nat → K)
    (seed : Int) (n i : Nat) :
    powerSpectrum (fun y => decide (y ≠ 0)) sqrt (· / ·) (fun k => (k : K)) rms mask (fun sd j => c * x sd j) seed n i =
      powerSpectrum (fun y => decide (y ≠ 0)) sqrt (· / ·) (fun k => (k : K)) rms mask x seed n i := by
  have hc0 : c ≠ 0 := ne_of_gt hc
  have hcount : countNonzero (fun y => decide (y ≠ 0)) n (fun j => c * x seed j * mask j) =
      countNonzero (fun y => decide (y ≠ 0)) n (fun j => x seed j * mask j) := by
    unfold countNonzero
    congr 1; apply List.filter_congr; intro j _
    have : c * x seed j * mask j = 0 ↔ x seed j * mask j = 0 := by
      rw [mul_assoc]; exact ⟨fun h => (mul_eq_zero.mp h).resolve_left hc0, fun h => by rw [h, mul_zero]⟩
    simp [this]
  have hsum : (∑ j ∈ range n, (c * x seed j * mask j) * (c * x seed j * mask j)) =
      (c * c) * ∑ j ∈ range n, (x seed j * mask j) * (x seed j * mask j) := by
    rw [Finset.mul_sum]; apply Finset.sum_congr rfl; intro j _; ring
  simp only [powerSpectrum, Gen.psMaskStep, Gen.psNormalise, sumRange_eq_sum, hcount, hsum]
  rw [show ((countNonzero (fun y => decide (y ≠ 0)) n (fun j => x seed j * mask j) : ℕ) : K) /
        (c * c * ∑ j ∈ range n, (x seed j * mask j) * (x seed j * mask j)) =
      (((countNonzero (fun y => decide (y ≠ 0)) n (fun j => x seed j * mask j) : ℕ) : K) /
        ∑ j ∈ range n, (x seed j * mask j) * (x seed j * mask j)) / (c * c) by rw [div_div, mul_comm], hsc _ c hc]
  field_simp

/-- once a map has mean square `rms²` over its `c` non-zero pixels, normalising it again multiplies it by exactly 1 — the
normalisation the code applies is a projection (this is what the correspondence op `st.power` checks on the returned map) -/
theorem power_spectrum_fixed_point [LinearOrder K] [IsStrictOrderedRing K] (sqrt : K → K) (hsqr : ∀ y, 0 ≤ y → sqrt (y * y) = y)
    (c rms : K) (hc : 0 < c) (hr : 0 < rms) : sqrt (c / (c * rms ^ 2)) * rms = 1 := by
  have e : c / (c * rms ^ 2) = (1 / rms) * (1 / rms) := by field_simp
  rw [e, hsqr _ (by positivity)]; field_simp
end

/-! ## power_spectrum: index bookkeeping regenerated from wfe.py (Gen/PowerSpectrum.lean) -/

/-- (a PIN on regenerated text: the numeric model works on the flattened map and does not consume these shapes) the frequency grid /
filter and the noise array both have the mask's (rows, cols) shape, square or not — stated about
the shapes **as the source builds them** (`n, m = mask.shape; mgrid[0:n, 0:m]; normal(size=[n, m])`, re-read on every run):
swapping rows and columns anywhere changes a generated definition and this stops checking -/
theorem filter_shape_eq_mask_shape (rows cols : Int) :
    Gen.psGridShape rows cols = (rows, cols) ∧ Gen.psNoiseShape rows cols = Gen.psGridShape rows cols := ⟨rfl, rfl⟩

/-- each axis of the frequency grid is centred on index `⌊len/2⌋ + 1` of **its own** length and normalised by it
(cycles per pixel along rows use the row count, along columns the column count) -/
theorem frequency_grid_per_axis (rows cols i j : Int) :
    Gen.psFreqRow rows cols i j = (i - (rows / 2 + 1), rows) ∧ Gen.psFreqCol rows cols i j = (j - (cols / 2 + 1), cols) := ⟨rfl, rfl⟩

/-! ## reproducibility -/

/-- every seeded model is a function of its arguments and seed only (regenerated part, read off the source on every run):
EVERY function with a parameter named `seed` (the filter is on the signature, `takesSeed`) either builds its generator as `default_rng(seed)` — the bare parameter, nothing derived
from it (`seed % 2**32`, `seed or 0`, no argument) — or hands `seed` on unchanged to such a function (`rule07_dark_current →
dark_current`); none of them touches the global generator, a cache or a module global, or writes an argument in place;
in the model the wrappers take the sampler, the seed and the arguments and nothing else -/
theorem seeded_is_function_of_args :
    (Gen.effTable.filter fun r => r.takesSeed).map (fun r => (r.fn, r.rngArgs, r.seedForward)) =
      [("detector.dark_current", ["seed"], []), ("detector.read_noise", ["seed"], []),
       ("detector.rule07_dark_current", [], [("detector.dark_current", "seed")]),
       ("detector.shot_noise", ["seed"], []), ("wfe.power_spectrum", ["seed"], [])] ∧
    (Gen.effTable.filter fun r => r.takesSeed).map
        (fun r => (r.globalRng, r.writes, r.cacheWrites, r.globalWrites)) = List.replicate 5 (false, [], [], []) ∧
    -- no other function builds a generator at all
    (Gen.effTable.filter fun r => !r.rngArgs.isEmpty && !r.seeded).map (·.fn) = [] := by decide +kernel

/-! ## cosmic rays -/

/-- the accumulation of ray deposits is non-negative at every pixel when every deposit is `flux · distance` with both
non-negative. (That `cosmic_rays` IS this accumulation — zeros frame of the requested shape, `+=` of per-ray frames, every
deposit non-negative — is sampled by the correspondence op `st.cosmic` on recorded per-ray frames, not proved: see UNPROVEN.) -/
theorem cosmic_accumulation_nonneg {K : Type} [Field K] [LinearOrder K] [IsStrictOrderedRing K]
    (deps : List (Nat × K × K)) (h : ∀ d ∈ deps, 0 ≤ d.2.1 ∧ 0 ≤ d.2.2) (i : Nat) : 0 ≤ cosmicFrame deps i := by
  unfold cosmicFrame sumList
  have key : ∀ (l : List (Nat × K × K)) (acc : K), 0 ≤ acc → (∀ d ∈ l, 0 ≤ d.2.1 ∧ 0 ≤ d.2.2) →
      0 ≤ l.foldl (fun acc d => acc + if d.1 = i then d.2.1 * d.2.2 else 0) acc := by
    intro l
    induction l with
    | nil => intro acc h0 _; simpa using h0
    | cons d ds ih =>
      intro acc h0 hd
      simp only [List.foldl_cons]
      apply ih
      · have := hd d (by simp)
        split_ifs
        · exact add_nonneg h0 (mul_nonneg this.1 this.2)
        · simpa using h0
      · exact fun e he => hd e (by simp [he])
  exact key deps 0 (le_refl 0) h

/-- shape and support of a cosmic-ray frame (the accumulation model): the frame is defined at every pixel of the requested shape,
is exactly 0 at every pixel no ray segment deposits into — in particular the whole frame is 0 when no ray strikes (`nrays = 0`) — and
adding one more deposit changes only its own pixel, by `flux · distance` -/
theorem cosmic_frame_support {K : Type} [Field K] (deps : List (Nat × K × K)) (i : Nat) :
    ((∀ d ∈ deps, d.1 ≠ i) → cosmicFrame deps i = 0) ∧ cosmicFrame ([] : List (Nat × K × K)) i = 0 ∧
    (∀ d : Nat × K × K, cosmicFrame (deps ++ [d]) i = cosmicFrame deps i + if d.1 = i then d.2.1 * d.2.2 else 0) := by
  have key : ∀ (l : List (Nat × K × K)) (acc : K), (∀ d ∈ l, d.1 ≠ i) →
      l.foldl (fun acc d => acc + if d.1 = i then d.2.1 * d.2.2 else 0) acc = acc := by
    intro l
    induction l with
    | nil => intro acc _; rfl
    | cons d ds ih =>
      intro acc h
      simp only [List.foldl_cons]
      rw [if_neg (h d (by simp)), add_zero]
      exact ih acc fun e he => h e (by simp [he])
  refine ⟨fun h => ?_, rfl, fun d => ?_⟩
  · unfold cosmicFrame sumList; exact key deps 0 h
  · unfold cosmicFrame sumList; rw [List.foldl_append]; rfl

/-- a cosmic-ray frame is finite in the only sense a real-valued model has: every pixel is bounded by the total charge deposited,
`0 ≤ frame i ≤ Σ flux · distance` over all deposits (non-negative deposits) -/
theorem cosmic_frame_bounded {K : Type} [Field K] [LinearOrder K] [IsStrictOrderedRing K]
    (deps : List (Nat × K × K)) (h : ∀ d ∈ deps, 0 ≤ d.2.1 ∧ 0 ≤ d.2.2) (i : Nat) :
    0 ≤ cosmicFrame deps i ∧ cosmicFrame deps i ≤ (deps.map fun d => d.2.1 * d.2.2).sum := by
  refine ⟨cosmic_accumulation_nonneg deps h i, ?_⟩
  unfold cosmicFrame sumList
  have key : ∀ (l : List (Nat × K × K)) (acc : K), (∀ d ∈ l, 0 ≤ d.2.1 ∧ 0 ≤ d.2.2) →
      l.foldl (fun acc d => acc + if d.1 = i then d.2.1 * d.2.2 else 0) acc ≤ acc + (l.map fun d => d.2.1 * d.2.2).sum := by
    intro l
    induction l with
    | nil => intro acc _; simp
    | cons d ds ih =>
      intro acc hd
      simp only [List.foldl_cons, List.map_cons, List.sum_cons]
      have hnn : 0 ≤ d.2.1 * d.2.2 := mul_nonneg (hd d (by simp)).1 (hd d (by simp)).2
      refine le_trans (ih _ fun e he => hd e (by simp [he])) ?_
      split_ifs <;> linarith
  simpa using key deps 0 h

end Lentil.C18
