import LentilVerif.Model.Rescale
import LentilVerif.Gen.Effects
import Mathlib.Algebra.Order.Floor.Ring
import Mathlib.Algebra.Order.Field.Basic
import Mathlib.Data.Rat.Floor
import Mathlib.Tactic.Ring
import Mathlib.Tactic.Linarith
import Mathlib.Tactic.FieldSimp
import Mathlib.Tactic.Positivity
/-! # C17 — resampling a plane changes its sampling, not its optics

**Partial**: the bookkeeping (pixel scale, shape, extent, identity at scale 1, binary mask, original untouched) is proved;
"transmitted power and propagated image are preserved to interpolation accuracy" is about the cubic-spline interpolator
(`scipy.ndimage.map_coordinates`, external) and has no theorem — it is measured by tools/harness/c17.py on smooth
apertures (unproven clause). -/
set_option linter.unusedSectionVars false
namespace Lentil.C17
open Lentil.Resc

variable {K : Type} [Field K] [LinearOrder K] [IsStrictOrderedRing K] [FloorRing K]

/-- rescaling by `s` divides the pixel scale by exactly `s` (so `s` samples of the new grid span one old sample) -/
theorem rescale_pixelscale (px s : K) (hs : s ≠ 0) : pixelscale px s = px / s ∧ pixelscale px s * s = px := by
  unfold pixelscale; exact ⟨rfl, by field_simp⟩

/-- resampling to a new pixel scale yields exactly that pixel scale -/
theorem resample_scale (px new : K) (hp : px ≠ 0) (hn : new ≠ 0) : pixelscale px (resampleScale px new) = new := by
  unfold pixelscale resampleScale; field_simp

/-- the rescaled arrays have `⌈n·s⌉` samples: the smallest integer count whose span covers the `n·s` new-grid samples -/
theorem rescale_shape (n : Int) (s : K) :
    outShape Int.ceil (fun k => (k : K)) n s = ⌈(n : K) * s⌉ ∧
    (n : K) * s ≤ (outShape Int.ceil (fun k => (k : K)) n s : K) ∧ (outShape Int.ceil (fun k => (k : K)) n s : K) < (n : K) * s + 1 := by
  unfold outShape
  exact ⟨rfl, Int.le_ceil _, Int.ceil_lt_add_one _⟩

/-- the physical extent (pixel scale × samples) is preserved to within one sample of the new grid:
`0 ≤ (px/s)·⌈n s⌉ − px·n < px/s` -/
theorem extent_within_one_sample (n : Int) (px s : K) (hp : 0 < px) (hs : 0 < s) :
    0 ≤ pixelscale px s * (outShape Int.ceil (fun k => (k : K)) n s : K) - px * n ∧
    pixelscale px s * (outShape Int.ceil (fun k => (k : K)) n s : K) - px * n < pixelscale px s := by
  obtain ⟨_, h1, h2⟩ := rescale_shape (K := K) n s
  unfold pixelscale
  set S : K := (outShape Int.ceil (fun k => (k : K)) n s : K)
  have hq : 0 < px / s := div_pos hp hs
  have e : px * n = px / s * (n * s) := by field_simp
  constructor
  · rw [e, ← mul_sub]; exact mul_nonneg hq.le (by linarith)
  · rw [e, ← mul_sub]
    calc px / s * (S - n * s) < px / s * 1 := mul_lt_mul_of_pos_left (by linarith) hq
      _ = px / s := mul_one _

/-- at scale 1 the output grid has the input's shape and every output sample is interpolated at its own integer coordinate -/
theorem rescale_one_coordinates_are_integers (n j : Int) :
    outShape Int.ceil (fun k => (k : K)) n (1 : K) = n ∧
    coord (fun k => (k : K)) (2 : K) (outShape Int.ceil (fun k => (k : K)) n (1 : K)) n (1 : K) j = (j : K) := by
  have h : outShape Int.ceil (fun k => (k : K)) n (1 : K) = n := by simp [outShape]
  refine ⟨h, ?_⟩
  rw [h]; unfold coord; ring

/-- hence rescaling by 1 is the identity, for every interpolator that reproduces the samples at integer coordinates
(contract of `map_coordinates`, every spline order) and every `eps ≤ 1` -/
theorem rescale_one_is_identity (interp interp1 : (Int → Int → K) → K → K → K)
    (hi : ∀ f (a b : Int), interp f (a : K) (b : K) = f a b) (hi1 : ∀ f (a b : Int), interp1 f (a : K) (b : K) = f a b)
    (eps : K) (he : eps ≤ 1) (n0 n1 : Int) (img : Int → Int → K) (i j : Int) :
    rescaleAt interp interp1 Int.ceil (fun k => (k : K)) 2 eps n0 n1 img 1 i j = img i j := by
  unfold rescaleAt
  simp only [(rescale_one_coordinates_are_integers (K := K) n0 i).2, (rescale_one_coordinates_are_integers (K := K) n1 j).2, hi, hi1]
  by_cases h0 : img i j = 0
  · simp [h0]
  · simp only [h0, if_false]
    have : ¬ ((1 : K) < eps) := not_lt.mpr he
    simp [this]

/-- the mask stays binary and a segmented mask keeps its segments -/
theorem mask_binary_segments_kept (segs : List (Int → Int → K)) (i j : Int) :
    (∀ m ∈ segs.map (fun m => fun a b => binarise (m a b)), m i j = 0 ∨ m i j = 1) ∧
    (segs.map (fun m => fun a b => binarise (m a b))).length = segs.length := by
  refine ⟨?_, by simp⟩
  intro m hm
  simp only [List.mem_map] at hm
  obtain ⟨f, _, rfl⟩ := hm
  by_cases h : f i j = 0 <;> simp [binarise, h]

/-- the original plane is untouched (regenerated part): the effect-site scan finds no in-place write on any argument of
`Plane.rescale`, `Plane.resample`, `util.rescale` (they work on `self.copy()` / fresh arrays) -/
theorem original_untouched :
    (Gen.effTable.filter fun r => ["plane.Plane.rescale", "plane.Plane.resample", "util.rescale"].contains r.fn).map
        (fun r => (r.fn, r.writes, r.cacheWrites, r.globalWrites)) =
      [("plane.Plane.resample", [], [], []), ("plane.Plane.rescale", [], [], []), ("util.rescale", [], [], [])] := by decide +kernel

/-- the driver runs the model with core `Rat.ceil`; on ℚ that is `Int.ceil` -/
theorem driver_ceil_is_ceil (q : ℚ) : Rat.ceil q = ⌈q⌉ := by
  rw [Rat.ceil_eq_neg_floor_neg]
  show -⌊-q⌋ = ⌈q⌉
  rw [Int.floor_neg]; simp

/-- non-vacuity of `extent_within_one_sample`: 5 samples of 2 mm rescaled by 3/2 give 8 samples of 4/3 mm: 32/3 − 10 = 2/3 < 4/3 -/
example : pixelscale (2 : ℚ) (3 / 2) * (8 : ℚ) - 2 * 5 = 2 / 3 := by norm_num [pixelscale]

end Lentil.C17
